#!/bin/bash
# Run once after a fresh restore, offline: builds the Lean project, the hooked build of /repo and nothing else.
set -e
cd "$(dirname "$0")"
mkdir -p .work/bin evidence replays
( cd lean && lake build Sympler Props PropsR symdrv 2>&1 | tail -3 )
B=.work/build-hooks
if [ ! -f $B/build.ninja ]; then
  cmake -G Ninja -S /repo -B $B -DCMAKE_BUILD_TYPE=RelWithDebInfo "-DCMAKE_CXX_FLAGS=-Wno-error -DKAUZLARI_SYMPLER_VERIF" > /dev/null
fi
cmake --build $B -j"$(nproc)" --target sympler 2>&1 | tail -2
B2=.work/build-omp
if [ ! -f $B2/build.ninja ]; then
  cmake -G Ninja -S /repo -B $B2 -DCMAKE_BUILD_TYPE=RelWithDebInfo "-DCMAKE_CXX_FLAGS=-Wno-error -fopenmp -DKAUZLARI_SYMPLER_VERIF" > /dev/null
fi
cmake --build $B2 -j"$(nproc)" --target sympler 2>&1 | tail -2
echo "setup done"
