/-
Property C16 — "Built-in kernels are normalised and consistent with their gradient weight".

For every cutoff `rc > 0` each built-in kernel without wall correction (Lucy, Square, Linear)
  * is non-negative on its support `[0, rc]`,
  * vanishes at the cutoff,
  * integrates to one over its support (3-D spherical-shell integral `∫₀^rc 4π r² W(r) dr`),
  * has a self-contribution branch (`r == NULL`) that agrees with the `r = 0` value of the pair branch,
  * and, where a gradient weight is provided (Lucy, Square), that weight equals `-W'(r)/r`
    for all `0 < r < rc` (stated as `HasDerivAt W (-(r * weight r)) r`).
`Linear::weight` throws unconditionally in the C++ (no gradient weight is provided), so there is
no weight theorem for Linear.

All definitions come from the GENERATED file `PropsR/Gen/KernelsReal.lean`
(translated from `wf_{lucy,square,linear}.{h,cpp}`); every proof below unfolds the generated
prefactors, so a changed prefactor / exponent in the C++ makes the corresponding proof fail.
-/
import PropsR.Gen.KernelsReal
import Mathlib.MeasureTheory.Integral.IntervalIntegral.FundThmCalculus
import Mathlib.Analysis.Calculus.Deriv.Pow
import Mathlib.Analysis.Calculus.Deriv.Mul
import Mathlib.Analysis.Calculus.Deriv.Add
import Mathlib.Tactic.Ring
import Mathlib.Tactic.FieldSimp
import Mathlib.Tactic.Positivity

namespace Sympler.PropsR.C16
open Sympler.Gen.KernelsReal
open Real

/-! ### Helper: derivative of a polynomial of degree ≤ 7 without constant term, scaled by `c`. -/

/-- `d/dx [c * (a₃ x³ + a₄ x⁴ + a₅ x⁵ + a₆ x⁶ + a₇ x⁷)]`. -/
private theorem hasDerivAt_poly (c a3 a4 a5 a6 a7 x : ℝ) :
    HasDerivAt (fun x : ℝ => c * (a3 * x ^ 3 + a4 * x ^ 4 + a5 * x ^ 5 + a6 * x ^ 6 + a7 * x ^ 7))
      (c * (3 * a3 * x ^ 2 + 4 * a4 * x ^ 3 + 5 * a5 * x ^ 4 + 6 * a6 * x ^ 5 + 7 * a7 * x ^ 6)) x := by
  have h3 := (hasDerivAt_pow 3 x).const_mul a3
  have h4 := (hasDerivAt_pow 4 x).const_mul a4
  have h5 := (hasDerivAt_pow 5 x).const_mul a5
  have h6 := (hasDerivAt_pow 6 x).const_mul a6
  have h7 := (hasDerivAt_pow 7 x).const_mul a7
  have h := ((((h3.add h4).add h5).add h6).add h7).const_mul c
  refine h.congr_deriv ?_
  push_cast
  ring

/-- Fundamental theorem of calculus specialised to the polynomials above on `[0, rc]`. -/
private theorem integral_poly (c a3 a4 a5 a6 a7 rc : ℝ) (f : ℝ → ℝ)
    (hf : ∀ x, f x = c * (3 * a3 * x ^ 2 + 4 * a4 * x ^ 3 + 5 * a5 * x ^ 4 + 6 * a6 * x ^ 5
        + 7 * a7 * x ^ 6)) :
    ∫ x in (0 : ℝ)..rc, f x
      = c * (a3 * rc ^ 3 + a4 * rc ^ 4 + a5 * rc ^ 5 + a6 * rc ^ 6 + a7 * rc ^ 7) := by
  have hfun : f = fun x => c * (3 * a3 * x ^ 2 + 4 * a4 * x ^ 3 + 5 * a5 * x ^ 4 + 6 * a6 * x ^ 5
        + 7 * a7 * x ^ 6) := funext hf
  rw [hfun]
  rw [intervalIntegral.integral_eq_sub_of_hasDerivAt
    (f := fun x : ℝ => c * (a3 * x ^ 3 + a4 * x ^ 4 + a5 * x ^ 5 + a6 * x ^ 6 + a7 * x ^ 7))
    (fun x _ => hasDerivAt_poly c a3 a4 a5 a6 a7 x)
    (Continuous.intervalIntegrable (by fun_prop) _ _)]
  ring

/-! ## Lucy  (`wf_lucy.h`, `Lucy::setup` in `wf_lucy.cpp`) -/

theorem C16_Lucy_nonneg (rc r : ℝ) (hrc : 0 < rc) (hr0 : 0 ≤ r) (hr : r ≤ rc) :
    0 ≤ Lucy_interpolate rc r := by
  unfold Lucy_interpolate Lucy_factor_i
  have h1 : 0 ≤ rc - r := sub_nonneg.mpr hr
  have hpi := Real.pi_pos
  positivity

theorem C16_Lucy_zero_at_cutoff (rc : ℝ) : Lucy_interpolate rc rc = 0 := by
  unfold Lucy_interpolate
  simp

theorem C16_Lucy_normalised (rc : ℝ) (hrc : 0 < rc) :
    ∫ r in (0 : ℝ)..rc, 4 * π * r ^ 2 * Lucy_interpolate rc r = 1 := by
  rw [integral_poly (4 * π * Lucy_factor_i rc) (rc ^ 4 / 3) 0 (-(6 * rc ^ 2) / 5) (4 * rc / 3)
    (-3 / 7) rc _ (fun x => by unfold Lucy_interpolate; ring)]
  unfold Lucy_factor_i
  have hpi := Real.pi_ne_zero
  have hrc' := hrc.ne'
  field_simp
  ring

theorem C16_Lucy_self (rc : ℝ) : Lucy_interpolate_self rc = Lucy_interpolate rc 0 := by
  unfold Lucy_interpolate_self Lucy_interpolate
  ring

/-- `Lucy::weight(r) = -W'(r)/r` for `0 < r < rc`. -/
theorem C16_Lucy_weight (rc r : ℝ) (hrc : 0 < rc) (_hr0 : 0 < r) (_hr : r < rc) :
    HasDerivAt (fun x => Lucy_interpolate rc x) (-(r * Lucy_weight rc r)) r := by
  unfold Lucy_interpolate Lucy_weight
  have hA := ((hasDerivAt_id' r).const_mul (3 : ℝ)).const_add rc
  have hB := ((hasDerivAt_id' r).const_sub rc).fun_pow 3
  have h := ((hA.fun_mul hB).const_mul (Lucy_factor_i rc))
  have hpi := Real.pi_ne_zero
  have hrc' := hrc.ne'
  refine (h.congr_deriv ?_).congr_of_eventuallyEq (Filter.Eventually.of_forall fun x => ?_)
  · unfold Lucy_factor_i Lucy_factor_w
    push_cast
    field_simp
    ring
  · ring

theorem C16_Lucy_weight_self (rc : ℝ) : Lucy_weight_self rc = Lucy_weight rc 0 := by
  unfold Lucy_weight_self Lucy_weight
  ring

/-! ## Square  (`wf_square.h`, `Square::setup` in `wf_square.cpp`) -/

theorem C16_Square_nonneg (rc r : ℝ) (hrc : 0 < rc) (_hr0 : 0 ≤ r) (hr : r ≤ rc) :
    0 ≤ Square_interpolate rc r := by
  unfold Square_interpolate Square_factor
  have h1 : 0 ≤ rc - r := sub_nonneg.mpr hr
  have hpi := Real.pi_pos
  positivity

theorem C16_Square_zero_at_cutoff (rc : ℝ) : Square_interpolate rc rc = 0 := by
  unfold Square_interpolate
  simp

theorem C16_Square_normalised (rc : ℝ) (hrc : 0 < rc) :
    ∫ r in (0 : ℝ)..rc, 4 * π * r ^ 2 * Square_interpolate rc r = 1 := by
  rw [integral_poly (4 * π * Square_factor rc) (rc ^ 2 / 3) (-rc / 2) (1 / 5) 0 0 rc _
    (fun x => by unfold Square_interpolate; ring)]
  unfold Square_factor
  have hpi := Real.pi_ne_zero
  have hrc' := hrc.ne'
  field_simp
  ring

theorem C16_Square_self (rc : ℝ) : Square_interpolate_self rc = Square_interpolate rc 0 := by
  unfold Square_interpolate_self Square_interpolate
  ring

/-- `Square::weight(r) = -W'(r)/r` for `0 < r < rc` (the C++ throws for `r = 0`). -/
theorem C16_Square_weight (rc r : ℝ) (hrc : 0 < rc) (hr0 : 0 < r) (_hr : r < rc) :
    HasDerivAt (fun x => Square_interpolate rc x) (-(r * Square_weight rc r)) r := by
  unfold Square_interpolate Square_weight
  have hB := (hasDerivAt_id' r).const_sub rc
  have h := ((hB.fun_mul hB).const_mul (Square_factor rc))
  have hpi := Real.pi_ne_zero
  have hrc' := hrc.ne'
  have hr0' := hr0.ne'
  refine (h.congr_deriv ?_).congr_of_eventuallyEq (Filter.Eventually.of_forall fun x => ?_)
  · unfold Square_factor
    field_simp
    ring
  · ring

/-! ## Linear  (`wf_linear.h`, `Linear::setup` in `wf_linear.cpp`)

`Linear::weight` throws unconditionally (`gError`): the kernel provides no gradient weight, so
there is nothing to relate to `-W'(r)/r` and no `C16_Linear_weight`. -/

theorem C16_Linear_nonneg (rc r : ℝ) (hrc : 0 < rc) (_hr0 : 0 ≤ r) (hr : r ≤ rc) :
    0 ≤ Linear_interpolate rc r := by
  unfold Linear_interpolate Linear_factor
  have h1 : 0 ≤ rc - r := sub_nonneg.mpr hr
  have hpi := Real.pi_pos
  positivity

theorem C16_Linear_zero_at_cutoff (rc : ℝ) : Linear_interpolate rc rc = 0 := by
  unfold Linear_interpolate
  simp

theorem C16_Linear_normalised (rc : ℝ) (hrc : 0 < rc) :
    ∫ r in (0 : ℝ)..rc, 4 * π * r ^ 2 * Linear_interpolate rc r = 1 := by
  rw [integral_poly (4 * π * Linear_factor rc) (rc / 3) (-1 / 4) 0 0 0 rc _
    (fun x => by unfold Linear_interpolate; ring)]
  unfold Linear_factor
  have hpi := Real.pi_ne_zero
  have hrc' := hrc.ne'
  field_simp
  ring

theorem C16_Linear_self (rc : ℝ) : Linear_interpolate_self rc = Linear_interpolate rc 0 := by
  unfold Linear_interpolate_self Linear_interpolate
  ring

/-- Non-vacuity of the hypotheses used above (`0 < rc`, `0 < r < rc`). -/
example : ∃ rc r : ℝ, 0 < rc ∧ 0 < r ∧ r < rc := ⟨2, 1, two_pos, one_pos, one_lt_two⟩

end Sympler.PropsR.C16
