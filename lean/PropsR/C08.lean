/-
Property C08, part A — reflection laws over ℝ.

All statements are about the GENERATED definitions `Sympler.Gen.ReflectorsReal.{Mirror,BounceBack,Stochastic}_reflect`
(translated from /repo/source/include/reflector/reflector_{mirror,bounce_back,stochastic}.h on every check run);
every proof unfolds those let-chains, so a changed sign or a swapped operand in the C++ breaks a proof here.

Frame: `n` = wall normal (unit, pointing INTO the domain), `t1` = `wall->inPlane()` (unit, orthogonal to `n`),
`t2 := n × t1` (computed inside `reflect`).
-/
import PropsR.Gen.ReflectorsReal
import Sympler.Collide
import Mathlib.Tactic.Ring
import Mathlib.Tactic.LinearCombination
import Mathlib.Tactic.Positivity

namespace Sympler.PropsR.C08
open Sympler.Gen.ReflectorsReal
open Real

/-! ### vector identities (no hypotheses) -/

theorem ext3 {a b : V3} (hx : a.x = b.x) (hy : a.y = b.y) (hz : a.z = b.z) : a = b := by
  cases a; cases b; simp_all

theorem cross_dot_left (a b : V3) : V3.dot (V3.cross a b) a = 0 := by
  simp only [V3.dot, V3.cross]; ring

theorem cross_dot_right (a b : V3) : V3.dot (V3.cross a b) b = 0 := by
  simp only [V3.dot, V3.cross]; ring

/-- Lagrange: `|a × b|² = |a|²|b|² − (a·b)²` -/
theorem cross_dot_self (a b : V3) :
    V3.dot (V3.cross a b) (V3.cross a b) = V3.dot a a * V3.dot b b - (V3.dot a b) ^ 2 := by
  simp only [V3.dot, V3.cross]; ring

/-- An orthonormal pair `n, t1` completed by `t2 = n × t1`. -/
structure Frame (n t1 : V3) : Prop where
  nn : V3.dot n n = 1
  tt : V3.dot t1 t1 = 1
  nt : V3.dot n t1 = 0

/-- non-vacuity: the frame of the face `z = 0` of a cuboid -/
example : Frame ⟨0, 0, 1⟩ ⟨1, 0, 0⟩ := ⟨by simp [V3.dot], by simp [V3.dot], by simp [V3.dot]⟩

/-- `a n + b t1 + c (n × t1)` -/
def comb (n t1 : V3) (a b c : ℝ) : V3 :=
  V3.add (V3.add (V3.smul a n) (V3.smul b t1)) (V3.smul c (V3.cross n t1))

theorem comb_dot_n {n t1 : V3} (F : Frame n t1) (a b c : ℝ) : V3.dot (comb n t1 a b c) n = a := by
  have hn := F.nn; have hnt := F.nt
  simp only [comb, V3.dot, V3.add, V3.smul, V3.cross] at *
  linear_combination a * hn + b * hnt

theorem comb_dot_t1 {n t1 : V3} (F : Frame n t1) (a b c : ℝ) : V3.dot (comb n t1 a b c) t1 = b := by
  have ht := F.tt; have hnt := F.nt
  simp only [comb, V3.dot, V3.add, V3.smul, V3.cross] at *
  linear_combination a * hnt + b * ht

theorem comb_dot_t2 {n t1 : V3} (F : Frame n t1) (a b c : ℝ) :
    V3.dot (comb n t1 a b c) (V3.cross n t1) = c := by
  have hn := F.nn; have ht := F.tt; have hnt := F.nt
  have hL := cross_dot_self n t1
  simp only [comb, V3.dot, V3.add, V3.smul, V3.cross] at *
  linear_combination c * hL + c * (t1.x * t1.x + t1.y * t1.y + t1.z * t1.z) * hn + c * ht
    - c * (n.x * t1.x + n.y * t1.y + n.z * t1.z) * hnt

theorem comb_dot_self {n t1 : V3} (F : Frame n t1) (a b c : ℝ) :
    V3.dot (comb n t1 a b c) (comb n t1 a b c) = a ^ 2 + b ^ 2 + c ^ 2 := by
  have hn := F.nn; have ht := F.tt; have hnt := F.nt
  have hL := cross_dot_self n t1
  simp only [comb, V3.dot, V3.add, V3.smul, V3.cross] at *
  linear_combination a ^ 2 * hn + b ^ 2 * ht + 2 * a * b * hnt
    + c ^ 2 * (hL + (t1.x * t1.x + t1.y * t1.y + t1.z * t1.z) * hn + ht
        - (n.x * t1.x + n.y * t1.y + n.z * t1.z) * hnt)

/-- Completeness of the right-handed orthonormal frame `{n, t1, n × t1}`:
`v = (v·n) n + (v·t1) t1 + (v·t2) t2`.  (Reciprocal-basis identity with `det = n·(t1 × t2) = 1`.) -/
theorem frame_complete {n t1 : V3} (F : Frame n t1) (v : V3) :
    v = comb n t1 (V3.dot v n) (V3.dot v t1) (V3.dot v (V3.cross n t1)) := by
  have hn := F.nn; have ht := F.tt; have hnt := F.nt
  -- e := v − comb is orthogonal to n, t1, t2
  have e1 := comb_dot_n F (V3.dot v n) (V3.dot v t1) (V3.dot v (V3.cross n t1))
  have e2 := comb_dot_t1 F (V3.dot v n) (V3.dot v t1) (V3.dot v (V3.cross n t1))
  have e3 := comb_dot_t2 F (V3.dot v n) (V3.dot v t1) (V3.dot v (V3.cross n t1))
  generalize hp : comb n t1 (V3.dot v n) (V3.dot v t1) (V3.dot v (V3.cross n t1)) = p at *
  -- Cramer: det · e = (e·n)(t1×t2) + (e·t1)(t2×n) + (e·t2)(n×t1), det = (n·n)(t1·t1) − (n·t1)² = 1
  simp only [V3.dot, V3.cross] at *
  apply ext3
  · linear_combination
      (-(v.x - p.x) * (t1.x * t1.x + t1.y * t1.y + t1.z * t1.z)) * hn - (v.x - p.x) * ht
      + (v.x - p.x) * (n.x * t1.x + n.y * t1.y + n.z * t1.z) * hnt
      - (t1.y * (n.x * t1.y - n.y * t1.x) - t1.z * (n.z * t1.x - n.x * t1.z)) * e1
      - ((n.z * t1.x - n.x * t1.z) * n.z - (n.x * t1.y - n.y * t1.x) * n.y) * e2
      - (n.y * t1.z - n.z * t1.y) * e3
  · linear_combination
      (-(v.y - p.y) * (t1.x * t1.x + t1.y * t1.y + t1.z * t1.z)) * hn - (v.y - p.y) * ht
      + (v.y - p.y) * (n.x * t1.x + n.y * t1.y + n.z * t1.z) * hnt
      - (t1.z * (n.y * t1.z - n.z * t1.y) - t1.x * (n.x * t1.y - n.y * t1.x)) * e1
      - ((n.x * t1.y - n.y * t1.x) * n.x - (n.y * t1.z - n.z * t1.y) * n.z) * e2
      - (n.z * t1.x - n.x * t1.z) * e3
  · linear_combination
      (-(v.z - p.z) * (t1.x * t1.x + t1.y * t1.y + t1.z * t1.z)) * hn - (v.z - p.z) * ht
      + (v.z - p.z) * (n.x * t1.x + n.y * t1.y + n.z * t1.z) * hnt
      - (t1.x * (n.z * t1.x - n.x * t1.z) - t1.y * (n.y * t1.z - n.z * t1.y)) * e1
      - ((n.y * t1.z - n.z * t1.y) * n.y - (n.z * t1.x - n.x * t1.z) * n.x) * e2
      - (n.x * t1.y - n.y * t1.x) * e3


/-! ### ReflectorMirror -/

/-- The generated mirror reflection written with `comb`. -/
theorem mirror_eq (eps : ℝ) (v hit n t1 : V3) :
    Mirror_reflect eps v hit n t1 =
      (V3.add hit (V3.smul eps n),
       comb n t1 (V3.dot (V3.neg v) n) (V3.dot v t1) (V3.dot v (V3.cross n t1))) := rfl

theorem neg_dot (v n : V3) : V3.dot (V3.neg v) n = - V3.dot v n := by
  simp only [V3.dot, V3.neg]; ring

/-- mirror: the normal velocity component is reversed exactly -/
theorem C08_mirror_normal (eps : ℝ) (v hit n t1 : V3) (F : Frame n t1) :
    V3.dot (Mirror_reflect eps v hit n t1).2 n = - V3.dot v n := by
  rw [mirror_eq]; simp only [comb_dot_n F, neg_dot]

/-- mirror: both tangential components are unchanged -/
theorem C08_mirror_tangential (eps : ℝ) (v hit n t1 : V3) (F : Frame n t1) :
    V3.dot (Mirror_reflect eps v hit n t1).2 t1 = V3.dot v t1 ∧
    V3.dot (Mirror_reflect eps v hit n t1).2 (V3.cross n t1) = V3.dot v (V3.cross n t1) := by
  rw [mirror_eq]; exact ⟨comb_dot_t1 F _ _ _, comb_dot_t2 F _ _ _⟩

/-- mirror: `v' = v − 2 (v·n) n` -/
theorem C08_mirror_explicit (eps : ℝ) (v hit n t1 : V3) (F : Frame n t1) :
    (Mirror_reflect eps v hit n t1).2 = V3.add v (V3.neg (V3.smul (2 * V3.dot v n) n)) := by
  have hc := frame_complete F v
  rw [mirror_eq]
  simp only [neg_dot]
  generalize V3.dot v n = a at *
  generalize V3.dot v t1 = b at *
  generalize V3.dot v (V3.cross n t1) = c at *
  have hx := congrArg V3.x hc; have hy := congrArg V3.y hc; have hz := congrArg V3.z hc
  simp only [comb, V3.add, V3.smul, V3.neg] at *
  apply ext3
  · linear_combination (-1 : ℝ) * hx
  · linear_combination (-1 : ℝ) * hy
  · linear_combination (-1 : ℝ) * hz

/-- mirror: the speed is preserved (`v'·v' = v·v`) -/
theorem C08_mirror_speed (eps : ℝ) (v hit n t1 : V3) (F : Frame n t1) :
    V3.dot (Mirror_reflect eps v hit n t1).2 (Mirror_reflect eps v hit n t1).2 = V3.dot v v := by
  have hc := frame_complete F v
  rw [mirror_eq]
  simp only [comb_dot_self F, neg_dot]
  have h2 := comb_dot_self F (V3.dot v n) (V3.dot v t1) (V3.dot v (V3.cross n t1))
  rw [← hc] at h2
  rw [h2]; ring

theorem C08_mirror_speed_norm (eps : ℝ) (v hit n t1 : V3) (F : Frame n t1) :
    V3.norm (Mirror_reflect eps v hit n t1).2 = V3.norm v := by
  unfold V3.norm; rw [C08_mirror_speed eps v hit n t1 F]

/-- mirror: the particle is put at `hit + eps n` -/
theorem C08_mirror_position (eps : ℝ) (v hit n t1 : V3) :
    (Mirror_reflect eps v hit n t1).1 = V3.add hit (V3.smul eps n) := rfl

/-! ### ReflectorBounceBack -/

theorem C08_bounce_back (eps : ℝ) (v hit n t1 : V3) :
    (BounceBack_reflect eps v hit n t1).2 = V3.neg v ∧
    (BounceBack_reflect eps v hit n t1).1 = V3.add hit (V3.smul eps n) := ⟨rfl, rfl⟩

theorem C08_bounce_back_speed (eps : ℝ) (v hit n t1 : V3) :
    V3.norm (BounceBack_reflect eps v hit n t1).2 = V3.norm v := by
  simp only [BounceBack_reflect, V3.norm, V3.dot, V3.neg]; congr 1; ring

/-! ### ReflectorStochastic -/

theorem stochastic_eq (eps u1 u2 : ℝ) (v hit n t1 : V3) :
    Stochastic_reflect eps u1 u2 v hit n t1 =
      (V3.add hit (V3.smul eps n),
       comb n t1 (V3.norm v * Real.cos (u1 * π / 2))
         (V3.norm v * Real.sin (u1 * π / 2) * Real.cos (u2 * 2 * π))
         (V3.norm v * Real.sin (u1 * π / 2) * Real.sin (u2 * 2 * π))) := rfl

theorem norm_nonneg (v : V3) : 0 ≤ V3.norm v := Real.sqrt_nonneg _

/-- stochastic: the speed is preserved for ALL values of the two random numbers -/
theorem C08_stochastic_speed (eps u1 u2 : ℝ) (v hit n t1 : V3) (F : Frame n t1) :
    V3.norm (Stochastic_reflect eps u1 u2 v hit n t1).2 = V3.norm v := by
  rw [stochastic_eq]
  show Real.sqrt (V3.dot _ _) = V3.norm v
  rw [comb_dot_self F]
  have h1 := Real.cos_sq_add_sin_sq (u1 * π / 2)
  have h2 := Real.cos_sq_add_sin_sq (u2 * 2 * π)
  have : (V3.norm v * Real.cos (u1 * π / 2)) ^ 2
      + (V3.norm v * Real.sin (u1 * π / 2) * Real.cos (u2 * 2 * π)) ^ 2
      + (V3.norm v * Real.sin (u1 * π / 2) * Real.sin (u2 * 2 * π)) ^ 2 = (V3.norm v) ^ 2 := by
    linear_combination (V3.norm v) ^ 2 * h1 + (V3.norm v) ^ 2 * (Real.sin (u1 * π / 2)) ^ 2 * h2
  rw [this]
  exact Real.sqrt_sq (norm_nonneg v)

theorem norm_pos_of_ne {v : V3} (hv : v ≠ ⟨0, 0, 0⟩) : 0 < V3.norm v := by
  unfold V3.norm
  apply Real.sqrt_pos.mpr
  by_contra h
  apply hv
  have hx := sq_nonneg v.x; have hy := sq_nonneg v.y; have hz := sq_nonneg v.z
  simp only [V3.dot] at h
  have h0 : v.x * v.x + v.y * v.y + v.z * v.z = 0 := by nlinarith
  have ex : v.x = 0 := by nlinarith
  have ey : v.y = 0 := by nlinarith
  have ez : v.z = 0 := by nlinarith
  exact ext3 ex ey ez

/-- stochastic: the new normal component is `|v| cos(u1 π/2)`; for `0 ≤ u1 < 1` (the range of `uniform()`)
and `v ≠ 0` it is positive: the particle is re-emitted INTO the domain (`n` is the inward normal). -/
theorem C08_stochastic_inward (eps u1 u2 : ℝ) (v hit n t1 : V3) (F : Frame n t1) :
    V3.dot (Stochastic_reflect eps u1 u2 v hit n t1).2 n = V3.norm v * Real.cos (u1 * π / 2) ∧
    (0 ≤ u1 → u1 < 1 → v ≠ ⟨0, 0, 0⟩ → 0 < V3.dot (Stochastic_reflect eps u1 u2 v hit n t1).2 n) := by
  rw [stochastic_eq]
  refine ⟨comb_dot_n F _ _ _, fun h0 h1 hv => ?_⟩
  simp only [comb_dot_n F]
  have hpi := Real.pi_pos
  have hc : 0 < Real.cos (u1 * π / 2) := by
    apply Real.cos_pos_of_mem_Ioo
    constructor
    · have : 0 ≤ u1 * π := mul_nonneg h0 hpi.le
      linarith
    · have : u1 * π < 1 * π := mul_lt_mul_of_pos_right h1 hpi
      linarith
  exact mul_pos (norm_pos_of_ne hv) hc

theorem C08_stochastic_position (eps u1 u2 : ℝ) (v hit n t1 : V3) :
    (Stochastic_reflect eps u1 u2 v hit n t1).1 = V3.add hit (V3.smul eps n) := rfl

/-! ### re-emission is strictly inside -/

/-- All three reflectors put the particle at `r' = hit + eps n`; its distance from the wall plane along the inward
unit normal is exactly `eps`, hence `> 0` for `eps > 0`: strictly on the domain side of the wall. -/
theorem C08_reemitted_inside (eps : ℝ) (hit n : V3) (hn : V3.dot n n = 1) (heps : 0 < eps) :
    V3.dot (V3.add (V3.add hit (V3.smul eps n)) (V3.neg hit)) n = eps ∧
    0 < V3.dot (V3.add (V3.add hit (V3.smul eps n)) (V3.neg hit)) n := by
  have h : V3.dot (V3.add (V3.add hit (V3.smul eps n)) (V3.neg hit)) n = eps := by
    simp only [V3.dot, V3.add, V3.smul, V3.neg] at *
    linear_combination eps * hn
  exact ⟨h, by rw [h]; exact heps⟩

/-- the same for the coordinate form used for a cuboid face: wall `x_d = a`, inward normal `s e_d`, `s = ±1`:
the re-emitted particle has `s (x_d − a) = eps`. -/
example (eps a : ℝ) (heps : 0 < eps) (hit : V3) (hh : hit.z = a) :
    (V3.add hit (V3.smul eps ⟨0, 0, -1⟩)).z = a - eps ∧ (V3.add hit (V3.smul eps ⟨0, 0, -1⟩)).z < a := by
  simp only [V3.add, V3.smul, hh]; constructor <;> linarith

/-! ### the executable model uses the Rat instances of the generated definitions -/

/-- embedding of the model's `Fin 3 → Rat` vectors -/
def toR (a : Sympler.Collide.V3) : V3 := ⟨(a 0 : ℝ), (a 1 : ℝ), (a 2 : ℝ)⟩

theorem C08_mirror_rat_instance (eps : ℚ) (v hit n t1 : Sympler.Collide.V3) :
    Mirror_reflect (eps : ℝ) (toR v) (toR hit) (toR n) (toR t1) =
      (toR (Sympler.Collide.mirrorReflect eps v hit n t1).1, toR (Sympler.Collide.mirrorReflect eps v hit n t1).2) := by
  simp only [Mirror_reflect, Sympler.Collide.mirrorReflect, toR, V3.add, V3.smul, V3.dot, V3.neg, V3.cross,
    Sympler.Collide.V3.add, Sympler.Collide.V3.smul, Sympler.Collide.V3.dot, Sympler.Collide.V3.neg,
    Sympler.Collide.V3.cross, Prod.mk.injEq, V3.mk.injEq]
  have e01 : (0 : Fin 3) + 1 = 1 := by decide
  have e02 : (0 : Fin 3) + 2 = 2 := by decide
  have e11 : (1 : Fin 3) + 1 = 2 := by decide
  have e12 : (1 : Fin 3) + 2 = 0 := by decide
  have e21 : (2 : Fin 3) + 1 = 0 := by decide
  have e22 : (2 : Fin 3) + 2 = 1 := by decide
  simp only [e01, e02, e11, e12, e21, e22]
  push_cast
  refine ⟨⟨?_, ?_, ?_⟩, ⟨?_, ?_, ?_⟩⟩ <;> ring

theorem C08_bounce_back_rat_instance (eps : ℚ) (v hit n t1 : Sympler.Collide.V3) :
    BounceBack_reflect (eps : ℝ) (toR v) (toR hit) (toR n) (toR t1) =
      (toR (Sympler.Collide.bounceBackReflect eps v hit n t1).1,
       toR (Sympler.Collide.bounceBackReflect eps v hit n t1).2) := by
  simp only [BounceBack_reflect, Sympler.Collide.bounceBackReflect, toR, V3.add, V3.smul, V3.neg,
    Sympler.Collide.V3.add, Sympler.Collide.V3.smul, Sympler.Collide.V3.neg, Prod.mk.injEq, V3.mk.injEq]
  push_cast
  refine ⟨⟨?_, ?_, ?_⟩, ⟨?_, ?_, ?_⟩⟩ <;> ring

end Sympler.PropsR.C08
