/-
Property C08, part B — accelerated flight: the hit times of a wall plane under a constant force.

All statements are about the GENERATED definition `Sympler.Gen.HitTimeReal.solveHitTimeEquation`
(translated statement by statement from `IntegratorVelocityVerlet::solveHitTimeEquation` on every check run); every proof unfolds
that let/if chain, so a dropped root, a changed comparison or an added shortcut in the C++ breaks a proof here.

Setting.  With `a = (n·F)/m/2`, `b = n·v`, `c = n·r − nDotR` the signed distance of the particle from the wall plane at time `t`
of the step is `traj a b c t = a t² + b t + c`  (`n·hitPos(t) − nDotR` for `IntegratorVelocityVerlet::hitPos`; `n` points into
the domain, so the particle is inside while `traj > 0`).
External code is a parameter with an explicit contract:
  `GslSpec gsl`    what the caller relies on from `gsl_poly_solve_quadratic` for `a ≠ 0`: no root reported iff the discriminant is
                   negative, otherwise two roots in ascending order that factor the polynomial;
  `SortSpec sortL` `std::sort`: a sorted permutation.
`gslReal_spec` / `insertionSort_spec` show that both contracts are satisfiable (by the textbook formulas).
The case `a = 0 ∧ b = 0` (division by zero: ±inf or NaN in the C++, `0` in a real-number model) is excluded from the statements
about roots; the sampled Float validation of the translator covers it (no hit is reported by the real code).
-/
import Mathlib.Analysis.Real.Sqrt
import Mathlib.Data.List.Sort
import Mathlib.Tactic.Linarith
import Mathlib.Tactic.Positivity
import Mathlib.Tactic.FieldSimp
import Mathlib.Tactic.Ring
import Mathlib.Tactic.LinearCombination
import Mathlib.Tactic.NormNum
import Mathlib.Data.Rat.Cast.Order
import PropsR.Gen.HitTimeReal
import Sympler.Gen.CollideGen

namespace Sympler.PropsR.C08F
open Sympler.Gen.HitTimeReal
noncomputable section

/-- signed distance from the wall plane at time `t` -/
def traj (a b c t : ℝ) : ℝ := a * t * t + b * t + c

/-- contract of `gsl_poly_solve_quadratic (a, b, c, &t0, &t1)` for `a ≠ 0` -/
structure GslSpec (gsl : ℝ → ℝ → ℝ → Nat × ℝ × ℝ) : Prop where
  none_of_neg : ∀ a b c, a ≠ 0 → b * b - 4 * a * c < 0 → (gsl a b c).1 = 0
  two_of_nonneg : ∀ a b c, a ≠ 0 → 0 ≤ b * b - 4 * a * c →
    (gsl a b c).1 = 2 ∧ (gsl a b c).2.1 ≤ (gsl a b c).2.2 ∧
      ∀ t, traj a b c t = a * (t - (gsl a b c).2.1) * (t - (gsl a b c).2.2)

/-- contract of `std::sort` -/
def SortSpec (sortL : List ℝ → List ℝ) : Prop := ∀ l, (sortL l).Perm l ∧ (sortL l).Pairwise (· ≤ ·)

/-- the coefficients the code computes -/
def coefA (mass nF : ℝ) : ℝ := nF / mass / 2

/-- the result vector of the generated function -/
abbrev times (gsl : ℝ → ℝ → ℝ → Nat × ℝ × ℝ) (sortL : List ℝ → List ℝ) (eps mass nF nV nR nDotR : ℝ) : List ℝ :=
  solveHitTimeEquation gsl sortL eps mass nF nV nR nDotR

/-! ### the contracts are satisfiable -/

def gslReal (a b c : ℝ) : Nat × ℝ × ℝ :=
  if b * b - 4 * a * c < 0 then (0, 0, 0)
  else
    let s := Real.sqrt (b * b - 4 * a * c)
    let r1 := (-b - s) / (2 * a)
    let r2 := (-b + s) / (2 * a)
    if r1 ≤ r2 then (2, r1, r2) else (2, r2, r1)

theorem gslReal_spec : GslSpec gslReal := by
  constructor
  · intro a b c _ h
    simp [gslReal, h]
  · intro a b c ha h
    have hn : ¬ (b * b - 4 * a * c < 0) := not_lt.mpr h
    unfold gslReal
    simp only [hn, if_false]
    have hs : Real.sqrt (b * b - 4 * a * c) * Real.sqrt (b * b - 4 * a * c) = b * b - 4 * a * c := Real.mul_self_sqrt h
    generalize Real.sqrt (b * b - 4 * a * c) = s at hs ⊢
    have key : ∀ t, traj a b c t
        = a * (t - (-b - s) / (2 * a)) * (t - (-b + s) / (2 * a)) := by
      intro t
      unfold traj
      have h2a : (2 * a) ≠ 0 := mul_ne_zero two_ne_zero ha
      field_simp
      linear_combination (1 : ℝ) * hs
    by_cases hle : (-b - s) / (2 * a) ≤ (-b + s) / (2 * a)
    · rw [if_pos hle]
      exact ⟨rfl, hle, key⟩
    · rw [if_neg hle]
      refine ⟨rfl, le_of_lt (not_le.mp hle), ?_⟩
      intro t
      rw [key t]
      ring

theorem insertionSort_spec : SortSpec (List.insertionSort (· ≤ ·)) := by
  intro l
  exact ⟨List.perm_insertionSort _ l, List.pairwise_insertionSort _ l⟩

/-! ### membership in the result vector -/

section
variable {gsl : ℝ → ℝ → ℝ → Nat × ℝ × ℝ} {sortL : List ℝ → List ℝ}

theorem mem_sort (hs : SortSpec sortL) (l : List ℝ) (t : ℝ) : t ∈ sortL l ↔ t ∈ l := (hs l).1.mem_iff

/-- the linear branch (`a == 0`) -/
theorem times_linear (eps mass nF nV nR nDotR : ℝ) (ha : coefA mass nF = 0) :
    times gsl sortL eps mass nF nV nR nDotR
      = if -(nR - nDotR) / nV < eps then [] else [-(nR - nDotR) / nV] := by
  unfold coefA at ha
  simp [times, solveHitTimeEquation, ha]

/-- the quadratic branch (`a != 0`), as a membership statement -/
theorem mem_times_quadratic (hs : SortSpec sortL) (eps mass nF nV nR nDotR : ℝ) (ha : coefA mass nF ≠ 0) (t : ℝ) :
    t ∈ times gsl sortL eps mass nF nV nR nDotR ↔
      let g := gsl (coefA mass nF) nV (nR - nDotR)
      ¬ (g.1 = 0 ∨ (g.2.1 < eps ∧ g.2.2 < eps)) ∧ (if g.2.1 < eps then t = g.2.2 else (t = g.2.1 ∨ t = g.2.2)) := by
  unfold coefA at ha
  simp only [times, solveHitTimeEquation, coefA, ne_eq, ha, not_false_eq_true, if_true]
  by_cases h1 : (gsl (nF / mass / 2) nV (nR - nDotR)).1 = 0 ∨
      ((gsl (nF / mass / 2) nV (nR - nDotR)).2.1 < eps ∧ (gsl (nF / mass / 2) nV (nR - nDotR)).2.2 < eps)
  · simp [h1]
  · by_cases h2 : (gsl (nF / mass / 2) nV (nR - nDotR)).2.1 < eps
    · simp [h2, mem_sort hs]
    · simp [h2, mem_sort hs]

end

/-! ### soundness and completeness of the result vector -/

section
variable {gsl : ℝ → ℝ → ℝ → Nat × ℝ × ℝ} {sortL : List ℝ → List ℝ}

/-- every reported time is a root of the distance polynomial -/
theorem C08F_sound (hg : GslSpec gsl) (hs : SortSpec sortL) (eps mass nF nV nR nDotR t : ℝ)
    (hab : coefA mass nF ≠ 0 ∨ nV ≠ 0) (ht : t ∈ times gsl sortL eps mass nF nV nR nDotR) :
    traj (coefA mass nF) nV (nR - nDotR) t = 0 := by
  by_cases ha : coefA mass nF = 0
  · have hb : nV ≠ 0 := by
      rcases hab with h | h
      · exact absurd ha h
      · exact h
    rw [times_linear eps mass nF nV nR nDotR ha] at ht
    split at ht
    · simp at ht
    · simp only [List.mem_singleton] at ht
      subst ht
      unfold traj
      rw [ha]
      field_simp
      ring
  · rw [mem_times_quadratic hs eps mass nF nV nR nDotR ha] at ht
    obtain ⟨h1, h2⟩ := ht
    have hn : (gsl (coefA mass nF) nV (nR - nDotR)).1 ≠ 0 := fun h => h1 (Or.inl h)
    have hd : 0 ≤ nV * nV - 4 * coefA mass nF * (nR - nDotR) := by
      by_contra hneg
      exact hn (hg.none_of_neg _ _ _ ha (not_le.mp hneg))
    obtain ⟨_, _, hf⟩ := hg.two_of_nonneg _ _ _ ha hd
    rw [hf t]
    split at h2
    · rw [h2]; ring
    · rcases h2 with h | h <;> rw [h] <;> ring

/-- no reported time lies before `c_wt_time_eps` -/
theorem C08F_sound_ge (hg : GslSpec gsl) (hs : SortSpec sortL) (eps mass nF nV nR nDotR t : ℝ)
    (ht : t ∈ times gsl sortL eps mass nF nV nR nDotR) : eps ≤ t := by
  by_cases ha : coefA mass nF = 0
  · rw [times_linear eps mass nF nV nR nDotR ha] at ht
    split at ht
    · simp at ht
    · rename_i h
      simp only [List.mem_singleton] at ht
      rw [ht]; exact not_lt.mp h
  · rw [mem_times_quadratic hs eps mass nF nV nR nDotR ha] at ht
    obtain ⟨h1, h2⟩ := ht
    have hn : (gsl (coefA mass nF) nV (nR - nDotR)).1 ≠ 0 := fun h => h1 (Or.inl h)
    have hd : 0 ≤ nV * nV - 4 * coefA mass nF * (nR - nDotR) := by
      by_contra hneg
      exact hn (hg.none_of_neg _ _ _ ha (not_le.mp hneg))
    obtain ⟨_, hle, _⟩ := hg.two_of_nonneg _ _ _ ha hd
    split at h2
    · rename_i h0
      rw [h2]
      by_contra hlt
      exact h1 (Or.inr ⟨h0, not_le.mp hlt⟩)
    · rename_i h0
      rcases h2 with h | h
      · rw [h]; exact not_lt.mp h0
      · rw [h]; exact le_trans (not_lt.mp h0) hle

/-- every root at or after `c_wt_time_eps` is reported: no hit time is dropped -/
theorem C08F_complete (hg : GslSpec gsl) (hs : SortSpec sortL) (eps mass nF nV nR nDotR t : ℝ)
    (hab : coefA mass nF ≠ 0 ∨ nV ≠ 0) (hroot : traj (coefA mass nF) nV (nR - nDotR) t = 0) (hge : eps ≤ t) :
    t ∈ times gsl sortL eps mass nF nV nR nDotR := by
  by_cases ha : coefA mass nF = 0
  · have hb : nV ≠ 0 := by
      rcases hab with h | h
      · exact absurd ha h
      · exact h
    rw [times_linear eps mass nF nV nR nDotR ha]
    have ht : t = -(nR - nDotR) / nV := by
      unfold traj at hroot
      rw [ha] at hroot
      field_simp
      linarith
    rw [← ht]
    simp [not_lt.mpr hge]
  · rw [mem_times_quadratic hs eps mass nF nV nR nDotR ha]
    have hd : 0 ≤ nV * nV - 4 * coefA mass nF * (nR - nDotR) := by
      have e : nV * nV - 4 * coefA mass nF * (nR - nDotR) = (2 * coefA mass nF * t + nV) ^ 2 := by
        unfold traj at hroot
        linear_combination (-4 * coefA mass nF) * hroot
      rw [e]; positivity
    obtain ⟨hn, hle, hf⟩ := hg.two_of_nonneg _ _ _ ha hd
    have hz := hf t
    rw [hroot] at hz
    have hcases : t = (gsl (coefA mass nF) nV (nR - nDotR)).2.1 ∨ t = (gsl (coefA mass nF) nV (nR - nDotR)).2.2 := by
      have h0 : coefA mass nF * (t - (gsl (coefA mass nF) nV (nR - nDotR)).2.1) * (t - (gsl (coefA mass nF) nV (nR - nDotR)).2.2) = 0 := hz.symm
      rcases mul_eq_zero.mp h0 with h | h
      · rcases mul_eq_zero.mp h with h' | h'
        · exact absurd h' ha
        · left; linarith
      · right; linarith
    refine ⟨?_, ?_⟩
    · rintro (h | ⟨h1, h2⟩)
      · rw [hn] at h; exact absurd h (by decide)
      · rcases hcases with h | h
        · rw [h] at hge; exact absurd h1 (not_lt.mpr hge)
        · rw [h] at hge; exact absurd h2 (not_lt.mpr hge)
    · split
      · rename_i h0
        rcases hcases with h | h
        · rw [h] at hge; exact absurd h0 (not_lt.mpr hge)
        · exact h
      · exact hcases

end

/-! ### the first crossing of the wall plane is reported, and `WallTriangle::hit` returns it -/

section
variable {gsl : ℝ → ℝ → ℝ → Nat × ℝ × ℝ} {sortL : List ℝ → List ℝ}

/-- **No slip-through at the level of one wall plane.**  A particle strictly inside (`traj 0 = c > 0`) whose accelerated path is
on or beyond the plane at some time `T ≥ 0` of the step has a reported hit time `t` with `0 < t ≤ T`, and the path is strictly
inside before `t`.  (`eps = c_wt_time_eps ≤ 0`; the tree has `c_wt_time_eps = 0`, see `C08F_timeEps`.) -/
theorem C08F_first_crossing (hg : GslSpec gsl) (hs : SortSpec sortL) (eps mass nF nV nR nDotR T : ℝ) (heps : eps ≤ 0)
    (hin : 0 < nR - nDotR) (hT : 0 ≤ T) (hout : traj (coefA mass nF) nV (nR - nDotR) T ≤ 0) :
    ∃ t ∈ times gsl sortL eps mass nF nV nR nDotR, 0 < t ∧ t ≤ T ∧ traj (coefA mass nF) nV (nR - nDotR) t = 0 ∧
      ∀ s, 0 ≤ s → s < t → 0 < traj (coefA mass nF) nV (nR - nDotR) s := by
  by_cases ha : coefA mass nF = 0
  · -- linear flight
    have hTpos : 0 < T := by
      rcases lt_or_eq_of_le hT with h | h
      · exact h
      · exfalso; rw [← h] at hout; unfold traj at hout; linarith
    have hb : nV < 0 := by
      unfold traj at hout; rw [ha] at hout
      by_contra hnb
      have : 0 ≤ nV * T := mul_nonneg (not_lt.mp hnb) hT
      linarith
    have hb0 : nV ≠ 0 := ne_of_lt hb
    have ht0 : 0 < -(nR - nDotR) / nV := by
      rw [neg_div]; rw [neg_pos]; exact div_neg_of_pos_of_neg hin hb
    refine ⟨-(nR - nDotR) / nV, ?_, ht0, ?_, ?_, ?_⟩
    · exact C08F_complete hg hs eps mass nF nV nR nDotR _ (Or.inr hb0)
        (by unfold traj; rw [ha]; field_simp; ring) (le_trans heps (le_of_lt ht0))
    · unfold traj at hout; rw [ha] at hout
      rw [div_le_iff_of_neg hb]
      linarith
    · unfold traj; rw [ha]; field_simp; ring
    · intro s _ hst
      unfold traj; rw [ha]
      rw [lt_div_iff_of_neg hb] at hst
      linarith
  · -- accelerated flight
    have hd : 0 ≤ nV * nV - 4 * coefA mass nF * (nR - nDotR) := by
      by_contra hneg
      have hneg := not_le.mp hneg
      -- without a real root the polynomial has the sign of `a` everywhere
      have h0 : 0 < coefA mass nF * (nR - nDotR) * 4 := by nlinarith [mul_self_nonneg nV]
      have hapos : 0 < coefA mass nF := by
        by_contra hna
        have : coefA mass nF * (nR - nDotR) ≤ 0 := mul_nonpos_of_nonpos_of_nonneg (not_lt.mp hna) (le_of_lt hin)
        linarith
      unfold traj at hout
      nlinarith [mul_self_nonneg (2 * coefA mass nF * T + nV), mul_nonpos_of_nonneg_of_nonpos (le_of_lt hapos) hout]
    obtain ⟨_, hle, hf⟩ := hg.two_of_nonneg _ _ _ ha hd
    set t0 := (gsl (coefA mass nF) nV (nR - nDotR)).2.1 with ht0
    set t1 := (gsl (coefA mass nF) nV (nR - nDotR)).2.2 with ht1
    have hc : coefA mass nF * (0 - t0) * (0 - t1) = nR - nDotR := by
      have := hf 0; unfold traj at this; linarith
    have hTf : coefA mass nF * (T - t0) * (T - t1) ≤ 0 := by rw [← hf T]; exact hout
    rcases lt_or_gt_of_ne ha with hneg | hpos
    · -- a < 0: the roots enclose 0, the later one is the crossing
      have hprod : t0 * t1 < 0 := by
        have : coefA mass nF * (t0 * t1) > 0 := by nlinarith
        by_contra h
        have := mul_nonpos_of_nonpos_of_nonneg (le_of_lt hneg) (not_lt.mp h)
        linarith
      have h0neg : t0 < 0 := by
        by_contra h
        have h := not_lt.mp h
        have : 0 ≤ t1 := le_trans h hle
        have := mul_nonneg h this
        linarith
      have h1pos : 0 < t1 := by
        by_contra h
        have h := not_lt.mp h
        have := mul_nonneg_of_nonpos_of_nonpos (le_of_lt h0neg) h
        linarith
      have hT1 : t1 ≤ T := by
        by_contra h
        have h := not_le.mp h
        have h1 : 0 < T - t0 := by linarith
        have h2 : T - t1 < 0 := by linarith
        have : 0 < coefA mass nF * (T - t0) * (T - t1) := by
          have := mul_neg_of_pos_of_neg h1 h2
          nlinarith
        linarith
      have hroot : traj (coefA mass nF) nV (nR - nDotR) t1 = 0 := by rw [hf t1]; ring
      refine ⟨t1, C08F_complete hg hs eps mass nF nV nR nDotR t1 (Or.inl ha) hroot (le_trans heps (le_of_lt h1pos)), h1pos, hT1, hroot, ?_⟩
      intro s hs0 hst
      rw [hf s]
      have h1 : 0 < s - t0 := by linarith
      have h2 : s - t1 < 0 := by linarith
      have := mul_neg_of_pos_of_neg h1 h2
      nlinarith
    · -- a > 0: both roots on one side of 0; T lies between them, so both are positive and the earlier one is the crossing
      have hprod : 0 < t0 * t1 := by
        have : coefA mass nF * (t0 * t1) > 0 := by nlinarith
        by_contra h
        have := mul_nonpos_of_nonneg_of_nonpos (le_of_lt hpos) (not_lt.mp h)
        linarith
      have hTm : (T - t0) * (T - t1) ≤ 0 := by
        by_contra h
        have h := not_le.mp h
        have := mul_pos hpos h
        nlinarith
      have hT0 : t0 ≤ T := by
        by_contra h
        have h := not_le.mp h
        have h1 : T - t0 < 0 := by linarith
        have h2 : T - t1 < 0 := by linarith
        have := mul_pos_of_neg_of_neg h1 h2
        linarith
      have hT1 : T ≤ t1 := by
        by_contra h
        have h := not_le.mp h
        have h1 : 0 < T - t1 := by linarith
        have h2 : 0 < T - t0 := by linarith
        have := mul_pos h2 h1
        linarith
      have h0pos : 0 < t0 := by
        by_contra h
        have h := not_lt.mp h
        have h1 : 0 ≤ t1 := le_trans hT hT1
        have := mul_nonpos_of_nonpos_of_nonneg h h1
        linarith
      have hroot : traj (coefA mass nF) nV (nR - nDotR) t0 = 0 := by rw [hf t0]; ring
      refine ⟨t0, C08F_complete hg hs eps mass nF nV nR nDotR t0 (Or.inl ha) hroot (le_trans heps (le_of_lt h0pos)), h0pos, hT0, hroot, ?_⟩
      intro s hs0 hst
      rw [hf s]
      have h1 : s - t0 < 0 := by linarith
      have h2 : s - t1 < 0 := by linarith
      have := mul_pos_of_neg_of_neg h1 h2
      nlinarith

/-- the result vector is sorted -/
theorem C08F_sorted (hs : SortSpec sortL) (eps mass nF nV nR nDotR : ℝ) :
    (times gsl sortL eps mass nF nV nR nDotR).Pairwise (· ≤ ·) := by
  simp only [times, solveHitTimeEquation]
  split
  · split
    · exact List.Pairwise.nil
    · split
      · exact (hs _).2
      · exact (hs _).2
  · split
    · exact List.Pairwise.nil
    · exact List.pairwise_singleton _ _

end

/-- `WallTriangle::hit` for a wall plane without boundary (`reallyInPlane` always true): the loop over the result vector.
`results[i] > p->dt ⇒ return false`;  `results[i] > c_wt_time_eps ⇒ return true with t_traveled = results[i]`. -/
def firstHit : List ℝ → ℝ → ℝ → Option ℝ
  | [], _, _ => none
  | r :: rs, dt, eps => if r > dt then none else if r > eps then some r else firstHit rs dt eps

theorem firstHit_of_min (l : List ℝ) (dt eps x : ℝ) (hsorted : l.Pairwise (· ≤ ·)) (hx : x ∈ l) (hxe : eps < x) (hxd : x ≤ dt)
    (hmin : ∀ y ∈ l, eps < y → x ≤ y) : firstHit l dt eps = some x := by
  induction l with
  | nil => simp at hx
  | cons r rs ih =>
    have hrx : r ≤ x := by
      rcases List.mem_cons.mp hx with h | h
      · rw [h]
      · exact (List.pairwise_cons.mp hsorted).1 x h
    unfold firstHit
    have h1 : ¬ r > dt := by intro h; linarith
    rw [if_neg h1]
    by_cases h2 : r > eps
    · rw [if_pos h2]
      have := hmin r (List.mem_cons_self) h2
      congr 1; linarith
    · rw [if_neg h2]
      have hxr : x ≠ r := by intro h; rw [h] at hxe; exact h2 hxe
      have hx' : x ∈ rs := by
        rcases List.mem_cons.mp hx with h | h
        · exact absurd h hxr
        · exact h
      exact ih (List.pairwise_cons.mp hsorted).2 hx' (fun y hy => hmin y (List.mem_cons_of_mem _ hy))

section
variable {gsl : ℝ → ℝ → ℝ → Nat × ℝ × ℝ} {sortL : List ℝ → List ℝ}

/-- **`WallTriangle::hit` reports the first crossing.**  Same hypotheses as `C08F_first_crossing`, crossing within the remaining
step (`T ≤ dt`), `c_wt_time_eps = 0`: the hit loop returns the time `t` of the FIRST crossing: `0 < t ≤ T`, the path touches the
plane at `t` and is strictly inside before. -/
theorem C08F_hit_reports_first_crossing (hg : GslSpec gsl) (hs : SortSpec sortL) (mass nF nV nR nDotR T dt : ℝ)
    (hin : 0 < nR - nDotR) (hT : 0 ≤ T) (hTd : T ≤ dt) (hout : traj (coefA mass nF) nV (nR - nDotR) T ≤ 0)
    (hab : coefA mass nF ≠ 0 ∨ nV ≠ 0) :
    ∃ t, firstHit (times gsl sortL 0 mass nF nV nR nDotR) dt 0 = some t ∧ 0 < t ∧ t ≤ T ∧
      traj (coefA mass nF) nV (nR - nDotR) t = 0 ∧ ∀ s, 0 ≤ s → s < t → 0 < traj (coefA mass nF) nV (nR - nDotR) s := by
  obtain ⟨t, hmem, hpos, hle, hroot, hbefore⟩ := C08F_first_crossing hg hs 0 mass nF nV nR nDotR T (le_refl 0) hin hT hout
  refine ⟨t, ?_, hpos, hle, hroot, hbefore⟩
  apply firstHit_of_min _ dt 0 t (C08F_sorted hs 0 mass nF nV nR nDotR) hmem hpos (le_trans hle hTd)
  intro y hy hy0
  by_contra hlt
  have hlt := not_le.mp hlt
  have h1 := hbefore y (le_of_lt hy0) hlt
  have h2 := C08F_sound hg hs 0 mass nF nV nR nDotR y hab hy
  linarith

end

/-- the distance polynomial IS the wall-normal component of `IntegratorVelocityVerlet::hitPos` (regenerated by t_collide) minus the wall
coordinate: for a wall orthogonal to a coordinate axis at coordinate `x` (inward normal `+e_d`; for `-e_d` both sides change sign),
`hitPos_d(t) − x = traj ((f/m)/2) v (r − x) t`.  So a root of `traj` is a time at which the position the code computes lies in the wall
plane, and `traj > 0` means that position is inside. -/
theorem C08F_traj_is_hitPos (r v t f m x : ℚ) (hm : m ≠ 0) :
    ((Sympler.Gen.Collide.hitPos r v t f m : ℚ) : ℝ) - (x : ℝ) = traj (coefA (m : ℝ) (f : ℝ)) (v : ℝ) ((r : ℝ) - (x : ℝ)) (t : ℝ) := by
  have hm' : (m : ℝ) ≠ 0 := by exact_mod_cast hm
  unfold Sympler.Gen.Collide.hitPos traj coefA
  push_cast
  field_simp
  ring

/-- the constant the tree uses: `c_wt_time_eps = 0` (regenerated by t_collide from wall_triangle.cpp) -/
theorem C08F_timeEps : Sympler.Gen.Collide.timeEps = 0 := by decide

/-! ### non-vacuity: the particle of the `pullback` scenario family
`a = -8` (force 16 towards the wall), `b = 1/8` (moving away), `c = 1/256`: roots `-1/64` and `1/32`. -/
example : traj (coefA 1 (-16)) (1/8) (1/256 - 0) (1/32) = 0 := by unfold traj coefA; norm_num
example : (0:ℝ) < 1/256 - 0 ∧ (0:ℝ) ≤ 1/32 ∧ traj (coefA 1 (-16)) (1/8) (1/256 - 0) (1/32) ≤ 0 := by
  unfold traj coefA; norm_num
/-- with the satisfiable contracts the theorem applies to that particle: a hit is reported within the step `dt = 1/8` -/
example : ∃ t, firstHit (times gslReal (List.insertionSort (· ≤ ·)) 0 1 (-16) (1/8) (1/256) 0) (1/8) 0 = some t ∧ 0 < t ∧ t ≤ 1/32 :=
  let ⟨t, h, hp, hl, _, _⟩ := C08F_hit_reports_first_crossing gslReal_spec insertionSort_spec 1 (-16) (1/8) (1/256) 0 (1/32) (1/8)
    (by norm_num) (by norm_num) (by norm_num) (by unfold traj coefA; norm_num) (Or.inr (by norm_num))
  ⟨t, h, hp, hl⟩

end
end Sympler.PropsR.C08F
