import Props.C02
import Mathlib.Analysis.Normed.Group.Basic
import Mathlib.Data.Rat.Cast.Order
import Mathlib.Tactic.Linarith

/-!
Property C02 — geometric half (over ℝ, any normed group `E`, e.g. `EuclideanSpace ℝ (Fin 3)`).

`x0 i` = position of particle `i` at the last rebuild, `x i` = position now (both unwrapped, i.e.
`x i - x0 i` is the accumulated displacement `disp − disp__Old` the scan looks at), `rc` = interaction
cutoff, `s` = skin, `rc + s = Gen.Verlet.listCutoff rc s` = cutoff the list was built with.

The list built at the rebuild contains every pair whose (minimum-image) separation was `< rc + s`
(property C01).  The theorems below show that, as long as the displacement criterion holds, every
pair that is now closer than `rc` was closer than `rc + s` at the rebuild — hence is in the list.
-/
namespace Sympler.Verlet
open Sympler.Gen.Verlet

variable {E : Type*} [NormedAddCommGroup E]

/-- **Verlet-list geometry** (reverse triangle inequality), with an arbitrary fixed image shift `v`
(`v = 0`: direct separation; `v = k•L`: the periodic image realising the minimum image now). -/
theorem C02_verlet_geometric_shift (xi xj x0i x0j v : E) (rc s : ℝ)
    (hd : ‖xi - x0i‖ + ‖xj - x0j‖ < s) (hnow : ‖xi - xj + v‖ < rc) :
    ‖x0i - x0j + v‖ < rc + s := by
  have e : x0i - x0j + v = (xi - xj + v) - (xi - x0i) + (xj - x0j) := by abel
  have h1 : ‖x0i - x0j + v‖ ≤ ‖xi - xj + v‖ + ‖xi - x0i‖ + ‖xj - x0j‖ := by
    rw [e]
    have a1 := norm_add_le ((xi - xj + v) - (xi - x0i)) (xj - x0j)
    have a2 := norm_sub_le (xi - xj + v) (xi - x0i)
    linarith
  linarith

/-- no shift -/
theorem C02_verlet_geometric (xi xj x0i x0j : E) (rc s : ℝ)
    (hd : ‖xi - x0i‖ + ‖xj - x0j‖ < s) (hnow : ‖xi - xj‖ < rc) :
    ‖x0i - x0j‖ < rc + s := by
  simpa using C02_verlet_geometric_shift xi xj x0i x0j 0 rc s hd (by simpa using hnow)

/-- **Minimum image**: for any set `Λ` of image shifts (the lattice `{(k₁L₁,k₂L₂,k₃L₃)}` restricted
to the periodic directions), if SOME image of the pair is now closer than `rc`, the SAME image was
closer than `rc + s` at the rebuild; so the minimum-image separation at the rebuild was below the
list cutoff. -/
theorem C02_verlet_geometric_minimage (Λ : Set E) (xi xj x0i x0j : E) (rc s : ℝ)
    (hd : ‖xi - x0i‖ + ‖xj - x0j‖ < s) (hnow : ∃ v ∈ Λ, ‖xi - xj + v‖ < rc) :
    ∃ v ∈ Λ, ‖x0i - x0j + v‖ < rc + s := by
  obtain ⟨v, hv, h⟩ := hnow
  exact ⟨v, hv, C02_verlet_geometric_shift xi xj x0i x0j v rc s hd h⟩

/-- the list cutoff set by `VerletCreator::setup` (generated `listCutoff`) is exactly the `rc + s`
of the theorems above -/
theorem C02_listCutoff_cast (rc s : ℚ) : ((listCutoff rc s : ℚ) : ℝ) = (rc : ℝ) + (s : ℝ) := by
  unfold listCutoff; push_cast; rfl

/-- **Composition with the scan**: particles `ι`; `slot i = some k` says that particle `i` is the
`k`-th scanned particle (free, colour with an `IntegratorPosition`) and `ms[k]` is at least its
displacement magnitude; `slot i = none` says it is not scanned and did not move (frozen, or colour
without position integrator).  If the generated scan decides "no rebuild", then for every image
shift every pair of different particles that is now closer than `rc` was closer than `rc + skin`
at the rebuild. -/
theorem C02_scan_keeps_close_pairs {ι : Type*} (x x0 : ι → E) (skin : ℚ) (ms : List ℚ)
    (slot : ι → Option ℕ)
    (hslot : ∀ i, (∃ k, slot i = some k ∧ ∃ h : k < ms.length, ‖x i - x0 i‖ ≤ ((ms[k] : ℚ) : ℝ)) ∨
                  (slot i = none ∧ x i = x0 i))
    (hinj : ∀ i j k, slot i = some k → slot j = some k → i = j)
    (hskin : 0 ≤ skin) (hscan : scan skin ms = false) (rc : ℝ) (v : E) (i j : ι) (hij : i ≠ j)
    (hnow : ‖x i - x j + v‖ < rc) :
    ‖x0 i - x0 j + v‖ < rc + (skin : ℝ) := by
  obtain ⟨hpair, hsingle⟩ := C02_scan_sound skin ms hscan
  rcases hslot i with ⟨ki, hki, hli, hbi⟩ | ⟨_, hzi⟩ <;>
    rcases hslot j with ⟨kj, hkj, hlj, hbj⟩ | ⟨_, hzj⟩
  · have hne : ki ≠ kj := fun h => hij (hinj i j ki hki (h ▸ hkj))
    have h := hpair ki kj hli hlj hne
    have hc : ((ms[ki] : ℚ) : ℝ) + ((ms[kj] : ℚ) : ℝ) < (skin : ℝ) := by exact_mod_cast h
    exact C02_verlet_geometric_shift (x i) (x j) (x0 i) (x0 j) v rc skin (by linarith) hnow
  · have h := hsingle ki hli
    have hc : ((ms[ki] : ℚ) : ℝ) < (skin : ℝ) := by exact_mod_cast h
    refine C02_verlet_geometric_shift (x i) (x j) (x0 i) (x0 j) v rc skin ?_ hnow
    rw [hzj, sub_self, norm_zero]; linarith
  · have h := hsingle kj hlj
    have hc : ((ms[kj] : ℚ) : ℝ) < (skin : ℝ) := by exact_mod_cast h
    refine C02_verlet_geometric_shift (x i) (x j) (x0 i) (x0 j) v rc skin ?_ hnow
    rw [hzi, sub_self, norm_zero]; linarith
  · -- neither particle moved: the separation is unchanged
    have hs : (0 : ℝ) ≤ (skin : ℝ) := by exact_mod_cast hskin
    rw [← hzi, ← hzj]; linarith

/-- non-vacuity of `C02_scan_keeps_close_pairs` (E = ℝ): two scanned particles approaching head-on,
`0 → 1/10` and `1 → 8/10`, skin `1/2`, `rc = 1`. -/
example : scan (1/2) [1/10, 2/10] = false := by decide +kernel

end Sympler.Verlet
