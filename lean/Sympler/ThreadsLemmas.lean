import Sympler.Threads
/-!
Helper lemmas for C20 (threads, copies, merge).  Core Lean only.
-/
namespace Sympler.Threads

/-! ## the counter -/

theorem nextCounter_lt {T c : Nat} (h : c < T) : nextCounter T c < T := by
  unfold nextCounter; split <;> omega

theorem nextCounter_eq_mod {T c : Nat} (h : c < T) : nextCounter T c = (c + 1) % T := by
  unfold nextCounter
  split
  · next h1 => rw [h1, Nat.mod_self]
  · next h1 => rw [Nat.mod_eq_of_lt (by omega)]

theorem counterAfter_eq_mod {T : Nat} : ∀ (n c : Nat), c < T → counterAfter T c n = (c + n) % T
  | 0, c, h => by simp [counterAfter, Nat.mod_eq_of_lt h]
  | n + 1, c, h => by
    rw [counterAfter, counterAfter_eq_mod n _ (nextCounter_lt h), nextCounter_eq_mod h]
    rw [Nat.add_mod, Nat.mod_mod, ← Nat.add_mod]
    congr 1; omega

/-! ## the manager invariant -/

/-- the per-thread lists are exactly the serial list filtered by owner, in the same order -/
structure Inv (T : Nat) (m : Mgr) (s : List Nat) : Prop where
  counter_lt : m.counter < T
  lists : ∀ t, m.firstLink t = s.filter (fun l => m.mThread l == t)
  thread_lt : ∀ l ∈ s, m.mThread l < T

theorem Inv.init {T : Nat} (hT : 1 ≤ T) : Inv T Mgr.init [] :=
  ⟨by simp [Mgr.init]; omega, by intro t; simp [Mgr.init], by simp⟩

theorem erase_filter_false {p : Nat → Bool} {a : Nat} (h : p a = false) :
    ∀ l : List Nat, (l.erase a).filter p = l.filter p
  | [] => by simp
  | x :: xs => by
    by_cases hx : x = a
    · subst hx; simp [h]
    · have : (x == a) = false := by simpa using hx
      rw [List.erase_cons, this]
      simp only [Bool.false_eq_true, ↓reduceIte, List.filter_cons]
      rw [erase_filter_false h xs]

theorem Inv.activate {T : Nat} {m : Mgr} {s : List Nat} {l : Nat} (h : Inv T m s) (hl : l ∉ s) :
    Inv T (m.op T (.activate l)) (l :: s) := by
  refine ⟨nextCounter_lt h.counter_lt, ?_, ?_⟩
  · intro t
    have hcongr : s.filter (fun x => (if x = l then m.counter else m.mThread x) == t)
        = s.filter (fun x => m.mThread x == t) := by
      apply List.filter_congr
      intro x hx
      have : x ≠ l := fun e => hl (e ▸ hx)
      simp [this]
    simp only [Mgr.op, List.filter_cons, ↓reduceIte]
    by_cases ht : t = m.counter
    · subst ht; simp [hcongr, h.lists]
    · have : (m.counter == t) = false := by simpa using fun e => ht e.symm
      simp [ht, this, hcongr, h.lists]
  · intro x hx
    simp only [Mgr.op]
    by_cases hxl : x = l
    · simp [hxl, h.counter_lt]
    · simp only [hxl, ↓reduceIte]
      rcases List.mem_cons.mp hx with e | e
      · exact absurd e hxl
      · exact h.thread_lt x e

theorem Inv.deactivate {T : Nat} {m : Mgr} {s : List Nat} {l : Nat} (h : Inv T m s) :
    Inv T (m.op T (.deactivate l)) (s.erase l) := by
  refine ⟨h.counter_lt, ?_, ?_⟩
  · intro t
    simp only [Mgr.op]
    by_cases ht : t = m.mThread l
    · subst ht
      simp only [↓reduceIte]
      rw [h.lists, List.erase_filter]
    · simp only [ht, ↓reduceIte]
      rw [h.lists, erase_filter_false]
      simpa using fun e => ht e.symm
  · intro x hx
    exact h.thread_lt x (List.mem_of_mem_erase hx)

theorem Inv.run {T : Nat} : ∀ (ops : List LinkOp) (m : Mgr) (s : List Nat),
    validOps s ops = true → Inv T m s → Inv T (m.run T ops) (serialRun s ops)
  | [], _, _, _, h => h
  | .activate l :: ops, m, s, hv, h => by
    simp only [validOps, Bool.and_eq_true, Bool.not_eq_true', List.contains_eq_mem,
      decide_eq_false_iff_not] at hv
    exact Inv.run ops _ _ hv.2 (h.activate hv.1)
  | .deactivate l :: ops, m, s, hv, h => by
    simp only [validOps, Bool.and_eq_true] at hv
    exact Inv.run ops _ _ hv.2 h.deactivate

/-! ## partition -/

theorem flatMap_congr' {α β : Type} (l : List α) (f g : α → List β) (h : ∀ x ∈ l, f x = g x) :
    l.flatMap f = l.flatMap g := by
  induction l with
  | nil => rfl
  | cons x xs ih =>
    simp only [List.flatMap_cons]
    rw [h x List.mem_cons_self, ih (fun y hy => h y (List.mem_cons_of_mem _ hy))]

theorem partition_perm {α : Type} (a : α → Nat) :
    ∀ (T : Nat) (l : List α), (∀ x ∈ l, a x < T) →
      ((List.range T).flatMap fun t => l.filter (fun x => a x == t)).Perm l
  | 0, l, h => by
    cases l with
    | nil => simp
    | cons x xs => exact absurd (h x (List.mem_cons_self)) (Nat.not_lt_zero _)
  | T + 1, l, h => by
    rw [List.range_succ, List.flatMap_append]
    simp only [List.flatMap_cons, List.flatMap_nil, List.append_nil]
    -- the threads below `T` see exactly the elements with `a x ≠ T`
    have hlow : ((List.range T).flatMap fun t => l.filter (fun x => a x == t))
        = (List.range T).flatMap fun t => (l.filter (fun x => !(a x == T))).filter (fun x => a x == t) := by
      apply flatMap_congr'
      intro t ht
      rw [List.filter_filter]
      apply List.filter_congr
      intro x _
      have : t < T := List.mem_range.mp ht
      by_cases hx : a x = t
      · have : t ≠ T := by omega
        simp [hx, this]
      · simp [hx]
    rw [hlow]
    have ih := partition_perm a T (l.filter (fun x => !(a x == T))) (by
      intro x hx
      have hx' := List.mem_filter.mp hx
      have h1 := h x hx'.1
      have h2 : a x ≠ T := by simpa using hx'.2
      omega)
    refine (List.Perm.append ih (List.Perm.refl _)).trans ?_
    refine List.perm_append_comm.trans ?_
    exact List.filter_append_perm (fun x => a x == T) l

/-! ## accumulation -/

theorem stepWith_comm (c : Copies) (a b : Contrib) :
    step (step c a) b = step (step c b) a := by
  funext t p s
  simp only [step, stepWith]
  grind

/-- steps of a thread do not touch the cells of another thread -/
theorem stepWith_other (op : Rat → Rat → Rat) (c : Copies) (k : Contrib) {t : Nat} (h : k.thread ≠ t) (p s : Nat) :
    stepWith op c k t p s = c t p s := by
  simp only [stepWith]
  have : ¬ (t = k.thread ∧ p = k.particle ∧ s = k.slot) := fun e => h e.1.symm
  simp [this]

theorem accumulateWith_congr (op : Rat → Rat → Rat) (t : Nat) :
    ∀ (ks : List Contrib) (c c' : Copies), (∀ p s, c t p s = c' t p s) →
      ∀ p s, accumulateWith op c ks t p s = accumulateWith op c' ks t p s
  | [], _, _, h => h
  | k :: ks, c, c', h => by
    apply accumulateWith_congr op t ks
    intro p s
    simp only [stepWith, h]

/-- the cells of thread `t` after any interleaving depend only on thread `t`'s own sub-sequence -/
theorem accumulateWith_thread (op : Rat → Rat → Rat) (t : Nat) :
    ∀ (ks : List Contrib) (c : Copies) (p s : Nat),
      accumulateWith op c ks t p s = accumulateWith op c (ks.filter (fun k => k.thread == t)) t p s
  | [], _, _, _ => rfl
  | k :: ks, c, p, s => by
    by_cases hk : k.thread = t
    · have : (k.thread == t) = true := by simpa using hk
      simp only [List.filter_cons, this, ↓reduceIte]
      exact accumulateWith_thread op t ks _ p s
    · have : (k.thread == t) = false := by simpa using hk
      simp only [List.filter_cons, this]
      show accumulateWith op (stepWith op c k) ks t p s = _
      rw [accumulateWith_thread op t ks _ p s]
      exact accumulateWith_congr op t _ _ _ (fun p s => stepWith_other op c k hk p s) p s

/-! ## merge: a contribution is pushed through the merge loops -/

theorem addReal_comm (r : Reals) (p d : Nat) (v : Rat) (p' d' : Nat) (v' : Rat) :
    addReal (addReal r p d v) p' d' v' = addReal (addReal r p' d' v') p d v := by
  funext x y
  simp only [addReal]
  grind

/-- pending: the contribution still sits in the copies -/
def Pend (k : Contrib) (A B : Reals × Copies) : Prop := A = (B.1, step B.2 k)
/-- delivered: the contribution has reached real slot `d` -/
def Deliv (k : Contrib) (d : Nat) (A B : Reals × Copies) : Prop := A = (addReal B.1 k.particle d k.val, B.2)

theorem mergeCell_deliv {k : Contrib} {d : Nat} {A B : Reals × Copies} (t : Nat) (c : Cell) (h : Deliv k d A B) :
    Deliv k d (mergeCell t A c) (mergeCell t B c) := by
  unfold Deliv at *
  subst h
  simp only [mergeCell]
  rw [addReal_comm]

theorem mergeCell_pend {k : Contrib} {A B : Reals × Copies} (t : Nat) (c : Cell)
    (hne : ¬ (t = k.thread ∧ c.particle = k.particle ∧ c.slot = k.slot)) (h : Pend k A B) :
    Pend k (mergeCell t A c) (mergeCell t B c) := by
  unfold Pend at *
  subst h
  simp only [mergeCell]
  have h1 : step B.2 k t c.particle c.slot = B.2 t c.particle c.slot := by
    simp only [step, stepWith]
    have : ¬ (t = k.thread ∧ c.particle = k.particle ∧ c.slot = k.slot) := hne
    simp [this]
  rw [h1]
  congr 1
  funext t' p s
  simp only [step, stepWith]
  grind

theorem mergeCell_hit {k : Contrib} {A B : Reals × Copies} (c : Cell)
    (hc : c.particle = k.particle ∧ c.slot = k.slot) (h : Pend k A B) :
    Deliv k c.dest (mergeCell k.thread A c) (mergeCell k.thread B c) := by
  unfold Pend at h
  unfold Deliv
  subst h
  simp only [mergeCell]
  congr 1
  · funext x y
    simp only [addReal, step, stepWith, hc]
    by_cases h1 : x = k.particle ∧ y = c.dest
    · simp [h1, Rat.add_assoc]
    · simp [h1]
  · funext t' p s
    simp only [step, stepWith, hc]
    by_cases ha : t' = k.thread ∧ p = k.particle ∧ s = k.slot <;> simp [ha]

theorem mergeThread_deliv {k : Contrib} {d : Nat} (t : Nat) :
    ∀ (cells : List Cell) (A B : Reals × Copies), Deliv k d A B →
      Deliv k d (mergeThread cells A t) (mergeThread cells B t)
  | [], _, _, h => h
  | c :: cs, _, _, h => mergeThread_deliv t cs _ _ (mergeCell_deliv t c h)

theorem mergeThread_pend {k : Contrib} (t : Nat) (ht : t ≠ k.thread) :
    ∀ (cells : List Cell) (A B : Reals × Copies), Pend k A B →
      Pend k (mergeThread cells A t) (mergeThread cells B t)
  | [], _, _, h => h
  | c :: cs, _, _, h => mergeThread_pend t ht cs _ _ (mergeCell_pend t c (fun e => ht e.1) h)

theorem mergeThread_hit {k : Contrib} {d : Nat} :
    ∀ (cells : List Cell) (A B : Reals × Copies), destOf cells k.particle k.slot = some d → Pend k A B →
      Deliv k d (mergeThread cells A k.thread) (mergeThread cells B k.thread)
  | [], _, _, hd, _ => by simp [destOf] at hd
  | c :: cs, A, B, hd, h => by
    simp only [destOf] at hd
    by_cases hc : c.particle = k.particle ∧ c.slot = k.slot
    · simp only [hc, and_self, ↓reduceIte, Option.some.injEq] at hd
      subst hd
      exact mergeThread_deliv k.thread cs _ _ (mergeCell_hit c hc h)
    · simp only [hc, ↓reduceIte] at hd
      exact mergeThread_hit cs _ _ hd (mergeCell_pend k.thread c (fun e => hc e.2) h)

theorem merge_succ (T : Nat) (cells : List Cell) (st : Reals × Copies) :
    merge (T + 1) cells st = mergeThread cells (merge T cells st) T := by
  simp [merge, List.range_succ, List.foldl_append]

/-- after the merge over `T` threads a contribution of thread `< T` has been delivered, one of a thread `≥ T` is still pending -/
theorem merge_push {k : Contrib} {d : Nat} (cells : List Cell) (hd : destOf cells k.particle k.slot = some d)
    {A B : Reals × Copies} (h : Pend k A B) :
    ∀ T, (k.thread < T → Deliv k d (merge T cells A) (merge T cells B)) ∧
         (T ≤ k.thread → Pend k (merge T cells A) (merge T cells B))
  | 0 => ⟨fun h0 => absurd h0 (Nat.not_lt_zero _), fun _ => by simpa [merge] using h⟩
  | T + 1 => by
    have ih := merge_push cells hd h T
    rw [merge_succ, merge_succ]
    constructor
    · intro hlt
      by_cases hT : k.thread < T
      · exact mergeThread_deliv T cells _ _ (ih.1 hT)
      · have : k.thread = T := by omega
        subst this
        exact mergeThread_hit cells _ _ hd (ih.2 (Nat.le_refl _))
    · intro hle
      exact mergeThread_pend T (by omega) cells _ _ (ih.2 (by omega))

/-- merging zeroed copies changes nothing -/
theorem mergeCell_zero (t : Nat) (r : Reals) (c : Cell) : mergeCell t (r, zeroCopies) c = (r, zeroCopies) := by
  simp only [mergeCell]
  congr 1
  · funext x y; simp [addReal, zeroCopies, Rat.add_zero]
  · funext t' p s; simp [zeroCopies]

theorem mergeThread_zero (t : Nat) (r : Reals) : ∀ cells : List Cell, mergeThread cells (r, zeroCopies) t = (r, zeroCopies)
  | [] => rfl
  | c :: cs => by
    show mergeThread cs (mergeCell t (r, zeroCopies) c) t = _
    rw [mergeCell_zero]; exact mergeThread_zero t r cs

theorem merge_zero (cells : List Cell) (r : Reals) : ∀ T, merge T cells (r, zeroCopies) = (r, zeroCopies)
  | 0 => rfl
  | T + 1 => by rw [merge_succ, merge_zero cells r T, mergeThread_zero]

/-- main lemma: merging after accumulating = serially adding to the merge of what was there before -/
theorem merge_accumulate (T : Nat) (cells : List Cell) (r : Reals) :
    ∀ (ks : List Contrib) (c : Copies), (∀ k ∈ ks, admissible T cells k = true) →
      merge T cells (r, accumulate c ks)
        = (serial cells (merge T cells (r, c)).1 (ks.map Contrib.untag), (merge T cells (r, c)).2)
  | [], _, _ => rfl
  | k :: ks, c, h => by
    have hk := h k List.mem_cons_self
    simp only [admissible, Bool.and_eq_true, decide_eq_true_eq, Option.isSome_iff_exists] at hk
    obtain ⟨hT, d, hd⟩ := hk
    show merge T cells (r, accumulate (step c k) ks) = _
    rw [merge_accumulate T cells r ks (step c k) (fun k' hk' => h k' (List.mem_cons_of_mem _ hk'))]
    have hp : Pend k (r, step c k) (r, c) := rfl
    have hdl := (merge_push cells hd hp T).1 hT
    unfold Deliv at hdl
    rw [hdl]
    simp only [List.map_cons, serial, List.foldl_cons]
    congr 2
    simp [serialStep, Contrib.untag, hd]

/-! ## serial sums do not depend on the order -/

theorem serialStep_comm (cells : List Cell) (r : Reals) (a b : PS) :
    serialStep cells (serialStep cells r a) b = serialStep cells (serialStep cells r b) a := by
  simp only [serialStep]
  cases destOf cells a.particle a.slot <;> cases destOf cells b.particle b.slot <;> simp [addReal_comm]

theorem serial_perm (cells : List Cell) (r : Reals) {l₁ l₂ : List PS} (h : l₁.Perm l₂) :
    serial cells r l₁ = serial cells r l₂ :=
  h.foldl_eq' (fun x _ y _ z => serialStep_comm cells z x y) r

/-! ## layout -/

theorem offsetsFrom_length : ∀ (ns : List Nat) (o : Nat), (offsetsFrom o ns).length = ns.length
  | [], _ => rfl
  | _ :: ns, o => by simp [offsetsFrom, offsetsFrom_length ns]

theorem offsetsFrom_ge : ∀ (ns : List Nat) (o : Nat) (i : Nat) (h : i < (offsetsFrom o ns).length),
    o ≤ (offsetsFrom o ns)[i]
  | [], _, _, h => by simp [offsetsFrom] at h
  | n :: ns, o, 0, _ => by simp [offsetsFrom]
  | n :: ns, o, i + 1, h => by
    simp only [offsetsFrom, List.getElem_cons_succ]
    have := offsetsFrom_ge ns (o + n) i (by simpa [offsetsFrom] using h)
    omega

theorem offsetsFrom_disjoint : ∀ (ns : List Nat) (o : Nat) (i j : Nat) (hi : i < ns.length) (hj : j < ns.length), i < j →
    (offsetsFrom o ns)[i]'(by rw [offsetsFrom_length]; exact hi) + ns[i]
      ≤ (offsetsFrom o ns)[j]'(by rw [offsetsFrom_length]; exact hj)
  | [], _, _, _, hi, _, _ => by simp at hi
  | n :: ns, o, 0, j + 1, _, hj, _ => by
    simp only [offsetsFrom, List.getElem_cons_zero, List.getElem_cons_succ]
    exact offsetsFrom_ge ns (o + n) j _
  | n :: ns, o, i + 1, j + 1, hi, hj, hij => by
    simp only [offsetsFrom, List.getElem_cons_succ]
    exact offsetsFrom_disjoint ns (o + n) i j (by simpa using hi) (by simpa using hj) (by omega)

end Sympler.Threads
