import Sympler.Basic
/-!
# Stage assignment of user-defined symbols (property C06)

Executable model of

* `Symbol::findStage`, `Symbol::findStageForSymbolName`,
  `Symbol::checkOverwriteForStageFinding`          (`/repo/source/src/symbol/symbol.cpp`)
* `Simulation::setSymbolStages`                      (`/repo/source/src/basic/simulation.cpp`)
* `Phase::findStages`, `ColourPair::findStages`      (one sweep = one pass over the registered
                                                       symbol modules, in registration order)
* `Particle::sortStages`, `ColourPair::sortStages`, `Phase::sortStages`
  and the `stage = 0,1,…` loop of `Controller::runSymbols`
                                                      (`/repo/source/src/basic/controller.cpp`).

A symbol module is identified by `id` (the C++ compares `this` pointers, `(*vCIt) != this`);
names of symbols are `Nat`s.  `uses` is the list of names the module reads *after* removal of
the `useOldFor` names (`FunctionParser::removeFromTypedValues(usedSymbolsIgnoredForStaging(), …)`
and `g_stringIsInPipeList` for the hard-coded dependencies), i.e. expression symbols followed by
hard-coded dependencies.  With `overwrite` the walk additionally covers the module's own
produced names (`checkOverwriteForStageFinding`).

The stage map is `Nat → Option Nat` on ids; `none` is the C++ `m_stage == -1`.

Core Lean only.
-/
namespace Sympler.Stages

structure Sym where
  id : Nat
  produces : List Nat
  uses : List Nat
  overwrite : Bool
deriving Repr, DecidableEq

/-- The names `findStage` walks: used expression symbols, hard-coded dependencies (both already in
`uses`), then, if `m_overwrite`, the own symbol names (`checkOverwriteForStageFinding`). -/
def Sym.walked (s : Sym) : List Nat :=
  if s.overwrite then s.uses ++ s.produces else s.uses

/-- Local state of one `findStage` call: the flags `tooEarly`, `nothing` and the running
`m_stage` (`none` = `-1`). -/
structure Walk where
  tooEarly : Bool
  nothing : Bool
  stage : Option Nat
deriving Repr, DecidableEq

/-- `bool tooEarly = false; bool nothing = true;` with `m_stage == -1`. -/
def Walk.init : Walk := ⟨false, true, none⟩

/-- Body of `if(*symIt == name) { … }` in `findStageForSymbolName` for a producer `p ≠ this`:
```
nothing = false;
int stage = p->stage();
if(stage == -1) { tooEarly = true; m_stage = -1; }
else if(stage >= m_stage) m_stage = stage+1;
```
(The body is idempotent, so a name listed twice in `p->mySymbolNames()` changes nothing.) -/
def visit (st : Nat → Option Nat) (w : Walk) (p : Sym) : Walk :=
  match st p.id with
  | none => ⟨true, false, none⟩
  | some k =>
    match w.stage with
    | none => ⟨w.tooEarly, false, some (k + 1)⟩
    | some m => ⟨w.tooEarly, false, if k ≥ m then some (k + 1) else some m⟩

/-- One loop iteration over a candidate producer `p` for `name`: every loop in
`findStageForSymbolName` carries `&& !tooEarly` (or jumps to the end once `tooEarly` is set) and
excludes `this`. -/
def visitIf (st : Nat → Option Nat) (self : Sym) (name : Nat) (w : Walk) (p : Sym) : Walk :=
  if w.tooEarly then w
  else if p.id ≠ self.id ∧ name ∈ p.produces then visit st w p
  else w

/-- `Symbol::findStageForSymbolName(name, tooEarly, nothing)`: search all registered symbol
modules (colour-pair calculators, particle caches, triplet and quintet calculators; here: the one
list `syms`) for producers of `name`. -/
def walkName (syms : List Sym) (st : Nat → Option Nat) (self : Sym) (w : Walk) (name : Nat) :
    Walk :=
  syms.foldl (visitIf st self name) w

/-- `Symbol::findStage`, returning the new `m_stage` (`none` = still `-1`; the C++ return value
is `(findStage …).isSome`).  A determined stage is returned unchanged. -/
def findStage (syms : List Sym) (st : Nat → Option Nat) (s : Sym) : Option Nat :=
  match st s.id with
  | some k => some k
  | none =>
    let w := s.walked.foldl (walkName syms st s) Walk.init
    if w.tooEarly then none
    else
      match w.stage with
      | some k => some k
      | none => if w.nothing then some 0 else none

/-- In-place update of the stage of module `i`. -/
def update (st : Nat → Option Nat) (i : Nat) (r : Option Nat) : Nat → Option Nat :=
  fun j => if j = i then r else st j

/-- The loop `finished = (*i)->findStage() && finished;` over (the rest of) the registration
list; `all` is the complete list that `findStageForSymbolName` searches. -/
def sweepGo (all : List Sym) : List Sym → (Nat → Option Nat) → Bool → (Nat → Option Nat) × Bool
  | [], st, fin => (st, fin)
  | s :: rest, st, fin =>
    let r := findStage all st s
    sweepGo all rest (update st s.id r) (r.isSome && fin)

/-- One iteration of the `while(!finished)` loop of `Simulation::setSymbolStages`:
`finished = true;` then all `findStages()` in list order, in place (Gauss–Seidel). -/
def sweep (syms : List Sym) (st : Nat → Option Nat) : (Nat → Option Nat) × Bool :=
  sweepGo syms syms st true

/-- `setSymbolStages` with fuel `B - (counter-1)`: `used = counter-1` sweeps were done.
`if(counter > m_stageSteps) throw gError(…)`. -/
def iter (syms : List Sym) : Nat → (Nat → Option Nat) → Nat →
    Except String ((Nat → Option Nat) × Nat)
  | 0, _, _ => .error "stageIterations"
  | B + 1, st, used =>
    let r := sweep syms st
    if r.2 then .ok (r.1, used + 1) else iter syms B r.1 (used + 1)

/-- All stages start at `-1` (`Symbol::Symbol`: `m_stage(-1)`). -/
def init : Nat → Option Nat := fun _ => none

/-- `Simulation::setSymbolStages` with `stageIterations = B`; also returns the number of sweeps. -/
def assignN (B : Nat) (syms : List Sym) : Except String ((Nat → Option Nat) × Nat) :=
  iter syms B init 0

def assign (B : Nat) (syms : List Sym) : Except String (Nat → Option Nat) :=
  (assignN B syms).map Prod.fst

/-- `s_maxStage` / `m_maxStage`: the largest determined stage. -/
def maxStage (syms : List Sym) (st : Nat → Option Nat) : Nat :=
  syms.foldr (fun s m => max ((st s.id).getD 0) m) 0

/-- The per-stage table built by `sortStages` (`table[stage].push_back(*i)` in list order). -/
def bucket (syms : List Sym) (st : Nat → Option Nat) (k : Nat) : List Sym :=
  syms.filter (fun s => st s.id == some k)

/-- Execution order of `runSymbols`: `stage = 0, 1, …, maxStage`, each stage's table in list
order. -/
def scheduleSyms (syms : List Sym) (st : Nat → Option Nat) : List Sym :=
  (List.range (maxStage syms st + 1)).flatMap (bucket syms st)

def schedule (syms : List Sym) (st : Nat → Option Nat) : List Nat :=
  (scheduleSyms syms st).map (·.id)

/-! ## Abstract evaluation of a schedule -/

/-- Running module `s`: the names it produces get the value `f s σ n`, computed from the current
store `σ`; all other names keep their value. -/
def stepSym {V : Type} (f : Sym → (Nat → V) → Nat → V) (σ : Nat → V) (s : Sym) : Nat → V :=
  fun n => if n ∈ s.produces then f s σ n else σ n

def evalOrder {V : Type} (f : Sym → (Nat → V) → Nat → V) (ord : List Sym) (σ₀ : Nat → V) :
    Nat → V :=
  ord.foldl (stepSym f) σ₀

/-- One call of `runSymbols` on the store `σ₀` left by the previous step. -/
def evalSchedule {V : Type} (f : Sym → (Nat → V) → Nat → V) (syms : List Sym)
    (st : Nat → Option Nat) (σ₀ : Nat → V) : Nat → V :=
  evalOrder f (scheduleSyms syms st) σ₀

/-! ## Line protocol -/

def parseList (s : String) : Option (List Nat) :=
  if s = "-" then some [] else (s.splitOn ",").mapM String.toNat?

def stripKey (key s : String) : Option String :=
  if s.startsWith key then some ((s.drop key.length).toString) else none

def parseSym (ws : List String) : Option Sym :=
  match ws with
  | ["sym", i, p, u, o] => do
    let i ← i.toNat?
    let p ← (stripKey "prod=" p) >>= parseList
    let u ← (stripKey "uses=" u) >>= parseList
    let o ← match o with
      | "ow=0" => some false
      | "ow=1" => some true
      | _ => none
    pure ⟨i, p, u, o⟩
  | _ => none

def parseSyms : List String → Option (List Sym)
  | [] => none
  | l :: rest =>
    match words l with
    | ["end"] => some []
    | ws => do
      let s ← parseSym ws
      let r ← parseSyms rest
      pure (s :: r)

def joinNats (l : List Nat) : String := " ".intercalate (l.map toString)

def hasDupIds : List Sym → Bool
  | [] => false
  | s :: rest => rest.any (·.id == s.id) || hasDupIds rest

/-- Input: `B <n>`, then `sym <id> prod=<n,n,…|-> uses=<n,n,…|-> ow=0|1` in sweep order, `end`.
Output: `error stageIterations`, or `stage <id> <k>` per symbol in input order, `sweeps <n>`,
`schedule <ids…>`.  Malformed input: `err:parse`; repeated id: `err:dupid`. -/
def driver (lines : List String) : List String :=
  match lines with
  | [] => ["err:parse"]
  | l :: rest =>
    match words l with
    | ["B", b] =>
      match b.toNat?, parseSyms rest with
      | some B, some syms =>
        if hasDupIds syms then ["err:dupid"] else
        match assignN B syms with
        | .error _ => ["error stageIterations"]
        | .ok (st, n) =>
          syms.map (fun s => s!"stage {s.id} {(st s.id).getD 0}")
            ++ [s!"sweeps {n}", ("schedule " ++ joinNats (schedule syms st)).trimAscii.toString]
      | _, _ => ["err:parse"]
    | _ => ["err:parse"]

end Sympler.Stages
