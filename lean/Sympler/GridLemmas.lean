import Sympler.Cells

/-!
Static facts about the grid built by `Sympler.Grid.subdivide` that the dynamic invariants of
`Sympler/CellsLemmas.lean` rest on (`GridOK`), and their proofs.  Core Lean only.
-/
namespace Sympler.Grid
open Sympler Sympler.Cells Sympler.Gen.CellTables

/-- number of ends (0, 1 or 2) of link `l` that are the cell `c` -/
def ends (G : Grid) (l c : Nat) : Nat :=
  (if (G.links.getD l default).first = c then 1 else 0) + (if (G.links.getD l default).second = c then 1 else 0)

/-- number of ends of link `l` that lie in the set of cells `L` -/
def activeEnds (G : Grid) (L : List Nat) (l : Nat) : Nat :=
  (if (G.links.getD l default).first ∈ L then 1 else 0) + (if (G.links.getD l default).second ∈ L then 1 else 0)

/-- What `Cell::activate/deactivate` and `Cell::checkNewPosition` need from the static structure:
* a cell notifies each existing link exactly as many times as it is an end of it (local link: twice),
  and nothing else;
* outlets are existing cells. -/
structure GridOK (G : Grid) : Prop where
  notify : ∀ c, c < G.cells.size → ∀ l,
    (notifyList G c).count l = if l < G.links.size then ends G l c else 0
  out_lt : ∀ c, c < G.cells.size → ∀ n, n < numNeighbors → ∀ t, t ∈ G.outAt c n → t < G.cells.size

/-- at most one outlet per direction (several only with inlet/outlet regions, which the model refuses
with `Err.multiOutlet`) -/
def OutSingle (G : Grid) : Prop :=
  ∀ c, c < G.cells.size → ∀ n, n < numNeighbors → (G.outAt c n).length ≤ 1

/-- executable check of `GridOK` and `OutSingle` -/
def gridOKb (G : Grid) : Bool :=
  (List.range G.cells.size).all fun c =>
    (notifyList G c).all (fun l => decide (l < G.links.size)) &&
    (List.range G.links.size).all (fun l => (notifyList G c).count l == ends G l c) &&
    (List.range numNeighbors).all (fun n =>
      (G.outAt c n).all (fun t => decide (t < G.cells.size)) && decide ((G.outAt c n).length ≤ 1))

theorem gridOKb_sound {G : Grid} (h : gridOKb G = true) : GridOK G ∧ OutSingle G := by
  unfold gridOKb at h
  simp only [List.all_eq_true, List.mem_range, Bool.and_eq_true, decide_eq_true_eq, beq_iff_eq] at h
  refine ⟨⟨?_, ?_⟩, ?_⟩
  · intro c hc l
    obtain ⟨⟨h1, h2⟩, _⟩ := h c hc
    by_cases hl : l < G.links.size
    · rw [if_pos hl]; exact h2 l hl
    · rw [if_neg hl]
      apply List.count_eq_zero.mpr
      intro hm; exact hl (h1 l hm)
  · intro c hc n hn t ht
    exact ((h c hc).2 n hn).1 t ht
  · intro c hc n hn
    exact ((h c hc).2 n hn).2

/-- the direction index computed by `checkNewPosition` is one of the 26 directions -/
theorem off_range : ∀ a ∈ [(-1 : Int), 0, 1], ∀ b ∈ [(-1 : Int), 0, 1], ∀ c ∈ [(-1 : Int), 0, 1],
    (a, b, c) ≠ (0, 0, 0) → 0 ≤ offset2neighbor (a, b, c) ∧ offset2neighbor (a, b, c) < 26 ∧
      offsets.getD (offset2neighbor (a, b, c)).toNat (0, 0, 0) = (a, b, c) := by decide

theorem offComponent_mem (r a b : Rat) : offComponent r a b ∈ [(-1 : Int), 0, 1] := by
  unfold offComponent
  split
  · simp
  · split <;> simp

theorem leaveOffset_lt (cg : CellGeom) (r : V3 Rat) :
    (offset2neighbor (leaveOffset cg r)).toNat < numNeighbors := by
  have h1 := offComponent_mem r.1 cg.c1.1 cg.c2.1
  have h2 := offComponent_mem r.2.1 cg.c1.2.1 cg.c2.2.1
  have h3 := offComponent_mem r.2.2 cg.c1.2.2 cg.c2.2.2
  show (offset2neighbor (offComponent r.1 cg.c1.1 cg.c2.1, offComponent r.2.1 cg.c1.2.1 cg.c2.2.1,
    offComponent r.2.2 cg.c1.2.2 cg.c2.2.2)).toNat < 26
  generalize offComponent r.1 cg.c1.1 cg.c2.1 = a at h1
  generalize offComponent r.2.1 cg.c1.2.1 cg.c2.2.1 = b at h2
  generalize offComponent r.2.2 cg.c1.2.2 cg.c2.2.2 = c at h3
  by_cases h0 : (a, b, c) = (0, 0, 0)
  · rw [h0]; decide
  · have := (off_range a h1 b h2 c h3 h0).2.1
    omega

theorem activeEnds_cons (G : Grid) {L : List Nat} {c : Nat} (hc : c ∉ L) (l : Nat) :
    activeEnds G (c :: L) l = activeEnds G L l + ends G l c := by
  unfold activeEnds ends
  simp only [List.mem_cons]
  grind

theorem activeEnds_erase (G : Grid) {L : List Nat} (hn : L.Nodup) {c : Nat} (hc : c ∈ L) (l : Nat) :
    activeEnds G L l = activeEnds G (L.erase c) l + ends G l c := by
  unfold activeEnds ends
  simp only [List.Nodup.mem_erase_iff hn]
  grind

/-! ### geometry of outlets (for `C09_wrap_exact`, `C09_count_conserved`) -/

/-- One direction of the relation between a cell `[cc1, cc2)`, its outlet `[tc1, tc2)` in a direction with
offset component `o`, the `cellDist` component `dist`, and the box `[lo, hi)`: both cells lie in the box;
the shift `tc1 − cc1 − dist` that `checkNewPosition` adds to the coordinate is `0` unless the direction
leaves the box through a face, which requires periodicity, and then it is `∓(hi − lo)`. -/
def DimOK (per : Bool) (lo hi : Rat) (o : Int) (cc1 cc2 tc1 tc2 dist : Rat) : Prop :=
  lo ≤ cc1 ∧ cc2 ≤ hi ∧ lo ≤ tc1 ∧ tc2 ≤ hi ∧
  (o = 0 → tc1 - cc1 - dist = 0) ∧
  (o = 1 → (cc2 < hi ∧ tc1 - cc1 - dist = 0) ∨ (cc2 = hi ∧ per = true ∧ tc1 - cc1 - dist = -(hi - lo))) ∧
  (o = -1 → (lo < cc1 ∧ tc1 - cc1 - dist = 0) ∨ (cc1 = lo ∧ per = true ∧ tc1 - cc1 - dist = hi - lo))

instance (per : Bool) (lo hi : Rat) (o : Int) (cc1 cc2 tc1 tc2 dist : Rat) :
    Decidable (DimOK per lo hi o cc1 cc2 tc1 tc2 dist) := by unfold DimOK; infer_instance

/-- a direction with offset component `o` leaves the box through a NON-periodic face of the cell -/
def WallDim (per : Bool) (lo hi : Rat) (o : Int) (cc1 cc2 : Rat) : Prop :=
  per = false ∧ ((o = 1 ∧ cc2 = hi) ∨ (o = -1 ∧ cc1 = lo))

instance (per : Bool) (lo hi : Rat) (o : Int) (cc1 cc2 : Rat) : Decidable (WallDim per lo hi o cc1 cc2) := by
  unfold WallDim; infer_instance

/-- geometry of the outlets of a grid with periodicity `per`: every outlet satisfies `DimOK` in the three
directions, and a direction without outlet leaves the box through a wall -/
def GeomOK (G : Grid) (per : V3 Bool) : Prop :=
  ∀ c, c < G.cells.size → ∀ n, n < numNeighbors →
    (∀ t ∈ G.outAt c n,
      DimOK per.1 G.c1.1 G.c2.1 (offsets.getD n (0, 0, 0)).1 (G.cells.getD c default).c1.1
        (G.cells.getD c default).c2.1 (G.cells.getD t default).c1.1 (G.cells.getD t default).c2.1
        (cellDist (G.cells.getD c default) (G.cells.getD t default) n).1 ∧
      DimOK per.2.1 G.c1.2.1 G.c2.2.1 (offsets.getD n (0, 0, 0)).2.1 (G.cells.getD c default).c1.2.1
        (G.cells.getD c default).c2.2.1 (G.cells.getD t default).c1.2.1 (G.cells.getD t default).c2.2.1
        (cellDist (G.cells.getD c default) (G.cells.getD t default) n).2.1 ∧
      DimOK per.2.2 G.c1.2.2 G.c2.2.2 (offsets.getD n (0, 0, 0)).2.2 (G.cells.getD c default).c1.2.2
        (G.cells.getD c default).c2.2.2 (G.cells.getD t default).c1.2.2 (G.cells.getD t default).c2.2.2
        (cellDist (G.cells.getD c default) (G.cells.getD t default) n).2.2) ∧
    (G.outAt c n = [] →
      WallDim per.1 G.c1.1 G.c2.1 (offsets.getD n (0, 0, 0)).1 (G.cells.getD c default).c1.1
        (G.cells.getD c default).c2.1 ∨
      WallDim per.2.1 G.c1.2.1 G.c2.2.1 (offsets.getD n (0, 0, 0)).2.1 (G.cells.getD c default).c1.2.1
        (G.cells.getD c default).c2.2.1 ∨
      WallDim per.2.2 G.c1.2.2 G.c2.2.2 (offsets.getD n (0, 0, 0)).2.2 (G.cells.getD c default).c1.2.2
        (G.cells.getD c default).c2.2.2)

instance (G : Grid) (per : V3 Bool) : Decidable (GeomOK G per) := by unfold GeomOK; infer_instance

/-- what one coordinate of a particle handed to an outlet cell looks like, relative to the box `[lo, hi)`:
beyond the upper face → periodic direction and `r' = r − L`; below the lower face → periodic and
`r' = r + L`; inside → unchanged -/
def WrapComp (per : Bool) (lo hi r r' : Rat) : Prop :=
  (hi ≤ r → per = true ∧ r' = r - (hi - lo)) ∧ (r < lo → per = true ∧ r' = r + (hi - lo)) ∧
  (lo ≤ r → r < hi → r' = r)

theorem wrap_dim {per : Bool} {lo hi : Rat} {cc1 cc2 tc1 tc2 dist r : Rat}
    (hd : DimOK per lo hi (offComponent r cc1 cc2) cc1 cc2 tc1 tc2 dist)
    (hin : tc1 ≤ wrapComponent r tc1 cc1 dist ∧ wrapComponent r tc1 cc1 dist < tc2) :
    WrapComp per lo hi r (wrapComponent r tc1 cc1 dist) := by
  unfold DimOK at hd
  unfold WrapComp
  unfold wrapComponent at *
  unfold offComponent at hd
  obtain ⟨h1, h2, h3, h4, h5, h6, h7⟩ := hd
  by_cases ha : r < cc1
  · simp only [ha, if_true] at h5 h6 h7
    have := h7 trivial
    grind
  · by_cases hb : r ≥ cc2
    · simp only [ha, hb, if_true, if_false] at h5 h6 h7
      have := h6 trivial
      grind
    · simp only [ha, hb, if_false] at h5 h6 h7
      have := h5 trivial
      grind

theorem isInside_iff (c1 c2 r : V3 Rat) : isInside c1 c2 r = true ↔
    (c1.1 ≤ r.1 ∧ r.1 < c2.1) ∧ (c1.2.1 ≤ r.2.1 ∧ r.2.1 < c2.2.1) ∧ (c1.2.2 ≤ r.2.2 ∧ r.2.2 < c2.2.2) := by
  unfold isInside V3.all V3.map3
  simp only [Bool.and_eq_true, Bool.not_eq_true', Bool.or_eq_false_iff, decide_eq_false_iff_not, ge_iff_le,
    Rat.not_lt, Rat.not_le]
  constructor
  · rintro ⟨⟨h1, h2⟩, h3⟩; exact ⟨h1, h2, h3⟩
  · rintro ⟨h1, h2, h3⟩; exact ⟨⟨h1, h2⟩, h3⟩

theorem isInsideEps_iff (c1 c2 r : V3 Rat) (eps : Rat) : isInsideEps c1 c2 r eps = true ↔
    (c1.1 - eps ≤ r.1 ∧ r.1 < c2.1 + eps) ∧ (c1.2.1 - eps ≤ r.2.1 ∧ r.2.1 < c2.2.1 + eps) ∧
      (c1.2.2 - eps ≤ r.2.2 ∧ r.2.2 < c2.2.2 + eps) := by
  unfold isInsideEps V3.all V3.map3
  simp only [Bool.and_eq_true, Bool.not_eq_true', Bool.or_eq_false_iff, decide_eq_false_iff_not, ge_iff_le,
    Rat.not_lt, Rat.not_le]
  constructor
  · rintro ⟨⟨h1, h2⟩, h3⟩; exact ⟨h1, h2, h3⟩
  · rintro ⟨h1, h2, h3⟩; exact ⟨⟨h1, h2⟩, h3⟩

/-- exact containment implies ε-containment for `eps ≥ 0` -/
theorem isInsideEps_of_isInside {c1 c2 r : V3 Rat} {eps : Rat} (he : 0 ≤ eps) (h : isInside c1 c2 r = true) :
    isInsideEps c1 c2 r eps = true := by
  rw [isInside_iff] at h
  rw [isInsideEps_iff]
  grind

/-! ### completeness and uniqueness of the link list (executable check for `C01_links_complete_unique`) -/

/-- does link `lk` represent "the neighbour of cell `c` in direction `n` is `t`"
(either as `(c, t, n)` or as `(t, c, INV_NEIGHBOR(n))`)? -/
def represents (lk : LinkGeom) (c n t : Nat) : Bool :=
  (lk.first == c && lk.second == t && lk.align == (n : Int)) ||
  (lk.first == t && lk.second == c && lk.align == invNeighbor n)

/-- link `lk` (not local) occupies the slot "direction `n` of cell `c`" -/
def occupiesSlot (lk : LinkGeom) (c n : Nat) : Bool :=
  lk.align != -1 && ((lk.first == c && lk.align == (n : Int)) || (lk.second == c && lk.align == invNeighbor n))

/-- Executable statement of "the link list is complete and unique" for a grid built with periodicity `per`:
* `m_links[c]` is the local link `(c, c, −1)` of cell `c`, `m_local_link` points to it, and it is the only
  local link of `c`;
* for every cell `c` and direction `n`: if the neighbour position (wrapped in periodic directions) exists,
  with cell index `t`, then exactly one link represents `(c, n, t)`, it is the only link in slot `(c, n)`,
  its `m_cell_dist` is `cellDist`, and the outlet list is `[t]`; otherwise no link is in that slot and there
  is no outlet;
* nothing else: every link is local or has a direction in `0..25`, distinct existing end cells, and acts on
  both. -/
def linksOKb (G : Grid) (per : V3 Bool) : Bool :=
  let nC := G.cells.size
  let links := G.links.toList
  (List.range nC).all (fun c =>
    (links.filter fun lk => lk.align == -1 && (lk.first == c || lk.second == c)).length == 1 &&
    G.loc.get c == c &&
    (match G.links[c]? with
     | some lk => lk.align == -1 && lk.first == c && lk.second == c && lk.dist == (0, 0, 0)
     | none => false)) &&
  (List.range nC).all (fun c =>
    (List.range numNeighbors).all fun n =>
      let off := offsets.getD n (0, 0, 0)
      let p := neighborPos G.nc per (G.cells.getD c default).tag off
      if posInRange G.nc p then
        let t := (toCellIndex p G.nc).toNat
        (links.filter fun lk => represents lk c n t).length == 1 &&
        (links.filter fun lk => occupiesSlot lk c n).length == 1 &&
        (links.filter fun lk => represents lk c n t).all (fun lk =>
          lk.dist == cellDist (G.cells.getD lk.first default) (G.cells.getD lk.second default) lk.align.toNat) &&
        G.outAt c n == [t]
      else
        (links.filter fun lk => occupiesSlot lk c n).length == 0 && G.outAt c n == []) &&
  links.all (fun lk => (lk.align == -1 && lk.first == lk.second) ||
    (decide (0 ≤ lk.align) && decide (lk.align < 26) && decide (lk.first < nC) && decide (lk.second < nC)
      && lk.first != lk.second && lk.aoF && lk.aoS))

/-- all static checks for the grid `cellSubdivide(cutoff, 0, box, per)` builds: it exists, has
`n_x·n_y·n_z` cells with `n_d = ⌊box_d / cutoff⌋`, and passes `gridOKb`, `linksOKb`, `GeomOK` -/
def staticChecks (cutoff : Rat) (box : V3 Rat) (per : V3 Bool) : Bool :=
  match subdivide cutoff (0, 0, 0) box per with
  | some G => gridOKb G && linksOKb G per && decide (GeomOK G per) &&
      G.cells.size == (G.nc.1 * G.nc.2.1 * G.nc.2.2).toNat
  | none => false

end Sympler.Grid
