import Sympler.GridChecks

/-!
Static facts about the grid built by `Sympler.Grid.subdivide` that the dynamic invariants of
`Sympler/CellsLemmas.lean` rest on (`GridOK`), and their proofs.  Core Lean only.
-/
namespace Sympler.Grid
open Sympler Sympler.Cells Sympler.Gen.CellTables

theorem gridOKb_sound {G : Grid} (h : gridOKb G = true) : GridOK G ∧ OutSingle G := by
  unfold gridOKb at h
  simp only [List.all_eq_true, List.mem_range, Bool.and_eq_true, decide_eq_true_eq, beq_iff_eq] at h
  refine ⟨⟨?_, ?_⟩, ?_⟩
  · intro c hc l
    obtain ⟨⟨h1, h2⟩, _⟩ := h c hc
    by_cases hl : l < G.links.size
    · rw [if_pos hl]; exact h2 l hl
    · rw [if_neg hl]
      apply List.count_eq_zero.mpr
      intro hm; exact hl (h1 l hm)
  · intro c hc n hn t ht
    exact ((h c hc).2 n hn).1 t ht
  · intro c hc n hn
    exact ((h c hc).2 n hn).2

/-- the direction index computed by `checkNewPosition` is one of the 26 directions -/
theorem off_range : ∀ a ∈ [(-1 : Int), 0, 1], ∀ b ∈ [(-1 : Int), 0, 1], ∀ c ∈ [(-1 : Int), 0, 1],
    (a, b, c) ≠ (0, 0, 0) → 0 ≤ offset2neighbor (a, b, c) ∧ offset2neighbor (a, b, c) < 26 ∧
      offsets.getD (offset2neighbor (a, b, c)).toNat (0, 0, 0) = (a, b, c) := by decide

theorem offComponent_mem (r a b : Rat) : offComponent r a b ∈ [(-1 : Int), 0, 1] := by
  unfold offComponent
  split
  · simp
  · split <;> simp

theorem leaveOffset_lt (cg : CellGeom) (r : V3 Rat) :
    (offset2neighbor (leaveOffset cg r)).toNat < numNeighbors := by
  have h1 := offComponent_mem r.1 cg.c1.1 cg.c2.1
  have h2 := offComponent_mem r.2.1 cg.c1.2.1 cg.c2.2.1
  have h3 := offComponent_mem r.2.2 cg.c1.2.2 cg.c2.2.2
  show (offset2neighbor (offComponent r.1 cg.c1.1 cg.c2.1, offComponent r.2.1 cg.c1.2.1 cg.c2.2.1,
    offComponent r.2.2 cg.c1.2.2 cg.c2.2.2)).toNat < 26
  generalize offComponent r.1 cg.c1.1 cg.c2.1 = a at h1
  generalize offComponent r.2.1 cg.c1.2.1 cg.c2.2.1 = b at h2
  generalize offComponent r.2.2 cg.c1.2.2 cg.c2.2.2 = c at h3
  by_cases h0 : (a, b, c) = (0, 0, 0)
  · rw [h0]; decide
  · have := (off_range a h1 b h2 c h3 h0).2.1
    omega

theorem activeEnds_cons (G : Grid) {L : List Nat} {c : Nat} (hc : c ∉ L) (l : Nat) :
    activeEnds G (c :: L) l = activeEnds G L l + ends G l c := by
  unfold activeEnds ends
  simp only [List.mem_cons]
  grind

theorem activeEnds_erase (G : Grid) {L : List Nat} (hn : L.Nodup) {c : Nat} (hc : c ∈ L) (l : Nat) :
    activeEnds G L l = activeEnds G (L.erase c) l + ends G l c := by
  unfold activeEnds ends
  simp only [List.Nodup.mem_erase_iff hn]
  grind

/-! ### geometry of outlets (for `C09_wrap_exact`, `C09_count_conserved`) -/

theorem wrap_dim {per : Bool} {lo hi : Rat} {cc1 cc2 tc1 tc2 dist r : Rat}
    (hd : DimOK per lo hi (offComponent r cc1 cc2) cc1 cc2 tc1 tc2 dist)
    (hin : tc1 ≤ wrapComponent r tc1 cc1 dist ∧ wrapComponent r tc1 cc1 dist < tc2) :
    WrapComp per lo hi r (wrapComponent r tc1 cc1 dist) := by
  unfold DimOK at hd
  unfold WrapComp
  unfold wrapComponent at *
  unfold offComponent at hd
  obtain ⟨h1, h2, h3, h4, h5, h6, h7⟩ := hd
  by_cases ha : r < cc1
  · simp only [ha, if_true] at h5 h6 h7
    have := h7 trivial
    grind
  · by_cases hb : r ≥ cc2
    · simp only [ha, hb, if_true, if_false] at h5 h6 h7
      have := h6 trivial
      grind
    · simp only [ha, hb, if_false] at h5 h6 h7
      have := h5 trivial
      grind

theorem isInside_iff (c1 c2 r : V3 Rat) : isInside c1 c2 r = true ↔
    (c1.1 ≤ r.1 ∧ r.1 < c2.1) ∧ (c1.2.1 ≤ r.2.1 ∧ r.2.1 < c2.2.1) ∧ (c1.2.2 ≤ r.2.2 ∧ r.2.2 < c2.2.2) := by
  unfold isInside V3.all V3.map3
  simp only [Bool.and_eq_true, Bool.not_eq_true', Bool.or_eq_false_iff, decide_eq_false_iff_not, ge_iff_le,
    Rat.not_lt, Rat.not_le]
  constructor
  · rintro ⟨⟨h1, h2⟩, h3⟩; exact ⟨h1, h2, h3⟩
  · rintro ⟨h1, h2, h3⟩; exact ⟨⟨h1, h2⟩, h3⟩

theorem isInsideEps_iff (c1 c2 r : V3 Rat) (eps : Rat) : isInsideEps c1 c2 r eps = true ↔
    (c1.1 - eps ≤ r.1 ∧ r.1 < c2.1 + eps) ∧ (c1.2.1 - eps ≤ r.2.1 ∧ r.2.1 < c2.2.1 + eps) ∧
      (c1.2.2 - eps ≤ r.2.2 ∧ r.2.2 < c2.2.2 + eps) := by
  unfold isInsideEps V3.all V3.map3
  simp only [Bool.and_eq_true, Bool.not_eq_true', Bool.or_eq_false_iff, decide_eq_false_iff_not, ge_iff_le,
    Rat.not_lt, Rat.not_le]
  constructor
  · rintro ⟨⟨h1, h2⟩, h3⟩; exact ⟨h1, h2, h3⟩
  · rintro ⟨h1, h2, h3⟩; exact ⟨⟨h1, h2⟩, h3⟩

/-- exact containment implies ε-containment for `eps ≥ 0` -/
theorem isInsideEps_of_isInside {c1 c2 r : V3 Rat} {eps : Rat} (he : 0 ≤ eps) (h : isInside c1 c2 r = true) :
    isInsideEps c1 c2 r eps = true := by
  rw [isInside_iff] at h
  rw [isInsideEps_iff]
  grind

/-! ### completeness and uniqueness of the link list (executable check for `C01_links_complete_unique`) -/

end Sympler.Grid
