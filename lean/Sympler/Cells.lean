import Sympler.Grid

/-!
Executable model of the dynamic part of the cell machinery (the C09 state machine):

* `DLL`                    — an intrusive doubly linked list (`first`, per-object `next`/`prev`, counter):
                             `ManagerCell::activateCell` / `deactivateCell` (manager_cell.cpp:954-994) for
                             cells and `activateCellLink` / `deactivateCellLink` (manager_cell.cpp:997-1085,
                             non-OpenMP branch) for links.  Both insert at the HEAD.
* `cellActivated` / `cellDeactivated` — `CellLink::cellActivated/cellDeactivated` (cell.cpp:160-195)
* `activate` / `deactivate`           — `Cell::activate/deactivate` (cell.cpp:1185-1220)
* `injectFree` / `injectFrozen` / `commitInjections` — cell.cpp:960-1004
* `checkNewPosition`, `updateCell`    — `Cell::checkNewPosition`, `Cell::updatePositions` (cell.cpp:787-951)
* `sweep`, `commitAll`, `invalidatePositions` — `ManagerCell::invalidatePositions` (manager_cell.cpp:98-190)
                             with `LL_FOR_EACH__PARALLEL` (threads.h:43: `next = i->next` saved before the body)
* `assignParticlesToCells`            — `Phase::assignParticlesToCells` (phase.cpp:308-360)

Objects are indices (cells, links as in `Sympler.Grid`); a free particle is `(colour, slot)`, a frozen
particle is `(colour, slot)` in the separate frozen `SmartList` (slots are stable: `SmartList::deleteEntry`
does not move entries).  The binary is built with `-DNDEBUG`, so `assert`s are not modelled.
Integration itself is NOT part of this model: the op `move` supplies the position after
`integratePosition` (all particles of one colour at once — the real code interleaves "integrate p, check p",
which is the same because integration of `p` reads only `p`).
Core Lean only.
-/
namespace Sympler.Cells
open Sympler Sympler.Grid Sympler.Gen.CellTables

/-- intrusive doubly linked list over object indices -/
structure DLL where
  /-- `m_first_cell` / `m_first_link` -/
  first : Option Nat
  /-- `Cell::next` / `CellLink::next` -/
  next : Store (Option Nat)
  /-- `Cell::prev` / `CellLink::prev` -/
  prev : Store (Option Nat)
  /-- `m_n_active_cells` / `m_n_active_links` -/
  count : Nat

def DLL.empty : DLL := ⟨none, Store.const none, Store.const none, 0⟩

/-- `c->next = m_first; if (c->next) c->next->prev = c; m_first = c; c->prev = NULL; ++m_n_active;` -/
def DLL.pushFront (d : DLL) (c : Nat) : DLL :=
  let next := d.next.set c d.first
  let prev := match d.first with
    | some f => d.prev.set f (some c)
    | none => d.prev
  { first := some c, next := next, prev := prev.set c none, count := d.count + 1 }

/-- `if (c->prev) c->prev->next = c->next; else m_first = c->next; if (c->next) c->next->prev = c->prev;
c->next = c->prev = NULL; --m_n_active;` -/
def DLL.remove (d : DLL) (c : Nat) : DLL :=
  let cn := d.next.get c
  let cp := d.prev.get c
  let first := match cp with
    | some _ => d.first
    | none => cn
  let next := match cp with
    | some p => d.next.set p cn
    | none => d.next
  let prev := match cn with
    | some n => d.prev.set n cp
    | none => d.prev
  { first := first, next := next.set c none, prev := prev.set c none, count := d.count - 1 }

/-- follow `next` from `i` for at most `fuel` hops -/
def DLL.walk (next : Store (Option Nat)) : Nat → Option Nat → List Nat
  | _, none => []
  | 0, some _ => []
  | fuel + 1, some i => i :: DLL.walk next fuel (next.get i)

/-- the list in iteration order (`for (i = first; i; i = i->next)`); the walk is cut after `count`
hops (`DLL.Repr` in `CellsLemmas` shows that this is the whole list) -/
def DLL.toList (d : DLL) : List Nat := DLL.walk d.next d.count d.first

/-- what the model can refuse -/
inductive Err where
  /-- `abort()` in `CellLink::cellActivated/cellDeactivated`: counter left `[0,2]` -/
  | abortLinkCounter
  /-- `gError(…, PARTICLEFLEWTOOFAR)` in `Cell::checkNewPosition` -/
  | flewTooFar (colour slot : Nat)
  /-- "No cell for free/frozen particle" / "FATAL: Point is not inside" in `assignParticlesToCells` -/
  | noCell (colour slot : Nat)
  /-- more than one outlet in a direction (only inlet/outlet regions have that; not modelled) -/
  | multiOutlet
  /-- the model's bound on the length of the sweep was hit (never happens, see `C09_iteration_visits_all`) -/
  | fuel
deriving Repr, DecidableEq

/-- the static data -/
structure Sys where
  G : Grid.Grid
  /-- `ManagerCell::nColours()` -/
  nCol : Nat
  /-- `g_geom_eps` -/
  eps : Rat

def Sys.nCells (S : Sys) : Nat := S.G.cells.size

/-- the part of the state touched by `Cell::activate/deactivate`: the two intrusive lists and the
link counters -/
structure ActSt where
  /-- active-cell list -/
  cl : DLL
  /-- `CellLink::m_n_active_cells` (C `int`) -/
  lcnt : Store Int
  /-- active-link list -/
  ll : DLL

def ActSt.init : ActSt := { cl := DLL.empty, lcnt := Store.const 0, ll := DLL.empty }

/-- dynamic state -/
structure St where
  /-- `Cell::m_particles[colour]` : cell → colour → free slots in list order -/
  free : Store (Store (List Nat))
  /-- `Cell::m_frozen_particles[colour]` -/
  frozen : Store (Store (List Nat))
  /-- `Cell::m_injected_particles[colour]` -/
  inj : Store (Store (List Nat))
  /-- `Cell::m_n_particles` -/
  nPart : Store Nat
  /-- active cells, link counters, active links -/
  act : ActSt
  /-- `Particle::r` of the free particles: colour → slot → position -/
  pos : Store (Store (V3 Rat))
  /-- `Particle::r` of the frozen particles -/
  fpos : Store (Store (V3 Rat))
  /-- particles removed by the `total_erase` branch, in order -/
  erased : List (Nat × Nat)

def St.init : St :=
  { free := Store.const (Store.const []), frozen := Store.const (Store.const []),
    inj := Store.const (Store.const []), nPart := Store.const 0, act := ActSt.init,
    pos := Store.const (Store.const (0, 0, 0)), fpos := Store.const (Store.const (0, 0, 0)), erased := [] }

def St.freeAt (s : St) (c k : Nat) : List Nat := (s.free.get c).get k
def St.frozenAt (s : St) (c k : Nat) : List Nat := (s.frozen.get c).get k
def St.injAt (s : St) (c k : Nat) : List Nat := (s.inj.get c).get k
def St.posAt (s : St) (k p : Nat) : V3 Rat := (s.pos.get k).get p
def St.fposAt (s : St) (k p : Nat) : V3 Rat := (s.fpos.get k).get p

/-- replace one of the nested per-cell, per-colour lists -/
def setAt {α : Type} (s : Store (Store α)) (c k : Nat) (v : α) : Store (Store α) :=
  s.set c ((s.get c).set k v)

/-! ### links -/

/-- `CellLink::cellActivated`: `++m_n_active_cells; if (!(0 <= n && n <= 2)) abort();
if (n == 2) manager->activateCellLink(this);` -/
def cellActivated (a : ActSt) (l : Nat) : Except Err ActSt :=
  let n := a.lcnt.get l + 1
  if 0 ≤ n ∧ n ≤ 2 then
    let a := { a with lcnt := a.lcnt.set l n }
    .ok (if n = 2 then { a with ll := a.ll.pushFront l } else a)
  else .error .abortLinkCounter

/-- `CellLink::cellDeactivated`: `--m_n_active_cells; if (!(0 <= n && n <= 2)) abort();
if (n == 1) manager->deactivateCellLink(this);` -/
def cellDeactivated (a : ActSt) (l : Nat) : Except Err ActSt :=
  let n := a.lcnt.get l - 1
  if 0 ≤ n ∧ n ≤ 2 then
    let a := { a with lcnt := a.lcnt.set l n }
    .ok (if n = 1 then { a with ll := a.ll.remove l } else a)
  else .error .abortLinkCounter

/-- run a notification over a list of links, in order -/
def notifyAll (f : ActSt → Nat → Except Err ActSt) : List Nat → ActSt → Except Err ActSt
  | [], a => .ok a
  | l :: ls, a =>
    match f a l with
    | .ok a' => notifyAll f ls a'
    | .error e => .error e

/-- the links a cell notifies, in order: the local link twice, then `m_neighbors[0] … m_neighbors[25]` -/
def notifyList (G : Grid.Grid) (c : Nat) : List Nat :=
  [G.loc.get c, G.loc.get c] ++ (List.range numNeighbors).flatMap (G.nbAt c)

/-- `Cell::activate`: `m_manager->activateCell(this)`, then the notifications -/
def activateA (G : Grid.Grid) (a : ActSt) (c : Nat) : Except Err ActSt :=
  notifyAll cellActivated (notifyList G c) { a with cl := a.cl.pushFront c }

/-- `Cell::deactivate`: `m_manager->deactivateCell(this)`, then the notifications -/
def deactivateA (G : Grid.Grid) (a : ActSt) (c : Nat) : Except Err ActSt :=
  notifyAll cellDeactivated (notifyList G c) { a with cl := a.cl.remove c }

def activate (S : Sys) (s : St) (c : Nat) : Except Err St :=
  match activateA S.G s.act c with
  | .ok a => .ok { s with act := a }
  | .error e => .error e

def deactivate (S : Sys) (s : St) (c : Nat) : Except Err St :=
  match deactivateA S.G s.act c with
  | .ok a => .ok { s with act := a }
  | .error e => .error e

/-! ### particles entering and leaving cells -/

/-- `Cell::injectFree` : `m_injected_particles[colour].push_back(p)` (the group bookkeeping is not modelled) -/
def injectFree (s : St) (c k p : Nat) : St :=
  { s with inj := setAt s.inj c k (s.injAt c k ++ [p]) }

/-- `Cell::injectFrozen` : `m_frozen_particles[colour].push_back(p); if (!m_n_particles) activate(); ++m_n_particles;` -/
def injectFrozen (S : Sys) (s : St) (c k p : Nat) : Except Err St :=
  let s := { s with frozen := setAt s.frozen c k (s.frozenAt c k ++ [p]) }
  let r := if s.nPart.get c = 0 then activate S s c else .ok s
  match r with
  | .ok s => .ok { s with nPart := s.nPart.set c (s.nPart.get c + 1) }
  | .error e => .error e

/-- the colour loop of `Cell::commitInjections`: returns the state with the buffers of colours
`k, k+1, …` appended to the free lists and cleared, and the number of moved particles -/
def commitColours (c : Nat) : List Nat → St → Nat → St × Nat
  | [], s, np => (s, np)
  | k :: ks, s, np =>
    let np := np + (s.injAt c k).length
    let s := { s with free := setAt s.free c k (s.freeAt c k ++ s.injAt c k) }
    let s := { s with inj := setAt s.inj c k [] }
    commitColours c ks s np

/-- `Cell::commitInjections` : `… if (np && !m_n_particles) activate(); m_n_particles += np;` -/
def commitInjections (S : Sys) (s : St) (c : Nat) : Except Err St :=
  let (s, np) := commitColours c (List.range S.nCol) s 0
  let r := if np ≠ 0 ∧ s.nPart.get c = 0 then activate S s c else .ok s
  match r with
  | .ok s => .ok { s with nPart := s.nPart.set c (s.nPart.get c + np) }
  | .error e => .error e

/-- `FOR_EACH(vector<Cell*>, m_cells, commitInjections())` -/
def commitCells (S : Sys) : List Nat → St → Except Err St
  | [], s => .ok s
  | c :: cs, s =>
    match commitInjections S s c with
    | .ok s' => commitCells S cs s'
    | .error e => .error e

def commitAll (S : Sys) (s : St) : Except Err St := commitCells S (List.range S.nCells) s

/-- the direction in which `r` left the cell, computed with the exact corners (cell.cpp:844-848) -/
def leaveOffset (cg : CellGeom) (r : V3 Rat) : V3 Int := V3.map3 offComponent r cg.c1 cg.c2

/-- `new_p->r = old_r + (*c)->corner1 - corner1 - dist` with `dist = cellDist(this, *c, n)` (cell.cpp:862-869) -/
def wrapPos (cg tg : CellGeom) (n : Nat) (r : V3 Rat) : V3 Rat :=
  let dist := cellDist cg tg n
  (wrapComponent r.1 tg.c1.1 cg.c1.1 dist.1, wrapComponent r.2.1 tg.c1.2.1 cg.c1.2.1 dist.2.1,
   wrapComponent r.2.2 tg.c1.2.2 cg.c1.2.2 dist.2.2)

/-- the `if (erase) { … }` tail of `checkNewPosition`: remove `p` from `m_particles[colour]`,
`m_n_particles--`, `deactivate()` at 0.  (`List.erase` removes the first occurrence; the lists are
duplicate free — invariant (1) — so this is the element under the iterator.) -/
def eraseFromCell (S : Sys) (s : St) (c k p : Nat) : Except Err St :=
  let s := { s with free := setAt s.free c k ((s.freeAt c k).erase p) }
  let s := { s with nPart := s.nPart.set c (s.nPart.get c - 1) }
  if s.nPart.get c = 0 then deactivate S s c else .ok s

/-- `Cell::checkNewPosition` for the free particle `(k, p)` registered in cell `c`. -/
def checkNewPosition (S : Sys) (s : St) (c k p : Nat) : Except Err St :=
  let cg := S.G.cells.getD c default
  let r := s.posAt k p
  if isInsideEps cg.c1 cg.c2 r S.eps then .ok s
  else
    let off := leaveOffset cg r
    let n := (offset2neighbor off).toNat
    match S.G.outAt c n with
    | [] =>
      -- no outlet: `erase = total_erase = true` … `phase->removeParticle(p)`
      match eraseFromCell S s c k p with
      | .ok s => .ok { s with erased := s.erased ++ [(k, p)] }
      | .error e => .error e
    | [t] =>
      let tg := S.G.cells.getD t default
      let r' := wrapPos cg tg n r
      if isInside tg.c1 tg.c2 r' then
        let s := { s with pos := setAt s.pos k p r' }
        let s := injectFree s t k p
        eraseFromCell S s c k p
      else .error (.flewTooFar k p)
    | _ => .error .multiOutlet

/-- the particle loop of `Cell::updatePositions(integrator)` over (the snapshot of) `m_particles[colour]` -/
def updateParticles (S : Sys) (c k : Nat) : List Nat → St → Except Err St
  | [], s => .ok s
  | p :: ps, s =>
    match checkNewPosition S s c k p with
    | .ok s' => updateParticles S c k ps s'
    | .error e => .error e

/-- `Cell::updatePositions` for colour `k` in cell `c` -/
def updateCell (S : Sys) (k : Nat) (s : St) (c : Nat) : Except Err St :=
  updateParticles S c k (s.freeAt c k) s

/-- `LL_FOR_EACH__PARALLEL(Cell, m_first_cell, …, i->updatePositions(…))`:
`i = first; while (i) { next = i->next; body(i); i = next; }` -/
def sweepAux (S : Sys) (k : Nat) : Nat → Option Nat → St → Except Err St
  | _, none, s => .ok s
  | 0, some _, _ => .error .fuel
  | fuel + 1, some i, s =>
    let next := s.act.cl.next.get i
    match updateCell S k s i with
    | .ok s' => sweepAux S k fuel next s'
    | .error e => .error e

def sweep (S : Sys) (k : Nat) (s : St) : Except Err St := sweepAux S k s.act.cl.count s.act.cl.first s

/-- `ManagerCell::invalidatePositions(integrator)` for the integrator of colour `k`
(`createMoreParticles` does nothing for the cuboid box) -/
def invalidatePositions (S : Sys) (k : Nat) (s : St) : Except Err St :=
  match sweep S k s with
  | .ok s' => commitAll S s'
  | .error e => .error e

/-- the op `move`: positions after `integratePosition` for (some) free particles of colour `k` -/
def setPositions (k : Nat) : List (Nat × V3 Rat) → St → St
  | [], s => s
  | (p, r) :: rest, s => setPositions k rest { s with pos := setAt s.pos k p r }

/-- one integrator's `integrateStep1`: new positions of colour `k`, sweep, commit -/
def moveColour (S : Sys) (k : Nat) (newPos : List (Nat × V3 Rat)) (s : St) : Except Err St :=
  invalidatePositions S k (setPositions k newPos s)

/-- the operations of the per-step state machine, as they arrive at the cells -/
inductive Op where
  /-- positions after `integratePosition` for free particles of colour `k` (unwrapped), then the sweep
  over the active-cell list -/
  | move (k : Nat) (newPos : List (Nat × V3 Rat))
  /-- `commitInjections` for all cells -/
  | commit

def applyOp (S : Sys) (s : St) : Op → Except Err St
  | .move k newPos => sweep S k (setPositions k newPos s)
  | .commit => commitAll S s

/-- a whole history -/
def runOps (S : Sys) : List Op → St → Except Err St
  | [], s => .ok s
  | op :: ops, s =>
    match applyOp S s op with
    | .ok s' => runOps S ops s'
    | .error e => .error e

/-- a history of complete `integrateStep1`s: each entry is one integrator's colour with the positions after
`integratePosition`; `moveColour` = `Op.move` followed by `Op.commit` -/
def runSteps (S : Sys) : List (Nat × List (Nat × V3 Rat)) → St → Except Err St
  | [], s => .ok s
  | (k, newPos) :: rest, s =>
    match moveColour S k newPos s with
    | .ok s' => runSteps S rest s'
    | .error e => .error e

/-! ### initial assignment -/

/-- the free-particle loop of `assignParticlesToCells` for the particles `(k, p, r)` in storage order -/
def assignFree (S : Sys) : List (Nat × Nat × V3 Rat) → St → Except Err St
  | [], s => .ok s
  | (k, p, r) :: rest, s =>
    match findCell S.G S.eps r with
    | some c => assignFree S rest (injectFree { s with pos := setAt s.pos k p r } c k p)
    | none => .error (.noCell k p)

/-- the frozen-particle loop of `assignParticlesToCells` -/
def assignFrozen (S : Sys) : List (Nat × Nat × V3 Rat) → St → Except Err St
  | [], s => .ok s
  | (k, p, r) :: rest, s =>
    match findCell S.G S.eps r with
    | some c =>
      match injectFrozen S { s with fpos := setAt s.fpos k p r } c k p with
      | .ok s' => assignFrozen S rest s'
      | .error e => .error e
    | none => .error (.noCell k p)

/-- `Phase::assignParticlesToCells`: free particles (colour-major, slot order) into the injection
buffers, frozen particles (colour-major, slot order) directly, then `commitInjections` for all cells. -/
def assignParticlesToCells (S : Sys) (free frozen : List (Nat × Nat × V3 Rat)) : Except Err St :=
  match assignFree S free St.init with
  | .ok s =>
    match assignFrozen S frozen s with
    | .ok s => commitAll S s
    | .error e => .error e
  | .error e => .error e

end Sympler.Cells
