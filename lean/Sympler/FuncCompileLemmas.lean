import Sympler.FuncCompile

/-!
Helper lemmas for `Props/C11.lean`: the per-process invariant of the pid-qualified naming,
its preservation by every system call, the global invariant over all schedules, and the
termination measure.  Core Lean only.
-/
namespace Sympler.FuncCompile

/-! ### the directory as a finite map -/

theorem FS.get_erase (fs : FS) (n m : FName) :
    (FS.erase fs n).get m = if m = n then none else fs.get m := by
  show FS.get (List.filter (fun e => decide (e.1 ≠ n)) fs) m = _
  induction (show List (FName × File) from fs) with
  | nil => simp [FS.get]
  | cons hd tl ih =>
    obtain ⟨a, f⟩ := hd
    by_cases h : a = n
    · subst h
      simp only [List.filter, ne_eq, not_true_eq_false, decide_false]
      rw [ih]; simp only [FS.get]
      by_cases h2 : m = a
      · simp [h2]
      · have : ¬ a = m := fun e => h2 e.symm
        simp [h2, this]
    · simp only [List.filter, ne_eq, h, not_false_eq_true, decide_true, FS.get]
      rw [ih]
      by_cases h2 : a = m
      · subst h2; simp [h]
      · simp [h2]

theorem FS.get_set (fs : FS) (n : FName) (f : File) (m : FName) :
    (FS.set fs n f).get m = if m = n then some f else fs.get m := by
  simp only [FS.set, FS.get, FS.get_erase]
  by_cases h : n = m
  · subst h; simp
  · have : ¬ m = n := fun e => h e.symm
    simp [h, this]

/-! ### per-process invariant (pid-qualified naming) -/

/-- a path in the name space of process `p` -/
def own (p : Proc) (k : Nat) (e : Ext) : FName := ⟨some p.pid, k, e⟩

/-- number of expressions already bound -/
def boundCount (p : Proc) : Nat :=
  if p.status = .running ∧ p.pc = .rmSo then p.fn + 1 else p.fn

/-- what `p`'s two current files look like, depending on its program counter -/
def PcInv (init fs : FS) (p : Proc) : Prop :=
  match p.pc with
  | .probeSo =>
    fs.get (own p p.cur .c) = init.get (own p p.cur .c) ∧
    fs.get (own p p.cur .so) = init.get (own p p.cur .so)
  | .probeC =>
    init.get (own p p.cur .so) = none ∧ fs.get (own p p.cur .so) = none ∧
    fs.get (own p p.cur .c) = init.get (own p p.cur .c)
  | .openC =>
    init.get (own p p.cur .so) = none ∧ init.get (own p p.cur .c) = none ∧
    fs.get (own p p.cur .so) = none ∧ fs.get (own p p.cur .c) = none
  | .writeC =>
    init.get (own p p.cur .so) = none ∧ init.get (own p p.cur .c) = none ∧
    fs.get (own p p.cur .so) = none ∧
    fs.get (own p p.cur .c) = some ⟨.made p.pid p.fn, .empty⟩ ∧ p.fd = some (.made p.pid p.fn)
  | .gcc =>
    init.get (own p p.cur .so) = none ∧ init.get (own p p.cur .c) = none ∧
    fs.get (own p p.cur .so) = none ∧
    fs.get (own p p.cur .c) = some ⟨.made p.pid p.fn, .tag p.pid p.fn⟩
  | .rmC =>
    init.get (own p p.cur .so) = none ∧ init.get (own p p.cur .c) = none ∧ p.gccOk = true ∧
    fs.get (own p p.cur .so) = some ⟨.made p.pid p.fn, .tag p.pid p.fn⟩ ∧
    fs.get (own p p.cur .c) = some ⟨.made p.pid p.fn, .tag p.pid p.fn⟩
  | .dlopen =>
    init.get (own p p.cur .so) = none ∧ init.get (own p p.cur .c) = none ∧
    fs.get (own p p.cur .so) = some ⟨.made p.pid p.fn, .tag p.pid p.fn⟩ ∧
    fs.get (own p p.cur .c) = none
  | .rmSo =>
    init.get (own p p.cur .so) = none ∧ init.get (own p p.cur .c) = none ∧
    fs.get (own p p.cur .so) = some ⟨.made p.pid p.fn, .tag p.pid p.fn⟩ ∧
    fs.get (own p p.cur .c) = none

/-- Invariant of one process: everything in its name space is as in the initial directory,
except the two files of the name it currently works on, which it created itself at a
moment when both were absent. -/
def LInv (init fs : FS) (p : Proc) : Prop :=
  p.counter = p.cur + 1 ∧
  p.binds = (List.range (boundCount p)).map (fun f => (f, Content.tag p.pid f)) ∧
  p.status ≠ .error ∧
  p.fn ≤ p.nfun ∧
  (p.status = .done → p.fn = p.nfun ∧ ∀ k e, fs.get (own p k e) = init.get (own p k e)) ∧
  (p.status = .running → p.fn < p.nfun ∧
    (∀ k e, k ≠ p.cur → fs.get (own p k e) = init.get (own p k e)) ∧ PcInv init fs p)

theorem fname_true (p : Proc) (e : Ext) : fname true p e = own p p.cur e := rfl

theorem own_eq_iff (p : Proc) (k k' : Nat) (e e' : Ext) :
    own p k e = own p k' e' ↔ k = k' ∧ e = e' := by
  simp [own]

/-- A system call of `p` preserves `p`'s invariant. -/
theorem stepProc_LInv {init fs : FS} {p : Proc} (h : LInv init fs p) (hr : p.status = .running) :
    LInv init (stepProc true fs p).1 (stepProc true fs p).2 := by
  obtain ⟨pid, nfun, pc, counter, fn, cur, fd, gccOk, binds, status⟩ := p
  simp only at hr
  subst hr
  obtain ⟨hc, hb, -, hfn, -, hrun⟩ := h
  obtain ⟨hlt, hother, hpc⟩ := hrun rfl
  simp only at hc hb hfn hlt hother
  subst hc
  cases pc
  all_goals clear hrun
  all_goals simp only [PcInv, own] at hpc hother
  all_goals simp [boundCount] at hb
  all_goals simp only [stepProc, fname_true, own]
  · -- probeSo
    have hall : ∀ k e, fs.get ⟨some pid, k, e⟩ = init.get ⟨some pid, k, e⟩ := by
      intro k e
      by_cases hk : k = cur
      · subst hk; cases e <;> simp [hpc]
      · exact hother k e hk
    cases hso : fs.get ⟨some pid, cur, .so⟩ with
    | none => simp [LInv, PcInv, boundCount, own]; grind
    | some f => simp [LInv, PcInv, boundCount, own, bump]; grind
  · -- probeC
    have hall : ∀ k e, fs.get ⟨some pid, k, e⟩ = init.get ⟨some pid, k, e⟩ := by
      intro k e
      by_cases hk : k = cur
      · subst hk; cases e <;> simp [hpc]
      · exact hother k e hk
    cases hso : fs.get ⟨some pid, cur, .c⟩ with
    | none => simp [LInv, PcInv, boundCount, own]; grind
    | some f => simp [LInv, PcInv, boundCount, own, bump]; grind
  · -- openC
    simp [hpc.2.2.2, LInv, PcInv, boundCount, own, FS.get_set]; grind
  · -- writeC
    simp [hpc.2.2.2.1, hpc.2.2.2.2, LInv, PcInv, boundCount, own, FS.get_set]; grind
  · -- gcc
    simp [hpc.2.2.2, LInv, PcInv, boundCount, own, FS.get_set]; grind
  · -- rmC
    simp [hpc.2.2.1, LInv, PcInv, boundCount, own, FS.get_erase]; grind
  · -- dlopen
    simp [hpc.2.2.1, LInv, PcInv, boundCount, own, List.range_succ]; grind
  · -- rmSo
    have hall : ∀ k e, (if k = cur ∧ e = Ext.so then none else fs.get ⟨some pid, k, e⟩)
        = init.get ⟨some pid, k, e⟩ := by
      intro k e
      by_cases hk : k = cur
      · subst hk; cases e <;> simp [hpc]
      · simp [hk, hother k e hk]
    simp only [nextFn]
    split <;> simp [LInv, PcInv, boundCount, own, FS.get_erase] <;> grind

/-- A system call never changes the constants of the process. -/
theorem stepProc_const (u : Bool) (fs : FS) (p : Proc) :
    (stepProc u fs p).2.pid = p.pid ∧ (stepProc u fs p).2.nfun = p.nfun := by
  unfold stepProc
  cases p.pc <;> simp only [] <;> (try split) <;> (try split) <;>
    simp [bump, nextFn] <;> (try split) <;> simp

/-- With pid-qualified names a system call of `p` touches only paths with `p`'s pid part. -/
theorem stepProc_frame (fs : FS) (p : Proc) (n : FName) (hn : n.part ≠ some p.pid) :
    (stepProc true fs p).1.get n = fs.get n := by
  have hne : ∀ e, n ≠ own p p.cur e := by
    intro e h; apply hn; rw [h]; rfl
  unfold stepProc
  cases p.pc <;> simp only [fname_true] <;> (try split) <;> (try split) <;>
    simp [FS.get_set, FS.get_erase, hne]

/-- `LInv` of `q` only looks at the paths with `q`'s pid part. -/
theorem LInv_frame {init fs fs' : FS} {q : Proc} (h : LInv init fs q)
    (hf : ∀ n, n.part = some q.pid → FS.get fs' n = FS.get fs n) : LInv init fs' q := by
  have key : ∀ k e, FS.get fs' (own q k e) = FS.get fs (own q k e) := fun k e => hf _ rfl
  unfold LInv PcInv at *
  simp only [key]
  exact h

theorem LInv_init (init : FS) (pid nfun : Nat) : LInv init init (Proc.init pid nfun) := by
  unfold LInv PcInv Proc.init boundCount
  by_cases h : nfun = 0
  · subst h; simp
  · simp [h]; omega

/-! ### global invariant -/

/-- pairwise distinct process ids, index form -/
def Distinct (procs : List Proc) : Prop :=
  ∀ (i j : Nat) (p q : Proc), procs[i]? = some p → procs[j]? = some q → p.pid = q.pid → i = j

structure Inv (init : FS) (w : World) : Prop where
  loc : ∀ (i : Nat) (p : Proc), w.procs[i]? = some p → LInv init w.fs p
  frame : ∀ n, (∀ (i : Nat) (p : Proc), w.procs[i]? = some p → n.part ≠ some p.pid) → w.fs.get n = init.get n
  dist : Distinct w.procs

theorem step_Inv {init : FS} {w : World} (h : Inv init w) (i : Nat) : Inv init (step true w i) := by
  unfold step
  cases hp : w.procs[i]? with
  | none => exact h
  | some p =>
    simp only
    cases hs : p.status with
    | done => exact h
    | error => exact h
    | running =>
      simp only
      have hlt : i < w.procs.length := by
        rcases Nat.lt_or_ge i w.procs.length with h1 | h1
        · exact h1
        · rw [List.getElem?_eq_none h1] at hp; cases hp
      have hpid := (stepProc_const true w.fs p).1
      refine ⟨?_, ?_, ?_⟩
      · intro j q hq
        simp only [List.getElem?_set] at hq
        by_cases hij : i = j
        · simp only [hij] at hq hlt
          simp only [hlt, if_true] at hq
          cases hq
          exact stepProc_LInv (h.loc i p hp) hs
        · simp only [hij, if_false] at hq
          refine LInv_frame (h.loc j q hq) ?_
          intro n hn
          apply stepProc_frame
          intro hn'
          exact hij (h.dist i j p q hp hq (by rw [hn] at hn'; exact (Option.some.inj hn').symm))
      · intro n hn
        simp only at hn ⊢
        have h1 : n.part ≠ some p.pid := by
          have := hn i (stepProc true w.fs p).2 (by simp [hlt])
          rwa [hpid] at this
        rw [stepProc_frame _ _ _ h1]
        apply h.frame
        intro j q hq
        by_cases hij : i = j
        · subst hij; rw [hp] at hq; cases hq; exact h1
        · exact hn j q (by simp [hij, hq])
      · intro a b x y hx hy hxy
        simp only [List.getElem?_set] at hx hy
        have fix : ∀ c z, (if i = c then if i < w.procs.length then some (stepProc true w.fs p).2 else none
            else w.procs[c]?) = some z → ∃ z', w.procs[c]? = some z' ∧ z'.pid = z.pid := by
          intro c z hz
          by_cases hic : i = c
          · subst hic; simp only [if_true, hlt] at hz; cases hz
            exact ⟨p, hp, hpid.symm⟩
          · simp only [hic, if_false] at hz; exact ⟨z, hz, rfl⟩
        obtain ⟨x', hx', ex⟩ := fix a x hx
        obtain ⟨y', hy', ey⟩ := fix b y hy
        exact h.dist a b x' y' hx' hy' (by rw [ex, ey, hxy])

theorem runFrom_Inv {init : FS} (sched : List Nat) {w : World} (h : Inv init w) :
    Inv init (runFrom true w sched) := by
  induction sched generalizing w with
  | nil => exact h
  | cons i rest ih => exact ih (step_Inv h i)

theorem Distinct_of_nodup (cfg : List (Nat × Nat)) (h : (cfg.map (·.1)).Nodup) :
    Distinct (mkProcs cfg) := by
  intro i j p q hp hq hpq
  simp only [mkProcs, List.getElem?_map] at hp hq
  cases hi : cfg[i]? with
  | none => simp [hi] at hp
  | some a =>
    cases hj : cfg[j]? with
    | none => simp [hj] at hq
    | some b =>
      simp only [hi, hj, Option.map_some, Option.some.injEq] at hp hq
      subst hp; subst hq
      simp only [Proc.init] at hpq
      have h1 : (cfg.map (·.1))[i]? = some a.1 := by simp [hi]
      have h2 : (cfg.map (·.1))[j]? = some a.1 := by simp [hj, hpq]
      rw [List.Nodup, List.pairwise_iff_getElem] at h
      obtain ⟨hil, h1'⟩ := List.getElem?_eq_some_iff.mp h1
      obtain ⟨hjl, h2'⟩ := List.getElem?_eq_some_iff.mp h2
      rcases Nat.lt_trichotomy i j with hlt | heq | hgt
      · exact absurd (h1'.trans h2'.symm) (h i j hil hjl hlt)
      · exact heq
      · exact absurd (h2'.trans h1'.symm) (h j i hjl hil hgt)

theorem Inv_init (init : FS) (cfg : List (Nat × Nat)) (h : (cfg.map (·.1)).Nodup) :
    Inv init ⟨init, mkProcs cfg⟩ := by
  refine ⟨?_, fun _ _ => rfl, Distinct_of_nodup cfg h⟩
  intro i p hp
  simp only [mkProcs, List.getElem?_map] at hp
  cases hi : cfg[i]? with
  | none => simp [hi] at hp
  | some a =>
    simp only [hi, Option.map_some, Option.some.injEq] at hp
    subst hp
    exact LInv_init init a.1 a.2

/-! ### termination measure -/

/-- is path `n` in the name space of `pid`, with counter `≥ k0`? -/
def inSpace (pid k0 : Nat) (n : FName) : Bool := decide (n.part = some pid) && decide (k0 ≤ n.k)

def staleFromL (keys : List FName) (pid k0 : Nat) : Nat := (keys.filter (inSpace pid k0)).length

/-- number of initial paths in the name space of `pid` with counter `≥ k0` -/
def staleFrom (init : FS) (pid k0 : Nat) : Nat := staleFromL (FS.keys init) pid k0

theorem inSpace_succ {pid k0 : Nat} {n : FName} (h : inSpace pid (k0 + 1) n = true) :
    inSpace pid k0 n = true := by
  simp only [inSpace, Bool.and_eq_true, decide_eq_true_eq] at h ⊢
  exact ⟨h.1, by omega⟩

theorem staleFromL_mono (keys : List FName) (pid k0 : Nat) :
    staleFromL keys pid (k0 + 1) ≤ staleFromL keys pid k0 := by
  unfold staleFromL
  induction keys with
  | nil => simp
  | cons a tl ih =>
    simp only [List.filter_cons]
    cases h1 : inSpace pid (k0 + 1) a with
    | true => simp only [inSpace_succ h1, if_true, List.length_cons]; omega
    | false =>
      cases h2 : inSpace pid k0 a with
      | true => simp only [if_true, Bool.false_eq_true, if_false, List.length_cons]; omega
      | false => simpa using ih

theorem staleFromL_lt (l : List (FName × File)) (pid k0 : Nat) (e : Ext) (f : File)
    (h : FS.get l ⟨some pid, k0, e⟩ = some f) :
    staleFromL (l.map (fun x => x.1)) pid (k0 + 1) + 1 ≤ staleFromL (l.map (fun x => x.1)) pid k0 := by
  induction l with
  | nil => simp [FS.get] at h
  | cons a tl ih =>
    obtain ⟨n, g⟩ := a
    simp only [FS.get] at h
    have mono := staleFromL_mono (tl.map (fun x => x.1)) pid k0
    unfold staleFromL at *
    simp only [List.map_cons, List.filter_cons]
    by_cases hn : n = ⟨some pid, k0, e⟩
    · subst hn
      have e1 : inSpace pid k0 ⟨some pid, k0, e⟩ = true := by simp [inSpace]
      have e2 : inSpace pid (k0 + 1) ⟨some pid, k0, e⟩ = false := by simp [inSpace]
      simp only [e1, e2, if_true, Bool.false_eq_true, if_false, List.length_cons]
      omega
    · simp only [hn, if_false] at h
      have ih' := ih h
      cases h1 : inSpace pid (k0 + 1) n with
      | true => simp only [inSpace_succ h1, if_true, List.length_cons]; omega
      | false =>
        cases h2 : inSpace pid k0 n with
        | true => simp only [if_true, Bool.false_eq_true, if_false, List.length_cons]; omega
        | false => simpa using ih'

theorem staleFrom_mono (init : FS) (pid k0 : Nat) :
    staleFrom init pid (k0 + 1) ≤ staleFrom init pid k0 := staleFromL_mono _ _ _

theorem staleFrom_lt (init : FS) (pid k0 : Nat) (e : Ext) (f : File)
    (h : FS.get init ⟨some pid, k0, e⟩ = some f) :
    staleFrom init pid (k0 + 1) + 1 ≤ staleFrom init pid k0 := staleFromL_lt init pid k0 e f h

theorem staleFrom_le_length (init : FS) (pid k0 : Nat) :
    staleFrom init pid k0 ≤ FS.size init := by
  show ((List.map (fun e => e.1) (show List (FName × File) from init)).filter _).length ≤ _
  exact Nat.le_trans (List.length_filter_le _ _) (Nat.le_of_eq (List.length_map _))

/-- upper bound for the number of system calls `p` still performs -/
def measure (init : FS) (p : Proc) : Nat :=
  match p.status with
  | .running => 2 * staleFrom init p.pid p.cur + 8 * (p.nfun - p.fn) - p.pc.idx
  | _ => 0

theorem measure_pos {init fs : FS} {p : Proc} (h : LInv init fs p) (hr : p.status = .running) :
    1 ≤ measure init p := by
  obtain ⟨-, -, -, -, -, hrun⟩ := h
  have hlt := (hrun hr).1
  unfold measure
  rw [hr]
  have : p.pc.idx ≤ 7 := by cases p.pc <;> simp [Pc.idx]
  simp only; omega

/-- every system call of a running process decreases its measure -/
theorem stepProc_measure {init fs : FS} {p : Proc} (h : LInv init fs p) (hr : p.status = .running) :
    measure init (stepProc true fs p).2 + 1 ≤ measure init p := by
  obtain ⟨pid, nfun, pc, counter, fn, cur, fd, gccOk, binds, status⟩ := p
  simp only at hr
  subst hr
  obtain ⟨hc, -, -, -, -, hrun⟩ := h
  obtain ⟨hlt, hother, hpc⟩ := hrun rfl
  clear hrun
  simp only at hc hlt hother
  subst hc
  have m1 := staleFrom_mono init pid cur
  cases pc
  all_goals simp only [PcInv, own] at hpc
  all_goals simp only [stepProc, fname_true, own]
  · cases hso : fs.get ⟨some pid, cur, .so⟩ with
    | none => simp only [measure, Pc.idx]; omega
    | some f =>
      have := staleFrom_lt init pid cur .so f (by rw [← hpc.2]; exact hso)
      simp only [measure, Pc.idx, bump]; omega
  · cases hso : fs.get ⟨some pid, cur, .c⟩ with
    | none => simp only [measure, Pc.idx]; omega
    | some f =>
      have := staleFrom_lt init pid cur .c f (by rw [← hpc.2.2]; exact hso)
      simp only [measure, Pc.idx, bump]; omega
  · simp only [hpc.2.2.2, measure, Pc.idx]; omega
  · simp only [hpc.2.2.2.1, hpc.2.2.2.2, if_true, measure, Pc.idx]; omega
  · simp only [hpc.2.2.2, measure, Pc.idx]; omega
  · simp only [hpc.2.2.1, if_true, measure, Pc.idx]; omega
  · simp only [hpc.2.2.1, measure, Pc.idx]; omega
  · simp only [nextFn]
    split
    · simp only [measure, Pc.idx]; omega
    · simp only [measure, Pc.idx]; omega

/-! ### scheduling lemmas -/

theorem step_other (u : Bool) (w : World) {i j : Nat} (h : i ≠ j) :
    (step u w j).procs[i]? = w.procs[i]? := by
  unfold step
  cases hq : w.procs[j]? with
  | none => rfl
  | some q =>
    simp only
    cases q.status <;> simp only [List.getElem?_set]
    have : ¬ j = i := fun e => h e.symm
    simp [this]

theorem step_stopped (u : Bool) (w : World) {i : Nat} {p : Proc} (hp : w.procs[i]? = some p)
    (hr : p.status ≠ .running) : step u w i = w := by
  unfold step
  rw [hp]
  cases hs : p.status <;> simp_all

theorem step_running (u : Bool) (w : World) {i : Nat} {p : Proc} (hp : w.procs[i]? = some p)
    (hr : p.status = .running) : (step u w i).procs[i]? = some (stepProc u w.fs p).2 := by
  have hlt : i < w.procs.length := by
    rcases Nat.lt_or_ge i w.procs.length with h1 | h1
    · exact h1
    · rw [List.getElem?_eq_none h1] at hp; cases hp
  unfold step
  rw [hp]
  simp only [hr, List.getElem?_set, if_true, hlt]

/-- Along every schedule the measure of process `i` pays for each time `i` is scheduled. -/
theorem runFrom_measure {init : FS} (sched : List Nat) {w : World} (h : Inv init w) (i : Nat)
    (p : Proc) (hp : w.procs[i]? = some p) :
    ∃ p', (runFrom true w sched).procs[i]? = some p' ∧ p'.pid = p.pid ∧ p'.nfun = p.nfun ∧
      (p'.status = .running → measure init p' + sched.count i ≤ measure init p) := by
  induction sched generalizing w p with
  | nil => exact ⟨p, hp, rfl, rfl, fun _ => by simp⟩
  | cons j rest ih =>
    have h1 : Inv init (step true w j) := step_Inv h j
    show ∃ p', (runFrom true (step true w j) rest).procs[i]? = some p' ∧ _
    by_cases hji : j = i
    · subst hji
      by_cases hr : p.status = .running
      · obtain ⟨p', hp', e1, e2, hm⟩ := ih h1 _ (step_running true w hp hr)
        have hc := stepProc_const true w.fs p
        refine ⟨p', hp', by rw [e1, hc.1], by rw [e2, hc.2], ?_⟩
        intro hr'
        have := hm hr'
        have := stepProc_measure (h.loc j p hp) hr
        simp only [List.count_cons, beq_self_eq_true, if_true]
        omega
      · rw [step_stopped true w hp hr] at h1 ⊢
        obtain ⟨p', hp', e1, e2, hm⟩ := ih h1 p hp
        refine ⟨p', hp', e1, e2, ?_⟩
        intro hr'
        have h2 := hm hr'
        have h3 := measure_pos ((runFrom_Inv rest h1).loc j p' hp') hr'
        have h4 : measure init p = 0 := by
          unfold measure
          cases hs : p.status <;> simp_all
        omega
    · have hne : i ≠ j := fun e => hji e.symm
      obtain ⟨p', hp', e1, e2, hm⟩ := ih h1 p (by rw [step_other true w hne]; exact hp)
      refine ⟨p', hp', e1, e2, ?_⟩
      intro hr'
      have := hm hr'
      have hb : (j == i) = false := by simp [hji]
      simp only [List.count_cons, hb, Bool.false_eq_true, if_false]
      omega

/-! ### the coarse scheduling unit is a special case of the fine one -/

theorem stepCoarse_cases (u : Bool) (w : World) (i : Nat) :
    stepCoarse u w i = step u w i ∨ stepCoarse u w i = step u (step u w i) i := by
  unfold stepCoarse
  simp only
  split
  · split
    · exact Or.inr rfl
    · exact Or.inl rfl
  · exact Or.inl rfl

theorem foldl_stepCoarse_fine (u : Bool) (sched : List Nat) (w : World) :
    ∃ sched', sched.foldl (stepCoarse u) w = runFrom u w sched' := by
  induction sched generalizing w with
  | nil => exact ⟨[], rfl⟩
  | cons i rest ih =>
    rcases stepCoarse_cases u w i with h | h
    · obtain ⟨s', hs'⟩ := ih (step u w i)
      exact ⟨i :: s', by simp only [List.foldl_cons, h, hs', runFrom]⟩
    · obtain ⟨s', hs'⟩ := ih (step u (step u w i) i)
      exact ⟨i :: i :: s', by simp only [List.foldl_cons, h, hs', runFrom]⟩

/-! ### consequences of the invariant -/

theorem step_consts (u : Bool) (w : World) (i : Nat) :
    (step u w i).procs.map (fun p => (p.pid, p.nfun)) = w.procs.map (fun p => (p.pid, p.nfun)) := by
  unfold step
  cases hp : w.procs[i]? with
  | none => rfl
  | some p =>
    simp only
    cases p.status <;> try rfl
    simp only
    apply List.ext_getElem?
    intro j
    simp only [List.getElem?_map, List.getElem?_set]
    by_cases hij : i = j
    · subst hij
      have hc := stepProc_const u w.fs p
      by_cases hlt : i < w.procs.length
      · simp only [hlt, if_true, hp, Option.map_some, hc.1, hc.2]
      · rw [List.getElem?_eq_none (by omega)] at hp; cases hp
    · simp [hij]

theorem runFrom_consts (u : Bool) (sched : List Nat) (w : World) :
    (runFrom u w sched).procs.map (fun p => (p.pid, p.nfun)) =
      w.procs.map (fun p => (p.pid, p.nfun)) := by
  induction sched generalizing w with
  | nil => rfl
  | cons i rest ih =>
    show (runFrom u (step u w i) rest).procs.map _ = _
    rw [ih, step_consts]

theorem mkProcs_consts (cfg : List (Nat × Nat)) :
    (mkProcs cfg).map (fun p => (p.pid, p.nfun)) = cfg := by
  unfold mkProcs
  induction cfg with
  | nil => rfl
  | cons a tl ih => simp only [List.map_cons, ih]; rfl

/-- when every process has finished, the directory is the initial one -/
theorem Inv_done_clean {init : FS} {w : World} (h : Inv init w)
    (hd : ∀ p ∈ w.procs, p.status = .done) (n : FName) : w.fs.get n = init.get n := by
  by_cases hex : ∃ (i : Nat) (p : Proc), w.procs[i]? = some p ∧ n.part = some p.pid
  · obtain ⟨i, p, hp, hn⟩ := hex
    obtain ⟨-, -, -, -, hdone, -⟩ := h.loc i p hp
    have := (hdone (hd p (List.mem_iff_getElem?.mpr ⟨i, hp⟩))).2 n.k n.ext
    have e : own p n.k n.ext = n := by
      obtain ⟨a, b, x⟩ := n
      simp only [own] at hn ⊢
      rw [hn]
    rwa [e] at this
  · apply h.frame
    intro i p hp hn
    exact hex ⟨i, p, hp, hn⟩

/-! ### a schedule that finishes everything: the processes one after the other -/

def seqSched : List (Nat × Nat) → Nat → Nat → List Nat
  | [], _, _ => []
  | a :: rest, i, sz => List.replicate (8 * a.2 + 2 * sz) i ++ seqSched rest (i + 1) sz

theorem seqSched_count (cfg : List (Nat × Nat)) (i sz j : Nat) (b : Nat × Nat)
    (hj : cfg[j]? = some b) : 8 * b.2 + 2 * sz ≤ (seqSched cfg i sz).count (i + j) := by
  induction cfg generalizing i j with
  | nil => simp at hj
  | cons a tl ih =>
    simp only [seqSched, List.count_append]
    cases j with
    | zero =>
      simp only [List.getElem?_cons_zero, Option.some.injEq] at hj
      subst hj
      simp only [Nat.add_zero, List.count_replicate_self]
      omega
    | succ j =>
      simp only [List.getElem?_cons_succ] at hj
      have := ih (i + 1) j hj
      have e : i + 1 + j = i + (j + 1) := by omega
      rw [e] at this
      omega

end Sympler.FuncCompile
