import Sympler.SmartList
/-!
# Helper lemmas for the `SmartList` model (C15)

Core Lean only.  Sections: address macros, free-list queue, memory, successor/predecessor in a
duplicate-free list, the invariant `Inv` and its preservation by every operation, iteration.
-/
namespace Sympler.SmartList

/-! ## Address macros -/

theorem slot2chunk_eq {p : Params} (h : p.chunkLen = 2 ^ p.chunkSh) (x : Nat) :
    slot2chunk p x = x / p.chunkLen := by
  simp [slot2chunk, Gen.SmartList.slot2chunk, Nat.shiftRight_eq_div_pow, h]

theorem slot2index_eq {p : Params} (h : p.chunkLen = 2 ^ p.chunkSh) (x : Nat) :
    slot2index p x = x % p.chunkLen := by
  simp [slot2index, Gen.SmartList.slot2index, h]

theorem chunkLen_pos {p : Params} (h : p.chunkLen = 2 ^ p.chunkSh) : 0 < p.chunkLen := by
  rw [h]; exact Nat.two_pow_pos _

theorem addr_inj {p : Params} (h : p.chunkLen = 2 ^ p.chunkSh) {x y : Nat} :
    addr p x = addr p y ↔ x = y := by
  constructor
  · intro e
    simp only [addr, Prod.mk.injEq, slot2chunk_eq h, slot2index_eq h] at e
    rw [← Nat.div_add_mod x p.chunkLen, ← Nat.div_add_mod y p.chunkLen, e.1, e.2]
  · intro e; rw [e]

theorem addr_snd_lt {p : Params} (h : p.chunkLen = 2 ^ p.chunkSh) (x : Nat) :
    (addr p x).2 < p.chunkLen := by
  simp only [addr, slot2index_eq h]
  exact Nat.mod_lt _ (chunkLen_pos h)

theorem addr_fst_lt {p : Params} (h : p.chunkLen = 2 ^ p.chunkSh) {x n : Nat}
    (hx : x < n * p.chunkLen) : (addr p x).1 < n := by
  simp only [addr, slot2chunk_eq h]
  exact (Nat.div_lt_iff_lt_mul (chunkLen_pos h)).2 hx

/-! ## Free-list queue -/

@[simp] theorem FreeList.toList_empty : FreeList.empty.toList = [] := rfl

@[simp] theorem FreeList.toList_pushBack (q : FreeList) (x : Nat) :
    (q.pushBack x).toList = q.toList ++ [x] := by
  simp [FreeList.pushBack, FreeList.toList]

theorem FreeList.isEmpty_iff (q : FreeList) : q.isEmpty = true ↔ q.toList = [] := by
  simp [FreeList.isEmpty, FreeList.toList]

/-- `popFront?` is `front(); pop_front()` on the content. -/
theorem FreeList.popFront?_eq (q : FreeList) :
    match q.popFront? with
    | none => q.toList = []
    | some (f, r) => q.toList = f :: r.toList := by
  unfold FreeList.popFront? FreeList.toList
  cases hf : q.front with
  | cons f r => simp
  | nil =>
    cases hb : q.back.reverse with
    | nil => simp
    | cons f r => simp

/-! ## Memory -/

theorem Mem.read_write (m : Mem) (a b : Addr) (f : Entry → Entry) :
    (m.write a f).read b = if a = b ∧ m.inBounds a = true then f (m.read a) else m.read b := by
  obtain ⟨a1, a2⟩ := a
  obtain ⟨b1, b2⟩ := b
  simp only [Mem.read, Mem.write, Mem.inBounds, Array.getElem?_modify, Prod.mk.injEq]
  by_cases h1 : a1 = b1
  · subst h1
    cases hm : m[a1]? with
    | none => simp
    | some ch =>
      simp only [if_true, Option.map_some, Array.getElem?_modify, true_and, decide_eq_true_eq]
      by_cases h2 : a2 = b2
      · subst h2
        by_cases hb : a2 < ch.size
        · simp [hb]
        · simp [hb]
      · simp [h2]
  · simp [h1]

theorem Mem.size_write (m : Mem) (a : Addr) (f : Entry → Entry) : (m.write a f).size = m.size := by
  simp [Mem.write]

theorem Mem.getElem_write_size (m : Mem) (a : Addr) (f : Entry → Entry) (c : Nat)
    (h : c < (m.write a f).size) :
    ((m.write a f)[c]).size = (m[c]'(by simpa [Mem.write] using h)).size := by
  simp only [Mem.write, Array.getElem_modify]
  split <;> simp

theorem Mem.inBounds_write (m : Mem) (a b : Addr) (f : Entry → Entry) :
    (m.write a f).inBounds b = m.inBounds b := by
  simp only [Mem.inBounds, Mem.write, Array.getElem?_modify]
  by_cases h : a.1 = b.1
  · rw [if_pos h]
    cases m[b.1]? <;> simp
  · rw [if_neg h]

theorem Mem.inBounds_iff (m : Mem) (a : Addr) :
    m.inBounds a = true ↔ ∃ h : a.1 < m.size, a.2 < m[a.1].size := by
  simp only [Mem.inBounds]
  by_cases h : a.1 < m.size
  · simp [h]
  · simp [h]

theorem Mem.read_push (m : Mem) (ch : Array Entry) (a : Addr) (h : a.1 < m.size) :
    Mem.read (m.push ch) a = m.read a := by
  simp only [Mem.read, Array.getElem?_push]
  rw [if_neg (Nat.ne_of_lt h)]

/-! ## Successor and predecessor in a list -/

theorem nodup_reverse {l : List Nat} : l.reverse.Nodup ↔ l.Nodup :=
  (List.reverse_perm l).nodup_iff

/-- The element following the first occurrence of `x`. -/
def nextOf : List Nat → Nat → Option Nat
  | [], _ => none
  | a :: t, x => if a = x then t.head? else nextOf t x

theorem nextOf_cons (a : Nat) (t : List Nat) (x : Nat) :
    nextOf (a :: t) x = if a = x then t.head? else nextOf t x := rfl

/-- The element preceding `x` (defined by symmetry). -/
def prevOf (l : List Nat) (x : Nat) : Option Nat := nextOf l.reverse x

theorem nextOf_append_cons {l1 : List Nat} {a : Nat} (t : List Nat) (h : a ∉ l1) :
    nextOf (l1 ++ a :: t) a = t.head? := by
  induction l1 with
  | nil => simp [nextOf]
  | cons b l1 ih =>
    simp only [List.mem_cons, not_or] at h
    simp only [List.cons_append, nextOf]
    rw [if_neg (fun e => h.1 e.symm)]
    exact ih h.2

theorem nextOf_eq_some {l : List Nat} {a d : Nat} (h : nextOf l a = some d) :
    ∃ l1 l2, l = l1 ++ a :: d :: l2 := by
  induction l with
  | nil => simp [nextOf] at h
  | cons b t ih =>
    simp only [nextOf] at h
    split at h
    · subst b
      cases t with
      | nil => simp at h
      | cons c t' =>
        simp only [List.head?_cons, Option.some.injEq] at h
        subst h
        exact ⟨[], t', rfl⟩
    · obtain ⟨l1, l2, e⟩ := ih h
      exact ⟨b :: l1, l2, by simp [e]⟩

theorem nextOf_mem {l : List Nat} {a d : Nat} (h : nextOf l a = some d) : a ∈ l ∧ d ∈ l := by
  obtain ⟨l1, l2, e⟩ := nextOf_eq_some h
  subst e; simp

theorem nextOf_ne_self {l : List Nat} (hn : l.Nodup) {a d : Nat} (h : nextOf l a = some d) :
    d ≠ a := by
  obtain ⟨l1, l2, e⟩ := nextOf_eq_some h
  subst e
  intro e; subst e
  simp [List.nodup_append, List.nodup_cons] at hn

/-- The link lemma: `d` follows `a` iff `a` precedes `d`. -/
theorem prevOf_eq_some_iff {l : List Nat} (hn : l.Nodup) {a d : Nat} :
    prevOf l d = some a ↔ nextOf l a = some d := by
  have key : ∀ (l : List Nat), l.Nodup → ∀ a d, nextOf l a = some d → nextOf l.reverse d = some a := by
    intro l hn a d h
    obtain ⟨l1, l2, e⟩ := nextOf_eq_some h
    subst e
    have hd : d ∉ l2.reverse := by
      simp only [List.nodup_append, List.nodup_cons, List.mem_cons] at hn
      simp only [List.mem_reverse]
      exact hn.2.1.2.1
    have : (l1 ++ a :: d :: l2).reverse = l2.reverse ++ d :: (a :: l1.reverse) := by simp
    rw [this, nextOf_append_cons _ hd]; rfl
  constructor
  · intro h
    have := key l.reverse (nodup_reverse.2 hn) d a h
    simpa using this
  · exact key l hn a d

theorem prevOf_mem {l : List Nat} {a d : Nat} (h : prevOf l d = some a) : a ∈ l ∧ d ∈ l := by
  have := nextOf_mem h
  simpa [and_comm] using this

theorem prevOf_ne_self {l : List Nat} (hn : l.Nodup) {a d : Nat} (h : prevOf l d = some a) :
    a ≠ d :=
  nextOf_ne_self (nodup_reverse.2 hn) h

theorem nextOf_not_mem {l : List Nat} {x : Nat} (h : x ∉ l) : nextOf l x = none := by
  cases e : nextOf l x with
  | none => rfl
  | some d => exact absurd (nextOf_mem e).1 h

theorem prevOf_not_mem {l : List Nat} {x : Nat} (h : x ∉ l) : prevOf l x = none :=
  nextOf_not_mem (by simpa using h)

theorem nextOf_getLast? {l : List Nat} (hn : l.Nodup) {x : Nat} (h : l.getLast? = some x) :
    nextOf l x = none := by
  induction l with
  | nil => rfl
  | cons a t ih =>
    have hat : a ∉ t := (List.nodup_cons.1 hn).1
    have hnt : t.Nodup := (List.nodup_cons.1 hn).2
    cases t with
    | nil => simp [nextOf]
    | cons b t' =>
      rw [List.getLast?_cons_cons] at h
      have hxa : ¬ a = x := fun e => hat (e ▸ List.mem_of_getLast? h)
      rw [nextOf_cons, if_neg hxa]
      exact ih hnt h

theorem prevOf_head? {l : List Nat} (hn : l.Nodup) {x : Nat} (h : l.head? = some x) :
    prevOf l x = none :=
  nextOf_getLast? (nodup_reverse.2 hn) (by simpa using h)

/-! ### append at the end -/

theorem nextOf_append_singleton {l : List Nat} {y x : Nat} (hn : (l ++ [y]).Nodup) (hx : x ∈ l) :
    nextOf (l ++ [y]) x = if l.getLast? = some x then some y else nextOf l x := by
  induction l with
  | nil => simp at hx
  | cons a t ih =>
    have hn' : (t ++ [y]).Nodup := by
      simp only [List.cons_append, List.nodup_cons] at hn; exact hn.2
    have hat : a ∉ t := by
      simp only [List.cons_append, List.nodup_cons, List.mem_append, not_or] at hn; exact hn.1.1
    simp only [List.cons_append, nextOf]
    by_cases hax : a = x
    · subst hax
      simp only [if_true]
      cases t with
      | nil => simp
      | cons b t' =>
        have : (a :: b :: t').getLast? ≠ some a := by
          intro e
          rw [List.getLast?_cons_cons] at e
          exact hat (List.mem_of_getLast? e)
        rw [if_neg this]; rfl
    · simp only [if_neg hax]
      have hxt : x ∈ t := by
        simp only [List.mem_cons] at hx
        rcases hx with e | e
        · exact absurd e.symm hax
        · exact e
      rw [ih hn' hxt]
      cases t with
      | nil => simp at hxt
      | cons b t' => rw [List.getLast?_cons_cons]

theorem nextOf_append_singleton_self {l : List Nat} {y : Nat} (hy : y ∉ l) :
    nextOf (l ++ [y]) y = none := by
  rw [nextOf_append_cons [] hy]; rfl

theorem prevOf_append_singleton {l : List Nat} {y x : Nat} (hxy : x ≠ y) :
    prevOf (l ++ [y]) x = prevOf l x := by
  simp only [prevOf, List.reverse_append, List.reverse_cons, List.reverse_nil, List.nil_append,
    List.cons_append, nextOf]
  rw [if_neg (fun e => hxy e.symm)]

theorem prevOf_append_singleton_self (l : List Nat) (y : Nat) :
    prevOf (l ++ [y]) y = l.getLast? := by
  simp [prevOf, nextOf]

/-! ### erase -/

theorem nextOf_erase {l : List Nat} (hn : l.Nodup) {d x : Nat} (hxd : x ≠ d) :
    nextOf (l.erase d) x = if nextOf l x = some d then nextOf l d else nextOf l x := by
  induction l with
  | nil => simp [nextOf]
  | cons a t ih =>
    have hat : a ∉ t := (List.nodup_cons.1 hn).1
    have hnt : t.Nodup := (List.nodup_cons.1 hn).2
    by_cases had : a = d
    · subst had
      have e1 : (a :: t).erase a = t := by simp
      have hxa : ¬ a = x := fun e => hxd e.symm
      have : nextOf t x ≠ some a := fun e => hat (nextOf_mem e).2
      simp only [e1, nextOf_cons, if_neg hxa, if_neg this]
    · have e1 : (a :: t).erase d = a :: t.erase d := by
        rw [List.erase_cons_tail]; simpa using had
      rw [e1]
      by_cases hax : a = x
      · subst hax
        simp only [nextOf_cons, if_true, if_neg had]
        cases t with
        | nil => simp
        | cons b t' =>
          by_cases hbd : b = d
          · subst hbd
            simp [nextOf]
          · have : (b :: t').erase d = b :: t'.erase d := by
              rw [List.erase_cons_tail]; simpa using hbd
            simp [this, hbd]
      · simp only [nextOf_cons, if_neg hax, if_neg had]
        exact ih hnt

theorem reverse_erase_of_nodup {l : List Nat} (hn : l.Nodup) (d : Nat) :
    (l.erase d).reverse = l.reverse.erase d := by
  rw [hn.erase_eq_filter, (nodup_reverse.2 hn).erase_eq_filter, List.filter_reverse]

theorem prevOf_erase {l : List Nat} (hn : l.Nodup) {d x : Nat} (hxd : x ≠ d) :
    prevOf (l.erase d) x = if prevOf l x = some d then prevOf l d else prevOf l x := by
  simp only [prevOf, reverse_erase_of_nodup hn]
  exact nextOf_erase (nodup_reverse.2 hn) hxd

theorem head?_erase {l : List Nat} (hn : l.Nodup) (d : Nat) :
    (l.erase d).head? = if l.head? = some d then nextOf l d else l.head? := by
  cases l with
  | nil => simp
  | cons a t =>
    by_cases had : a = d
    · subst had; simp [nextOf]
    · have e1 : (a :: t).erase d = a :: t.erase d := by
        rw [List.erase_cons_tail]; simpa using had
      simp [e1, had]

theorem getLast?_erase {l : List Nat} (hn : l.Nodup) (d : Nat) :
    (l.erase d).getLast? = if l.getLast? = some d then prevOf l d else l.getLast? := by
  have := head?_erase (nodup_reverse.2 hn) d
  rw [← reverse_erase_of_nodup hn] at this
  simpa [prevOf] using this

/-! ## State-level access lemmas -/

theorem State.rd_wr (s : State) (a b : Addr) (f : Entry → Entry) :
    (s.wr a f).rd b = if a = b ∧ s.chunks.inBounds a = true then f (s.rd a) else s.rd b := by
  simp [State.rd, State.wr, Mem.read_write]

theorem State.chk_of_inBounds {s : State} {a : Addr} (h : s.chunks.inBounds a = true) :
    s.chk a = s := by
  simp [State.chk, h]

@[simp] theorem State.inBounds_wr (s : State) (a b : Addr) (f : Entry → Entry) :
    (s.wr a f).chunks.inBounds b = s.chunks.inBounds b := by
  simp [State.wr, Mem.inBounds_write]

@[simp] theorem State.size_chunks_wr (s : State) (a : Addr) (f : Entry → Entry) :
    (s.wr a f).chunks.size = s.chunks.size := by
  simp [State.wr, Mem.size_write]

section proj
variable (s : State) (a : Addr) (f : Entry → Entry)
@[simp] theorem State.wr_emptyIndex : (s.wr a f).emptyIndex = s.emptyIndex := rfl
@[simp] theorem State.wr_capacity : (s.wr a f).capacity = s.capacity := rfl
@[simp] theorem State.wr_size : (s.wr a f).size = s.size := rfl
@[simp] theorem State.wr_first : (s.wr a f).first = s.first := rfl
@[simp] theorem State.wr_last : (s.wr a f).last = s.last := rfl
@[simp] theorem State.wr_freeSlots : (s.wr a f).freeSlots = s.freeSlots := rfl
@[simp] theorem State.wr_assertFailed : (s.wr a f).assertFailed = s.assertFailed := rfl
@[simp] theorem State.wr_oob : (s.wr a f).oob = s.oob := rfl
end proj

/-! ## The invariant -/

/-- Counter / slot-bookkeeping part of the invariant; `spec` is the list of live slots. -/
structure InvC (p : Params) (s : State) (spec : List Nat) : Prop where
  noAssert : s.assertFailed = false
  noOob : s.oob = false
  bounds : ∀ a : Addr, s.chunks.inBounds a = true ↔ a.1 < s.chunks.size ∧ a.2 < p.chunkLen
  cap : s.capacity = s.chunks.size * p.chunkLen
  size : s.size = spec.length
  le : s.emptyIndex ≤ s.capacity
  cnt : s.size + s.freeSlots.toList.length = s.emptyIndex
  nodup : (spec ++ s.freeSlots.toList).Nodup
  lt : ∀ x, x ∈ spec ++ s.freeSlots.toList → x < s.emptyIndex

/-- Link part of the invariant: `first/last` and the `prev/next/mySlot` of every live cell. -/
structure InvL (p : Params) (s : State) (spec : List Nat) : Prop where
  first : s.first = spec.head?.map (addr p)
  last : s.last = spec.getLast?.map (addr p)
  cell : ∀ x, x ∈ spec →
    s.rd (addr p x) = ⟨x, (prevOf spec x).map (addr p), (nextOf spec x).map (addr p)⟩

/-- The full invariant. -/
structure Inv (p : Params) (s : State) (spec : List Nat) : Prop where
  c : InvC p s spec
  l : InvL p s spec

theorem InvC.inBounds_addr {p : Params} (hp : p.chunkLen = 2 ^ p.chunkSh) {s : State}
    {spec : List Nat} (h : InvC p s spec) {x : Nat} (hx : x < s.capacity) :
    s.chunks.inBounds (addr p x) = true := by
  rw [h.bounds]
  exact ⟨addr_fst_lt hp (by rw [← h.cap]; exact hx), addr_snd_lt hp x⟩

theorem InvC.spec_nodup {p : Params} {s : State} {spec : List Nat} (h : InvC p s spec) :
    spec.Nodup := (List.nodup_append.1 h.nodup).1

theorem InvC.lt_cap {p : Params} {s : State} {spec : List Nat} (h : InvC p s spec) {x : Nat}
    (hx : x ∈ spec) : x < s.capacity :=
  Nat.lt_of_lt_of_le (h.lt x (List.mem_append_left _ hx)) h.le

/-! ### Constructor and `expandCapacity` -/

theorem Mem.inBounds_push (m : Mem) (ch : Array Entry) (a : Addr) :
    Mem.inBounds (m.push ch) a = if a.1 = m.size then decide (a.2 < ch.size) else m.inBounds a := by
  simp only [Mem.inBounds, Array.getElem?_push]
  by_cases e : a.1 = m.size
  · simp only [if_pos e]
  · simp only [if_neg e]

theorem InvC.expand {p : Params} {s : State} {spec : List Nat} (h : InvC p s spec) :
    InvC p (expandCapacity p s) spec := by
  refine ⟨h.noAssert, h.noOob, ?_, ?_, h.size, ?_, h.cnt, h.nodup, h.lt⟩
  · intro a
    simp only [expandCapacity, Mem.inBounds_push, Array.size_push, Array.size_replicate]
    by_cases e : a.1 = s.chunks.size
    · simp [e]
    · rw [if_neg e, h.bounds]
      constructor
      · intro ⟨h1, h2⟩; exact ⟨by omega, h2⟩
      · intro ⟨h1, h2⟩; exact ⟨by omega, h2⟩
  · simp only [expandCapacity, Array.size_push, Nat.succ_mul, h.cap]
  · simp only [expandCapacity]; have := h.le; omega

theorem InvL.expand {p : Params} (hp : p.chunkLen = 2 ^ p.chunkSh) {s : State} {spec : List Nat}
    (hc : InvC p s spec) (h : InvL p s spec) : InvL p (expandCapacity p s) spec := by
  refine ⟨h.first, h.last, ?_⟩
  intro x hx
  rw [← h.cell x hx]
  simp only [State.rd, expandCapacity]
  apply Mem.read_push
  exact addr_fst_lt hp (by rw [← hc.cap]; exact hc.lt_cap hx)

theorem Inv.expand {p : Params} (hp : p.chunkLen = 2 ^ p.chunkSh) {s : State} {spec : List Nat}
    (h : Inv p s spec) : Inv p (expandCapacity p s) spec :=
  ⟨h.c.expand, h.l.expand hp h.c⟩

theorem Inv.init {p : Params} (hp : p.chunkLen = 2 ^ p.chunkSh) : Inv p (init p) [] := by
  apply Inv.expand hp
  refine ⟨⟨rfl, rfl, ?_, ?_, rfl, Nat.le_refl _, rfl, by simp, by simp⟩, ⟨rfl, rfl, by simp⟩⟩
  · intro a; simp [Mem.inBounds]
  · simp

/-! ### `newEntry` -/

theorem Inv.grow {p : Params} (hp : p.chunkLen = 2 ^ p.chunkSh) {s : State} {spec : List Nat}
    (h : Inv p s spec) :
    Inv p (newEntryGrow p s) spec ∧ (newEntryGrow p s).size < (newEntryGrow p s).capacity := by
  unfold newEntryGrow
  have hcnt := h.c.cnt
  have hle := h.c.le
  split
  next e =>
    have hlen : s.freeSlots.toList.length = 0 := by omega
    have hemp : s.freeSlots.isEmpty = true :=
      (FreeList.isEmpty_iff _).2 (List.eq_nil_of_length_eq_zero hlen)
    rw [hemp]
    simp only [State.assert, if_true]
    refine ⟨h.expand hp, ?_⟩
    have := chunkLen_pos hp
    simp only [expandCapacity]; omega
  next e => exact ⟨h, by omega⟩

theorem InvC.slot {p : Params} {s : State} {spec : List Nat} (h : InvC p s spec)
    (hlt : s.size < s.capacity) :
    InvC p { (newEntrySlot s).1 with size := (newEntrySlot s).1.size + 1 }
        (spec ++ [(newEntrySlot s).2]) ∧
      (newEntrySlot s).1.chunks = s.chunks ∧ (newEntrySlot s).1.first = s.first ∧
      (newEntrySlot s).1.last = s.last := by
  have hcnt := h.cnt
  have hle := h.le
  have hnd := h.nodup
  have hlt' := h.lt
  unfold newEntrySlot
  split
  next e =>
    refine ⟨⟨h.noAssert, h.noOob, h.bounds, h.cap, ?_, ?_, ?_, ?_, ?_⟩, rfl, rfl, rfl⟩
    · simp [h.size]
    · simp only; omega
    · simp only; omega
    · simp only [List.append_assoc, List.singleton_append]
      rw [List.nodup_append] at hnd ⊢
      refine ⟨hnd.1, ?_, ?_⟩
      · rw [List.nodup_cons]
        refine ⟨fun hm => ?_, hnd.2.1⟩
        have := hlt' _ (List.mem_append_right _ hm); omega
      · intro a ha b hb
        rw [List.mem_cons] at hb
        rcases hb with rfl | hb
        · have := hlt' _ (List.mem_append_left _ ha); omega
        · exact hnd.2.2 a ha b hb
    · intro x hx
      simp only [List.append_assoc, List.singleton_append, List.mem_append, List.mem_cons] at hx
      rcases hx with hx | rfl | hx
      · have := hlt' _ (List.mem_append_left _ hx); simp only; omega
      · simp only; omega
      · have := hlt' _ (List.mem_append_right _ hx); simp only; omega
  next e =>
    have hpop := FreeList.popFront?_eq s.freeSlots
    split
    next hq =>
      rw [hq] at hpop
      simp only [hpop, List.length_nil] at hcnt
      omega
    next f rest hq =>
      rw [hq] at hpop
      simp only at hpop
      rw [hpop] at hcnt hnd hlt'
      refine ⟨⟨h.noAssert, h.noOob, h.bounds, h.cap, ?_, hle, ?_, ?_, ?_⟩, rfl, rfl, rfl⟩
      · simp [h.size]
      · simp only [List.length_cons] at hcnt ⊢; omega
      · simpa using hnd
      · intro x hx; apply hlt'; simpa using hx

/-- What `newEntryLink` does when its dereferences are in bounds. -/
theorem newEntryLink_spec (p : Params) (s : State) (slot : Nat)
    (ha : s.chunks.inBounds (addr p slot) = true)
    (hl : ∀ l, s.last = some l → s.chunks.inBounds l = true) :
    let s' := newEntryLink p s slot
    s'.emptyIndex = s.emptyIndex ∧ s'.capacity = s.capacity ∧ s'.size = s.size ∧
    s'.freeSlots = s.freeSlots ∧ s'.assertFailed = s.assertFailed ∧ s'.oob = s.oob ∧
    s'.chunks.size = s.chunks.size ∧ (∀ b, s'.chunks.inBounds b = s.chunks.inBounds b) ∧
    s'.first = (if s.first.isNone then some (addr p slot) else s.first) ∧
    s'.last = some (addr p slot) ∧
    (∀ b, s'.rd b =
      if b = addr p slot then ⟨slot, s.last, none⟩
      else if s.last = some b then { s.rd b with next := some (addr p slot) }
      else s.rd b) := by
  unfold newEntryLink
  simp only [State.chk_of_inBounds ha]
  cases hlast : s.last with
  | none =>
    simp only [State.wr, State.rd, Mem.size_write, Mem.inBounds_write, true_and,
      implies_true]
    intro b
    by_cases hb : b = addr p slot
    · subst hb
      simp [Mem.read_write, Mem.inBounds_write, ha]
    · have hb' : ¬ addr p slot = b := fun e => hb e.symm
      simp [Mem.read_write, hb, hb']
  | some l =>
    have hlb := hl l hlast
    simp only [State.wr, State.rd, State.chk, hlb, Mem.size_write, Mem.inBounds_write,
      true_and, implies_true, if_true]
    intro b
    by_cases hb : b = addr p slot
    · subst hb
      by_cases hla : l = addr p slot
      · simp [Mem.read_write, Mem.inBounds_write, ha, hla]
      · have hla' : ¬ addr p slot = l := fun e => hla e.symm
        simp [Mem.read_write, Mem.inBounds_write, ha, hla]
    · have hb' : ¬ addr p slot = b := fun e => hb e.symm
      by_cases hbl : l = b
      · subst hbl
        simp [Mem.read_write, Mem.inBounds_write, hb, hb', hlb]
      · have hbl' : ¬ b = l := fun e => hbl e.symm
        simp [Mem.read_write, Mem.inBounds_write, hb, hb', hbl]

theorem Inv.link {p : Params} (hp : p.chunkLen = 2 ^ p.chunkSh) {s : State} {spec : List Nat}
    {slot : Nat} (hc : InvC p s (spec ++ [slot])) (hl : InvL p s spec) :
    Inv p (newEntryLink p s slot) (spec ++ [slot]) := by
  have hnd : (spec ++ [slot]).Nodup := hc.spec_nodup
  have hslot : slot ∉ spec := by
    intro hm
    have := (List.nodup_append.1 hnd).2.2 slot hm slot (by simp)
    exact this rfl
  have hcap : ∀ x, x ∈ spec ++ [slot] → x < s.capacity := fun x hx => hc.lt_cap hx
  have ha := hc.inBounds_addr hp (hcap slot (by simp))
  have hlb : ∀ l, s.last = some l → s.chunks.inBounds l = true := by
    intro l e
    rw [hl.last] at e
    cases hg : spec.getLast? with
    | none => simp [hg] at e
    | some y =>
      simp only [hg, Option.map_some, Option.some.injEq] at e
      subst e
      exact hc.inBounds_addr hp (hcap y (List.mem_append_left _ (List.mem_of_getLast? hg)))
  obtain ⟨h1, h2, h3, h4, h5, h6, h7, h8, h9, h10, h11⟩ := newEntryLink_spec p s slot ha hlb
  refine ⟨⟨?_, ?_, ?_, ?_, ?_, ?_, ?_, ?_, ?_⟩, ⟨?_, ?_, ?_⟩⟩
  · rw [h5]; exact hc.noAssert
  · rw [h6]; exact hc.noOob
  · intro a; rw [h8, h7]; exact hc.bounds a
  · rw [h2, h7]; exact hc.cap
  · rw [h3]; exact hc.size
  · rw [h1, h2]; exact hc.le
  · rw [h3, h4, h1]; exact hc.cnt
  · rw [h4]; exact hc.nodup
  · rw [h4, h1]; exact hc.lt
  · rw [h9, hl.first]
    cases spec with
    | nil => simp
    | cons a t => simp
  · rw [h10]; simp
  · intro x hx
    rw [h11]
    simp only [List.mem_append, List.mem_singleton] at hx
    rcases hx with hx | rfl
    · have hxs : x ≠ slot := fun e => hslot (e ▸ hx)
      have hne : ¬ addr p x = addr p slot := fun e => hxs ((addr_inj hp).1 e)
      rw [if_neg hne, hl.cell x hx, hl.last, prevOf_append_singleton hxs,
        nextOf_append_singleton hnd hx]
      by_cases hg : spec.getLast? = some x
      · simp [hg]
      · have : ¬ Option.map (addr p) spec.getLast? = some (addr p x) := by
          intro e
          cases hg' : spec.getLast? with
          | none => simp [hg'] at e
          | some y =>
            simp only [hg', Option.map_some, Option.some.injEq] at e
            exact hg (by rw [hg', (addr_inj hp).1 e])
        rw [if_neg this, if_neg hg]
    · simp [hl.last, prevOf_append_singleton_self, nextOf_append_singleton_self hslot]

theorem Inv.newEntry {p : Params} (hp : p.chunkLen = 2 ^ p.chunkSh) {s : State} {spec : List Nat}
    (h : Inv p s spec) : Inv p (newEntry p s).1 (spec ++ [(newEntry p s).2]) := by
  obtain ⟨hg, hlt⟩ := h.grow hp
  obtain ⟨hc, e1, e2, e3⟩ := hg.c.slot hlt
  unfold Sympler.SmartList.newEntry
  simp only
  apply Inv.link hp hc
  exact ⟨by simpa [e2] using hg.l.first, by simpa [e3] using hg.l.last,
    fun x hx => by simpa [State.rd, e1] using hg.l.cell x hx⟩

/-! ### `deleteEntry` -/

/-- What the first part of `deleteEntry` does when its asserts hold and its dereferences are in
bounds: four fields change, no cell is written. -/
theorem deleteEntryHead_spec (s : State) (a f l : Addr) (hsz : 0 < s.size)
    (hf : s.first = some f) (hfb : s.chunks.inBounds f = true)
    (hl : s.last = some l) (hlb : s.chunks.inBounds l = true) :
    deleteEntryHead s a =
      { s with
        first := if (s.rd f).mySlot = (s.rd a).mySlot then (s.rd f).next else some f
        last := if (s.rd l).mySlot = (s.rd a).mySlot then (s.rd l).prev else some l
        freeSlots := s.freeSlots.pushBack (s.rd a).mySlot
        size := s.size - 1 } := by
  unfold deleteEntryHead
  have hsz' : decide (s.size > 0) = true := by simpa using hsz
  simp only [State.assert, hsz', hf, hl, Option.isSome_some, if_true]
  simp only [State.chk_of_inBounds hfb]
  have h1 : ∀ t : State, t.chunks = s.chunks → t.chk l = t := by
    intro t e; apply State.chk_of_inBounds; rw [e]; exact hlb
  simp only [h1, hl, hf, State.rd]
  rfl

/-- What the second part of `deleteEntry` does when its dereferences are in bounds. -/
theorem deleteEntryUnlink_spec (s : State) (a : Addr)
    (hpb : ∀ q, (s.rd a).prev = some q → s.chunks.inBounds q = true ∧ q ≠ a)
    (hnb : ∀ q, (s.rd a).next = some q → s.chunks.inBounds q = true) :
    let s' := deleteEntryUnlink s a
    let e := s.rd a
    s'.emptyIndex = s.emptyIndex ∧ s'.capacity = s.capacity ∧ s'.size = s.size ∧
    s'.freeSlots = s.freeSlots ∧ s'.assertFailed = s.assertFailed ∧ s'.oob = s.oob ∧
    s'.first = s.first ∧ s'.last = s.last ∧
    s'.chunks.size = s.chunks.size ∧ (∀ b, s'.chunks.inBounds b = s.chunks.inBounds b) ∧
    (∀ b, s'.rd b =
      if e.next = some b then
        { (if e.prev = some b then { s.rd b with next := e.next } else s.rd b) with prev := e.prev }
      else (if e.prev = some b then { s.rd b with next := e.next } else s.rd b)) := by
  unfold deleteEntryUnlink
  cases hP : (s.rd a).prev with
  | none =>
    cases hN : (s.rd a).next with
    | none => simp [hP, hN]
    | some qn =>
      have hqn := hnb qn hN
      simp only [hP, hN, State.chk_of_inBounds hqn, State.wr_emptyIndex, State.wr_capacity,
        State.wr_size, State.wr_freeSlots, State.wr_assertFailed, State.wr_oob, State.wr_first,
        State.wr_last, State.size_chunks_wr, State.inBounds_wr, State.rd_wr, hqn, true_and,
        implies_true, and_true, Option.some.injEq, reduceCtorEq, if_false]
      intro b
      by_cases h1 : qn = b
      · subst h1; simp
      · simp [h1]
  | some qp =>
    obtain ⟨hqp, hqpa⟩ := hpb qp hP
    have hrd : ((s.chk qp).wr qp fun e => { e with next := (s.rd a).next }).rd a = s.rd a := by
      rw [State.chk_of_inBounds hqp, State.rd_wr, if_neg (fun e => hqpa e.1)]
    simp only [hrd]
    cases hN : (s.rd a).next with
    | none =>
      simp only [hP, State.chk_of_inBounds hqp, State.wr_emptyIndex, State.wr_capacity,
        State.wr_size, State.wr_freeSlots, State.wr_assertFailed, State.wr_oob, State.wr_first,
        State.wr_last, State.size_chunks_wr, State.inBounds_wr, State.rd_wr, hqp, true_and,
        implies_true, and_true, Option.some.injEq, reduceCtorEq, if_false]
      intro b
      by_cases h1 : qp = b
      · subst h1; simp
      · simp [h1]
    | some qn =>
      have hqn := hnb qn hN
      have hqn' : (s.wr qp fun e => { e with next := some qn }).chunks.inBounds qn = true := by
        simp [hqn]
      simp only [hP, State.chk_of_inBounds hqp, State.chk_of_inBounds hqn',
        State.wr_emptyIndex, State.wr_capacity,
        State.wr_size, State.wr_freeSlots, State.wr_assertFailed, State.wr_oob, State.wr_first,
        State.wr_last, State.size_chunks_wr, State.inBounds_wr, State.rd_wr, hqp, hqn, true_and,
        implies_true, and_true, Option.some.injEq]
      intro b
      by_cases h1 : qn = b
      · subst h1
        by_cases h2 : qp = qn
        · subst h2; simp
        · simp [h2]
      · simp [h1]
        by_cases h2 : qp = b
        · subst h2; simp
        · simp [h2]

theorem map_addr_eq_some {p : Params} (hp : p.chunkLen = 2 ^ p.chunkSh) (o : Option Nat) (x : Nat) :
    o.map (addr p) = some (addr p x) ↔ o = some x := by
  cases o with
  | none => simp
  | some y => simp [addr_inj hp]

theorem Inv.deleteEntry {p : Params} (hp : p.chunkLen = 2 ^ p.chunkSh) {s : State}
    {spec : List Nat} (h : Inv p s spec) {d : Nat} (hd : d ∈ spec) :
    Inv p (deleteEntry p s d) (spec.erase d) := by
  have hnd := h.c.spec_nodup
  have hib : ∀ x, x ∈ spec → s.chunks.inBounds (addr p x) = true :=
    fun x hx => h.c.inBounds_addr hp (h.c.lt_cap hx)
  have ha := hib d hd
  have hsz : 0 < s.size := by rw [h.c.size]; exact List.length_pos_of_mem hd
  have hne : spec ≠ [] := List.ne_nil_of_mem hd
  cases hH : spec.head? with
  | none => exact absurd (List.head?_eq_none_iff.1 hH) hne
  | some x0 =>
  cases hL : spec.getLast? with
  | none => exact absurd (List.getLast?_eq_none_iff.1 hL) hne
  | some xl =>
  have hx0 : x0 ∈ spec := List.mem_of_head? hH
  have hxl : xl ∈ spec := List.mem_of_getLast? hL
  have hf : s.first = some (addr p x0) := by rw [h.l.first, hH]; rfl
  have hl : s.last = some (addr p xl) := by rw [h.l.last, hL]; rfl
  have hcd := h.l.cell d hd
  unfold Sympler.SmartList.deleteEntry
  simp only [State.chk_of_inBounds ha]
  rw [deleteEntryHead_spec s (addr p d) (addr p x0) (addr p xl) hsz hf (hib x0 hx0) hl (hib xl hxl)]
  rw [h.l.cell x0 hx0, h.l.cell xl hxl, hcd]
  simp only
  -- the state after the first part
  generalize hs1 : ({ s with
      first := if x0 = d then Option.map (addr p) (nextOf spec x0) else some (addr p x0)
      last := if xl = d then Option.map (addr p) (prevOf spec xl) else some (addr p xl)
      freeSlots := s.freeSlots.pushBack d
      size := s.size - 1 } : State) = s1
  have e_chunks : s1.chunks = s.chunks := by rw [← hs1]
  have e_rd : ∀ b, s1.rd b = s.rd b := by intro b; simp only [State.rd, e_chunks]
  have hpb : ∀ q, (s1.rd (addr p d)).prev = some q →
      s1.chunks.inBounds q = true ∧ q ≠ addr p d := by
    intro q hq
    rw [e_rd, hcd] at hq
    simp only at hq
    cases hP : prevOf spec d with
    | none => simp [hP] at hq
    | some y =>
      simp only [hP, Option.map_some, Option.some.injEq] at hq
      subst hq
      rw [e_chunks]
      exact ⟨hib y (prevOf_mem hP).1, fun e => prevOf_ne_self hnd hP ((addr_inj hp).1 e)⟩
  have hnb : ∀ q, (s1.rd (addr p d)).next = some q → s1.chunks.inBounds q = true := by
    intro q hq
    rw [e_rd, hcd] at hq
    simp only at hq
    cases hN : nextOf spec d with
    | none => simp [hN] at hq
    | some y =>
      simp only [hN, Option.map_some, Option.some.injEq] at hq
      subst hq
      rw [e_chunks]
      exact hib y (nextOf_mem hN).2
  obtain ⟨h1, h2, h3, h4, h5, h6, h7, h8, h9, h10, h11⟩ :=
    deleteEntryUnlink_spec s1 (addr p d) hpb hnb
  have hlen : (spec.erase d).length = spec.length - 1 := List.length_erase_of_mem hd
  have hcnt := h.c.cnt
  have hsize := h.c.size
  refine ⟨⟨?_, ?_, ?_, ?_, ?_, ?_, ?_, ?_, ?_⟩, ⟨?_, ?_, ?_⟩⟩
  · rw [h5, ← hs1]; exact h.c.noAssert
  · rw [h6, ← hs1]; exact h.c.noOob
  · intro b; rw [h10, h9, e_chunks]; exact h.c.bounds b
  · rw [h2, h9, e_chunks, ← hs1]; exact h.c.cap
  · rw [h3, ← hs1, hlen]; simp only; omega
  · rw [h1, h2, ← hs1]; exact h.c.le
  · rw [h3, h4, h1, ← hs1]
    simp only [FreeList.toList_pushBack, List.length_append, List.length_singleton]
    omega
  · rw [h4, ← hs1]
    simp only [FreeList.toList_pushBack]
    have hperm : (spec.erase d ++ (s.freeSlots.toList ++ [d])).Perm (spec ++ s.freeSlots.toList) := by
      have h1 : (spec ++ s.freeSlots.toList).Perm (d :: (spec.erase d ++ s.freeSlots.toList)) :=
        (List.perm_cons_erase hd).append_right _
      refine List.Perm.trans ?_ h1.symm
      rw [← List.append_assoc]
      exact List.perm_append_singleton _ _
    exact hperm.nodup_iff.2 h.c.nodup
  · rw [h4, h1, ← hs1]
    simp only [FreeList.toList_pushBack]
    intro x hx
    simp only [List.mem_append, List.mem_singleton] at hx
    rcases hx with hx | hx | rfl
    · exact h.c.lt x (List.mem_append_left _ (List.mem_of_mem_erase hx))
    · exact h.c.lt x (List.mem_append_right _ hx)
    · exact h.c.lt x (List.mem_append_left _ hd)
  · rw [h7, ← hs1, head?_erase hnd, hH]
    simp only [Option.some.injEq]
    by_cases e : x0 = d
    · subst e; simp
    · simp [e]
  · rw [h8, ← hs1, getLast?_erase hnd, hL]
    simp only [Option.some.injEq]
    by_cases e : xl = d
    · subst e; simp
    · simp [e]
  · intro x hx
    obtain ⟨hxd, hxs⟩ := (hnd.mem_erase_iff).1 hx
    rw [h11]
    simp only [e_rd, hcd, h.l.cell x hxs, map_addr_eq_some hp]
    rw [prevOf_erase hnd hxd, nextOf_erase hnd hxd]
    have k1 : prevOf spec d = some x ↔ nextOf spec x = some d := prevOf_eq_some_iff hnd
    have k2 : nextOf spec d = some x ↔ prevOf spec x = some d := (prevOf_eq_some_iff hnd).symm
    by_cases c1 : nextOf spec x = some d <;> by_cases c2 : prevOf spec x = some d <;>
      simp [k1, k2, c1, c2]

/-! ### `clear` -/

theorem Inv.clear {p : Params} {s : State} {spec : List Nat} (h : Inv p s spec) :
    Inv p (clear s) [] := by
  refine ⟨⟨h.c.noAssert, h.c.noOob, h.c.bounds, h.c.cap, rfl, Nat.zero_le _, rfl, ?_, ?_⟩,
    ⟨rfl, rfl, ?_⟩⟩
  · simp [Sympler.SmartList.clear]
  · simp [Sympler.SmartList.clear]
  · simp

/-! ## Iteration -/

/-- Walking a successor field that follows `nextOf l` enumerates `l` (from any position, with any
fuel that is at least the remaining length — so the walk ends at `NULL`, not by running dry). -/
theorem walk_eq {p : Params} {s : State} {succ : Entry → Option Addr} {l : List Nat}
    (hnd : l.Nodup)
    (hcell : ∀ x, x ∈ l → (s.rd (addr p x)).mySlot = x ∧
      succ (s.rd (addr p x)) = (nextOf l x).map (addr p)) :
    ∀ (l2 l1 : List Nat), l = l1 ++ l2 → ∀ fuel, l2.length ≤ fuel →
      walk s succ fuel (l2.head?.map (addr p)) = l2 := by
  intro l2
  induction l2 with
  | nil =>
    intro l1 _ fuel _
    cases fuel <;> simp [walk]
  | cons x t ih =>
    intro l1 e fuel hf
    cases fuel with
    | zero => simp at hf
    | succ n =>
      have hx : x ∈ l := by rw [e]; simp
      have hx1 : x ∉ l1 := by
        intro hm
        rw [e] at hnd
        exact (List.nodup_append.1 hnd).2.2 x hm x (by simp) rfl
      obtain ⟨c1, c2⟩ := hcell x hx
      have hn : nextOf l x = t.head? := by rw [e]; exact nextOf_append_cons t hx1
      simp only [List.head?_cons, Option.map_some, walk, c1, c2, hn]
      rw [ih (l1 ++ [x]) (by simp [e]) n (by simpa using hf)]

theorem InvL.forwardFuel_eq {p : Params} {s : State} {spec : List Nat} (h : InvL p s spec)
    (hnd : spec.Nodup) (fuel : Nat) (hf : spec.length ≤ fuel) : forwardFuel s fuel = spec := by
  unfold forwardFuel
  rw [h.first]
  refine walk_eq hnd (fun x hx => ?_) spec [] rfl fuel hf
  rw [h.cell x hx]; exact ⟨rfl, rfl⟩

theorem InvL.backwardFuel_eq {p : Params} {s : State} {spec : List Nat} (h : InvL p s spec)
    (hnd : spec.Nodup) (fuel : Nat) (hf : spec.length ≤ fuel) :
    backwardFuel s fuel = spec.reverse := by
  unfold backwardFuel
  rw [h.last, ← List.head?_reverse]
  refine walk_eq (nodup_reverse.2 hnd) (fun x hx => ?_) spec.reverse [] rfl fuel (by simpa using hf)
  rw [h.cell x (by simpa using hx)]; exact ⟨rfl, rfl⟩

theorem Inv.size_le_capacity {p : Params} {s : State} {spec : List Nat} (h : Inv p s spec) :
    spec.length ≤ s.capacity + 1 := by
  have := h.c.size; have := h.c.cnt; have := h.c.le; omega

theorem Inv.forward_eq {p : Params} {s : State} {spec : List Nat} (h : Inv p s spec) :
    forward s = spec :=
  h.l.forwardFuel_eq h.c.spec_nodup _ h.size_le_capacity

theorem Inv.backward_eq {p : Params} {s : State} {spec : List Nat} (h : Inv p s spec) :
    backward s = spec.reverse :=
  h.l.backwardFuel_eq h.c.spec_nodup _ h.size_le_capacity

/-! ## Steps and runs -/

theorem Inv.stepCore {p : Params} (hp : p.chunkLen = 2 ^ p.chunkSh) {s : State} {spec : List Nat}
    (h : Inv p s spec) (op : Op) :
    Inv p (stepCore p s op).1 (specStep spec op (stepCore p s op).2) := by
  cases op with
  | new => exact h.newEntry hp
  | clear => exact h.clear
  | del k =>
    simp only [Sympler.SmartList.stepCore, specStep, h.forward_eq]
    cases hk : spec[k % spec.length]? with
    | none => exact h
    | some d => exact h.deleteEntry hp (List.mem_of_getElem? hk)

theorem Inv.foldl {p : Params} (hp : p.chunkLen = 2 ^ p.chunkSh) (ops : List Op) :
    ∀ st : State × List Nat, Inv p st.1 st.2 →
      Inv p (ops.foldl (runStep p) st).1 (ops.foldl (runStep p) st).2 := by
  induction ops with
  | nil => intro st h; exact h
  | cons op ops ih =>
    intro st h
    simp only [List.foldl_cons]
    apply ih
    exact h.stepCore hp op

/-- The invariant holds after every op sequence. -/
theorem Inv.run {p : Params} (hp : p.chunkLen = 2 ^ p.chunkSh) (ops : List Op) :
    Inv p (run p ops).1 (run p ops).2 :=
  Inv.foldl hp ops _ (Inv.init hp)

/-- The driver's `step` runs exactly `stepCore`. -/
theorem step_fst (p : Params) (s : State) (op : Op) : (step p s op).1 = (stepCore p s op).1 := rfl

theorem run_append_singleton (p : Params) (ops : List Op) (op : Op) :
    run p (ops ++ [op]) = runStep p (run p ops) op := by
  simp [Sympler.SmartList.run, List.foldl_append]

end Sympler.SmartList
