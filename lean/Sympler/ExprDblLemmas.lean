import Sympler.ExprEmitLemmas

/-!
# C03 — the emitter produces no integer-typed C term

Purely syntactic (the interpreter `denote` is not involved, so the statement also covers expressions
whose value is a division by zero, a random number or an oracle call):

`toCE_dbl`: for every tree whose library functions come from the generated table (`Tree.wf`), every
component `e` of `toCE env t` is a canonical primary term (`Prim e`, hence `parseCL e.render = e.abs`),
of C type `double` (`e.abs.isInt = false`), and no division in it has two `int` operands
(`e.abs.noIntDiv = true`).

`evalCX_noIntDiv`: a C expression without `int / int` division never evaluates to `intTrunc` or
`intDiv0` (unless an oracle of the environment returns such an error itself).

Before commit ad91e0f of /repo this was false: see `ExprHistory.lean`.

Core Lean only.
-/
namespace Sympler.Expr

/-- a component of the emitter's result, syntactically: a canonical primary term of C type `double`
without `int / int` division -/
structure D (e : CE) : Prop where
  prim : Prim e
  dbl : e.abs.isInt = false
  nid : e.abs.noIntDiv = true

/-- `P` holds for every component -/
def Val.All {α : Type} (P : α → Prop) : Val α → Prop
  | .s e => P e
  | .v e => P e.x ∧ P e.y ∧ P e.z
  | .t e => P e.xx ∧ P e.xy ∧ P e.xz ∧ P e.yx ∧ P e.yy ∧ P e.yz ∧ P e.zx ∧ P e.zy ∧ P e.zz

theorem Val.All.toList {α : Type} {P : α → Prop} : ∀ {c : Val α}, c.All P → ∀ e ∈ c.toList, P e
  | .s _, h, e, he => by
    simp only [Val.toList, List.mem_singleton] at he; subst he; exact h
  | .v _, h, e, he => by
    simp only [Val.toList, V3.toList, List.mem_cons, List.not_mem_nil, or_false] at he
    rcases he with rfl | rfl | rfl
    · exact h.1
    · exact h.2.1
    · exact h.2.2
  | .t _, ⟨a0, a1, a2, a3, a4, a5, a6, a7, a8⟩, e, he => by
    simp only [Val.toList, M9.toList, List.mem_cons, List.not_mem_nil, or_false] at he
    rcases he with rfl | rfl | rfl | rfl | rfl | rfl | rfl | rfl | rfl <;> assumption

theorem Val.All.map {α β : Type} {P : α → Prop} {Q : β → Prop} {f : α → β}
    (h : ∀ e, P e → Q (f e)) : ∀ {c : Val α}, c.All P → (c.map f).All Q
  | .s _, hc => h _ hc
  | .v _, hc => ⟨h _ hc.1, h _ hc.2.1, h _ hc.2.2⟩
  | .t _, ⟨a0, a1, a2, a3, a4, a5, a6, a7, a8⟩ =>
    ⟨h _ a0, h _ a1, h _ a2, h _ a3, h _ a4, h _ a5, h _ a6, h _ a7, h _ a8⟩

theorem Val.All.zipM {P Q : CE → Prop} {f : CE → CE → CE} (h : ∀ x y, P x → P y → Q (f x y))
    {a b c : Val CE} (ha : a.All P) (hb : b.All P)
    (hc : Val.zipM (fun x y => .ok (f x y)) a b = .ok c) : c.All Q := by
  cases a <;> cases b <;>
  simp [Val.zipM, V3.zip, V3.mapM, M9.zip, M9.mapM, bind, Except.bind, pure, Except.pure] at hc
  all_goals subst hc
  · exact h _ _ ha hb
  · exact ⟨h _ _ ha.1 hb.1, h _ _ ha.2.1 hb.2.1, h _ _ ha.2.2 hb.2.2⟩
  · obtain ⟨a0, a1, a2, a3, a4, a5, a6, a7, a8⟩ := ha
    obtain ⟨b0, b1, b2, b3, b4, b5, b6, b7, b8⟩ := hb
    exact ⟨h _ _ a0 b0, h _ _ a1 b1, h _ _ a2 b2, h _ _ a3 b3, h _ _ a4 b4, h _ _ a5 b5,
      h _ _ a6 b6, h _ _ a7 b7, h _ _ a8 b8⟩

/-! ## Shapes -/

theorem isInt_par (x : CE) : (CE.par x).abs.isInt = x.abs.isInt := rfl
theorem nid_par (x : CE) : (CE.par x).abs.noIntDiv = x.abs.noIntDiv := rfl
theorem nid_bin (op : COp) (a b : CX) : (CX.bin op a b).noIntDiv =
    (a.noIntDiv && b.noIntDiv && !(decide (op = .div) && a.isInt && b.isInt)) := rfl

/-- type and divisions of `a op b` when `a` is a `double` -/
theorem dbl_bin {op : Char} {sp : Bool} {a b : CE} (ha : a.abs.isInt = false) :
    (CE.bin op sp a b).abs.isInt = false := by
  rw [abs_bin, isInt_bin, ha]; rfl

theorem nid_ce_bin {op : Char} {sp : Bool} {a b : CE} (ha : a.abs.isInt = false)
    (na : a.abs.noIntDiv = true) (nb : b.abs.noIntDiv = true) :
    (CE.bin op sp a b).abs.noIntDiv = true := by
  rw [abs_bin, nid_bin, ha, na, nb]; simp

theorem copOf_add : copOf '+' = .add := by decide
theorem copOf_sub : copOf '-' = .sub := by decide
theorem copOf_mul : copOf '*' = .mul := by decide
theorem copOf_div : copOf '/' = .div := by decide

/-- structural proof of the `isInt` / `noIntDiv` goals from the facts about the components -/
macro "dbl_tac" : tactic => `(tactic| (
  simp only [abs_par, abs_bin, abs_gt0, isInt_bin, nid_bin, copOf_add, copOf_sub, copOf_mul, copOf_div,
    CX.isInt, CX.noIntDiv, Bool.false_and,
    Bool.and_false, Bool.and_true, Bool.true_and, Bool.not_false, Bool.and_self, *]))

theorem d_par {a : CE} (h : D a) : D (.par a) := ⟨can_par_can h.prim, h.dbl, h.nid⟩

theorem d_neg {a : CE} (h : D a) : D (.par (.neg a)) := ⟨prim_neg h.prim.of4, h.dbl, h.nid⟩

theorem d_add {a b : CE} (ha : D a) (hb : D b) : D (.par (.bin '+' false a b)) := by
  obtain ⟨pa, ia, na⟩ := ha; obtain ⟨pb, ib, nb⟩ := hb
  exact ⟨by can_tac, by dbl_tac, by dbl_tac⟩

theorem d_sub {a b : CE} (ha : D a) (hb : D b) : D (.par (.bin '-' false a b)) := by
  obtain ⟨pa, ia, na⟩ := ha; obtain ⟨pb, ib, nb⟩ := hb
  exact ⟨by can_tac, by dbl_tac, by dbl_tac⟩

theorem d_mul {a b : CE} (ha : D a) (hb : D b) : D (.par (mulC a b)) := by
  obtain ⟨pa, ia, na⟩ := ha; obtain ⟨pb, ib, nb⟩ := hb
  simp only [mulC]
  exact ⟨by can_tac, by dbl_tac, by dbl_tac⟩

/-- the quotient of two emitted components: a `double` division -/
theorem d_div {a b : CE} (ha : D a) (hb : D b) : D (.par (.bin '/' false a b)) := by
  obtain ⟨pa, ia, na⟩ := ha; obtain ⟨pb, ib, nb⟩ := hb
  exact ⟨by can_tac, by dbl_tac, by dbl_tac⟩

theorem lit10_isInt : (CE.lit ['1', '.', '0']).abs.isInt = false := by decide
theorem lit10_nid : (CE.lit ['1', '.', '0']).abs.noIntDiv = true := by decide

theorem d_zero : D zeroC := ⟨prim_zeroC, by decide, by decide⟩

theorem d_one : D (.par (.lit ['1', '.', '0'])) := ⟨can_par_can can_lit10, by decide, by decide⟩

theorem d_sum3 {a0 a1 a2 b0 b1 b2 : CE} (h0 : D a0) (h1 : D a1) (h2 : D a2)
    (k0 : D b0) (k1 : D b1) (k2 : D b2) :
    D (.par (chain '+' false (mulC a0 b0) [mulC a1 b1, mulC a2 b2])) := by
  obtain ⟨p0, i0, n0⟩ := h0; obtain ⟨p1, i1, n1⟩ := h1; obtain ⟨p2, i2, n2⟩ := h2
  obtain ⟨r0, j0, m0⟩ := k0; obtain ⟨r1, j1, m1⟩ := k1; obtain ⟨r2, j2, m2⟩ := k2
  simp only [chain, mulC]
  exact ⟨by can_tac, by dbl_tac, by dbl_tac⟩

theorem d_det {a : M9 CE} (h : (Val.t a).All D) : D (detC a) := by
  obtain ⟨⟨p0, i0, n0⟩, ⟨p1, i1, n1⟩, ⟨p2, i2, n2⟩, ⟨p3, i3, n3⟩, ⟨p4, i4, n4⟩, ⟨p5, i5, n5⟩,
    ⟨p6, i6, n6⟩, ⟨p7, i7, n7⟩, ⟨p8, i8, n8⟩⟩ := h
  simp only [detC, mulC]
  exact ⟨by can_tac, by dbl_tac, by dbl_tac⟩

theorem d_sum9 {a b : M9 CE} (ha : (Val.t a).All D) (hb : (Val.t b).All D) :
    D (.par (chain '+' false (mulC a.xx b.xx)
      [mulC a.xy b.xy, mulC a.xz b.xz, mulC a.yx b.yx, mulC a.yy b.yy, mulC a.yz b.yz,
       mulC a.zx b.zx, mulC a.zy b.zy, mulC a.zz b.zz])) := by
  obtain ⟨⟨p0, i0, n0⟩, ⟨p1, i1, n1⟩, ⟨p2, i2, n2⟩, ⟨p3, i3, n3⟩, ⟨p4, i4, n4⟩, ⟨p5, i5, n5⟩,
    ⟨p6, i6, n6⟩, ⟨p7, i7, n7⟩, ⟨p8, i8, n8⟩⟩ := ha
  obtain ⟨⟨r0, j0, m0⟩, ⟨r1, j1, m1⟩, ⟨r2, j2, m2⟩, ⟨r3, j3, m3⟩, ⟨r4, j4, m4⟩, ⟨r5, j5, m5⟩,
    ⟨r6, j6, m6⟩, ⟨r7, j7, m7⟩, ⟨r8, j8, m8⟩⟩ := hb
  simp only [chain, mulC]
  exact ⟨by can_tac, by dbl_tac, by dbl_tac⟩

theorem d_dotEntry {a0 a1 a2 b0 b1 b2 : CE} (h0 : D a0) (h1 : D a1) (h2 : D a2)
    (k0 : D b0) (k1 : D b1) (k2 : D b2) : D (dotEntryC a0 a1 a2 b0 b1 b2) := by
  obtain ⟨p0, i0, n0⟩ := h0; obtain ⟨p1, i1, n1⟩ := h1; obtain ⟨p2, i2, n2⟩ := h2
  obtain ⟨r0, j0, m0⟩ := k0; obtain ⟨r1, j1, m1⟩ := k1; obtain ⟨r2, j2, m2⟩ := k2
  simp only [dotEntryC, chain, mulC]
  exact ⟨by can_tac, by dbl_tac, by dbl_tac⟩

/-! ## The binary operators -/

theorem emitBin_dbl {op : BinOp} {ca cb c : Val CE} (ha : ca.All D) (hb : cb.All D)
    (hc : emitBin op ca cb = .ok c) : c.All D := by
  cases op with
  | add => exact Val.All.zipM (fun _ _ => d_add) ha hb hc
  | sub => exact Val.All.zipM (fun _ _ => d_sub) ha hb hc
  | mul =>
    cases ca <;> cases cb <;> simp only [emitBin] at hc
    case s.s => injection hc with hc; subst hc; exact Val.All.map (fun _ h => d_mul ha h) hb
    case s.v => injection hc with hc; subst hc; exact Val.All.map (fun _ h => d_mul ha h) hb
    case s.t => injection hc with hc; subst hc; exact Val.All.map (fun _ h => d_mul ha h) hb
    case v.s => injection hc with hc; subst hc; exact Val.All.map (fun _ h => d_mul hb h) ha
    case t.s => injection hc with hc; subst hc; exact Val.All.map (fun _ h => d_mul hb h) ha
    all_goals exact Val.All.zipM (fun _ _ => d_mul) ha hb hc
  | div =>
    cases cb <;> simp only [emitBin] at hc
    case s => injection hc with hc; subst hc; exact Val.All.map (fun _ h => d_div h hb) ha
    all_goals exact Val.All.zipM (fun _ _ => d_div) ha hb hc
  | contract =>
    cases ca <;> cases cb <;>
    simp only [emitBin, contractC, V3.toList, M9.toList, List.zipWith, bind, Except.bind, pure,
      Except.pure] at hc <;>
    (try cases hc)
    · exact d_sum3 ha.1 ha.2.1 ha.2.2 hb.1 hb.2.1 hb.2.2
    · exact ⟨d_sum3 ha.1 ha.2.1 ha.2.2.1 hb.1 hb.2.1 hb.2.2,
        d_sum3 ha.2.2.2.1 ha.2.2.2.2.1 ha.2.2.2.2.2.1 hb.1 hb.2.1 hb.2.2,
        d_sum3 ha.2.2.2.2.2.2.1 ha.2.2.2.2.2.2.2.1 ha.2.2.2.2.2.2.2.2 hb.1 hb.2.1 hb.2.2⟩
    · exact d_sum9 ha hb
  | dot =>
    cases ca <;> cases cb <;> simp only [emitBin] at hc <;> (try cases hc)
    obtain ⟨a0, a1, a2, a3, a4, a5, a6, a7, a8⟩ := ha
    obtain ⟨b0, b1, b2, b3, b4, b5, b6, b7, b8⟩ := hb
    exact ⟨d_dotEntry a0 a1 a2 b0 b3 b6, d_dotEntry a0 a1 a2 b1 b4 b7, d_dotEntry a0 a1 a2 b2 b5 b8,
      d_dotEntry a3 a4 a5 b0 b3 b6, d_dotEntry a3 a4 a5 b1 b4 b7, d_dotEntry a3 a4 a5 b2 b5 b8,
      d_dotEntry a6 a7 a8 b0 b3 b6, d_dotEntry a6 a7 a8 b1 b4 b7, d_dotEntry a6 a7 a8 b2 b5 b8⟩
  | outer =>
    cases ca <;> cases cb <;> simp only [emitBin] at hc <;> (try cases hc)
    exact ⟨d_mul ha.1 hb.1, d_mul ha.1 hb.2.1, d_mul ha.1 hb.2.2,
      d_mul ha.2.1 hb.1, d_mul ha.2.1 hb.2.1, d_mul ha.2.1 hb.2.2,
      d_mul ha.2.2 hb.1, d_mul ha.2.2 hb.2.1, d_mul ha.2.2 hb.2.2⟩
  | pow => simp [emitBin] at hc

/-! ## The unary functions -/

theorem d_call {f : String} {a : CE} (hf : cnameOK f = true) (ha : D a) : D (.call f a) :=
  ⟨prim_call hf ha.prim.ok, rfl, ha.nid⟩

theorem d_sq {a : CE} (ha : D a) :
    Can 4 (CE.par (mulC (.par a) (.par a))) ∧ (CE.par (mulC (.par a) (.par a))).abs.isInt = false ∧
      (CE.par (mulC (.par a) (.par a))).abs.noIntDiv = true := by
  obtain ⟨p, i, n⟩ := ha
  simp only [mulC]
  exact ⟨by can_tac, by dbl_tac, by dbl_tac⟩

theorem d_step {a : CE} (ha : D a) :
    D (.par (.gt0 (.par a) (.lit ['1', '.', '0']) (.lit ['0', '.', '0']))) := by
  refine ⟨prim_gt0 ((can_par_can ha.prim).of4) lit10_ok lit00_ok, ?_, ?_⟩
  · show ((CE.lit ['1', '.', '0']).abs.isInt && (CE.lit ['0', '.', '0']).abs.isInt) = false
    decide
  · show (a.abs.noIntDiv && true && (CE.lit ['1', '.', '0']).abs.noIntDiv &&
      (CE.lit ['0', '.', '0']).abs.noIntDiv) = true
    rw [ha.nid]; decide

theorem d_stpVal {a : CE} (ha : D a) :
    D (.par (.gt0 (.par a) (.par a) (.lit ['0', '.', '0']))) := by
  refine ⟨prim_gt0 ((can_par_can ha.prim).of4) (can_par_can ha.prim).ok lit00_ok, ?_, ?_⟩
  · show (a.abs.isInt && (CE.lit ['0', '.', '0']).abs.isInt) = false
    rw [ha.dbl]; rfl
  · show (a.abs.noIntDiv && true && a.abs.noIntDiv && (CE.lit ['0', '.', '0']).abs.noIntDiv) = true
    rw [ha.nid]; decide

theorem d_trace {a b c : CE} (ha : D a) (hb : D b) (hc : D c) :
    D (.par (chain '+' true a [b, c])) := by
  obtain ⟨p0, i0, n0⟩ := ha; obtain ⟨p1, i1, n1⟩ := hb; obtain ⟨p2, i2, n2⟩ := hc
  simp only [chain]
  exact ⟨by can_tac, by dbl_tac, by dbl_tac⟩

theorem d_q1 {a : CE} (ha : D a) :
    D (.par (chain '+' true (CE.par (mulC (.par a) (.par a))) [])) := by
  obtain ⟨p, i, n⟩ := d_sq ha
  simp only [chain]
  exact ⟨by can_tac, i, n⟩

theorem d_q3 {a b c : CE} (ha : D a) (hb : D b) (hc : D c) :
    D (.par (chain '+' true (CE.par (mulC (.par a) (.par a)))
      [CE.par (mulC (.par b) (.par b)), CE.par (mulC (.par c) (.par c))])) := by
  obtain ⟨p0, _, _⟩ := d_sq ha; obtain ⟨p1, _, _⟩ := d_sq hb; obtain ⟨p2, _, _⟩ := d_sq hc
  obtain ⟨_, i0, n0⟩ := ha; obtain ⟨_, i1, n1⟩ := hb; obtain ⟨_, i2, n2⟩ := hc
  simp only [chain]
  simp only [mulC] at *
  exact ⟨by can_tac, by dbl_tac, by dbl_tac⟩

theorem d_q9 {a : M9 CE} (h : (Val.t a).All D) :
    D (.par (chain '+' true (CE.par (mulC (.par a.xx) (.par a.xx)))
      [CE.par (mulC (.par a.xy) (.par a.xy)), CE.par (mulC (.par a.xz) (.par a.xz)),
       CE.par (mulC (.par a.yx) (.par a.yx)), CE.par (mulC (.par a.yy) (.par a.yy)),
       CE.par (mulC (.par a.yz) (.par a.yz)), CE.par (mulC (.par a.zx) (.par a.zx)),
       CE.par (mulC (.par a.zy) (.par a.zy)), CE.par (mulC (.par a.zz) (.par a.zz))])) := by
  obtain ⟨h0, h1, h2, h3, h4, h5, h6, h7, h8⟩ := h
  obtain ⟨p0, _, _⟩ := d_sq h0; obtain ⟨p1, _, _⟩ := d_sq h1; obtain ⟨p2, _, _⟩ := d_sq h2
  obtain ⟨p3, _, _⟩ := d_sq h3; obtain ⟨p4, _, _⟩ := d_sq h4; obtain ⟨p5, _, _⟩ := d_sq h5
  obtain ⟨p6, _, _⟩ := d_sq h6; obtain ⟨p7, _, _⟩ := d_sq h7; obtain ⟨p8, _, _⟩ := d_sq h8
  obtain ⟨_, i0, n0⟩ := h0; obtain ⟨_, i1, n1⟩ := h1; obtain ⟨_, i2, n2⟩ := h2
  obtain ⟨_, i3, n3⟩ := h3; obtain ⟨_, i4, n4⟩ := h4; obtain ⟨_, i5, n5⟩ := h5
  obtain ⟨_, i6, n6⟩ := h6; obtain ⟨_, i7, n7⟩ := h7; obtain ⟨_, i8, n8⟩ := h8
  simp only [chain]
  simp only [mulC] at *
  exact ⟨by can_tac, by dbl_tac, by dbl_tac⟩

/-- `((double)rand()/(double)RAND_MAX)`: the casts make it a `double` division -/
theorem d_uran :
    D (.par (.bin '/' false (.castd false .rand0) (.castd false .randMax))) :=
  ⟨⟨by decide, by decide, by decide⟩, by decide, by decide⟩

theorem emitFn_dbl {f : Fn} {ca c : Val CE} (hf : f.wf = true) (ha : ca.All D)
    (hc : emitFn f ca = .ok c) : c.All D := by
  cases f with
  | lib n cn =>
    simp only [emitFn] at hc
    injection hc with hc; subst hc
    exact Val.All.map (fun _ h => d_call hf h) ha
  | uran =>
    simp only [emitFn] at hc
    injection hc with hc; subst hc
    exact Val.All.map (fun _ _ => d_uran) ha
  | step =>
    simp only [emitFn] at hc
    injection hc with hc; subst hc
    exact Val.All.map (fun _ h => d_step h) ha
  | stpVal =>
    simp only [emitFn] at hc
    injection hc with hc; subst hc
    exact Val.All.map (fun _ h => d_stpVal h) ha
  | det =>
    cases ca <;> simp only [emitFn] at hc <;> (try cases hc)
    exact d_det ha
  | diagMat =>
    cases ca <;> simp only [emitFn] at hc <;> (try cases hc)
    exact ⟨d_par ha.1, d_zero, d_zero, d_zero, d_par ha.2.1, d_zero, d_zero, d_zero, d_par ha.2.2⟩
  | idVec =>
    cases ca <;> simp only [emitFn] at hc <;> (try cases hc)
    exact ⟨d_par ha, d_par ha, d_par ha⟩
  | idMat =>
    cases ca <;> simp only [emitFn] at hc <;> (try cases hc)
    exact ⟨d_par ha, d_zero, d_zero, d_zero, d_par ha, d_zero, d_zero, d_zero, d_par ha⟩
  | Q =>
    cases ca <;>
      simp only [emitFn, qC, Val.toList, V3.toList, M9.toList, List.map, bind, Except.bind,
        pure, Except.pure] at hc <;>
      (try cases hc)
    · exact d_q1 ha
    · exact d_q3 ha.1 ha.2.1 ha.2.2
    · exact d_q9 ha
  | T =>
    cases ca <;> simp only [emitFn] at hc <;> (try cases hc)
    obtain ⟨a0, a1, a2, a3, a4, a5, a6, a7, a8⟩ := ha
    exact ⟨d_par a0, d_par a3, d_par a6, d_par a1, d_par a4, d_par a7, d_par a2, d_par a5, d_par a8⟩
  | trace =>
    cases ca <;> simp only [emitFn] at hc <;> (try cases hc)
    exact d_trace ha.1 ha.2.2.2.2.1 ha.2.2.2.2.2.2.2.2
  | unitMat =>
    cases ca <;> simp only [emitFn] at hc <;> (try cases hc)
    exact ⟨d_par ha, d_par ha, d_par ha, d_par ha, d_par ha, d_par ha, d_par ha, d_par ha, d_par ha⟩
  | uVecX =>
    cases ca <;> simp only [emitFn] at hc <;> (try cases hc)
    exact ⟨d_par ha, d_zero, d_zero⟩
  | uVecY =>
    cases ca <;> simp only [emitFn] at hc <;> (try cases hc)
    exact ⟨d_zero, d_par ha, d_zero⟩
  | uVecZ =>
    cases ca <;> simp only [emitFn] at hc <;> (try cases hc)
    exact ⟨d_zero, d_zero, d_par ha⟩
  | xyMat =>
    cases ca <;> simp only [emitFn] at hc <;> (try cases hc)
    obtain ⟨a0, a1, a2, a3, a4, a5, a6, a7, a8⟩ := ha
    exact ⟨d_par a0, d_par a1, d_zero, d_par a3, d_par a4, d_zero, d_zero, d_zero, d_zero⟩
  | xCoord =>
    cases ca <;> simp only [emitFn] at hc <;> (try cases hc)
    exact d_par ha.1
  | yCoord =>
    cases ca <;> simp only [emitFn] at hc <;> (try cases hc)
    exact d_par ha.2.1
  | zCoord =>
    cases ca <;> simp only [emitFn] at hc <;> (try cases hc)
    exact d_par ha.2.2

/-! ## Leaves -/

/-- the value is irrelevant here: `g_const` proves the shape for whatever the literal is worth -/
theorem d_const {t : String} {r : Rat} (h : numVal t = .ok r) : D (constC t r) := by
  have g := g_const (env := oneEnv) h
  refine ⟨g.1, g.2.2, ?_⟩
  unfold constC
  split <;> rfl

theorem d_pi : D (.par (.castd true (.par .mpi))) := by
  have p1 : Prim (.par .mpi) := can_par rfl (by decide)
  have p2 : (CE.castd true (.par .mpi)).ok = true := by rw [ok_castd]; simp [p1.ok, CE.lvl]
  exact ⟨can_par p2 (by rw [render_castd]; simp), rfl, rfl⟩

theorem d_load (slot i : Nat) : D (loadC slot i) := ⟨prim_load _, rfl, rfl⟩

theorem sym_dbl {env : Env} {n : String} {c : Val CE} (hc : symC env n = .ok c) : c.All D := by
  unfold symC at hc
  cases hf : env.find n with
  | none => simp [hf] at hc
  | some d =>
    simp only [hf] at hc
    cases hty : d.ty <;> simp only [hty] at hc <;> cases hc
    · exact d_load _ _
    · exact ⟨d_load _ _, d_load _ _, d_load _ _⟩
    · exact ⟨d_load _ _, d_load _ _, d_load _ _, d_load _ _, d_load _ _, d_load _ _, d_load _ _,
        d_load _ _, d_load _ _⟩

/-! ## The power operator -/

theorem chain_pow_dbl {a : CE} (ha : D a) :
    ∀ (k : Nat) (acc : CE), Can 2 acc → acc.abs.isInt = false → acc.abs.noIntDiv = true →
      Can 2 (chain '*' false acc (List.replicate k a)) ∧
      (chain '*' false acc (List.replicate k a)).abs.isInt = false ∧
      (chain '*' false acc (List.replicate k a)).abs.noIntDiv = true
  | 0, acc, hc, hi, hn => ⟨hc, hi, hn⟩
  | k+1, acc, hc, hi, hn => by
    simp only [List.replicate, chain]
    exact chain_pow_dbl ha k (.bin '*' false acc a)
      (can_bin_mul false (Or.inl rfl) hc ha.prim.of4) (dbl_bin hi) (nid_ce_bin hi hn ha.nid)

theorem powChain_dbl {a : CE} (ha : D a) (n : Nat) :
    Can 2 (powChainC a n) ∧ (powChainC a n).abs.isInt = false ∧
      (powChainC a n).abs.noIntDiv = true :=
  chain_pow_dbl ha (n - 1) a ha.prim.of4 ha.dbl ha.nid

theorem powC_dbl {a b r : CE} {vb : Except Err (Val Rat)} (ha : D a) (hb : D b)
    (hc : powC a b vb = .ok r) : D r := by
  have hpow : D (.par (.pow a b)) := ⟨prim_pow ha.prim.ok hb.prim.ok, rfl, by
    show (a.abs.noIntDiv && b.abs.noIntDiv) = true
    rw [ha.nid, hb.nid]; rfl⟩
  unfold powC at hc
  split at hc
  · cases hc
  · injection hc with hc; subst hc; exact hpow
  next _ e =>
    split at hc
    · split at hc
      · cases hc
      · split at hc
        · injection hc with hc; subst hc
          obtain ⟨pc, pi, pn⟩ := powChain_dbl ha e.num.toNat
          exact ⟨can_par_can pc, pi, pn⟩
        · split at hc
          · injection hc with hc; subst hc; exact d_one
          · injection hc with hc; subst hc
            obtain ⟨pc, pi, pn⟩ := powChain_dbl ha (-e.num).toNat
            refine ⟨?_, ?_, ?_⟩
            · exact can_par_can (can_bin_mul_le (L := 0) (by decide) false (Or.inr rfl)
                can_lit10.of4 ((can_par_can pc).of4))
            · have l1 := lit10_isInt
              dbl_tac
            · have l1 := lit10_isInt
              have l2 := lit10_nid
              dbl_tac
    · split at hc
      · cases hc
      · injection hc with hc; subst hc; exact hpow
  · cases hc

/-! ## The whole tree -/

/-- **No integer-typed term is emitted.**  Every component of `toCE env t` is a canonical primary term
of C type `double` without `int / int` division. -/
theorem toCE_dbl (env : Env) : ∀ (t : Tree), t.wf = true → ∀ (c : Val CE),
    toCE env t = .ok c → c.All D := by
  intro t
  induction t with
  | sym n => intro _ c hc; exact sym_dbl hc
  | num s =>
    intro _ c hc
    simp only [toCE] at hc
    obtain ⟨r, hr, hc⟩ := bind_ok hc
    injection hc with hc; subst hc
    exact d_const hr
  | pi =>
    intro _ c hc
    simp only [toCE] at hc
    injection hc with hc; subst hc
    exact d_pi
  | neg a ih =>
    intro hwf c hc
    simp only [toCE] at hc
    obtain ⟨ca, hca, hc⟩ := bind_ok hc
    injection hc with hc; subst hc
    exact Val.All.map (fun _ h => d_neg h) (ih hwf ca hca)
  | bin op a b iha ihb =>
    intro hwf c hc
    simp only [Tree.wf, Bool.and_eq_true] at hwf
    by_cases hop : op = .pow
    · subst hop
      rw [toCE_bin_pow] at hc
      obtain ⟨ca, hca, hc⟩ := bind_ok hc
      obtain ⟨cb, hcb, hc⟩ := bind_ok hc
      have ga := iha hwf.1 ca hca
      have gb := ihb hwf.2 cb hcb
      cases ca <;> cases cb <;> simp only at hc <;> (try cases hc)
      obtain ⟨r, hr, hc⟩ := bind_ok hc
      injection hc with hc; subst hc
      exact powC_dbl ga gb hr
    · rw [toCE_bin_nonpow hop] at hc
      obtain ⟨ca, hca, hc⟩ := bind_ok hc
      obtain ⟨cb, hcb, hc⟩ := bind_ok hc
      exact emitBin_dbl (iha hwf.1 ca hca) (ihb hwf.2 cb hcb) hc
  | fn f a ih =>
    intro hwf c hc
    simp only [Tree.wf, Bool.and_eq_true] at hwf
    simp only [toCE] at hc
    obtain ⟨ca, hca, hc⟩ := bind_ok hc
    exact emitFn_dbl hwf.1 (ih hwf.2 ca hca) hc

/-! ## `noIntDiv` is what keeps `evalCX` away from the integer-division outcomes -/

/-- the error is one of the two outcomes of an `int / int` division -/
def Err.isIntDiv (e : Err) : Prop := e = .intTrunc ∨ e = .intDiv0

/-- the oracles of the environment do not produce integer-division errors themselves -/
structure OraclesClean (env : Env) : Prop where
  lib : ∀ f x e, env.lib f x = .error e → ¬ e.isIntDiv
  powf : ∀ x y e, env.powf x y = .error e → ¬ e.isIntDiv
  piv : ∀ e, env.piv = .error e → ¬ e.isIntDiv

theorem libFn_clean {env : Env} (h : OraclesClean env) {f x e} (he : libFn env f x = .error e) :
    ¬ e.isIntDiv := by
  unfold libFn at he
  split at he
  · cases he
  · split at he
    · cases he
    · exact h.lib _ _ _ he

theorem powRat_clean {env : Env} (h : OraclesClean env) {x y e} (he : powRat env x y = .error e) :
    ¬ e.isIntDiv := by
  unfold powRat at he
  split at he
  · split at he
    · cases he; rintro (h | h) <;> cases h
    · split at he
      · cases he
      · split at he
        · cases he; rintro (h | h) <;> cases h
        · cases he
  · exact h.powf _ _ _ he

theorem bind_error {α β ε : Type} {x : Except ε α} {f : α → Except ε β} {e : ε}
    (h : (x >>= f) = .error e) : x = .error e ∨ ∃ a, x = .ok a ∧ f a = .error e := by
  cases x with
  | error e' => left; simpa [bind, Except.bind] using h
  | ok a => right; exact ⟨a, rfl, h⟩

/-- a C expression without `int / int` division never evaluates to `intTrunc` / `intDiv0` -/
theorem evalCX_noIntDiv {env : Env} (henv : OraclesClean env) :
    ∀ (x : CX), x.noIntDiv = true → ∀ e, evalCX env x = .error e → ¬ e.isIntDiv := by
  intro x
  induction x with
  | num i r => intro _ e he; cases he
  | mpi => intro _ e he; exact henv.piv e he
  | rand0 => intro _ e he; cases he; rintro (h | h) <;> cases h
  | randMax => intro _ e he; cases he
  | load off =>
    intro _ e he
    simp only [evalCX] at he
    split at he
    · cases he
    · cases he; rintro (h | h) <;> cases h
  | neg a ih =>
    intro hn e he
    simp only [evalCX] at he
    rcases bind_error he with h | ⟨_, _, h⟩
    · exact ih hn e h
    · cases h
  | castd a ih => intro hn e he; exact ih hn e he
  | bin op a b iha ihb =>
    intro hn e he
    rw [nid_bin] at hn
    simp only [Bool.and_eq_true, Bool.not_eq_true', Bool.and_eq_false_iff] at hn
    obtain ⟨⟨na, nb⟩, hdiv⟩ := hn
    rw [evalCX_bin] at he
    rcases bind_error he with h | ⟨x, _, he⟩
    · exact iha na e h
    rcases bind_error he with h | ⟨y, _, he⟩
    · exact ihb nb e h
    cases op with
    | add => cases he
    | sub => cases he
    | mul => cases he
    | div =>
      have hii : (a.isInt && b.isInt) = false := by
        rcases hdiv with (h | h) | h
        · simp at h
        · simp [h]
        · simp [h]
      simp only [hii, Bool.false_eq_true, if_false, Bool.false_and] at he
      split at he
      · cases he; rintro (h | h) <;> cases h
      · cases he
  | ite c z a b ihc ihz iha ihb =>
    intro hn e he
    simp only [CX.noIntDiv, Bool.and_eq_true] at hn
    obtain ⟨⟨⟨nc, nz⟩, na⟩, nb⟩ := hn
    simp only [evalCX] at he
    rcases bind_error he with h | ⟨x, _, he⟩
    · exact ihc nc e h
    rcases bind_error he with h | ⟨y, _, he⟩
    · exact ihz nz e h
    split at he
    · exact iha na e he
    · exact ihb nb e he
  | call1 f a ih =>
    intro hn e he
    simp only [evalCX] at he
    rcases bind_error he with h | ⟨x, _, he⟩
    · exact ih hn e h
    · exact libFn_clean henv he
  | call2 f a b iha ihb =>
    intro hn e he
    simp only [CX.noIntDiv, Bool.and_eq_true] at hn
    simp only [evalCX] at he
    rcases bind_error he with h | ⟨x, _, he⟩
    · exact iha hn.1 e h
    rcases bind_error he with h | ⟨y, _, he⟩
    · exact ihb hn.2 e h
    split at he
    · exact powRat_clean henv he
    · cases he; rintro (h | h) <;> cases h

end Sympler.Expr
