import Sympler.DataFormatFrameStep
/-!
# Reads after `addAttribute`, copy, assignment, `clear` (C14)

Core Lean only.
-/
namespace Sympler.DataFormat

local notation "Addr" => Nat

/-- reading the all-zero pattern at type `t` (containers: after `alloc()`, the empty vector) -/
def RVal.zero : DType → RVal
  | .INT => .int 0 | .DOUBLE => .dbl 0 | .INT_POINT => .ipt 0 0 0 | .POINT => .pt P3.zero
  | .TENSOR => .tens T9.zero | .STRING => .str []
  | .VECTOR_INT | .VECTOR_DOUBLE | .VECTOR_POINT | .VECTOR_TENSOR => .vec []

/-- the raw content of slot `i` of record `d` -/
def State.slotVal (s : State) (d i : Nat) : Option Val := (valsOf s.datas d)[i]?

/-- a read in terms of its ingredients -/
theorem read_eq_of {s : State} {x i fid : Nat} {dat : Data} {f : Format} {a : Attr} {b : Block} {v : Val}
    (hd : s.datas[x]? = some (some dat)) (hfid : dat.fmt = some fid) (hf : s.fmts[fid]? = some f)
    (ha : f.byIndex[i]? = some a) (hb : dat.block = some b) (hv : b.vals[i]? = some v)
    (hm : a.misaligned = false) :
    s.read x i = match resolve s.heap v with
      | .error e => .error e
      | .ok none => .error .ubNullSp
      | .ok (some r) => .ok r := by
  unfold State.read State.attrAt
  rw [getData_ok.2 hd]
  simp only [hfid, getFmt_ok.2 hf, ha, AttrAt.slot, hb, hv, hm]
  rfl

/-- the ingredients of a successful read -/
theorem read_ok_parts {s : State} {x i : Nat} {r : RVal} (h : s.read x i = .ok r) :
    ∃ (dat : Data) (fid : Nat) (f : Format) (a : Attr) (b : Block) (v : Val),
      s.datas[x]? = some (some dat) ∧ dat.fmt = some fid ∧ s.fmts[fid]? = some f ∧
      f.byIndex[i]? = some a ∧ dat.block = some b ∧ b.vals[i]? = some v ∧ a.misaligned = false ∧
      resolve s.heap v = .ok (some r) := by
  unfold State.read at h
  split at h
  · cases h
  · rename_i l hl
    obtain ⟨hd, hfid, hf, ha⟩ := attrAt_ok hl
    split at h
    · cases h
    · rename_i b v hslot
      obtain ⟨hb, hv, hm⟩ := slot_ok hslot
      refine ⟨l.dat, l.fid, l.fmt, l.attr, b, v, hd, hfid, hf, ha, hb, hv, hm, ?_⟩
      split at h
      · cases h
      · cases h
      · rename_i r' hr
        injection h with h; subst h; exact hr

/-- a successful read is not changed when the record keeps its format, its block keeps its
    values (it may get more), formats keep their layout and live cells stay as they are -/
theorem read_mono {s s' : State} {x i : Nat} {r : RVal} {dat dat' : Data} {b b' : Block}
    (hd : s.datas[x]? = some (some dat)) (hd' : s'.datas[x]? = some (some dat'))
    (hfmt : dat'.fmt = dat.fmt) (hb : dat.block = some b) (hb' : dat'.block = some b')
    (hvals : ∀ (k : Nat) (v : Val), b.vals[k]? = some v → b'.vals[k]? = some v)
    (hfm : ∀ (fid : Nat) (f : Format), s.fmts[fid]? = some f → ∃ f' : Format, s'.fmts[fid]? = some f' ∧ f.sameLayout f')
    (hheap : ∀ (a : Addr) (c : Cell), s.heap[a]? = some (some c) → s'.heap[a]? = some (some c))
    (hr : s.read x i = .ok r) : s'.read x i = .ok r := by
  obtain ⟨dat0, fid, f, a, b0, v, h1, h2, h3, h4, h5, h6, h7, h8⟩ := read_ok_parts hr
  rw [hd] at h1; injection h1 with h1; injection h1 with h1; subst h1
  rw [hb] at h5; injection h5 with h5; subst h5
  obtain ⟨f', hf', hlay⟩ := hfm fid f h3
  obtain ⟨a', ha', hsame⟩ := hlay i a h4
  have hm : a'.misaligned = false := by
    rw [← h7]; unfold Attr.misaligned
    rw [hsame.2.2.1, hsame.2.2.2.1]
  rw [read_eq_of hd' (hfmt.trans h2) hf' ha' hb' (hvals i v h6) hm]
  rw [resolve_frame (fun adr c _ hc => hheap adr c hc) h8]

theorem Format.size_zero_byIndex {al : Option Nat} {f : Format} (hf : FormatOk al f) (h0 : f.size = 0) :
    f.byIndex = [] := by
  cases hl : f.byIndex with
  | nil => rfl
  | cons a as =>
    exfalso
    have := hf.size
    rw [h0, hl] at this
    have h1 : prefixSize al (a :: as) = csize al a.dtype + prefixSize al as := by simp [prefixSize]
    have := csize_pos al a.dtype
    omega

/-- the copy constructor: every successful read of the source gives the same result on the copy -/
theorem copy_reads {al : Option Nat} {s s' : State} {e id : Nat} (hs : Inv al s)
    (h : copyData s e = .ok (s', id)) {i : Nat} {r : RVal} (hr : s.read e i = .ok r) :
    s'.read id i = .ok r := by
  obtain ⟨src, hsrc, hid, hcases⟩ := copyData_ok_cases h
  obtain ⟨dat0, fid0, f0, a, b0, v, h1, h2, h3, h4, h5, h6, h7, h8⟩ := read_ok_parts hr
  rw [hsrc] at h1; injection h1 with h1; injection h1 with h1; subst h1
  rcases hcases with ⟨hn, _⟩ | ⟨fid, f, hfid, hf, h0, _⟩ | ⟨fid, f, b, vals, h', hfid, hf, _, hb, hfull, _, _, hdc, hs1⟩
  · rw [hn] at h2; cases h2
  · rw [hfid] at h2; injection h2 with h2; subst h2
    rw [hf] at h3; injection h3 with h3; subst h3
    rw [Format.size_zero_byIndex (hs.fmts _ _ hf) h0] at h4; simp at h4
  · rw [hfid] at h2; injection h2 with h2; subst h2
    rw [hf] at h3; injection h3 with h3; subst h3
    rw [hb] at h5; injection h5 with h5; subst h5
    obtain ⟨_, _, _, hvals⟩ := deepCopy_props hs hsrc hfid hb hf hfull hdc
    obtain ⟨v', hv', hres⟩ := hvals i v h6
    subst hs1 hid
    have hd' : (s.datas ++ [some (⟨some fid, some ⟨f.size, vals⟩⟩ : Data)])[s.datas.length]? =
        some (some ⟨some fid, some ⟨f.size, vals⟩⟩) := by simp
    refine (read_eq_of (s := { s with datas := s.datas ++ [some ⟨some fid, some ⟨f.size, vals⟩⟩], heap := h' })
      hd' rfl hf h4 rfl hv' h7).trans ?_
    show (match resolve h' v' with
      | Except.error e => Except.error e
      | Except.ok none => Except.error Err.ubNullSp
      | Except.ok (some r) => Except.ok r) = Except.ok r
    rw [hres _ h8]

/-- `operator=`: every successful read of the source gives the same result on the destination -/
theorem assign_reads {al : Option Nat} {s s' : State} {d e : Nat} (hs : Inv al s)
    (h : assignData s d e = .ok s') {i : Nat} {r : RVal} (hr : s.read e i = .ok r) :
    s'.read d i = .ok r := by
  obtain ⟨dst, src, hdst, hsrc, hcases⟩ := assignData_ok_cases h
  have hdlt : d < s.datas.length := lt_of_getElem?_some hdst
  obtain ⟨dat0, fid0, f0, a, b0, v, h1, h2, h3, h4, h5, h6, h7, h8⟩ := read_ok_parts hr
  rw [hsrc] at h1; injection h1 with h1; injection h1 with h1; subst h1
  rcases hcases with ⟨hne, h1, hrel, hsub⟩ | ⟨heq, hsub⟩
  · obtain ⟨r1, r2, r3⟩ := releaseIfFmt_spec hs hdst hrel
    rcases hsub with ⟨hn, _⟩ | ⟨fid, f, b, vals, h', hfid, hf, _, hb, hfull, _, _, hdc, hs1⟩
    · rw [hn] at h2; cases h2
    · rw [hfid] at h2; injection h2 with h2; subst h2
      rw [hf] at h3; injection h3 with h3; subst h3
      rw [hb] at h5; injection h5 with h5; subst h5
      have hs1' := hs.dropped hdst r1 r2 r3
      have hed : e ≠ d := by
        intro hed; subst hed
        rw [hdst] at hsrc; injection hsrc with hsrc; injection hsrc with hsrc
        subst hsrc; exact hne rfl
      have hsrc1 : (s.datas.set d (some ⟨none, none⟩))[e]? = some (some src) := by
        rw [List.getElem?_set_ne (Ne.symm hed)]; exact hsrc
      obtain ⟨_, _, _, hvals⟩ := deepCopy_props hs1' hsrc1 hfid hb hf hfull hdc
      obtain ⟨v', hv', hres⟩ := hvals i v h6
      -- the cell read through the source is not one of the destination's: it survives the release
      have h8' : resolve h1 v = .ok (some r) := by
        apply resolve_frame _ h8
        intro adr c hv hc
        have hown : owns (valsOf s.datas e) adr := by
          rw [valsOf_of_block hsrc hb]; exact ⟨i, by rw [h6, hv]⟩
        have hnot : ¬ owns (valsOf s.datas d) adr := fun ho => hed (hs.heap.sep e d adr hown ho)
        rw [r3 adr hnot]; exact hc
      subst hs1
      have hd' : (s.datas.set d (some (⟨some fid, some ⟨f.size, vals⟩⟩ : Data)))[d]? =
          some (some ⟨some fid, some ⟨f.size, vals⟩⟩) := List.getElem?_set_self hdlt
      refine (read_eq_of (s := { s with heap := h' }.setData d (some ⟨some fid, some ⟨f.size, vals⟩⟩))
        hd' rfl hf h4 rfl hv' h7).trans ?_
      show (match resolve h' v' with
        | Except.error e => Except.error e
        | Except.ok none => Except.error Err.ubNullSp
        | Except.ok (some r) => Except.ok r) = Except.ok r
      rw [hres _ h8']
  · rcases hsub with ⟨hn, _⟩ | ⟨fid, f, db, b, vals, h', hfid, hf, _, hb, _, hfull, _, _, hdc, hs1⟩
    · rw [hn] at h2; cases h2
    · rw [hfid] at h2; injection h2 with h2; subst h2
      rw [hf] at h3; injection h3 with h3; subst h3
      rw [hb] at h5; injection h5 with h5; subst h5
      obtain ⟨_, _, _, hvals⟩ := deepCopy_props hs hsrc hfid hb hf hfull hdc
      obtain ⟨v', hv', hres⟩ := hvals i v h6
      subst hs1
      have hd' : (s.datas.set d (some (⟨some fid, some ⟨db.size, vals⟩⟩ : Data)))[d]? =
          some (some ⟨some fid, some ⟨db.size, vals⟩⟩) := List.getElem?_set_self hdlt
      refine (read_eq_of (s := { s with heap := h', leaked := s.leaked ++ db.vals.filterMap Val.spAddr }.setData d
          (some ⟨some fid, some ⟨db.size, vals⟩⟩)) hd' rfl hf h4 rfl hv' h7).trans ?_
      show (match resolve h' v' with
        | Except.error e => Except.error e
        | Except.ok none => Except.error Err.ubNullSp
        | Except.ok (some r) => Except.ok r) = Except.ok r
      rw [hres _ h8]

/-- `Data::addAttribute` keeps every successful read of the record itself -/
theorem dadd_reads {al : Option Nat} {s s' : State} {d : Nat} {name symbol : String} {t : DType} {pers : Bool}
    {a : Attr} (h : dataAddAttribute al s d name t pers symbol = .ok (s', a)) {i : Nat} {r : RVal}
    (hr : s.read d i = .ok r) : s'.read d i = .ok r := by
  obtain ⟨dat, fid, f, f', hd, hfid, hf, hadd, hcases⟩ := dataAddAttribute_ok_cases h
  have hdlt : d < s.datas.length := lt_of_getElem?_some hd
  have hlay := Format.sameLayout_addAttribute hadd
  obtain ⟨dat0, fid0, f0, a0, b0, v, h1, h2, h3, h4, h5, h6, h7, h8⟩ := read_ok_parts hr
  rw [hd] at h1; injection h1 with h1; injection h1 with h1; subst h1
  rcases hcases with ⟨_, hs1⟩ | ⟨_, b, hb, _, ⟨_, _, hs1⟩ | ⟨_, hs1⟩⟩
  · subst hs1
    exact read_mono (s' := s.setFmt fid f') hd hd rfl h5 h5 (fun _ _ hk => hk) (fmts_set _ hf hlay)
      (fun _ _ hc => hc) hr
  · subst hs1
    rw [hb] at h5; injection h5 with h5; subst h5
    exact read_mono (s' := ⟨s.fmts.set fid f', _, _, _⟩) hd (List.getElem?_set_self hdlt) hfid.symm hb rfl
      (fun k v hk => by
        show (b.vals ++ [Val.sp (some s.heap.length)])[k]? = some v
        rw [List.getElem?_append_left (lt_of_getElem?_some hk)]; exact hk)
      (fmts_set _ hf hlay) (fun _ _ hc => heap_append_keep _ hc) hr
  · subst hs1
    rw [hb] at h5; injection h5 with h5; subst h5
    exact read_mono (s' := ⟨s.fmts.set fid f', _, _, _⟩) hd (List.getElem?_set_self hdlt) hfid.symm hb rfl
      (fun k v hk => by
        show (b.vals ++ [zeroVal t])[k]? = some v
        rw [List.getElem?_append_left (lt_of_getElem?_some hk)]; exact hk)
      (fmts_set _ hf hlay) (fun _ _ hc => hc) hr

theorem resolve_zeroVal (h : Heap) {t : DType} (ht : t.isContainer = false) :
    resolve h (zeroVal t) = .ok (some (RVal.zero t)) := by
  cases t <;> first | rfl | (exact absurd ht (by decide))

/-- the attribute added by `Data::addAttribute` reads as zero / empty -/
theorem dadd_new_reads_zero {al : Option Nat} {s s' : State} {d : Nat} {name symbol : String} {t : DType}
    {pers : Bool} {a : Attr} (hs : Inv al s)
    (h : dataAddAttribute al s d name t pers symbol = .ok (s', a))
    (hnew : ∀ (dat : Data) (fid : Nat) (f : Format), s.datas[d]? = some (some dat) → dat.fmt = some fid →
      s.fmts[fid]? = some f → f.find name = none)
    (hm : a.misaligned = false) : s'.read d a.index = .ok (RVal.zero t) := by
  obtain ⟨dat, fid, f, f', hd, hfid, hf, hadd, hcases⟩ := dataAddAttribute_ok_cases h
  have hdlt : d < s.datas.length := lt_of_getElem?_some hd
  have hfind := hnew dat fid f hd hfid hf
  have hfok := hs.fmts fid f hf
  have hnew' : a = ⟨name, f.byIndex.length, f.size, t, pers, if symbol == "" then name else symbol⟩ ∧
      f' = ⟨f.byIndex ++ [a], f.byName ++ [a], f.size + csize al t⟩ := by
    rcases Format.addAttribute_ok_cases hadd with ⟨_, h1, h2⟩ | ⟨hfind', _, _⟩
    · exact ⟨h1, h2⟩
    · rw [hfind] at hfind'; cases hfind'
  obtain ⟨hattr, hf'⟩ := hnew'
  have hidx : a.index = f.byIndex.length := by rw [hattr]
  have hty : a.dtype = t := by rw [hattr]
  have hsz : f.size ≠ f'.size := by
    rw [hf']; show f.size ≠ f.size + csize al t
    have := csize_pos al t; omega
  have hfset : (s.fmts.set fid f')[fid]? = some f' := List.getElem?_set_self (lt_of_getElem?_some hf)
  have hatt : f'.byIndex[a.index]? = some a := by rw [hf', hidx]; simp
  rcases hcases with ⟨he, _⟩ | ⟨_, b, hb, hfull, ⟨hc, _, hs1⟩ | ⟨hc, hs1⟩⟩
  · exact absurd he hsz
  · subst hs1
    have hdo := hs.datas d dat hd
    unfold DataOk at hdo
    simp only [hfid] at hdo
    obtain ⟨f0, hf0, hb0⟩ := hdo
    rw [hf] at hf0; cases hf0
    have hlen := (hb0 b hb).full_of_not_lt hfok hfull
    refine (read_eq_of (s := ⟨s.fmts.set fid f', _, _, _⟩) (List.getElem?_set_self hdlt) rfl hfset hatt rfl
      (v := Val.sp (some s.heap.length)) (by rw [hidx, ← hlen]; simp) hm).trans ?_
    have hcell : (s.heap ++ [some (⟨[], 1⟩ : Cell)])[s.heap.length]? = some (some ⟨[], 1⟩) := by simp
    show (match resolve (s.heap ++ [some (⟨[], 1⟩ : Cell)]) (Val.sp (some s.heap.length)) with
      | Except.error e => Except.error e
      | Except.ok none => Except.error Err.ubNullSp
      | Except.ok (some r) => Except.ok r) = Except.ok (RVal.zero t)
    simp only [resolve, Heap.get_eq_some.2 hcell]
    cases t <;> first | rfl | (exact absurd hc (by decide))
  · subst hs1
    have hdo := hs.datas d dat hd
    unfold DataOk at hdo
    simp only [hfid] at hdo
    obtain ⟨f0, hf0, hb0⟩ := hdo
    rw [hf] at hf0; cases hf0
    have hlen := (hb0 b hb).full_of_not_lt hfok hfull
    refine (read_eq_of (s := ⟨s.fmts.set fid f', _, _, _⟩) (List.getElem?_set_self hdlt) rfl hfset hatt rfl
      (v := zeroVal t) (by rw [hidx, ← hlen]; simp) hm).trans ?_
    rw [resolve_zeroVal _ hc]

/-- `Data::clear()` / `clearAll()`: exactly the touched slots become the zero pattern; the cells of
    the untouched smart pointers are as before -/
theorem clear_exact {al : Option Nat} {s s' : State} {all : Bool} {d : Nat} (hs : Inv al s)
    (h : clearData all s d = .ok s') :
    ∃ (dat : Data) (fid : Nat) (f : Format), s.datas[d]? = some (some dat) ∧ dat.fmt = some fid ∧
      s.fmts[fid]? = some f ∧ s'.fmts = s.fmts ∧
      (∀ (i : Nat) (v : Val) (a : Attr), s.slotVal d i = some v → f.byIndex[i]? = some a →
        s'.slotVal d i = some (if all || !a.persistent then zeroVal a.dtype else v)) ∧
      (∀ i, s.slotVal d i = none → s'.slotVal d i = none) ∧
      (∀ (i : Nat) (adr : Addr), s'.slotVal d i = some (Val.sp (some adr)) → s'.heap[adr]? = s.heap[adr]?) := by
  unfold clearData at h
  split at h
  · cases h
  · rename_i dat hdat
    have hd := getData_ok.1 hdat
    have hdlt : d < s.datas.length := lt_of_getElem?_some hd
    split at h
    · cases h
    · rename_i fid x hfo
      obtain ⟨hfid, hf⟩ := fmtOf_ok hfo
      refine ⟨dat, fid, x, hd, hfid, hf, ?_⟩
      split at h
      · rename_i hnb
        split at h
        · cases h
        · injection h with h; subst h
          have hv : valsOf s.datas d = [] := by rw [valsOf_eq hd, hnb]
          refine ⟨rfl, ?_, fun _ hi => hi, fun _ _ _ => rfl⟩
          intro i v a hi
          unfold State.slotVal at hi; rw [hv] at hi; simp at hi
      · rename_i b hb
        split at h
        · cases h
        · split at h
          · cases h
          · rename_i vs h' hc
            injection h with h; subst h
            obtain ⟨_, hlen, hchar, hkeep, _⟩ := hs.clearInto hd hfid hb hf hc
            have hv : valsOf s.datas d = b.vals := valsOf_of_block hd hb
            have hv' : valsOf (s.datas.set d (some { dat with block := some { b with vals := vs } })) d = vs :=
              (OnlyAt.set hdlt _).valsOf_self_block
            refine ⟨rfl, ?_, ?_, ?_⟩
            · intro i v a hi ha
              unfold State.slotVal at hi ⊢
              rw [hv] at hi
              show (valsOf (s.datas.set d _) d)[i]? = _
              rw [hv']; exact hchar i v a hi ha
            · intro i hi
              unfold State.slotVal at hi ⊢
              rw [hv] at hi
              show (valsOf (s.datas.set d _) d)[i]? = _
              rw [hv']
              rw [List.getElem?_eq_none_iff] at hi ⊢
              omega
            · intro i adr hi
              unfold State.slotVal at hi
              have hi' : (valsOf (s.datas.set d (some { dat with block := some { b with vals := vs } })) d)[i]? =
                  some (Val.sp (some adr)) := hi
              rw [hv'] at hi'
              exact hkeep adr ⟨i, hi'⟩

/-- `clear` / `clearAll` keep every successful read of an attribute they do not touch -/
theorem clear_reads_kept {al : Option Nat} {s s' : State} {all : Bool} {d : Nat} (hs : Inv al s)
    (h : clearData all s d = .ok s') {i : Nat} {r : RVal}
    (hkeep : ∀ (dat : Data) (fid : Nat) (f : Format) (a : Attr), s.datas[d]? = some (some dat) →
      dat.fmt = some fid → s.fmts[fid]? = some f → f.byIndex[i]? = some a → (all || !a.persistent) = false)
    (hr : s.read d i = .ok r) : s'.read d i = .ok r := by
  obtain ⟨dat0, fid0, f0, a, b0, v, h1, h2, h3, h4, h5, h6, h7, h8⟩ := read_ok_parts hr
  have hun := hkeep dat0 fid0 f0 a h1 h2 h3 h4
  unfold clearData at h
  split at h
  · cases h
  · rename_i dat hdat
    have hd := getData_ok.1 hdat
    rw [hd] at h1; injection h1 with h1; injection h1 with h1; subst h1
    have hdlt : d < s.datas.length := lt_of_getElem?_some hd
    split at h
    · cases h
    · rename_i fid x hfo
      obtain ⟨hfid, hf⟩ := fmtOf_ok hfo
      rw [hfid] at h2; injection h2 with h2; subst h2
      rw [hf] at h3; injection h3 with h3; subst h3
      split at h
      · rename_i hnb; rw [hnb] at h5; cases h5
      · rename_i b hb
        rw [hb] at h5; injection h5 with h5; subst h5
        split at h
        · cases h
        · split at h
          · cases h
          · rename_i vs h' hc
            injection h with h; subst h
            obtain ⟨_, hlen, hchar, hkept, _⟩ := hs.clearInto hd hfid hb hf hc
            have hvi : vs[i]? = some v := by
              have := hchar i v a h6 h4
              rw [hun] at this
              simpa using this
            refine (read_eq_of (s := ⟨s.fmts, s.datas.set d (some { dat with block := some { b with vals := vs } }), h', s.leaked⟩)
              (List.getElem?_set_self hdlt) hfid hf h4 rfl hvi h7).trans ?_
            have : resolve h' v = .ok (some r) := by
              apply resolve_frame _ h8
              intro adr c hv hcell
              rw [hkept adr ⟨i, by rw [hvi, hv]⟩]; exact hcell
            show (match resolve h' v with
              | Except.error e => Except.error e
              | Except.ok none => Except.error Err.ubNullSp
              | Except.ok (some r) => Except.ok r) = Except.ok r
            rw [this]

/-- what a stored value of a non-container type reads as -/
def Val.toR : Val → Option RVal
  | .int n => some (.int n) | .dbl x => some (.dbl x) | .ipt a b c => some (.ipt a b c)
  | .pt p => some (.pt p) | .tens t => some (.tens t)
  | .str none => some (.str []) | .str (some s) => some (.str s)
  | .sp _ => none

theorem resolve_of_toR (h : Heap) {v : Val} {r : RVal} (hv : v.toR = some r) : resolve h v = .ok (some r) := by
  cases v with
  | sp p => cases hv
  | str x => cases x <;> (simp [Val.toR] at hv; subst hv; rfl)
  | int n => simp [Val.toR] at hv; subst hv; rfl
  | dbl x => simp [Val.toR] at hv; subst hv; rfl
  | ipt a b c => simp [Val.toR] at hv; subst hv; rfl
  | pt p => simp [Val.toR] at hv; subst hv; rfl
  | tens t => simp [Val.toR] at hv; subst hv; rfl

/-- reading back what an accessor wrote -/
theorem read_after_write {s s' : State} {d i : Nat} {l : AttrAt} {v : Val} {r : RVal}
    (hl : s.attrAt d i = .ok l) (hw : writeVal s l d i v = .ok s') (hv : v.toR = some r) :
    s'.read d i = .ok r := by
  obtain ⟨hd, hfid, hf, ha⟩ := attrAt_ok hl
  have hdlt : d < s.datas.length := lt_of_getElem?_some hd
  unfold writeVal at hw
  split at hw
  · cases hw
  · rename_i b old hslot
    obtain ⟨hb, hval, hm⟩ := slot_ok hslot
    split at hw
    · cases hw
    · injection hw with hw; subst hw
      have hi : i < b.vals.length := lt_of_getElem?_some hval
      refine (read_eq_of (s := s.setData d (some { l.dat with block := some { b with vals := b.vals.set i v } }))
        (List.getElem?_set_self hdlt) hfid hf ha rfl (List.getElem?_set_self hi) hm).trans ?_
      rw [resolve_of_toR _ hv]

end Sympler.DataFormat
