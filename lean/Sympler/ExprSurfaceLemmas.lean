import Sympler.ExprSurface
import Sympler.ExprParseLemmas

/-!
# C03 — the parser on rendered surface expressions

`parse_render_sym`: for every surface expression `e` of the parser's grammar (`SE.ok`),
`parseCore known n (e.render) = e.toTree known` whenever the fuel exceeds the length of the text.

Core Lean only.
-/
namespace Sympler.Expr

open Sympler.Gen

/-! ## `findWithoutParentheses` at bracket level ≥ 1: closed texts are skipped -/

theorem findGo_cons (name : List Char) (c : Char) (pre suf : List Char) (l : Int) :
    findGo name (c :: pre) suf l =
      if (name.isPrefixOf (c :: suf) && l == 0) = true then some pre.length
      else findGo name pre (c :: suf)
        (if c = ')' then l + 1 else if c = '(' then l - 1 else l) := by
  rw [findGo]

/-- scanning `s` from the right at a level `≥ 1` finds nothing and leaves the level unchanged -/
def RClosed (s : List Char) : Prop :=
  ∀ (name pre suf : List Char) (l : Int), 1 ≤ l →
    findGo name (s.reverse ++ pre) suf l = findGo name pre (s ++ suf) l

theorem RClosed.nil : RClosed [] := by intro name pre suf l _; rfl

theorem RClosed.single {c : Char} (h1 : c ≠ '(') (h2 : c ≠ ')') : RClosed [c] := by
  intro name pre suf l hl
  show findGo name (c :: pre) suf l = _
  rw [findGo_cons]
  have : (l == 0) = false := by
    have : l ≠ 0 := by omega
    simpa using this
  simp [this, h1, h2]

theorem RClosed.append {a b : List Char} (ha : RClosed a) (hb : RClosed b) : RClosed (a ++ b) := by
  intro name pre suf l hl
  rw [List.reverse_append, List.append_assoc, hb name _ suf l hl, ha name pre _ l hl,
    List.append_assoc]

theorem RClosed.paren {s : List Char} (hs : RClosed s) : RClosed ('(' :: (s ++ [')'])) := by
  intro name pre suf l hl
  have hl0 : (l == 0) = false := by
    have : l ≠ 0 := by omega
    simpa using this
  have hl1 : ((l + 1) == 0) = false := by
    have : l + 1 ≠ 0 := by omega
    simpa using this
  have e1 : ('(' :: (s ++ [')'])).reverse ++ pre = ')' :: (s.reverse ++ ('(' :: pre)) := by
    simp
  rw [e1, findGo_cons]
  simp only [hl0, Bool.and_false, Bool.false_eq_true, if_false, if_true]
  rw [hs name _ _ (l + 1) (by omega), findGo_cons]
  simp only [hl1, Bool.and_false, Bool.false_eq_true, if_false]
  have : ('(' = ')') = False := by decide
  simp only [this, if_false, if_true]
  have e2 : l + 1 - 1 = l := by omega
  rw [e2]
  simp

theorem RClosed.of_noparen : ∀ {s : List Char}, (∀ c ∈ s, c ≠ '(' ∧ c ≠ ')') → RClosed s
  | [], _ => RClosed.nil
  | c :: tl, h => by
    have hc := h c (List.mem_cons_self ..)
    have : c :: tl = [c] ++ tl := rfl
    rw [this]
    exact (RClosed.single hc.1 hc.2).append
      (RClosed.of_noparen (fun d hd => h d (List.mem_cons_of_mem _ hd)))

/-! ## Searching a one-character operator -/

theorem isPrefixOf_single (c d : Char) (suf : List Char) :
    List.isPrefixOf [c] (d :: suf) = (c == d) := by
  simp [List.isPrefixOf]

theorem findGo_skip_noparen_rev {c : Char} : ∀ (r : List Char), (∀ d ∈ r, d ≠ '(' ∧ d ≠ ')') → c ∉ r →
    ∀ (pre suf : List Char), findGo [c] (r ++ pre) suf 0 = findGo [c] pre (r.reverse ++ suf) 0
  | [], _, _, pre, suf => rfl
  | d :: tl, hp, hc, pre, suf => by
    have hd := hp d (List.mem_cons_self ..)
    have hcd : c ≠ d := by intro h; subst h; exact hc (List.mem_cons_self ..)
    show findGo [c] (d :: (tl ++ pre)) suf 0 = _
    rw [findGo_cons, isPrefixOf_single]
    have : (c == d) = false := by simpa using hcd
    simp only [this, Bool.false_and, Bool.false_eq_true, if_false, hd.1, hd.2]
    rw [findGo_skip_noparen_rev tl (fun x hx => hp x (List.mem_cons_of_mem _ hx))
      (fun hx => hc (List.mem_cons_of_mem _ hx))]
    simp

/-- a bracket-free text without `c` is skipped at level 0 -/
theorem findGo_skip_noparen {c : Char} {s : List Char} (hp : ∀ d ∈ s, d ≠ '(' ∧ d ≠ ')') (hc : c ∉ s)
    (pre suf : List Char) : findGo [c] (s.reverse ++ pre) suf 0 = findGo [c] pre (s ++ suf) 0 := by
  have := findGo_skip_noparen_rev (c := c) s.reverse (fun d hd => hp d (List.mem_reverse.mp hd))
    (fun h => hc (List.mem_reverse.mp h)) pre suf
  simpa using this

theorem findGo_hit_noparen_rev {c : Char} : ∀ (r : List Char), (∀ d ∈ r, d ≠ '(' ∧ d ≠ ')') → c ∈ r →
    ∀ (pre suf : List Char), (findGo [c] (r ++ pre) suf 0).isSome = true
  | [], _, h, _, _ => by cases h
  | d :: tl, hp, hc, pre, suf => by
    have hd := hp d (List.mem_cons_self ..)
    show (findGo [c] (d :: (tl ++ pre)) suf 0).isSome = true
    rw [findGo_cons, isPrefixOf_single]
    by_cases hcd : c = d
    · subst hcd; simp
    · have : (c == d) = false := by simpa using hcd
      simp only [this, Bool.false_and, Bool.false_eq_true, if_false, hd.1, hd.2]
      have hctl : c ∈ tl := by
        rcases List.mem_cons.mp hc with h | h
        · exact absurd h hcd
        · exact h
      exact findGo_hit_noparen_rev tl (fun x hx => hp x (List.mem_cons_of_mem _ hx)) hctl _ _

/-- a bracket-free text containing `c` stops the search at level 0 -/
theorem findGo_hit_noparen {c : Char} {s : List Char} (hp : ∀ d ∈ s, d ≠ '(' ∧ d ≠ ')') (hc : c ∈ s)
    (pre suf : List Char) : (findGo [c] (s.reverse ++ pre) suf 0).isSome = true :=
  findGo_hit_noparen_rev s.reverse (fun d hd => hp d (List.mem_reverse.mp hd))
    (List.mem_reverse.mpr hc) pre suf

theorem opCh_ne_paren {c : Char} (h : SE.isOpCh c = true) : c ≠ '(' ∧ c ≠ ')' := by
  constructor <;> (intro hc; subst hc; revert h; decide)

theorem binFactory_mem (o : BinOp) : (⟨[o.ch], true⟩ : Factory) ∈ factories := by
  cases o <;> decide

theorem selectFactory_none {fs : List Factory} {s : List Char} (h : selectFactory fs s = none) :
    ∀ f ∈ fs, f.isBinary = true → findWP s f.name = none := by
  induction fs with
  | nil => intro f hf; cases hf
  | cons g gs ih =>
    intro f hf hb
    rw [selectFactory] at h
    split at h
    next pos hp =>
      split at h
      · cases h
      next hacc =>
        rcases List.mem_cons.mp hf with h1 | h1
        · subst h1
          simp [hb] at hacc
        · exact ih h f h1 hb
    next hp =>
      rcases List.mem_cons.mp hf with h1 | h1
      · subst h1; exact hp
      · exact ih h f h1 hb

/-- an admissible atom contains no operator character -/
theorem atomOK_no_op {s : List Char} (h : SE.atomOK s = true) {c : Char} (hc : SE.isOpCh c = true) :
    c ∉ s := by
  simp only [SE.atomOK, Bool.and_eq_true, List.all_eq_true, bne_iff_ne, ne_eq,
    Option.isNone_iff_eq_none] at h
  obtain ⟨⟨_, hnp⟩, hsel⟩ := h
  obtain ⟨o, _, ho⟩ : ∃ o, o ∈ BinOp.all ∧ o.ch = c := by
    simp only [SE.isOpCh, List.any_eq_true, beq_iff_eq] at hc
    exact hc
  subst ho
  have hnone := selectFactory_none hsel _ (binFactory_mem o) rfl
  intro hmem
  have := findGo_hit_noparen (c := o.ch) hnp hmem [] []
  simp only [List.append_nil] at this
  unfold findWP at hnone
  rw [hnone] at this
  cases this

theorem atomOK_noparen {s : List Char} (h : SE.atomOK s = true) : ∀ d ∈ s, d ≠ '(' ∧ d ≠ ')' := by
  simp only [SE.atomOK, Bool.and_eq_true, List.all_eq_true, bne_iff_ne, ne_eq] at h
  exact h.1.2

theorem atomOK_ne_nil {s : List Char} (h : SE.atomOK s = true) : s ≠ [] := by
  intro hs; subst hs; simp [SE.atomOK] at h

/-- side condition on the generated table: every registered function is recognised in front of a bracket
(no registered name hides another one) -/
theorem table_functions_ok :
    ∀ p ∈ ExprTable.unaryFuncs, ∃ f, Fn.ofName p.1 = some f ∧ SE.fnOK f = true := by decide

theorem fnOK_facts {f : Fn} (h : SE.fnOK f = true) :
    Fn.ofName f.name = some f ∧ (∀ d ∈ f.name.toList, d ≠ '(' ∧ d ≠ ')') ∧
    (∀ d ∈ f.name.toList, SE.isOpCh d = false) ∧
    selectFactory factories (f.name.toList ++ ['(', ')']) = some (⟨f.name.toList, false⟩, 0) := by
  simp only [SE.fnOK, Bool.and_eq_true, decide_eq_true_eq, List.all_eq_true, bne_iff_ne, ne_eq,
    Bool.not_eq_true'] at h
  exact ⟨h.1.1, fun d hd => ⟨(h.1.2 d hd).1.1, (h.1.2 d hd).1.2⟩, fun d hd => (h.1.2 d hd).2, h.2⟩

/-! ## Rendered expressions are closed -/

theorem render_rclosed : ∀ (e : SE), e.ok = true → RClosed e.render := by
  intro e
  induction e with
  | atom s => intro h; exact RClosed.of_noparen (atomOK_noparen h)
  | fn f x ih =>
    intro h
    simp only [SE.ok, Bool.and_eq_true] at h
    exact (RClosed.of_noparen (fnOK_facts h.1).2.1).append (RClosed.paren (ih h.2))
  | paren x ih => intro h; exact RClosed.paren (ih h)
  | neg x ih =>
    intro h
    simp only [SE.ok, Bool.and_eq_true] at h
    exact (RClosed.single (c := '-') (by decide) (by decide)).append (ih h.1)
  | bin op a b iha ihb =>
    intro h
    simp only [SE.ok, Bool.and_eq_true] at h
    have hop : RClosed [op.ch] := by cases op <;> exact RClosed.single (by decide) (by decide)
    exact (iha h.1.1.1).append (hop.append (ihb h.1.1.2))

theorem render_ne_nil : ∀ (e : SE), e.ok = true → e.render ≠ [] := by
  intro e
  cases e with
  | atom s => intro h; exact atomOK_ne_nil h
  | fn f x =>
    intro _ h
    have : (SE.fn f x).render.length = 0 := by rw [h]; rfl
    simp [SE.render] at this
  | paren x => intro _ h; cases h
  | neg x => intro _ h; cases h
  | bin op a b =>
    intro _ h
    have : (SE.bin op a b).render.length = 0 := by rw [h]; rfl
    simp [SE.render] at this

/-! ## Top-level operators of a rendered expression -/

/-- the operator characters outside brackets, left to right -/
def SE.tops : SE → List Char
  | .atom _ => []
  | .fn _ _ => []
  | .paren _ => []
  | .neg e => '-' :: e.tops
  | .bin op a b => a.tops ++ op.ch :: b.tops

/-- position in `e.render` of the right-most top-level occurrence of `c` -/
def SE.lastTop (c : Char) : SE → Option Nat
  | .atom _ => none
  | .fn _ _ => none
  | .paren _ => none
  | .neg e =>
    match e.lastTop c with
    | some p => some (p + 1)
    | none => if c = '-' then some 0 else none
  | .bin op a b =>
    match b.lastTop c with
    | some p => some (a.render.length + 1 + p)
    | none => if c = op.ch then some a.render.length else a.lastTop c

theorem lastTop_none_iff (c : Char) : ∀ (e : SE), e.lastTop c = none ↔ c ∉ e.tops := by
  intro e
  induction e with
  | atom s => simp [SE.lastTop, SE.tops]
  | fn f x _ => simp [SE.lastTop, SE.tops]
  | paren x _ => simp [SE.lastTop, SE.tops]
  | neg x ih =>
    simp only [SE.lastTop, SE.tops, List.mem_cons, not_or]
    cases h : x.lastTop c with
    | some p =>
      have : ¬ (c ∉ x.tops) := fun hn => by rw [ih.mpr hn] at h; cases h
      simp [this]
    | none =>
      have := ih.mp h
      by_cases hc : c = '-' <;> simp [hc, this]
  | bin op a b iha ihb =>
    simp only [SE.lastTop, SE.tops, List.mem_append, List.mem_cons, not_or]
    cases h : b.lastTop c with
    | some p =>
      have : ¬ (c ∉ b.tops) := fun hn => by rw [ihb.mpr hn] at h; cases h
      simp [this]
    | none =>
      have hb := ihb.mp h
      by_cases hc : c = op.ch
      · simp [hc]
      · simp only [hc, if_false, false_or, hb, not_false_eq_true, and_true]
        exact iha

/-- The search for the one-character operator `c` over a rendered expression (scanned from the right,
at level 0): it stops at the right-most top-level `c`, or passes through. -/
theorem findGo_render {c : Char} (hc : SE.isOpCh c = true) : ∀ (e : SE), e.ok = true →
    ∀ (pre suf : List Char),
      findGo [c] (e.render.reverse ++ pre) suf 0 =
        match e.lastTop c with
        | some p => some (pre.length + p)
        | none => findGo [c] pre (e.render ++ suf) 0 := by
  have hcp := opCh_ne_paren hc
  intro e
  induction e with
  | atom s =>
    intro h pre suf
    exact findGo_skip_noparen (atomOK_noparen h) (atomOK_no_op h hc) pre suf
  | fn f x ih =>
    intro h pre suf
    simp only [SE.ok, Bool.and_eq_true] at h
    obtain ⟨_, hnp, hno, _⟩ := fnOK_facts h.1
    have hcf : c ∉ f.name.toList := fun hm => by
      have := hno c hm; rw [hc] at this; cases this
    have hx := render_rclosed x h.2
    show findGo [c] ((f.name.toList ++ ('(' :: (x.render ++ [')']))).reverse ++ pre) suf 0 =
      findGo [c] pre ((f.name.toList ++ ('(' :: (x.render ++ [')']))) ++ suf) 0
    have e1 : (f.name.toList ++ ('(' :: (x.render ++ [')']))).reverse ++ pre =
        ')' :: (x.render.reverse ++ ('(' :: (f.name.toList.reverse ++ pre))) := by simp
    rw [e1, findGo_cons, isPrefixOf_single]
    have h1 : (c == ')') = false := by simpa using hcp.2
    simp only [h1, Bool.false_and, Bool.false_eq_true, if_false, if_true]
    rw [hx [c] _ _ (0 + 1) (by omega), findGo_cons]
    have h2 : ((0 : Int) + 1 == 0) = false := by decide
    have h3 : ('(' = ')') = False := by decide
    simp only [h2, Bool.and_false, Bool.false_eq_true, if_false, h3, if_true]
    rw [show (0 : Int) + 1 - 1 = 0 from rfl, findGo_skip_noparen hnp hcf]
    simp
  | paren x ih =>
    intro h pre suf
    have hx := render_rclosed x h
    show findGo [c] (('(' :: (x.render ++ [')'])).reverse ++ pre) suf 0 =
      findGo [c] pre (('(' :: (x.render ++ [')'])) ++ suf) 0
    have e1 : ('(' :: (x.render ++ [')'])).reverse ++ pre =
        ')' :: (x.render.reverse ++ ('(' :: pre)) := by simp
    rw [e1, findGo_cons, isPrefixOf_single]
    have h1 : (c == ')') = false := by simpa using hcp.2
    simp only [h1, Bool.false_and, Bool.false_eq_true, if_false, if_true]
    rw [hx [c] _ _ (0 + 1) (by omega), findGo_cons]
    have h2 : ((0 : Int) + 1 == 0) = false := by decide
    have h3 : ('(' = ')') = False := by decide
    simp only [h2, Bool.and_false, Bool.false_eq_true, if_false, h3, if_true]
    rw [show (0 : Int) + 1 - 1 = 0 from rfl]
    simp
  | neg x ih =>
    intro h pre suf
    simp only [SE.ok, Bool.and_eq_true] at h
    have e1 : (SE.neg x).render.reverse ++ pre = x.render.reverse ++ ('-' :: pre) := by
      simp [SE.render]
    rw [e1, ih h.1]
    simp only [SE.lastTop]
    cases hl : x.lastTop c with
    | some p => simp only [List.length_cons]; congr 1; omega
    | none =>
      simp only
      rw [findGo_cons, isPrefixOf_single]
      by_cases hcm : c = '-'
      · subst hcm; simp
      · have : (c == '-') = false := by simpa using hcm
        simp only [this, Bool.false_and, Bool.false_eq_true, if_false, hcm]
        have h3 : ('-' = ')') = False := by decide
        have h4 : ('-' = '(') = False := by decide
        simp only [h3, h4, if_false]
        simp [SE.render]
  | bin op a b iha ihb =>
    intro h pre suf
    simp only [SE.ok, Bool.and_eq_true] at h
    have e1 : (SE.bin op a b).render.reverse ++ pre =
        b.render.reverse ++ (op.ch :: (a.render.reverse ++ pre)) := by
      simp [SE.render]
    rw [e1, ihb h.1.1.2]
    simp only [SE.lastTop]
    cases hl : b.lastTop c with
    | some p =>
      simp only [List.length_cons, List.length_append, List.length_reverse]
      congr 1; omega
    | none =>
      simp only
      rw [findGo_cons, isPrefixOf_single]
      have hopp : op.ch ≠ '(' ∧ op.ch ≠ ')' := by cases op <;> decide
      by_cases hcm : c = op.ch
      · subst hcm; simp; omega
      · have : (c == op.ch) = false := by simpa using hcm
        simp only [this, Bool.false_and, Bool.false_eq_true, if_false, hcm, hopp.1, hopp.2]
        rw [iha h.1.1.1]
        cases hla : a.lastTop c with
        | some p => rfl
        | none => simp [SE.render]

/-! ## Which factory `parseThis` selects -/

theorem ch_injective {o o' : BinOp} (h : o.ch = o'.ch) : o = o' := by
  cases o <;> cases o' <;> first | rfl | (exact absurd h (by decide))

theorem ch_isOpCh (o : BinOp) : SE.isOpCh o.ch = true := by cases o <;> decide

theorem tops_lvl : ∀ (e : SE), e.ok = true → ∀ c ∈ e.tops, ∃ o : BinOp, o.ch = c ∧ e.lvl ≤ o.prec := by
  intro e
  induction e with
  | atom s => intro _ c hc; cases hc
  | fn f x _ => intro _ c hc; cases hc
  | paren x _ => intro _ c hc; cases hc
  | neg x ih =>
    intro h c hc
    simp only [SE.ok, Bool.and_eq_true, decide_eq_true_eq] at h
    rcases List.mem_cons.mp hc with h1 | h1
    · exact ⟨.sub, h1.symm, by simp [SE.lvl, BinOp.prec]⟩
    · obtain ⟨o, ho, hl⟩ := ih h.1 c h1
      exact ⟨o, ho, by simp only [SE.lvl]; omega⟩
  | bin op a b iha ihb =>
    intro h c hc
    simp only [SE.ok, Bool.and_eq_true, decide_eq_true_eq] at h
    simp only [SE.tops, List.mem_append, List.mem_cons] at hc
    rcases hc with h1 | h1 | h1
    · obtain ⟨o, ho, hl⟩ := iha h.1.1.1 c h1
      exact ⟨o, ho, by simp only [SE.lvl]; omega⟩
    · exact ⟨op, h1.symm, Nat.le_refl _⟩
    · obtain ⟨o, ho, hl⟩ := ihb h.1.1.2 c h1
      exact ⟨o, ho, by simp only [SE.lvl]; omega⟩

/-- an operator looser than the level of `e` does not occur at the top level of `e` -/
theorem lastTop_none_of_prec {e : SE} (h : e.ok = true) {o : BinOp} (ho : o.prec < e.lvl) :
    e.lastTop o.ch = none := by
  rw [lastTop_none_iff]
  intro hm
  obtain ⟨o', ho', hl⟩ := tops_lvl e h _ hm
  have := ch_injective ho'
  subst this
  omega

theorem findWP_render {e : SE} (h : e.ok = true) (o : BinOp) :
    findWP e.render [o.ch] = e.lastTop o.ch := by
  unfold findWP
  have := findGo_render (ch_isOpCh o) e h [] []
  simp only [List.append_nil] at this
  rw [this]
  cases e.lastTop o.ch with
  | some p => simp
  | none => simp [findGo]

abbrev binF (o : BinOp) : Factory := ⟨[o.ch], true⟩

/-- side condition on the generated table: the binary operators come first, in the order of
`BinOp.all` (which defines `BinOp.prec`), each with a one-character name; the functions follow. -/
theorem factories_split : factories = BinOp.all.map binF ++ factories.drop 8 := by decide

theorem selectFactory_skip {s : List Char} {rest : List Factory} : ∀ (os : List BinOp),
    (∀ o ∈ os, findWP s [o.ch] = none) →
    selectFactory (os.map binF ++ rest) s = selectFactory rest s
  | [], _ => rfl
  | o :: os, h => by
    show selectFactory (binF o :: (os.map binF ++ rest)) s = _
    rw [selectFactory]
    have : findWP s (binF o).name = none := h o (List.mem_cons_self ..)
    rw [this]
    exact selectFactory_skip os (fun o' ho' => h o' (List.mem_cons_of_mem _ ho'))

theorem selectFactory_hit {s : List Char} {rest : List Factory} {o : BinOp} {k : Nat}
    (h : findWP s [o.ch] = some k) : selectFactory (binF o :: rest) s = some (binF o, k) := by
  rw [selectFactory]
  have : findWP s (binF o).name = some k := h
  rw [this]
  rfl

theorem all_split (op : BinOp) :
    BinOp.all = BinOp.all.take op.prec ++ op :: BinOp.all.drop (op.prec + 1) := by
  cases op <;> rfl

theorem take_prec_lt (op : BinOp) : ∀ o ∈ BinOp.all.take op.prec, o.prec < op.prec := by
  cases op <;> decide

/-- the factory selected for an expression whose right-most loosest top-level operator is `op` at
position `k` -/
theorem selectFactory_op {s : List Char} {op : BinOp} {k : Nat}
    (hlow : ∀ o : BinOp, o.prec < op.prec → findWP s [o.ch] = none)
    (hop : findWP s [op.ch] = some k) :
    selectFactory factories s = some (binF op, k) := by
  rw [factories_split, all_split op, List.map_append, List.append_assoc]
  rw [selectFactory_skip _ (fun o ho => hlow o (take_prec_lt op o ho))]
  exact selectFactory_hit hop

theorem selectFactory_bin {op : BinOp} {a b : SE} (h : (SE.bin op a b).ok = true) :
    selectFactory factories (SE.bin op a b).render = some (binF op, a.render.length) := by
  have h' := h
  simp only [SE.ok, Bool.and_eq_true, decide_eq_true_eq] at h'
  apply selectFactory_op
  · intro o ho
    rw [findWP_render h]
    exact lastTop_none_of_prec h (by simpa [SE.lvl] using ho)
  · rw [findWP_render h]
    have hb : b.lastTop op.ch = none := lastTop_none_of_prec h'.1.1.2 (by omega)
    simp [SE.lastTop, hb]

theorem selectFactory_neg {x : SE} (h : (SE.neg x).ok = true) :
    selectFactory factories (SE.neg x).render = some (binF .sub, 0) := by
  have h' := h
  simp only [SE.ok, Bool.and_eq_true, decide_eq_true_eq] at h'
  apply selectFactory_op
  · intro o ho
    rw [findWP_render h]
    exact lastTop_none_of_prec h (by simp only [SE.lvl]; simpa [BinOp.prec] using ho)
  · rw [findWP_render h]
    have hx : x.lastTop (BinOp.ch .sub) = none :=
      lastTop_none_of_prec h'.1 (by simp [BinOp.prec]; omega)
    simp only [SE.lastTop, hx]
    rfl

/-! ## Function applications: the argument does not influence the selection -/

theorem isPrefixOf_bracket_irrel {g : List Char} (hg : '(' ∉ g) : ∀ (z Y Y' : List Char),
    g.isPrefixOf (z ++ '(' :: Y) = g.isPrefixOf (z ++ '(' :: Y') := by
  induction g with
  | nil => intro z Y Y'; simp [List.isPrefixOf]
  | cons a g' ih =>
    intro z Y Y'
    have ha : a ≠ '(' := fun h => hg (by simp [h])
    have hg' : '(' ∉ g' := fun h => hg (List.mem_cons_of_mem _ h)
    cases z with
    | nil =>
      have : (a == '(') = false := by simpa using ha
      simp [List.isPrefixOf, this]
    | cons b z' =>
      show List.isPrefixOf (a :: g') (b :: (z' ++ '(' :: Y)) = List.isPrefixOf (a :: g') (b :: (z' ++ '(' :: Y'))
      simp only [List.isPrefixOf]
      rw [ih hg' z' Y Y']

theorem findGo_bracket_irrel {g : List Char} (hg : '(' ∉ g) : ∀ (pre z Y Y' : List Char) (l : Int),
    findGo g pre (z ++ '(' :: Y) l = findGo g pre (z ++ '(' :: Y') l
  | [], _, _, _, _ => rfl
  | c :: pre, z, Y, Y', l => by
    rw [findGo_cons, findGo_cons]
    have e1 : c :: (z ++ '(' :: Y) = (c :: z) ++ '(' :: Y := rfl
    have e2 : c :: (z ++ '(' :: Y') = (c :: z) ++ '(' :: Y' := rfl
    rw [e1, e2, isPrefixOf_bracket_irrel hg (c :: z) Y Y', findGo_bracket_irrel hg pre (c :: z) Y Y']

/-- side condition on the generated table: no name is empty or contains a bracket -/
theorem factories_names_noparen :
    ∀ f ∈ factories, f.name ≠ [] ∧ '(' ∉ f.name ∧ ')' ∉ f.name := by decide

theorem findWP_fn_irrel {g fname body : List Char} (hg0 : g ≠ []) (hg1 : '(' ∉ g) (hg2 : ')' ∉ g)
    (hb : RClosed body) :
    findWP (fname ++ ('(' :: (body ++ [')']))) g = findWP (fname ++ ['(', ')']) g := by
  unfold findWP
  obtain ⟨a, g', rfl⟩ : ∃ a g', g = a :: g' := by
    cases g with
    | nil => exact absurd rfl hg0
    | cons a g' => exact ⟨a, g', rfl⟩
  have ha : a ≠ ')' := fun h => hg2 (by simp [h])
  have hpre : List.isPrefixOf (a :: g') [')'] = false := by
    simp [List.isPrefixOf, ha]
  have h1 : ((0 : Int) + 1 == 0) = false := by decide
  have h3 : ('(' = ')') = False := by decide
  have e1 : (fname ++ ('(' :: (body ++ [')']))).reverse =
      ')' :: (body.reverse ++ ('(' :: fname.reverse)) := by simp
  have e2 : (fname ++ ['(', ')']).reverse = ')' :: ('(' :: fname.reverse) := by simp
  rw [e1, e2, findGo_cons, findGo_cons, hpre]
  simp only [Bool.false_and, Bool.false_eq_true, if_false, if_true]
  rw [hb _ _ _ (0 + 1) (by omega), findGo_cons, findGo_cons]
  simp only [h1, Bool.and_false, Bool.false_eq_true, if_false, h3, if_true]
  exact findGo_bracket_irrel hg1 fname.reverse [] _ _ _

theorem selectFactory_congr {s s' : List Char} : ∀ (fs : List Factory),
    (∀ f ∈ fs, findWP s f.name = findWP s' f.name) → selectFactory fs s = selectFactory fs s'
  | [], _ => rfl
  | f :: fs, h => by
    rw [selectFactory, selectFactory, h f (List.mem_cons_self ..),
      selectFactory_congr fs (fun g hg => h g (List.mem_cons_of_mem _ hg))]

theorem selectFactory_fn {f : Fn} {x : SE} (h : (SE.fn f x).ok = true) :
    selectFactory factories (SE.fn f x).render = some (⟨f.name.toList, false⟩, 0) := by
  simp only [SE.ok, Bool.and_eq_true] at h
  obtain ⟨_, _, _, hsel⟩ := fnOK_facts h.1
  rw [← hsel]
  apply selectFactory_congr
  intro g hg
  obtain ⟨g0, g1, g2⟩ := factories_names_noparen g hg
  exact findWP_fn_irrel g0 g1 g2 (render_rclosed x h.2)

/-! ## The bracket loop on rendered expressions -/

/-- scanning `s` from the left with `open ≥ 1` passes through and leaves `open` unchanged -/
def PClosed (s : List Char) : Prop :=
  ∀ (rest : List Char) (i o : Nat), 1 ≤ o → scanClose (s ++ rest) i o = scanClose rest (i + s.length) o

theorem PClosed.nil : PClosed [] := by intro rest i o _; rfl

theorem PClosed.single {c : Char} (h1 : c ≠ '(') (h2 : c ≠ ')') : PClosed [c] := by
  intro rest i o _
  show scanClose (c :: rest) i o = _
  rw [scanClose]
  simp [h1, h2]

theorem PClosed.append {a b : List Char} (ha : PClosed a) (hb : PClosed b) : PClosed (a ++ b) := by
  intro rest i o ho
  rw [List.append_assoc, ha _ i o ho, hb _ _ o ho, List.length_append, Nat.add_assoc]

theorem PClosed.paren {s : List Char} (hs : PClosed s) : PClosed ('(' :: (s ++ [')'])) := by
  intro rest i o ho
  show scanClose ('(' :: (s ++ [')'] ++ rest)) i o = _
  rw [scanClose]
  simp only [if_true]
  rw [List.append_assoc, hs _ (i+1) (o+1) (by omega)]
  show scanClose (')' :: rest) _ _ = _
  rw [scanClose]
  have h1 : (')' = '(') = False := by decide
  have h2 : ¬ (o + 1 ≤ 1) := by omega
  simp only [h1, if_false, if_true, h2]
  simp only [List.length_cons, List.length_append, List.length_nil]
  congr 1
  omega

theorem PClosed.of_noparen : ∀ {s : List Char}, (∀ c ∈ s, c ≠ '(' ∧ c ≠ ')') → PClosed s
  | [], _ => PClosed.nil
  | c :: tl, h => by
    have hc := h c (List.mem_cons_self ..)
    have : c :: tl = [c] ++ tl := rfl
    rw [this]
    exact (PClosed.single hc.1 hc.2).append
      (PClosed.of_noparen (fun d hd => h d (List.mem_cons_of_mem _ hd)))

theorem render_pclosed : ∀ (e : SE), e.ok = true → PClosed e.render := by
  intro e
  induction e with
  | atom s => intro h; exact PClosed.of_noparen (atomOK_noparen h)
  | fn f x ih =>
    intro h
    simp only [SE.ok, Bool.and_eq_true] at h
    exact (PClosed.of_noparen (fnOK_facts h.1).2.1).append (PClosed.paren (ih h.2))
  | paren x ih => intro h; exact PClosed.paren (ih h)
  | neg x ih =>
    intro h
    simp only [SE.ok, Bool.and_eq_true] at h
    exact (PClosed.single (c := '-') (by decide) (by decide)).append (ih h.1)
  | bin op a b iha ihb =>
    intro h
    simp only [SE.ok, Bool.and_eq_true] at h
    have hop : PClosed [op.ch] := by cases op <;> exact PClosed.single (by decide) (by decide)
    exact (iha h.1.1.1).append (hop.append (ihb h.1.1.2))

/-- strip all outer brackets -/
def SE.core : SE → SE
  | .paren x => x.core
  | e => e

def SE.isParen : SE → Bool
  | .paren _ => true
  | _ => false

theorem core_not_paren : ∀ (e : SE), e.core.isParen = false := by
  intro e
  induction e with
  | paren x ih => exact ih
  | atom s => rfl
  | fn f x _ => rfl
  | neg x _ => rfl
  | bin op a b _ _ => rfl

theorem core_ok : ∀ (e : SE), e.ok = true → e.core.ok = true := by
  intro e
  induction e with
  | paren x ih => intro h; exact ih h
  | atom s => intro h; exact h
  | fn f x _ => intro h; exact h
  | neg x _ => intro h; exact h
  | bin op a b _ _ => intro h; exact h

theorem core_toTree (known : String → Bool) : ∀ (e : SE), e.core.toTree known = e.toTree known := by
  intro e
  induction e with
  | paren x ih => exact ih
  | atom s => rfl
  | fn f x _ => rfl
  | neg x _ => rfl
  | bin op a b _ _ => rfl

theorem core_length : ∀ (e : SE), e.core.render.length ≤ e.render.length := by
  intro e
  induction e with
  | paren x ih =>
    show x.core.render.length ≤ ('(' :: (x.render ++ [')'])).length
    simp only [List.length_cons, List.length_append, List.length_nil]; omega
  | atom s => exact Nat.le_refl _
  | fn f x _ => exact Nat.le_refl _
  | neg x _ => exact Nat.le_refl _
  | bin op a b _ _ => exact Nat.le_refl _

theorem fname_ne_nil {f : Fn} (h : SE.fnOK f = true) : f.name.toList ≠ [] := by
  obtain ⟨_, _, _, hsel⟩ := fnOK_facts h
  intro h0
  have := (selectFactory_some hsel).1
  have := factories_names_ne_nil _ this
  simp [h0] at this

/-- the first character of a rendered expression is never `)` -/
theorem render_head_ne_close : ∀ (e : SE), e.ok = true → e.render.head? ≠ some ')' := by
  intro e
  induction e with
  | atom s =>
    intro h
    cases hs : s with
    | nil => simp [SE.render, hs]
    | cons c tl =>
      have := (atomOK_noparen h c (by rw [hs]; exact List.mem_cons_self ..)).2
      simpa [SE.render, hs] using this
  | fn f x _ =>
    intro h
    simp only [SE.ok, Bool.and_eq_true] at h
    have hne := fname_ne_nil h.1
    cases hs : f.name.toList with
    | nil => exact absurd hs hne
    | cons c tl =>
      have := ((fnOK_facts h.1).2.1 c (by rw [hs]; exact List.mem_cons_self ..)).2
      simpa [SE.render, hs] using this
  | paren x _ => intro _; simp [SE.render]
  | neg x _ => intro _; simp [SE.render]
  | bin op a b iha _ =>
    intro h
    simp only [SE.ok, Bool.and_eq_true] at h
    have hne := render_ne_nil a h.1.1.1
    cases hs : a.render with
    | nil => exact absurd hs hne
    | cons c tl =>
      have := iha h.1.1.1
      rw [hs] at this
      simpa [SE.render, hs] using this

/-- a non-bracket expression whose text starts with `(`: the bracket closes before the end -/
theorem lead_paren : ∀ (e : SE), e.ok = true → e.isParen = false → ∀ tl, e.render = '(' :: tl →
    ∃ y rest', tl = y ++ ')' :: rest' ∧ rest' ≠ [] ∧ PClosed y := by
  intro e
  induction e with
  | atom s =>
    intro h _ tl hr
    have := (atomOK_noparen h '(' (by rw [show s = '(' :: tl from hr]; exact List.mem_cons_self ..)).1
    exact absurd rfl this
  | fn f x _ =>
    intro h _ tl hr
    simp only [SE.ok, Bool.and_eq_true] at h
    have hne := fname_ne_nil h.1
    cases hs : f.name.toList with
    | nil => exact absurd hs hne
    | cons c ftl =>
      have hc := ((fnOK_facts h.1).2.1 c (by rw [hs]; exact List.mem_cons_self ..)).1
      simp only [SE.render, hs, List.cons_append] at hr
      injection hr with h1 _
      exact absurd h1 hc
  | paren x _ => intro _ hp; cases hp
  | neg x _ => intro _ _ tl hr; simp [SE.render] at hr
  | bin op a b iha _ =>
    intro h _ tl hr
    simp only [SE.ok, Bool.and_eq_true] at h
    have hne := render_ne_nil a h.1.1.1
    cases ha : a.render with
    | nil => exact absurd ha hne
    | cons c atl =>
      simp only [SE.render, ha, List.cons_append] at hr
      injection hr with h1 h2
      subst h1
      cases hpa : a.isParen with
      | true =>
        cases a with
        | paren y =>
          simp only [SE.render] at ha
          injection ha with _ ha
          refine ⟨y.render, op.ch :: b.render, ?_, by simp, render_pclosed y h.1.1.1⟩
          rw [← h2, ← ha]; simp
        | atom _ => cases hpa
        | fn _ _ => cases hpa
        | neg _ => cases hpa
        | bin _ _ _ => cases hpa
      | false =>
        obtain ⟨y, r', hy, hr', hpc⟩ := iha h.1.1.1 hpa atl ha
        refine ⟨y, r' ++ op.ch :: b.render, ?_, by simp, hpc⟩
        rw [← h2, hy]; simp

/-- if the text starts with `(`, the next character is not `)` -/
theorem render_second_ne_close : ∀ (e : SE), e.ok = true → ∀ rest, e.render = '(' :: rest →
    rest.head? ≠ some ')' := by
  intro e
  induction e with
  | atom s =>
    intro h rest hr
    have := (atomOK_noparen h '(' (by rw [show s = '(' :: rest from hr]; exact List.mem_cons_self ..)).1
    exact absurd rfl this
  | fn f x _ =>
    intro h rest hr
    simp only [SE.ok, Bool.and_eq_true] at h
    have hne := fname_ne_nil h.1
    cases hs : f.name.toList with
    | nil => exact absurd hs hne
    | cons c ftl =>
      have hc := ((fnOK_facts h.1).2.1 c (by rw [hs]; exact List.mem_cons_self ..)).1
      simp only [SE.render, hs, List.cons_append] at hr
      injection hr with h1 _
      exact absurd h1 hc
  | paren x _ =>
    intro h rest hr
    simp only [SE.render] at hr
    injection hr with _ hr
    have hx := render_head_ne_close x h
    have hne := render_ne_nil x h
    cases hxr : x.render with
    | nil => exact absurd hxr hne
    | cons c tl =>
      rw [hxr] at hr hx
      rw [← hr]
      simpa using hx
  | neg x _ => intro _ rest hr; simp [SE.render] at hr
  | bin op a b iha _ =>
    intro h rest hr
    simp only [SE.ok, Bool.and_eq_true] at h
    have hne := render_ne_nil a h.1.1.1
    cases ha : a.render with
    | nil => exact absurd ha hne
    | cons c atl =>
      simp only [SE.render, ha, List.cons_append] at hr
      injection hr with h1 h2
      subst h1
      have := iha h.1.1.1 atl ha
      rw [← h2]
      cases atl with
      | nil =>
        have : op.ch ≠ ')' := by cases op <;> decide
        simpa using this
      | cons d atl' => simpa using this

/-- one pass of the bracket loop over `(y)rest` where `y` is closed, not empty and does not start with
`)`: the brackets are stripped if nothing follows, the loop ends otherwise -/
theorem stripLoop_paren (fuel : Nat) (y rest : List Char) (hne : y ≠ []) (hh : y.head? ≠ some ')')
    (hp : PClosed y) :
    stripLoop (fuel+1) ('(' :: (y ++ ')' :: rest)) =
      if rest = [] then stripLoop fuel y else .ok ('(' :: (y ++ ')' :: rest)) := by
  cases y with
  | nil => exact absurd rfl hne
  | cons c tl =>
    have hc : ¬ c = ')' := by simpa using hh
    show stripLoop (fuel+1) ('(' :: c :: (tl ++ ')' :: rest)) = _
    rw [stripLoop, if_neg (not_not_intro rfl), if_neg hc]
    have hs : scanClose (c :: (tl ++ ')' :: rest)) 1 1 = (some (1 + (c :: tl).length), 0) := by
      have := hp (')' :: rest) 1 1 (Nat.le_refl _)
      rw [List.cons_append] at this
      rw [this]
      simp [scanClose]
    rw [hs]
    dsimp only
    by_cases hr : rest = []
    · subst hr
      have hlen : 1 + (c :: tl).length + 1 = ('(' :: c :: (tl ++ [')'])).length := by
        simp only [List.length_cons, List.length_append, List.length_nil]; omega
      have hd : (c :: (tl ++ [')'])).dropLast = c :: tl := by
        have : c :: (tl ++ [')']) = (c :: tl) ++ [')'] := rfl
        rw [this, List.dropLast_concat]
      rw [if_pos hlen, if_pos rfl, hd]
    · have hlen : ¬ (1 + (c :: tl).length + 1 = ('(' :: c :: (tl ++ ')' :: rest)).length) := by
        simp only [List.length_cons, List.length_append]
        have : 0 < rest.length := by
          cases rest with
          | nil => exact absurd rfl hr
          | cons _ _ => simp
        omega
      rw [if_neg hlen, if_neg hr]
      rfl

theorem stripLoop_render : ∀ (e : SE), e.ok = true → ∀ fuel, e.render.length < fuel →
    stripLoop fuel e.render = .ok e.core.render := by
  intro e
  induction e with
  | paren x ih =>
    intro h fuel hf
    obtain ⟨k, rfl⟩ : ∃ k, fuel = k + 1 := ⟨fuel - 1, by omega⟩
    show stripLoop (k+1) ('(' :: (x.render ++ [')'])) = _
    rw [stripLoop_paren k x.render [] (render_ne_nil x h) (render_head_ne_close x h)
      (render_pclosed x h), if_pos rfl]
    refine ih h k ?_
    simp only [SE.render, List.length_cons, List.length_append, List.length_nil] at hf
    omega
  | atom s => exact fun h => stripLoop_nonparen (.atom s) h rfl
  | fn f x _ => exact fun h => stripLoop_nonparen (.fn f x) h rfl
  | neg x _ => exact fun h => stripLoop_nonparen (.neg x) h rfl
  | bin op a b _ _ => exact fun h => stripLoop_nonparen (.bin op a b) h rfl
where
  stripLoop_nonparen (e : SE) (h : e.ok = true) (hnp : e.isParen = false) :
      ∀ fuel, e.render.length < fuel → stripLoop fuel e.render = .ok e.core.render := by
    intro fuel hf
    obtain ⟨k, rfl⟩ : ∃ k, fuel = k + 1 := ⟨fuel - 1, by omega⟩
    have hcore : e.core = e := by
      cases e with
      | paren _ => cases hnp
      | atom _ => rfl
      | fn _ _ => rfl
      | neg _ => rfl
      | bin _ _ _ => rfl
    rw [hcore]
    have hne := render_ne_nil e h
    cases hr : e.render with
    | nil => exact absurd hr hne
    | cons c tl =>
      by_cases hc : c = '('
      · subst hc
        obtain ⟨y, r', hy, hr', hpc⟩ := lead_paren e h hnp tl hr
        have h2 := render_second_ne_close e h tl hr
        have hyne : y ≠ [] := by
          intro h0; subst h0; rw [hy] at h2; simp at h2
        have hyh : y.head? ≠ some ')' := by
          cases y with
          | nil => exact absurd rfl hyne
          | cons d ytl => rw [hy] at h2; simpa using h2
        rw [hy, stripLoop_paren k y r' hyne hyh hpc, if_neg hr']
      · cases tl with
        | nil => simp [stripLoop]
        | cons c1 tl' => rw [stripLoop, if_pos hc]

theorem stripBrackets_render (e : SE) (h : e.ok = true) :
    stripBrackets e.render = .ok e.core.render := by
  unfold stripBrackets
  split
  next rest heq =>
    have h2 := render_second_ne_close e h rest heq
    rw [if_neg h2]
    exact stripLoop_render e h _ (Nat.lt_succ_self _)
  next hnot =>
    have hcore : e.core = e := by
      cases e with
      | paren x => exact absurd rfl (hnot (x.render ++ [')']))
      | atom _ => rfl
      | fn _ _ => rfl
      | neg _ => rfl
      | bin _ _ _ => rfl
    rw [hcore]

/-! ## The parser on rendered expressions -/

theorem ofName_ch (op : BinOp) : BinOp.ofName (String.ofList [op.ch]) = some op := by
  cases op <;> decide

theorem name_minus_iff (op : BinOp) : (String.ofList [op.ch] = "-") ↔ op = .sub := by
  cases op <;> decide

/-- `parseBody` on a rendered expression that is not a bracket, given that the recursive calls are right
on all shorter rendered expressions -/
theorem parseBody_render (known : String → Bool) (rec : List Char → Except Err Tree) (n : Nat)
    (hrec : ∀ x : SE, x.ok = true → x.render.length < n → rec x.render = x.toTree known) :
    ∀ (e : SE), e.ok = true → e.isParen = false → e.render.length ≤ n →
      parseBody known rec e.render = e.toTree known := by
  intro e h hnp hlen
  cases e with
  | paren x => cases hnp
  | atom s =>
    unfold parseBody
    have : selectFactory factories s = none := by
      simp only [SE.ok, SE.atomOK, Bool.and_eq_true, Option.isNone_iff_eq_none] at h
      exact h.2
    show (match selectFactory factories s with
      | none => valueFromString known s
      | some (f, pos) => _) = _
    rw [this]
    rfl
  | fn f x =>
    have hsel := selectFactory_fn h
    have h' := h
    simp only [SE.ok, Bool.and_eq_true] at h'
    obtain ⟨hname, _, _, _⟩ := fnOK_facts h'.1
    have hfne := fname_ne_nil h'.1
    unfold parseBody
    rw [hsel]
    simp only [Bool.false_eq_true, if_false, String.ofList_toList, hname]
    have hdrop : List.drop f.name.toList.length (SE.fn f x).render = (SE.paren x).render := by
      simp [SE.render]
    rw [hdrop, hrec (.paren x) h'.2 (by
      simp only [SE.render, List.length_cons, List.length_append, List.length_nil] at hlen ⊢
      have : 0 < f.name.toList.length := by
        cases hf : f.name.toList with
        | nil => exact absurd hf hfne
        | cons _ _ => simp
      omega)]
    rfl
  | neg x =>
    have hsel := selectFactory_neg h
    have h' := h
    simp only [SE.ok, Bool.and_eq_true] at h'
    unfold parseBody
    rw [hsel]
    dsimp only
    simp only [if_true]
    have hdrop : List.drop 1 (SE.neg x).render = x.render := by simp [SE.render]
    split
    · rw [hdrop, hrec x h'.1 (by
        simp only [SE.render, List.length_cons] at hlen; omega)]
      rfl
    next hneg => exact absurd (by decide) hneg
  | bin op a b =>
    have hsel := selectFactory_bin h
    have h' := h
    simp only [SE.ok, Bool.and_eq_true] at h'
    have hane := render_ne_nil a h'.1.1.1
    have hapos : 0 < a.render.length := by
      cases ha : a.render with
      | nil => exact absurd ha hane
      | cons _ _ => simp
    unfold parseBody
    rw [hsel]
    dsimp only
    simp only [if_true]
    have hcond : ¬ ((decide (String.ofList [op.ch] = "-") && decide (a.render.length = 0)) = true) := by
      simp only [Bool.and_eq_true, decide_eq_true_eq]
      omega
    rw [if_neg hcond]
    simp only [ofName_ch]
    have hdrop : List.drop (a.render.length + [op.ch].length) (SE.bin op a b).render = b.render := by
      simp [SE.render]
    have htake : List.take a.render.length (SE.bin op a b).render = a.render := by
      simp [SE.render]
    simp only [SE.render, List.length_append, List.length_cons] at hlen
    rw [hdrop, htake, hrec b h'.1.1.2 (by omega), hrec a h'.1.1.1 (by omega)]
    rfl

/-- **The parser reads a rendered expression of its grammar as the tree it stands for.** -/
theorem parse_render_sym (known : String → Bool) : ∀ (n : Nat) (e : SE), e.ok = true →
    e.render.length < n → parseCore known n e.render = e.toTree known
  | 0, _, _, h => by omega
  | n+1, e, hok, hlen => by
    rw [parseCore, stripBrackets_render e hok]
    show parseBody known (parseCore known n) e.core.render = _
    rw [parseBody_render known (parseCore known n) n
      (fun x hx hxl => parse_render_sym known n x hx hxl) e.core (core_ok e hok) (core_not_paren e)
      (by have := core_length e; omega), core_toTree]

end Sympler.Expr
