import Sympler.DataFormat
/-!
# Executable number codec and line-protocol driver for the `DataFormat` model (C14)

* `NumCodec.model`: character-level model of glibc `sprintf("%g")` / `ostream << double`
  (precision 6, round half even on the exact value, trailing zeros removed, exponent form
  when the decimal exponent is `< -4` or `≥ 6`), `sprintf("%i")`, `atof`, `atoi`
  (longest valid decimal prefix after white space; no hex floats / `inf` / `nan`: the
  protocol rejects the letters they need).
* `driver`: the line protocol used by the correspondence check against
  `/verif/harness/h_dataformat.cpp`.

## Protocol

Input is a stream of cases.  A case starts with `case <id> align <n>|none` (`none`: the harness
does not call `DataFormat::alignDataFor`), followed by one operation per line; every case
starts from the empty state; formats and data objects are numbered 0,1,2,… in the order of
their creation (separately).  After an operation whose result is `ub:<kind>` the rest of the
case is skipped.  A line `[`…`]` payload is the text between the first `[` and the last `]`.

    fmt                                  -> fmt <id>
    fmtcopy F                            -> fmt <id>
    fadd F name TYPE 0|1 symbol|-        -> attr name index offset TYPE pers symbol
    dadd D name TYPE 0|1 symbol|-        -> attr …
    layout F                             -> layout size=<s> rows=<n> | name index offset TYPE pers npers symbol | …
    new F | new0 | copy E                -> data <id>
    assign D E | del D | setfmt D F | release D | realloc D | clear D | clearall D
    protect D i | unprotect D i | set D i <value> | push D i <elem> | fromstr D i [text]  -> ok
    get D i                              -> val <value>
    rc D i                               -> rc <n>
    dump D                               -> dump <value>|vnull|stale ; …     (dump nofmt, dump null; `misaligned` for an attribute at a misaligned offset)
    tostr D i                            -> str [text]
    leakcheck                            -> lsan leaks=0|1   (is an allocated container unreachable; the
                                            generator only asks in cases without STRING attributes,
                                            whose character buffers are never freed by the code)

`<value>`: `int:n`, `dbl:r`, `ipt:a,b,c`, `pt:x,y,z`, `tens:` nine rationals, `str:[text]`;
container content is printed as `vec:{e;e;…}`.  Rationals `p` or `p/q` (at most 15 digits each),
integers at most 9 digits.  Errors: `err:<kind>` (state unchanged), `ub:<kind>`.
-/
namespace Sympler.DataFormat

/-! ## Number codec -/

def digitChar (d : Nat) : Char := Char.ofNat (48 + d)

def natDigitsAux : Nat → Nat → List Char → List Char
  | 0, _, acc => acc
  | fuel + 1, n, acc =>
    let acc' := digitChar (n % 10) :: acc
    if n < 10 then acc' else natDigitsAux fuel (n / 10) acc'

/-- decimal digits of `n` -/
def natDigits (n : Nat) : List Char := natDigitsAux (n + 1) n []

/-- `sprintf("%i")` -/
def fmtIModel (n : Int) : List Char :=
  if n < 0 then '-' :: natDigits n.natAbs else natDigits n.natAbs

/-- C `isspace` in the "C" locale -/
def isSpaceC (c : Char) : Bool :=
  c = ' ' || c = '\t' || c = '\n' || c = '\x0b' || c = '\x0c' || c = '\r'

def digitVal? (c : Char) : Option Nat :=
  if '0' ≤ c ∧ c ≤ '9' then some (c.toNat - 48) else none

/-- read a run of digits: accumulated value, number of digits read, rest -/
def readDigits : List Char → Nat → Nat → Nat × Nat × List Char
  | [], acc, k => (acc, k, [])
  | c :: cs, acc, k =>
    match digitVal? c with
    | some d => readDigits cs (acc * 10 + d) (k + 1)
    | none => (acc, k, c :: cs)

/-- optional sign: `true` = negative -/
def readSign : List Char → Bool × List Char
  | '-' :: cs => (true, cs)
  | '+' :: cs => (false, cs)
  | cs => (false, cs)

/-- `atoi` -/
def atoiModel (s : List Char) : Int :=
  let s := s.dropWhile isSpaceC
  let (neg, s) := readSign s
  let (v, _, _) := readDigits s 0 0
  if neg then -(v : Int) else (v : Int)

def pow10 (e : Int) : Rat :=
  if e ≥ 0 then ((10 ^ e.toNat : Nat) : Rat) else 1 / ((10 ^ (-e).toNat : Nat) : Rat)

/-- `atof` = `strtod(s, NULL)` restricted to decimal input -/
def atofModel (s : List Char) : Rat :=
  let s := s.dropWhile isSpaceC
  let (neg, s) := readSign s
  let (ip, ki, s1) := readDigits s 0 0
  let (m, kf, s2, kall) :=
    match s1 with
    | '.' :: t =>
      let (m, kf, s2) := readDigits t ip 0
      (m, kf, s2, ki + kf)
    | _ => (ip, 0, s1, ki)
  if kall = 0 then 0
  else
    let e : Int :=
      match s2 with
      | c :: t =>
        if c = 'e' || c = 'E' then
          let (eneg, t) := readSign t
          let (ev, ke, _) := readDigits t 0 0
          if ke = 0 then 0 else if eneg then -(ev : Int) else (ev : Int)
        else 0
      | [] => 0
    let r := (m : Rat) * pow10 (e - kf)
    if neg then -r else r

/-- round to nearest, ties to even (`r ≥ 0`) -/
def roundHalfEven (r : Rat) : Nat :=
  let fl := r.floor
  let frac := r - (fl : Rat)
  let n := if frac < 1/2 then fl else if frac > 1/2 then fl + 1 else if fl % 2 = 0 then fl else fl + 1
  n.toNat

def stripTrailingZeros (l : List Char) : List Char :=
  (l.reverse.dropWhile (· = '0')).reverse

/-- six digits of `n < 10^6`, leading zeros kept -/
def sixDigits (n : Nat) : List Char :=
  let d := natDigits n
  List.replicate (6 - d.length) '0' ++ d

/-- `sprintf("%g", x)` -/
def fmtGModel (x : Rat) : List Char :=
  if x = 0 then ['0']
  else
    let neg := x < 0
    let a := if neg then -x else x
    let dp := (natDigits a.num.natAbs).length
    let dq := (natDigits a.den).length
    let x0 : Int := (dp : Int) - (dq : Int)
    let X : Int := if a ≥ pow10 x0 then x0 else x0 - 1
    let n0 := roundHalfEven (a * pow10 (5 - X))
    let (n, X) := if n0 ≥ 1000000 then (100000, X + 1) else (n0, X)
    let ds := sixDigits n
    let body : List Char :=
      if X < -4 || X ≥ 6 then
        let st := stripTrailingZeros ds
        let mant := match st with
          | [] => ['0']
          | [d] => [d]
          | d :: rest => d :: '.' :: rest
        let ea := X.natAbs
        let ed := natDigits ea
        mant ++ ['e', if X < 0 then '-' else '+'] ++ (if ea < 10 then '0' :: ed else ed)
      else if X ≥ 0 then
        let ip := ds.take (X.toNat + 1)
        let fp := stripTrailingZeros (ds.drop (X.toNat + 1))
        if fp.isEmpty then ip else ip ++ '.' :: fp
      else
        '0' :: '.' :: List.replicate ((-X).toNat - 1) '0' ++ stripTrailingZeros ds
    if neg then '-' :: body else body

/-- the executable codec used by the driver -/
def NumCodec.model : NumCodec := ⟨fmtGModel, fmtIModel, atofModel, atoiModel⟩

/-! ## Line protocol -/

def parseNatLim (lim : Nat) (s : List Char) : Option Nat :=
  if s.isEmpty || s.length > lim then none
  else
    let (v, k, rest) := readDigits s 0 0
    if k = s.length && rest.isEmpty then some v else none

def parseIntLim (lim : Nat) (s : List Char) : Option Int :=
  match s with
  | '-' :: t => (parseNatLim lim t).map fun n => -(n : Int)
  | _ => (parseNatLim lim s).map fun n => (n : Int)

def splitOnCharAux (c : Char) : List Char → List Char → List (List Char)
  | [], cur => [cur.reverse]
  | x :: xs, cur =>
    if x = c then cur.reverse :: splitOnCharAux c xs [] else splitOnCharAux c xs (x :: cur)

def splitOnChar (c : Char) (s : List Char) : List (List Char) := splitOnCharAux c s []

/-- `p` or `p/q`, at most 15 digits each, `q > 0` -/
def parseRatLim (s : List Char) : Option Rat :=
  match splitOnChar '/' s with
  | [p] => (parseIntLim 15 p).map fun i => (i : Rat)
  | [p, q] =>
    match parseIntLim 15 p, parseNatLim 15 q with
    | some i, some n => if n = 0 then none else some ((i : Rat) / (n : Rat))
    | _, _ => none
  | _ => none

def parseP3 : List (List Char) → Option P3
  | [a, b, c] =>
    match parseRatLim a, parseRatLim b, parseRatLim c with
    | some x, some y, some z => some ⟨x, y, z⟩
    | _, _, _ => none
  | _ => none

def parseT9 (l : List (List Char)) : Option T9 :=
  if l.length = 9 then
    match parseP3 (l.take 3), parseP3 ((l.drop 3).take 3), parseP3 (l.drop 6) with
    | some a, some b, some c => some ⟨a, b, c⟩
    | _, _, _ => none
  else none

def stripPrefix (p : List Char) (s : List Char) : Option (List Char) :=
  if p.isPrefixOf s then some (s.drop p.length) else none

/-- a value word; `payload` is the bracket payload of the line, if any -/
def parseVal (w : List Char) (payload : Option (List Char)) : Option Val :=
  match stripPrefix "int:".toList w with
  | some r => (parseIntLim 9 r).map .int
  | none =>
  match stripPrefix "dbl:".toList w with
  | some r => (parseRatLim r).map .dbl
  | none =>
  match stripPrefix "ipt:".toList w with
  | some r =>
    match (splitOnChar ',' r).map (parseIntLim 9) with
    | [some a, some b, some c] => some (.ipt a b c)
    | _ => none
  | none =>
  match stripPrefix "pt:".toList w with
  | some r => (parseP3 (splitOnChar ',' r)).map .pt
  | none =>
  match stripPrefix "tens:".toList w with
  | some r => (parseT9 (splitOnChar ',' r)).map .tens
  | none =>
    if w = "str:".toList then payload.map fun p => .str (some p) else none

def parseElem (w : List Char) : Option Elem :=
  match parseVal w none with
  | some (.int n) => some (.int n)
  | some (.dbl x) => some (.dbl x)
  | some (.pt p) => some (.pt p)
  | some (.tens t) => some (.tens t)
  | _ => none

/-- head words and bracket payload of a line -/
def splitLine (line : List Char) : Option (List (List Char) × Option (List Char)) :=
  match splitAtChar '[' line with
  | none => some ((splitOnChar ' ' line).filter (· ≠ []), none)
  | some (head, rest) =>
    -- text up to the last ']' ; only blanks may follow it
    let rrev := rest.reverse.dropWhile (fun c => c = ' ' || c = '\r')
    match rrev with
    | ']' :: prev => some ((splitOnChar ' ' head).filter (· ≠ []), some prev.reverse)
    | _ => none

def parseBool : List Char → Option Bool
  | ['0'] => some false
  | ['1'] => some true
  | _ => none

def parseId (w : List Char) : Option Nat := parseNatLim 9 w

def parseAddArgs (name ty pers sym : List Char) : Option (String × DType × Bool × String) :=
  match DType.ofName? (String.ofList ty), parseBool pers with
  | some t, some p =>
    some (String.ofList name, t, p, if sym = ['-'] then "" else String.ofList sym)
  | _, _ => none

/-- characters admitted in the text of `fromstr` for the numeric types -/
def numTextChar (c : Char) : Bool :=
  ('0' ≤ c && c ≤ '9') || "+-.eE(), tnsor".toList.contains c

def parseOp (ws : List (List Char)) (payload : Option (List Char)) : Option Op :=
  let w := ws.map String.ofList
  match w, ws, payload with
  | ["fmt"], _, none => some .fmt
  | ["fmtcopy", _], [_, f], none => (parseId f).map .fmtcopy
  | ["fadd", _, _, _, _, _], [_, f, n, t, p, sy], none =>
    match parseId f, parseAddArgs n t p sy with
    | some f, some (n, t, p, sy) => some (.fadd f n t p sy)
    | _, _ => none
  | ["dadd", _, _, _, _, _], [_, d, n, t, p, sy], none =>
    match parseId d, parseAddArgs n t p sy with
    | some d, some (n, t, p, sy) => some (.dadd d n t p sy)
    | _, _ => none
  | ["layout", _], [_, f], none => (parseId f).map .layout
  | ["new", _], [_, f], none => (parseId f).map .new
  | ["new0"], _, none => some .new0
  | ["copy", _], [_, e], none => (parseId e).map .copy
  | ["assign", _, _], [_, d, e], none =>
    match parseId d, parseId e with
    | some d, some e => some (.assign d e)
    | _, _ => none
  | ["del", _], [_, d], none => (parseId d).map .del
  | ["setfmt", _, _], [_, d, f], none =>
    match parseId d, parseId f with
    | some d, some f => some (.setfmt d f)
    | _, _ => none
  | ["release", _], [_, d], none => (parseId d).map .release
  | ["realloc", _], [_, d], none => (parseId d).map .realloc
  | ["clear", _], [_, d], none => (parseId d).map .clear
  | ["clearall", _], [_, d], none => (parseId d).map .clearall
  | ["protect", _, _], [_, d, i], none =>
    match parseId d, parseId i with
    | some d, some i => some (.protect d i)
    | _, _ => none
  | ["unprotect", _, _], [_, d, i], none =>
    match parseId d, parseId i with
    | some d, some i => some (.unprotect d i)
    | _, _ => none
  | ["set", _, _, _], [_, d, i, v], pl =>
    match parseId d, parseId i, parseVal v pl with
    | some d, some i, some v =>
      -- a payload is only admitted together with `str:`
      if pl.isSome && v.isLiveStr = false then none else some (.set d i v)
    | _, _, _ => none
  | ["get", _, _], [_, d, i], none =>
    match parseId d, parseId i with
    | some d, some i => some (.get d i)
    | _, _ => none
  | ["push", _, _, _], [_, d, i, e], none =>
    match parseId d, parseId i, parseElem e with
    | some d, some i, some e => some (.push d i e)
    | _, _, _ => none
  | ["rc", _, _], [_, d, i], none =>
    match parseId d, parseId i with
    | some d, some i => some (.rc d i)
    | _, _ => none
  | ["dump", _], [_, d], none => (parseId d).map .dump
  | ["tostr", _, _], [_, d, i], none =>
    match parseId d, parseId i with
    | some d, some i => some (.tostr d i)
    | _, _ => none
  | ["leakcheck"], _, none => some .leakcheck
  | ["fromstr", _, _], [_, d, i], some text =>
    match parseId d, parseId i with
    | some d, some i => some (.fromstr d i text)
    | _, _ => none
  | _, _, _ => none

/-! ### Printing -/

def showBool (b : Bool) : String := if b then "1" else "0"

def showP3 (p : P3) : String := showRat p.x ++ "," ++ showRat p.y ++ "," ++ showRat p.z

def showT9 (t : T9) : String := showP3 t.a ++ "," ++ showP3 t.b ++ "," ++ showP3 t.c

def showElem : Elem → String
  | .int n => "int:" ++ toString n
  | .dbl x => "dbl:" ++ showRat x
  | .pt p => "pt:" ++ showP3 p
  | .tens t => "tens:" ++ showT9 t

def showRVal : RVal → String
  | .int n => "int:" ++ toString n
  | .dbl x => "dbl:" ++ showRat x
  | .ipt a b c => "ipt:" ++ toString a ++ "," ++ toString b ++ "," ++ toString c
  | .pt p => "pt:" ++ showP3 p
  | .tens t => "tens:" ++ showT9 t
  | .str s => "str:[" ++ String.ofList s ++ "]"
  | .vec l => "vec:{" ++ ";".intercalate (l.map showElem) ++ "}"

def showAttr (a : Attr) : String :=
  a.name ++ " " ++ toString a.index ++ " " ++ toString a.offset ++ " " ++ a.dtype.name ++ " "
    ++ showBool a.persistent ++ " " ++ a.symbol

def showLayout (f : Format) : String :=
  "layout size=" ++ toString f.size ++ " rows=" ++ toString f.byIndex.length ++
    String.join (f.byIndex.map fun a =>
      " | " ++ a.name ++ " " ++ toString a.index ++ " " ++ toString a.offset ++ " " ++ a.dtype.name
        ++ " " ++ showBool a.persistent ++ " "
        ++ (match f.find a.name with | some b => showBool b.persistent | none => "?")
        ++ " " ++ a.symbol)

def showDumpEntry : DumpEntry → String
  | .val r => showRVal r
  | .vnull => "vnull"
  | .stale => "stale"
  | .misaligned => "misaligned"

def showOut : Out → String
  | .ok => "ok"
  | .fmt id => "fmt " ++ toString id
  | .data id => "data " ++ toString id
  | .attr a => "attr " ++ showAttr a
  | .layout f => showLayout f
  | .val r => "val " ++ showRVal r
  | .rc n => "rc " ++ (match n with | some k => toString k | none => "null")
  | .dumpNoFmt => "dump nofmt"
  | .dumpNull => "dump null"
  | .dump l => "dump " ++ " ; ".intercalate (l.map showDumpEntry)
  | .str s => "str [" ++ String.ofList s ++ "]"
  | .lsan b => "lsan leaks=" ++ showBool b

/-- protocol-level admission of an operation (mirrored by the harness) -/
def admissible (s : State) : Op → Bool
  | .fromstr d i text =>
    -- numeric text is restricted to an alphabet without hex / inf / nan
    match s.attrAt d i with
    | .ok l => l.attr.dtype = .STRING || text.all numTextChar
    | .error _ => true
  | _ => true

def parseAlign : List Char → Option (Option Nat)
  | ['n', 'o', 'n', 'e'] => some none
  | w => (parseNatLim 2 w).map some

/-- state of the driver: `none` = no case open / case ended by undefined behaviour -/
def driverLoop : Option (Option Nat × State) → List String → List String → List String
  | _, [], acc => acc.reverse
  | cur, line :: rest, acc =>
    match splitLine line.toList with
    | none => if cur.isSome then driverLoop cur rest ("err:parse" :: acc) else driverLoop cur rest acc
    | some ([], none) => driverLoop cur rest acc
    | some (ws, payload) =>
      match ws.map String.ofList, ws, payload with
      | ["case", _, "align", _], [_, id, _, a], none =>
        match parseAlign a with
        | some al => driverLoop (some (al, State.init)) rest (("case " ++ String.ofList id) :: acc)
        | none => driverLoop none rest (("case " ++ String.ofList id ++ " err:parse") :: acc)
      | _, _, _ =>
        match cur with
        | none => driverLoop cur rest acc
        | some (al, s) =>
          match parseOp ws payload with
          | none => driverLoop cur rest ("err:parse" :: acc)
          | some op =>
            if !admissible s op then driverLoop cur rest ("err:text" :: acc)
            else
              match step al NumCodec.model s op with
              | .ok (s', o) => driverLoop (some (al, s')) rest (showOut o :: acc)
              | .error e =>
                if e.isUB then driverLoop none rest (e.toString :: acc)
                else driverLoop cur rest (e.toString :: acc)

def driver (lines : List String) : List String := driverLoop none lines []

end Sympler.DataFormat
