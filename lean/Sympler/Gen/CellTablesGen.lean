/- GENERATED (expected output of the table translator T1; written by hand in this round, regular shape)
   from /repo/source/include/basic/cell.h, /repo/source/src/basic/cell.cpp,
   /repo/source/include/basic/manager_cell.h.
   Do not edit: to be rewritten on every check run. -/
namespace Sympler.Gen.CellTables

/-- `#define NUM_NEIGHBORS 26`  (include/basic/cell.h:57) -/
def numNeighbors : Nat := 26

/-- `const int_point_t Cell::c_offsets[NUM_NEIGHBORS]`  (src/basic/cell.cpp:56-63), in array order -/
def offsets : List (Int × Int × Int) := [
  (-1,-1,-1), (-1,-1, 0), (-1,-1, 1), (-1, 0,-1), (-1, 0, 0), (-1, 0, 1),
  (-1, 1,-1), (-1, 1, 0), (-1, 1, 1),
  ( 0,-1,-1), ( 0,-1, 0), ( 0,-1, 1), ( 0, 0,-1), ( 0, 0, 1),
  ( 0, 1,-1), ( 0, 1, 0), ( 0, 1, 1),
  ( 1,-1,-1), ( 1,-1, 0), ( 1,-1, 1), ( 1, 0,-1), ( 1, 0, 0), ( 1, 0, 1),
  ( 1, 1,-1), ( 1, 1, 0), ( 1, 1, 1)]

/-- `#define INV_NEIGHBOR(n)   NUM_NEIGHBORS-n-1`  (include/basic/cell.h:60); C `int` arithmetic -/
def invNeighbor (n : Int) : Int := (numNeighbors : Int) - n - 1

/-- `#define OFFSET2NEIGHBOR(off, n) n = (off[0]+1)*9 + (off[1]+1)*3 + (off[2]+1); if (n > NUM_NEIGHBORS/2) n--;`
(include/basic/cell.h:62-66); C `int` arithmetic, `NUM_NEIGHBORS/2` is the integer quotient -/
def offset2neighbor (off : Int × Int × Int) : Int :=
  let n := (off.1 + 1) * 9 + (off.2.1 + 1) * 3 + (off.2.2 + 1)
  if n > ((numNeighbors / 2 : Nat) : Int) then n - 1 else n

/-- `#define TOCELLINDEX(p, n)  ((p.z * n.y) + p.y) * n.x + p.x`  (include/basic/manager_cell.h:76);
arguments are `(x, y, z)` triples -/
def toCellIndex (p n : Int × Int × Int) : Int :=
  ((p.2.2 * n.2.1) + p.2.1) * n.1 + p.1

/-! Numeric kernels (expected output of the kernel translator T2; `double` ↦ `Rat`). -/

/-- `cellDist` (src/basic/cell.cpp:126-133), one direction:
`if (off[s] == 1) dist[s] = width1[s]; else if (off[s] == -1) dist[s] = -width2[s]; else dist[s] = 0;` -/
def cellDistComponent (off : Int) (width1 width2 : Rat) : Rat :=
  if off = 1 then width1 else if off = -1 then -width2 else 0

/-- `addPair` (include/basic/cell.h:739-741), one direction:
`d.cartesian[_i] = -dir*cell_dist[_i] + first_p->r[_i] - first_c->corner1[_i] - second_p->r[_i] + second_c->corner1[_i];` -/
def addPairComponent (dir : Int) (cell_dist r1 corner1_1 r2 corner1_2 : Rat) : Rat :=
  -(dir : Rat) * cell_dist + r1 - corner1_1 - r2 + corner1_2

/-- `Cell::checkNewPosition` (src/basic/cell.cpp:845-848), one direction:
`if (p->r[j] < corner1[j]) off[j] = -1; else if (p->r[j] >= corner2[j]) off[j] = 1;` (`off` starts as 0) -/
def offComponent (r corner1 corner2 : Rat) : Int :=
  if r < corner1 then -1 else if r ≥ corner2 then 1 else 0

/-- `Cell::checkNewPosition` (src/basic/cell.cpp:869), one direction:
`new_p->r = old_r + (*c)->corner1 - corner1 - dist;` -/
def wrapComponent (old_r target_corner1 corner1 dist : Rat) : Rat :=
  old_r + target_corner1 - corner1 - dist

end Sympler.Gen.CellTables
