namespace Sympler.Gen.FuncCompile
/-- does the temporary file name contain the process id? (extracted from function_compiler.cpp) -/
def nameUsesPid : Bool := true
/-- atomic steps of compile()+setParserAndCompile() in source order -/
def stepOrder : List String := ["probe", "openC", "writeC", "gcc", "rmC", "dlopen", "rmSo"]
end Sympler.Gen.FuncCompile
