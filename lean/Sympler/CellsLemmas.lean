import Sympler.Cells
import Sympler.GridLemmas

/-!
Lemmas about the dynamic cell model (`Sympler/Cells.lean`): the intrusive doubly linked lists
represent duplicate-free lists (`DLL.Repr`), link counters and active-link list (`LinkInv`),
`Cell::activate/deactivate` (`ActInv`), and the bookkeeping invariant of the whole state machine
(`Inv`).  The property theorems of C09 (`Props/C09.lean`) are assembled from these.  Core Lean only.
-/
namespace Sympler.Cells
open Sympler Sympler.Grid Sympler.Gen.CellTables

namespace DLL

/-- `d` represents the list `l` (iteration order from `first`) -/
structure Repr (d : DLL) (l : List Nat) : Prop where
  nodup : l.Nodup
  first : d.first = l[0]?
  link : ∀ i x, l[i]? = some x →
    d.next.get x = l[i+1]? ∧ d.prev.get x = (if i = 0 then none else l[i-1]?)
  out : ∀ x, x ∉ l → d.next.get x = none ∧ d.prev.get x = none
  count : d.count = l.length

theorem idx_inj {l : List Nat} (hn : l.Nodup) {a b x : Nat} (ha : l[a]? = some x) (hb : l[b]? = some x) :
    a = b := by
  obtain ⟨h1, e1⟩ := List.getElem?_eq_some_iff.mp ha
  obtain ⟨h2, e2⟩ := List.getElem?_eq_some_iff.mp hb
  exact (List.getElem_inj hn).mp (e1.trans e2.symm)

theorem erase_eq_eraseIdx {l : List Nat} (hn : l.Nodup) {i c : Nat} (h : l[i]? = some c) :
    l.erase c = l.eraseIdx i := by
  induction l generalizing i with
  | nil => simp at h
  | cons y r ih =>
    cases i with
    | zero => simp at h; subst h; simp
    | succ j =>
      simp at h
      have hy : y ∉ r := (List.nodup_cons.mp hn).1
      have : y ≠ c := fun e => hy (e ▸ List.mem_of_getElem? h)
      rw [List.erase_cons_tail (by simpa using this)]
      simp [ih (List.nodup_cons.mp hn).2 h]

theorem repr_empty : Repr DLL.empty [] := by
  constructor <;> simp [DLL.empty]

theorem repr_pushFront {d : DLL} {l : List Nat} (h : Repr d l) {c : Nat} (hc : c ∉ l) :
    Repr (d.pushFront c) (c :: l) := by
  obtain ⟨hn, hf, hl, ho, hcnt⟩ := h
  constructor
  · exact List.nodup_cons.mpr ⟨hc, hn⟩
  · simp [pushFront]
  · intro i x hi
    cases i with
    | zero =>
      simp at hi; subst hi
      simp only [pushFront, Store.get_set_self]
      simp [hf]
    | succ j =>
      simp only [List.getElem?_cons_succ] at hi
      have hx : x ∈ l := List.mem_of_getElem? hi
      have hxc : x ≠ c := fun e => hc (e ▸ hx)
      obtain ⟨h1, h2⟩ := hl j x hi
      simp only [pushFront]
      rw [Store.get_set_ne _ _ hxc, Store.get_set_ne _ _ hxc]
      refine ⟨by simpa using h1, ?_⟩
      cases hfd : d.first with
      | none =>
        rw [hfd] at hf
        have : l = [] := by
          cases l with
          | nil => rfl
          | cons a b => simp at hf
        subst this; simp at hi
      | some f =>
        simp only
        rw [hfd] at hf
        rw [Store.get_set]
        by_cases hxf : x = f
        · subst hxf
          have : j = 0 := idx_inj hn hi hf.symm
          subst this; simp
        · simp only [hxf, if_false, h2]
          have hj : j ≠ 0 := by
            intro e; subst e; rw [hi] at hf; simp at hf; exact hxf hf.symm
          obtain ⟨j', rfl⟩ : ∃ j', j = j' + 1 := ⟨j - 1, by omega⟩
          simp
  · intro x hx
    simp only [List.mem_cons, not_or] at hx
    obtain ⟨o1, o2⟩ := ho x hx.2
    simp only [pushFront]
    rw [Store.get_set_ne _ _ hx.1, Store.get_set_ne _ _ hx.1]
    refine ⟨o1, ?_⟩
    cases hfd : d.first with
    | none => simpa using o2
    | some f =>
      simp only
      rw [hfd] at hf
      have hfl : f ∈ l := List.mem_of_getElem? hf.symm
      have : x ≠ f := fun e => hx.2 (e ▸ hfl)
      rw [Store.get_set_ne _ _ this]; exact o2
  · simp [pushFront, hcnt]

theorem repr_remove {d : DLL} {l : List Nat} (h : Repr d l) {c : Nat} (hc : c ∈ l) :
    Repr (d.remove c) (l.erase c) := by
  obtain ⟨hn, hf, hl, ho, hcnt⟩ := h
  obtain ⟨i, hi⟩ := List.getElem?_of_mem hc
  rw [erase_eq_eraseIdx hn hi]
  obtain ⟨hcn, hcp⟩ := hl i c hi
  have hilt : i < l.length := (List.getElem?_eq_some_iff.mp hi).1
  constructor
  · exact List.Nodup.eraseIdx i hn   -- nodup
  · -- first
    simp only [remove, List.getElem?_eraseIdx]
    rw [hcp, hcn]
    by_cases h0 : i = 0
    · subst h0; simp
    · have : ∃ y, l[i-1]? = some y := by
        have : i - 1 < l.length := by omega
        exact ⟨l[i-1], List.getElem?_eq_getElem this⟩
      obtain ⟨y, hy⟩ := this
      simp [h0, hy, hf]
  · -- link
    intro j x hj
    rw [List.getElem?_eraseIdx] at hj
    have hxc : x ≠ c := by
      intro e; subst e
      split at hj
      · have := idx_inj hn hj hi; omega
      · have := idx_inj hn hj hi; omega
    simp only [remove]
    rw [Store.get_set_ne _ _ hxc, Store.get_set_ne _ _ hxc]
    rw [hcn, hcp]
    -- position of `x` in `l`
    obtain ⟨j', hj', hjx⟩ : ∃ j', j' = (if j < i then j else j + 1) ∧ l[j']? = some x := by
      refine ⟨_, rfl, ?_⟩
      split <;> simp_all
    obtain ⟨hxn, hxp⟩ := hl j' x hjx
    have hne : j' ≠ i := fun e => hxc (by rw [e, hi] at hjx; exact (Option.some.inj hjx).symm)
    constructor
    · -- next
      rw [List.getElem?_eraseIdx]
      by_cases h0 : i = 0
      · subst h0
        simp only [if_true]
        rw [hxn]
        have : j' = j + 1 := by simpa using hj'
        subst this; simp
      · simp only [h0, if_false]
        obtain ⟨y, hy⟩ : ∃ y, l[i-1]? = some y :=
          ⟨l[i-1]'(by omega), List.getElem?_eq_getElem (by omega)⟩
        rw [hy]
        simp only
        rw [Store.get_set]
        by_cases hxy : x = y
        · subst hxy
          have : j' = i - 1 := idx_inj hn hjx hy
          have hji : j = i - 1 := by
            split at hj' <;> omega
          have : ¬ (j + 1 < i) := by omega
          simp only [this, if_false, if_true]
          congr 1; omega
        · simp only [hxy, if_false, hxn]
          have : j' ≠ i - 1 := fun e => hxy (by rw [e, hy] at hjx; exact (Option.some.inj hjx).symm)
          split at hj'
          · have : j + 1 < i := by omega
            simp only [this, if_true]; rw [hj']
          · have : ¬ (j + 1 < i) := by omega
            simp only [this, if_false]; rw [hj']
    · -- prev
      by_cases hlast : i + 1 < l.length
      · obtain ⟨y, hy⟩ : ∃ y, l[i+1]? = some y :=
          ⟨l[i+1]'hlast, List.getElem?_eq_getElem hlast⟩
        rw [hy]
        simp only
        rw [Store.get_set]
        by_cases hxy : x = y
        · subst hxy
          have : j' = i + 1 := idx_inj hn hjx hy
          have hji : j = i := by
            split at hj' <;> omega
          rw [hji]
          by_cases h0 : i = 0
          · simp [h0]
          · simp only [h0, if_false]
            rw [List.getElem?_eraseIdx]
            have : i - 1 < i := by omega
            simp [this]
        · simp only [hxy, if_false, hxp]
          have hne2 : j' ≠ i + 1 := fun e => hxy (by rw [e, hy] at hjx; exact (Option.some.inj hjx).symm)
          split at hj'
          · rw [hj']
            by_cases h0 : j = 0
            · simp [h0]
            · simp only [h0, if_false]
              rw [List.getElem?_eraseIdx]
              have : j - 1 < i := by omega
              simp [this]
          · have hj0 : j' ≠ 0 := by omega
            simp only [hj0, if_false]
            by_cases h0 : j = 0
            · omega
            · simp only [h0, if_false]
              rw [List.getElem?_eraseIdx]
              have : ¬ (j - 1 < i) := by omega
              simp only [this, if_false]
              congr 1; omega
      · have hnone : l[i+1]? = none := by simp; omega
        rw [hnone]
        simp only [hxp]
        have hjlt : j' < l.length := (List.getElem?_eq_some_iff.mp hjx).1
        have hji : j < i := by
          split at hj' <;> omega
        simp only [hji, if_true] at hj'
        rw [hj']
        by_cases h0 : j = 0
        · simp [h0]
        · simp only [h0, if_false]
          rw [List.getElem?_eraseIdx]
          have : j - 1 < i := by omega
          simp [this]
  · -- out
    intro x hx
    simp only [remove]
    by_cases hxc : x = c
    · subst hxc; simp
    · rw [Store.get_set_ne _ _ hxc, Store.get_set_ne _ _ hxc]
      have hxl : x ∉ l := by
        intro hm
        obtain ⟨k, hk⟩ := List.getElem?_of_mem hm
        apply hx
        have hki : k ≠ i := fun e => hxc (by rw [e, hi] at hk; exact (Option.some.inj hk).symm)
        by_cases hlt : k < i
        · exact List.mem_of_getElem? (i := k) (by rw [List.getElem?_eraseIdx]; simpa [hlt] using hk)
        · refine List.mem_of_getElem? (i := k - 1) ?_
          rw [List.getElem?_eraseIdx]
          have : ¬ (k - 1 < i) := by omega
          simp only [this, if_false]
          rw [← hk]; congr 1; omega
      obtain ⟨o1, o2⟩ := ho x hxl
      rw [hcn, hcp]
      constructor
      · by_cases h0 : i = 0
        · simp [h0, o1]
        · simp only [h0, if_false]
          obtain ⟨y, hy⟩ : ∃ y, l[i-1]? = some y :=
            ⟨l[i-1]'(by omega), List.getElem?_eq_getElem (by omega)⟩
          rw [hy]
          simp only
          have : x ≠ y := fun e => hxl (e ▸ List.mem_of_getElem? hy)
          rw [Store.get_set_ne _ _ this]; exact o1
      · cases hy : l[i+1]? with
        | none => simpa using o2
        | some y =>
          simp only
          have : x ≠ y := fun e => hxl (e ▸ List.mem_of_getElem? hy)
          rw [Store.get_set_ne _ _ this]; exact o2
  · simp [remove, hcnt, List.length_eraseIdx, hilt]

theorem repr_next_split {d : DLL} {P S : List Nat} {c : Nat} (h : Repr d (P ++ c :: S)) :
    d.next.get c = S.head? := by
  have := (h.link P.length c (by simp)).1
  rw [this]
  simp [List.getElem?_append_right, List.head?_eq_getElem?]

theorem walk_suffix {d : DLL} {l : List Nat} (h : Repr d l) :
    ∀ (S P : List Nat), l = P ++ S → DLL.walk d.next S.length S.head? = S := by
  intro S
  induction S with
  | nil => intro P _; simp [DLL.walk]
  | cons c S ih =>
    intro P hl
    subst hl
    simp only [List.length_cons, List.head?_cons, DLL.walk]
    rw [repr_next_split h]
    rw [ih (P ++ [c]) (by simp)]

theorem repr_toList {d : DLL} {l : List Nat} (h : Repr d l) : d.toList = l := by
  unfold DLL.toList
  rw [h.count, h.first]
  have := walk_suffix h l [] rfl
  rwa [List.head?_eq_getElem?] at this

theorem repr_unique {d : DLL} {l l' : List Nat} (h : Repr d l) (h' : Repr d l') : l = l' := by
  rw [← repr_toList h, ← repr_toList h']

end DLL

/-! ### link counters and the active-link list -/

/-- the active-link list holds exactly the links whose counter is 2 -/
structure LinkInv (a : ActSt) (LL : List Nat) : Prop where
  ll : a.ll.Repr LL
  iff : ∀ l, l ∈ LL ↔ a.lcnt.get l = 2

theorem cellActivated_ok {a : ActSt} {LL : List Nat} (h : LinkInv a LL) {l : Nat}
    (h0 : 0 ≤ a.lcnt.get l) (h2 : a.lcnt.get l + 1 ≤ 2) :
    ∃ a' LL', cellActivated a l = .ok a' ∧ LinkInv a' LL' ∧ a'.cl = a.cl ∧
      ∀ x, a'.lcnt.get x = a.lcnt.get x + (if x = l then 1 else 0) := by
  unfold cellActivated
  have hc : 0 ≤ a.lcnt.get l + 1 ∧ a.lcnt.get l + 1 ≤ 2 := ⟨by omega, h2⟩
  simp only [hc, and_self, if_true]
  by_cases h1 : a.lcnt.get l + 1 = 2
  · simp only [h1, if_true]
    have hnot : l ∉ LL := by
      intro hm; have := (h.iff l).mp hm; omega
    refine ⟨_, l :: LL, rfl, ⟨DLL.repr_pushFront h.ll hnot, ?_⟩, rfl, ?_⟩
    · intro x
      simp only [List.mem_cons, Store.get_set]
      by_cases hx : x = l
      · simp [hx]
      · simp [hx, h.iff x]
    · intro x
      simp only [Store.get_set]
      by_cases hx : x = l
      · simp [hx, h1]
      · simp [hx]
  · simp only [h1, if_false]
    refine ⟨_, LL, rfl, ⟨h.ll, ?_⟩, rfl, ?_⟩
    · intro x
      simp only [Store.get_set]
      by_cases hx : x = l
      · subst hx
        simp only [if_true, h1, iff_false]
        intro hm; have := (h.iff x).mp hm; omega
      · simp [hx, h.iff x]
    · intro x
      simp only [Store.get_set]
      by_cases hx : x = l
      · simp [hx]
      · simp [hx]

theorem cellDeactivated_ok {a : ActSt} {LL : List Nat} (h : LinkInv a LL) {l : Nat}
    (h0 : 1 ≤ a.lcnt.get l) (h2 : a.lcnt.get l ≤ 2) :
    ∃ a' LL', cellDeactivated a l = .ok a' ∧ LinkInv a' LL' ∧ a'.cl = a.cl ∧
      ∀ x, a'.lcnt.get x = a.lcnt.get x - (if x = l then 1 else 0) := by
  unfold cellDeactivated
  have hc : 0 ≤ a.lcnt.get l - 1 ∧ a.lcnt.get l - 1 ≤ 2 := ⟨by omega, by omega⟩
  simp only [hc, and_self, if_true]
  by_cases h1 : a.lcnt.get l - 1 = 1
  · simp only [h1, if_true]
    have hin : l ∈ LL := (h.iff l).mpr (by omega)
    refine ⟨_, LL.erase l, rfl, ⟨DLL.repr_remove h.ll hin, ?_⟩, rfl, ?_⟩
    · intro x
      rw [List.Nodup.mem_erase_iff h.ll.nodup]
      simp only [Store.get_set]
      by_cases hx : x = l
      · simp [hx]
      · simp [hx, h.iff x]
    · intro x
      simp only [Store.get_set]
      by_cases hx : x = l
      · simp [hx, h1]
      · simp [hx]
  · simp only [h1, if_false]
    refine ⟨_, LL, rfl, ⟨h.ll, ?_⟩, rfl, ?_⟩
    · intro x
      simp only [Store.get_set]
      by_cases hx : x = l
      · subst hx
        have : a.lcnt.get x ≠ 2 := by omega
        simp only [if_true, (h.iff x)]
        constructor
        · intro hm; omega
        · intro hm; omega
      · simp [hx, h.iff x]
    · intro x
      simp only [Store.get_set]
      by_cases hx : x = l
      · simp [hx]
      · simp [hx]

/-- a whole notification list of `cellActivated`: no `abort()` as long as no counter is pushed above 2 -/
theorem notifyAll_activated_ok : ∀ (ns : List Nat) {a : ActSt} {LL : List Nat}, LinkInv a LL →
    (∀ x, 0 ≤ a.lcnt.get x) → (∀ x, a.lcnt.get x + (ns.count x : Int) ≤ 2) →
    ∃ a' LL', notifyAll cellActivated ns a = .ok a' ∧ LinkInv a' LL' ∧ a'.cl = a.cl ∧
      ∀ x, a'.lcnt.get x = a.lcnt.get x + (ns.count x : Int) := by
  intro ns
  induction ns with
  | nil => intro a LL h _ _; exact ⟨a, LL, rfl, h, rfl, by simp⟩
  | cons l ls ih =>
    intro a LL h h0 h2
    have hl := h2 l
    simp only [List.count_cons_self] at hl
    obtain ⟨a1, LL1, e1, inv1, cl1, c1⟩ := cellActivated_ok h (h0 l) (by omega)
    have h0' : ∀ x, 0 ≤ a1.lcnt.get x := by
      intro x; rw [c1 x]; have := h0 x; split <;> omega
    have h2' : ∀ x, a1.lcnt.get x + (ls.count x : Int) ≤ 2 := by
      intro x; rw [c1 x]; have := h2 x
      rw [List.count_cons] at this
      by_cases hx : x = l
      · subst hx; simp at this ⊢; omega
      · have hne : ¬ (l == x) = true := by simpa using fun e => hx e.symm
        simp [hx, hne] at this ⊢; omega
    obtain ⟨a2, LL2, e2, inv2, cl2, c2⟩ := ih inv1 h0' h2'
    refine ⟨a2, LL2, ?_, inv2, by rw [cl2, cl1], ?_⟩
    · simp only [notifyAll, e1, e2]
    · intro x
      rw [c2 x, c1 x, List.count_cons]
      by_cases hx : x = l
      · subst hx; simp; omega
      · have hne : ¬ (l == x) = true := by simpa using fun e => hx e.symm
        simp [hx, hne]

/-- a whole notification list of `cellDeactivated`: no `abort()` as long as no counter is pushed below 0 -/
theorem notifyAll_deactivated_ok : ∀ (ns : List Nat) {a : ActSt} {LL : List Nat}, LinkInv a LL →
    (∀ x, a.lcnt.get x ≤ 2) → (∀ x, (ns.count x : Int) ≤ a.lcnt.get x) →
    ∃ a' LL', notifyAll cellDeactivated ns a = .ok a' ∧ LinkInv a' LL' ∧ a'.cl = a.cl ∧
      ∀ x, a'.lcnt.get x = a.lcnt.get x - (ns.count x : Int) := by
  intro ns
  induction ns with
  | nil => intro a LL h _ _; exact ⟨a, LL, rfl, h, rfl, by simp⟩
  | cons l ls ih =>
    intro a LL h h2 h0
    have hl := h0 l
    simp only [List.count_cons_self] at hl
    obtain ⟨a1, LL1, e1, inv1, cl1, c1⟩ := cellDeactivated_ok h (l := l) (by omega) (h2 l)
    have h2' : ∀ x, a1.lcnt.get x ≤ 2 := by
      intro x; rw [c1 x]; have := h2 x; split <;> omega
    have h0' : ∀ x, (ls.count x : Int) ≤ a1.lcnt.get x := by
      intro x; rw [c1 x]; have := h0 x
      rw [List.count_cons] at this
      by_cases hx : x = l
      · subst hx; simp at this ⊢; omega
      · have hne : ¬ (l == x) = true := by simpa using fun e => hx e.symm
        simp [hx, hne] at this ⊢; omega
    obtain ⟨a2, LL2, e2, inv2, cl2, c2⟩ := ih inv1 h2' h0'
    refine ⟨a2, LL2, ?_, inv2, by rw [cl2, cl1], ?_⟩
    · simp only [notifyAll, e1, e2]
    · intro x
      rw [c2 x, c1 x, List.count_cons]
      by_cases hx : x = l
      · subst hx; simp; omega
      · have hne : ¬ (l == x) = true := by simpa using fun e => hx e.symm
        simp [hx, hne]

/-! ### `Cell::activate` / `Cell::deactivate` -/

/-- invariant of the activation state for the set (list) `L` of active cells: (3) the active-cell list
is well linked and represents `L`; (4) every link counter is the number of its active ends and the
active-link list holds exactly the links with counter 2 -/
structure ActInv (G : Grid.Grid) (a : ActSt) (L : List Nat) : Prop where
  cl : a.cl.Repr L
  lt : ∀ c ∈ L, c < G.cells.size
  cnt : ∀ l, a.lcnt.get l = if l < G.links.size then (activeEnds G L l : Int) else 0
  links : ∃ LL, LinkInv a LL

theorem actInv_init (G : Grid.Grid) : ActInv G ActSt.init [] := by
  refine ⟨DLL.repr_empty, by simp, ?_, [], DLL.repr_empty, ?_⟩
  · intro l; simp [ActSt.init, activeEnds]
  · intro l; simp [ActSt.init]

theorem activateA_ok {G : Grid.Grid} (hG : GridOK G) {a : ActSt} {L : List Nat} (h : ActInv G a L)
    {c : Nat} (hc : c ∉ L) (hlt : c < G.cells.size) :
    ∃ a', activateA G a c = .ok a' ∧ ActInv G a' (c :: L) := by
  obtain ⟨LL, hLL⟩ := h.links
  have hLL0 : LinkInv { a with cl := a.cl.pushFront c } LL := ⟨hLL.ll, hLL.iff⟩
  have hcount := hG.notify c hlt
  have hcons := activeEnds_cons G hc
  have hb : ∀ l, activeEnds G (c :: L) l ≤ 2 := by
    intro l; unfold activeEnds; split <;> split <;> omega
  obtain ⟨a', LL', e, inv', cl', c'⟩ := notifyAll_activated_ok (notifyList G c) hLL0
    (by intro x; show 0 ≤ a.lcnt.get x; rw [h.cnt x]; split <;> omega)
    (by
      intro x; show a.lcnt.get x + _ ≤ 2
      rw [h.cnt x, hcount x]
      have := hcons x; have := hb x
      split <;> omega)
  refine ⟨a', e, ⟨?_, ?_, ?_, LL', inv'⟩⟩
  · rw [cl']; exact DLL.repr_pushFront h.cl hc
  · intro x hx
    rcases List.mem_cons.mp hx with rfl | hx
    · exact hlt
    · exact h.lt x hx
  · intro l
    rw [c' l]; show a.lcnt.get l + _ = _
    rw [h.cnt l, hcount l, hcons l]
    split <;> simp

theorem deactivateA_ok {G : Grid.Grid} (hG : GridOK G) {a : ActSt} {L : List Nat} (h : ActInv G a L)
    {c : Nat} (hc : c ∈ L) :
    ∃ a', deactivateA G a c = .ok a' ∧ ActInv G a' (L.erase c) := by
  obtain ⟨LL, hLL⟩ := h.links
  have hlt := h.lt c hc
  have hLL0 : LinkInv { a with cl := a.cl.remove c } LL := ⟨hLL.ll, hLL.iff⟩
  have hcount := hG.notify c hlt
  have her := activeEnds_erase G h.cl.nodup hc
  have hb : ∀ l, activeEnds G L l ≤ 2 := by
    intro l; unfold activeEnds; split <;> split <;> omega
  obtain ⟨a', LL', e, inv', cl', c'⟩ := notifyAll_deactivated_ok (notifyList G c) hLL0
    (by intro x; show a.lcnt.get x ≤ 2; rw [h.cnt x]; have := hb x; split <;> omega)
    (by
      intro x; show _ ≤ a.lcnt.get x
      rw [h.cnt x, hcount x]
      have := her x
      split <;> omega)
  refine ⟨a', e, ⟨?_, ?_, ?_, LL', inv'⟩⟩
  · rw [cl']; exact DLL.repr_remove h.cl hc
  · intro x hx
    exact h.lt x (List.mem_of_mem_erase hx)
  · intro l
    rw [c' l]; show a.lcnt.get l - _ = _
    rw [h.cnt l, hcount l, her l]
    split <;> simp

/-! ### bookkeeping: `m_n_particles`, occupancy -/

theorem get_setAt {α : Type} (s : Store (Store α)) (c k : Nat) (v : α) (c' k' : Nat) :
    ((setAt s c k v).get c').get k' = if c' = c ∧ k' = k then v else (s.get c').get k' := by
  unfold setAt
  rw [Store.get_set]
  by_cases hc : c' = c
  · subst hc
    simp only [if_true, true_and, Store.get_set]
  · simp [hc]

theorem sum_map_range_update (f g : Nat → Nat) (n k d : Nat) (hk : k < n)
    (hne : ∀ j, j ≠ k → g j = f j) (hkk : g k = f k + d) :
    ((List.range n).map g).sum = ((List.range n).map f).sum + d := by
  induction n with
  | zero => omega
  | succ m ih =>
    rw [List.range_succ, List.map_append, List.map_append, List.sum_append, List.sum_append]
    simp only [List.map_cons, List.map_nil, List.sum_cons, List.sum_nil, Nat.add_zero]
    by_cases hkm : k = m
    · subst hkm
      have : (List.range k).map g = (List.range k).map f := by
        apply List.map_congr_left
        intro j hj
        exact hne j (by have := List.mem_range.mp hj; omega)
      rw [this, hkk]; omega
    · rw [ih (by omega), hne m (fun e => hkm e.symm)]; omega

theorem sum_map_range_congr (f g : Nat → Nat) (n : Nat) (h : ∀ j, j < n → g j = f j) :
    ((List.range n).map g).sum = ((List.range n).map f).sum := by
  congr 1
  apply List.map_congr_left
  intro j hj; exact h j (List.mem_range.mp hj)

/-- particles listed in cell `c` (free + frozen, all colours) -/
def cellCount (S : Sys) (s : St) (c : Nat) : Nat :=
  ((List.range S.nCol).map fun k => (s.freeAt c k).length + (s.frozenAt c k).length).sum

/-- invariants (2), (3), (4) of C09 -/
structure Book (S : Sys) (s : St) : Prop where
  /-- (3), (4): there is a duplicate-free list `L` of active cells, represented by the intrusive list,
  link counters and active-link list agree with it, and it holds exactly the cells with `m_n_particles > 0` -/
  act : ∃ L, ActInv S.G s.act L ∧ ∀ c, c ∈ L ↔ 0 < s.nPart.get c
  /-- (2) -/
  npart : ∀ c, s.nPart.get c = cellCount S s c

theorem book_init (S : Sys) : Book S St.init := by
  refine ⟨⟨[], actInv_init S.G, ?_⟩, ?_⟩
  · intro c; simp [St.init]
  · intro c
    simp only [St.init, Store.get_const, cellCount, St.freeAt, St.frozenAt, List.length_nil, Nat.add_zero]
    induction S.nCol with
    | zero => rfl
    | succ n ih => rw [List.range_succ]; simp [← ih]

/-- the fields other than `act` and `nPart` agree -/
def SameLists (s s' : St) : Prop :=
  s'.free = s.free ∧ s'.frozen = s.frozen ∧ s'.inj = s.inj ∧ s'.pos = s.pos ∧ s'.fpos = s.fpos ∧
    s'.erased = s.erased

theorem activate_ok {S : Sys} (hG : GridOK S.G) {s : St} {L : List Nat} (h : ActInv S.G s.act L)
    {c : Nat} (hc : c ∉ L) (hlt : c < S.nCells) :
    ∃ s', activate S s c = .ok s' ∧ ActInv S.G s'.act (c :: L) ∧ SameLists s s' ∧ s'.nPart = s.nPart := by
  obtain ⟨a', e, inv⟩ := activateA_ok hG h hc hlt
  refine ⟨{ s with act := a' }, ?_, inv, ⟨rfl, rfl, rfl, rfl, rfl, rfl⟩, rfl⟩
  simp [activate, e]

theorem deactivate_ok {S : Sys} (hG : GridOK S.G) {s : St} {L : List Nat} (h : ActInv S.G s.act L)
    {c : Nat} (hc : c ∈ L) :
    ∃ s', deactivate S s c = .ok s' ∧ ActInv S.G s'.act (L.erase c) ∧ SameLists s s' ∧ s'.nPart = s.nPart := by
  obtain ⟨a', e, inv⟩ := deactivateA_ok hG h hc
  refine ⟨{ s with act := a' }, ?_, inv, ⟨rfl, rfl, rfl, rfl, rfl, rfl⟩, rfl⟩
  simp [deactivate, e]

/-- the `if (erase)` tail of `checkNewPosition` keeps the books (no `abort()` reachable) -/
theorem eraseFromCell_book {S : Sys} (hG : GridOK S.G) {s : St} (h : Book S s) {c k p : Nat}
    (hk : k < S.nCol) (hp : p ∈ s.freeAt c k) :
    ∃ s', eraseFromCell S s c k p = .ok s' ∧ Book S s' ∧
      s'.free = setAt s.free c k ((s.freeAt c k).erase p) ∧ s'.frozen = s.frozen ∧ s'.inj = s.inj ∧
      s'.pos = s.pos ∧ s'.fpos = s.fpos ∧ s'.erased = s.erased ∧
      (∀ L, s.act.cl.Repr L → s'.act.cl.Repr L ∨ s'.act.cl.Repr (L.erase c)) := by
  obtain ⟨L, hL, hiff⟩ := h.act
  -- the count of cell `c` drops by one, all others stay
  let s1 : St := { s with free := setAt s.free c k ((s.freeAt c k).erase p) }
  have hlen : ((s.freeAt c k).erase p).length + 1 = (s.freeAt c k).length := by
    rw [List.length_erase_of_mem hp]
    have : 0 < (s.freeAt c k).length := List.length_pos_of_mem hp
    omega
  have hcnt_c : cellCount S s c = cellCount S s1 c + 1 := by
    unfold cellCount
    rw [← sum_map_range_update _ _ S.nCol k 1 hk]
    · intro j hj
      simp only [St.freeAt, St.frozenAt, s1, get_setAt, hj, and_false, if_false]
    · simp only [St.freeAt, St.frozenAt, s1, get_setAt, and_self, if_true]
      simp only [St.freeAt] at hlen
      omega
  have hcnt_ne : ∀ c', c' ≠ c → cellCount S s1 c' = cellCount S s c' := by
    intro c' hc'
    unfold cellCount
    apply sum_map_range_congr
    intro j _
    simp only [St.freeAt, St.frozenAt, s1, get_setAt, hc', false_and, if_false]
  have hpos : 0 < s.nPart.get c := by rw [h.npart c, hcnt_c]; omega
  have hcL : c ∈ L := (hiff c).mpr hpos
  unfold eraseFromCell
  simp only
  by_cases hz : s.nPart.get c - 1 = 0
  · -- last particle: deactivate
    simp only [Store.get_set_self, hz, if_true]
    have hA : ActInv S.G ({ s1 with nPart := s.nPart.set c (s.nPart.get c - 1) } : St).act L := hL
    obtain ⟨s', e, inv', same, np'⟩ := deactivate_ok hG hA hcL
    obtain ⟨f1, f2, f3, f4, f5, f6⟩ := same
    have e' := e
    rw [hz] at e'
    refine ⟨s', e', ⟨⟨L.erase c, inv', ?_⟩, ?_⟩, f1, f2, f3, f4, f5, f6,
      fun L' hL' => Or.inr (by rw [DLL.repr_unique hL' hL.cl]; exact inv'.cl)⟩
    · intro x
      rw [List.Nodup.mem_erase_iff hL.cl.nodup, np']
      simp only [Store.get_set]
      by_cases hx : x = c
      · simp [hx, hz]
      · simp [hx, hiff x]
    · intro x
      rw [np']
      have hcc : cellCount S s' x = cellCount S s1 x := by
        unfold cellCount St.freeAt St.frozenAt; rw [f1, f2]
      rw [hcc]
      simp only [Store.get_set]
      by_cases hx : x = c
      · subst hx; simp only [if_true]; rw [h.npart x, hcnt_c]; omega
      · simp only [hx, if_false]; rw [hcnt_ne x hx, h.npart x]
  · simp only [Store.get_set_self, hz, if_false]
    refine ⟨_, rfl, ⟨⟨L, hL, ?_⟩, ?_⟩, rfl, rfl, rfl, rfl, rfl, rfl, fun L' hL' => Or.inl hL'⟩
    · intro x
      simp only [Store.get_set]
      by_cases hx : x = c
      · subst hx; simp only [if_true]; constructor
        · intro _; omega
        · intro _; exact hcL
      · simp [hx, hiff x]
    · intro x
      show (s.nPart.set c (s.nPart.get c - 1)).get x = cellCount S s1 x
      simp only [Store.get_set]
      by_cases hx : x = c
      · subst hx; simp only [if_true]; rw [h.npart x, hcnt_c]; omega
      · simp only [hx, if_false]; rw [hcnt_ne x hx, h.npart x]

theorem sum_map_add' (l : List Nat) (f g : Nat → Nat) :
    (l.map fun k => f k + g k).sum = (l.map f).sum + (l.map g).sum := by
  induction l with
  | nil => rfl
  | cons a r ih => simp only [List.map_cons, List.sum_cons, ih]; omega

theorem commitColours_spec (c : Nat) : ∀ (ks : List Nat) (s : St) (np : Nat), ks.Nodup →
    (∀ c' k', (commitColours c ks s np).1.freeAt c' k' =
        if c' = c ∧ k' ∈ ks then s.freeAt c' k' ++ s.injAt c' k' else s.freeAt c' k') ∧
    (∀ c' k', (commitColours c ks s np).1.injAt c' k' = if c' = c ∧ k' ∈ ks then [] else s.injAt c' k') ∧
    (commitColours c ks s np).1.frozen = s.frozen ∧ (commitColours c ks s np).1.nPart = s.nPart ∧
    (commitColours c ks s np).1.act = s.act ∧ (commitColours c ks s np).1.pos = s.pos ∧
    (commitColours c ks s np).1.fpos = s.fpos ∧ (commitColours c ks s np).1.erased = s.erased ∧
    (commitColours c ks s np).2 = np + (ks.map fun k => (s.injAt c k).length).sum := by
  intro ks
  induction ks with
  | nil => intro s np _; simp [commitColours]
  | cons k ks ih =>
    intro s np hn
    have hk : k ∉ ks := (List.nodup_cons.mp hn).1
    simp only [commitColours]
    obtain ⟨s2, hs2⟩ : ∃ s2 : St, s2 = { { s with free := setAt s.free c k (s.freeAt c k ++ s.injAt c k) } with
        inj := setAt s.inj c k [] } := ⟨_, rfl⟩
    rw [← hs2]
    have e1 : s2.free = setAt s.free c k (s.freeAt c k ++ s.injAt c k) := by rw [hs2]
    have e2 : s2.inj = setAt s.inj c k [] := by rw [hs2]
    have e3 : s2.frozen = s.frozen ∧ s2.nPart = s.nPart ∧ s2.act = s.act ∧ s2.pos = s.pos ∧
        s2.fpos = s.fpos ∧ s2.erased = s.erased := by rw [hs2]; exact ⟨rfl, rfl, rfl, rfl, rfl, rfl⟩
    obtain ⟨i1, i2, i3, i4, i5, i6, i7, i8, i9⟩ := ih s2
      (np + (s.injAt c k).length) (List.nodup_cons.mp hn).2
    refine ⟨?_, ?_, i3.trans e3.1, i4.trans e3.2.1, i5.trans e3.2.2.1, i6.trans e3.2.2.2.1,
      i7.trans e3.2.2.2.2.1, i8.trans e3.2.2.2.2.2, ?_⟩
    · intro c' k'
      rw [i1 c' k']
      simp only [St.freeAt, St.injAt, e1, e2, get_setAt, List.mem_cons]
      by_cases hc : c' = c
      · by_cases hk' : k' = k
        · subst hk'; simp [hc, hk]
        · simp [hc, hk']
      · simp [hc]
    · intro c' k'
      rw [i2 c' k']
      simp only [St.injAt, e2, get_setAt, List.mem_cons]
      by_cases hc : c' = c
      · by_cases hk' : k' = k
        · subst hk'; simp [hc]
        · simp [hc, hk']
      · simp [hc]
    · rw [i9]
      simp only [List.map_cons, List.sum_cons]
      have : (ks.map fun k' => (s2.injAt c k').length) = ks.map fun k' => (s.injAt c k').length := by
        apply List.map_congr_left
        intro k' hk'
        have : k' ≠ k := fun e => hk (e ▸ hk')
        simp [St.injAt, e2, get_setAt, this]
      rw [this]; omega

theorem commitInjections_book {S : Sys} (hG : GridOK S.G) {s : St} (h : Book S s) {c : Nat}
    (hc : c < S.nCells) :
    ∃ s', commitInjections S s c = .ok s' ∧ Book S s' ∧
      (∀ c' k', s'.freeAt c' k' =
        if c' = c ∧ k' < S.nCol then s.freeAt c' k' ++ s.injAt c' k' else s.freeAt c' k') ∧
      (∀ c' k', s'.injAt c' k' = if c' = c ∧ k' < S.nCol then [] else s.injAt c' k') ∧
      s'.frozen = s.frozen ∧ s'.pos = s.pos ∧ s'.fpos = s.fpos ∧ s'.erased = s.erased := by
  obtain ⟨L, hL, hiff⟩ := h.act
  obtain ⟨i1, i2, i3, i4, i5, i6, i7, i8, i9⟩ :=
    commitColours_spec c (List.range S.nCol) s 0 List.nodup_range
  simp only [List.mem_range] at i1 i2
  unfold commitInjections
  generalize hr : commitColours c (List.range S.nCol) s 0 = r at i1 i2 i3 i4 i5 i6 i7 i8 i9
  obtain ⟨s1, np⟩ := r
  simp only at i1 i2 i3 i4 i5 i6 i7 i8 i9 ⊢
  have hcnt_c : cellCount S s1 c = cellCount S s c + np := by
    unfold cellCount
    rw [i9, Nat.zero_add, Nat.add_comm (List.sum _), ← sum_map_add']
    apply sum_map_range_congr
    intro j hj
    rw [i1 c j]
    simp only [hj, and_self, if_true, List.length_append, St.frozenAt, i3]
    omega
  have hcnt_ne : ∀ c', c' ≠ c → cellCount S s1 c' = cellCount S s c' := by
    intro c' hc'
    unfold cellCount
    apply sum_map_range_congr
    intro j _
    rw [i1 c' j]
    simp only [hc', false_and, if_false, St.frozenAt, i3]
  have hA : ActInv S.G s1.act L := by rw [i5]; exact hL
  by_cases hact : np ≠ 0 ∧ s1.nPart.get c = 0
  · simp only [hact, ne_eq, not_false_eq_true, and_self, if_true]
    have hcL : c ∉ L := by
      intro hm; have := (hiff c).mp hm; rw [i4] at hact; omega
    obtain ⟨s', e, inv', same, np'⟩ := activate_ok hG hA hcL hc
    obtain ⟨f1, f2, f3, f4, f5, f6⟩ := same
    have hcc : ∀ x, cellCount S ({ s' with nPart := s'.nPart.set c (s'.nPart.get c + np) } : St) x = cellCount S s1 x := by
      intro x; unfold cellCount St.freeAt St.frozenAt; simp only [f1, f2]
    refine ⟨{ s' with nPart := s'.nPart.set c (s'.nPart.get c + np) }, by rw [e],
      ⟨⟨c :: L, inv', ?_⟩, ?_⟩, ?_, ?_, ?_, ?_, ?_, ?_⟩
    · intro x
      simp only [List.mem_cons, Store.get_set, np', i4]
      by_cases hx : x = c
      · simp only [hx, if_true, true_or, true_iff]; omega
      · simp [hx, hiff x]
    · intro x
      rw [hcc x]
      simp only [Store.get_set, np', i4]
      by_cases hx : x = c
      · subst hx; simp only [if_true]; rw [hcnt_c, h.npart x]
      · simp only [hx, if_false]; rw [hcnt_ne x hx, h.npart x]
    · intro c' k'; simp only [St.freeAt, f1]; exact i1 c' k'
    · intro c' k'; simp only [St.injAt, f3]; exact i2 c' k'
    · simp only [f2, i3]
    · simp only [f4, i6]
    · simp only [f5, i7]
    · simp only [f6, i8]
  · simp only [hact, if_false]
    have hcc : ∀ x, cellCount S ({ s1 with nPart := s1.nPart.set c (s1.nPart.get c + np) } : St) x = cellCount S s1 x := by
      intro x; rfl
    refine ⟨_, rfl, ⟨⟨L, hA, ?_⟩, ?_⟩, i1, i2, i3, i6, i7, i8⟩
    · intro x
      simp only [Store.get_set, i4]
      by_cases hx : x = c
      · subst hx
        simp only [if_true]
        rw [i4] at hact
        have := hiff x
        constructor
        · intro hm; have := this.mp hm; omega
        · intro hp; apply this.mpr
          by_cases h0 : np = 0
          · omega
          · have : ¬ s.nPart.get x = 0 := fun e => hact ⟨h0, e⟩
            omega
      · simp [hx, hiff x]
    · intro x
      rw [hcc x]
      simp only [Store.get_set, i4]
      by_cases hx : x = c
      · subst hx; simp only [if_true]; rw [hcnt_c, h.npart x]
      · simp only [hx, if_false]; rw [hcnt_ne x hx, h.npart x]

theorem commitCells_book {S : Sys} (hG : GridOK S.G) : ∀ (cs : List Nat) {s : St}, Book S s →
    cs.Nodup → (∀ c ∈ cs, c < S.nCells) →
    ∃ s', commitCells S cs s = .ok s' ∧ Book S s' ∧
      (∀ c' k', s'.freeAt c' k' =
        if c' ∈ cs ∧ k' < S.nCol then s.freeAt c' k' ++ s.injAt c' k' else s.freeAt c' k') ∧
      (∀ c' k', s'.injAt c' k' = if c' ∈ cs ∧ k' < S.nCol then [] else s.injAt c' k') ∧
      s'.frozen = s.frozen ∧ s'.pos = s.pos ∧ s'.fpos = s.fpos ∧ s'.erased = s.erased := by
  intro cs
  induction cs with
  | nil => intro s h _ _; exact ⟨s, rfl, h, by simp, by simp, rfl, rfl, rfl, rfl⟩
  | cons c cs ih =>
    intro s h hn hlt
    have hc : c ∉ cs := (List.nodup_cons.mp hn).1
    obtain ⟨s1, e1, b1, f1, j1, z1, p1, q1, r1⟩ := commitInjections_book hG h (hlt c (by simp))
    obtain ⟨s2, e2, b2, f2, j2, z2, p2, q2, r2⟩ := ih b1 (List.nodup_cons.mp hn).2
      (fun x hx => hlt x (by simp [hx]))
    refine ⟨s2, by simp only [commitCells, e1, e2], b2, ?_, ?_, z2.trans z1, p2.trans p1, q2.trans q1,
      r2.trans r1⟩
    · intro c' k'
      rw [f2 c' k', f1 c' k', j1 c' k']
      simp only [List.mem_cons]
      by_cases hk : k' < S.nCol
      · by_cases h1 : c' = c
        · subst h1; simp [hc, hk]
        · simp [h1, hk]
      · simp [hk]
    · intro c' k'
      rw [j2 c' k', j1 c' k']
      simp only [List.mem_cons]
      by_cases hk : k' < S.nCol
      · by_cases h1 : c' = c
        · subst h1; simp [hk]
        · simp [h1, hk]
      · simp [hk]

theorem commitAll_book {S : Sys} (hG : GridOK S.G) {s : St} (h : Book S s) :
    ∃ s', commitAll S s = .ok s' ∧ Book S s' ∧
      (∀ c' k', s'.freeAt c' k' =
        if c' < S.nCells ∧ k' < S.nCol then s.freeAt c' k' ++ s.injAt c' k' else s.freeAt c' k') ∧
      (∀ c' k', s'.injAt c' k' = if c' < S.nCells ∧ k' < S.nCol then [] else s.injAt c' k') ∧
      s'.frozen = s.frozen ∧ s'.pos = s.pos ∧ s'.fpos = s.fpos ∧ s'.erased = s.erased := by
  have := commitCells_book hG (List.range S.nCells) h List.nodup_range (fun c hc => List.mem_range.mp hc)
  unfold commitAll
  simpa only [List.mem_range] using this

/-- `injectFree` touches only an injection buffer -/
theorem injectFree_book {S : Sys} {s : St} (h : Book S s) (t k p : Nat) : Book S (injectFree s t k p) :=
  ⟨h.act, h.npart⟩

theorem setPos_book {S : Sys} {s : St} (h : Book S s) (pos : Store (Store (V3 Rat))) :
    Book S { s with pos := pos } :=
  ⟨h.act, h.npart⟩

/-! ### invariant (1): every free particle is registered exactly once -/

/-- how often the free particle `(k, p)` is registered (free lists and injection buffers of all cells) -/
def occ (S : Sys) (s : St) (k p : Nat) : Nat :=
  ((List.range S.nCells).map fun c => (s.freeAt c k).count p + (s.injAt c k).count p).sum

/-- how often the frozen particle `(k, p)` is registered -/
def foccOf (S : Sys) (s : St) (k p : Nat) : Nat :=
  ((List.range S.nCells).map fun c => (s.frozenAt c k).count p).sum

theorem term_le_sum (f : Nat → Nat) (n c : Nat) (hc : c < n) : f c ≤ ((List.range n).map f).sum := by
  have := sum_map_range_update (fun j => if j = c then 0 else f j) f n c (f c) hc
    (by intro j hj; simp [hj]) (by simp)
  omega

/-- The invariant of the C09 state machine, for the universe `U` of free particles `(colour, slot)`
and `UF` of frozen particles:
(2)(3)(4) = `book`; (1) = `occ`, `focc` (registered exactly once, in a free list or — mid-step — an
injection buffer); `supp`: nothing is registered outside the existing cells and colours. -/
structure Inv (S : Sys) (U UF : List (Nat × Nat)) (s : St) : Prop where
  book : Book S s
  occ : ∀ k p, occ S s k p = if (k, p) ∈ U ∧ (k, p) ∉ s.erased then 1 else 0
  focc : ∀ k p, foccOf S s k p = if (k, p) ∈ UF then 1 else 0
  supp : ∀ c k, ¬ (c < S.nCells ∧ k < S.nCol) →
    s.freeAt c k = [] ∧ s.injAt c k = [] ∧ s.frozenAt c k = []

theorem Inv.free_nodup {S : Sys} {U UF : List (Nat × Nat)} {s : St} (h : Inv S U UF s) (c k : Nat) :
    (s.freeAt c k).Nodup := by
  by_cases hc : c < S.nCells ∧ k < S.nCol
  · rw [List.nodup_iff_count]
    intro p
    have h1 := term_le_sum (fun c => (s.freeAt c k).count p + (s.injAt c k).count p) S.nCells c hc.1
    have h2 := h.occ k p
    unfold Cells.occ at h2
    split at h2 <;> omega
  · rw [(h.supp c k hc).1]; exact List.nodup_nil

/-- a registered particle is registered nowhere else -/
theorem Inv.unique {S : Sys} {U UF : List (Nat × Nat)} {s : St} (h : Inv S U UF s) {c c' k p : Nat}
    (hp : p ∈ s.freeAt c k) (hp' : p ∈ s.freeAt c' k ∨ p ∈ s.injAt c' k) : c' = c ∧ p ∉ s.injAt c k := by
  have hc : c < S.nCells ∧ k < S.nCol := by
    apply Classical.byContradiction; intro hn; rw [(h.supp c k hn).1] at hp; simp at hp
  have hc' : c' < S.nCells ∧ k < S.nCol := by
    apply Classical.byContradiction; intro hn
    rcases hp' with hp' | hp'
    · rw [(h.supp c' k hn).1] at hp'; simp at hp'
    · rw [(h.supp c' k hn).2.1] at hp'; simp at hp'
  have h2 := h.occ k p
  have hle : Cells.occ S s k p ≤ 1 := by rw [h2]; split <;> omega
  have c1 : 1 ≤ (s.freeAt c k).count p := List.count_pos_iff.mpr hp
  constructor
  · apply Classical.byContradiction; intro hne
    -- two different cells both contribute
    have hsum := sum_map_range_update (fun j => if j = c then 0 else
        (s.freeAt j k).count p + (s.injAt j k).count p)
      (fun j => (s.freeAt j k).count p + (s.injAt j k).count p) S.nCells c
      ((s.freeAt c k).count p + (s.injAt c k).count p) hc.1 (by intro j hj; simp [hj]) (by simp)
    have hterm := term_le_sum (fun j => if j = c then 0 else
        (s.freeAt j k).count p + (s.injAt j k).count p) S.nCells c' hc'.1
    simp only [hne, if_false] at hterm
    have c2 : 1 ≤ (s.freeAt c' k).count p + (s.injAt c' k).count p := by
      rcases hp' with hp' | hp'
      · have := List.count_pos_iff.mpr hp'; omega
      · have := List.count_pos_iff.mpr hp'; omega
    unfold Cells.occ at hle
    omega
  · intro hin
    have c2 : 1 ≤ (s.injAt c k).count p := List.count_pos_iff.mpr hin
    have hterm := term_le_sum (fun j => (s.freeAt j k).count p + (s.injAt j k).count p) S.nCells c hc.1
    unfold Cells.occ at hle
    omega

theorem occ_update {S : Sys} {s s' : St} {k p c0 : Nat} (d : Nat) (hc0 : c0 < S.nCells)
    (hne : ∀ c, c ≠ c0 → (s'.freeAt c k).count p + (s'.injAt c k).count p =
      (s.freeAt c k).count p + (s.injAt c k).count p)
    (h0 : (s'.freeAt c0 k).count p + (s'.injAt c0 k).count p =
      (s.freeAt c0 k).count p + (s.injAt c0 k).count p + d) :
    occ S s' k p = occ S s k p + d :=
  sum_map_range_update _ _ S.nCells c0 d hc0 hne h0

theorem occ_congr {S : Sys} {s s' : St} {k p : Nat}
    (h : ∀ c, c < S.nCells → (s'.freeAt c k).count p + (s'.injAt c k).count p =
      (s.freeAt c k).count p + (s.injAt c k).count p) :
    occ S s' k p = occ S s k p :=
  sum_map_range_congr _ _ S.nCells h

theorem occ_after_erase {S : Sys} {s0 s' : St} {c k p : Nat} (hc : c < S.nCells) (hp : p ∈ s0.freeAt c k)
    (hf : s'.free = setAt s0.free c k ((s0.freeAt c k).erase p)) (hi : s'.inj = s0.inj) :
    (∀ k' p', (k', p') ≠ (k, p) → occ S s' k' p' = occ S s0 k' p') ∧ occ S s' k p + 1 = occ S s0 k p := by
  have hfree : ∀ c' k', s'.freeAt c' k' = if c' = c ∧ k' = k then (s0.freeAt c k).erase p else s0.freeAt c' k' := by
    intro c' k'; simp only [St.freeAt, hf, get_setAt]
  have hinj : ∀ c' k', s'.injAt c' k' = s0.injAt c' k' := by
    intro c' k'; simp only [St.injAt, hi]
  constructor
  · intro k' p' hne
    apply occ_congr
    intro c' _
    rw [hfree, hinj]
    by_cases h1 : c' = c ∧ k' = k
    · obtain ⟨rfl, rfl⟩ := h1
      have : p' ≠ p := fun e => hne (by rw [e])
      simp [List.count_erase_of_ne this]
    · simp [h1]
  · have hpos : 0 < (s0.freeAt c k).count p := List.count_pos_iff.mpr hp
    have := occ_update (S := S) (s := s') (s' := s0) (k := k) (p := p) 1 hc
      (by
        intro c' hc'
        rw [hfree, hinj]; simp [hc'])
      (by
        rw [hfree, hinj]; simp only [and_self, if_true, List.count_erase_self]; omega)
    omega

theorem occ_after_inject {S : Sys} (s : St) {t : Nat} (k p : Nat) (ht : t < S.nCells) :
    (∀ k' p', (k', p') ≠ (k, p) → occ S (injectFree s t k p) k' p' = occ S s k' p') ∧
      occ S (injectFree s t k p) k p = occ S s k p + 1 := by
  have hinj : ∀ c' k', (injectFree s t k p).injAt c' k' =
      if c' = t ∧ k' = k then s.injAt t k ++ [p] else s.injAt c' k' := by
    intro c' k'; simp only [St.injAt, injectFree, get_setAt]
  have hfree : ∀ c' k', (injectFree s t k p).freeAt c' k' = s.freeAt c' k' := fun _ _ => rfl
  constructor
  · intro k' p' hne
    apply occ_congr
    intro c' _
    rw [hfree, hinj]
    by_cases h1 : c' = t ∧ k' = k
    · obtain ⟨rfl, rfl⟩ := h1
      have : p' ≠ p := fun e => hne (by rw [e])
      have h0 : List.count p' [p] = 0 := by
        rw [List.count_singleton]; simp [Ne.symm this]
      simp [List.count_append, h0]
    · simp [h1]
  · apply occ_update 1 ht
    · intro c' hc'; rw [hfree, hinj]; simp [hc']
    · rw [hfree, hinj]; simp [List.count_append]; omega

/-- the ways out of `Cell::checkNewPosition` -/
theorem checkNewPosition_cases (S : Sys) (s : St) (c k p : Nat) (cg : CellGeom) (n : Nat)
    (hcg : cg = S.G.cells.getD c default)
    (hn : n = (offset2neighbor (leaveOffset cg (s.posAt k p))).toNat) :
    (isInsideEps cg.c1 cg.c2 (s.posAt k p) S.eps = true ∧ checkNewPosition S s c k p = .ok s) ∨
    (isInsideEps cg.c1 cg.c2 (s.posAt k p) S.eps = false ∧ S.G.outAt c n = [] ∧
      checkNewPosition S s c k p =
        match eraseFromCell S s c k p with
        | .ok s => .ok { s with erased := s.erased ++ [(k, p)] }
        | .error e => .error e) ∨
    (∃ t, isInsideEps cg.c1 cg.c2 (s.posAt k p) S.eps = false ∧ S.G.outAt c n = [t] ∧
      isInside (S.G.cells.getD t default).c1 (S.G.cells.getD t default).c2
        (wrapPos cg (S.G.cells.getD t default) n (s.posAt k p)) = true ∧
      checkNewPosition S s c k p =
        eraseFromCell S (injectFree { s with pos := setAt s.pos k p (wrapPos cg (S.G.cells.getD t default) n (s.posAt k p)) } t k p) c k p) ∨
    (checkNewPosition S s c k p = .error (.flewTooFar k p)) ∨
    (checkNewPosition S s c k p = .error .multiOutlet ∧ 2 ≤ (S.G.outAt c n).length) := by
  subst hcg hn
  unfold checkNewPosition
  simp only []
  by_cases h1 : isInsideEps (S.G.cells.getD c default).c1 (S.G.cells.getD c default).c2 (s.posAt k p) S.eps = true
  · left; exact ⟨h1, by rw [if_pos h1]⟩
  · have h1' : isInsideEps (S.G.cells.getD c default).c1 (S.G.cells.getD c default).c2 (s.posAt k p) S.eps = false :=
      Bool.eq_false_iff.mpr h1
    right
    rw [if_neg h1]
    split
    · rename_i ho; left; exact ⟨h1', ho, rfl⟩
    · rename_i t ho
      right
      split
      · rename_i h2; left; exact ⟨t, h1', ho, h2, rfl⟩
      · right; left; rfl
    · rename_i o hne1 hne2
      right; right; right
      refine ⟨rfl, ?_⟩
      rcases hlist : S.G.outAt c (offset2neighbor (leaveOffset (S.G.cells.getD c default)
        (s.posAt k p))).toNat with _ | ⟨t, _ | ⟨t2, r⟩⟩
      · exact absurd hlist hne1
      · exact absurd hlist (hne2 t)
      · simp

theorem focc_congr {S : Sys} {s s' : St} (h : s'.frozen = s.frozen) (k p : Nat) :
    foccOf S s' k p = foccOf S s k p := by
  unfold foccOf St.frozenAt; rw [h]

theorem mem_free_occ_pos {S : Sys} {U UF : List (Nat × Nat)} {s : St} (h : Inv S U UF s) {c k p : Nat}
    (hp : p ∈ s.freeAt c k) : c < S.nCells ∧ k < S.nCol ∧ (k, p) ∈ U ∧ (k, p) ∉ s.erased ∧ occ S s k p = 1 := by
  have hc : c < S.nCells ∧ k < S.nCol := by
    apply Classical.byContradiction; intro hn; rw [(h.supp c k hn).1] at hp; simp at hp
  have h1 := term_le_sum (fun c => (s.freeAt c k).count p + (s.injAt c k).count p) S.nCells c hc.1
  have h2 : 0 < (s.freeAt c k).count p := List.count_pos_iff.mpr hp
  have h3 := h.occ k p
  have : 0 < occ S s k p := by unfold occ; omega
  by_cases hU : (k, p) ∈ U ∧ (k, p) ∉ s.erased
  · rw [if_pos hU] at h3; exact ⟨hc.1, hc.2, hU.1, hU.2, h3⟩
  · rw [if_neg hU] at h3; omega

/-- what `checkNewPosition` did to the particle `(k, p)` of cell `c` -/
inductive CheckOutcome (S : Sys) (s s' : St) (c k p : Nat) : Prop where
  /-- still inside (`isInsideEps`): nothing changes -/
  | stay (h : s' = s)
      (inside : isInsideEps (S.G.cells.getD c default).c1 (S.G.cells.getD c default).c2 (s.posAt k p) S.eps = true)
  /-- no outlet in the direction of leaving: removed from the cell and from the phase -/
  | erased (hfree : s'.free = setAt s.free c k ((s.freeAt c k).erase p)) (hinj : s'.inj = s.inj)
      (hfrozen : s'.frozen = s.frozen) (hpos : s'.pos = s.pos) (hfpos : s'.fpos = s.fpos)
      (herased : s'.erased = s.erased ++ [(k, p)])
      (hout : S.G.outAt c (offset2neighbor (leaveOffset (S.G.cells.getD c default) (s.posAt k p))).toNat = [])
      (outside : isInsideEps (S.G.cells.getD c default).c1 (S.G.cells.getD c default).c2 (s.posAt k p) S.eps = false)
  /-- handed over to the outlet cell `t` in direction `n` with the position wrapped by `wrapPos` -/
  | moved (t n : Nat) (ht : t < S.nCells)
      (hn : n = (offset2neighbor (leaveOffset (S.G.cells.getD c default) (s.posAt k p))).toNat)
      (hout : S.G.outAt c n = [t])
      (outside : isInsideEps (S.G.cells.getD c default).c1 (S.G.cells.getD c default).c2 (s.posAt k p) S.eps = false)
      (hfree : s'.free = setAt s.free c k ((s.freeAt c k).erase p))
      (hinj : s'.inj = setAt s.inj t k (s.injAt t k ++ [p]))
      (hfrozen : s'.frozen = s.frozen)
      (hpos : s'.pos = setAt s.pos k p (wrapPos (S.G.cells.getD c default) (S.G.cells.getD t default) n (s.posAt k p)))
      (hfpos : s'.fpos = s.fpos) (herased : s'.erased = s.erased)
      (inside : isInside (S.G.cells.getD t default).c1 (S.G.cells.getD t default).c2
        (wrapPos (S.G.cells.getD c default) (S.G.cells.getD t default) n (s.posAt k p)) = true)

/-- `Cell::checkNewPosition` preserves the invariant; the only errors it can raise from a state
satisfying the invariant are `PARTICLEFLEWTOOFAR` and — on grids with several outlets in one direction,
which `cellSubdivide` does not build — the model's refusal `multiOutlet` -/
theorem checkNewPosition_inv {S : Sys} (hG : GridOK S.G) {U UF : List (Nat × Nat)} {s : St}
    (h : Inv S U UF s) {c k p : Nat} (hp : p ∈ s.freeAt c k) :
    (∃ s', checkNewPosition S s c k p = .ok s' ∧ Inv S U UF s' ∧ CheckOutcome S s s' c k p ∧
        (∀ L, s.act.cl.Repr L → s'.act.cl.Repr L ∨ s'.act.cl.Repr (L.erase c))) ∨
      checkNewPosition S s c k p = .error (.flewTooFar k p) ∨
      (checkNewPosition S s c k p = .error .multiOutlet ∧ ¬ OutSingle S.G) := by
  obtain ⟨hc, hk, hU, hE, hocc⟩ := mem_free_occ_pos h hp
  rcases checkNewPosition_cases S s c k p _ _ rfl rfl with ⟨hin, e⟩ | ⟨hout, ho, e⟩ | ⟨t, hout, ho, hin, e⟩ |
      e | ⟨e, h2⟩
  · exact Or.inl ⟨s, e, h, .stay rfl hin, fun L hL => Or.inl hL⟩
  · -- erased
    obtain ⟨s1, e1, b1, f1, f2, f3, f4, f5, f6, f7⟩ := eraseFromCell_book hG h.book hk hp
    left
    rw [e1] at e
    obtain ⟨o1, o2⟩ := occ_after_erase (S := S) hc hp f1 f3
    refine ⟨{ s1 with erased := s1.erased ++ [(k, p)] }, e, ⟨⟨b1.act, b1.npart⟩, ?_, ?_, ?_⟩,
      .erased f1 f3 f2 f4 f5 (by simp only [f6]) ho hout, f7⟩
    · intro k' p'
      show occ S s1 k' p' = _
      simp only [f6, List.mem_append, List.mem_singleton]
      by_cases hkp : (k', p') = (k, p)
      · obtain ⟨rfl, rfl⟩ := Prod.mk.inj hkp
        have : occ S s1 k' p' = 0 := by omega
        simp [this]
      · rw [o1 k' p' hkp, h.occ k' p']
        simp [hkp]
    · intro k' p'; exact (focc_congr (S := S) (s := s) (s' := s1) f2 k' p').trans (h.focc k' p')
    · intro c' k' hn
      obtain ⟨a1, a2, a3⟩ := h.supp c' k' hn
      refine ⟨?_, ?_, ?_⟩
      · show s1.freeAt c' k' = []
        simp only [St.freeAt, f1, get_setAt]
        split
        · rename_i hck; obtain ⟨rfl, rfl⟩ := hck; exact absurd ⟨hc, hk⟩ hn
        · exact a1
      · show s1.injAt c' k' = []; simp only [St.injAt, f3]; exact a2
      · show s1.frozenAt c' k' = []; simp only [St.frozenAt, f2]; exact a3
  · -- moved
    have ht : t < S.nCells := hG.out_lt c hc _ (leaveOffset_lt _ _) t (by rw [ho]; simp)
    generalize hR : wrapPos (S.G.cells.getD c default) (S.G.cells.getD t default)
      (offset2neighbor (leaveOffset (S.G.cells.getD c default) (s.posAt k p))).toNat (s.posAt k p) = R at e hin
    have hb0 : Book S (injectFree { s with pos := setAt s.pos k p R } t k p) :=
      injectFree_book (setPos_book h.book _) t k p
    obtain ⟨s1, e1, b1, f1, f2, f3, f4, f5, f6, f7⟩ := eraseFromCell_book hG hb0 hk
      (show p ∈ (injectFree { s with pos := setAt s.pos k p R } t k p).freeAt c k from hp)
    left
    rw [e1] at e
    obtain ⟨o1, o2⟩ := occ_after_erase (S := S)
      (s0 := injectFree { s with pos := setAt s.pos k p R } t k p) hc hp f1 f3
    obtain ⟨j1, j2⟩ := occ_after_inject (S := S) ({ s with pos := setAt s.pos k p R } : St) k p ht
    have occpos : ∀ k' p', occ S ({ s with pos := setAt s.pos k p R } : St) k' p' = occ S s k' p' := fun _ _ => rfl
    refine ⟨s1, e, ⟨b1, ?_, ?_, ?_⟩, .moved t _ ht rfl ho hout f1 f3 f2 (by rw [f4, hR]; rfl) f5 f6 (by rw [hR]; exact hin), f7⟩
    · intro k' p'
      rw [f6]
      show occ S s1 k' p' = if (k', p') ∈ U ∧ (k', p') ∉ s.erased then 1 else 0
      by_cases hkp : (k', p') = (k, p)
      · obtain ⟨rfl, rfl⟩ := Prod.mk.inj hkp
        rw [j2, occpos] at o2
        have : occ S s1 k' p' = occ S s k' p' := by omega
        rw [this, h.occ k' p']
      · rw [o1 k' p' hkp, j1 k' p' hkp, occpos, h.occ k' p']
    · intro k' p'; exact (focc_congr (S := S) (s := s) (s' := s1) f2 k' p').trans (h.focc k' p')
    · intro c' k' hn
      obtain ⟨a1, a2, a3⟩ := h.supp c' k' hn
      refine ⟨?_, ?_, ?_⟩
      · simp only [St.freeAt, f1, get_setAt]
        split
        · rename_i hck; obtain ⟨rfl, rfl⟩ := hck; exact absurd ⟨hc, hk⟩ hn
        · exact a1
      · simp only [St.injAt, f3, injectFree, get_setAt]
        split
        · rename_i hck; obtain ⟨rfl, rfl⟩ := hck; exact absurd ⟨ht, hk⟩ hn
        · exact a2
      · simp only [St.frozenAt, f2]; exact a3
  · exact Or.inr (Or.inl e)
  · refine Or.inr (Or.inr ⟨e, fun hs => ?_⟩)
    have := hs c hc (offset2neighbor (leaveOffset (S.G.cells.getD c default) (s.posAt k p))).toNat
      (leaveOffset_lt _ _)
    omega

end Sympler.Cells
