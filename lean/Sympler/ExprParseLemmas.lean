import Sympler.ExprEmitLemmas

/-!
# C03 — lemmas about the expression parser `parseCore`

* `parseCore_ne_fuel`: the fuel `length + 1` is never exhausted (termination of `parseThis`);
* `parseCore_wf`: every tree the parser builds carries library functions of the generated table.

Core Lean only.
-/
namespace Sympler.Expr

open Sympler.Gen

/-! ## Positions found by `findWithoutParentheses` -/

theorem findGo_lt {name : List Char} : ∀ (pre suf : List Char) (lvl : Int) (p : Nat),
    findGo name pre suf lvl = some p → p < pre.length
  | [], _, _, _, h => by simp [findGo] at h
  | c :: pre, suf, lvl, p, h => by
    rw [findGo] at h
    split at h
    · injection h with h; subst h; simp
    · have := findGo_lt pre _ _ p h
      simp only [List.length_cons]; omega

theorem findWP_lt {e name : List Char} {p : Nat} (h : findWP e name = some p) : p < e.length := by
  have := findGo_lt _ _ _ _ h
  simpa using this

theorem selectFactory_some {fs : List Factory} {e : List Char} {f : Factory} {pos : Nat}
    (h : selectFactory fs e = some (f, pos)) : f ∈ fs ∧ findWP e f.name = some pos := by
  induction fs with
  | nil => simp [selectFactory] at h
  | cons g gs ih =>
    rw [selectFactory] at h
    split at h
    next p hp =>
      split at h
      · injection h with h
        injection h with h1 h2
        subst h1 h2
        exact ⟨List.mem_cons_self .., hp⟩
      · have := ih h
        exact ⟨List.mem_cons_of_mem _ this.1, this.2⟩
    next hp =>
      have := ih h
      exact ⟨List.mem_cons_of_mem _ this.1, this.2⟩

/-- side condition on the generated table: no factory has the empty name -/
theorem factories_names_ne_nil : ∀ f ∈ factories, 1 ≤ f.name.length := by decide

/-! ## The bracket loop does not lengthen the text -/

theorem stripLoop_length : ∀ (fuel : Nat) (e e' : List Char), stripLoop fuel e = .ok e' →
    e'.length ≤ e.length
  | 0, e, e', h => by simp [stripLoop] at h
  | fuel+1, [], e', h => by simp [stripLoop] at h; subst h; exact Nat.le_refl _
  | fuel+1, [c], e', h => by simp [stripLoop] at h; subst h; exact Nat.le_refl _
  | fuel+1, c0 :: c1 :: tl, e', h => by
    rw [stripLoop] at h
    split at h
    · injection h with h; subst h; exact Nat.le_refl _
    · split at h
      · cases h
      · split at h
        next p o hs =>
          split at h
          · have := stripLoop_length fuel _ _ h
            simp only [List.length_dropLast, List.length_cons] at this ⊢
            omega
          · injection h with h; subst h; exact Nat.le_refl _
        next o hs => cases h

/-- the fuel of the bracket loop is never exhausted: every pass but the last removes two characters -/
theorem stripLoop_ne_fuel : ∀ (fuel : Nat) (e : List Char), e.length < fuel →
    stripLoop fuel e ≠ .error .fuel
  | 0, e, h => by omega
  | fuel+1, [], h => by simp [stripLoop]
  | fuel+1, [c], h => by simp [stripLoop]
  | fuel+1, c0 :: c1 :: tl, h => by
    rw [stripLoop]
    split
    · simp
    · split
      · simp
      · split
        next p o hs =>
          split
          · refine stripLoop_ne_fuel fuel _ ?_
            simp only [List.length_dropLast, List.length_cons] at h ⊢
            omega
          · simp
        next o hs => simp

theorem stripBrackets_length {e e' : List Char} (h : stripBrackets e = .ok e') :
    e'.length ≤ e.length := by
  unfold stripBrackets at h
  split at h
  next rest =>
    split at h
    · cases h
    · exact stripLoop_length _ _ _ h
  · injection h with h; subst h; exact Nat.le_refl _

/-! ## Termination: the fuel `length + 1` is never exhausted -/

theorem valueFromString_ne_fuel (known : String → Bool) (e : List Char) :
    valueFromString known e ≠ .error .fuel := by
  unfold valueFromString
  dsimp only
  split
  · simp
  · split
    · simp
    · split <;> (try split) <;> simp

theorem parseCore_ne_fuel (known : String → Bool) : ∀ (n : Nat) (cs : List Char),
    cs.length < n → parseCore known n cs ≠ .error .fuel
  | 0, cs, h => by omega
  | n+1, cs, h => by
    rw [parseCore]
    cases hs : stripBrackets cs with
    | error e =>
      simp only [bind, Except.bind]
      unfold stripBrackets at hs
      split at hs
      · split at hs
        · cases hs; simp
        · intro hf
          injection hf with hf
          subst hf
          exact stripLoop_ne_fuel _ _ (Nat.lt_succ_self _) hs
      · cases hs
    | ok expr =>
      have hlen := stripBrackets_length hs
      unfold parseBody
      simp only [bind, Except.bind]
      split
      · exact valueFromString_ne_fuel known expr
      next f pos hsel =>
        obtain ⟨hmem, hfind⟩ := selectFactory_some hsel
        have hpos := findWP_lt hfind
        have hname := factories_names_ne_nil f hmem
        split
        · split
          · have := parseCore_ne_fuel known n (expr.drop 1) (by simp only [List.length_drop]; omega)
            cases hp : parseCore known n (expr.drop 1) with
            | error e => rw [hp] at this; simpa using this
            | ok a => simp
          · split
            · simp
            next op hop =>
              have h1 := parseCore_ne_fuel known n (expr.drop (pos + f.name.length))
                (by simp only [List.length_drop]; omega)
              have h2 := parseCore_ne_fuel known n (expr.take pos)
                (by simp only [List.length_take]; omega)
              cases hp1 : parseCore known n (expr.drop (pos + f.name.length)) with
              | error e => rw [hp1] at h1; simpa using h1
              | ok b =>
                cases hp2 : parseCore known n (expr.take pos) with
                | error e => rw [hp2] at h2; simpa using h2
                | ok a => simp
        · split
          · simp
          next fn hfn =>
            have h1 := parseCore_ne_fuel known n (expr.drop f.name.length)
              (by simp only [List.length_drop]; omega)
            cases hp1 : parseCore known n (expr.drop f.name.length) with
            | error e => rw [hp1] at h1; simpa using h1
            | ok a => simp

/-! ## The trees of the parser are well formed -/

theorem lookup_mem {α β : Type} [BEq α] [LawfulBEq α] {a : α} {b : β} :
    ∀ {l : List (α × β)}, l.lookup a = some b → (a, b) ∈ l
  | [], h => by simp [List.lookup] at h
  | (k, v) :: tl, h => by
    rw [List.lookup] at h
    split at h
    next heq =>
      injection h with h; subst h
      have : a = k := by simpa using heq
      subst this
      exact List.mem_cons_self ..
    · exact List.mem_cons_of_mem _ (lookup_mem h)

/-- side condition on the generated table: the C names of the macro functions are identifiers other
than `rand` and do not start with `d` -/
theorem macroFuncs_cnames_ok : ∀ p ∈ ExprTable.macroFuncs, cnameOK p.2 = true := by decide

theorem ofName_wf {n : String} {f : Fn} (h : Fn.ofName n = some f) : f.wf = true := by
  unfold Fn.ofName at h
  split at h
  next c hc =>
    injection h with h; subst h
    exact macroFuncs_cnames_ok _ (lookup_mem hc)
  next =>
    split at h <;> first | (injection h with h; subst h; rfl) | cases h

theorem valueFromString_wf {known : String → Bool} {e : List Char} {t : Tree}
    (h : valueFromString known e = .ok t) : t.wf = true := by
  unfold valueFromString at h
  dsimp only at h
  split at h
  · injection h with h; subst h; rfl
  · split at h
    · cases h
    · split at h
      · injection h with h; subst h; rfl
      · cases h
      · split at h
        · injection h with h; subst h; rfl
        · cases h

theorem parseCore_wf (known : String → Bool) : ∀ (n : Nat) (cs : List Char) (t : Tree),
    parseCore known n cs = .ok t → t.wf = true
  | 0, cs, t, h => by simp [parseCore] at h
  | n+1, cs, t, h => by
    rw [parseCore] at h
    obtain ⟨expr, _, h⟩ := bind_ok h
    unfold parseBody at h
    split at h
    · exact valueFromString_wf h
    next f pos hsel =>
      dsimp only at h
      split at h
      · split at h
        · obtain ⟨a, ha, h⟩ := bind_ok h
          injection h with h; subst h
          exact parseCore_wf known n _ a ha
        · split at h
          · cases h
          next op hop =>
            obtain ⟨b, hb, h⟩ := bind_ok h
            obtain ⟨a, ha, h⟩ := bind_ok h
            injection h with h; subst h
            simp only [Tree.wf, Bool.and_eq_true]
            exact ⟨parseCore_wf known n _ a ha, parseCore_wf known n _ b hb⟩
      · split at h
        · cases h
        next fn hfn =>
          obtain ⟨a, ha, h⟩ := bind_ok h
          injection h with h; subst h
          simp only [Tree.wf, Bool.and_eq_true]
          exact ⟨ofName_wf hfn, parseCore_wf known n _ a ha⟩

theorem parse_wf {syms : List String} {s : String} {t : Tree} (h : parse syms s = .ok t) :
    t.wf = true := parseCore_wf _ _ _ _ h

theorem parse_ne_fuel (syms : List String) (s : String) : parse syms s ≠ .error .fuel :=
  parseCore_ne_fuel _ _ _ (Nat.lt_succ_self _)

end Sympler.Expr
