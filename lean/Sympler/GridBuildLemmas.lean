import Sympler.CellsLemmas

/-!
The grid that `Sympler.Grid.subdivide` (= `ManagerCell::cellSubdivide`) builds satisfies `GridOK` — for
EVERY box, cutoff and periodicity: each link is pushed into exactly one neighbour list of each of its two
end cells (and the local link of a cell is the link with the cell's own index), outlets are existing
cells.  This discharges the static hypothesis of the C09 theorems in general
(`subdivide_gridOK`).  (`OutSingle` and `GeomOK` are NOT proved in general, only checked per grid.)
Core Lean only.
-/
namespace Sympler.Grid
open Sympler Sympler.Cells Sympler.Gen.CellTables

/-- how often link `l` occurs in the 26 neighbour lists of cell `c` -/
def nbCount (g : Grid) (c l : Nat) : Nat := ((List.range numNeighbors).flatMap (g.nbAt c)).count l

theorem nbCount_eq_sum (g : Grid) (c l : Nat) :
    nbCount g c l = ((List.range numNeighbors).map fun j => (g.nbAt c j).count l).sum := by
  unfold nbCount
  rw [List.count_flatMap]
  rfl

theorem get_pushAt (s : Store (Store (List Nat))) (c d v c' d' : Nat) :
    ((pushAt s c d v).get c').get d' = if c' = c ∧ d' = d then (s.get c).get d ++ [v] else (s.get c').get d' :=
  get_setAt s c d _ c' d'

/-- invariant of the "look for neighbours" phase of `cellSubdivide` over `N` cells -/
structure BInv (N : Nat) (g : Grid) : Prop where
  size : g.cells.size = N
  nc_nonneg : 0 ≤ g.nc.1 ∧ 0 ≤ g.nc.2.1 ∧ 0 ≤ g.nc.2.2
  prod : g.nc.1 * g.nc.2.1 * g.nc.2.2 = (N : Int)
  loc : ∀ c, c < N → g.loc.get c = c
  nlinks : N ≤ g.links.size
  local_ : ∀ c, c < N → (g.links.getD c default).first = c ∧ (g.links.getD c default).second = c
  cnt : ∀ c l, nbCount g c l = if N ≤ l ∧ l < g.links.size then ends g l c else 0
  ends_lt : ∀ l, l < g.links.size → (g.links.getD l default).first < N ∧ (g.links.getD l default).second < N
  out_lt : ∀ c n t, t ∈ g.outAt c n → t < N

theorem getD_push_lt {α : Type} (a : Array α) (x d : α) {i : Nat} (h : i < a.size) :
    (a.push x).getD i d = a.getD i d := by
  have : i ≠ a.size := by omega
  simp [Array.getD_eq_getD_getElem?, Array.getElem?_push, this]

theorem getD_push_eq {α : Type} (a : Array α) (x d : α) : (a.push x).getD a.size d = x := by
  simp [Array.getD_eq_getD_getElem?, Array.getElem?_push]

theorem ends_push_lt (g : Grid) (lk : LinkGeom) (g' : Grid) (hl : g'.links = g.links.push lk) {l : Nat}
    (h : l < g.links.size) (c : Nat) : ends g' l c = ends g l c := by
  unfold ends; rw [hl, getD_push_lt _ _ _ h]

theorem nbCount_two_pushes (g g' : Grid) {a wa b wb v : Nat}
    (hnb : g'.nb = pushAt (pushAt g.nb a wa v) b wb v) (hwa : wa < numNeighbors) (hwb : wb < numNeighbors)
    (hdiff : ¬ (b = a ∧ wb = wa)) (c l : Nat) :
    nbCount g' c l = nbCount g c l +
      (if l = v then (if c = a then 1 else 0) + (if c = b then 1 else 0) else 0) := by
  rw [nbCount_eq_sum, nbCount_eq_sum]
  -- per direction
  have hper : ∀ j, (g'.nbAt c j).count l = (g.nbAt c j).count l +
      (if c = a ∧ j = wa then (if l = v then 1 else 0) else 0) +
      (if c = b ∧ j = wb then (if l = v then 1 else 0) else 0) := by
    intro j
    simp only [Grid.nbAt, hnb, get_pushAt]
    have hcnt : ∀ (X : List Nat), (X ++ [v]).count l = X.count l + (if l = v then 1 else 0) := by
      intro X
      rw [List.count_append, List.count_singleton]
      by_cases hlv : l = v
      · subst hlv; simp
      · have : ¬ (v == l) = true := by simpa using fun e => hlv e.symm
        simp [hlv, this]
    by_cases h2 : c = b ∧ j = wb
    · obtain ⟨rfl, rfl⟩ := h2
      simp only [and_self, if_true, hdiff, if_false, hcnt]
      by_cases h1 : c = a ∧ j = wa
      · exact absurd h1 hdiff
      · first | omega | (simp only [h1, if_false]; omega)
    · simp only [h2, if_false]
      by_cases h1 : c = a ∧ j = wa
      · obtain ⟨rfl, rfl⟩ := h1
        simp only [and_self, if_true, hcnt]; omega
      · simp only [h1, if_false]; omega
  let f := fun j => (g.nbAt c j).count l
  let f1 := fun j => f j + (if c = a ∧ j = wa then (if l = v then 1 else 0) else 0)
  let f2 := fun j => f1 j + (if c = b ∧ j = wb then (if l = v then 1 else 0) else 0)
  have e2 : ((List.range numNeighbors).map fun j => (g'.nbAt c j).count l) = (List.range numNeighbors).map f2 := by
    apply List.map_congr_left; intro j _; exact hper j
  rw [e2]
  have s1 : ((List.range numNeighbors).map f1).sum = ((List.range numNeighbors).map f).sum +
      (if c = a then (if l = v then 1 else 0) else 0) := by
    apply sum_map_range_update f f1 numNeighbors wa _ hwa
    · intro j hj; simp only [f1, hj, and_false, if_false, Nat.add_zero]
    · simp only [f1, and_true]
  have s2 : ((List.range numNeighbors).map f2).sum = ((List.range numNeighbors).map f1).sum +
      (if c = b then (if l = v then 1 else 0) else 0) := by
    apply sum_map_range_update f1 f2 numNeighbors wb _ hwb
    · intro j hj; simp only [f2, hj, and_false, if_false, Nat.add_zero]
    · simp only [f2, and_true]
  rw [s2, s1]
  by_cases hlv : l = v <;> simp [hlv, f] <;> omega

theorem establishLink_binv {N : Nat} {g : Grid} (h : BInv N g) {this nb wh : Nat} (ht : this < N)
    (hn : nb < N) (hw : wh < numNeighbors) (aoF aoS : Bool) : BInv N (establishLink g this nb wh aoF aoS) := by
  unfold establishLink
  split
  · exact h
  · -- a new link with index `g.links.size`
    have hinv : (invNeighbor wh).toNat < numNeighbors := by
      unfold invNeighbor numNeighbors at *; omega
    have hne : (invNeighbor wh).toNat ≠ wh := by
      unfold invNeighbor numNeighbors at *; omega
    simp only []
    refine ⟨h.size, h.nc_nonneg, h.prod, h.loc, ?_, ?_, ?_, ?_, h.out_lt⟩
    · simp only [Array.size_push]; have := h.nlinks; omega
    · intro c hc
      have hlt : c < g.links.size := by have := h.nlinks; omega
      simp only [getD_push_lt _ _ _ hlt]
      exact h.local_ c hc
    · intro c l
      rw [nbCount_two_pushes g _ rfl hw hinv (fun hh => hne hh.2) c l, h.cnt c l]
      simp only [Array.size_push]
      by_cases hl : l = g.links.size
      · subst hl
        have hN := h.nlinks
        have c1 : ¬ (N ≤ g.links.size ∧ g.links.size < g.links.size) := by omega
        have c2 : N ≤ g.links.size ∧ g.links.size < g.links.size + 1 := by omega
        rw [if_neg c1, if_pos c2]
        unfold ends
        simp only [getD_push_eq, mkLink]
        have e1 : (this = c) ↔ (c = this) := eq_comm
        have e2 : (nb = c) ↔ (c = nb) := eq_comm
        simp only [e1, e2, if_true]
        omega
      · simp only [hl, if_false, Nat.add_zero]
        by_cases hc1 : N ≤ l ∧ l < g.links.size
        · have hc2 : N ≤ l ∧ l < g.links.size + 1 := by omega
          rw [if_pos hc1, if_pos hc2]
          unfold ends
          rw [getD_push_lt _ _ _ hc1.2]
        · have hc2 : ¬ (N ≤ l ∧ l < g.links.size + 1) := by omega
          rw [if_neg hc1, if_neg hc2]
    · intro l hl
      simp only [Array.size_push] at hl
      by_cases hlt : l < g.links.size
      · simp only [getD_push_lt _ _ _ hlt]; exact h.ends_lt l hlt
      · have : l = g.links.size := by omega
        subst this
        simp only [getD_push_eq, mkLink]
        exact ⟨ht, hn⟩

theorem pushOutlet_lt {N : Nat} {o : Store (Store (List Nat))} (h : ∀ c n t, t ∈ (o.get c).get n → t < N)
    (c d v : Nat) (hv : v < N) : ∀ c' n t, t ∈ ((pushOutlet o c d v).get c').get n → t < N := by
  intro c' n t ht
  unfold pushOutlet at ht
  split at ht
  · exact h c' n t ht
  · rw [get_pushAt] at ht
    split at ht
    · rcases List.mem_append.mp ht with ht | ht
      · exact h c d t ht
      · simp at ht; rw [ht]; exact hv
    · exact h c' n t ht

theorem binv_out {N : Nat} {g : Grid} (h : BInv N g) (o : Store (Store (List Nat)))
    (ho : ∀ c n t, t ∈ (o.get c).get n → t < N) : BInv N { g with out := o } :=
  ⟨h.size, h.nc_nonneg, h.prod, h.loc, h.nlinks, h.local_, h.cnt, h.ends_lt, ho⟩

theorem addNeighbor_binv {N : Nat} {g : Grid} (h : BInv N g) {this nb wh : Nat} (ht : this < N)
    (hn : nb < N) (hw : wh < numNeighbors) : BInv N (addNeighbor g this nb wh) := by
  unfold addNeighbor
  have h1 := establishLink_binv h ht hn hw true true
  exact binv_out h1 _ (pushOutlet_lt (pushOutlet_lt h1.out_lt this wh nb hn) nb _ this ht)

theorem addPeriodic_binv {N : Nat} {g : Grid} (h : BInv N g) {this nb wh : Nat} (hn : nb < N) :
    BInv N (addPeriodic g this nb wh) := by
  unfold addPeriodic
  exact binv_out h _ (pushOutlet_lt h.out_lt this wh nb hn)

/-- `TOCELLINDEX` of a position inside the region is a cell index -/
theorem toCellIndex_lt {nc p : V3 Int} (hr : posInRange nc p = true) :
    0 ≤ toCellIndex p nc ∧ toCellIndex p nc < nc.1 * nc.2.1 * nc.2.2 := by
  unfold posInRange V3.all V3.map2 at hr
  simp only [Bool.and_eq_true, decide_eq_true_eq] at hr
  obtain ⟨⟨⟨hx, hx'⟩, hy, hy'⟩, hz, hz'⟩ := hr
  unfold toCellIndex
  generalize p.1 = x at *
  generalize p.2.1 = y at *
  generalize p.2.2 = z at *
  generalize nc.1 = nx at *
  generalize nc.2.1 = ny at *
  generalize nc.2.2 = nz at *
  have h1 : z * ny ≤ (nz - 1) * ny := Int.mul_le_mul_of_nonneg_right (by omega) (by omega)
  have h1' : (nz - 1) * ny = nz * ny - ny := (Int.sub_mul ..).trans (by simp)
  have h0 : 0 ≤ z * ny := Int.mul_nonneg hz (by omega)
  have h2 : (z * ny + y) * nx ≤ (nz * ny - 1) * nx := Int.mul_le_mul_of_nonneg_right (by omega) (by omega)
  have h2' : (nz * ny - 1) * nx = nz * ny * nx - nx := (Int.sub_mul ..).trans (by simp)
  have h3 : 0 ≤ (z * ny + y) * nx := Int.mul_nonneg (by omega) (by omega)
  have h4 : nx * ny * nz = nz * ny * nx := by
    rw [Int.mul_comm nx ny, Int.mul_comm (ny * nx) nz, Int.mul_assoc]
  constructor <;> omega

theorem neighborStep_binv {N : Nat} (per : V3 Bool) {g : Grid} (h : BInv N g) {i n : Nat} (hi : i < N)
    (hn : n < numNeighbors) : BInv N (neighborStep per g i n) := by
  unfold neighborStep
  split
  · simp only []
    split
    · rename_i hr
      have hb := toCellIndex_lt hr
      have hc : (toCellIndex (neighborPos g.nc per (g.cells.getD i default).tag (offsets.getD n (0, 0, 0))) g.nc).toNat
          < N := by
        have := h.prod; omega
      split
      · exact addPeriodic_binv h hc
      · exact addNeighbor_binv h hi hc hn
    · exact h
  · exact h

theorem foldl_binv {N : Nat} (per : V3 Bool) (i : Nat) (hi : i < N) :
    ∀ (ns : List Nat) (g : Grid), (∀ n ∈ ns, n < numNeighbors) → BInv N g →
      BInv N (ns.foldl (fun g n => neighborStep per g i n) g) := by
  intro ns
  induction ns with
  | nil => intro g _ h; exact h
  | cons n ns ih =>
    intro g hn h
    rw [List.foldl_cons]
    apply ih
    · intro m hm; exact hn m (by simp [hm])
    · exact neighborStep_binv per h hi (hn n (by simp))

theorem foldl_cells_binv {N : Nat} (per : V3 Bool) :
    ∀ (cs : List Nat) (g : Grid), (∀ i ∈ cs, i < N) → BInv N g →
      BInv N (cs.foldl (fun g i => (List.range numNeighbors).foldl (fun g n => neighborStep per g i n) g) g) := by
  intro cs
  induction cs with
  | nil => intro g _ h; exact h
  | cons i cs ih =>
    intro g hi h
    rw [List.foldl_cons]
    apply ih
    · intro m hm; exact hi m (by simp [hm])
    · exact foldl_binv per i (hi i (by simp)) _ g (fun n hn => List.mem_range.mp hn) h

/-- the state after the `init()` loop over the first `m` cells -/
structure InitInv (g0 : Grid) (m : Nat) (g : Grid) : Prop where
  cells : g.cells = g0.cells
  nc : g.nc = g0.nc
  nb : g.nb = g0.nb
  out : g.out = g0.out
  size : g.links.size = m
  loc : ∀ c, c < m → g.loc.get c = c
  local_ : ∀ c, c < m → (g.links.getD c default).first = c ∧ (g.links.getD c default).second = c

theorem initCell_inv {g0 g : Grid} {m : Nat} (h : InitInv g0 m g) : InitInv g0 (m + 1) (initCell g m) := by
  unfold initCell
  refine ⟨h.cells, h.nc, h.nb, h.out, by simp [h.size], ?_, ?_⟩
  · intro c hc
    simp only [Store.get_set, h.size]
    by_cases e : c = m
    · simp [e]
    · simp only [e, if_false]; exact h.loc c (by omega)
  · intro c hc
    by_cases e : c = m
    · subst e
      have : c = g.links.size := h.size.symm
      simp only []
      rw [this, getD_push_eq]
      exact ⟨rfl, rfl⟩
    · have hlt : c < g.links.size := by rw [h.size]; omega
      simp only [getD_push_lt _ _ _ hlt]
      exact h.local_ c (by omega)

theorem foldl_init_inv {g0 : Grid} (h0 : g0.links.size = 0) :
    ∀ m, InitInv g0 m ((List.range m).foldl initCell g0) := by
  intro m
  induction m with
  | zero => exact ⟨rfl, rfl, rfl, rfl, h0, fun c hc => absurd hc (by omega), fun c hc => absurd hc (by omega)⟩
  | succ m ih =>
    rw [List.range_succ, List.foldl_append]
    exact initCell_inv ih

theorem cellPositions_length (nc : V3 Int) :
    (cellPositions nc).length = nc.2.2.toNat * (nc.2.1.toNat * nc.1.toNat) := by
  unfold cellPositions V3.x V3.y V3.z
  have hconst : ∀ (l : List Nat) (k : Nat) (f : Nat → List (V3 Int)), (∀ a, (f a).length = k) →
      (l.flatMap f).length = l.length * k := by
    intro l k f hf
    induction l with
    | nil => simp
    | cons a r ih => simp only [List.flatMap_cons, List.length_append, hf a, ih, List.length_cons]; rw [Nat.add_mul]; omega
  rw [hconst _ (nc.2.1.toNat * nc.1.toNat)]
  · simp
  · intro z
    rw [hconst _ nc.1.toNat]
    · simp
    · intro y; simp

theorem count_pair (l c : Nat) : List.count l [c, c] = if l = c then 2 else 0 := by
  by_cases h : l = c
  · subst h; simp
  · have : ¬ (c == l) = true := by simpa using fun e => h e.symm
    simp [List.count_cons, h, this]

theorem binv_gridOK {N : Nat} {g : Grid} (h : BInv N g) : GridOK g := by
  refine ⟨?_, ?_⟩
  · intro c hc l
    rw [h.size] at hc
    unfold notifyList
    rw [List.count_append]
    have hnb : ((List.range numNeighbors).flatMap (g.nbAt c)).count l = nbCount g c l := rfl
    rw [hnb, h.cnt c l, h.loc c hc]
    have hN := h.nlinks
    by_cases hl : l < N
    · have c1 : ¬ (N ≤ l ∧ l < g.links.size) := by omega
      have c2 : l < g.links.size := by omega
      rw [if_neg c1, if_pos c2]
      unfold ends
      obtain ⟨e1, e2⟩ := h.local_ l hl
      rw [e1, e2, count_pair]
      by_cases hlc : l = c
      · simp [hlc]
      · simp [hlc]
    · have hcl : l ≠ c := by omega
      rw [count_pair, if_neg hcl]
      by_cases hl2 : l < g.links.size
      · have c1 : N ≤ l ∧ l < g.links.size := by omega
        rw [if_pos c1, if_pos hl2]; omega
      · have c1 : ¬ (N ≤ l ∧ l < g.links.size) := by omega
        rw [if_neg c1, if_neg hl2]
  · intro c _ n _ t ht
    rw [h.size]
    exact h.out_lt c n t ht

/-- the grid built by the loops of `cellSubdivide` satisfies `GridOK`, for every shape, box and periodicity -/
theorem buildGrid_gridOK (nc : V3 Int) (c1 c2 invWidth width : V3 Rat) (per : V3 Bool)
    (hnc : 0 ≤ nc.1 ∧ 0 ≤ nc.2.1 ∧ 0 ≤ nc.2.2) : GridOK (buildGrid nc c1 c2 invWidth width per) := by
  unfold buildGrid
  simp only []
  generalize hcells : mkCells nc c1 width = cells
  have hsize : cells.size = nc.2.2.toNat * (nc.2.1.toNat * nc.1.toNat) := by
    rw [← hcells]; simp [mkCells, cellPositions_length]
  generalize hg0 : grid0 nc c1 c2 invWidth cells = g0
  have h0 : g0.links.size = 0 := by rw [← hg0]; rfl
  have hinit := foldl_init_inv h0 cells.size
  generalize (List.range cells.size).foldl initCell g0 = g1 at hinit
  have hb : BInv cells.size g1 := by
    have hcells1 : g1.cells = cells := by rw [hinit.cells, ← hg0]; rfl
    have hnc1 : g1.nc = nc := by rw [hinit.nc, ← hg0]; rfl
    have hnb1 : ∀ c j, g1.nbAt c j = [] := by
      intro c j; unfold Grid.nbAt; rw [hinit.nb, ← hg0]; simp [grid0]
    have hout1 : ∀ c j, g1.outAt c j = [] := by
      intro c j; unfold Grid.outAt; rw [hinit.out, ← hg0]; simp [grid0]
    refine ⟨by rw [hcells1], by rw [hnc1]; exact hnc, ?_, hinit.loc, by rw [hinit.size]; exact Nat.le_refl _,
      hinit.local_, ?_, ?_, ?_⟩
    · rw [hnc1, hsize]
      obtain ⟨a1, a2, a3⟩ := hnc
      have e1 : (nc.1.toNat : Int) = nc.1 := Int.toNat_of_nonneg a1
      have e2 : (nc.2.1.toNat : Int) = nc.2.1 := Int.toNat_of_nonneg a2
      have e3 : (nc.2.2.toNat : Int) = nc.2.2 := Int.toNat_of_nonneg a3
      rw [Int.natCast_mul, Int.natCast_mul, e1, e2, e3]
      rw [Int.mul_comm nc.2.2, Int.mul_comm nc.2.1]
    · intro c l
      have : nbCount g1 c l = 0 := by
        unfold nbCount
        apply List.count_eq_zero.mpr
        intro hm
        obtain ⟨j, _, hj⟩ := List.mem_flatMap.mp hm
        rw [hnb1] at hj; simp at hj
      rw [this, hinit.size]
      have : ¬ (cells.size ≤ l ∧ l < cells.size) := by omega
      rw [if_neg this]
    · intro l hl
      rw [hinit.size] at hl
      obtain ⟨e1, e2⟩ := hinit.local_ l hl
      rw [e1, e2]; exact ⟨hl, hl⟩
    · intro c n t ht; rw [hout1] at ht; simp at ht
  exact binv_gridOK (foldl_cells_binv per _ g1 (fun i hi => List.mem_range.mp hi) hb)

/-- **the grid built by `cellSubdivide` satisfies `GridOK`, for every cutoff, box and periodicity** -/
theorem subdivide_gridOK {cutoff : Rat} {c1 c2 : V3 Rat} {per : V3 Bool} {G : Grid}
    (h : subdivide cutoff c1 c2 per = some G) : GridOK G := by
  unfold subdivide at h
  simp only [] at h
  generalize (V3.map (fun (di : Rat) => if cutoff > 0 then truncRat (di / cutoff) else 2) (V3.sub c2 c1) : V3 Int)
    = nc at h
  by_cases hany : (V3.map (fun (n : Int) => decide (n < 2)) nc).any = true
  · rw [if_pos hany] at h; simp at h
  · rw [if_neg hany] at h
    have hG := Option.some.inj h
    rw [← hG]
    apply buildGrid_gridOK
    simp only [V3.any, V3.map, Bool.or_eq_true, decide_eq_true_eq, not_or, Int.not_lt] at hany
    obtain ⟨⟨hn1, hn2⟩, hn3⟩ := hany
    exact ⟨by omega, by omega, by omega⟩

end Sympler.Grid
