/-!
`Store α`: a total map `Nat → α` with a default value, backed by an array (grows on demand).
Used by the cell models (`Grid`, `Cells`) for everything the C++ keeps in per-object fields
(`Cell::next`, `Cell::prev`, `CellLink::m_n_active_cells`, `Cell::m_particles[colour]`, …):
object = index, field = one `Store`.  The only facts the proofs use are `get_mk` and `get_set`.
Core Lean only.
-/
namespace Sympler

structure Store (α : Type) where
  arr : Array α
  dflt : α

namespace Store
variable {α : Type}

/-- the constant map -/
def const (d : α) : Store α := ⟨#[], d⟩

def get (s : Store α) (i : Nat) : α := s.arr.getD i s.dflt

def set (s : Store α) (i : Nat) (v : α) : Store α :=
  if i < s.arr.size then ⟨s.arr.setIfInBounds i v, s.dflt⟩
  else ⟨(s.arr ++ Array.replicate (i - s.arr.size) s.dflt).push v, s.dflt⟩

@[simp] theorem get_const (d : α) (i : Nat) : (const d).get i = d := by
  simp [const, get]

theorem get_set (s : Store α) (i j : Nat) (v : α) :
    (s.set i v).get j = if j = i then v else s.get j := by
  unfold set get
  simp only [Array.getD_eq_getD_getElem?]
  split
  · rename_i h
    rw [Array.getElem?_setIfInBounds]
    by_cases hj : j = i
    · subst hj; simp [h]
    · have : ¬ i = j := fun e => hj e.symm
      simp [hj, this]
  · rename_i h
    rw [Array.getElem?_push]
    simp only [Array.size_append, Array.size_replicate]
    have hsz : s.arr.size + (i - s.arr.size) = i := by omega
    rw [hsz]
    by_cases hj : j = i
    · simp [hj]
    · simp only [hj, if_false]
      rw [Array.getElem?_append]
      by_cases h1 : j < s.arr.size
      · simp [h1]
      · have h2 : s.arr[j]? = none := by simp; omega
        simp only [h1, if_false, h2, Array.getElem?_replicate]
        split <;> simp

@[simp] theorem get_set_self (s : Store α) (i : Nat) (v : α) : (s.set i v).get i = v := by
  simp [get_set]

theorem get_set_ne (s : Store α) {i j : Nat} (v : α) (h : j ≠ i) : (s.set i v).get j = s.get j := by
  simp [get_set, h]

end Store
end Sympler
