import Sympler.DataFormatHeap
/-!
# The invariant of the `DataFormat` model state (C14)

`Inv al s`: every format satisfies the layout invariant, every record refers to an existing
format and its block is a typed prefix of it, and the heap is owned exclusively: every smart
pointer of every live record points to a live cell with reference count 1, no cell has two
referents, and every live cell is referenced or was leaked by `operator=` (ghost list).
Core Lean only.
-/
namespace Sympler.DataFormat

local notation "Addr" => Nat

/-- the values stored in the block of record `d` (`[]` when there is none) -/
def valsOf (datas : List (Option Data)) (d : Nat) : List Val :=
  match datas[d]? with
  | some (some ⟨_, some b⟩) => b.vals
  | _ => []

theorem valsOf_eq {datas : List (Option Data)} {d : Nat} {dat : Data} (h : datas[d]? = some (some dat)) :
    valsOf datas d = match dat.block with | some b => b.vals | none => [] := by
  unfold valsOf; rw [h]
  obtain ⟨f, b⟩ := dat
  cases b <;> rfl

theorem valsOf_of_block {datas : List (Option Data)} {d : Nat} {dat : Data} {b : Block}
    (h : datas[d]? = some (some dat)) (hb : dat.block = some b) : valsOf datas d = b.vals := by
  rw [valsOf_eq h, hb]

theorem valsOf_none {datas : List (Option Data)} {d : Nat} (h : datas[d]? = some none ∨ datas[d]? = none) :
    valsOf datas d = [] := by
  unfold valsOf
  rcases h with h | h <;> rw [h]

theorem valsOf_set_ne {datas : List (Option Data)} {d x : Nat} {v : Option Data} (h : x ≠ d) :
    valsOf (datas.set d v) x = valsOf datas x := by
  unfold valsOf; rw [List.getElem?_set_ne (Ne.symm h)]

theorem valsOf_append_ne {datas : List (Option Data)} {x : Nat} {v : Option Data} (h : x ≠ datas.length) :
    valsOf (datas ++ [v]) x = valsOf datas x := by
  unfold valsOf
  by_cases hx : x < datas.length
  · rw [List.getElem?_append_left hx]
  · rw [List.getElem?_eq_none (by simp; omega), List.getElem?_eq_none (by omega)]

theorem valsOf_set_self {datas : List (Option Data)} {d : Nat} {fm : Option Nat} {b : Block}
    (hd : d < datas.length) : valsOf (datas.set d (some ⟨fm, some b⟩)) d = b.vals := by
  unfold valsOf; rw [List.getElem?_set_self hd]

theorem valsOf_append_self {datas : List (Option Data)} {fm : Option Nat} {b : Block} :
    valsOf (datas ++ [some ⟨fm, some b⟩]) datas.length = b.vals := by
  unfold valsOf; simp

/-- exclusive ownership of the heap -/
structure HeapOk (s : State) : Prop where
  live : ∀ (d : Nat) (a : Addr), owns (valsOf s.datas d) a → ∃ c : Cell, s.heap[a]? = some (some c)
  rc : ∀ (a : Addr) (c : Cell), s.heap[a]? = some (some c) → c.rc = 1
  inj : ∀ d : Nat, slotsInj (valsOf s.datas d)
  sep : ∀ (d1 d2 : Nat) (a : Addr), owns (valsOf s.datas d1) a → owns (valsOf s.datas d2) a → d1 = d2
  leakSep : ∀ a ∈ s.leaked, ∀ d : Nat, ¬ owns (valsOf s.datas d) a
  leakLive : ∀ a ∈ s.leaked, ∃ c : Cell, s.heap[a]? = some (some c)
  complete : ∀ (a : Addr) (c : Cell), s.heap[a]? = some (some c) →
    (∃ d : Nat, owns (valsOf s.datas d) a) ∨ a ∈ s.leaked

theorem HeapOk.ownedLive {s : State} (hs : HeapOk s) (d : Nat) : ownedLive s.heap (valsOf s.datas d) := by
  intro a ha
  obtain ⟨c, hc⟩ := hs.live d a ha
  exact ⟨c, hc, hs.rc a c hc⟩

/-- the general step of the ownership invariant: only record `d` and the cells it owns (and
    new cells) change -/
theorem HeapOk.update {s : State} (hs : HeapOk s) (d : Nat) (fmts' : List Format)
    (datas' : List (Option Data)) (h' : Heap) (L : List Addr)
    (hother : ∀ x, x ≠ d → valsOf datas' x = valsOf s.datas x)
    (hinj : slotsInj (valsOf datas' d))
    (hframe : ∀ (a : Addr) (c : Cell), s.heap[a]? = some (some c) → ¬ owns (valsOf s.datas d) a →
      h'[a]? = some (some c))
    (hsrc : ∀ a : Nat, owns (valsOf datas' d) a → owns (valsOf s.datas d) a ∨ s.heap.length ≤ a)
    (hlive : ∀ a, owns (valsOf datas' d) a → ∃ c : Cell, h'[a]? = some (some c))
    (hrc : ∀ (a : Addr) (c : Cell), h'[a]? = some (some c) → c.rc = 1)
    (hnores : ∀ (a : Nat) (c : Cell), a < s.heap.length → h'[a]? = some (some c) →
      ∃ c0 : Cell, s.heap[a]? = some (some c0))
    (hcomplete : ∀ (a : Nat) (c : Cell), h'[a]? = some (some c) →
      (owns (valsOf s.datas d) a ∨ s.heap.length ≤ a) → owns (valsOf datas' d) a ∨ a ∈ L)
    (hL : ∀ a ∈ L, owns (valsOf s.datas d) a ∧ ¬ owns (valsOf datas' d) a ∧
      ∃ c : Cell, h'[a]? = some (some c)) :
    HeapOk ⟨fmts', datas', h', s.leaked ++ L⟩ := by
  have oldLt : ∀ (x a : Nat), owns (valsOf s.datas x) a → a < s.heap.length := by
    intro x a ha
    obtain ⟨c, hc⟩ := hs.live x a ha
    exact lt_of_getElem?_some hc
  refine ⟨?_, hrc, ?_, ?_, ?_, ?_, ?_⟩
  · -- live
    intro x a ha
    by_cases hx : x = d
    · subst hx; exact hlive a ha
    · rw [hother x hx] at ha
      obtain ⟨c, hc⟩ := hs.live x a ha
      exact ⟨c, hframe a c hc (fun ho => hx (hs.sep x d a ha ho))⟩
  · -- inj
    intro x
    by_cases hx : x = d
    · subst hx; exact hinj
    · show slotsInj (valsOf datas' x)
      rw [hother x hx]; exact hs.inj x
  · -- sep
    intro x1 x2 a h1 h2
    show x1 = x2
    by_cases hx1 : x1 = d <;> by_cases hx2 : x2 = d
    · rw [hx1, hx2]
    · subst hx1
      have h2' : owns (valsOf s.datas x2) a := by rw [← hother x2 hx2]; exact h2
      rcases hsrc a h1 with ho | hn
      · exact (hx2 (hs.sep x2 x1 a h2' ho)).elim
      · have := oldLt x2 a h2'; omega
    · subst hx2
      have h1' : owns (valsOf s.datas x1) a := by rw [← hother x1 hx1]; exact h1
      rcases hsrc a h2 with ho | hn
      · exact (hx1 (hs.sep x1 x2 a h1' ho)).elim
      · have := oldLt x1 a h1'; omega
    · have h1' : owns (valsOf s.datas x1) a := by rw [← hother x1 hx1]; exact h1
      have h2' : owns (valsOf s.datas x2) a := by rw [← hother x2 hx2]; exact h2
      exact hs.sep x1 x2 a h1' h2'
  · -- leakSep
    intro a ha x hx
    have ha' : a ∈ s.leaked ∨ a ∈ L := by simpa using ha
    have hx' : owns (valsOf datas' x) a := hx
    rcases ha' with ha' | ha'
    · by_cases hxd : x = d
      · subst hxd
        rcases hsrc a hx' with ho | hn
        · exact hs.leakSep a ha' x ho
        · obtain ⟨c, hc⟩ := hs.leakLive a ha'
          have := lt_of_getElem?_some hc; omega
      · rw [hother x hxd] at hx'
        exact hs.leakSep a ha' x hx'
    · obtain ⟨ho, hn, _⟩ := hL a ha'
      by_cases hxd : x = d
      · subst hxd; exact hn hx'
      · rw [hother x hxd] at hx'
        exact hxd (hs.sep x d a hx' ho)
  · -- leakLive
    intro a ha
    have ha' : a ∈ s.leaked ∨ a ∈ L := by simpa using ha
    rcases ha' with ha' | ha'
    · obtain ⟨c, hc⟩ := hs.leakLive a ha'
      exact ⟨c, hframe a c hc (hs.leakSep a ha' d)⟩
    · exact (hL a ha').2.2
  · -- complete
    intro a c hc
    show (∃ x, owns (valsOf datas' x) a) ∨ a ∈ s.leaked ++ L
    have hc' : h'[a]? = some (some c) := hc
    by_cases hlt : a < s.heap.length
    · obtain ⟨c0, hc0⟩ := hnores a c hlt hc'
      rcases hs.complete a c0 hc0 with ⟨x, hx⟩ | hl
      · by_cases hxd : x = d
        · subst hxd
          rcases hcomplete a c hc' (Or.inl hx) with hn | hl
          · exact Or.inl ⟨x, hn⟩
          · exact Or.inr (by simp [hl])
        · exact Or.inl ⟨x, by rw [hother x hxd]; exact hx⟩
      · exact Or.inr (by simp [hl])
    · rcases hcomplete a c hc' (Or.inr (Nat.le_of_not_lt hlt)) with hn | hl
      · exact Or.inl ⟨d, hn⟩
      · exact Or.inr (by simp [hl])

/-! ## Blocks and records -/

/-- a block of a record of format `f`: the values are a typed prefix of the attributes and the
    byte size is the offset at which the next attribute would start -/
structure BlockOk (al : Option Nat) (f : Format) (b : Block) : Prop where
  len : b.vals.length ≤ f.byIndex.length
  size : b.size = prefixSize al (f.byIndex.take b.vals.length)
  typed : typed f.byIndex b.vals

def DataOk (al : Option Nat) (fmts : List Format) (dat : Data) : Prop :=
  match dat.fmt with
  | none => dat.block = none
  | some fid => ∃ f : Format, fmts[fid]? = some f ∧ ∀ b, dat.block = some b → BlockOk al f b

structure Inv (al : Option Nat) (s : State) : Prop where
  fmts : ∀ (fid : Nat) (f : Format), s.fmts[fid]? = some f → FormatOk al f
  datas : ∀ (d : Nat) (dat : Data), s.datas[d]? = some (some dat) → DataOk al s.fmts dat
  heap : HeapOk s

theorem Inv.init (al : Option Nat) : Inv al State.init := by
  refine ⟨by simp [State.init], by simp [State.init], ?_⟩
  have hv : ∀ d, valsOf State.init.datas d = [] := by intro d; simp [State.init, valsOf]
  refine ⟨?_, by simp [State.init], ?_, ?_, by simp [State.init], by simp [State.init], by simp [State.init]⟩
  · intro d a ha; rw [hv] at ha; exact absurd ha (owns_nil a)
  · intro d; rw [hv]; exact slotsInj_nil
  · intro d1 d2 a ha; rw [hv] at ha; exact absurd ha (owns_nil a)

/-- the block is stale (smaller than the format) exactly when it has fewer values than the
    format has attributes -/
theorem BlockOk.full_of_not_lt {al : Option Nat} {f : Format} {b : Block} (hf : FormatOk al f)
    (hb : BlockOk al f b) (h : ¬ b.size < f.size) : b.vals.length = f.byIndex.length := by
  by_cases hlt : b.vals.length < f.byIndex.length
  · exfalso
    obtain ⟨a, ha⟩ : ∃ a, f.byIndex[b.vals.length]? = some a :=
      ⟨f.byIndex[b.vals.length], by simp [hlt]⟩
    have h1 := prefixSize_take_succ al f.byIndex b.vals.length a ha
    have h2 := prefixSize_take_le al f.byIndex (b.vals.length + 1)
    have h3 := csize_pos al a.dtype
    rw [hb.size, hf.size] at h
    omega
  · have := hb.len; omega

theorem BlockOk.size_le {al : Option Nat} {f : Format} {b : Block} (hf : FormatOk al f)
    (hb : BlockOk al f b) : b.size ≤ f.size := by
  rw [hb.size, hf.size]; exact prefixSize_take_le al _ _

/-- `f'` has the attributes of `f` (with the same types) and possibly more -/
def Format.extendedBy (f f' : Format) : Prop :=
  ∀ (k : Nat) (a : Attr), f.byIndex[k]? = some a → ∃ a' : Attr, f'.byIndex[k]? = some a' ∧ a'.dtype = a.dtype

theorem Format.extendedBy_refl (f : Format) : f.extendedBy f := fun _ a h => ⟨a, h, rfl⟩

theorem Format.extendedBy_length {f f' : Format} (h : f.extendedBy f') : f.byIndex.length ≤ f'.byIndex.length := by
  by_cases h0 : f.byIndex.length = 0
  · omega
  · have hlt : f.byIndex.length - 1 < f.byIndex.length := by omega
    obtain ⟨a', ha', _⟩ := h (f.byIndex.length - 1) (f.byIndex[f.byIndex.length - 1]) (by simp [hlt])
    have := lt_of_getElem?_some ha'
    omega

theorem prefixSize_take_ext {al : Option Nat} {f f' : Format} (h : f.extendedBy f') :
    ∀ n, n ≤ f.byIndex.length → prefixSize al (f'.byIndex.take n) = prefixSize al (f.byIndex.take n) := by
  intro n
  induction n with
  | zero => intro _; simp
  | succ n ih =>
    intro hn
    have hlt : n < f.byIndex.length := by omega
    have ha : f.byIndex[n]? = some f.byIndex[n] := by simp [hlt]
    obtain ⟨a', ha', hd⟩ := h n _ ha
    rw [prefixSize_take_succ al _ n _ ha', prefixSize_take_succ al _ n _ ha, ih (by omega), hd]

theorem BlockOk.mono {al : Option Nat} {f f' : Format} {b : Block} (h : f.extendedBy f')
    (hb : BlockOk al f b) : BlockOk al f' b := by
  refine ⟨Nat.le_trans hb.len (Format.extendedBy_length h), ?_, ?_⟩
  · rw [hb.size, prefixSize_take_ext h _ hb.len]
  · intro k v a' hv ha'
    have hk : k < f.byIndex.length := Nat.lt_of_lt_of_le (lt_of_getElem?_some hv) hb.len
    have ha : f.byIndex[k]? = some f.byIndex[k] := by simp [hk]
    obtain ⟨a'', ha'', hd⟩ := h k _ ha
    rw [ha'] at ha''; cases ha''
    rw [hd]; exact hb.typed k v _ hv ha

theorem Format.extendedBy_addAttribute {al : Option Nat} {f f' : Format} {n sym : String} {t : DType}
    {p : Bool} {a : Attr} (h : f.addAttribute al n t p sym = .ok (a, f')) : f.extendedBy f' := by
  rcases Format.addAttribute_ok_cases h with ⟨_, _, hf'⟩ | ⟨_, _, hf'⟩
  · subst hf'
    intro k x hx
    exact ⟨x, by rw [List.getElem?_append_left (lt_of_getElem?_some hx)]; exact hx, rfl⟩
  · subst hf'; exact Format.extendedBy_refl _

theorem Format.extendedBy_setPersistent (f : Format) (i : Nat) (p : Bool) :
    f.extendedBy (f.setPersistent i p) := by
  cases ha : f.byIndex[i]? with
  | none => simp only [Format.setPersistent, ha]; exact Format.extendedBy_refl f
  | some a =>
    simp only [Format.setPersistent, ha]
    intro k x hx
    show ∃ a', (f.byIndex.set i { a with persistent := p })[k]? = some a' ∧ a'.dtype = x.dtype
    rw [List.getElem?_set]
    split
    · rename_i hik
      subst hik
      rw [ha] at hx; cases hx
      simp [lt_of_getElem?_some ha]
    · exact ⟨x, hx, rfl⟩

/-- replacing format `fid` by an extension keeps all records well formed -/
theorem DataOk.mono_fmts {al : Option Nat} {fmts : List Format} {fid : Nat} {f' : Format} {dat : Data}
    (hext : ∀ f, fmts[fid]? = some f → f.extendedBy f') (h : DataOk al fmts dat) :
    DataOk al (fmts.set fid f') dat := by
  unfold DataOk at h ⊢
  split
  · rename_i hn; simp only [hn] at h; exact h
  · rename_i fd hfd
    simp only [hfd] at h
    obtain ⟨f, hf, hb⟩ := h
    by_cases hfe : fd = fid
    · subst hfe
      refine ⟨f', by rw [List.getElem?_set_self (lt_of_getElem?_some hf)], ?_⟩
      intro b hbb
      exact (hb b hbb).mono (hext f hf)
    · exact ⟨f, by rw [List.getElem?_set_ne (Ne.symm hfe)]; exact hf, hb⟩

theorem DataOk.mono_append {al : Option Nat} {fmts : List Format} {f' : Format} {dat : Data}
    (h : DataOk al fmts dat) : DataOk al (fmts ++ [f']) dat := by
  unfold DataOk at h ⊢
  split
  · rename_i hn; simp only [hn] at h; exact h
  · rename_i fd hfd
    simp only [hfd] at h
    obtain ⟨f, hf, hb⟩ := h
    exact ⟨f, by rw [List.getElem?_append_left (lt_of_getElem?_some hf)]; exact hf, hb⟩

end Sympler.DataFormat
