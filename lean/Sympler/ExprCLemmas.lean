import Sympler.Expr

/-!
# C03 — lemmas about the C reader `run` / `parseCL`

* fuel monotonicity (`run_mono`);
* `parseCL_render`: for every *canonical* emitter term `e` (`CE.ok`), reading the text `e.render` gives
  `e.abs`.

Core Lean only.
-/
namespace Sympler.Expr

/-! ## Fuel monotonicity -/

/-- `g` succeeds wherever `f` does, with the same result -/
def RecLe (f g : Task → List Char → PRes) : Prop :=
  ∀ t cs r, f t cs = .ok r → g t cs = .ok r

theorem bind_mono {f g : Task → List Char → PRes} (h : RecLe f g) {t cs}
    {k : CX × List Char → PRes} {k' : CX × List Char → PRes} {res}
    (hk : ∀ p r, k p = .ok r → k' p = .ok r)
    (hf : (f t cs >>= k) = .ok res) : (g t cs >>= k') = .ok res := by
  cases hx : f t cs with
  | error e => simp [hx, bind, Except.bind] at hf
  | ok p =>
    rw [h _ _ _ hx]
    simp only [hx, bind, Except.bind] at hf ⊢
    exact hk _ _ hf

theorem stepCond_mono {f g} (h : RecLe f g) {cs r} (hf : stepCond f cs = .ok r) :
    stepCond g cs = .ok r := by
  unfold stepCond at hf ⊢
  refine bind_mono h ?_ hf
  rintro ⟨c, r0⟩ res h1
  dsimp only at h1 ⊢
  split at h1
  · refine bind_mono h ?_ h1
    rintro ⟨z, r2⟩ res h2
    dsimp only at h2 ⊢
    split at h2
    · refine bind_mono h ?_ h2
      rintro ⟨a, r4⟩ res h3
      dsimp only at h3 ⊢
      split at h3
      · refine bind_mono h ?_ h3
        rintro ⟨b, r6⟩ res h4
        exact h4
      · exact h3
    · exact h2
  · exact h1

theorem stepAdd_mono {f g} (h : RecLe f g) {cs r} (hf : stepAdd f cs = .ok r) :
    stepAdd g cs = .ok r := by
  unfold stepAdd at hf ⊢
  refine bind_mono h ?_ hf
  rintro ⟨c, r0⟩ res h1
  exact h _ _ _ h1

theorem stepAddLoop_mono {f g} (h : RecLe f g) {l cs r} (hf : stepAddLoop f l cs = .ok r) :
    stepAddLoop g l cs = .ok r := by
  unfold stepAddLoop at hf ⊢
  split at hf
  · split at hf
    next hc => rw [if_pos hc]; exact hf
    next hc =>
      rw [if_neg hc]
      refine bind_mono h ?_ hf
      rintro ⟨c, r0⟩ res h1
      exact h _ _ _ h1
  · split at hf
    next hc => rw [if_pos hc]; exact hf
    next hc =>
      rw [if_neg hc]
      refine bind_mono h ?_ hf
      rintro ⟨c, r0⟩ res h1
      exact h _ _ _ h1
  · exact hf

theorem stepMul_mono {f g} (h : RecLe f g) {cs r} (hf : stepMul f cs = .ok r) :
    stepMul g cs = .ok r := by
  unfold stepMul at hf ⊢
  refine bind_mono h ?_ hf
  rintro ⟨c, r0⟩ res h1
  exact h _ _ _ h1

theorem stepMulLoop_mono {f g} (h : RecLe f g) {l cs r} (hf : stepMulLoop f l cs = .ok r) :
    stepMulLoop g l cs = .ok r := by
  unfold stepMulLoop at hf ⊢
  split at hf
  · refine bind_mono h ?_ hf
    rintro ⟨c, r0⟩ res h1
    exact h _ _ _ h1
  · split at hf
    next hc => rw [if_pos hc]; exact hf
    next hc =>
      rw [if_neg hc]
      refine bind_mono h ?_ hf
      rintro ⟨c, r0⟩ res h1
      exact h _ _ _ h1
  · exact hf

theorem stepUnary_mono {f g} (h : RecLe f g) {cs r} (hf : stepUnary f cs = .ok r) :
    stepUnary g cs = .ok r := by
  unfold stepUnary at hf ⊢
  split at hf
  · split at hf
    next hc => rw [if_pos hc]; exact hf
    next hc =>
      rw [if_neg hc]
      refine bind_mono h ?_ hf
      rintro ⟨c, r0⟩ res h1
      exact h1
  · exact hf
  · split at hf
    next hc =>
      rw [if_pos hc]
      refine bind_mono h ?_ hf
      rintro ⟨c, r0⟩ res h1
      exact h1
    next hc => rw [if_neg hc]; exact h _ _ _ hf
  · exact h _ _ _ hf

theorem stepPrimary_mono {f g} (h : RecLe f g) {cs r} (hf : stepPrimary f cs = .ok r) :
    stepPrimary g cs = .ok r := by
  unfold stepPrimary at hf ⊢
  split at hf
  · refine bind_mono h ?_ hf
    rintro ⟨c, r0⟩ res h1
    exact h1
  · split at hf
    next hc => rw [if_pos hc]; exact hf
    next hc =>
      rw [if_neg hc]
      split at hf
      next hc2 =>
        rw [if_pos hc2]
        dsimp only at hf ⊢
        split at hf
        · split at hf
          next hc3 => rw [if_pos hc3]; exact hf
          next hc3 =>
            rw [if_neg hc3]
            refine bind_mono h ?_ hf
            rintro ⟨a, r2⟩ res h1
            dsimp only at h1 ⊢
            split at h1
            · exact h1
            · refine bind_mono h ?_ h1
              rintro ⟨b, r4⟩ res h2
              exact h2
            · exact h1
        · exact hf
      next hc2 => rw [if_neg hc2]; exact hf
  · exact hf

theorem runStep_mono {f g} (h : RecLe f g) : RecLe (runStep f) (runStep g) := by
  intro t cs r hf
  cases t with
  | cond => exact stepCond_mono h hf
  | add => exact stepAdd_mono h hf
  | addLoop l => exact stepAddLoop_mono h hf
  | mul => exact stepMul_mono h hf
  | mulLoop l => exact stepMulLoop_mono h hf
  | unary => exact stepUnary_mono h hf
  | primary => exact stepPrimary_mono h hf

theorem run_succ_le : ∀ n, RecLe (run n) (run (n+1))
  | 0 => by intro t cs r h; simp [run] at h
  | n+1 => by
    show RecLe (runStep (run n)) (runStep (run (n+1)))
    exact runStep_mono (run_succ_le n)

theorem run_mono {n m : Nat} (hnm : n ≤ m) {t cs r} (h : run n t cs = .ok r) :
    run m t cs = .ok r := by
  induction hnm with
  | refl => exact h
  | step _ ih => exact run_succ_le _ _ _ _ ih


/-! ## Lexical lemmas -/

/-- a list of white-space characters -/
def Ws (ws : List Char) : Prop := ∀ c ∈ ws, isSpace c = true

theorem Ws.nil : Ws [] := by intro c h; cases h
theorem Ws.one : Ws [' '] := by
  intro c h
  have : c = ' ' := by simpa using h
  subst this; decide

theorem skipWs_ws {ws : List Char} (h : Ws ws) (cs : List Char) : skipWs (ws ++ cs) = skipWs cs := by
  induction ws with
  | nil => rfl
  | cons c tl ih =>
    have hc : isSpace c = true := h c (List.mem_cons_self ..)
    have htl : Ws tl := fun d hd => h d (List.mem_cons_of_mem _ hd)
    show skipWs (c :: (tl ++ cs)) = _
    rw [skipWs, if_pos hc]
    exact ih htl

theorem skipWs_cons {c : Char} (hc : isSpace c = false) (cs : List Char) :
    skipWs (c :: cs) = c :: cs := by
  rw [skipWs]; simp [hc]

theorem spanP_append {p : Char → Bool} {a rest : List Char} (ha : ∀ c ∈ a, p c = true)
    (hr : ∀ c tl, rest = c :: tl → p c = false) : spanP p (a ++ rest) = (a, rest) := by
  induction a with
  | nil =>
    cases rest with
    | nil => rfl
    | cons c tl => simp [spanP, hr c tl rfl]
  | cons c tl ih =>
    have hc : p c = true := ha c (List.mem_cons_self ..)
    have := ih (fun d hd => ha d (List.mem_cons_of_mem _ hd))
    simp [spanP, hc, this]

theorem isPrefixOf_append_self (pre x : List Char) : pre.isPrefixOf (pre ++ x) = true := by
  induction pre with
  | nil => simp [List.isPrefixOf]
  | cons c tl ih => simp [List.isPrefixOf, ih]

theorem expect_append (pre x : List Char) : expect pre (pre ++ x) = .ok x := by
  simp [expect, isPrefixOf_append_self]

/-! ### decimal digits of a natural number -/

theorem digitsVal_append_single (ds : List Char) (c : Char) :
    digitsVal (ds ++ [c]) = 10 * digitsVal ds + digitVal c := by
  simp [digitsVal, List.foldl_append]

theorem digitVal_digitChar {d : Nat} (h : d < 10) : digitVal (Nat.digitChar d) = d := by
  have : d = 0 ∨ d = 1 ∨ d = 2 ∨ d = 3 ∨ d = 4 ∨ d = 5 ∨ d = 6 ∨ d = 7 ∨ d = 8 ∨ d = 9 := by omega
  rcases this with h | h | h | h | h | h | h | h | h | h <;> subst h <;> decide

theorem digitsVal_toDigits (n : Nat) : digitsVal (Nat.toDigits 10 n) = n := by
  induction n using Nat.strongRecOn with
  | _ n ih =>
    by_cases h : n < 10
    · rw [Nat.toDigits_of_lt_base h]
      simp [digitsVal, digitVal_digitChar h]
    · have h10 : 10 ≤ n := by omega
      rw [Nat.toDigits_of_base_le (by decide) h10, digitsVal_append_single,
        ih (n / 10) (by omega), digitVal_digitChar (Nat.mod_lt _ (by decide))]
      omega

theorem isDigit_toDigits (n : Nat) : ∀ c ∈ Nat.toDigits 10 n, c.isDigit = true :=
  fun _ hc => Nat.isDigit_of_mem_toDigits (by decide) (by decide) hc


/-! ## Canonical emitter terms -/

/-- precedence level of the top constructor: 0 conditional, 1 additive, 2 multiplicative, 3 unary,
4 primary -/
def CE.lvl : CE → Nat
  | .load _ => 3
  | .lit _ => 4
  | .mpi => 4
  | .rand0 => 4
  | .randMax => 4
  | .par _ => 4
  | .castd _ _ => 3
  | .neg _ => 3
  | .bin op _ _ _ => if op = '*' ∨ op = '/' then 2 else 1
  | .gt0 _ _ _ => 0
  | .call _ _ => 4
  | .pow _ _ => 4

def isIdent (f : List Char) : Bool :=
  match f with
  | c :: _ => (c.isAlpha || c = '_') && f.all isIdChar
  | [] => false

def opChar (c : Char) : Bool := c = '+' || c = '-' || c = '*' || c = '/'

/-- there is a first character and it is none of `+ - * /` -/
def headNoOp (cs : List Char) : Bool := cs.head?.any (fun c => !opChar c)

/-- `e.render` is read back as `e.abs`: operands respect the precedence levels and left associativity
of C, literals are decimal literals, names are identifiers, no `--`, `++`, `/*`, `//` or `(double)`
arises by juxtaposition. -/
def CE.ok : CE → Bool
  | .load _ => true
  | .lit t => (decimalVal (t.dropWhile isSpace)).isSome
  | .mpi => true
  | .rand0 => true
  | .randMax => true
  | .par e => e.ok && e.render.head? != some 'd'
  | .castd _ e => e.ok && decide (3 ≤ e.lvl)
  | .neg e => e.ok && decide (3 ≤ e.lvl) && (skipWs e.render).head?.any (fun c => c != '-')
  | .bin op _ a b =>
    opChar op && a.ok && b.ok && headNoOp b.render &&
      (if op = '*' ∨ op = '/' then decide (2 ≤ a.lvl) && decide (3 ≤ b.lvl)
       else decide (1 ≤ a.lvl) && decide (2 ≤ b.lvl))
  | .gt0 c a b => c.ok && a.ok && b.ok && decide (1 ≤ c.lvl)
  | .call f a => isIdent f.toList && f != "rand" && a.ok
  | .pow a b => a.ok && b.ok

/-- fuel that suffices to read `e.render` -/
def CE.cost : CE → Nat
  | .load _ => 8
  | .lit _ => 8
  | .mpi => 8
  | .rand0 => 8
  | .randMax => 8
  | .par e => e.cost + 8
  | .castd _ e => e.cost + 8
  | .neg e => e.cost + 8
  | .bin _ _ a b => a.cost + b.cost + 8
  | .gt0 c a b => c.cost + a.cost + b.cost + 24
  | .call _ a => a.cost + 8
  | .pow a b => a.cost + b.cost + 8

def isDelim (c : Char) : Bool :=
  c = ')' || c = ' ' || c = ',' || c = '+' || c = '-' || c = '*' || c = '/' || c = '>' || c = '?' || c = ':'

/-- the text that follows starts with a delimiter (or is empty) -/
def Delim (rest : List Char) : Prop := ∀ c tl, rest = c :: tl → isDelim c = true

/-- the multiplicative loop stops at `rest` -/
def StopMul (rest : List Char) : Prop :=
  ∀ c tl, skipWs rest = c :: tl → c ≠ '*' ∧ c ≠ '/'

/-- all loops stop at `rest` -/
def StopAll (rest : List Char) : Prop :=
  ∀ c tl, skipWs rest = c :: tl → c ≠ '*' ∧ c ≠ '/' ∧ c ≠ '+' ∧ c ≠ '-' ∧ c ≠ '>'

def PU (s : List Char) (x : CX) (c : Nat) : Prop :=
  ∀ n, c ≤ n → ∀ ws rest, Ws ws → Delim rest → run n .unary (ws ++ s ++ rest) = .ok (x, rest)

def PM (s : List Char) (x : CX) (c : Nat) : Prop :=
  ∀ k res ws rest, Ws ws → Delim rest → run k (.mulLoop x) rest = .ok res →
    ∀ n, k + c ≤ n → run n .mul (ws ++ s ++ rest) = .ok res

def PA (s : List Char) (x : CX) (c : Nat) : Prop :=
  ∀ k res ws rest, Ws ws → Delim rest → StopMul rest → run k (.addLoop x) rest = .ok res →
    ∀ n, k + c ≤ n → run n .add (ws ++ s ++ rest) = .ok res

def PC (s : List Char) (x : CX) (c : Nat) : Prop :=
  ∀ n, c ≤ n → ∀ ws rest, Ws ws → Delim rest → StopAll rest →
    run n .cond (ws ++ s ++ rest) = .ok (x, rest)

theorem run_succ (n : Nat) (t : Task) (cs : List Char) : run (n+1) t cs = runStep (run n) t cs := rfl

theorem mulLoop_stop {rest : List Char} (h : StopMul rest) (l : CX) (n : Nat) :
    run (n+1) (.mulLoop l) rest = .ok (l, rest) := by
  rw [run_succ]
  show stepMulLoop (run n) l rest = _
  unfold stepMulLoop
  split
  next r heq => exact absurd rfl (h _ _ heq).1
  next r heq => exact absurd rfl (h _ _ heq).2
  · rfl

/-- the additive loop stops at `rest` -/
def StopAdd (rest : List Char) : Prop :=
  ∀ c tl, skipWs rest = c :: tl → c ≠ '+' ∧ c ≠ '-'

theorem addLoop_stop {rest : List Char} (h : StopAdd rest) (l : CX) (n : Nat) :
    run (n+1) (.addLoop l) rest = .ok (l, rest) := by
  rw [run_succ]
  show stepAddLoop (run n) l rest = _
  unfold stepAddLoop
  split
  next r heq => exact absurd rfl (h _ _ heq).1
  next r heq => exact absurd rfl (h _ _ heq).2
  · rfl

theorem StopAll.stopMul {rest} (h : StopAll rest) : StopMul rest :=
  fun c tl heq => ⟨(h c tl heq).1, (h c tl heq).2.1⟩

theorem StopAll.stopAdd {rest} (h : StopAll rest) : StopAdd rest :=
  fun c tl heq => ⟨(h c tl heq).2.2.1, (h c tl heq).2.2.2.1⟩

/-- unary level ⇒ multiplicative level -/
theorem PU.toPM {s x c} (h : PU s x c) : PM s x (c + 1) := by
  intro k res ws rest hws hd hk n hn
  obtain ⟨m, rfl⟩ : ∃ m, n = m + 1 := ⟨n - 1, by omega⟩
  rw [run_succ]
  show stepMul (run m) _ = _
  unfold stepMul
  rw [h m (by omega) ws rest hws hd]
  simp only [bind, Except.bind]
  exact run_mono (by omega) hk

/-- multiplicative level ⇒ additive level -/
theorem PM.toPA {s x c} (h : PM s x c) : PA s x (c + 2) := by
  intro k res ws rest hws hd hstop hk n hn
  obtain ⟨m, rfl⟩ : ∃ m, n = m + 1 := ⟨n - 1, by omega⟩
  rw [run_succ]
  show stepAdd (run m) _ = _
  unfold stepAdd
  rw [h 1 (x, rest) ws rest hws hd (mulLoop_stop hstop x 0) m (by omega)]
  simp only [bind, Except.bind]
  exact run_mono (by omega) hk

/-- additive level ⇒ conditional level -/
theorem PA.toPC {s x c} (h : PA s x c) : PC s x (c + 2) := by
  intro n hn ws rest hws hd hstop
  obtain ⟨m, rfl⟩ : ∃ m, n = m + 1 := ⟨n - 1, by omega⟩
  rw [run_succ]
  show stepCond (run m) _ = _
  unfold stepCond
  rw [h 1 (x, rest) ws rest hws hd hstop.stopMul (addLoop_stop hstop.stopAdd x 0) m (by omega)]
  simp only [bind, Except.bind]
  split
  next r1 heq => exact absurd rfl (hstop _ _ heq).2.2.2.2
  · rfl

theorem PU.mono {s x c c'} (h : PU s x c) (hc : c ≤ c') : PU s x c' :=
  fun n hn => h n (by omega)
theorem PM.mono {s x c c'} (h : PM s x c) (hc : c ≤ c') : PM s x c' :=
  fun k res ws rest hws hd hk n hn => h k res ws rest hws hd hk n (by omega)
theorem PA.mono {s x c c'} (h : PA s x c) (hc : c ≤ c') : PA s x c' :=
  fun k res ws rest hws hd hs hk n hn => h k res ws rest hws hd hs hk n (by omega)
theorem PC.mono {s x c c'} (h : PC s x c) (hc : c ≤ c') : PC s x c' :=
  fun n hn => h n (by omega)


/-! ## Reading back the constructors -/

theorem isDelim_not_num {c : Char} (h : isDelim c = true) : isNumChar c = false ∧ isIdChar c = false := by
  simp only [isDelim, Bool.or_eq_true, decide_eq_true_eq] at h
  rcases h with ((((((((h | h) | h) | h) | h) | h) | h) | h) | h) | h <;> subst h <;> decide

theorem isDelim_not_space_or {c : Char} (h : isDelim c = true) : c = ' ' ∨ isSpace c = false := by
  simp only [isDelim, Bool.or_eq_true, decide_eq_true_eq] at h
  rcases h with ((((((((h | h) | h) | h) | h) | h) | h) | h) | h) | h <;> subst h <;> decide

theorem stepUnary_primary {rec : Task → List Char → PRes} {cs r : List Char} {c : Char}
    (hs : skipWs cs = c :: r) (h1 : c ≠ '-') (h2 : c ≠ '*')
    (h3 : c = '(' → "double)".toList.isPrefixOf r = false) :
    stepUnary rec cs = rec .primary cs := by
  unfold stepUnary
  rw [hs]
  split
  next r' heq => injection heq with hc _; exact absurd hc h1
  next r' heq => injection heq with hc _; exact absurd hc h2
  next r' heq =>
    injection heq with hc hr
    subst hr
    rw [h3 hc]
    simp
  · rfl

/-- splitting a literal text into its leading white space and the rest -/
theorem dropWhile_split (t : List Char) :
    ∃ w, Ws w ∧ t = w ++ t.dropWhile isSpace := by
  refine ⟨t.takeWhile isSpace, ?_, (List.takeWhile_append_dropWhile).symm⟩
  intro c hc
  induction t with
  | nil => cases hc
  | cons d tl ih =>
    rw [List.takeWhile_cons] at hc
    split at hc
    next hd =>
      rcases List.mem_cons.mp hc with h | h
      · subst h; exact hd
      · exact ih h
    · cases hc

theorem Ws.append {a b : List Char} (ha : Ws a) (hb : Ws b) : Ws (a ++ b) := by
  intro c hc
  rcases List.mem_append.mp hc with h | h
  · exact ha c h
  · exact hb c h

theorem decimalVal_some {t : List Char} {q : Rat} (h : decimalVal t = some q) :
    (∀ c ∈ t, isNumChar c = true) ∧ ∃ c tl, t = c :: tl ∧ (c.isDigit = true ∨ c = '.') := by
  unfold decimalVal at h
  split at h
  next hc =>
    simp only [Bool.and_eq_true, List.all_eq_true] at hc
    refine ⟨hc.1, ?_⟩
    cases t with
    | nil => simp at hc
    | cons c tl =>
      refine ⟨c, tl, rfl, ?_⟩
      simpa using hc.2
  · cases h

theorem digit_or_dot_facts {c : Char} (h : c.isDigit = true ∨ c = '.') :
    isSpace c = false ∧ c ≠ '-' ∧ c ≠ '*' ∧ c ≠ '(' ∧ (c.isDigit || decide (c = '.')) = true := by
  rcases h with h | h
  · have h' := h
    simp only [Char.isDigit, Bool.and_eq_true, decide_eq_true_eq] at h
    refine ⟨?_, ?_, ?_, ?_, by simp [h']⟩
    · simp only [isSpace, Bool.or_eq_false_iff, decide_eq_false_iff_not]
      refine ⟨⟨⟨⟨⟨?_, ?_⟩, ?_⟩, ?_⟩, ?_⟩, ?_⟩ <;> (intro hc; subst hc; revert h; decide)
    all_goals (intro hc; subst hc; revert h; decide)
  · subst h; decide

theorem lit_PU (t : List Char) (hok : (CE.lit t).ok = true) : PU t (litAbs t) 2 := by
  intro n hn ws rest hws hd
  obtain ⟨m, rfl⟩ : ∃ m, n = m + 2 := ⟨n - 2, by omega⟩
  obtain ⟨w, hw, ht⟩ := dropWhile_split t
  simp only [CE.ok, Option.isSome_iff_exists] at hok
  obtain ⟨q, hq⟩ := hok
  obtain ⟨hall, c, tl, htl, hc⟩ := decimalVal_some hq
  obtain ⟨hsp, hc1, hc2, hc3, hc4⟩ := digit_or_dot_facts hc
  have hskip : skipWs (ws ++ t ++ rest) = c :: (tl ++ rest) := by
    rw [ht, htl, List.append_assoc, List.append_assoc, skipWs_ws hws, skipWs_ws hw]
    exact skipWs_cons hsp _
  rw [run_succ]
  show stepUnary (run (m+1)) _ = _
  rw [stepUnary_primary hskip hc1 hc2 (fun h => absurd h hc3), run_succ]
  show stepPrimary (run m) _ = _
  unfold stepPrimary
  rw [hskip]
  split
  next r heq => injection heq with h _; exact absurd h hc3
  next c' r' heq =>
    injection heq with h1 h2
    subst h1 h2
    rw [if_pos hc4]
    have hspan : spanP isNumChar (c :: (tl ++ rest)) = (t.dropWhile isSpace, rest) := by
      rw [htl]
      exact spanP_append (a := c :: tl) (by rw [← htl]; exact hall)
        (fun d tl' hd' => (isDelim_not_num (hd d tl' hd')).1)
    rw [hspan]
    simp only [hq, litAbs, Option.getD_some]
    rfl
  next heq => cases heq

/-! ### identifiers -/

theorem alpha_facts (c : Char) (h : (c.isAlpha || c = '_') = true) :
    c.isDigit = false ∧ c ≠ '.' ∧ c ≠ '-' ∧ c ≠ '*' ∧ c ≠ '(' ∧ c ≠ ' ' ∧ c ≠ '\t' ∧ c ≠ '\n' ∧
      c ≠ '\x0b' ∧ c ≠ '\x0c' ∧ c ≠ '\r' := by
  simp only [Char.isAlpha, Char.isUpper, Char.isLower, Char.isDigit, Bool.or_eq_true, Bool.and_eq_true,
    decide_eq_true_eq, Bool.and_eq_false_iff, decide_eq_false_iff_not, ge_iff_le,
    UInt32.le_iff_toNat_le] at *
  have e1 : 'A'.val.toNat = 65 := by decide
  have e2 : 'Z'.val.toNat = 90 := by decide
  have e3 : 'a'.val.toNat = 97 := by decide
  have e4 : 'z'.val.toNat = 122 := by decide
  have e5 : '0'.val.toNat = 48 := by decide
  have e6 : '9'.val.toNat = 57 := by decide
  rw [e1, e2, e3, e4] at h
  rw [e5, e6]
  refine ⟨?_, ?_⟩
  · rcases h with h | h
    · omega
    · subst h; decide
  · refine ⟨?_, ?_, ?_, ?_, ?_, ?_, ?_, ?_, ?_, ?_⟩ <;> (intro hc; subst hc; revert h; decide)

theorem ident_split {f : List Char} (h : isIdent f = true) :
    ∃ c tl, f = c :: tl ∧ (c.isAlpha || c = '_') = true ∧ ∀ d ∈ f, isIdChar d = true := by
  cases f with
  | nil => simp [isIdent] at h
  | cons c tl =>
    simp only [isIdent, Bool.and_eq_true, List.all_eq_true] at h
    exact ⟨c, tl, rfl, h.1, h.2⟩

theorem alpha_not_space {c : Char} (h : (c.isAlpha || c = '_') = true) : isSpace c = false := by
  obtain ⟨_, _, _, _, _, h1, h2, h3, h4, h5, h6⟩ := alpha_facts c h
  simp [isSpace, h1, h2, h3, h4, h5, h6]

/-- the identifier branch of `stepPrimary` -/
def identCont (rec : Task → List Char → PRes) (name : String) (rest : List Char) : PRes :=
  match rest with
  | '(' :: r1 =>
    if name = "rand" then
      match skipWs r1 with
      | ')' :: r2 => pure (.rand0, r2)
      | _ => .error .cSyntax
    else do
      let (a, r2) ← rec .cond r1
      match skipWs r2 with
      | ')' :: r3 => pure (.call1 name a, r3)
      | ',' :: r3 => do
        let (b, r4) ← rec .cond r3
        match skipWs r4 with
        | ')' :: r5 => pure (.call2 name a b, r5)
        | _ => .error .cSyntax
      | _ => .error .cSyntax
  | _ =>
    if name = "M_PI" then pure (.mpi, rest)
    else if name = "RAND_MAX" then pure (.randMax, rest)
    else .error .cSyntax

theorem stepPrimary_ident {rec : Task → List Char → PRes} {f ws rest : List Char}
    (hf : isIdent f = true) (hws : Ws ws) (hr : ∀ c tl, rest = c :: tl → isIdChar c = false) :
    stepPrimary rec (ws ++ f ++ rest) = identCont rec (String.ofList f) rest := by
  obtain ⟨c, tl, hftl, hc, hall⟩ := ident_split hf
  obtain ⟨hd, hdot, _, _, hpar, _⟩ := alpha_facts c hc
  have hskip : skipWs (ws ++ f ++ rest) = c :: (tl ++ rest) := by
    rw [hftl, List.append_assoc, skipWs_ws hws]
    exact skipWs_cons (alpha_not_space hc) _
  unfold stepPrimary
  rw [hskip]
  split
  next r heq => injection heq with h _; exact absurd h hpar
  next c' r' heq =>
    injection heq with h1 h2
    subst h1 h2
    have h0 : (c.isDigit || decide (c = '.')) = false := by simp [hd, hdot]
    rw [h0, if_neg (by simp), if_pos hc]
    have hspan : spanP isIdChar (c :: (tl ++ rest)) = (f, rest) := by
      rw [hftl]
      exact spanP_append (a := c :: tl) (by rw [← hftl]; exact hall) hr
    rw [hspan]
    rfl
  next heq => cases heq

theorem stepUnary_ident {rec : Task → List Char → PRes} {f ws rest : List Char}
    (hf : isIdent f = true) (hws : Ws ws) :
    stepUnary rec (ws ++ f ++ rest) = rec .primary (ws ++ f ++ rest) := by
  obtain ⟨c, tl, hftl, hc, hall⟩ := ident_split hf
  obtain ⟨_, _, h1, h2, h3, _⟩ := alpha_facts c hc
  have hskip : skipWs (ws ++ f ++ rest) = c :: (tl ++ rest) := by
    rw [hftl, List.append_assoc, skipWs_ws hws]
    exact skipWs_cons (alpha_not_space hc) _
  exact stepUnary_primary hskip h1 h2 (fun h => absurd h h3)

theorem delim_not_id {rest : List Char} (hd : Delim rest) :
    ∀ c tl, rest = c :: tl → isIdChar c = false :=
  fun c tl h => (isDelim_not_num (hd c tl h)).2

theorem identCont_plain {rec name rest} (hd : Delim rest) :
    identCont rec name rest =
      (if name = "M_PI" then pure (.mpi, rest)
       else if name = "RAND_MAX" then pure (.randMax, rest) else .error .cSyntax) := by
  unfold identCont
  split
  next r1 => exact absurd (hd '(' r1 rfl) (by decide)
  · rfl

theorem mpi_PU : PU "M_PI".toList .mpi 2 := by
  intro n hn ws rest hws hd
  obtain ⟨m, rfl⟩ : ∃ m, n = m + 2 := ⟨n - 2, by omega⟩
  rw [run_succ]
  show stepUnary (run (m+1)) _ = _
  rw [stepUnary_ident (by decide) hws, run_succ]
  show stepPrimary (run m) _ = _
  rw [stepPrimary_ident (by decide) hws (delim_not_id hd), identCont_plain hd]
  rfl

theorem randMax_PU : PU "RAND_MAX".toList .randMax 2 := by
  intro n hn ws rest hws hd
  obtain ⟨m, rfl⟩ : ∃ m, n = m + 2 := ⟨n - 2, by omega⟩
  rw [run_succ]
  show stepUnary (run (m+1)) _ = _
  rw [stepUnary_ident (by decide) hws, run_succ]
  show stepPrimary (run m) _ = _
  rw [stepPrimary_ident (by decide) hws (delim_not_id hd), identCont_plain hd]
  rfl

theorem delim_skipWs {rest : List Char} (hd : Delim rest) (c : Char) (hc : isDelim c = true)
    (hns : isSpace c = false) (tl : List Char) : skipWs (c :: tl) = c :: tl := skipWs_cons hns tl

theorem rand0_PU : PU "rand()".toList .rand0 2 := by
  intro n hn ws rest hws hd
  obtain ⟨m, rfl⟩ : ∃ m, n = m + 2 := ⟨n - 2, by omega⟩
  have e : ws ++ "rand()".toList ++ rest = ws ++ "rand".toList ++ ('(' :: ')' :: rest) := by
    simp
  rw [run_succ, e]
  show stepUnary (run (m+1)) _ = _
  rw [stepUnary_ident (by decide) hws, run_succ]
  show stepPrimary (run m) _ = _
  rw [stepPrimary_ident (by decide) hws (by intro c tl h; injection h with h _; subst h; decide)]
  rfl

/-! ### compound constructors -/

theorem render_load (off : Nat) :
    (CE.load off).render = '*' :: (loadPrefix ++ ((toString off).toList ++ "))".toList)) := rfl
theorem render_par (x : CE) : (CE.par x).render = '(' :: (x.render ++ [')']) := rfl
theorem render_castd (sp : Bool) (x : CE) :
    (CE.castd sp x).render = '(' :: ("double)".toList ++ ((if sp then [' '] else []) ++ x.render)) := by
  cases sp <;> rfl
theorem render_neg (x : CE) : (CE.neg x).render = '-' :: x.render := rfl
theorem render_bin (op : Char) (sp : Bool) (a b : CE) :
    (CE.bin op sp a b).render = a.render ++ ((if sp then [' ', op, ' '] else [op]) ++ b.render) := by
  show a.render ++ _ ++ b.render = _
  simp only [List.append_assoc]
theorem render_gt0 (c a b : CE) :
    (CE.gt0 c a b).render =
      c.render ++ (" > 0 ? ".toList ++ (a.render ++ (" : ".toList ++ b.render))) := by
  show c.render ++ _ ++ a.render ++ _ ++ b.render = _
  simp only [List.append_assoc]
theorem render_call (f : String) (a : CE) :
    (CE.call f a).render = f.toList ++ ('(' :: (a.render ++ [')'])) := rfl
theorem render_pow (a b : CE) :
    (CE.pow a b).render = "pow".toList ++ ('(' :: (a.render ++ (',' :: ' ' :: (b.render ++ [')'])))) := by
  show "pow(".toList ++ a.render ++ ", ".toList ++ b.render ++ [')'] = _
  simp only [List.append_assoc]
  rfl

theorem skipWs_append_of_ne_nil {a : List Char} (h : skipWs a ≠ []) (b : List Char) :
    skipWs (a ++ b) = skipWs a ++ b := by
  induction a with
  | nil => simp [skipWs] at h
  | cons c tl ih =>
    by_cases hc : isSpace c = true
    · have : skipWs (c :: tl) = skipWs tl := by rw [skipWs, if_pos hc]
      rw [this] at h ⊢
      show skipWs (c :: (tl ++ b)) = _
      rw [skipWs, if_pos hc]
      exact ih h
    · have hc' : isSpace c = false := by simpa using hc
      rw [skipWs_cons hc']
      show skipWs (c :: (tl ++ b)) = _
      rw [skipWs_cons hc']
      rfl

theorem load_PU (off : Nat) : PU (CE.load off).render (.load off) 1 := by
  intro n hn ws rest hws hd
  obtain ⟨m, rfl⟩ : ∃ m, n = m + 1 := ⟨n - 1, by omega⟩
  have hdig : (toString off).toList = Nat.toDigits 10 off := by simp [toString, Nat.toList_repr]
  have hrender : ws ++ (CE.load off).render ++ rest =
      ws ++ ('*' :: (loadPrefix ++ (Nat.toDigits 10 off ++ ("))".toList ++ rest)))) := by
    rw [render_load, hdig]
    simp only [List.append_assoc, List.cons_append]
  rw [run_succ, hrender]
  show stepUnary (run m) _ = _
  unfold stepUnary
  rw [skipWs_ws hws, skipWs_cons (by decide)]
  simp only [expect_append, bind, Except.bind]
  have hspan : spanP Char.isDigit (Nat.toDigits 10 off ++ ("))".toList ++ rest)) =
      (Nat.toDigits 10 off, "))".toList ++ rest) :=
    spanP_append (isDigit_toDigits off) (by intro c tl h; injection h with h _; subst h; decide)
  rw [hspan]
  have hne : (Nat.toDigits 10 off).isEmpty = false := by
    cases h : Nat.toDigits 10 off with
    | nil => exact absurd h Nat.toDigits_ne_nil
    | cons _ _ => rfl
  simp only [hne, expect_append, digitsVal_toDigits]
  rfl

theorem par_PU {x : CE} {c : Nat} (h : PC x.render x.abs c) (hd' : x.render.head? ≠ some 'd') :
    PU (CE.par x).render x.abs (c + 2) := by
  intro n hn ws rest hws hd
  obtain ⟨m, rfl⟩ : ∃ m, n = m + 2 := ⟨n - 2, by omega⟩
  have hrender : ws ++ (CE.par x).render ++ rest = ws ++ ('(' :: (x.render ++ (')' :: rest))) := by
    rw [render_par]
    simp only [List.append_assoc, List.cons_append, List.nil_append]
  have hskip : skipWs (ws ++ (CE.par x).render ++ rest) = '(' :: (x.render ++ (')' :: rest)) := by
    rw [hrender, skipWs_ws hws]; exact skipWs_cons (by decide) _
  have hnd : "double)".toList.isPrefixOf (x.render ++ (')' :: rest)) = false := by
    cases hx : x.render with
    | nil => rfl
    | cons c tl =>
      rw [hx] at hd'
      have : c ≠ 'd' := by simpa using hd'
      show List.isPrefixOf ('d' :: _) (c :: _) = false
      simp [List.isPrefixOf, Ne.symm this]
  rw [run_succ]
  show stepUnary (run (m+1)) _ = _
  rw [stepUnary_primary hskip (by decide) (by decide) (fun _ => hnd), run_succ]
  show stepPrimary (run m) _ = _
  unfold stepPrimary
  rw [hskip]
  have := h m (by omega) [] (')' :: rest) Ws.nil
    (by intro c tl h; injection h with h _; subst h; decide)
    (by intro c tl h; rw [skipWs_cons (by decide)] at h; injection h with h _; subst h; decide)
  simp only [List.nil_append] at this
  simp only [this, bind, Except.bind, skipWs_cons (show isSpace ')' = false by decide)]
  rfl

theorem castd_PU {x : CE} {c : Nat} (sp : Bool) (h : PU x.render x.abs c) :
    PU (CE.castd sp x).render (.castd x.abs) (c + 1) := by
  intro n hn ws rest hws hd
  obtain ⟨m, rfl⟩ : ∃ m, n = m + 1 := ⟨n - 1, by omega⟩
  have hrender : ws ++ (CE.castd sp x).render ++ rest =
      ws ++ ('(' :: ("double)".toList ++ ((if sp then [' '] else []) ++ x.render ++ rest))) := by
    rw [render_castd]
    simp only [List.append_assoc, List.cons_append]
  rw [run_succ, hrender]
  show stepUnary (run m) _ = _
  unfold stepUnary
  rw [skipWs_ws hws, skipWs_cons (by decide)]
  simp only [isPrefixOf_append_self, if_true]
  have hdrop : List.drop 7 ("double)".toList ++ ((if sp then [' '] else []) ++ x.render ++ rest)) =
      (if sp then [' '] else []) ++ x.render ++ rest := by
    simp
  rw [hdrop, h m (by omega) _ rest (by cases sp <;> simp [Ws.nil, Ws.one]) hd]
  rfl

theorem neg_PU {x : CE} {c : Nat} (h : PU x.render x.abs c)
    (hh : (skipWs x.render).head?.any (fun c => c != '-') = true) :
    PU (CE.neg x).render (.neg x.abs) (c + 1) := by
  intro n hn ws rest hws hd
  obtain ⟨m, rfl⟩ : ∃ m, n = m + 1 := ⟨n - 1, by omega⟩
  have hrender : ws ++ (CE.neg x).render ++ rest = ws ++ ('-' :: (x.render ++ rest)) := by
    rw [render_neg]
    simp only [List.append_assoc, List.cons_append]
  rw [run_succ, hrender]
  show stepUnary (run m) _ = _
  unfold stepUnary
  rw [skipWs_ws hws, skipWs_cons (by decide)]
  have hne : skipWs x.render ≠ [] := by
    intro h0; rw [h0] at hh; simp at hh
  have hhead : (skipWs (x.render ++ rest)).head? ≠ some '-' := by
    rw [skipWs_append_of_ne_nil hne]
    cases hs : skipWs x.render with
    | nil => exact absurd hs hne
    | cons d tl =>
      rw [hs] at hh
      simp at hh
      simpa using hh
  simp only [if_neg hhead]
  have := h m (by omega) [] rest Ws.nil hd
  simp only [List.nil_append] at this
  rw [this]
  rfl

theorem opstr_ws (sp : Bool) : Ws (if sp then [' '] else []) := by
  cases sp <;> simp [Ws.nil, Ws.one]

/-- the text between the operands of a binary operator, split at the operator character -/
theorem opstr_eq (op : Char) (sp : Bool) (tail : List Char) :
    (if sp then [' ', op, ' '] else [op]) ++ tail =
      (if sp then [' '] else []) ++ (op :: ((if sp then [' '] else []) ++ tail)) := by
  cases sp <;> rfl

theorem opChar_cases {op : Char} (h : opChar op = true) : op = '+' ∨ op = '-' ∨ op = '*' ∨ op = '/' := by
  simp only [opChar, Bool.or_eq_true, decide_eq_true_eq] at h
  rcases h with ((h | h) | h) | h <;> simp [h]

theorem headNoOp_cons {b rest : List Char} (h : headNoOp b = true) (sp : Bool) :
    ∃ d tl, ((if sp then [' '] else []) ++ b ++ rest) = d :: tl ∧ opChar d = false := by
  cases sp with
  | true => exact ⟨' ', b ++ rest, rfl, by decide⟩
  | false =>
    cases b with
    | nil => simp [headNoOp] at h
    | cons d tl =>
      refine ⟨d, tl ++ rest, rfl, ?_⟩
      simpa [headNoOp] using h

theorem bin_mul_PM {a b : CE} {ca cb : Nat} {op : Char} (sp : Bool)
    (hop : op = '*' ∨ op = '/')
    (ha : PM a.render a.abs ca) (hb : PU b.render b.abs cb) (hh : headNoOp b.render = true) :
    PM (CE.bin op sp a b).render (.bin (copOf op) a.abs b.abs) (ca + cb + 2) := by
  intro k res ws rest hws hd hk n hn
  have hrender : ws ++ (CE.bin op sp a b).render ++ rest =
      ws ++ a.render ++ ((if sp then [' '] else []) ++
        (op :: ((if sp then [' '] else []) ++ b.render ++ rest))) := by
    rw [render_bin, List.append_assoc, List.append_assoc, List.append_assoc, opstr_eq]
    simp only [List.append_assoc]
  rw [hrender]
  have hopns : isSpace op = false := by rcases hop with h | h <;> subst h <;> decide
  have hdelim : Delim ((if sp then [' '] else []) ++
      (op :: ((if sp then [' '] else []) ++ b.render ++ rest))) := by
    intro c tl h
    cases sp with
    | true => injection h with h _; subst h; decide
    | false => injection h with h _; subst h; rcases hop with h | h <;> subst h <;> decide
  -- the loop continues with the operator
  have hcont : run (max k cb + 1) (.mulLoop a.abs) ((if sp then [' '] else []) ++
      (op :: ((if sp then [' '] else []) ++ b.render ++ rest))) = .ok res := by
    rw [run_succ]
    show stepMulLoop (run (max k cb)) _ _ = _
    unfold stepMulLoop
    rw [skipWs_ws (opstr_ws sp), skipWs_cons hopns]
    obtain ⟨d, tl, hdtl, hdop⟩ := headNoOp_cons (rest := rest) hh sp
    have hb' := hb (max k cb) (by omega) _ rest (opstr_ws sp) hd
    rcases hop with h | h
    · subst h
      simp only [hb', bind, Except.bind, copOf]
      exact run_mono (by omega) hk
    · subst h
      have hnc : ¬ (((if sp then [' '] else []) ++ b.render ++ rest).head? = some '*' ∨
          ((if sp then [' '] else []) ++ b.render ++ rest).head? = some '/') := by
        rw [hdtl]
        simp only [List.head?_cons, Option.some.injEq]
        rintro (h | h) <;> subst h <;> simp [opChar] at hdop
      simp only [Bool.or_eq_true, decide_eq_true_eq, hnc, if_false, hb', bind, Except.bind, copOf]
      exact run_mono (by omega) hk
  exact ha _ res ws _ hws hdelim hcont n (by omega)

theorem bin_add_PA {a b : CE} {ca cb : Nat} {op : Char} (sp : Bool)
    (hop : op = '+' ∨ op = '-')
    (ha : PA a.render a.abs ca) (hb : PM b.render b.abs cb) (hh : headNoOp b.render = true) :
    PA (CE.bin op sp a b).render (.bin (copOf op) a.abs b.abs) (ca + cb + 3) := by
  intro k res ws rest hws hd hstop hk n hn
  have hrender : ws ++ (CE.bin op sp a b).render ++ rest =
      ws ++ a.render ++ ((if sp then [' '] else []) ++
        (op :: ((if sp then [' '] else []) ++ b.render ++ rest))) := by
    rw [render_bin, List.append_assoc, List.append_assoc, List.append_assoc, opstr_eq]
    simp only [List.append_assoc]
  rw [hrender]
  have hopns : isSpace op = false := by rcases hop with h | h <;> subst h <;> decide
  have hdelim : Delim ((if sp then [' '] else []) ++
      (op :: ((if sp then [' '] else []) ++ b.render ++ rest))) := by
    intro c tl h
    cases sp with
    | true => injection h with h _; subst h; decide
    | false => injection h with h _; subst h; rcases hop with h | h <;> subst h <;> decide
  have hstop' : StopMul ((if sp then [' '] else []) ++
      (op :: ((if sp then [' '] else []) ++ b.render ++ rest))) := by
    intro c tl h
    rw [skipWs_ws (opstr_ws sp), skipWs_cons hopns] at h
    injection h with h _
    subst h
    rcases hop with h | h <;> subst h <;> decide
  have hcont : run (max k (cb + 1) + 1) (.addLoop a.abs) ((if sp then [' '] else []) ++
      (op :: ((if sp then [' '] else []) ++ b.render ++ rest))) = .ok res := by
    rw [run_succ]
    show stepAddLoop (run (max k (cb + 1))) _ _ = _
    unfold stepAddLoop
    rw [skipWs_ws (opstr_ws sp), skipWs_cons hopns]
    obtain ⟨d, tl, hdtl, hdop⟩ := headNoOp_cons (rest := rest) hh sp
    have hb' := hb 1 (b.abs, rest) _ rest (opstr_ws sp) hd (mulLoop_stop hstop b.abs 0)
      (max k (cb + 1)) (by omega)
    rcases hop with h | h
    · subst h
      have hnc : ¬ (((if sp then [' '] else []) ++ b.render ++ rest).head? = some '+') := by
        rw [hdtl]
        simp only [List.head?_cons, Option.some.injEq]
        rintro h; subst h; simp [opChar] at hdop
      simp only [hnc, if_false, hb', bind, Except.bind, copOf]
      exact run_mono (by omega) hk
    · subst h
      have hnc : ¬ (((if sp then [' '] else []) ++ b.render ++ rest).head? = some '-') := by
        rw [hdtl]
        simp only [List.head?_cons, Option.some.injEq]
        rintro h; subst h; simp [opChar] at hdop
      simp only [hnc, if_false, hb', bind, Except.bind, copOf]
      exact run_mono (by omega) hk
  exact ha _ res ws _ hws hdelim hstop' hcont n (by omega)

theorem lit0_ok : (CE.lit ['0']).ok = true := by decide +kernel
theorem litAbs_zero : litAbs ['0'] = .num true 0 := by decide +kernel

theorem lit0_PA : PA ['0'] (.num true 0) 5 := by
  have h := (lit_PU ['0'] lit0_ok).toPM.toPA
  rw [litAbs_zero] at h
  exact h

theorem gt0_PC {c a b : CE} {cc ca cb : Nat}
    (hc : PA c.render c.abs cc) (ha : PC a.render a.abs ca) (hb : PC b.render b.abs cb) :
    PC (CE.gt0 c a b).render (.ite c.abs (.num true 0) a.abs b.abs) (cc + ca + cb + 8) := by
  intro n hn ws rest hws hd hstop
  obtain ⟨m, rfl⟩ : ∃ m, n = m + 1 := ⟨n - 1, by omega⟩
  -- the pieces of the text
  let t4 : List Char := ' ' :: ':' :: ' ' :: (b.render ++ rest)
  let t3 : List Char := ' ' :: '?' :: ' ' :: (a.render ++ t4)
  let t2 : List Char := ' ' :: '0' :: t3
  let t1 : List Char := ' ' :: '>' :: t2
  have hrender : ws ++ (CE.gt0 c a b).render ++ rest = ws ++ c.render ++ t1 := by
    rw [render_gt0]
    simp only [List.append_assoc]
    rfl
  rw [run_succ, hrender]
  show stepCond (run m) _ = _
  unfold stepCond
  -- condition operand
  have h1 : run m .add (ws ++ c.render ++ t1) = .ok (c.abs, t1) := by
    refine hc 1 (c.abs, t1) ws t1 hws ?_ ?_ ?_ m (by omega)
    · intro d tl h; injection h with h _; subst h; decide
    · intro d tl h
      have : skipWs t1 = '>' :: t2 := by
        show skipWs (' ' :: '>' :: t2) = _
        rw [skipWs, if_pos (by decide)]; exact skipWs_cons (by decide) _
      rw [this] at h; injection h with h _; subst h; decide
    · refine addLoop_stop ?_ c.abs 0
      intro d tl h
      have : skipWs t1 = '>' :: t2 := by
        show skipWs (' ' :: '>' :: t2) = _
        rw [skipWs, if_pos (by decide)]; exact skipWs_cons (by decide) _
      rw [this] at h; injection h with h _; subst h; decide
  have hs1 : skipWs t1 = '>' :: t2 := by
    show skipWs (' ' :: '>' :: t2) = _
    rw [skipWs, if_pos (by decide)]; exact skipWs_cons (by decide) _
  -- the literal 0
  have hs3 : skipWs t3 = '?' :: ' ' :: (a.render ++ t4) := by
    show skipWs (' ' :: '?' :: _) = _
    rw [skipWs, if_pos (by decide)]; exact skipWs_cons (by decide) _
  have h2 : run m .add t2 = .ok (.num true 0, t3) := by
    have := lit0_PA 1 (.num true 0, t3) [' '] t3 Ws.one
      (by intro d tl h; injection h with h _; subst h; decide)
      (by intro d tl h; rw [hs3] at h; injection h with h _; subst h; decide)
      (addLoop_stop (by intro d tl h; rw [hs3] at h; injection h with h _; subst h; decide) _ 0)
      m (by omega)
    exact this
  -- the branches
  have hs4 : skipWs t4 = ':' :: ' ' :: (b.render ++ rest) := by
    show skipWs (' ' :: ':' :: _) = _
    rw [skipWs, if_pos (by decide)]; exact skipWs_cons (by decide) _
  have h3 : run m .cond (' ' :: (a.render ++ t4)) = .ok (a.abs, t4) := by
    have := ha m (by omega) [' '] t4 Ws.one
      (by intro d tl h; injection h with h _; subst h; decide)
      (by intro d tl h; rw [hs4] at h; injection h with h _; subst h; decide)
    exact this
  have h4 : run m .cond (' ' :: (b.render ++ rest)) = .ok (b.abs, rest) := by
    have := hb m (by omega) [' '] rest Ws.one hd hstop
    simpa using this
  simp only [h1, hs1, h2, hs3, h3, hs4, h4, bind, Except.bind]
  rfl

theorem call_PU {f : String} {a : CE} {ca : Nat} (hf : isIdent f.toList = true) (hr : f ≠ "rand")
    (ha : PC a.render a.abs ca) : PU (CE.call f a).render (.call1 f a.abs) (ca + 2) := by
  intro n hn ws rest hws hd
  obtain ⟨m, rfl⟩ : ∃ m, n = m + 2 := ⟨n - 2, by omega⟩
  have hrender : ws ++ (CE.call f a).render ++ rest =
      ws ++ f.toList ++ ('(' :: (a.render ++ (')' :: rest))) := by
    rw [render_call]
    simp only [List.append_assoc, List.cons_append, List.nil_append]
  rw [run_succ, hrender]
  show stepUnary (run (m+1)) _ = _
  rw [stepUnary_ident hf hws, run_succ]
  show stepPrimary (run m) _ = _
  rw [stepPrimary_ident hf hws (by intro c tl h; injection h with h _; subst h; decide)]
  unfold identCont
  simp only [String.ofList_toList, if_neg hr]
  have := ha m (by omega) [] (')' :: rest) Ws.nil
    (by intro c tl h; injection h with h _; subst h; decide)
    (by intro c tl h; rw [skipWs_cons (by decide)] at h; injection h with h _; subst h; decide)
  simp only [List.nil_append] at this
  simp only [this, bind, Except.bind, skipWs_cons (show isSpace ')' = false by decide)]
  rfl

theorem pow_PU {a b : CE} {ca cb : Nat} (ha : PC a.render a.abs ca) (hb : PC b.render b.abs cb) :
    PU (CE.pow a b).render (.call2 "pow" a.abs b.abs) (ca + cb + 2) := by
  intro n hn ws rest hws hd
  obtain ⟨m, rfl⟩ : ∃ m, n = m + 2 := ⟨n - 2, by omega⟩
  have hrender : ws ++ (CE.pow a b).render ++ rest =
      ws ++ "pow".toList ++ ('(' :: (a.render ++ (',' :: ' ' :: (b.render ++ (')' :: rest))))) := by
    rw [render_pow]
    simp only [List.append_assoc, List.cons_append, List.nil_append]
  rw [run_succ, hrender]
  show stepUnary (run (m+1)) _ = _
  rw [stepUnary_ident (by decide) hws, run_succ]
  show stepPrimary (run m) _ = _
  rw [stepPrimary_ident (by decide) hws (by intro c tl h; injection h with h _; subst h; decide)]
  unfold identCont
  have hne : ¬ (String.ofList "pow".toList = "rand") := by decide
  simp only [if_neg hne]
  have h1 := ha m (by omega) [] (',' :: ' ' :: (b.render ++ (')' :: rest))) Ws.nil
    (by intro c tl h; injection h with h _; subst h; decide)
    (by intro c tl h; rw [skipWs_cons (by decide)] at h; injection h with h _; subst h; decide)
  simp only [List.nil_append] at h1
  have h2 := hb m (by omega) [' '] (')' :: rest) Ws.one
    (by intro c tl h; injection h with h _; subst h; decide)
    (by intro c tl h; rw [skipWs_cons (by decide)] at h; injection h with h _; subst h; decide)
  have h2' : run m .cond (' ' :: (b.render ++ (')' :: rest))) = .ok (b.abs, ')' :: rest) := by
    simpa using h2
  simp only [h1, h2', bind, Except.bind, skipWs_cons (show isSpace ')' = false by decide),
    skipWs_cons (show isSpace ',' = false by decide)]
  rfl

/-! ## The round trip -/

def RT (e : CE) : Prop :=
  (3 ≤ e.lvl → PU e.render e.abs e.cost) ∧ (2 ≤ e.lvl → PM e.render e.abs e.cost) ∧
  (1 ≤ e.lvl → PA e.render e.abs e.cost) ∧ PC e.render e.abs e.cost

theorem rt_of_PU {e : CE} {c : Nat} (h : PU e.render e.abs c) (hc : c + 5 ≤ e.cost) : RT e :=
  ⟨fun _ => h.mono (by omega), fun _ => h.toPM.mono (by omega), fun _ => h.toPM.toPA.mono (by omega),
   h.toPM.toPA.toPC.mono (by omega)⟩

theorem rt_of_PM {e : CE} {c : Nat} (hl : e.lvl ≤ 2) (h : PM e.render e.abs c) (hc : c + 4 ≤ e.cost) :
    RT e :=
  ⟨fun h3 => absurd h3 (by omega), fun _ => h.mono (by omega), fun _ => h.toPA.mono (by omega),
   h.toPA.toPC.mono (by omega)⟩

theorem rt_of_PA {e : CE} {c : Nat} (hl : e.lvl ≤ 1) (h : PA e.render e.abs c) (hc : c + 2 ≤ e.cost) :
    RT e :=
  ⟨fun h3 => absurd h3 (by omega), fun h2 => absurd h2 (by omega), fun _ => h.mono (by omega),
   h.toPC.mono (by omega)⟩

theorem rt_of_PC {e : CE} {c : Nat} (hl : e.lvl = 0) (h : PC e.render e.abs c) (hc : c ≤ e.cost) :
    RT e :=
  ⟨fun h3 => absurd h3 (by omega), fun h2 => absurd h2 (by omega), fun h1 => absurd h1 (by omega),
   h.mono hc⟩

theorem ok_par (x : CE) : (CE.par x).ok = (x.ok && x.render.head? != some 'd') := rfl
theorem ok_castd (sp : Bool) (x : CE) : (CE.castd sp x).ok = (x.ok && decide (3 ≤ x.lvl)) := rfl
theorem ok_neg (x : CE) : (CE.neg x).ok =
    (x.ok && decide (3 ≤ x.lvl) && (skipWs x.render).head?.any (fun c => c != '-')) := rfl
theorem ok_bin (op : Char) (sp : Bool) (a b : CE) : (CE.bin op sp a b).ok =
    (opChar op && a.ok && b.ok && headNoOp b.render &&
      (if op = '*' ∨ op = '/' then decide (2 ≤ a.lvl) && decide (3 ≤ b.lvl)
       else decide (1 ≤ a.lvl) && decide (2 ≤ b.lvl))) := rfl
theorem ok_gt0 (c a b : CE) : (CE.gt0 c a b).ok = (c.ok && a.ok && b.ok && decide (1 ≤ c.lvl)) := rfl
theorem ok_call (f : String) (a : CE) :
    (CE.call f a).ok = (isIdent f.toList && f != "rand" && a.ok) := rfl
theorem ok_pow (a b : CE) : (CE.pow a b).ok = (a.ok && b.ok) := rfl

theorem rt : ∀ e : CE, e.ok = true → RT e := by
  intro e
  induction e with
  | load off => intro _; exact rt_of_PU (load_PU off) (by simp [CE.cost])
  | lit t => intro hok; exact rt_of_PU (e := .lit t) (lit_PU t hok) (by simp [CE.cost])
  | mpi => intro _; exact rt_of_PU (e := .mpi) mpi_PU (by simp [CE.cost])
  | rand0 => intro _; exact rt_of_PU (e := .rand0) rand0_PU (by simp [CE.cost])
  | randMax => intro _; exact rt_of_PU (e := .randMax) randMax_PU (by simp [CE.cost])
  | par x ih =>
    intro hok
    rw [ok_par] at hok
    simp only [Bool.and_eq_true, bne_iff_ne, ne_eq] at hok
    exact rt_of_PU (e := .par x) (par_PU (ih hok.1).2.2.2 hok.2) (by simp [CE.cost])
  | castd sp x ih =>
    intro hok
    rw [ok_castd] at hok
    simp only [Bool.and_eq_true, decide_eq_true_eq] at hok
    exact rt_of_PU (e := .castd sp x) (castd_PU sp ((ih hok.1).1 hok.2)) (by simp [CE.cost])
  | neg x ih =>
    intro hok
    rw [ok_neg] at hok
    simp only [Bool.and_eq_true, decide_eq_true_eq] at hok
    exact rt_of_PU (e := .neg x) (neg_PU ((ih hok.1.1).1 hok.1.2) hok.2) (by simp [CE.cost])
  | bin op sp a b iha ihb =>
    intro hok
    rw [ok_bin] at hok
    simp only [Bool.and_eq_true] at hok
    obtain ⟨⟨⟨⟨hop, hoka⟩, hokb⟩, hh⟩, hl⟩ := hok
    by_cases hm : op = '*' ∨ op = '/'
    · rw [if_pos hm] at hl
      simp only [Bool.and_eq_true, decide_eq_true_eq] at hl
      refine rt_of_PM (e := .bin op sp a b) (by simp [CE.lvl, hm])
        (bin_mul_PM sp hm ((iha hoka).2.1 hl.1) ((ihb hokb).1 hl.2) hh) (by simp [CE.cost])
    · rw [if_neg hm] at hl
      simp only [Bool.and_eq_true, decide_eq_true_eq] at hl
      have hop' : op = '+' ∨ op = '-' := by
        rcases opChar_cases hop with h | h | h | h
        · exact Or.inl h
        · exact Or.inr h
        · exact absurd (Or.inl h) hm
        · exact absurd (Or.inr h) hm
      refine rt_of_PA (e := .bin op sp a b) (by simp [CE.lvl, hm])
        (bin_add_PA sp hop' ((iha hoka).2.2.1 hl.1) ((ihb hokb).2.1 hl.2) hh) (by simp [CE.cost])
  | gt0 c a b ihc iha ihb =>
    intro hok
    rw [ok_gt0] at hok
    simp only [Bool.and_eq_true, decide_eq_true_eq] at hok
    obtain ⟨⟨⟨hc, ha⟩, hb⟩, hl⟩ := hok
    exact rt_of_PC (e := .gt0 c a b) rfl
      (gt0_PC ((ihc hc).2.2.1 hl) (iha ha).2.2.2 (ihb hb).2.2.2) (by simp [CE.cost])
  | call f a ih =>
    intro hok
    rw [ok_call] at hok
    simp only [Bool.and_eq_true, bne_iff_ne, ne_eq] at hok
    exact rt_of_PU (e := .call f a) (call_PU hok.1.1 hok.1.2 (ih hok.2).2.2.2) (by simp [CE.cost])
  | pow a b iha ihb =>
    intro hok
    rw [ok_pow] at hok
    simp only [Bool.and_eq_true] at hok
    exact rt_of_PU (e := .pow a b) (pow_PU (iha hok.1).2.2.2 (ihb hok.2).2.2.2) (by simp [CE.cost])

/-! ## `parseCL (render e) = abs e` -/

theorem cost_le : ∀ e : CE, e.ok = true → e.cost ≤ 8 * e.render.length := by
  intro e
  induction e with
  | load off => intro _; rw [render_load]; simp only [CE.cost, List.length_cons]; omega
  | lit t =>
    intro hok
    have : t ≠ [] := by
      intro h; subst h
      revert hok; decide +kernel
    show 8 ≤ 8 * t.length
    cases t with
    | nil => exact absurd rfl this
    | cons _ _ => simp only [List.length_cons]; omega
  | mpi => intro _; decide
  | rand0 => intro _; decide
  | randMax => intro _; decide
  | par x ih =>
    intro hok
    rw [ok_par] at hok
    simp only [Bool.and_eq_true] at hok
    have := ih hok.1
    rw [render_par]
    simp only [CE.cost, List.length_cons, List.length_append, List.length_nil]
    omega
  | castd sp x ih =>
    intro hok
    rw [ok_castd] at hok
    simp only [Bool.and_eq_true] at hok
    have := ih hok.1
    rw [render_castd]
    simp only [CE.cost, List.length_cons, List.length_append]
    omega
  | neg x ih =>
    intro hok
    rw [ok_neg] at hok
    simp only [Bool.and_eq_true] at hok
    have := ih hok.1.1
    rw [render_neg]
    simp only [CE.cost, List.length_cons]
    omega
  | bin op sp a b iha ihb =>
    intro hok
    rw [ok_bin] at hok
    simp only [Bool.and_eq_true] at hok
    have h1 := iha hok.1.1.1.2
    have h2 := ihb hok.1.1.2
    rw [render_bin]
    have : 1 ≤ (if sp then [' ', op, ' '] else [op]).length := by cases sp <;> simp
    simp only [CE.cost, List.length_append]
    omega
  | gt0 c a b ihc iha ihb =>
    intro hok
    rw [ok_gt0] at hok
    simp only [Bool.and_eq_true] at hok
    have h1 := ihc hok.1.1.1
    have h2 := iha hok.1.1.2
    have h3 := ihb hok.1.2
    rw [render_gt0]
    have e1 : " > 0 ? ".toList.length = 7 := by decide
    have e2 : " : ".toList.length = 3 := by decide
    simp only [CE.cost, List.length_append, e1, e2]
    omega
  | call f a ih =>
    intro hok
    rw [ok_call] at hok
    simp only [Bool.and_eq_true] at hok
    have := ih hok.2
    rw [render_call]
    simp only [CE.cost, List.length_cons, List.length_append, List.length_nil]
    omega
  | pow a b iha ihb =>
    intro hok
    rw [ok_pow] at hok
    simp only [Bool.and_eq_true] at hok
    have h1 := iha hok.1
    have h2 := ihb hok.2
    rw [render_pow]
    simp only [CE.cost, List.length_cons, List.length_append, List.length_nil]
    omega

/-- Reading the emitted text of a canonical term gives its abstract syntax. -/
theorem parseCL_render (e : CE) (hok : e.ok = true) : parseCL e.render = .ok e.abs := by
  unfold parseCL
  have h := (rt e hok).2.2.2 (8 * e.render.length + 16) (by have := cost_le e hok; omega) [] []
    Ws.nil (by intro c tl h; cases h) (by intro c tl h; cases h)
  simp only [List.nil_append, List.append_nil] at h
  rw [h]
  rfl

end Sympler.Expr
