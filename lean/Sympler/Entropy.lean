import Sympler.Gen.EntropyGen
/-!
# Seed / entropy decision logic (C12)

`Sympler.Gen.Entropy.sites` is regenerated from /repo/source on every run: every call of getpid / time / clock /
srand / rand / gettimeofday / random_device with its enclosing function and the `randomize` guard under which it is
reached.  This file classifies the sites and models the seeds of all random sources as a function of the
`randomize` switch and of the environment (process id, clock).  Core Lean only.
-/
namespace Sympler.Entropy
open Sympler.Gen.Entropy

/-- what the environment can inject -/
structure Env where
  pid : Nat
  clock : Nat
  deriving DecidableEq, Repr

/-- sites that read the environment but cannot influence particle data: timing printouts and the temporary
    file name of the function compiler (property C11 shows names do not influence the compiled code) -/
def nonSemantic (s : Site) : Bool :=
  s.kind == "clock-stamp" || s.kind == "time-stamp" ||
  (s.kind == "pid-name" && s.file == "src/function_parser/function_compiler.cpp" && s.func == "FunctionCompiler::compile")

/-- `rand()` is seeded from the clock in `main`; is it re-seeded with a constant when `randomize` is off? -/
def randReseeded (ss : List Site) : Bool :=
  ss.any fun s => s.kind == "const-srand" && s.guard == "not-randomize" && s.func == "Simulation::setup"

/-- a site is acceptable if it is non-semantic, or only reached with `randomize = true`, or a constant seed,
    or (clock seed of `rand()` in `main`, draws of `rand()`) made deterministic by the re-seed in `Simulation::setup` -/
def siteOk (ss : List Site) (s : Site) : Bool :=
  nonSemantic s || s.guard == "randomize" || s.kind == "const-srand" ||
  ((s.kind == "rand-draw" || (s.kind == "time-seed" && s.func == "main")) && randReseeded ss)

/-- the seed a site installs, as a function of the switch and the environment (`none`: the site does not run) -/
def seedOf (ss : List Site) (randomize : Bool) (env : Env) (s : Site) : Option Nat :=
  if s.kind == "pid-seed" then
    (if s.guard == "randomize" then (if randomize then some env.pid else none)
     else if s.guard == "not-randomize" then (if randomize then none else some env.pid) else some env.pid)
  else if s.kind == "time-seed" then
    (if s.guard == "randomize" then (if randomize then some env.clock else none)
     else if s.func == "main" ∧ randReseeded ss ∧ randomize = false then some 1107   -- overwritten by srand(RNG_DEFAULT_SEED)
     else some env.clock)
  else none

end Sympler.Entropy
