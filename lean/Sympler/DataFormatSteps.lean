import Sympler.DataFormatInv
/-!
# Every operation of the `DataFormat` model keeps the invariant (C14)

Building blocks (release / allocate / deep copy / clear / write / push on one record) and the
case analysis of `step`.  Core Lean only.
-/
namespace Sympler.DataFormat

local notation "Addr" => Nat

theorem getData_ok {s : State} {d : Nat} {dat : Data} :
    s.getData d = .ok dat ↔ s.datas[d]? = some (some dat) := by
  unfold State.getData
  split
  · rename_i x hx; rw [hx]; simp
  · rename_i hne
    constructor
    · intro h; cases h
    · intro h; exact absurd h (hne dat)

theorem getFmt_ok {s : State} {f : Nat} {x : Format} : s.getFmt f = .ok x ↔ s.fmts[f]? = some x := by
  unfold State.getFmt
  split
  · rename_i y hy; rw [hy]; simp
  · rename_i hy; rw [hy]; simp

theorem fmtOf_ok {s : State} {dat : Data} {fid : Nat} {f : Format} (h : s.fmtOf dat = .ok (fid, f)) :
    dat.fmt = some fid ∧ s.fmts[fid]? = some f := by
  unfold State.fmtOf at h
  split at h
  · cases h
  · rename_i fd hfd
    split at h
    · cases h
    · rename_i x hx
      simp only [Except.ok.injEq, Prod.mk.injEq] at h
      obtain ⟨h1, h2⟩ := h
      subst h1 h2
      exact ⟨hfd, getFmt_ok.1 hx⟩

/-! ## Ownership: building blocks -/

/-- the ownership invariant only looks at the smart pointer slots -/
theorem HeapOk.congr {s : State} (hs : HeapOk s) (fmts' : List Format) (datas' : List (Option Data))
    (h : ∀ (x k : Nat) (a : Addr), (valsOf datas' x)[k]? = some (Val.sp (some a)) ↔
      (valsOf s.datas x)[k]? = some (Val.sp (some a))) :
    HeapOk ⟨fmts', datas', s.heap, s.leaked⟩ := by
  have ho : ∀ x a, owns (valsOf datas' x) a ↔ owns (valsOf s.datas x) a := by
    intro x a
    constructor
    · rintro ⟨k, hk⟩; exact ⟨k, (h x k a).1 hk⟩
    · rintro ⟨k, hk⟩; exact ⟨k, (h x k a).2 hk⟩
  refine ⟨?_, hs.rc, ?_, ?_, ?_, hs.leakLive, ?_⟩
  · intro d a ha; exact hs.live d a ((ho d a).1 ha)
  · intro d k1 k2 a h1 h2
    exact hs.inj d k1 k2 a ((h d k1 a).1 h1) ((h d k2 a).1 h2)
  · intro d1 d2 a h1 h2; exact hs.sep d1 d2 a ((ho d1 a).1 h1) ((ho d2 a).1 h2)
  · intro a ha d hd; exact hs.leakSep a ha d ((ho d a).1 hd)
  · intro a c hc
    rcases hs.complete a c hc with ⟨d, hd⟩ | hl
    · exact Or.inl ⟨d, (ho d a).2 hd⟩
    · exact Or.inr hl

/-- changing the content of a live cell (not its reference count) -/
theorem HeapOk.setCell {s : State} (hs : HeapOk s) {a : Addr} {c c' : Cell}
    (hc : s.heap[a]? = some (some c)) (hrc : c'.rc = c.rc) :
    HeapOk { s with heap := s.heap.set a (some c') } := by
  have hlt := lt_of_getElem?_some hc
  have key : ∀ (x : Addr) (y : Cell), (s.heap.set a (some c'))[x]? = some (some y) →
      ∃ y0 : Cell, s.heap[x]? = some (some y0) ∧ y.rc = y0.rc := by
    intro x y hy
    rw [List.getElem?_set] at hy
    split at hy
    · rename_i hax
      injection hy with hy; injection hy with hy
      exact ⟨c, by rw [← hax]; exact hc, by rw [← hy]; exact hrc⟩
    · exact ⟨y, hy, rfl⟩
  have key2 : ∀ (x : Addr) (y : Cell), s.heap[x]? = some (some y) →
      ∃ y' : Cell, (s.heap.set a (some c'))[x]? = some (some y') := by
    intro x y hy
    rw [List.getElem?_set]
    split
    · simp
    · exact ⟨y, hy⟩
  refine ⟨?_, ?_, hs.inj, hs.sep, hs.leakSep, ?_, ?_⟩
  · intro d x hx
    obtain ⟨y, hy⟩ := hs.live d x hx
    exact key2 x y hy
  · intro x y hy
    obtain ⟨y0, hy0, e⟩ := key x y hy
    rw [e]; exact hs.rc x y0 hy0
  · intro x hx
    obtain ⟨y, hy⟩ := hs.leakLive x hx
    exact key2 x y hy
  · intro x y hy
    obtain ⟨y0, hy0, _⟩ := key x y hy
    exact hs.complete x y0 hy0

/-- record `d` gives up its block; the cells it owned are freed (`h'` as described by
    `releaseVals_spec`) -/
theorem HeapOk.released {s : State} (hs : HeapOk s) (d : Nat) (fmts' : List Format)
    (datas' : List (Option Data)) (h' : Heap)
    (hother : ∀ x, x ≠ d → valsOf datas' x = valsOf s.datas x)
    (hd : valsOf datas' d = [])
    (hlen : h'.length = s.heap.length)
    (hfreed : ∀ a, owns (valsOf s.datas d) a → h'[a]? = some none)
    (hkept : ∀ a, ¬ owns (valsOf s.datas d) a → h'[a]? = s.heap[a]?) :
    HeapOk ⟨fmts', datas', h', s.leaked⟩ := by
  have hcl : ∀ (a : Addr) (c : Cell), h'[a]? = some (some c) →
      ¬ owns (valsOf s.datas d) a ∧ s.heap[a]? = some (some c) := by
    intro a c hc
    by_cases ho : owns (valsOf s.datas d) a
    · rw [hfreed a ho] at hc; cases hc
    · exact ⟨ho, by rw [← hkept a ho]; exact hc⟩
  have := hs.update d fmts' datas' h' [] hother (by rw [hd]; exact slotsInj_nil)
    (fun a c hc ho => by rw [hkept a ho]; exact hc)
    (fun a ha => by rw [hd] at ha; exact absurd ha (owns_nil a))
    (fun a ha => by rw [hd] at ha; exact absurd ha (owns_nil a))
    (fun a c hc => hs.rc a c (hcl a c hc).2)
    (fun a c _ hc => ⟨c, (hcl a c hc).2⟩)
    (fun a c hc hor => by
      rcases hor with ho | hge
      · exact absurd ho (hcl a c hc).1
      · have := lt_of_getElem?_some hc; omega)
    (fun a ha => by simp at ha)
  simpa using this

/-- record `d` gets a block all of whose smart pointers point to new cells (allocation, deep
    copy); the cells it owned before (if any) lose their last pointer and are recorded as leaked -/
theorem HeapOk.fresh {s : State} (hs : HeapOk s) (d : Nat) (fmts' : List Format)
    (datas' : List (Option Data)) (extra : List (Option Cell)) (L : List Addr)
    (hother : ∀ x, x ≠ d → valsOf datas' x = valsOf s.datas x)
    (hL : ∀ a, a ∈ L ↔ owns (valsOf s.datas d) a)
    (hextra : ∀ c ∈ extra, ∃ l : List Elem, c = some ⟨l, 1⟩)
    (hfresh : ∀ (k a : Nat), (valsOf datas' d)[k]? = some (Val.sp (some a)) →
      s.heap.length ≤ a ∧ a < s.heap.length + extra.length)
    (hinj : slotsInj (valsOf datas' d))
    (hcompl : ∀ a : Nat, s.heap.length ≤ a → a < s.heap.length + extra.length → owns (valsOf datas' d) a) :
    HeapOk ⟨fmts', datas', s.heap ++ extra, s.leaked ++ L⟩ := by
  have oldLt : ∀ (a : Nat), owns (valsOf s.datas d) a → a < s.heap.length := by
    intro a ha
    obtain ⟨c, hc⟩ := hs.live d a ha
    exact lt_of_getElem?_some hc
  have keep : ∀ (a : Nat) (c : Cell), s.heap[a]? = some (some c) → (s.heap ++ extra)[a]? = some (some c) := by
    intro a c hc
    rw [List.getElem?_append_left (lt_of_getElem?_some hc)]; exact hc
  have newCell : ∀ (a : Nat) (c : Cell), s.heap.length ≤ a → (s.heap ++ extra)[a]? = some (some c) → c.rc = 1 := by
    intro a c hge hc
    rw [List.getElem?_append_right hge] at hc
    obtain ⟨l, hl⟩ := hextra _ (List.mem_of_getElem? hc)
    injection hl with hl; subst hl; rfl
  apply hs.update d fmts' datas' (s.heap ++ extra) L hother hinj
  · intro a c hc _; exact keep a c hc
  · intro a ⟨k, hk⟩; exact Or.inr (hfresh k a hk).1
  · intro a ⟨k, hk⟩
    obtain ⟨h1, h2⟩ := hfresh k a hk
    have hlt : a - s.heap.length < extra.length := by omega
    obtain ⟨l, hl⟩ := hextra (extra[a - s.heap.length]) (List.getElem_mem hlt)
    refine ⟨⟨l, 1⟩, ?_⟩
    rw [List.getElem?_append_right h1, List.getElem?_eq_getElem hlt, hl]
  · intro a c hc
    by_cases hlt : a < s.heap.length
    · rw [List.getElem?_append_left hlt] at hc; exact hs.rc a c hc
    · exact newCell a c (by omega) hc
  · intro a c hlt hc
    rw [List.getElem?_append_left hlt] at hc; exact ⟨c, hc⟩
  · intro a c hc hor
    rcases hor with ho | hge
    · exact Or.inr ((hL a).2 ho)
    · have := lt_of_getElem?_some hc
      simp at this
      exact Or.inl (hcompl a hge this)
  · intro a ha
    have ho := (hL a).1 ha
    refine ⟨ho, ?_, ?_⟩
    · rintro ⟨k, hk⟩
      have := (hfresh k a hk).1
      have := oldLt a ho
      omega
    · obtain ⟨c, hc⟩ := hs.live d a ho
      exact ⟨c, keep a c hc⟩

/-- record `d` keeps some of its smart pointers and the cells of the others are freed -/
theorem HeapOk.cleared {s : State} (hs : HeapOk s) (d : Nat) (fmts' : List Format)
    (datas' : List (Option Data)) (h' : Heap)
    (hother : ∀ x, x ≠ d → valsOf datas' x = valsOf s.datas x)
    (hlen : h'.length = s.heap.length)
    (hsub : ∀ a, owns (valsOf datas' d) a → owns (valsOf s.datas d) a ∧ h'[a]? = s.heap[a]?)
    (hfreed : ∀ a, owns (valsOf s.datas d) a → ¬ owns (valsOf datas' d) a → h'[a]? = some none)
    (hkept : ∀ a, ¬ owns (valsOf s.datas d) a → h'[a]? = s.heap[a]?)
    (hinj : slotsInj (valsOf datas' d)) :
    HeapOk ⟨fmts', datas', h', s.leaked⟩ := by
  have hcl : ∀ (a : Addr) (c : Cell), h'[a]? = some (some c) →
      s.heap[a]? = some (some c) ∧ (owns (valsOf s.datas d) a → owns (valsOf datas' d) a) := by
    intro a c hc
    by_cases ho : owns (valsOf s.datas d) a
    · by_cases hn : owns (valsOf datas' d) a
      · exact ⟨by rw [← (hsub a hn).2]; exact hc, fun _ => hn⟩
      · rw [hfreed a ho hn] at hc; cases hc
    · exact ⟨by rw [← hkept a ho]; exact hc, fun h => absurd h ho⟩
  have := hs.update d fmts' datas' h' [] hother hinj
    (fun a c hc ho => by rw [hkept a ho]; exact hc)
    (fun a ha => Or.inl (hsub a ha).1)
    (fun a ha => by
      obtain ⟨ho, he⟩ := hsub a ha
      obtain ⟨c, hc⟩ := hs.live d a ho
      exact ⟨c, by rw [he]; exact hc⟩)
    (fun a c hc => hs.rc a c (hcl a c hc).1)
    (fun a c _ hc => ⟨c, (hcl a c hc).1⟩)
    (fun a c hc hor => by
      rcases hor with ho | hge
      · exact Or.inl ((hcl a c hc).2 ho)
      · have := lt_of_getElem?_some hc; omega)
    (fun a ha => by simp at ha)
  simpa using this

theorem owns_append_singleton {vs : List Val} {v : Val} {a : Addr} :
    owns (vs ++ [v]) a ↔ owns vs a ∨ v = Val.sp (some a) := by
  constructor
  · rintro ⟨k, hk⟩
    by_cases hlt : k < vs.length
    · rw [List.getElem?_append_left hlt] at hk; exact Or.inl ⟨k, hk⟩
    · rw [List.getElem?_append_right (by omega)] at hk
      have : k - vs.length = 0 := by
        by_cases h0 : k - vs.length = 0
        · exact h0
        · rw [List.getElem?_eq_none (by simp; omega)] at hk; cases hk
      rw [this] at hk
      simp at hk
      exact Or.inr hk
  · rintro (⟨k, hk⟩ | hv)
    · exact ⟨k, by rw [List.getElem?_append_left (lt_of_getElem?_some hk)]; exact hk⟩
    · exact ⟨vs.length, by simp [hv]⟩

/-- `Data::addAttribute` for a new container attribute: one more slot pointing to a new cell -/
theorem HeapOk.appendedSp {s : State} (hs : HeapOk s) (d : Nat) (fmts' : List Format)
    (datas' : List (Option Data))
    (hother : ∀ x, x ≠ d → valsOf datas' x = valsOf s.datas x)
    (hd : valsOf datas' d = valsOf s.datas d ++ [Val.sp (some s.heap.length)]) :
    HeapOk ⟨fmts', datas', s.heap ++ [some ⟨[], 1⟩], s.leaked⟩ := by
  have oldLt : ∀ (a : Nat), owns (valsOf s.datas d) a → a < s.heap.length := by
    intro a ha
    obtain ⟨c, hc⟩ := hs.live d a ha
    exact lt_of_getElem?_some hc
  have keep : ∀ (a : Nat) (c : Cell), s.heap[a]? = some (some c) →
      (s.heap ++ [some (⟨[], 1⟩ : Cell)])[a]? = some (some c) := by
    intro a c hc
    rw [List.getElem?_append_left (lt_of_getElem?_some hc)]; exact hc
  have hown : ∀ a : Nat, owns (valsOf datas' d) a ↔ owns (valsOf s.datas d) a ∨ a = s.heap.length := by
    intro a
    rw [hd, owns_append_singleton]
    constructor
    · rintro (h | h)
      · exact Or.inl h
      · injection h with h; injection h with h; exact Or.inr h.symm
    · rintro (h | h)
      · exact Or.inl h
      · exact Or.inr (by rw [h])
  have hnew : ∀ (a : Nat) (c : Cell), s.heap.length ≤ a →
      (s.heap ++ [some (⟨[], 1⟩ : Cell)])[a]? = some (some c) → a = s.heap.length ∧ c.rc = 1 := by
    intro a c hge hc
    have hlt := lt_of_getElem?_some hc
    simp at hlt
    have : a = s.heap.length := by omega
    subst this
    simp at hc
    exact ⟨rfl, by rw [← hc]⟩
  have := hs.update d fmts' datas' (s.heap ++ [some ⟨[], 1⟩]) [] hother
    (by
      rw [hd]
      intro k1 k2 a h1 h2
      by_cases hk1 : k1 < (valsOf s.datas d).length <;> by_cases hk2 : k2 < (valsOf s.datas d).length
      · rw [List.getElem?_append_left hk1] at h1
        rw [List.getElem?_append_left hk2] at h2
        exact hs.inj d k1 k2 a h1 h2
      · rw [List.getElem?_append_left hk1] at h1
        have ho : owns (valsOf datas' d) a := ⟨k2, by rw [hd]; exact h2⟩
        have h2' : owns (valsOf s.datas d ++ [Val.sp (some s.heap.length)]) a := ⟨k2, h2⟩
        rcases owns_append_singleton.1 h2' with h | h
        · have := lt_of_getElem?_some h2; simp at this
          have hk : k2 = (valsOf s.datas d).length := by omega
          subst hk; simp at h2
          have := oldLt a ⟨k1, h1⟩; omega
        · injection h with h; injection h with h
          have := oldLt a ⟨k1, h1⟩; omega
      · rw [List.getElem?_append_left hk2] at h2
        have := lt_of_getElem?_some h1; simp at this
        have hk : k1 = (valsOf s.datas d).length := by omega
        subst hk; simp at h1
        have := oldLt a ⟨k2, h2⟩; omega
      · have := lt_of_getElem?_some h1; simp at this
        have := lt_of_getElem?_some h2; simp at this
        omega)
    (fun a c hc _ => keep a c hc)
    (fun a ha => by
      rcases (hown a).1 ha with h | h
      · exact Or.inl h
      · exact Or.inr (by omega))
    (fun a ha => by
      rcases (hown a).1 ha with h | h
      · obtain ⟨c, hc⟩ := hs.live d a h
        exact ⟨c, keep a c hc⟩
      · exact ⟨⟨[], 1⟩, by rw [h]; simp⟩)
    (fun a c hc => by
      by_cases hlt : a < s.heap.length
      · rw [List.getElem?_append_left hlt] at hc; exact hs.rc a c hc
      · exact (hnew a c (by omega) hc).2)
    (fun a c hlt hc => by rw [List.getElem?_append_left hlt] at hc; exact ⟨c, hc⟩)
    (fun a c hc hor => by
      rcases hor with ho | hge
      · exact Or.inl ((hown a).2 (Or.inl ho))
      · exact Or.inl ((hown a).2 (Or.inr (hnew a c hge hc).1)))
    (fun a ha => by simp at ha)
  simpa using this

/-! ## Records: building blocks at the level of `Inv` -/

/-- how a new list of records relates to the old one: only position `d` differs -/
structure OnlyAt (datas datas' : List (Option Data)) (d : Nat) (x : Option Data) : Prop where
  other : ∀ i, i ≠ d → datas'[i]? = datas[i]?
  self : datas'[d]? = some x

theorem OnlyAt.set {datas : List (Option Data)} {d : Nat} (hd : d < datas.length) (x : Option Data) :
    OnlyAt datas (datas.set d x) d x :=
  ⟨fun _ hi => List.getElem?_set_ne (Ne.symm hi), List.getElem?_set_self hd⟩

theorem OnlyAt.append (datas : List (Option Data)) (x : Option Data) :
    OnlyAt datas (datas ++ [x]) datas.length x := by
  refine ⟨fun i hi => ?_, by simp⟩
  by_cases hlt : i < datas.length
  · exact List.getElem?_append_left hlt
  · rw [List.getElem?_eq_none (by simp; omega), List.getElem?_eq_none (by omega)]

theorem OnlyAt.valsOf_other {datas datas' : List (Option Data)} {d : Nat} {x : Option Data}
    (h : OnlyAt datas datas' d x) (i : Nat) (hi : i ≠ d) : valsOf datas' i = valsOf datas i := by
  unfold valsOf; rw [h.other i hi]

theorem OnlyAt.valsOf_self_block {datas datas' : List (Option Data)} {d : Nat} {fm : Option Nat} {b : Block}
    (h : OnlyAt datas datas' d (some ⟨fm, some b⟩)) : valsOf datas' d = b.vals := by
  unfold valsOf; rw [h.self]

theorem OnlyAt.valsOf_self_noblock {datas datas' : List (Option Data)} {d : Nat} {fm : Option Nat}
    (h : OnlyAt datas datas' d (some ⟨fm, none⟩)) : valsOf datas' d = [] := by
  unfold valsOf; rw [h.self]

theorem OnlyAt.valsOf_self_none {datas datas' : List (Option Data)} {d : Nat}
    (h : OnlyAt datas datas' d none) : valsOf datas' d = [] := by
  unfold valsOf; rw [h.self]

theorem OnlyAt.cases {datas datas' : List (Option Data)} {d : Nat} {x : Option Data}
    (h : OnlyAt datas datas' d x) {i : Nat} {dat : Data} (hi : datas'[i]? = some (some dat)) :
    (i = d ∧ x = some dat) ∨ datas[i]? = some (some dat) := by
  by_cases hid : i = d
  · subst hid; rw [h.self] at hi
    injection hi with hi
    exact Or.inl ⟨rfl, hi⟩
  · rw [h.other i hid] at hi; exact Or.inr hi

/-- records are well formed after replacing record `d` by a well formed one (formats unchanged) -/
theorem datasOk_onlyAt {al : Option Nat} {s : State} (hs : Inv al s) {datas' : List (Option Data)} {d : Nat}
    {x : Option Data} (h : OnlyAt s.datas datas' d x) (hx : ∀ dat, x = some dat → DataOk al s.fmts dat) :
    ∀ (i : Nat) (dat : Data), datas'[i]? = some (some dat) → DataOk al s.fmts dat := by
  intro i dat hi
  rcases h.cases hi with ⟨_, hxd⟩ | hold
  · exact hx dat hxd
  · exact hs.datas i dat hold

theorem dataOk_noblock {al : Option Nat} {fmts : List Format} {fm : Option Nat}
    (h : ∀ fid, fm = some fid → ∃ f, fmts[fid]? = some f) : DataOk al fmts ⟨fm, none⟩ := by
  unfold DataOk
  cases fm with
  | none => rfl
  | some fid =>
    obtain ⟨f, hf⟩ := h fid rfl
    exact ⟨f, hf, fun b hb => by cases hb⟩

/-- what `DataFormat::release(m_data)` does to the heap of a state satisfying the invariant -/
theorem format_release_spec {al : Option Nat} {s : State} (hs : Inv al s) {d fid : Nat} {dat : Data} {f : Format}
    {h : Heap} (hd : s.datas[d]? = some (some dat)) (hfid : dat.fmt = some fid) (hf : s.fmts[fid]? = some f)
    (hr : f.release s.heap dat.block = .ok h) :
    h.length = s.heap.length ∧ (∀ a, owns (valsOf s.datas d) a → h[a]? = some none) ∧
      (∀ a, ¬ owns (valsOf s.datas d) a → h[a]? = s.heap[a]?) := by
  have hdo := hs.datas d dat hd
  unfold DataOk at hdo
  simp only [hfid] at hdo
  obtain ⟨f0, hf0, hb0⟩ := hdo
  rw [hf] at hf0; cases hf0
  cases hblk : dat.block with
  | none =>
    rw [hblk] at hr
    simp only [Format.release] at hr
    injection hr with hr; subst hr
    have : valsOf s.datas d = [] := by rw [valsOf_eq hd, hblk]
    rw [this]
    exact ⟨rfl, fun a ha => absurd ha (owns_nil a), fun _ _ => rfl⟩
  | some b =>
    rw [hblk] at hr
    simp only [Format.release] at hr
    split at hr
    · cases hr
    · have hbo := hb0 b hblk
      have hv : valsOf s.datas d = b.vals := valsOf_of_block hd hblk
      have hinj := hs.heap.inj d
      have hlive := hs.heap.ownedLive d
      rw [hv] at hinj hlive ⊢
      rcases releaseVals_spec f.byIndex s.heap b.vals hbo.len hbo.typed hinj hlive with he | ⟨h', h1, h2, h3, h4⟩
      · rw [he] at hr; cases hr
      · rw [h1] at hr; injection hr with hr; subst hr
        exact ⟨h2, h3, h4⟩

/-- after the block of record `d` was released the record may be dropped or keep/lose its format -/
theorem Inv.afterRelease {al : Option Nat} {s : State} (hs : Inv al s) {d : Nat} {h : Heap}
    {datas' : List (Option Data)} {x : Option Data} (ho : OnlyAt s.datas datas' d x)
    (hx : x = none ∨ ∃ fm, x = some ⟨fm, none⟩ ∧ ∀ fid, fm = some fid → ∃ f, s.fmts[fid]? = some f)
    (hlen : h.length = s.heap.length) (hfreed : ∀ a, owns (valsOf s.datas d) a → h[a]? = some none)
    (hkept : ∀ a, ¬ owns (valsOf s.datas d) a → h[a]? = s.heap[a]?) :
    Inv al ⟨s.fmts, datas', h, s.leaked⟩ := by
  refine ⟨hs.fmts, ?_, ?_⟩
  · apply datasOk_onlyAt hs ho
    intro dat hdat
    rcases hx with hx | ⟨fm, hx, hfm⟩
    · rw [hx] at hdat; cases hdat
    · rw [hx] at hdat; injection hdat with hdat; subst hdat
      exact dataOk_noblock hfm
  · apply hs.heap.released d s.fmts datas' h (ho.valsOf_other) ?_ hlen hfreed hkept
    rcases hx with hx | ⟨fm, hx, _⟩
    · subst hx; exact ho.valsOf_self_none
    · subst hx; exact ho.valsOf_self_noblock

theorem blockOk_full {al : Option Nat} {f : Format} {vs : List Val} (hf : FormatOk al f)
    (hlen : vs.length = f.byIndex.length) (hty : typed f.byIndex vs) : BlockOk al f ⟨f.size, vs⟩ := by
  refine ⟨by simp [hlen], ?_, hty⟩
  show f.size = prefixSize al (f.byIndex.take vs.length)
  rw [hlen, List.take_length, hf.size]

/-- `m_data = m_format->alloc()` into a record that owns nothing -/
theorem Inv.allocInto {al : Option Nat} {s : State} (hs : Inv al s) {d fid : Nat} {f : Format}
    {b : Option Block} {h' : Heap} {datas' : List (Option Data)}
    (ho : OnlyAt s.datas datas' d (some ⟨some fid, b⟩)) (hempty : valsOf s.datas d = [])
    (hf : s.fmts[fid]? = some f) (ha : f.alloc s.heap true = (b, h')) :
    Inv al ⟨s.fmts, datas', h', s.leaked⟩ := by
  have hfo := hs.fmts fid f hf
  unfold Format.alloc at ha
  split at ha
  · -- m_size == 0: NULL
    simp only [Prod.mk.injEq] at ha
    obtain ⟨hb, hh⟩ := ha
    subst hb hh
    refine ⟨hs.fmts, ?_, ?_⟩
    · apply datasOk_onlyAt hs ho
      intro dat hdat
      injection hdat with hdat; subst hdat
      exact dataOk_noblock (fun fid' hfid' => by injection hfid' with hfid'; subst hfid'; exact ⟨f, hf⟩)
    · apply hs.heap.congr
      intro x k a
      by_cases hx : x = d
      · subst hx; rw [ho.valsOf_self_noblock, hempty]
      · rw [ho.valsOf_other x hx]
  · simp only [if_true, Prod.mk.injEq] at ha
    obtain ⟨hb, hh⟩ := ha
    obtain ⟨i1, ⟨extra, i2, i2'⟩, i3, i4, i5, i6⟩ := allocVals_spec f.byIndex s.heap
    subst hb
    have hvals := ho.valsOf_self_block
    have hty : typed f.byIndex (allocVals s.heap f.byIndex).1 := by
      intro k v att hv hatt
      have := i6 k v att hv hatt
      by_cases hc : att.dtype.isContainer = true
      · simp only [hc, if_true] at this
        obtain ⟨a, ha⟩ := this
        subst ha; simp [Val.hasType, hc]
      · simp only [hc] at this
        rw [if_neg (by simp)] at this
        subst this; exact zeroVal_hasType _
    refine ⟨hs.fmts, ?_, ?_⟩
    · apply datasOk_onlyAt hs ho
      intro dat hdat
      injection hdat with hdat; subst hdat
      exact ⟨f, hf, fun b hb => by injection hb with hb; subst hb; exact blockOk_full hfo i1 hty⟩
    · have hlen : h'.length = s.heap.length + extra.length := by rw [← hh, i2]; simp
      have := hs.heap.fresh d s.fmts datas' extra [] ho.valsOf_other
        (fun a => by rw [hempty]; simp [owns_nil])
        (fun c hc => ⟨[], i2' c hc⟩)
        (fun k a hk => by
          rw [hvals] at hk
          have := i3 k a hk
          rw [hh, hlen] at this; exact this)
        (by rw [hvals]; exact i4)
        (fun a h1 h2 => by
          rw [hvals]; exact i5 a h1 (by rw [hh, hlen]; exact h2))
      rw [← i2, hh] at this
      simpa using this

/-- `memcpy` of the block of record `e` + the deep copy loop, into record `d` (a new record, a
    record without block, or — `operator=` with equal formats — a record whose own smart
    pointers are overwritten and go to `L`) -/
theorem Inv.deepCopyInto {al : Option Nat} {s : State} (hs : Inv al s) {d e fid : Nat} {f : Format} {src : Data}
    {b : Block} {vals : List Val} {h' : Heap} {datas' : List (Option Data)} {L : List Addr}
    (ho : OnlyAt s.datas datas' d (some ⟨some fid, some ⟨f.size, vals⟩⟩))
    (hsrc : s.datas[e]? = some (some src)) (hsf : src.fmt = some fid) (hsb : src.block = some b)
    (hf : s.fmts[fid]? = some f) (hfull : ¬ b.size < f.size)
    (hL : ∀ a, a ∈ L ↔ owns (valsOf s.datas d) a)
    (hc : deepCopyVals s.heap f.byIndex b.vals b.vals = .ok (vals, h')) :
    Inv al ⟨s.fmts, datas', h', s.leaked ++ L⟩ := by
  have hfo := hs.fmts fid f hf
  have hdo := hs.datas e src hsrc
  unfold DataOk at hdo
  simp only [hsf] at hdo
  obtain ⟨f0, hf0, hb0⟩ := hdo
  rw [hf] at hf0; cases hf0
  have hbo := hb0 b hsb
  have hlenb := hbo.full_of_not_lt hfo hfull
  have hv : valsOf s.datas e = b.vals := valsOf_of_block hsrc hsb
  have hlive := hs.heap.ownedLive e
  rw [hv] at hlive
  rcases deepCopyVals_spec f.byIndex s.heap b.vals hlenb hbo.typed hlive with he | ⟨vs', h'', extra, h1, h2, h3, h4, h5, h6, h7, h8⟩
  · rw [he] at hc; cases hc
  · rw [h1] at hc
    simp only [Except.ok.injEq, Prod.mk.injEq] at hc
    obtain ⟨hc1, hc2⟩ := hc
    subst hc1 hc2
    have hvals := ho.valsOf_self_block
    have hty : typed f.byIndex vs' := by
      intro k v att hvk hatt
      have hk : k < b.vals.length := by rw [← h4]; exact lt_of_getElem?_some hvk
      have hbk : b.vals[k]? = some b.vals[k] := by simp [hk]
      have := h8 k _ att hbk hatt
      by_cases hcon : att.dtype.isContainer = true
      · simp only [hcon, if_true] at this
        obtain ⟨y, n, c, _, _, e3, _⟩ := this
        rw [hvk] at e3; injection e3 with e3; subst e3
        simp [Val.hasType, hcon]
      · simp only [hcon] at this
        rw [if_neg (by simp)] at this
        rw [hvk] at this; injection this with this; subst this
        exact hbo.typed k _ att hbk hatt
    refine ⟨hs.fmts, ?_, ?_⟩
    · apply datasOk_onlyAt hs ho
      intro dat hdat
      injection hdat with hdat; subst hdat
      exact ⟨f, hf, fun b' hb' => by
        injection hb' with hb'; subst hb'
        exact blockOk_full hfo (by rw [h4, hlenb]) hty⟩
    · have hlen : h''.length = s.heap.length + extra.length := by rw [h2]; simp
      have := hs.heap.fresh d s.fmts datas' extra L ho.valsOf_other hL h3
        (fun k a hk => by
          rw [hvals] at hk
          have := h5 k a hk
          rw [hlen] at this; exact this)
        (by rw [hvals]; exact h6)
        (fun a g1 g2 => by rw [hvals]; exact h7 a g1 (by rw [hlen]; exact g2))
      rw [← h2] at this
      exact this

/-- `DataFormat::clear` / `clearAll` on the block of record `d` -/
theorem Inv.clearInto {al : Option Nat} {s : State} (hs : Inv al s) {all : Bool} {d fid : Nat} {f : Format}
    {dat : Data} {b : Block} {vs : List Val} {h' : Heap}
    (hd : s.datas[d]? = some (some dat)) (hfid : dat.fmt = some fid) (hblk : dat.block = some b)
    (hf : s.fmts[fid]? = some f)
    (hc : clearVals all s.heap f.byIndex b.vals = .ok (vs, h')) :
    Inv al ⟨s.fmts, s.datas.set d (some { dat with block := some { b with vals := vs } }), h', s.leaked⟩ ∧
    vs.length = b.vals.length ∧
    (∀ (k : Nat) (v : Val) (a : Attr), b.vals[k]? = some v → f.byIndex[k]? = some a →
      vs[k]? = some (if all || !a.persistent then zeroVal a.dtype else v)) ∧
    (∀ a, owns vs a → h'[a]? = s.heap[a]?) ∧
    (∀ a, ¬ owns b.vals a → h'[a]? = s.heap[a]?) := by
  have hdlt : d < s.datas.length := lt_of_getElem?_some hd
  have hdo := hs.datas d dat hd
  unfold DataOk at hdo
  simp only [hfid] at hdo
  obtain ⟨f0, hf0, hb0⟩ := hdo
  rw [hf] at hf0; cases hf0
  have hbo := hb0 b hblk
  have hv : valsOf s.datas d = b.vals := valsOf_of_block hd hblk
  have hinj := hs.heap.inj d
  have hlive := hs.heap.ownedLive d
  rw [hv] at hinj hlive
  rcases clearVals_spec all f.byIndex s.heap b.vals hbo.len hbo.typed hinj hlive with he | ⟨vs', h'', h1, h2, h3, h4, h5, h6, h7, h8⟩
  · rw [he] at hc; cases hc
  · rw [h1] at hc
    simp only [Except.ok.injEq, Prod.mk.injEq] at hc
    obtain ⟨hc1, hc2⟩ := hc
    subst hc1 hc2
    refine ⟨⟨hs.fmts, ?_, ?_⟩, h3, h4, fun a ha => (h5 a ha).2, h7⟩
    · have ho := OnlyAt.set hdlt (some ({ dat with block := some { b with vals := vs' } } : Data))
      apply datasOk_onlyAt hs ho
      intro dat' hdat'
      injection hdat' with hdat'; subst hdat'
      unfold DataOk
      simp only [hfid]
      refine ⟨f, hf, fun b' hb' => ?_⟩
      injection hb' with hb'; subst hb'
      refine ⟨by simp [h3]; exact hbo.len, ?_, ?_⟩
      · show b.size = prefixSize al (f.byIndex.take vs'.length)
        rw [h3]; exact hbo.size
      · intro k v att hvk hatt
        have hk : k < b.vals.length := by rw [← h3]; exact lt_of_getElem?_some hvk
        have hbk : b.vals[k]? = some b.vals[k] := by simp [hk]
        have := h4 k _ att hbk hatt
        rw [hvk] at this; injection this with this
        show v.hasType att.dtype = true
        rw [this]
        split
        · exact zeroVal_hasType _
        · exact hbo.typed k _ att hbk hatt
    · have ho := OnlyAt.set hdlt (some ({ dat with block := some { b with vals := vs' } } : Data))
      have hvals : valsOf (s.datas.set d (some { dat with block := some { b with vals := vs' } })) d = vs' :=
        ho.valsOf_self_block
      apply hs.heap.cleared d s.fmts _ h'' ho.valsOf_other h2
      · intro a ha; rw [hvals] at ha; rw [hv]; exact h5 a ha
      · intro a ha hn; rw [hv] at ha; rw [hvals] at hn; exact h6 a ha hn
      · intro a ha; rw [hv] at ha; exact h7 a ha
      · rw [hvals]; exact h8

/-- writing a value of a non-container type into attribute `i` -/
theorem Inv.wrote {al : Option Nat} {s : State} (hs : Inv al s) {d i fid : Nat} {f : Format} {dat : Data}
    {b : Block} {att : Attr} {v : Val}
    (hd : s.datas[d]? = some (some dat)) (hfid : dat.fmt = some fid) (hblk : dat.block = some b)
    (hf : s.fmts[fid]? = some f) (hatt : f.byIndex[i]? = some att)
    (hv : v.hasType att.dtype = true) (hnc : att.dtype.isContainer = false) :
    Inv al (s.setData d (some { dat with block := some { b with vals := b.vals.set i v } })) := by
  have hdlt : d < s.datas.length := lt_of_getElem?_some hd
  have hdo := hs.datas d dat hd
  unfold DataOk at hdo
  simp only [hfid] at hdo
  obtain ⟨f0, hf0, hb0⟩ := hdo
  rw [hf] at hf0; cases hf0
  have hbo := hb0 b hblk
  have hvv : valsOf s.datas d = b.vals := valsOf_of_block hd hblk
  have ho := OnlyAt.set hdlt (some ({ dat with block := some { b with vals := b.vals.set i v } } : Data))
  refine ⟨hs.fmts, ?_, ?_⟩
  · apply datasOk_onlyAt hs ho
    intro dat' hdat'
    injection hdat' with hdat'; subst hdat'
    unfold DataOk
    simp only [hfid]
    refine ⟨f, hf, fun b' hb' => ?_⟩
    injection hb' with hb'; subst hb'
    refine ⟨by simp; exact hbo.len, ?_, ?_⟩
    · show b.size = prefixSize al (f.byIndex.take (b.vals.set i v).length)
      rw [List.length_set]; exact hbo.size
    · intro k v' a' hvk ha'
      rw [List.getElem?_set] at hvk
      split at hvk
      · rename_i hik; subst hik
        split at hvk
        · injection hvk with hvk; subst hvk
          rw [hatt] at ha'; injection ha' with ha'; subst ha'; exact hv
        · cases hvk
      · exact hbo.typed k v' a' hvk ha'
  · apply hs.heap.congr
    intro x k a
    by_cases hx : x = d
    · subst hx
      show (valsOf (s.datas.set x _) x)[k]? = _ ↔ _
      rw [ho.valsOf_self_block, hvv, List.getElem?_set]
      split
      · rename_i hik; subst hik
        constructor
        · intro h'
          split at h'
          · injection h' with h'; exact absurd h' (hasType_noncontainer hv hnc _)
          · cases h'
        · intro h'
          exact absurd rfl (hasType_noncontainer (hbo.typed i _ att h' hatt) hnc (some a))
      · exact Iff.rfl
    · show (valsOf (s.datas.set d _) x)[k]? = _ ↔ _
      rw [ho.valsOf_other x hx]

/-! ## Accessors -/

theorem attrAt_ok {s : State} {d i : Nat} {l : AttrAt} (h : s.attrAt d i = .ok l) :
    s.datas[d]? = some (some l.dat) ∧ l.dat.fmt = some l.fid ∧ s.fmts[l.fid]? = some l.fmt ∧
      l.fmt.byIndex[i]? = some l.attr := by
  unfold State.attrAt at h
  split at h
  · cases h
  · rename_i dat hdat
    split at h
    · cases h
    · rename_i fid hfid
      split at h
      · cases h
      · rename_i f hf
        split at h
        · cases h
        · rename_i a ha
          injection h with h; subst h
          exact ⟨getData_ok.1 hdat, hfid, getFmt_ok.1 hf, ha⟩

theorem slot_ok {l : AttrAt} {i : Nat} {b : Block} {v : Val} (h : l.slot i = .ok (b, v)) :
    l.dat.block = some b ∧ b.vals[i]? = some v ∧ l.attr.misaligned = false := by
  unfold AttrAt.slot at h
  split at h
  · cases h
  · rename_i b' hb'
    split at h
    · cases h
    · rename_i v' hv'
      split at h
      · cases h
      · rename_i hm
        simp only [Except.ok.injEq, Prod.mk.injEq] at h
        obtain ⟨h1, h2⟩ := h
        subst h1 h2
        exact ⟨hb', hv', by simpa using hm⟩


end Sympler.DataFormat
