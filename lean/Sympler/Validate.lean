import Sympler.Basic
/-!
# Validate — the decision logic of input processing (property C17)

Model of the places where sympler decides "this input / this helper result is not acceptable":

1. `NodeManyChildren::read` → `instantiateChild` of the parent
   (`/repo/source/src/basic/simulation.cpp`, `phase.cpp`, `boundary/boundary.cpp`,
   `controller.cpp` via `SmartEnum::byName`): module name known in the factory of its parent;
   `Simulation::instantiateChild` also checks the order Controller → forces/symbols/callables → Phase → meters.
2. `PropertyList::fromXML` (`/repo/source/src/basic/property_list.cpp`): attribute known (or
   `m_allow_unknown`), value converted by type, constraint object checked.
   INT and DOUBLE are the STRICT conversions `stringToIntStrict` / `stringToDoubleStrict`
   (`strtol(…,10)` / `strtod` + "only white space left"), modelled at character level;
   the INT length / `LONG_MAX` string comparison that precedes `strtol` is modelled as written.
   The old conversions (`atoi`/`atof` = longest numeric prefix, never an error) are kept as
   `parseIntOld` / `parseDoubleOld`.
3. `FunctionCompiler::compile` (`function_compiler.cpp`): expression parses, all symbols resolved
   (both abstract: predicates supplied by the caller), number of result entries = expected.
4. `ManagerCell::cellSubdivide` (`manager_cell.cpp`): `(int)(d[i]/cutoff) ≥ 2` in every direction.
5. `FunctionCompiler::compile` / `setParserAndCompile`: `system(gcc …) == 0`, `dlopen`, `dlsym`, `dlerror`.
6. `main` (`main.cpp`): a `gError` ⇒ message + `exitValue()` (1, or 2 for PARTICLEFLEWTOOFAR).

Characters are `List Char` (code points).  `std::string::size()` counts bytes: `byteLen`.

What `strtod` syntax is included: optional leading `isspace` characters (space, \t \n \v \f \r),
optional sign, then decimal (`digits[.digits][(e|E)[sign]digits]`, at least one digit in the mantissa),
hexadecimal (`0(x|X)hex[.hex][(p|P)[sign]digits]`, at least one hex digit; otherwise only the `0` is
converted and the end pointer stays at the `x`), `inf` / `infinity`, `nan` / `nan(n-char-sequence)`,
the words in any letter case (glibc, "C" locale: decimal point is `.`, no digit grouping).
Trailing white space accepted by `onlyWhiteSpaceLeft`: space, \t, \n, \r (NOT \v, \f).

Values: the exact rational of the text, except that magnitudes that round to ±infinity or to zero in
IEEE double do so here as well.  Rounding to the nearest double in between is NOT modelled (a value
closer than half an ulp to a constraint bound may compare differently in the real code).
-/
namespace Sympler.Validate

/-- Error kinds = the `throw gError` sites of the modelled chain. -/
inductive Kind where
  | unknownModule      -- `'<name>' not found.` / `Object <name> not found in database.`
  | moduleOrder        -- `Forces must be defined after the Controller.`, `Only one Phase is allowed.` …
  | noPhase            -- `Simulation::setup`: `No Phase defined.`
  | unknownAttr        -- `Unknown property '<name>'`
  | intRange           -- `Integer Value "<s>" out of admissible range!`
  | notInt             -- `Value "<s>" is not an integer number!`
  | notNumber          -- `Value "<s>" is not a number!`
  | badBool            -- `Can be 'true'|'yes'|1 or 'false'|'no'|0.`
  | badPoint           -- `This is not a point`
  | forbiddenType      -- `EO_DATATYPE`
  | constraint         -- `has an invalid value. Constraint on value:`
  | exprSyntax         -- any `FunctionParser` syntax error
  | undefinedSymbol    -- `Undefined symbol`
  | sizeMismatch       -- `Type mismatch in return value.`
  | boxTooSmall        -- `Box length too small!`
  | compileFailed      -- `Failed to compile the function using gcc.`
  | dlopenFailed       -- `error opening <so>`
  | dlsymFailed        -- `Didn't get a function from <so>.`
  | dlerrorSet         -- `error during linking of <so>`
  | particleFlewTooFar -- the only `gError` with exit value 2 (`cell.cpp`); a run-time error, listed for `exitValue`
  deriving DecidableEq, Repr

def Kind.name : Kind → String
  | .unknownModule => "unknownModule" | .moduleOrder => "moduleOrder" | .noPhase => "noPhase"
  | .unknownAttr => "unknownAttr" | .intRange => "intRange" | .notInt => "notInt"
  | .notNumber => "notNumber" | .badBool => "badBool" | .badPoint => "badPoint"
  | .forbiddenType => "forbiddenType" | .constraint => "constraint" | .exprSyntax => "exprSyntax"
  | .undefinedSymbol => "undefinedSymbol" | .sizeMismatch => "sizeMismatch"
  | .boxTooSmall => "boxTooSmall" | .compileFailed => "compileFailed"
  | .dlopenFailed => "dlopenFailed" | .dlsymFailed => "dlsymFailed" | .dlerrorSet => "dlerrorSet"
  | .particleFlewTooFar => "particleFlewTooFar"

abbrev Res := Except Kind

instance {ε α : Type} [DecidableEq ε] [DecidableEq α] : DecidableEq (Except ε α)
  | .ok a, .ok b => if h : a = b then isTrue (by rw [h]) else isFalse (by intro e; cases e; exact h rfl)
  | .error a, .error b => if h : a = b then isTrue (by rw [h]) else isFalse (by intro e; cases e; exact h rfl)
  | .ok _, .error _ => isFalse (by intro e; cases e)
  | .error _, .ok _ => isFalse (by intro e; cases e)

def Res.isError {α} : Res α → Bool
  | .ok _ => false
  | .error _ => true

/-! ## Character classes -/

/-- C `isspace` in the "C" locale: what `strtol`/`strtod` and `operator>>` skip in front. -/
def isSpace (c : Char) : Bool :=
  c == ' ' || c == '\t' || c == '\n' || c == '\x0b' || c == '\x0c' || c == '\r'

/-- `onlyWhiteSpaceLeft` of `property_list.cpp`. -/
def isTrailWs (c : Char) : Bool := c == ' ' || c == '\t' || c == '\n' || c == '\r'

def isDig (c : Char) : Bool := c.isDigit

def isHex (c : Char) : Bool :=
  c.isDigit || (decide ('a' ≤ c) && decide (c ≤ 'f')) || (decide ('A' ≤ c) && decide (c ≤ 'F'))

def isE (c : Char) : Bool := c == 'e' || c == 'E'
def isP (c : Char) : Bool := c == 'p' || c == 'P'
def isX (c : Char) : Bool := c == 'x' || c == 'X'

/-- characters of the n-char-sequence of `nan(...)` (glibc `STRTOF_NAN`). -/
def isNChar (c : Char) : Bool := c.isDigit || c.isAlpha || c == '_'

/-- `c` is the lower-case letter `p` or its upper-case form (`STRNCASECMP` in the "C" locale). -/
def eqCI (c p : Char) : Bool := c == p || c == p.toUpper

/-- `w` is the lower-case word `p` in any letter case. -/
def matchCI : List Char → List Char → Bool
  | [], [] => true
  | c :: cs, p :: ps => eqCI c p && matchCI cs ps
  | _, _ => false

/-- `std::string::size()`: bytes of the UTF-8 text libxml2 hands over. -/
def byteLen (s : List Char) : Nat := (s.map Char.utf8Size).sum

/-! ## Syntax trees of numbers and the scanners (= the end pointer of `strtol` / `strtod`) -/

/-- optional sign: `([], s)`, `(['+'], t)` or `(['-'], t)`. -/
def splitSign : List Char → List Char × List Char
  | '-' :: t => (['-'], t)
  | '+' :: t => (['+'], t)
  | s => ([], s)

/-- exponent part: marker character, sign characters, digits. -/
structure Exp where
  marker : Char
  sign : List Char
  digits : List Char
  deriving DecidableEq, Repr

def Exp.text (e : Exp) : List Char := e.marker :: (e.sign ++ e.digits)

def optExpText : Option Exp → List Char
  | none => []
  | some e => e.text

/-- mantissa: integer digits, "a decimal point was read", fraction digits. -/
structure Mant where
  int : List Char
  dot : Bool
  frac : List Char
  deriving DecidableEq, Repr

def Mant.text (m : Mant) : List Char := m.int ++ (if m.dot then '.' :: m.frac else [])

/-- `strtod`: digits, then `.` and digits.  The `.` is consumed also when no digit follows. -/
def scanMant (isD : Char → Bool) (s : List Char) : Mant × List Char :=
  match s.dropWhile isD with
  | '.' :: t => (⟨s.takeWhile isD, true, t.takeWhile isD⟩, t.dropWhile isD)
  | r => (⟨s.takeWhile isD, false, []⟩, r)

/-- `strtod` "Read exponent": marker, optional sign, at least one decimal digit, otherwise `cp = expp`
(nothing of the exponent is consumed). -/
def scanExp (isMarker : Char → Bool) (s : List Char) : Option Exp × List Char :=
  match s with
  | [] => (none, s)
  | m :: t =>
    if isMarker m then
      if ((splitSign t).2.takeWhile isDig).isEmpty then (none, s)
      else (some ⟨m, (splitSign t).1, (splitSign t).2.takeWhile isDig⟩, (splitSign t).2.dropWhile isDig)
    else (none, s)

/-- what `strtod` converted, as a syntax tree that keeps the characters. -/
inductive Body where
  | dec (m : Mant) (e : Option Exp)
  | hex (x : Char) (m : Mant) (e : Option Exp)
  | inf (w : List Char)
  | nan (w : List Char) (payload : Option (List Char))
  deriving DecidableEq, Repr

def Body.text : Body → List Char
  | .dec m e => m.text ++ optExpText e
  | .hex x m e => '0' :: x :: (m.text ++ optExpText e)
  | .inf w => w
  | .nan w none => w
  | .nan w (some p) => w ++ '(' :: (p ++ [')'])

/-- `INF`, `INFINITY`, `NAN`, `NAN(n-char-sequence)`, any letter case. -/
def scanWord (s : List Char) : Option (Body × List Char) :=
  if matchCI (s.take 3) ['i', 'n', 'f'] then
    if matchCI ((s.drop 3).take 5) ['i', 'n', 'i', 't', 'y'] then some (.inf (s.take 8), s.drop 8)
    else some (.inf (s.take 3), s.drop 3)
  else if matchCI (s.take 3) ['n', 'a', 'n'] then
    match s.drop 3 with
    | '(' :: t =>
      match t.dropWhile isNChar with
      | ')' :: r => some (.nan (s.take 3) (some (t.takeWhile isNChar)), r)
      | _ => some (.nan (s.take 3) none, s.drop 3)
    | _ => some (.nan (s.take 3) none, s.drop 3)
  else none

def scanDec (s : List Char) : Option (Body × List Char) :=
  if (scanMant isDig s).1.int.isEmpty && (scanMant isDig s).1.frac.isEmpty then none
  else some (.dec (scanMant isDig s).1 (scanExp isE (scanMant isDig s).2).1, (scanExp isE (scanMant isDig s).2).2)

def scanDecOrWord (s : List Char) : Option (Body × List Char) :=
  match scanDec s with
  | some r => some r
  | none => scanWord s

/-- the part of glibc `strtod` after the sign; `none` = "no conversion" (`endptr == nptr`). -/
def scanBody (s : List Char) : Option (Body × List Char) :=
  match s with
  | '0' :: x :: t =>
    if isX x then
      if (scanMant isHex t).1.int.isEmpty && (scanMant isHex t).1.frac.isEmpty then
        -- `0x` without a hex digit: only the `0` is a number, end pointer at the `x`
        some (.dec ⟨['0'], false, []⟩ none, x :: t)
      else some (.hex x (scanMant isHex t).1 (scanExp isP (scanMant isHex t).2).1,
                 (scanExp isP (scanMant isHex t).2).2)
    else scanDecOrWord s
  | _ => scanDecOrWord s

structure Num where
  sign : List Char
  body : Body
  deriving DecidableEq, Repr

/-- `strtod(s, &end)`: `none` = no conversion, else the number and the text from `end` on. -/
def strtodScan (s : List Char) : Option (Num × List Char) :=
  match scanBody (splitSign (s.dropWhile isSpace)).2 with
  | none => none
  | some (b, rest) => some (⟨(splitSign (s.dropWhile isSpace)).1, b⟩, rest)

/-- `strtol(s, &end, 10)`: `none` = no conversion, else (sign, digits) and the text from `end` on. -/
def strtolScan (s : List Char) : Option ((List Char × List Char) × List Char) :=
  if ((splitSign (s.dropWhile isSpace)).2.takeWhile isDig).isEmpty then none
  else some (((splitSign (s.dropWhile isSpace)).1, (splitSign (s.dropWhile isSpace)).2.takeWhile isDig),
             (splitSign (s.dropWhile isSpace)).2.dropWhile isDig)

/-! ## Values -/

def digitVal (c : Char) : Nat :=
  if c.isDigit then c.toNat - 48
  else if 'a' ≤ c ∧ c ≤ 'f' then c.toNat - 87
  else if 'A' ≤ c ∧ c ≤ 'F' then c.toNat - 55
  else 0

def natOf (base : Nat) (ds : List Char) : Nat := ds.foldl (fun a c => base * a + digitVal c) 0

def longMax : Int := 9223372036854775807
def longMin : Int := -9223372036854775808

/-- `strtol` saturates at `LONG_MAX` / `LONG_MIN`. -/
def longValue (sg ds : List Char) : Int :=
  let n : Int := natOf 10 ds
  let v := if sg = ['-'] then -n else n
  if v > longMax then longMax else if v < longMin then longMin else v

/-- `(int) v` for a `long v` (gcc: reduction modulo 2^32 into [-2^31, 2^31)). -/
def wrap32 (v : Int) : Int := (v + 2147483648) % 4294967296 - 2147483648

/-- value of a DOUBLE. -/
inductive DVal where
  | fin (r : Rat)
  | inf (neg : Bool)
  | nan
  deriving DecidableEq, Repr

def signedExp : Option Exp → Int
  | none => 0
  | some e => if e.sign = ['-'] then -(natOf 10 e.digits : Int) else (natOf 10 e.digits : Int)

/-- `2^1024 - 2^970`: from here on round-to-nearest-even gives infinity. -/
def overflowBound : Rat := ((2 ^ 1024 - 2 ^ 970 : Nat) : Rat)
/-- `2^-1075`: up to here (inclusive: tie to even) round-to-nearest gives 0. -/
def underflowBound : Rat := mkRat 1 (2 ^ 1075)

/-- `m * b^e`, magnitude `m * b^e` with `len` = number of base-`b` digits of `m`; `lim` bounds the
exponents for which the power is computed at all (beyond it the result is surely 0 or infinity). -/
def scaled (neg : Bool) (m : Nat) (b : Nat) (e : Int) (len : Nat) (lim : Int) : DVal :=
  if m = 0 then .fin 0
  else if e + len > lim then .inf neg
  else if e + len < -lim then .fin 0
  else
    let r : Rat := if e ≥ 0 then ((m * b ^ e.toNat : Nat) : Rat) else mkRat m (b ^ (-e).toNat)
    if r ≥ overflowBound then .inf neg
    else if r ≤ underflowBound then .fin 0
    else .fin (if neg then -r else r)

def Num.value (n : Num) : DVal :=
  let neg := n.sign = ['-']
  match n.body with
  | .dec m e =>
    let mant := natOf 10 (m.int ++ m.frac)
    scaled neg mant 10 (signedExp e - m.frac.length) (toString mant).length 400
  | .hex _ m e =>
    let mant := natOf 16 (m.int ++ m.frac)
    scaled neg mant 2 (signedExp e - 4 * m.frac.length) (Nat.log2 mant + 1) 1200
  | .inf _ => .inf neg
  | .nan _ _ => .nan

/-! ## (2) attribute values by type -/

def allTrailWs (s : List Char) : Bool := s.all isTrailWs

/-- `s.compare(t) <= 0` (byte-wise = code-point-wise for UTF-8). -/
def lexLe : List Char → List Char → Bool
  | [], _ => true
  | _ :: _, [] => false
  | a :: as, b :: bs => if a.val < b.val then true else if b.val < a.val then false else lexLe as bs

/-- `ObjToString(LONG_MAX)`. -/
def bigString : List Char := "9223372036854775807".toList

/-- the guard in front of the INT conversion in `fromXML`: `true` = "out of admissible range". -/
def intRangeGuard (s : List Char) : Bool :=
  if byteLen s > byteLen bigString then true
  else if byteLen s < byteLen bigString then false
  else !(lexLe s bigString)

/-- `stringToIntStrict`: syntax only. -/
def strictIntSyntax (s : List Char) : Bool :=
  match strtolScan s with
  | none => false
  | some (_, rest) => allTrailWs rest

/-- `stringToDoubleStrict`: syntax only. -/
def strictDoubleSyntax (s : List Char) : Bool :=
  match strtodScan s with
  | none => false
  | some (_, rest) => allTrailWs rest

/-- case INT of `fromXML`. -/
def parseInt (s : List Char) : Res Int :=
  if intRangeGuard s then .error .intRange
  else match strtolScan s with
    | none => .error .notInt
    | some ((sg, ds), rest) => if allTrailWs rest then .ok (wrap32 (longValue sg ds)) else .error .notInt

/-- case DOUBLE of `fromXML`. -/
def parseDouble (s : List Char) : Res DVal :=
  match strtodScan s with
  | none => .error .notNumber
  | some (n, rest) => if allTrailWs rest then .ok n.value else .error .notNumber

/-- case INT before commit 1204dc2: `atoi` = `(int) strtol(s, NULL, 10)`, 0 if no conversion. -/
def parseIntOld (s : List Char) : Res Int :=
  if intRangeGuard s then .error .intRange
  else match strtolScan s with
    | none => .ok 0
    | some ((sg, ds), _) => .ok (wrap32 (longValue sg ds))

/-- case DOUBLE before commit 1204dc2: `atof` = `strtod(s, NULL)`, 0 if no conversion. -/
def parseDoubleOld (s : List Char) : Res DVal :=
  match strtodScan s with
  | none => .ok (.fin 0)
  | some (n, _) => .ok n.value

/-- case BOOLEAN: exactly six literals. -/
def parseBool (s : List Char) : Res Bool :=
  if s = "true".toList ∨ s = "yes".toList ∨ s = "1".toList then .ok true
  else if s = "false".toList ∨ s = "no".toList ∨ s = "0".toList then .ok false
  else .error .badBool

/-- `s >> p.x` (libstdc++ `num_get`, "C" locale): skip white space, sign, decimal mantissa with at least
one digit, exponent; no hex, no inf/nan; overflow sets failbit.  `none` = failbit (every later `get` fails too). -/
def scanCoord (s : List Char) : Option (Rat × List Char) :=
  let s2 := splitSign (s.dropWhile isSpace)
  let m := scanMant isDig s2.2
  if m.1.int.isEmpty && m.1.frac.isEmpty then none
  else
    let e := scanExp isE m.2
    match (Num.mk s2.1 (.dec m.1 e.1)).value with
    | .fin q => some (q, e.2)
    | _ => none

/-- `string2point`: `(` first (no white space in front), number, `,` directly behind it, number, `,`,
number, `)`; anything may follow. -/
def parsePoint (s : List Char) : Res (Rat × Rat × Rat) :=
  match s with
  | '(' :: t =>
    match scanCoord t with
    | some (x, ',' :: t1) =>
      match scanCoord t1 with
      | some (y, ',' :: t2) =>
        match scanCoord t2 with
        | some (z, ')' :: _) => .ok (x, y, z)
        | _ => .error .badPoint
      | _ => .error .badPoint
    | _ => .error .badPoint
  | _ => .error .badPoint

inductive PType where
  | int | double | string | bool | functionPair | functionFixed | point | eoDatatype
  deriving DecidableEq, Repr

inductive Value where
  | int (i : Int)
  | dbl (d : DVal)
  | str (s : List Char)
  | bool (b : Bool)
  | fn (e : List Char)
  | point (p : Rat × Rat × Rat)
  deriving DecidableEq, Repr

/-- the `switch (p.datatype)` of `fromXML`.  FUNCTION*: `setExpression` only stores the text
(`Function::setExpression`); it is parsed and compiled in `Controller::run` (step 3 and 5). -/
def parseValue (t : PType) (s : List Char) : Res Value :=
  match t with
  | .int => (parseInt s).map .int
  | .double => (parseDouble s).map .dbl
  | .string => .ok (.str s)
  | .bool => (parseBool s).map .bool
  | .functionPair => .ok (.fn s)
  | .functionFixed => .ok (.fn s)
  | .point => (parsePoint s).map .point
  | .eoDatatype => .error .forbiddenType

/-! ### constraint objects (`PLC_COMPARISON`, `PLC_BINARY`) -/

inductive Cmp where
  | eq | gt | ge | lt | le
  deriving DecidableEq, Repr

def Cmp.holdsInt : Cmp → Int → Int → Bool
  | .eq, a, b => a == b
  | .gt, a, b => decide (a > b)
  | .ge, a, b => decide (a ≥ b)
  | .lt, a, b => decide (a < b)
  | .le, a, b => decide (a ≤ b)

def Cmp.holdsRat : Cmp → Rat → Rat → Bool
  | .eq, a, b => a == b
  | .gt, a, b => decide (a > b)
  | .ge, a, b => decide (a ≥ b)
  | .lt, a, b => decide (a < b)
  | .le, a, b => decide (a ≤ b)

/-- IEEE comparison of a parsed DOUBLE with a finite bound: everything is false for NaN. -/
def Cmp.holdsDbl (c : Cmp) (v : DVal) (than : Rat) : Bool :=
  match v with
  | .fin r => c.holdsRat r than
  | .inf false => c == .gt || c == .ge
  | .inf true => c == .lt || c == .le
  | .nan => false

inductive Constraint where
  | intCmp (op : Cmp) (than : Int)
  | dblCmp (op : Cmp) (than : Rat)
  | strEq (than : List Char)
  | and (a b : Constraint)
  | or (a b : Constraint)
  deriving Repr

/-- `PropertyListConstraint::check`.  A comparison applied to a value of another type is `false`
(the real accessors `asInt()`… are only used on properties of their own type). -/
def Constraint.check : Constraint → Value → Bool
  | .intCmp op than, .int i => op.holdsInt i than
  | .dblCmp op than, .dbl d => op.holdsDbl d than
  | .strEq than, .str s => s == than
  | .and a b, v => a.check v && b.check v
  | .or a b, v => a.check v || b.check v
  | _, _ => false

structure AttrSpec where
  name : String
  type : PType
  constraint : Option Constraint

structure ModuleSpec where
  attrs : List AttrSpec
  allowUnknown : Bool

def ModuleSpec.find (m : ModuleSpec) (name : String) : Option AttrSpec :=
  m.attrs.find? (fun a => a.name == name)

/-- conversion + constraint of one known attribute. -/
def checkValue (a : AttrSpec) (s : List Char) : Res Value :=
  match parseValue a.type s with
  | .error k => .error k
  | .ok v =>
    match a.constraint with
    | none => .ok v
    | some c => if c.check v then .ok v else .error .constraint

/-- one iteration of the attribute loop of `fromXML`; `none` = stored in `m_unknown_props`. -/
def checkAttr (m : ModuleSpec) (name : String) (s : List Char) : Res (Option Value) :=
  match m.find name with
  | some a => (checkValue a s).map some
  | none => if m.allowUnknown then .ok none else .error .unknownAttr

/-! ## (1) module names -/

/-- `Phase::instantiateChild`, `Boundary::instantiateChild`, `Controller::instantiateChild`,
`Meter::instantiateChild`: the name must be in (one of) the factories of the parent. -/
def checkModule (known : List String) (name : String) : Res Unit :=
  if known.contains name then .ok () else .error .unknownModule

/-- the factories `Simulation::instantiateChild` consults, in its order. -/
structure SimTables where
  forces : List String
  meters : List String
  callables : List String
  weightingFunctions : List String
  symbols : List String

structure SimState where
  hasPhase : Bool := false
  hasController : Bool := false
  deriving DecidableEq, Repr

/-- `Simulation::instantiateChild`, branch by branch. -/
def simInstantiate (T : SimTables) (st : SimState) (name : String) : Res SimState :=
  if name = "Phase" then
    if st.hasPhase then .error .moduleOrder else .ok { st with hasPhase := true }
  else if name = "Controller" then
    if st.hasController then .error .moduleOrder else .ok { st with hasController := true }
  else if T.forces.contains name then
    if st.hasPhase then .error .moduleOrder
    else if !st.hasController then .error .moduleOrder
    else .ok st
  else if T.meters.contains name then
    if !st.hasPhase then .error .moduleOrder else .ok st
  else if T.callables.contains name then
    if !st.hasController then .error .moduleOrder
    else if st.hasPhase then .error .moduleOrder
    else .ok st
  else if T.weightingFunctions.contains name then .ok st
  else if T.symbols.contains name then
    if !st.hasController then .error .moduleOrder
    else if st.hasPhase then .error .moduleOrder
    else .ok st
  else .error .unknownModule

/-- the children of `<Simulation>` in input order, then the check of `Simulation::setup` (`No Phase defined.`).
A missing Controller is NOT checked by the real code, and `No Phase defined.` is reached only if no child's
`setup()` needed the phase before (both: see `Props/C17.lean`, findings — the real process dies with SIGSEGV). -/
def simChildren (T : SimTables) : SimState → List String → Res SimState
  | st, [] => if st.hasPhase then .ok st else .error .noPhase
  | st, n :: ns =>
    match simInstantiate T st n with
    | .error k => .error k
    | .ok st' => simChildren T st' ns

/-! ## (3) expressions -/

/-- what the parser says about an expression text (abstract; the concrete parser is the model of C03). -/
structure ExprEnv where
  parses : List Char → Bool
  resolved : List Char → Bool
  /-- entries of `m_parser->toC()`: 1 scalar, 3 vector, 9 tensor -/
  size : List Char → Nat

/-- `FunctionParser::parse` (syntax, then symbol look-up) and the size check of `FunctionCompiler::compile`. -/
def checkExpr (env : ExprEnv) (expected : Nat) (e : List Char) : Res Unit :=
  if !env.parses e then .error .exprSyntax
  else if !env.resolved e then .error .undefinedSymbol
  else if env.size e ≠ expected then .error .sizeMismatch
  else .ok ()

/-! ## (4) box -/

/-- `(int) x` for a non-negative or negative quotient: truncation toward zero. -/
def truncRat (q : Rat) : Int := if q ≥ 0 then q.floor else -((-q).floor)

/-- `r->n_cells[i]` of `ManagerCell::cellSubdivide`. -/
def nCells (cutoff d : Rat) : Int := if cutoff > 0 then truncRat (d / cutoff) else 2

def checkBox (cutoff : Rat) (ds : List Rat) : Res Unit :=
  if ds.all (fun d => decide (nCells cutoff d ≥ 2)) then .ok () else .error .boxTooSmall

/-! ## (5) compile step -/

/-- what `compile` / `setParserAndCompile` observe. -/
structure CompileObs where
  gotSize : Nat
  expectedSize : Nat
  /-- return value of `system("gcc …")` -/
  systemStatus : Int
  dlopenOk : Bool
  dlsymOk : Bool
  dlerrorSet : Bool
  deriving DecidableEq, Repr

def compileStep (o : CompileObs) : Res Unit :=
  if o.gotSize ≠ o.expectedSize then .error .sizeMismatch
  else if o.systemStatus ≠ 0 then .error .compileFailed
  else if !o.dlopenOk then .error .dlopenFailed
  else if !o.dlsymOk then .error .dlsymFailed
  else if o.dlerrorSet then .error .dlerrorSet
  else .ok ()

def nominal (n : Nat) : CompileObs := ⟨n, n, 0, true, true, false⟩

/-- single faults of the compile step and what they make the process observe. -/
inductive Fault where
  | missing        -- no gcc on PATH: the shell of `system` exits with 127
  | exit1          -- gcc exits with 1
  | killed         -- gcc killed by a signal: the shell reports 128+sig
  | garbage        -- gcc "succeeds" but the .so is not a shared object: dlopen fails
  | nothing        -- gcc "succeeds" and writes nothing: dlopen fails
  | tmpMissing     -- $TMP does not exist: the .c cannot be written, gcc has no input, exits with 1
  | tmpUnwritable  -- $TMP not writable: same
  | nodlopen
  | nodlsym        -- .so without the function `C_FC_FN_NAME`
  | dlerror
  | sizemismatch
  deriving DecidableEq, Repr

def Fault.all : List Fault :=
  [.missing, .exit1, .killed, .garbage, .nothing, .tmpMissing, .tmpUnwritable, .nodlopen, .nodlsym,
   .dlerror, .sizemismatch]

def applyFault : Fault → CompileObs → CompileObs
  | .missing, o => { o with systemStatus := 127 * 256 }
  | .exit1, o => { o with systemStatus := 256 }
  | .killed, o => { o with systemStatus := (128 + 9) * 256 }
  | .garbage, o => { o with dlopenOk := false }
  | .nothing, o => { o with dlopenOk := false }
  | .tmpMissing, o => { o with systemStatus := 256 }
  | .tmpUnwritable, o => { o with systemStatus := 256 }
  | .nodlopen, o => { o with dlopenOk := false }
  | .nodlsym, o => { o with dlsymOk := false }
  | .dlerror, o => { o with dlerrorSet := true }
  | .sizemismatch, o => { o with gotSize := o.expectedSize + 1 }

/-! ## (6) the chain and `main` -/

inductive Check where
  | module (known : List String) (name : String)
  | sim (T : SimTables) (names : List String)
  | attr (m : ModuleSpec) (name : String) (text : List Char)
  | expr (env : ExprEnv) (expected : Nat) (text : List Char)
  | box (cutoff : Rat) (ds : List Rat)
  | compile (o : CompileObs)

def Check.run : Check → Res Unit
  | .module known name => checkModule known name
  | .sim T names => (Validate.simChildren T {} names).map (fun _ => ())
  | .attr m name text => (checkAttr m name text).map (fun _ => ())
  | .expr env n text => checkExpr env n text
  | .box c ds => checkBox c ds
  | .compile o => compileStep o

/-- `readWithArg`, `setup`, compile of all functions, in the order they happen: the first `throw` wins. -/
def runAll : List Check → Res Unit
  | [] => .ok ()
  | c :: cs =>
    match c.run with
    | .error k => .error k
    | .ok () => runAll cs

/-- `gError::exitValue()`: `DEFAULT = 1`, `PARTICLEFLEWTOOFAR = 2`. -/
def exitValue : Kind → Nat
  | .particleFlewTooFar => 2
  | _ => 1

structure Outcome where
  exit : Nat
  message : Option String
  /-- the time loop of `Controller::run` was entered -/
  loopStarted : Bool
  deriving DecidableEq, Repr

/-- `main`: `try { readWithArg; run } catch (gError &err) { cout << …; exitValue = err.exitValue(); }`. -/
def mainModel (cs : List Check) : Outcome :=
  match runAll cs with
  | .ok () => ⟨0, none, true⟩
  | .error k => ⟨exitValue k, some ("ERROR: " ++ k.name), false⟩

/-! ## driver (`model validate`) -/

def showRes {α} : Res α → String
  | .ok _ => "ok"
  | .error k => "error:" ++ k.name

/-- text as decimal code points separated by `,`; `-` is the empty text. -/
def parseText (w : String) : Option (List Char) :=
  if w = "-" then some []
  else (w.splitOn ",").mapM (fun t => t.toNat?.map Char.ofNat)

def parseCmp : String → Option Cmp
  | "eq" => some .eq | "gt" => some .gt | "ge" => some .ge | "lt" => some .lt | "le" => some .le
  | _ => none

/-- constraint of one type: `-`, or `op:rat` terms joined by `&` (and) — e.g. `ge:0&le:1`. -/
def parseConstraint (t : PType) (w : String) : Option (Option Constraint) :=
  if w = "-" then some none
  else
    let terms := (w.splitOn "&").mapM (fun term =>
      match term.splitOn ":" with
      | [op, v] =>
        match parseCmp op, parseRat v with
        | some c, some r =>
          match t with
          | .int => if r.den = 1 then some (Constraint.intCmp c r.num) else none
          | .double => some (Constraint.dblCmp c r)
          | _ => none
        | _, _ => none
      | _ => none)
    match terms with
    | some (c :: cs) => some (some (cs.foldl Constraint.and c))
    | _ => none

def parseType : String → Option PType
  | "int" => some .int | "double" => some .double | "string" => some .string | "bool" => some .bool
  | "functionpair" => some .functionPair | "functionfixed" => some .functionFixed
  | "point" => some .point | "eo" => some .eoDatatype
  | _ => none

def parseFault : String → Option (Option Fault)
  | "ok" => some none
  | "missing" => some (some .missing) | "exit1" => some (some .exit1) | "killed" => some (some .killed)
  | "garbage" => some (some .garbage) | "nothing" => some (some .nothing)
  | "tmpmissing" => some (some .tmpMissing) | "tmpunwritable" => some (some .tmpUnwritable)
  | "nodlopen" => some (some .nodlopen) | "nodlsym" => some (some .nodlsym)
  | "dlerror" => some (some .dlerror) | "sizemismatch" => some (some .sizemismatch)
  | _ => none

def showDVal : DVal → String
  | .fin r => showRat r
  | .inf false => "inf"
  | .inf true => "-inf"
  | .nan => "nan"

def showValue : Value → String
  | .int i => toString i
  | .dbl d => showDVal d
  | .str _ => "string"
  | .bool b => if b then "true" else "false"
  | .fn _ => "function"
  | .point (x, y, z) => showRat x ++ "," ++ showRat y ++ "," ++ showRat z

/-- category of a child of `<Simulation>` as word `cat:name`; the tables are rebuilt from the categories. -/
def simTablesOf (ws : List (String × String)) : SimTables :=
  let pick := fun c => (ws.filter (fun p => p.1 == c)).map (·.2)
  ⟨pick "force", pick "meter", pick "callable", pick "wf", pick "symbol"⟩

/-- One request per line (`none` = malformed request):
* `attr <type> <constraint|-> <text>`            value conversion + constraint; `ok <value>`
* `attrold <int|double> <text>`                  the conversions before commit 1204dc2
* `attrname <allowUnknown 0|1> <name> <known…>`  attribute name look-up
* `module <name> <known…>`                       factory look-up
* `simchildren <cat:name>…`  cat ∈ phase controller force meter callable wf symbol unknown
* `syntax <int|double> <text>`                   strict syntax `1|0` and the offset the scanner stopped at
* `box <Lx> <Ly> <Lz> <rcmax>`
* `compile <ok|fault>`
`<text>` = decimal code points joined by `,`, or `-` for the empty text. -/
def driverLine (line : String) : Option (Res String) :=
  match words line with
  | ["attr", ty, con, txt] =>
    match parseType ty, parseText txt with
    | some t, some s =>
      match parseConstraint t con with
      | some c => some ((checkValue ⟨"a", t, c⟩ s).map showValue)
      | none => none
    | _, _ => none
  | ["attrold", "int", txt] => (parseText txt).map (fun s => (parseIntOld s).map toString)
  | ["attrold", "double", txt] => (parseText txt).map (fun s => (parseDoubleOld s).map showDVal)
  | "attrname" :: allow :: name :: known =>
    some ((checkAttr ⟨known.map (fun n => ⟨n, .string, none⟩), allow == "1"⟩ name []).map (fun _ => ""))
  | "module" :: name :: known => some ((checkModule known name).map (fun _ => ""))
  | "simchildren" :: ws =>
    let ps := ws.map (fun w => match w.splitOn ":" with | [c, n] => (c, n) | _ => ("unknown", w))
    some ((simChildren (simTablesOf ps) {} (ps.map (·.2))).map (fun _ => ""))
  | ["syntax", "int", txt] =>
    (parseText txt).map (fun s => .ok ((if strictIntSyntax s then "1" else "0") ++ " " ++
        (match strtolScan s with | none => "0" | some (_, rest) => toString (byteLen s - byteLen rest))))
  | ["syntax", "double", txt] =>
    (parseText txt).map (fun s => .ok ((if strictDoubleSyntax s then "1" else "0") ++ " " ++
        (match strtodScan s with | none => "0" | some (_, rest) => toString (byteLen s - byteLen rest))))
  | ["box", lx, ly, lz, rc] =>
    match parseRat lx, parseRat ly, parseRat lz, parseRat rc with
    | some x, some y, some z, some c => some ((checkBox c [x, y, z]).map (fun _ => ""))
    | _, _, _, _ => none
  | ["compile", f] =>
    match parseFault f with
    | some none => some ((compileStep (nominal 1)).map (fun _ => ""))
    | some (some ft) => some ((compileStep (applyFault ft (nominal 1))).map (fun _ => ""))
    | none => none
  | _ => none

/-- every request line is answered by its verdict and by what `main` does if that verdict is the first
error of the run (`mainModel`): `ok[ <value>] | exit=0 loop=1` or `error:<kind> | exit=<n> loop=0`;
a malformed request gives `err:request`. -/
def driver (lines : List String) : List String :=
  (lines.filter (fun l => (words l) ≠ [])).map (fun l =>
    match driverLine l with
    | none => "err:request"
    | some (.ok v) => (if v = "" then "ok" else "ok " ++ v) ++ " | exit=0 loop=1"
    | some (.error k) => "error:" ++ k.name ++ " | exit=" ++ toString (exitValue k) ++ " loop=0")

end Sympler.Validate
