import Sympler.Validate
/-!
# Lemmas for `Sympler.Validate` (property C17)

* the grammar of "complete numbers" (`CompleteInt`, `CompleteDouble`): a generative definition
  (texts of well-formed syntax trees between optional white space), independent of the scanners;
* `strictIntSyntax_iff`, `strictDoubleSyntax_iff`: the strict conversions accept exactly that grammar.
-/
namespace Sympler.Validate

/-! ## the grammar -/

def IsSign (sg : List Char) : Prop := sg = [] ∨ sg = ['+'] ∨ sg = ['-']

/-- `ws* [+-]? digit+ tws*`  (`ws` = C `isspace`, `tws` = blank, tab, newline, carriage return). -/
def CompleteInt (s : List Char) : Prop :=
  ∃ lead sg ds trail, s = lead ++ (sg ++ (ds ++ trail)) ∧ (∀ c ∈ lead, isSpace c = true) ∧ IsSign sg ∧
    ds ≠ [] ∧ (∀ c ∈ ds, isDig c = true) ∧ (∀ c ∈ trail, isTrailWs c = true)

/-- `digit* [. digit*]` with at least one digit; no `.` ⇒ no fraction. -/
def Mant.WF (isD : Char → Bool) (m : Mant) : Prop :=
  (∀ c ∈ m.int, isD c = true) ∧ (∀ c ∈ m.frac, isD c = true) ∧ (m.dot = false → m.frac = []) ∧
    (m.int ≠ [] ∨ m.frac ≠ [])

/-- `marker [+-]? digit+`. -/
def Exp.WF (isM : Char → Bool) (e : Exp) : Prop :=
  isM e.marker = true ∧ IsSign e.sign ∧ e.digits ≠ [] ∧ (∀ c ∈ e.digits, isDig c = true)

def Body.WF : Body → Prop
  | .dec m e => m.WF isDig ∧ ∀ x, e = some x → x.WF isE
  | .hex x m e => isX x = true ∧ m.WF isHex ∧ ∀ y, e = some y → y.WF isP
  | .inf w => matchCI w ['i', 'n', 'f'] = true ∨ matchCI w ['i', 'n', 'f', 'i', 'n', 'i', 't', 'y'] = true
  | .nan w p => matchCI w ['n', 'a', 'n'] = true ∧ ∀ cs, p = some cs → ∀ c ∈ cs, isNChar c = true

/-- `ws* [+-]? (decimal | hexadecimal | inf | infinity | nan | nan(n-chars)) tws*`. -/
def CompleteDouble (s : List Char) : Prop :=
  ∃ lead sg b trail, s = lead ++ (sg ++ (Body.text b ++ trail)) ∧ (∀ c ∈ lead, isSpace c = true) ∧
    IsSign sg ∧ b.WF ∧ (∀ c ∈ trail, isTrailWs c = true)

/-! ## characters -/

theorem ne_of_pred {p : Char → Bool} {c d : Char} (h : p c = true) (hd : p d = false) : c ≠ d := by
  rintro rfl; simp_all

/-- `rest` is empty or starts with a character on which `p` is false. -/
def Stops (p : Char → Bool) (rest : List Char) : Prop := ∀ c t, rest = c :: t → p c = false

/-- `rest` is empty or starts with trailing white space. -/
def TStop (rest : List Char) : Prop := ∀ c t, rest = c :: t → isTrailWs c = true

theorem tws_cases {c : Char} (h : isTrailWs c = true) : c = ' ' ∨ c = '\t' ∨ c = '\n' ∨ c = '\r' := by
  simp only [isTrailWs, Bool.or_eq_true, beq_iff_eq] at h
  rcases h with ((h | h) | h) | h <;> simp [h]

theorem tws_not_dig {c : Char} (h : isTrailWs c = true) : isDig c = false := by
  rcases tws_cases h with rfl | rfl | rfl | rfl <;> decide
theorem tws_not_hex {c : Char} (h : isTrailWs c = true) : isHex c = false := by
  rcases tws_cases h with rfl | rfl | rfl | rfl <;> decide
theorem tws_not_nchar {c : Char} (h : isTrailWs c = true) : isNChar c = false := by
  rcases tws_cases h with rfl | rfl | rfl | rfl <;> decide
theorem tws_not_E {c : Char} (h : isTrailWs c = true) : isE c = false := by
  rcases tws_cases h with rfl | rfl | rfl | rfl <;> decide
theorem tws_not_P {c : Char} (h : isTrailWs c = true) : isP c = false := by
  rcases tws_cases h with rfl | rfl | rfl | rfl <;> decide
theorem tws_not_X {c : Char} (h : isTrailWs c = true) : isX c = false := by
  rcases tws_cases h with rfl | rfl | rfl | rfl <;> decide
theorem tws_ne_dot {c : Char} (h : isTrailWs c = true) : c ≠ '.' := by
  rcases tws_cases h with rfl | rfl | rfl | rfl <;> decide
theorem tws_ne_paren {c : Char} (h : isTrailWs c = true) : c ≠ '(' := by
  rcases tws_cases h with rfl | rfl | rfl | rfl <;> decide
theorem tws_ne_zero {c : Char} (h : isTrailWs c = true) : c ≠ '0' := by
  rcases tws_cases h with rfl | rfl | rfl | rfl <;> decide
theorem tws_ne_plus {c : Char} (h : isTrailWs c = true) : c ≠ '+' := by
  rcases tws_cases h with rfl | rfl | rfl | rfl <;> decide
theorem tws_ne_minus {c : Char} (h : isTrailWs c = true) : c ≠ '-' := by
  rcases tws_cases h with rfl | rfl | rfl | rfl <;> decide

theorem isSpace_false_of {c : Char}
    (h : c ≠ ' ' ∧ c ≠ '\t' ∧ c ≠ '\n' ∧ c ≠ '\x0b' ∧ c ≠ '\x0c' ∧ c ≠ '\r') : isSpace c = false := by
  simp only [isSpace, Bool.or_eq_false_iff, beq_eq_false_iff_ne, ne_eq]
  exact ⟨⟨⟨⟨⟨h.1, h.2.1⟩, h.2.2.1⟩, h.2.2.2.1⟩, h.2.2.2.2.1⟩, h.2.2.2.2.2⟩

theorem dig_not_space {c : Char} (h : isDig c = true) : isSpace c = false :=
  isSpace_false_of ⟨ne_of_pred h (by decide), ne_of_pred h (by decide), ne_of_pred h (by decide),
    ne_of_pred h (by decide), ne_of_pred h (by decide), ne_of_pred h (by decide)⟩
theorem dig_ne_plus {c : Char} (h : isDig c = true) : c ≠ '+' := ne_of_pred h (by decide)
theorem dig_ne_minus {c : Char} (h : isDig c = true) : c ≠ '-' := ne_of_pred h (by decide)
theorem dig_ne_dot {c : Char} (h : isDig c = true) : c ≠ '.' := ne_of_pred h (by decide)
theorem hex_ne_dot {c : Char} (h : isHex c = true) : c ≠ '.' := ne_of_pred h (by decide)
theorem dig_not_X {c : Char} (h : isDig c = true) : isX c = false := by
  simp only [isX, Bool.or_eq_false_iff, beq_eq_false_iff_ne, ne_eq]
  exact ⟨ne_of_pred h (by decide), ne_of_pred h (by decide)⟩
theorem E_not_dig {c : Char} (h : isE c = true) : isDig c = false := by
  simp only [isE, Bool.or_eq_true, beq_iff_eq] at h; rcases h with rfl | rfl <;> decide
theorem E_not_X {c : Char} (h : isE c = true) : isX c = false := by
  simp only [isE, Bool.or_eq_true, beq_iff_eq] at h; rcases h with rfl | rfl <;> decide
theorem E_ne_dot {c : Char} (h : isE c = true) : c ≠ '.' := by
  simp only [isE, Bool.or_eq_true, beq_iff_eq] at h; rcases h with rfl | rfl <;> decide
theorem P_not_hex {c : Char} (h : isP c = true) : isHex c = false := by
  simp only [isP, Bool.or_eq_true, beq_iff_eq] at h; rcases h with rfl | rfl <;> decide
theorem P_ne_dot {c : Char} (h : isP c = true) : c ≠ '.' := by
  simp only [isP, Bool.or_eq_true, beq_iff_eq] at h; rcases h with rfl | rfl <;> decide

theorem eqCI_cases {c p : Char} (h : eqCI c p = true) : c = p ∨ c = p.toUpper := by
  simpa [eqCI] using h

theorem tws_not_eqCI_i {c : Char} (h : isTrailWs c = true) : eqCI c 'i' = false := by
  rcases tws_cases h with rfl | rfl | rfl | rfl <;> decide

/-! ## lists -/

theorem Stops.nil {p : Char → Bool} : Stops p [] := by intro c t h; cases h
theorem Stops.cons {p : Char → Bool} {c : Char} {t : List Char} (h : p c = false) : Stops p (c :: t) := by
  intro c' t' h'; cases h'; exact h

theorem TStop.stops {p : Char → Bool} {rest : List Char} (h : TStop rest)
    (hp : ∀ c, isTrailWs c = true → p c = false) : Stops p rest :=
  fun c t e => hp c (h c t e)

theorem tstop_of_all {trail : List Char} (h : ∀ c ∈ trail, isTrailWs c = true) : TStop trail := by
  intro c t e; subst e; exact h c (by simp)

theorem dropWhile_of_stops {p : Char → Bool} {r : List Char} (h : Stops p r) : r.dropWhile p = r := by
  cases r with
  | nil => rfl
  | cons c t => simp [h c t rfl]

theorem takeWhile_of_stops {p : Char → Bool} {r : List Char} (h : Stops p r) : r.takeWhile p = [] := by
  cases r with
  | nil => rfl
  | cons c t => simp [h c t rfl]

theorem takeWhile_app {p : Char → Bool} {l r : List Char} (hl : ∀ a ∈ l, p a = true) (hr : Stops p r) :
    (l ++ r).takeWhile p = l := by
  rw [List.takeWhile_append_of_pos hl, takeWhile_of_stops hr, List.append_nil]

theorem dropWhile_app {p : Char → Bool} {l r : List Char} (hl : ∀ a ∈ l, p a = true) (hr : Stops p r) :
    (l ++ r).dropWhile p = r := by
  rw [List.dropWhile_append_of_pos hl, dropWhile_of_stops hr]

theorem all_takeWhile' (p : Char → Bool) (s : List Char) : ∀ c ∈ s.takeWhile p, p c = true := by
  have := @List.all_takeWhile _ p s
  exact List.all_eq_true.mp this

/-! ## sign -/

theorem splitSign_spec (s : List Char) : (splitSign s).1 ++ (splitSign s).2 = s ∧ IsSign (splitSign s).1 := by
  unfold splitSign IsSign
  split <;> simp

theorem splitSign_app {sg r : List Char} (hs : IsSign sg)
    (hr : ∀ c t, r = c :: t → c ≠ '+' ∧ c ≠ '-') : splitSign (sg ++ r) = (sg, r) := by
  rcases hs with rfl | rfl | rfl
  · cases r with
    | nil => rfl
    | cons c t =>
      have := hr c t rfl
      unfold splitSign
      split
      · rename_i h; simp at h; exact absurd h.1 this.2
      · rename_i h; simp at h; exact absurd h.1 this.1
      · rfl
  · rfl
  · rfl

/-! ## `strtol` -/

theorem strictIntSyntax_iff (s : List Char) : strictIntSyntax s = true ↔ CompleteInt s := by
  constructor
  · intro h
    unfold strictIntSyntax strtolScan at h
    split at h
    · cases h
    · rename_i rest heq
      split at heq
      · cases heq
      · rename_i hne
        simp only [Option.some.injEq, Prod.mk.injEq] at heq
        obtain ⟨_, rfl⟩ := heq
        have h1 := splitSign_spec (s.dropWhile isSpace)
        refine ⟨s.takeWhile isSpace, (splitSign (s.dropWhile isSpace)).1,
          (splitSign (s.dropWhile isSpace)).2.takeWhile isDig,
          (splitSign (s.dropWhile isSpace)).2.dropWhile isDig, ?_, all_takeWhile' _ _, h1.2, ?_,
          all_takeWhile' _ _, ?_⟩
        · rw [List.takeWhile_append_dropWhile, h1.1, List.takeWhile_append_dropWhile]
        · intro e; rw [e] at hne; simp at hne
        · exact List.all_eq_true.mp h
  · rintro ⟨lead, sg, ds, trail, rfl, hlead, hsg, hne, hds, htrail⟩
    obtain ⟨d, ds', rfl⟩ := List.exists_cons_of_ne_nil hne
    have hd : isDig d = true := hds d (by simp)
    have hstop : Stops isSpace (sg ++ (d :: ds' ++ trail)) := by
      rcases hsg with rfl | rfl | rfl
      · exact Stops.cons (dig_not_space hd)
      · exact Stops.cons (by decide)
      · exact Stops.cons (by decide)
    have e1 : (lead ++ (sg ++ (d :: ds' ++ trail))).dropWhile isSpace = sg ++ (d :: ds' ++ trail) :=
      dropWhile_app hlead hstop
    have e2 : splitSign (sg ++ (d :: ds' ++ trail)) = (sg, d :: ds' ++ trail) :=
      splitSign_app hsg (by
        intro c t e; simp only [List.cons_append, List.cons.injEq] at e
        obtain ⟨rfl, _⟩ := e; exact ⟨dig_ne_plus hd, dig_ne_minus hd⟩)
    have hts : Stops isDig trail := (tstop_of_all htrail).stops (fun c => tws_not_dig)
    have e3 : (d :: ds' ++ trail).takeWhile isDig = d :: ds' := takeWhile_app hds hts
    have e4 : (d :: ds' ++ trail).dropWhile isDig = trail := dropWhile_app hds hts
    unfold strictIntSyntax strtolScan
    rw [e1, e2]
    simp only [e3, e4, List.isEmpty_cons, Bool.false_eq_true, ↓reduceIte, allTrailWs]
    exact List.all_eq_true.mpr htrail

/-! ## `strtod`: mantissa and exponent -/

theorem scanMant_sound (isD : Char → Bool) (s : List Char) :
    (scanMant isD s).1.text ++ (scanMant isD s).2 = s ∧
    (∀ c ∈ (scanMant isD s).1.int, isD c = true) ∧ (∀ c ∈ (scanMant isD s).1.frac, isD c = true) ∧
    ((scanMant isD s).1.dot = false → (scanMant isD s).1.frac = []) := by
  unfold scanMant
  split
  · rename_i t heq
    refine ⟨?_, all_takeWhile' _ _, all_takeWhile' _ _, by simp⟩
    simp only [Mant.text, ↓reduceIte]
    rw [List.append_assoc, List.cons_append, List.takeWhile_append_dropWhile, ← heq,
      List.takeWhile_append_dropWhile]
  · refine ⟨?_, all_takeWhile' _ _, by simp, by simp⟩
    simp [Mant.text, List.takeWhile_append_dropWhile]

theorem scanMant_complete (isD : Char → Bool) (m : Mant) (r : List Char) (hdot : isD '.' = false)
    (hi : ∀ c ∈ m.int, isD c = true) (hf : ∀ c ∈ m.frac, isD c = true) (hd : m.dot = false → m.frac = [])
    (hr : Stops isD r) (hr' : m.dot = false → ∀ t, r ≠ '.' :: t) :
    scanMant isD (m.text ++ r) = (m, r) := by
  obtain ⟨i, dot, f⟩ := m
  cases dot with
  | true =>
    have e1 : (i ++ ('.' :: f) ++ r).dropWhile isD = '.' :: (f ++ r) := by
      rw [List.append_assoc]; exact dropWhile_app hi (Stops.cons hdot)
    have e2 : (i ++ ('.' :: f) ++ r).takeWhile isD = i := by
      rw [List.append_assoc]; exact takeWhile_app hi (Stops.cons hdot)
    simp only [Mant.text, ↓reduceIte]
    unfold scanMant
    rw [e1, e2]
    simp only [takeWhile_app hf hr, dropWhile_app hf hr]
  | false =>
    have hf0 : f = [] := hd rfl
    subst hf0
    have e1 : (i ++ [] ++ r).dropWhile isD = r := by
      rw [List.append_nil]; exact dropWhile_app hi hr
    have e2 : (i ++ [] ++ r).takeWhile isD = i := by
      rw [List.append_nil]; exact takeWhile_app hi hr
    simp only [Mant.text, Bool.false_eq_true, ↓reduceIte]
    unfold scanMant
    rw [e1, e2]
    split
    · rename_i t; exact absurd rfl (hr' rfl t)
    · rfl

theorem scanExp_sound (isM : Char → Bool) (s : List Char) :
    optExpText (scanExp isM s).1 ++ (scanExp isM s).2 = s ∧
    ∀ x, (scanExp isM s).1 = some x → x.WF isM := by
  unfold scanExp
  split
  · simp [optExpText]
  · rename_i m t
    split
    · rename_i hm
      split
      · simp [optExpText]
      · rename_i hne
        have h1 := splitSign_spec t
        refine ⟨?_, ?_⟩
        · simp only [optExpText, Exp.text, List.cons_append, List.append_assoc,
            List.takeWhile_append_dropWhile, h1.1]
        · intro x hx
          simp only [Option.some.injEq] at hx
          subst hx
          refine ⟨hm, h1.2, ?_, all_takeWhile' _ _⟩
          intro e; simp only at e; rw [e] at hne; simp at hne
    · simp [optExpText]

theorem scanExp_none (isM : Char → Bool) (r : List Char) (hr : Stops isM r) : scanExp isM r = (none, r) := by
  unfold scanExp
  split
  · rfl
  · rename_i m t
    simp [hr m t rfl]

theorem scanExp_some (isM : Char → Bool) (e : Exp) (r : List Char) (he : e.WF isM) (hr : Stops isDig r) :
    scanExp isM (e.text ++ r) = (some e, r) := by
  obtain ⟨m, sg, ds⟩ := e
  obtain ⟨hm, hsg, hne, hds⟩ := he
  simp only at hm hsg hne hds
  obtain ⟨d, ds', rfl⟩ := List.exists_cons_of_ne_nil hne
  have hd : isDig d = true := hds d (by simp)
  have e2 : splitSign (sg ++ (d :: ds') ++ r) = (sg, d :: ds' ++ r) := by
    rw [List.append_assoc]
    exact splitSign_app hsg (by
      intro c t e; simp only [List.cons_append, List.cons.injEq] at e
      obtain ⟨rfl, _⟩ := e; exact ⟨dig_ne_plus hd, dig_ne_minus hd⟩)
  have e3 : (d :: ds' ++ r).takeWhile isDig = d :: ds' := takeWhile_app hds hr
  have e4 : (d :: ds' ++ r).dropWhile isDig = r := dropWhile_app hds hr
  simp only [Exp.text, List.cons_append]
  unfold scanExp
  simp only [hm, ↓reduceIte, e2, e3, e4, List.isEmpty_cons, Bool.false_eq_true]

/-- both cases of the exponent at once. -/
theorem scanExp_complete (isM : Char → Bool) (e : Option Exp) (r : List Char)
    (he : ∀ x, e = some x → x.WF isM) (hr : TStop r) (hM : ∀ c, isTrailWs c = true → isM c = false) :
    scanExp isM (optExpText e ++ r) = (e, r) := by
  cases e with
  | none => simpa [optExpText] using scanExp_none isM r (hr.stops hM)
  | some x => simpa [optExpText] using scanExp_some isM x r (he x rfl) (hr.stops (fun c => tws_not_dig))

/-- what follows a mantissa inside a well-formed number: exponent text and then trailing white space. -/
theorem stops_after_mant (isD isM : Char → Bool) (e : Option Exp) (r : List Char)
    (he : ∀ x, e = some x → x.WF isM) (hr : TStop r)
    (hMD : ∀ c, isM c = true → isD c = false) (hWD : ∀ c, isTrailWs c = true → isD c = false) :
    Stops isD (optExpText e ++ r) := by
  cases e with
  | none => simpa [optExpText] using hr.stops hWD
  | some x =>
    simp only [optExpText, Exp.text, List.cons_append]
    exact Stops.cons (hMD _ (he x rfl).1)

theorem no_dot_after_mant (isM : Char → Bool) (e : Option Exp) (r : List Char)
    (he : ∀ x, e = some x → x.WF isM) (hr : TStop r)
    (hMD : ∀ c, isM c = true → c ≠ '.') : ∀ t, optExpText e ++ r ≠ '.' :: t := by
  intro t
  cases e with
  | none =>
    simp only [optExpText, List.nil_append]
    intro h
    exact tws_ne_dot (hr _ _ h) rfl
  | some x =>
    simp only [optExpText, Exp.text, List.cons_append]
    intro h
    simp only [List.cons.injEq] at h
    exact hMD _ (he x rfl).1 h.1

/-! ## `strtod`: the body -/

theorem matchCI_append {a b p q : List Char} (h1 : matchCI a p = true) (h2 : matchCI b q = true) :
    matchCI (a ++ b) (p ++ q) = true := by
  induction a generalizing p with
  | nil => cases p with
    | nil => simpa using h2
    | cons _ _ => simp [matchCI] at h1
  | cons c cs ih => cases p with
    | nil => simp [matchCI] at h1
    | cons x xs =>
      simp only [matchCI, Bool.and_eq_true] at h1
      simp only [List.cons_append, matchCI, Bool.and_eq_true]
      exact ⟨h1.1, ih h1.2⟩

theorem matchCI_length {a p : List Char} (h : matchCI a p = true) : a.length = p.length := by
  induction a generalizing p with
  | nil => cases p with
    | nil => rfl
    | cons _ _ => simp [matchCI] at h
  | cons c cs ih => cases p with
    | nil => simp [matchCI] at h
    | cons x xs =>
      simp only [matchCI, Bool.and_eq_true] at h
      simp [ih h.2]

theorem matchCI_head {w l : List Char} {a : Char} (h : matchCI w (a :: l) = true) :
    ∃ c t, w = c :: t ∧ eqCI c a = true := by
  cases w with
  | nil => simp [matchCI] at h
  | cons c t =>
    simp only [matchCI, Bool.and_eq_true] at h
    exact ⟨c, t, rfl, h.1⟩

theorem scanWord_sound (s : List Char) (b : Body) (rest : List Char) (h : scanWord s = some (b, rest)) :
    b.text ++ rest = s ∧ b.WF := by
  unfold scanWord at h
  split at h
  · rename_i h3
    split at h
    · rename_i h5
      simp only [Option.some.injEq, Prod.mk.injEq] at h
      obtain ⟨rfl, rfl⟩ := h
      refine ⟨by simp [Body.text], Or.inr ?_⟩
      have : s.take 8 = s.take 3 ++ (s.drop 3).take 5 := by
        rw [show (8 : Nat) = 3 + 5 from rfl, List.take_add]
      rw [this]; exact matchCI_append h3 h5
    · simp only [Option.some.injEq, Prod.mk.injEq] at h
      obtain ⟨rfl, rfl⟩ := h
      exact ⟨by simp [Body.text], Or.inl h3⟩
  · split at h
    · rename_i h3
      split at h
      · rename_i t hd
        split at h
        · rename_i r hr
          simp only [Option.some.injEq, Prod.mk.injEq] at h
          obtain ⟨rfl, rfl⟩ := h
          refine ⟨?_, h3, ?_⟩
          · simp only [Body.text, List.append_assoc, List.cons_append, List.nil_append]
            have e1 : t.takeWhile isNChar ++ ')' :: r = t := by
              rw [← hr, List.takeWhile_append_dropWhile]
            rw [e1, ← hd, List.take_append_drop]
          · intro cs hcs c hc
            simp only [Option.some.injEq] at hcs
            subst hcs
            exact all_takeWhile' _ _ c hc
        · simp only [Option.some.injEq, Prod.mk.injEq] at h
          obtain ⟨rfl, rfl⟩ := h
          exact ⟨by simp [Body.text], h3, by simp⟩
      · simp only [Option.some.injEq, Prod.mk.injEq] at h
        obtain ⟨rfl, rfl⟩ := h
        exact ⟨by simp [Body.text], h3, by simp⟩
    · cases h

theorem scanDec_sound (s : List Char) (b : Body) (rest : List Char) (h : scanDec s = some (b, rest)) :
    b.text ++ rest = s ∧ b.WF := by
  unfold scanDec at h
  split at h
  · cases h
  · rename_i hne
    simp only [Option.some.injEq, Prod.mk.injEq] at h
    obtain ⟨rfl, rfl⟩ := h
    have hm := scanMant_sound isDig s
    have he := scanExp_sound isE (scanMant isDig s).2
    refine ⟨?_, ⟨hm.2.1, hm.2.2.1, hm.2.2.2, ?_⟩, he.2⟩
    · simp only [Body.text, List.append_assoc]
      rw [he.1, hm.1]
    · simp only [Bool.and_eq_true, List.isEmpty_iff, not_and] at hne
      by_cases h0 : (scanMant isDig s).1.int = []
      · exact Or.inr (hne h0)
      · exact Or.inl h0

theorem scanDecOrWord_sound (s : List Char) (b : Body) (rest : List Char)
    (h : scanDecOrWord s = some (b, rest)) : b.text ++ rest = s ∧ b.WF := by
  unfold scanDecOrWord at h
  split at h
  · rename_i r hr
    simp only [Option.some.injEq] at h
    subst h
    exact scanDec_sound s b rest hr
  · exact scanWord_sound s b rest h

theorem scanBody_sound (s : List Char) (b : Body) (rest : List Char) (h : scanBody s = some (b, rest)) :
    b.text ++ rest = s ∧ b.WF := by
  unfold scanBody at h
  split at h
  · rename_i x t
    split at h
    · rename_i hx
      split at h
      · simp only [Option.some.injEq, Prod.mk.injEq] at h
        obtain ⟨rfl, rfl⟩ := h
        refine ⟨by simp [Body.text, Mant.text, optExpText], ⟨?_, ?_, ?_, ?_⟩, ?_⟩ <;> simp
        decide
      · rename_i hne
        simp only [Option.some.injEq, Prod.mk.injEq] at h
        obtain ⟨rfl, rfl⟩ := h
        have hm := scanMant_sound isHex t
        have he := scanExp_sound isP (scanMant isHex t).2
        refine ⟨?_, hx, ⟨hm.2.1, hm.2.2.1, hm.2.2.2, ?_⟩, he.2⟩
        · simp only [Body.text, List.append_assoc, List.cons_append]
          rw [he.1, hm.1]
        · simp only [Bool.and_eq_true, List.isEmpty_iff, not_and] at hne
          by_cases h0 : (scanMant isHex t).1.int = []
          · exact Or.inr (hne h0)
          · exact Or.inl h0
    · exact scanDecOrWord_sound _ b rest h
  · exact scanDecOrWord_sound s b rest h

/-- a text that does not start with `0x` / `0X` is not tried as hexadecimal. -/
theorem scanBody_eq_of_noHex (s : List Char) (h : ∀ x t, s = '0' :: x :: t → isX x = false) :
    scanBody s = scanDecOrWord s := by
  unfold scanBody
  split
  · rename_i x t
    simp [h x t rfl]
  · rfl

theorem mant_text_ne_nil {isD : Char → Bool} {m : Mant} (h : m.WF isD) : m.text ≠ [] := by
  obtain ⟨i, dot, f⟩ := m
  obtain ⟨_, _, hd, hne⟩ := h
  simp only at hd hne
  cases dot with
  | true => simp [Mant.text]
  | false =>
    simp only [Mant.text, Bool.false_eq_true, ↓reduceIte, List.append_nil]
    rcases hne with h | h
    · exact h
    · exact absurd (hd rfl) h

/-- every character of a well-formed decimal text is a digit, `.`, `e`/`E` or a sign. -/
theorem dec_chars {m : Mant} {e : Option Exp} (hm : m.WF isDig) (he : ∀ x, e = some x → x.WF isE) :
    ∀ c ∈ m.text ++ optExpText e, isX c = false := by
  intro c hc
  rw [List.mem_append] at hc
  rcases hc with hc | hc
  · obtain ⟨i, dot, f⟩ := m
    simp only [Mant.text] at hc
    rw [List.mem_append] at hc
    rcases hc with hc | hc
    · exact dig_not_X (hm.1 c hc)
    · cases dot with
      | false => simp at hc
      | true =>
        simp only [↓reduceIte, List.mem_cons] at hc
        rcases hc with rfl | hc
        · decide
        · exact dig_not_X (hm.2.1 c hc)
  · cases e with
    | none => simp [optExpText] at hc
    | some x =>
      obtain ⟨hM, hS, _, hD⟩ := he x rfl
      simp only [optExpText, Exp.text, List.mem_cons, List.mem_append] at hc
      rcases hc with rfl | hc | hc
      · exact E_not_X hM
      · rcases hS with h | h | h <;> rw [h] at hc <;> simp at hc <;> subst hc <;> decide
      · exact dig_not_X (hD c hc)

theorem second_char {A r : List Char} {a x : Char} {t : List Char} (h : A ++ r = a :: x :: t) :
    x ∈ A ∨ (∃ t', r = x :: t') ∨ r = a :: x :: t := by
  cases A with
  | nil => exact Or.inr (Or.inr h)
  | cons a' A' =>
    cases A' with
    | nil =>
      simp only [List.cons_append, List.nil_append, List.cons.injEq] at h
      exact Or.inr (Or.inl ⟨t, h.2⟩)
    | cons x' A'' =>
      simp only [List.cons_append, List.cons.injEq] at h
      exact Or.inl (by simp [h.2.1])

theorem scanDec_complete (m : Mant) (e : Option Exp) (rest : List Char) (hm : m.WF isDig)
    (he : ∀ x, e = some x → x.WF isE) (hr : TStop rest) :
    scanDec (m.text ++ optExpText e ++ rest) = some (.dec m e, rest) := by
  have hsm : scanMant isDig (m.text ++ (optExpText e ++ rest)) = (m, optExpText e ++ rest) :=
    scanMant_complete isDig m _ (by decide) hm.1 hm.2.1 hm.2.2.1
      (stops_after_mant isDig isE e rest he hr (fun c => E_not_dig) (fun c => tws_not_dig))
      (fun _ => no_dot_after_mant isE e rest he hr (fun c => E_ne_dot))
  have hse := scanExp_complete isE e rest he hr (fun c => tws_not_E)
  unfold scanDec
  rw [List.append_assoc, hsm]
  simp only [hse]
  have : (m.int.isEmpty && m.frac.isEmpty) = false := by
    rcases hm.2.2.2 with h | h
    · cases hh : m.int with
      | nil => exact absurd hh h
      | cons _ _ => rfl
    · cases hh : m.frac with
      | nil => exact absurd hh h
      | cons _ _ => simp
  simp [this]

theorem take_drop_of_match {w rest p : List Char} (h : matchCI w p = true) :
    (w ++ rest).take p.length = w ∧ (w ++ rest).drop p.length = rest := by
  have hl := matchCI_length h
  exact ⟨by rw [List.take_left' hl], by rw [List.drop_left' hl]⟩

theorem scanDec_word_none (w rest : List Char) (c : Char) (t : List Char) (hw : w = c :: t)
    (hd : isDig c = false) (hdot : c ≠ '.') : scanDec (w ++ rest) = none := by
  subst hw
  unfold scanDec scanMant
  simp only [List.cons_append, List.dropWhile_cons, List.takeWhile_cons, hd, Bool.false_eq_true, ↓reduceIte]
  split
  · rename_i t' heq
    simp only [List.cons.injEq] at heq
    exact absurd heq.1 hdot
  · simp

theorem matchCI_split {w p q : List Char} (h : matchCI w (p ++ q) = true) :
    ∃ a b, w = a ++ b ∧ matchCI a p = true ∧ matchCI b q = true := by
  induction p generalizing w with
  | nil => exact ⟨[], w, rfl, rfl, by simpa using h⟩
  | cons x xs ih =>
    cases w with
    | nil => simp [matchCI] at h
    | cons c t =>
      simp only [List.cons_append, matchCI, Bool.and_eq_true] at h
      obtain ⟨a, b, rfl, ha, hb⟩ := ih h.2
      exact ⟨c :: a, b, rfl, by simp [matchCI, h.1, ha], hb⟩

theorem eqCI_i {c : Char} (h : eqCI c 'i' = true) : c = 'i' ∨ c = 'I' := by
  rcases eqCI_cases h with rfl | rfl
  · exact Or.inl rfl
  · exact Or.inr (by decide)

theorem eqCI_n {c : Char} (h : eqCI c 'n' = true) : c = 'n' ∨ c = 'N' := by
  rcases eqCI_cases h with rfl | rfl
  · exact Or.inl rfl
  · exact Or.inr (by decide)

/-- facts about the first letter of `inf…` / `nan…`. -/
theorem word_head {c : Char} (h : eqCI c 'i' = true ∨ eqCI c 'n' = true) :
    isDig c = false ∧ c ≠ '.' ∧ c ≠ '0' ∧ isSpace c = false ∧ c ≠ '+' ∧ c ≠ '-' := by
  rcases h with h | h
  · rcases eqCI_i h with rfl | rfl <;> decide
  · rcases eqCI_n h with rfl | rfl <;> decide

theorem no_inity_after (rest : List Char) (hr : TStop rest) :
    matchCI (rest.take 5) ['i', 'n', 'i', 't', 'y'] = false := by
  cases rest with
  | nil => rfl
  | cons c t => simp [matchCI, tws_not_eqCI_i (hr c t rfl)]

theorem scanWord_inf3 (w rest : List Char) (h : matchCI w ['i', 'n', 'f'] = true) (hr : TStop rest) :
    scanWord (w ++ rest) = some (.inf w, rest) := by
  have e1 : (w ++ rest).take 3 = w := (take_drop_of_match h).1
  have e2 : (w ++ rest).drop 3 = rest := (take_drop_of_match h).2
  unfold scanWord
  simp only [e1, e2, h, ↓reduceIte, no_inity_after rest hr, Bool.false_eq_true]

theorem scanWord_inf8 (w rest : List Char)
    (h : matchCI w ['i', 'n', 'f', 'i', 'n', 'i', 't', 'y'] = true) :
    scanWord (w ++ rest) = some (.inf w, rest) := by
  obtain ⟨a, b, rfl, ha, hb⟩ := matchCI_split (p := ['i', 'n', 'f']) (q := ['i', 'n', 'i', 't', 'y']) h
  have e1 : (a ++ b ++ rest).take 3 = a := by
    rw [List.append_assoc]; exact (take_drop_of_match ha).1
  have e2 : (a ++ b ++ rest).drop 3 = b ++ rest := by
    rw [List.append_assoc]; exact (take_drop_of_match ha).2
  have e3 : (b ++ rest).take 5 = b := (take_drop_of_match hb).1
  have e4 : (a ++ b ++ rest).take 8 = a ++ b := (take_drop_of_match h).1
  have e5 : (a ++ b ++ rest).drop 8 = rest := (take_drop_of_match h).2
  unfold scanWord
  simp only [e1, e2, e3, e4, e5, ha, hb, ↓reduceIte]

theorem not_inf_of_nan {w : List Char} (h : matchCI w ['n', 'a', 'n'] = true) :
    matchCI w ['i', 'n', 'f'] = false := by
  obtain ⟨c, t, rfl, hc⟩ := matchCI_head h
  have : eqCI c 'i' = false := by rcases eqCI_n hc with rfl | rfl <;> decide
  simp [matchCI, this]

theorem scanWord_nan (w rest : List Char) (h : matchCI w ['n', 'a', 'n'] = true) (hr : TStop rest) :
    scanWord (w ++ rest) = some (.nan w none, rest) := by
  have e1 : (w ++ rest).take 3 = w := (take_drop_of_match h).1
  have e2 : (w ++ rest).drop 3 = rest := (take_drop_of_match h).2
  unfold scanWord
  simp only [e1, e2, h, not_inf_of_nan h, ↓reduceIte, Bool.false_eq_true]
  split
  · rename_i t
    exact absurd rfl (tws_ne_paren (hr _ _ rfl))
  · rfl

theorem scanWord_nanp (w p rest : List Char) (h : matchCI w ['n', 'a', 'n'] = true)
    (hp : ∀ c ∈ p, isNChar c = true) :
    scanWord (w ++ '(' :: (p ++ [')']) ++ rest) = some (.nan w (some p), rest) := by
  have e1 : (w ++ '(' :: (p ++ [')']) ++ rest).take 3 = w := by
    rw [List.append_assoc]; exact (take_drop_of_match h).1
  have e2 : (w ++ '(' :: (p ++ [')']) ++ rest).drop 3 = '(' :: (p ++ ')' :: rest) := by
    rw [List.append_assoc]; simpa using (take_drop_of_match (rest := '(' :: (p ++ [')']) ++ rest) h).2
  have e3 : (p ++ ')' :: rest).dropWhile isNChar = ')' :: rest := dropWhile_app hp (Stops.cons (by decide))
  have e4 : (p ++ ')' :: rest).takeWhile isNChar = p := takeWhile_app hp (Stops.cons (by decide))
  unfold scanWord
  simp only [e1, e2, h, not_inf_of_nan h, ↓reduceIte, Bool.false_eq_true, e3, e4]

/-- a well-formed body starts with a character that is neither white space nor a sign. -/
theorem body_head {b : Body} (hb : b.WF) :
    ∃ c t, b.text = c :: t ∧ isSpace c = false ∧ c ≠ '+' ∧ c ≠ '-' := by
  cases b with
  | dec m e =>
    obtain ⟨hm, _⟩ := hb
    obtain ⟨i, dot, f⟩ := m
    obtain ⟨hi, hf, hd, hne⟩ := hm
    simp only at hi hf hd hne
    cases i with
    | cons c t =>
      have hc := hi c (by simp)
      exact ⟨c, _, rfl, dig_not_space hc, dig_ne_plus hc, dig_ne_minus hc⟩
    | nil =>
      cases dot with
      | false => exact absurd (hd rfl) (by simpa using hne)
      | true => exact ⟨'.', _, rfl, by decide, by decide, by decide⟩
  | hex x m e => exact ⟨'0', _, rfl, by decide, by decide, by decide⟩
  | inf w =>
    rcases hb with h | h <;> obtain ⟨c, t, rfl, hc⟩ := matchCI_head h <;>
      exact ⟨c, t, rfl, (word_head (Or.inl hc)).2.2.2⟩
  | nan w p =>
    obtain ⟨c, t, rfl, hc⟩ := matchCI_head hb.1
    cases p with
    | none => exact ⟨c, t, rfl, (word_head (Or.inr hc)).2.2.2⟩
    | some cs => exact ⟨c, _, rfl, (word_head (Or.inr hc)).2.2.2⟩

theorem scanBody_complete (b : Body) (rest : List Char) (hb : b.WF) (hr : TStop rest) :
    scanBody (b.text ++ rest) = some (b, rest) := by
  cases b with
  | dec m e =>
    obtain ⟨hm, he⟩ := hb
    have hno : ∀ x t, m.text ++ optExpText e ++ rest = '0' :: x :: t → isX x = false := by
      intro x t h
      rcases second_char h with h1 | ⟨t', h1⟩ | h1
      · exact dec_chars hm he x h1
      · exact tws_not_X (hr _ _ h1)
      · exact absurd rfl (tws_ne_zero (hr _ _ h1))
    simp only [Body.text]
    rw [scanBody_eq_of_noHex _ hno]
    unfold scanDecOrWord
    rw [scanDec_complete m e rest hm he hr]
  | hex x m e =>
    obtain ⟨hx, hm, he⟩ := hb
    have hsm : scanMant isHex (m.text ++ (optExpText e ++ rest)) = (m, optExpText e ++ rest) :=
      scanMant_complete isHex m _ (by decide) hm.1 hm.2.1 hm.2.2.1
        (stops_after_mant isHex isP e rest he hr (fun c => P_not_hex) (fun c => tws_not_hex))
        (fun _ => no_dot_after_mant isP e rest he hr (fun c => P_ne_dot))
    have hse := scanExp_complete isP e rest he hr (fun c => tws_not_P)
    have hne : (m.int.isEmpty && m.frac.isEmpty) = false := by
      rcases hm.2.2.2 with h | h
      · cases hh : m.int with
        | nil => exact absurd hh h
        | cons _ _ => rfl
      · cases hh : m.frac with
        | nil => exact absurd hh h
        | cons _ _ => simp
    simp only [Body.text, List.cons_append, List.append_assoc]
    unfold scanBody
    simp only [hx, ↓reduceIte, hsm, hse, hne, Bool.false_eq_true]
  | inf w =>
    have hh : ∃ c t, w = c :: t ∧ eqCI c 'i' = true := by
      rcases hb with h | h <;> exact matchCI_head h
    obtain ⟨c, t, hw, hc⟩ := hh
    have hf := word_head (Or.inl hc)
    have hno : ∀ x t', w ++ rest = '0' :: x :: t' → isX x = false := by
      intro x t' h; subst hw
      simp only [List.cons_append, List.cons.injEq] at h
      exact absurd h.1 hf.2.2.1
    simp only [Body.text]
    rw [scanBody_eq_of_noHex _ hno]
    unfold scanDecOrWord
    rw [scanDec_word_none w rest c t hw hf.1 hf.2.1]
    rcases hb with h | h
    · exact scanWord_inf3 w rest h hr
    · exact scanWord_inf8 w rest h
  | nan w p =>
    obtain ⟨hw3, hp⟩ := hb
    obtain ⟨c, t, hw, hc⟩ := matchCI_head hw3
    have hf := word_head (Or.inr hc)
    cases p with
    | none =>
      have hno : ∀ x t', w ++ rest = '0' :: x :: t' → isX x = false := by
        intro x t' h; subst hw
        simp only [List.cons_append, List.cons.injEq] at h
        exact absurd h.1 hf.2.2.1
      simp only [Body.text]
      rw [scanBody_eq_of_noHex _ hno]
      unfold scanDecOrWord
      rw [scanDec_word_none w rest c t hw hf.1 hf.2.1]
      exact scanWord_nan w rest hw3 hr
    | some cs =>
      have hno : ∀ x t', w ++ '(' :: (cs ++ [')']) ++ rest = '0' :: x :: t' → isX x = false := by
        intro x t' h; subst hw
        simp only [List.cons_append, List.cons.injEq] at h
        exact absurd h.1 hf.2.2.1
      simp only [Body.text]
      rw [scanBody_eq_of_noHex _ hno]
      unfold scanDecOrWord
      rw [List.append_assoc, scanDec_word_none w _ c t hw hf.1 hf.2.1, ← List.append_assoc]
      exact scanWord_nanp w cs rest hw3 (hp cs rfl)

/-! ## `strtod` + "only white space left" = the grammar -/

theorem strictDoubleSyntax_iff (s : List Char) : strictDoubleSyntax s = true ↔ CompleteDouble s := by
  constructor
  · intro h
    unfold strictDoubleSyntax strtodScan at h
    split at h
    · cases h
    · rename_i n rest heq
      split at heq
      · cases heq
      · rename_i b rest' hb
        simp only [Option.some.injEq, Prod.mk.injEq] at heq
        obtain ⟨_, rfl⟩ := heq
        have h1 := splitSign_spec (s.dropWhile isSpace)
        have h2 := scanBody_sound _ b rest' hb
        refine ⟨s.takeWhile isSpace, (splitSign (s.dropWhile isSpace)).1, b, rest', ?_,
          all_takeWhile' _ _, h1.2, h2.2, List.all_eq_true.mp h⟩
        rw [h2.1, h1.1, List.takeWhile_append_dropWhile]
  · rintro ⟨lead, sg, b, trail, rfl, hlead, hsg, hb, htrail⟩
    obtain ⟨c, t, hbt, hc1, hc2, hc3⟩ := body_head hb
    have hstop : Stops isSpace (sg ++ (b.text ++ trail)) := by
      rcases hsg with rfl | rfl | rfl
      · rw [hbt]; exact Stops.cons hc1
      · exact Stops.cons (by decide)
      · exact Stops.cons (by decide)
    have e1 : (lead ++ (sg ++ (b.text ++ trail))).dropWhile isSpace = sg ++ (b.text ++ trail) :=
      dropWhile_app hlead hstop
    have e2 : splitSign (sg ++ (b.text ++ trail)) = (sg, b.text ++ trail) :=
      splitSign_app hsg (by
        intro c' t' e; rw [hbt] at e
        simp only [List.cons_append, List.cons.injEq] at e
        obtain ⟨rfl, _⟩ := e; exact ⟨hc2, hc3⟩)
    have e3 := scanBody_complete b trail hb (tstop_of_all htrail)
    unfold strictDoubleSyntax strtodScan
    rw [e1, e2]
    simp only [e3, allTrailWs]
    exact List.all_eq_true.mpr htrail

/-! ## consequences for the conversions of `fromXML` -/

theorem parseInt_error_of_not_complete (s : List Char) (h : ¬ CompleteInt s) :
    parseInt s = .error .intRange ∨ parseInt s = .error .notInt := by
  have h' : strictIntSyntax s = false := by
    cases hh : strictIntSyntax s with
    | false => rfl
    | true => exact absurd ((strictIntSyntax_iff s).mp hh) h
  unfold strictIntSyntax at h'
  unfold parseInt
  split
  · exact Or.inl rfl
  · right
    split
    · rfl
    · rename_i sg ds rest heq
      rw [heq] at h'
      simp only at h'
      simp [h']

theorem parseInt_ok_iff (s : List Char) :
    (∃ v, parseInt s = .ok v) ↔ CompleteInt s ∧ intRangeGuard s = false := by
  rw [← strictIntSyntax_iff]
  cases hg : intRangeGuard s with
  | true => simp [parseInt, hg]
  | false =>
    cases hsc : strtolScan s with
    | none => simp [parseInt, strictIntSyntax, hg, hsc]
    | some r =>
      obtain ⟨⟨sg, ds⟩, rest⟩ := r
      cases hh : allTrailWs rest <;> simp [parseInt, strictIntSyntax, hg, hsc, hh]

theorem parseDouble_ok_iff (s : List Char) : (∃ v, parseDouble s = .ok v) ↔ CompleteDouble s := by
  rw [← strictDoubleSyntax_iff]
  unfold parseDouble strictDoubleSyntax
  split
  · simp
  · rename_i n rest heq
    cases hh : allTrailWs rest <;> simp

theorem parseDouble_error_of_not_complete (s : List Char) (h : ¬ CompleteDouble s) :
    parseDouble s = .error .notNumber := by
  have h' : ¬ ∃ v, parseDouble s = .ok v := fun hv => h ((parseDouble_ok_iff s).mp hv)
  unfold parseDouble at h' ⊢
  split
  · rfl
  · rename_i n rest heq
    rw [heq] at h'
    cases hh : allTrailWs rest with
    | false => simp
    | true => simp [hh] at h'

end Sympler.Validate
