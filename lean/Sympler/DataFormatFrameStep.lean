import Sympler.DataFormatCases
import Sympler.DataFormatStep
/-!
# Every operation changes only its target record (C14)

`step_frame`: `Frame s s' op.target` for every successful operation.  Core Lean only.
-/
namespace Sympler.DataFormat

local notation "Addr" => Nat

/-- the record whose block an operation may change -/
def Op.target : Op → Option Nat
  | .assign d _ | .del d | .setfmt d _ | .release d | .realloc d | .dadd d _ _ _ _ | .clear d
  | .clearall d | .set d _ _ | .push d _ _ | .fromstr d _ _ => some d
  | _ => none

theorem Format.alloc_heap {f : Format} {h h' : Heap} {b : Option Block} (ha : f.alloc h true = (b, h')) :
    ∃ extra : List (Option Cell), h' = h ++ extra := by
  unfold Format.alloc at ha
  split at ha
  · simp only [Prod.mk.injEq] at ha; exact ⟨[], by rw [← ha.2]; simp⟩
  · simp only [if_true, Prod.mk.injEq] at ha
    obtain ⟨_, ⟨extra, i2, _⟩, _⟩ := allocVals_spec f.byIndex h
    exact ⟨extra, by rw [← ha.2, i2]⟩

/-- the successful outcomes of `Data::addAttribute` -/
theorem dataAddAttribute_ok_cases {al : Option Nat} {s s' : State} {d : Nat} {name symbol : String} {t : DType}
    {pers : Bool} {a : Attr} (h : dataAddAttribute al s d name t pers symbol = .ok (s', a)) :
    ∃ (dat : Data) (fid : Nat) (f f' : Format), s.datas[d]? = some (some dat) ∧ dat.fmt = some fid ∧
      s.fmts[fid]? = some f ∧ f.addAttribute al name t pers symbol = .ok (a, f') ∧
      ((f.size = f'.size ∧ s' = s.setFmt fid f') ∨
       (f.size ≠ f'.size ∧ ∃ b : Block, dat.block = some b ∧ ¬ b.size < f.size ∧
          ((t.isContainer = true ∧ a.misaligned = false ∧
              s' = ⟨s.fmts.set fid f', s.datas.set d (some ⟨some fid, some ⟨f'.size,
                b.vals ++ [Val.sp (some s.heap.length)]⟩⟩), s.heap ++ [some ⟨[], 1⟩], s.leaked⟩) ∨
           (t.isContainer = false ∧
              s' = ⟨s.fmts.set fid f', s.datas.set d (some ⟨some fid, some ⟨f'.size,
                b.vals ++ [zeroVal t]⟩⟩), s.heap, s.leaked⟩)))) := by
  unfold dataAddAttribute at h
  split at h
  · cases h
  · rename_i dat hdat
    split at h
    · cases h
    · rename_i fid f hfo
      obtain ⟨hfid, hf⟩ := fmtOf_ok hfo
      split at h
      · cases h
      · rename_i attr f' hadd
        refine ⟨dat, fid, f, f', getData_ok.1 hdat, hfid, hf, ?_⟩
        split at h
        · rename_i hsz
          simp only [Except.ok.injEq, Prod.mk.injEq] at h
          rw [← h.2]
          exact ⟨hadd, Or.inl ⟨hsz, h.1.symm⟩⟩
        · rename_i hsz
          split at h
          · cases h
          · rename_i b hb
            split at h
            · cases h
            · rename_i hfull
              split at h
              · cases h
              · rename_i hmis
                simp only [Except.ok.injEq, Prod.mk.injEq] at h
                rw [← h.2]
                refine ⟨hadd, Or.inr ⟨hsz, b, hb, hfull, ?_⟩⟩
                by_cases hc : t.isContainer = true
                · left
                  refine ⟨hc, by simpa [hc] using hmis, ?_⟩
                  rw [← h.1]
                  simp only [hc, if_true, Heap.allocCell]
                  rfl
                · have hc' : t.isContainer = false := by simpa using hc
                  right
                  refine ⟨hc', ?_⟩
                  rw [← h.1]
                  simp only [hc', Bool.false_eq_true, if_false]
                  rfl


theorem clear_frame {al : Option Nat} {s s' : State} {all : Bool} {d : Nat} (hs : Inv al s)
    (h : clearData all s d = .ok s') : Frame s s' (some d) := by
  unfold clearData at h
  split at h
  · cases h
  · rename_i dat hdat
    have hd := getData_ok.1 hdat
    split at h
    · cases h
    · rename_i fid x hfo
      obtain ⟨hfid, hf⟩ := fmtOf_ok hfo
      split at h
      · split at h
        · cases h
        · injection h with h; rw [← h]; exact Frame.refl _ _
      · rename_i b hb
        split at h
        · cases h
        · split at h
          · cases h
          · rename_i vs h' hc
            injection h with h; rw [← h]
            obtain ⟨_, _, _, _, hkeep⟩ := hs.clearInto hd hfid hb hf hc
            exact Frame.setData s d _ h' _ (fun a c hc' ho => by
              rw [valsOf_of_block hd hb] at ho
              rw [hkeep a ho]; exact hc')

theorem protect_frame {s s' : State} {p : Bool} {d i : Nat} {t : Option Nat}
    (h : protectData p s d i = .ok s') : Frame s s' t := by
  unfold protectData at h
  split at h
  · cases h
  · rename_i l hl
    obtain ⟨_, _, hf, _⟩ := attrAt_ok hl
    injection h with h; rw [← h]
    exact ⟨fun _ _ _ => rfl, fmts_set _ hf (Format.sameLayout_setPersistent _ i p), fun _ _ hc _ => hc⟩

theorem writeVal_frame {s s' : State} {l : AttrAt} {d i : Nat} {v : Val}
    (h : writeVal s l d i v = .ok s') : Frame s s' (some d) := by
  unfold writeVal at h
  split at h
  · cases h
  · split at h
    · cases h
    · injection h with h; rw [← h]
      exact Frame.setData s d _ s.heap _ (fun _ _ hc _ => hc)

theorem push_frame {s s' : State} {d i : Nat} {e : Elem}
    (h : pushData s d i e = .ok s') : Frame s s' (some d) := by
  unfold pushData at h
  split at h
  · cases h
  · rename_i l hl
    obtain ⟨hd, _, _, _⟩ := attrAt_ok hl
    split at h
    · cases h
    · split at h
      · cases h
      · rename_i b v hslot
        obtain ⟨hblk, hval, _⟩ := slot_ok hslot
        split at h
        · cases h
        · rename_i a ha
          split at h
          · cases h
          · rename_i c hc
            injection h with h; rw [← h]
            have hv : v = Val.sp (some a) := by
              cases v <;> simp [Val.spAddr] at ha
              rw [ha]
            refine ⟨fun _ _ _ => rfl, fmts_same _, fun a' c' hc' hn => ?_⟩
            have hne : a ≠ a' := by
              intro e; subst e
              exact hn d rfl (by rw [valsOf_of_block hd hblk]; exact ⟨i, by rw [hval, hv]⟩)
            show (s.heap.set a _)[a']? = _
            rw [List.getElem?_set_ne hne]; exact hc'

theorem step_frame {al : Option Nat} {nc : NumCodec} {s s' : State} {op : Op} {o : Out} (hs : Inv al s)
    (h : step al nc s op = .ok (s', o)) : Frame s s' op.target := by
  cases op with
  | fmt =>
    simp only [DataFormat.step, Except.ok.injEq, Prod.mk.injEq] at h
    rw [← h.1]
    exact ⟨fun _ _ _ => rfl, fmts_append _ _, fun _ _ hc _ => hc⟩
  | fmtcopy f =>
    simp only [DataFormat.step] at h
    split at h
    · cases h
    · simp only [Except.ok.injEq, Prod.mk.injEq] at h
      rw [← h.1]
      exact ⟨fun _ _ _ => rfl, fmts_append _ _, fun _ _ hc _ => hc⟩
  | fadd f name t pers symbol =>
    simp only [DataFormat.step] at h
    split at h
    · cases h
    · rename_i x hx
      split at h
      · cases h
      · rename_i a x' hadd
        simp only [Except.ok.injEq, Prod.mk.injEq] at h
        rw [← h.1]
        exact ⟨fun _ _ _ => rfl, fmts_set _ (getFmt_ok.1 hx) (Format.sameLayout_addAttribute hadd),
          fun _ _ hc _ => hc⟩
  | layout f =>
    simp only [DataFormat.step] at h
    split at h
    · cases h
    · simp only [Except.ok.injEq, Prod.mk.injEq] at h
      rw [← h.1]; exact Frame.refl _ _
  | new f =>
    simp only [DataFormat.step] at h
    split at h
    · cases h
    · split at h
      · cases h
      · rename_i b hh ha
        simp only [Except.ok.injEq, Prod.mk.injEq] at h
        rw [← h.1]
        obtain ⟨extra, he⟩ := Format.alloc_heap (allocSp_ok ha)
        rw [he]
        exact Frame.appended s none _ extra _
  | new0 =>
    simp only [DataFormat.step, Except.ok.injEq, Prod.mk.injEq] at h
    rw [← h.1]
    exact ⟨fun x _ hx => List.getElem?_append_left hx, fmts_same _, fun _ _ hc _ => hc⟩
  | copy e =>
    simp only [DataFormat.step] at h
    split at h
    · cases h
    · rename_i s1 id hc
      simp only [Except.ok.injEq, Prod.mk.injEq] at h
      rw [← h.1]
      obtain ⟨src, hsrc, _, hcases⟩ := copyData_ok_cases hc
      rcases hcases with ⟨_, hs1⟩ | ⟨fid, f, _, _, _, hs1⟩ | ⟨fid, f, b, vals, h', hfid, hf, _, hb, hfull, _, _, hdc, hs1⟩
      · rw [hs1]
        exact ⟨fun x _ hx => List.getElem?_append_left hx, fmts_same _, fun _ _ hc _ => hc⟩
      · rw [hs1]
        exact ⟨fun x _ hx => List.getElem?_append_left hx, fmts_same _, fun _ _ hc _ => hc⟩
      · rw [hs1]
        obtain ⟨⟨extra, he⟩, _⟩ := deepCopy_props hs hsrc hfid hb hf hfull hdc
        rw [he]
        exact Frame.appended s none _ extra _
  | assign d e =>
    simp only [DataFormat.step] at h
    split at h
    · cases h
    · rename_i s1 hc
      simp only [Except.ok.injEq, Prod.mk.injEq] at h
      rw [← h.1]
      obtain ⟨dst, src, hdst, hsrc, hcases⟩ := assignData_ok_cases hc
      have hdlt : d < s.datas.length := lt_of_getElem?_some hdst
      rcases hcases with ⟨hne, h1, hrel, hsub⟩ | ⟨heq, hsub⟩
      · obtain ⟨r1, r2, r3⟩ := releaseIfFmt_spec hs hdst hrel
        rcases hsub with ⟨_, hs1⟩ | ⟨fid, f, b, vals, h', hfid, hf, _, hb, hfull, _, _, hdc, hs1⟩
        · rw [hs1]
          exact Frame.setData s d _ h1 _ (fun a c hc ho => by rw [r3 a ho]; exact hc)
        · rw [hs1]
          have hs1' := hs.dropped hdst r1 r2 r3
          have hed : e ≠ d := by
            intro hed; subst hed
            rw [hdst] at hsrc; injection hsrc with hsrc; injection hsrc with hsrc
            subst hsrc; exact hne rfl
          have hsrc1 : (s.datas.set d (some ⟨none, none⟩))[e]? = some (some src) := by
            rw [List.getElem?_set_ne (Ne.symm hed)]; exact hsrc
          obtain ⟨⟨extra, he⟩, _⟩ := deepCopy_props hs1' hsrc1 hfid hb hf hfull hdc
          exact Frame.setData s d _ h' _ (fun a c hc ho => by
            rw [he]; exact heap_append_keep extra (by rw [r3 a ho]; exact hc))
      · rcases hsub with ⟨_, hs1⟩ | ⟨fid, f, db, b, vals, h', hfid, hf, _, hb, _, hfull, _, _, hdc, hs1⟩
        · rw [hs1]; exact Frame.refl _ _
        · rw [hs1]
          obtain ⟨⟨extra, he⟩, _⟩ := deepCopy_props hs hsrc hfid hb hf hfull hdc
          exact Frame.setData s d _ h' _ (fun a c hc _ => by rw [he]; exact heap_append_keep extra hc)
  | del d =>
    simp only [DataFormat.step] at h
    split at h
    · cases h
    · rename_i dat hdat
      split at h
      · cases h
      · rename_i hh hr
        simp only [Except.ok.injEq, Prod.mk.injEq] at h
        rw [← h.1]
        obtain ⟨r1, r2, r3⟩ := releaseIfFmt_spec hs (getData_ok.1 hdat) hr
        exact Frame.setData s d _ hh _ (fun a c hc ho => by rw [r3 a ho]; exact hc)
  | setfmt d f =>
    simp only [DataFormat.step] at h
    split at h
    · cases h
    · rename_i dat hdat
      split at h
      · cases h
      · split at h
        · cases h
        · rename_i hh hr
          split at h
          · cases h
          · rename_i b h' ha
            simp only [Except.ok.injEq, Prod.mk.injEq] at h
            rw [← h.1]
            obtain ⟨r1, r2, r3⟩ := releaseIfFmt_spec hs (getData_ok.1 hdat) hr
            obtain ⟨extra, he⟩ := Format.alloc_heap (allocSp_ok ha)
            exact Frame.setData s d _ h' _ (fun a c hc ho => by
              rw [he]; exact heap_append_keep extra (by rw [r3 a ho]; exact hc))
  | release d =>
    simp only [DataFormat.step] at h
    split at h
    · cases h
    · rename_i dat hdat
      split at h
      · cases h
      · rename_i fid x hfo
        obtain ⟨hfid, hf⟩ := fmtOf_ok hfo
        split at h
        · cases h
        · rename_i hh hr
          simp only [Except.ok.injEq, Prod.mk.injEq] at h
          rw [← h.1]
          obtain ⟨r1, r2, r3⟩ := format_release_spec hs (getData_ok.1 hdat) hfid hf hr
          exact Frame.setData s d _ hh _ (fun a c hc ho => by rw [r3 a ho]; exact hc)
  | realloc d =>
    simp only [DataFormat.step] at h
    split at h
    · cases h
    · rename_i dat hdat
      split at h
      · cases h
      · rename_i fid x hfo
        obtain ⟨hfid, hf⟩ := fmtOf_ok hfo
        split at h
        · cases h
        · rename_i hh hr
          split at h
          · cases h
          · rename_i b h' ha
            simp only [Except.ok.injEq, Prod.mk.injEq] at h
            rw [← h.1]
            obtain ⟨r1, r2, r3⟩ := format_release_spec hs (getData_ok.1 hdat) hfid hf hr
            obtain ⟨extra, he⟩ := Format.alloc_heap (allocSp_ok ha)
            exact Frame.setData s d _ h' _ (fun a c hc ho => by
              rw [he]; exact heap_append_keep extra (by rw [r3 a ho]; exact hc))
  | dadd d name t pers symbol =>
    simp only [DataFormat.step] at h
    split at h
    · cases h
    · rename_i s1 a hc
      simp only [Except.ok.injEq, Prod.mk.injEq] at h
      rw [← h.1]
      obtain ⟨dat, fid, f, f', hd, hfid, hf, hadd, hcases⟩ := dataAddAttribute_ok_cases hc
      have hlay := Format.sameLayout_addAttribute hadd
      rcases hcases with ⟨_, hs1⟩ | ⟨_, b, hb, _, ⟨_, _, hs1⟩ | ⟨_, hs1⟩⟩
      · rw [hs1]
        exact ⟨fun _ _ _ => rfl, fmts_set _ hf hlay, fun _ _ hc _ => hc⟩
      · rw [hs1]
        exact ⟨fun y hy _ => List.getElem?_set_ne (fun e => hy (by rw [e]; rfl)), fmts_set _ hf hlay,
          fun a c hc _ => heap_append_keep _ hc⟩
      · rw [hs1]
        exact ⟨fun y hy _ => List.getElem?_set_ne (fun e => hy (by rw [e]; rfl)), fmts_set _ hf hlay,
          fun a c hc _ => hc⟩
  | clear d =>
    simp only [DataFormat.step] at h
    split at h
    · cases h
    · rename_i s1 hc
      simp only [Except.ok.injEq, Prod.mk.injEq] at h
      rw [← h.1]
      exact clear_frame hs hc
  | clearall d =>
    simp only [DataFormat.step] at h
    split at h
    · cases h
    · rename_i s1 hc
      simp only [Except.ok.injEq, Prod.mk.injEq] at h
      rw [← h.1]
      exact clear_frame hs hc
  | protect d i =>
    simp only [DataFormat.step] at h
    split at h
    · cases h
    · rename_i s1 hc
      simp only [Except.ok.injEq, Prod.mk.injEq] at h
      rw [← h.1]
      exact protect_frame hc
  | unprotect d i =>
    simp only [DataFormat.step] at h
    split at h
    · cases h
    · rename_i s1 hc
      simp only [Except.ok.injEq, Prod.mk.injEq] at h
      rw [← h.1]
      exact protect_frame hc
  | set d i v =>
    simp only [DataFormat.step] at h
    split at h
    · cases h
    · rename_i l hl
      split at h
      · cases h
      · split at h
        · cases h
        · rename_i s1 hw
          simp only [Except.ok.injEq, Prod.mk.injEq] at h
          rw [← h.1]
          exact writeVal_frame hw
  | get d i =>
    simp only [DataFormat.step] at h
    split at h
    · cases h
    · simp only [Except.ok.injEq, Prod.mk.injEq] at h
      rw [← h.1]; exact Frame.refl _ _
  | push d i e =>
    simp only [DataFormat.step] at h
    split at h
    · cases h
    · rename_i s1 hc
      simp only [Except.ok.injEq, Prod.mk.injEq] at h
      rw [← h.1]
      exact push_frame hc
  | rc d i =>
    simp only [DataFormat.step] at h
    split at h
    · cases h
    · simp only [Except.ok.injEq, Prod.mk.injEq] at h
      rw [← h.1]; exact Frame.refl _ _
  | dump d =>
    simp only [DataFormat.step] at h
    split at h
    · cases h
    · simp only [Except.ok.injEq, Prod.mk.injEq] at h
      rw [← h.1]; exact Frame.refl _ _
  | tostr d i =>
    simp only [DataFormat.step] at h
    split at h
    · cases h
    · simp only [Except.ok.injEq, Prod.mk.injEq] at h
      rw [← h.1]; exact Frame.refl _ _
  | leakcheck =>
    simp only [DataFormat.step, Except.ok.injEq, Prod.mk.injEq] at h
    rw [← h.1]; exact Frame.refl _ _
  | fromstr d i text =>
    simp only [DataFormat.step] at h
    split at h
    · cases h
    · rename_i s1 hc
      simp only [Except.ok.injEq, Prod.mk.injEq] at h
      rw [← h.1]
      unfold fromStrData at hc
      split at hc
      · cases hc
      · split at hc
        · cases hc
        · exact writeVal_frame hc

end Sympler.DataFormat
