import Sympler.Basic
import Sympler.Gen.KernelsFloat
/-!
Driver for the sampled validation of the kernel translator (C16): evaluates the generated
Float definitions.  Protocol: `eval <name> <rc> <r>` with rc, r decimal floats -> `<value>` printed with
17 significant digits (scientific), or `err:name`.
-/
namespace Sympler.KernelsDrv

/-- parse a decimal like `1.25`, `-0.5`, `3` (no exponent) into a Float -/
def parseDec (s : String) : Option Float :=
  let neg := s.startsWith "-"
  let t := if neg then (s.drop 1).toString else s
  match t.splitOn "." with
  | [a] => a.toNat?.map fun n => (if neg then -1.0 else 1.0) * n.toFloat
  | [a, b] =>
    match a.toNat?, b.toNat? with
    | some x, some y => some ((if neg then -1.0 else 1.0) * (x.toFloat + y.toFloat / Float.pow 10.0 b.length.toFloat))
    | _, _ => none
  | _ => none

def driver (lines : List String) : List String :=
  lines.filterMap fun l =>
    match Sympler.words l with
    | ["eval", name, rc, r] =>
      match parseDec rc, parseDec r with
      | some a, some b =>
        match Sympler.Gen.KernelsFloat.eval name a b with
        | some v => some (toString v.toBits)
        | none => some "err:name"
      | _, _ => some "err:parse"
    | ["evalb", name, rc, r] =>
      -- arguments as IEEE-754 bit patterns (exactly the doubles the real functions get)
      match rc.toNat?, r.toNat? with
      | some a, some b =>
        match Sympler.Gen.KernelsFloat.eval name (Float.ofBits (UInt64.ofNat a)) (Float.ofBits (UInt64.ofNat b)) with
        | some v => some (toString v.toBits)
        | none => some "err:name"
      | _, _ => some "err:parse"
    | ["names"] => some (String.intercalate " " Sympler.Gen.KernelsFloat.names)
    | [] => none
    | _ => some "err:parse"

end Sympler.KernelsDrv
