import Sympler.Stages
/-!
Helper lemmas for property C06 (`Props/C06.lean`).  Core Lean only.
-/
namespace Sympler.Stages

/-- `P` is a *dependency* of `S`: another registered module (`P != this`) that produces one of the
names `S` walks in `findStage`. -/
def Dep (syms : List Sym) (S P : Sym) : Prop :=
  P ∈ syms ∧ P.id ≠ S.id ∧ ∃ n, n ∈ S.walked ∧ n ∈ P.produces

/-- Pairwise distinct ids (= pointer identity of the C++ objects). -/
def Distinct (syms : List Sym) : Prop := (syms.map (·.id)).Nodup

/-- The producers visited by `findStage`, in visiting order (with repetitions). -/
def prodsOf (syms : List Sym) (S : Sym) : List Sym :=
  S.walked.flatMap (fun n => syms.filter (fun p => decide (p.id ≠ S.id ∧ n ∈ p.produces)))

/-- `0` if nothing is visited, else `1 + max` of the producers' stages. -/
def levelOf (syms : List Sym) (st : Nat → Option Nat) (S : Sym) : Nat :=
  (prodsOf syms S).foldl (fun m p => max m ((st p.id).getD 0 + 1)) 0

/-- `k` is the longest-path level of `S` w.r.t. the stages of its dependencies. -/
def IsLevel (syms : List Sym) (st : Nat → Option Nat) (S : Sym) (k : Nat) : Prop :=
  (∀ P, Dep syms S P → ∃ j, st P.id = some j ∧ j < k) ∧
  (k = 0 ∨ ∃ P, Dep syms S P ∧ st P.id = some (k - 1))

/-- Every determined stage is the level of its module. -/
def Good (syms : List Sym) (st : Nat → Option Nat) : Prop :=
  ∀ S ∈ syms, ∀ k, st S.id = some k → IsLevel syms st S k

def Total (syms : List Sym) (st : Nat → Option Nat) : Prop :=
  ∀ S ∈ syms, ∃ k, st S.id = some k

theorem mem_prodsOf {syms : List Sym} {S P : Sym} : P ∈ prodsOf syms S ↔ Dep syms S P := by
  simp only [prodsOf, List.mem_flatMap, List.mem_filter, decide_eq_true_eq, Dep]
  constructor
  · rintro ⟨n, hn, hP, hne, hp⟩; exact ⟨hP, hne, n, hn, hp⟩
  · rintro ⟨hP, hne, n, hn, hp⟩; exact ⟨n, hn, hP, hne, hp⟩

theorem Dep.perm {syms syms' : List Sym} (h : syms.Perm syms') {S P : Sym} :
    Dep syms S P ↔ Dep syms' S P := by
  simp only [Dep, h.mem_iff]

/-! ### `findStage` -/

/-- `visit` guarded by `!tooEarly`. -/
def visitT (st : Nat → Option Nat) (w : Walk) (p : Sym) : Walk :=
  if w.tooEarly then w else visit st w p

theorem walkName_eq (syms : List Sym) (st : Nat → Option Nat) (S : Sym) (w : Walk) (n : Nat) :
    walkName syms st S w n
      = (syms.filter (fun p => decide (p.id ≠ S.id ∧ n ∈ p.produces))).foldl (visitT st) w := by
  unfold walkName
  induction syms generalizing w with
  | nil => rfl
  | cons p l ih =>
    by_cases hc : p.id ≠ S.id ∧ n ∈ p.produces
    · rw [List.filter_cons_of_pos (by simpa using hc), List.foldl_cons, List.foldl_cons, ih]
      congr 1
      unfold visitIf visitT
      rw [if_pos hc]
    · rw [List.filter_cons_of_neg (by simpa using hc), List.foldl_cons, ih]
      congr 1
      unfold visitIf
      rw [if_neg hc, ite_self]

theorem walk_eq (syms : List Sym) (st : Nat → Option Nat) (S : Sym) (w : Walk) :
    S.walked.foldl (walkName syms st S) w = (prodsOf syms S).foldl (visitT st) w := by
  unfold prodsOf
  rw [List.foldl_flatMap]
  congr 1
  funext w n
  exact walkName_eq syms st S w n

/-- `m_stage + 1` with `-1 ↦ 0`… shifted: `none ↦ 0`, `some m ↦ m`. -/
def Walk.lev (w : Walk) : Nat := match w.stage with | none => 0 | some m => m

theorem visit_some {st : Nat → Option Nat} {w : Walk} {p : Sym} {j : Nat} (h : st p.id = some j) :
    visit st w p = ⟨w.tooEarly, false, some (max w.lev (j + 1))⟩ := by
  unfold visit Walk.lev
  rw [h]
  cases hs : w.stage with
  | none => simp
  | some m =>
    simp only
    by_cases hjm : j ≥ m
    · rw [if_pos hjm]; congr 2; omega
    · rw [if_neg hjm]; congr 2; omega

theorem visit_none {st : Nat → Option Nat} {w : Walk} {p : Sym} (h : st p.id = none) :
    visit st w p = ⟨true, false, none⟩ := by
  unfold visit; rw [h]

theorem fold_tooEarly_stays (st : Nat → Option Nat) (l : List Sym) (w : Walk)
    (hw : w.tooEarly = true) : l.foldl (visitT st) w = w := by
  induction l with
  | nil => rfl
  | cons p l ih => simp only [List.foldl_cons, visitT, hw, if_true]; exact ih

/-- A visited producer with stage `-1` makes the walk end with `tooEarly`. -/
theorem fold_tooEarly (st : Nat → Option Nat) (l : List Sym) (w : Walk)
    (h : ∃ p ∈ l, st p.id = none) : (l.foldl (visitT st) w).tooEarly = true := by
  induction l generalizing w with
  | nil => obtain ⟨p, hp, _⟩ := h; cases hp
  | cons q l ih =>
    simp only [List.foldl_cons]
    by_cases hw : w.tooEarly = true
    · have : visitT st w q = w := by simp [visitT, hw]
      rw [this, fold_tooEarly_stays st l w hw]; exact hw
    · obtain ⟨p, hp, hn⟩ := h
      rcases List.mem_cons.1 hp with rfl | hp
      · have : (visitT st w p).tooEarly = true := by
          simp only [visitT, hw, Bool.false_eq_true, if_false, visit_none hn]
        rw [fold_tooEarly_stays st l _ this]; exact this
      · exact ih _ ⟨p, hp, hn⟩

/-- All visited producers determined: the walk ends with the running maximum. -/
theorem fold_determined (st : Nat → Option Nat) (l : List Sym) (w : Walk)
    (hw : w.tooEarly = false) (hall : ∀ p ∈ l, ∃ j, st p.id = some j) (hne : l ≠ []) :
    l.foldl (visitT st) w
      = ⟨false, false, some (l.foldl (fun m p => max m ((st p.id).getD 0 + 1)) w.lev)⟩ := by
  induction l generalizing w with
  | nil => exact absurd rfl hne
  | cons p l ih =>
    obtain ⟨j, hj⟩ := hall p (List.mem_cons_self ..)
    have h1 : visitT st w p = ⟨false, false, some (max w.lev (j + 1))⟩ := by
      simp only [visitT, hw, Bool.false_eq_true, if_false, visit_some hj]
    simp only [List.foldl_cons, h1, hj, Option.getD_some]
    by_cases hl : l = []
    · subst hl; rfl
    · rw [ih _ rfl (fun q hq => hall q (List.mem_cons_of_mem _ hq)) hl]
      rfl

theorem foldl_max_spec {α : Type} (g : α → Nat) (l : List α) (a : Nat) :
    let K := l.foldl (fun m p => max m (g p + 1)) a
    a ≤ K ∧ (∀ p ∈ l, g p < K) ∧ (K = a ∨ ∃ p ∈ l, K = g p + 1) := by
  induction l generalizing a with
  | nil => simp
  | cons q l ih =>
    simp only [List.foldl_cons]
    obtain ⟨h1, h2, h3⟩ := ih (max a (g q + 1))
    refine ⟨by omega, ?_, ?_⟩
    · intro p hp
      rcases List.mem_cons.1 hp with rfl | hp
      · omega
      · exact h2 p hp
    · rcases h3 with h3 | ⟨p, hp, h3⟩
      · by_cases hq : a ≥ g q + 1
        · left; omega
        · right; exact ⟨q, List.mem_cons_self .., by omega⟩
      · right; exact ⟨p, List.mem_cons_of_mem _ hp, h3⟩

/-- `findStage` on an undetermined module with an undetermined dependency: "too early". -/
theorem findStage_tooEarly {syms : List Sym} {st : Nat → Option Nat} {S : Sym}
    (hS : st S.id = none) (h : ∃ P, Dep syms S P ∧ st P.id = none) :
    findStage syms st S = none := by
  obtain ⟨P, hP, hn⟩ := h
  unfold findStage
  rw [hS]
  simp only [walk_eq]
  rw [fold_tooEarly st _ _ ⟨P, mem_prodsOf.2 hP, hn⟩]
  rfl

/-- `findStage` on an undetermined module whose dependencies are all determined. -/
theorem findStage_determined {syms : List Sym} {st : Nat → Option Nat} {S : Sym}
    (hS : st S.id = none) (h : ∀ P, Dep syms S P → ∃ j, st P.id = some j) :
    findStage syms st S = some (levelOf syms st S) := by
  unfold findStage
  rw [hS]
  simp only [walk_eq]
  by_cases hl : prodsOf syms S = []
  · simp [levelOf, hl, Walk.init]
  · rw [fold_determined st _ _ rfl (fun p hp => h p (mem_prodsOf.1 hp)) hl]
    simp [levelOf, Walk.init, Walk.lev]

theorem findStage_of_some {syms : List Sym} {st : Nat → Option Nat} {S : Sym} {k : Nat}
    (hS : st S.id = some k) : findStage syms st S = some k := by
  unfold findStage; rw [hS]

theorem levelOf_isLevel {syms : List Sym} {st : Nat → Option Nat} {S : Sym}
    (h : ∀ P, Dep syms S P → ∃ j, st P.id = some j) : IsLevel syms st S (levelOf syms st S) := by
  have := foldl_max_spec (fun p : Sym => (st p.id).getD 0) (prodsOf syms S) 0
  obtain ⟨_, h2, h3⟩ := this
  refine ⟨?_, ?_⟩
  · intro P hP
    obtain ⟨j, hj⟩ := h P hP
    have := h2 P (mem_prodsOf.2 hP)
    simp only [hj, Option.getD_some] at this
    exact ⟨j, hj, this⟩
  · rcases h3 with h3 | ⟨p, hp, h3⟩
    · left; exact h3
    · right
      obtain ⟨j, hj⟩ := h p (mem_prodsOf.1 hp)
      refine ⟨p, mem_prodsOf.1 hp, ?_⟩
      simp only [hj, Option.getD_some] at h3
      unfold levelOf
      rw [h3, hj]; rfl

/-- Complete case analysis of `findStage`. -/
theorem findStage_cases (syms : List Sym) (st : Nat → Option Nat) (S : Sym) :
    (∃ k, st S.id = some k ∧ findStage syms st S = some k) ∨
    (st S.id = none ∧ (∃ P, Dep syms S P ∧ st P.id = none) ∧ findStage syms st S = none) ∨
    (st S.id = none ∧ (∀ P, Dep syms S P → ∃ j, st P.id = some j) ∧
      findStage syms st S = some (levelOf syms st S)) := by
  cases hS : st S.id with
  | some k => left; exact ⟨k, rfl, findStage_of_some hS⟩
  | none =>
    right
    by_cases h : ∃ P, Dep syms S P ∧ st P.id = none
    · left; exact ⟨rfl, h, findStage_tooEarly hS h⟩
    · right
      have h' : ∀ P, Dep syms S P → ∃ j, st P.id = some j := by
        intro P hP
        cases hp : st P.id with
        | none => exact absurd ⟨P, hP, hp⟩ h
        | some j => exact ⟨j, rfl⟩
      exact ⟨rfl, h', findStage_determined hS h'⟩

/-! ### Distinct ids -/

theorem Distinct.eq_of_id {syms : List Sym} (hd : Distinct syms) {a b : Sym}
    (ha : a ∈ syms) (hb : b ∈ syms) (h : a.id = b.id) : a = b := by
  unfold Distinct at hd
  induction syms with
  | nil => cases ha
  | cons x l ih =>
    rw [List.map_cons, List.nodup_cons] at hd
    rcases List.mem_cons.1 ha with ha' | ha' <;> rcases List.mem_cons.1 hb with hb' | hb'
    · rw [ha', hb']
    · subst ha'
      exact absurd (h ▸ List.mem_map_of_mem hb' : a.id ∈ l.map (·.id)) hd.1
    · subst hb'
      exact absurd (h ▸ List.mem_map_of_mem ha' : b.id ∈ l.map (·.id)) hd.1
    · exact ih hd.2 ha' hb'

theorem Distinct.perm {syms syms' : List Sym} (h : syms.Perm syms') (hd : Distinct syms) :
    Distinct syms' :=
  ((h.map (fun s : Sym => s.id)).nodup_iff).1 hd

/-! ### Monotonicity -/

/-- `st'` extends `st`: determined stages are never revised. -/
def Le (st st' : Nat → Option Nat) : Prop := ∀ i k, st i = some k → st' i = some k

theorem Le.refl (st : Nat → Option Nat) : Le st st := fun _ _ h => h

theorem Le.trans {a b c : Nat → Option Nat} (h1 : Le a b) (h2 : Le b c) : Le a c :=
  fun i k h => h2 i k (h1 i k h)

theorem IsLevel.mono {syms : List Sym} {st st' : Nat → Option Nat} {S : Sym} {k : Nat}
    (h : IsLevel syms st S k) (hle : Le st st') : IsLevel syms st' S k := by
  refine ⟨?_, ?_⟩
  · intro P hP
    obtain ⟨j, hj, hlt⟩ := h.1 P hP
    exact ⟨j, hle _ _ hj, hlt⟩
  · rcases h.2 with h0 | ⟨P, hP, hj⟩
    · exact Or.inl h0
    · exact Or.inr ⟨P, hP, hle _ _ hj⟩

theorem IsLevel.perm {syms syms' : List Sym} (hp : syms.Perm syms') {st : Nat → Option Nat}
    {S : Sym} {k : Nat} : IsLevel syms st S k ↔ IsLevel syms' st S k := by
  simp only [IsLevel, Dep.perm hp]

/-- One `findStage` call with in-place update. -/
def stepSt (all : List Sym) (st : Nat → Option Nat) (s : Sym) : Nat → Option Nat :=
  update st s.id (findStage all st s)

theorem sweepGo_cons (all : List Sym) (s : Sym) (rest : List Sym) (st : Nat → Option Nat)
    (fin : Bool) :
    sweepGo all (s :: rest) st fin
      = sweepGo all rest (stepSt all st s) ((findStage all st s).isSome && fin) := rfl

theorem stepSt_le (all : List Sym) (st : Nat → Option Nat) (s : Sym) : Le st (stepSt all st s) := by
  intro i k h
  unfold stepSt update
  by_cases hi : i = s.id
  · subst hi; rw [if_pos rfl]; exact findStage_of_some h
  · rw [if_neg hi]; exact h

theorem stepSt_other (all : List Sym) (st : Nat → Option Nat) (s : Sym) {i : Nat}
    (hi : i ≠ s.id) : stepSt all st s i = st i := by
  unfold stepSt update; rw [if_neg hi]

theorem stepSt_self (all : List Sym) (st : Nat → Option Nat) (s : Sym) :
    stepSt all st s s.id = findStage all st s := by
  unfold stepSt update; rw [if_pos rfl]

theorem sweepGo_le (all rest : List Sym) (st : Nat → Option Nat) (fin : Bool) :
    Le st (sweepGo all rest st fin).1 := by
  induction rest generalizing st fin with
  | nil => exact Le.refl st
  | cons s rest ih => rw [sweepGo_cons]; exact (stepSt_le all st s).trans (ih _ _)

theorem sweepGo_other (all rest : List Sym) (st : Nat → Option Nat) (fin : Bool) {i : Nat}
    (hi : i ∉ rest.map (·.id)) : (sweepGo all rest st fin).1 i = st i := by
  induction rest generalizing st fin with
  | nil => rfl
  | cons s rest ih =>
    rw [sweepGo_cons]
    rw [List.map_cons, List.mem_cons, not_or] at hi
    rw [ih _ _ hi.2, stepSt_other _ _ _ hi.1]

/-- The flag returned by a sweep says exactly that every visited module is determined
afterwards. -/
theorem sweepGo_fin (all rest : List Sym) (st : Nat → Option Nat) (fin : Bool)
    (hnd : (rest.map (·.id)).Nodup) :
    (sweepGo all rest st fin).2 = true ↔
      fin = true ∧ ∀ s ∈ rest, ∃ k, (sweepGo all rest st fin).1 s.id = some k := by
  induction rest generalizing st fin with
  | nil => simp [sweepGo]
  | cons s rest ih =>
    rw [List.map_cons, List.nodup_cons] at hnd
    rw [sweepGo_cons, ih _ _ hnd.2]
    have hs : (sweepGo all rest (stepSt all st s) ((findStage all st s).isSome && fin)).1 s.id
        = findStage all st s := by
      rw [sweepGo_other _ _ _ _ hnd.1, stepSt_self]
    constructor
    · rintro ⟨h1, h2⟩
      rw [Bool.and_eq_true] at h1
      refine ⟨h1.2, ?_⟩
      intro t ht
      rcases List.mem_cons.1 ht with rfl | ht
      · rw [hs]; exact Option.isSome_iff_exists.1 h1.1
      · exact h2 t ht
    · rintro ⟨h1, h2⟩
      refine ⟨?_, fun t ht => h2 t (List.mem_cons_of_mem _ ht)⟩
      rw [Bool.and_eq_true]
      refine ⟨?_, h1⟩
      have := h2 s (List.mem_cons_self ..)
      rw [hs] at this
      exact Option.isSome_iff_exists.2 this

/-! ### The invariant `Good` -/

theorem good_init (syms : List Sym) : Good syms init := by
  intro S _ k h; cases h

theorem stepSt_good {all : List Sym} (hd : Distinct all) {st : Nat → Option Nat} {s : Sym}
    (hs : s ∈ all) (hg : Good all st) : Good all (stepSt all st s) := by
  intro T hT k hk
  have hle := stepSt_le all st s
  by_cases hi : T.id = s.id
  · have : T = s := hd.eq_of_id hT hs hi
    subst this
    rw [stepSt_self] at hk
    rcases findStage_cases all st T with ⟨k', h1, h2⟩ | ⟨_, _, h2⟩ | ⟨_, h1, h2⟩
    · rw [h2] at hk; cases hk
      exact (hg T hT _ h1).mono hle
    · rw [h2] at hk; cases hk
    · rw [h2] at hk; cases hk
      exact (levelOf_isLevel h1).mono hle
  · rw [stepSt_other _ _ _ hi] at hk
    exact (hg T hT k hk).mono hle

theorem sweepGo_good {all : List Sym} (hd : Distinct all) (rest : List Sym)
    (hsub : ∀ s ∈ rest, s ∈ all) (st : Nat → Option Nat) (fin : Bool) (hg : Good all st) :
    Good all (sweepGo all rest st fin).1 := by
  induction rest generalizing st fin with
  | nil => exact hg
  | cons s rest ih =>
    rw [sweepGo_cons]
    exact ih (fun t ht => hsub t (List.mem_cons_of_mem _ ht)) _ _
      (stepSt_good hd (hsub s (List.mem_cons_self ..)) hg)

theorem sweep_good {syms : List Sym} (hd : Distinct syms) {st : Nat → Option Nat}
    (hg : Good syms st) : Good syms (sweep syms st).1 :=
  sweepGo_good hd syms (fun _ h => h) st true hg

theorem sweep_le (syms : List Sym) (st : Nat → Option Nat) : Le st (sweep syms st).1 :=
  sweepGo_le syms syms st true

theorem sweep_fin {syms : List Sym} (hd : Distinct syms) (st : Nat → Option Nat) :
    (sweep syms st).2 = true ↔ Total syms (sweep syms st).1 := by
  unfold sweep Total
  rw [sweepGo_fin syms syms st true hd]
  simp

theorem iter_error {syms : List Sym} {B : Nat} {st : Nat → Option Nat} {used : Nat} {e : String}
    (h : iter syms B st used = .error e) : e = "stageIterations" := by
  induction B generalizing st used with
  | zero => simp only [iter] at h; cases h; rfl
  | succ B ih =>
    simp only [iter] at h
    split at h
    · cases h
    · exact ih h

theorem iter_ok {syms : List Sym} (hd : Distinct syms) {B : Nat} {st : Nat → Option Nat}
    {used : Nat} {r : (Nat → Option Nat) × Nat} (h : iter syms B st used = .ok r)
    (hg : Good syms st) : Good syms r.1 ∧ Total syms r.1 ∧ Le st r.1 ∧ used < r.2 ∧ r.2 ≤ used + B := by
  induction B generalizing st used with
  | zero => simp only [iter] at h; cases h
  | succ B ih =>
    simp only [iter] at h
    split at h
    · rename_i hfin
      cases h
      exact ⟨sweep_good hd hg, (sweep_fin hd st).1 hfin, sweep_le syms st, by omega, by omega⟩
    · obtain ⟨h1, h2, h3, h4, h5⟩ := ih h (sweep_good hd hg)
      exact ⟨h1, h2, (sweep_le syms st).trans h3, by omega, by omega⟩

theorem assign_eq {B : Nat} {syms : List Sym} {st : Nat → Option Nat}
    (h : assign B syms = .ok st) : ∃ n, assignN B syms = .ok (st, n) := by
  unfold assign at h
  cases hr : assignN B syms with
  | error e => rw [hr] at h; cases h
  | ok r =>
    rw [hr] at h
    simp only [Except.map] at h
    cases h
    exact ⟨r.2, rfl⟩

theorem assign_good {syms : List Sym} (hd : Distinct syms) {B : Nat} {st : Nat → Option Nat}
    (h : assign B syms = .ok st) : Good syms st ∧ Total syms st := by
  obtain ⟨n, hn⟩ := assign_eq h
  have := iter_ok hd hn (good_init syms)
  exact ⟨this.1, this.2.1⟩

theorem assign_error {syms : List Sym} {B : Nat} {e : String}
    (h : assign B syms = .error e) : e = "stageIterations" := by
  unfold assign at h
  cases hr : assignN B syms with
  | error e' =>
    rw [hr] at h
    simp only [Except.map] at h
    cases h
    exact iter_error hr
  | ok r => rw [hr] at h; simp only [Except.map] at h; cases h

theorem assign_ok_or_error (B : Nat) (syms : List Sym) :
    (∃ st, assign B syms = .ok st) ∨ assign B syms = .error "stageIterations" := by
  cases h : assign B syms with
  | ok st => exact Or.inl ⟨st, rfl⟩
  | error e => right; rw [assign_error h]

/-! ### Uniqueness of the level function -/

/-- Two total stage maps that both satisfy the level recursion agree (strong induction on the
stage). -/
theorem good_unique_aux {syms : List Sym} {st st' : Nat → Option Nat}
    (hg : Good syms st) (hg' : Good syms st') (ht' : Total syms st') :
    ∀ k, ∀ S ∈ syms, st S.id = some k → st' S.id = some k := by
  intro k
  induction k using Nat.strongRecOn with
  | _ k ih =>
    intro S hS hk
    obtain ⟨k', hk'⟩ := ht' S hS
    have hl := hg S hS k hk
    have hl' := hg' S hS k' hk'
    -- every dependency has the same stage in both maps
    have hdep : ∀ P, Dep syms S P → ∃ j, st P.id = some j ∧ st' P.id = some j ∧ j < k := by
      intro P hP
      obtain ⟨j, hj, hlt⟩ := hl.1 P hP
      exact ⟨j, hj, ih j hlt P hP.1 hj, hlt⟩
    have h1 : k ≤ k' := by
      rcases hl.2 with h0 | ⟨P, hP, hj⟩
      · omega
      · obtain ⟨j, hj1, hj2, _⟩ := hdep P hP
        obtain ⟨j', hj', hlt'⟩ := hl'.1 P hP
        rw [hj] at hj1; cases hj1
        rw [hj2] at hj'; cases hj'
        omega
    have h2 : k' ≤ k := by
      rcases hl'.2 with h0 | ⟨P, hP, hj⟩
      · omega
      · obtain ⟨j, _, hj2, hlt⟩ := hdep P hP
        rw [hj] at hj2; cases hj2
        omega
    have : k' = k := by omega
    rw [hk', this]

theorem good_unique {syms : List Sym} {st st' : Nat → Option Nat}
    (hg : Good syms st) (ht : Total syms st) (hg' : Good syms st') (ht' : Total syms st') :
    ∀ S ∈ syms, st S.id = st' S.id := by
  intro S hS
  obtain ⟨k, hk⟩ := ht S hS
  rw [hk, good_unique_aux hg hg' ht' k S hS hk]

theorem Good.perm {syms syms' : List Sym} (hp : syms.Perm syms') {st : Nat → Option Nat}
    (hg : Good syms st) : Good syms' st := by
  intro S hS k hk
  exact (IsLevel.perm hp).1 (hg S (hp.mem_iff.2 hS) k hk)

theorem Total.perm {syms syms' : List Sym} (hp : syms.Perm syms') {st : Nat → Option Nat}
    (ht : Total syms st) : Total syms' st :=
  fun S hS => ht S (hp.mem_iff.2 hS)

/-- The level recursion in closed form. -/
theorem good_levelOf {syms : List Sym} {st : Nat → Option Nat} (hg : Good syms st)
    {S : Sym} (hS : S ∈ syms) {k : Nat} (hk : st S.id = some k) : k = levelOf syms st S := by
  have hl := hg S hS k hk
  have hall : ∀ P, Dep syms S P → ∃ j, st P.id = some j :=
    fun P hP => let ⟨j, hj, _⟩ := hl.1 P hP; ⟨j, hj⟩
  have hl' := levelOf_isLevel hall
  have h1 : k ≤ levelOf syms st S := by
    rcases hl.2 with h0 | ⟨P, hP, hj⟩
    · omega
    · obtain ⟨j', hj', hlt'⟩ := hl'.1 P hP
      rw [hj] at hj'; cases hj'; omega
  have h2 : levelOf syms st S ≤ k := by
    rcases hl'.2 with h0 | ⟨P, hP, hj⟩
    · omega
    · obtain ⟨j', hj', hlt'⟩ := hl.1 P hP
      rw [hj] at hj'; cases hj'; omega
  omega

/-! ### Cycles -/

/-- A set of modules each of which has a dependency inside the set (e.g. the modules that reach a
cycle) stays undetermined. -/
def Closed (syms : List Sym) (C : Sym → Prop) : Prop :=
  ∀ S, C S → S ∈ syms ∧ ∃ P, C P ∧ Dep syms S P

theorem stepSt_closed {all : List Sym} (hd : Distinct all) {C : Sym → Prop} (hC : Closed all C)
    {st : Nat → Option Nat} {s : Sym} (hs : s ∈ all) (hu : ∀ S, C S → st S.id = none) :
    ∀ S, C S → stepSt all st s S.id = none := by
  intro S hS
  by_cases hi : S.id = s.id
  · have : S = s := hd.eq_of_id (hC S hS).1 hs hi
    subst this
    rw [stepSt_self]
    obtain ⟨P, hP, hdep⟩ := (hC S hS).2
    exact findStage_tooEarly (hu S hS) ⟨P, hdep, hu P hP⟩
  · rw [stepSt_other _ _ _ hi]; exact hu S hS

theorem sweepGo_closed {all : List Sym} (hd : Distinct all) {C : Sym → Prop} (hC : Closed all C)
    (rest : List Sym) (hsub : ∀ s ∈ rest, s ∈ all) (st : Nat → Option Nat) (fin : Bool)
    (hu : ∀ S, C S → st S.id = none) : ∀ S, C S → (sweepGo all rest st fin).1 S.id = none := by
  induction rest generalizing st fin with
  | nil => exact hu
  | cons s rest ih =>
    rw [sweepGo_cons]
    exact ih (fun t ht => hsub t (List.mem_cons_of_mem _ ht)) _ _
      (stepSt_closed hd hC (hsub s (List.mem_cons_self ..)) hu)

theorem iter_closed {syms : List Sym} (hd : Distinct syms) {C : Sym → Prop}
    (hC : Closed syms C) {B : Nat} {st : Nat → Option Nat} {used : Nat}
    (hu : ∀ S, C S → st S.id = none) {r : (Nat → Option Nat) × Nat}
    (h : iter syms B st used = .ok r) : ∀ S, C S → r.1 S.id = none := by
  induction B generalizing st used with
  | zero => simp only [iter] at h; cases h
  | succ B ih =>
    have hsw := sweepGo_closed hd hC syms (fun _ h => h) st true hu
    simp only [iter] at h
    split at h
    · cases h; exact hsw
    · exact ih hsw h

/-- Reachability along dependencies. -/
abbrev Reach (syms : List Sym) : Sym → Sym → Prop := Relation.TransGen (Dep syms)

theorem reach_head {syms : List Sym} {a c : Sym} (h : Reach syms a c) :
    ∃ b, Dep syms a b ∧ (b = c ∨ Reach syms b c) := by
  induction h with
  | single h => exact ⟨_, h, Or.inl rfl⟩
  | tail _ hbc ih =>
    obtain ⟨b, hab, hb⟩ := ih
    refine ⟨b, hab, Or.inr ?_⟩
    rcases hb with rfl | hb
    · exact Relation.TransGen.single hbc
    · exact Relation.TransGen.tail hb hbc

/-- The modules in `syms` that lie on, or reach, a cycle form a closed set. -/
theorem closed_reachCycle (syms : List Sym) :
    Closed syms (fun T => T ∈ syms ∧ ∃ S, Reach syms S S ∧ (T = S ∨ Reach syms T S)) := by
  rintro T ⟨hT, S, hcyc, hTS⟩
  refine ⟨hT, ?_⟩
  have hr : Reach syms T S := by
    rcases hTS with rfl | h
    · exact hcyc
    · exact h
  obtain ⟨b, hTb, hb⟩ := reach_head hr
  exact ⟨b, ⟨hTb.1, S, hcyc, hb⟩, hTb⟩

/-! ### Termination -/

theorem sweepGo_detBelow {all : List Sym} (rk : Nat → Nat)
    (hrk : ∀ S P, S ∈ all → Dep all S P → rk P.id < rk S.id) (k : Nat)
    (rest : List Sym) (hsub : ∀ s ∈ rest, s ∈ all) (st : Nat → Option Nat) (fin : Bool)
    (hdet : ∀ S ∈ all, rk S.id < k → ∃ j, st S.id = some j) :
    ∀ S ∈ rest, rk S.id < k + 1 → ∃ j, (sweepGo all rest st fin).1 S.id = some j := by
  induction rest generalizing st fin with
  | nil => intro S hS; cases hS
  | cons s rest ih =>
    intro S hS hlt
    rw [sweepGo_cons]
    rcases List.mem_cons.1 hS with rfl | hS'
    · have hall : ∀ P, Dep all S P → ∃ j, st P.id = some j := by
        intro P hP
        have := hrk S P (hsub S (List.mem_cons_self ..)) hP
        exact hdet P hP.1 (by omega)
      have : ∃ j, stepSt all st S S.id = some j := by
        rw [stepSt_self]
        rcases findStage_cases all st S with ⟨k', _, h2⟩ | ⟨_, ⟨P, hP, hn⟩, _⟩ | ⟨_, _, h2⟩
        · exact ⟨_, h2⟩
        · obtain ⟨j, hj⟩ := hall P hP; rw [hn] at hj; cases hj
        · exact ⟨_, h2⟩
      obtain ⟨j, hj⟩ := this
      exact ⟨j, sweepGo_le all rest _ _ _ _ hj⟩
    · refine ih (fun t ht => hsub t (List.mem_cons_of_mem _ ht)) _ _ ?_ S hS' hlt
      intro T hT hTk
      obtain ⟨j, hj⟩ := hdet T hT hTk
      exact ⟨j, stepSt_le all st s _ _ hj⟩

/-- After `k` sweeps all modules of rank `< k` are determined; hence `B ≥ (max rank) + 1`
sweeps suffice, whatever the order. -/
theorem iter_terminates {syms : List Sym} (hd : Distinct syms) (rk : Nat → Nat)
    (hrk : ∀ S P, S ∈ syms → Dep syms S P → rk P.id < rk S.id) {B k : Nat}
    {st : Nat → Option Nat} {used : Nat}
    (hdet : ∀ S ∈ syms, rk S.id < k → ∃ j, st S.id = some j)
    (hB : ∀ S ∈ syms, rk S.id < k + B) (hB1 : 1 ≤ B) :
    ∃ r, iter syms B st used = .ok r := by
  induction B generalizing st used k with
  | zero => omega
  | succ B ih =>
    have hsw := sweepGo_detBelow rk hrk k syms (fun _ h => h) st true hdet
    simp only [iter]
    split
    · exact ⟨_, rfl⟩
    · rename_i hfin
      have hB0 : 1 ≤ B := by
        rcases Nat.eq_zero_or_pos B with h0 | h0
        · subst h0
          exfalso; apply hfin
          exact (sweep_fin hd st).2 (fun S hS => hsw S hS (hB S hS))
        · exact h0
      refine ih (k := k + 1) ?_ ?_ hB0
      · intro S hS hlt; exact hsw S hS hlt
      · intro S hS; have := hB S hS; omega

/-- Pigeonhole: if `g` attains every value `< m` on `l` then `m ≤ l.length`. -/
theorem length_ge_of_attains {α : Type} [DecidableEq α] (g : α → Nat) (m : Nat) (l : List α)
    (h : ∀ j, j < m → ∃ x ∈ l, g x = j) : m ≤ l.length := by
  induction m generalizing l with
  | zero => omega
  | succ m ih =>
    obtain ⟨x, hx, hgx⟩ := h m (by omega)
    have := ih (l.erase x) (fun j hj => by
      obtain ⟨y, hy, hgy⟩ := h j (by omega)
      refine ⟨y, (List.mem_erase_of_ne ?_).2 hy, hgy⟩
      intro hyx; subst hyx; omega)
    rw [List.length_erase_of_mem hx] at this
    have : 0 < l.length := List.length_pos_of_mem hx
    omega

/-- In a `Good` map every stage below a determined stage is attained. -/
theorem good_attains {syms : List Sym} {st : Nat → Option Nat} (hg : Good syms st) :
    ∀ k, ∀ S ∈ syms, st S.id = some k → ∀ j, j ≤ k → ∃ T ∈ syms, st T.id = some j := by
  intro k
  induction k with
  | zero => intro S hS hk j hj; exact ⟨S, hS, by rw [hk]; congr 1; omega⟩
  | succ k ih =>
    intro S hS hk j hj
    rcases Nat.lt_or_ge j (k + 1) with hlt | hge
    · rcases (hg S hS _ hk).2 with h0 | ⟨P, hP, hj'⟩
      · omega
      · exact ih P hP.1 hj' j (by omega)
    · exact ⟨S, hS, by rw [hk]; congr 1; omega⟩

theorem good_stage_lt_length {syms : List Sym} {st : Nat → Option Nat} (hg : Good syms st)
    {S : Sym} (hS : S ∈ syms) {k : Nat} (hk : st S.id = some k) : k < syms.length := by
  have := length_ge_of_attains (fun T : Sym => (st T.id).getD 0) (k + 1) syms (by
    intro j hj
    obtain ⟨T, hT, hTj⟩ := good_attains hg k S hS hk j (by omega)
    exact ⟨T, hT, by simp [hTj]⟩)
  omega

theorem exists_bound (rk : Nat → Nat) (syms : List Sym) : ∃ M, ∀ S ∈ syms, rk S.id < M := by
  induction syms with
  | nil => exact ⟨0, fun S hS => by cases hS⟩
  | cons s l ih =>
    obtain ⟨M, hM⟩ := ih
    refine ⟨max M (rk s.id + 1), ?_⟩
    intro S hS
    rcases List.mem_cons.1 hS with rfl | hS
    · omega
    · have := hM S hS; omega

theorem assign_of_iter {B : Nat} {syms : List Sym} {r : (Nat → Option Nat) × Nat}
    (h : iter syms B init 0 = .ok r) : assign B syms = .ok r.1 := by
  unfold assign assignN; rw [h]; rfl

/-- A `Good` total map is a rank function. -/
theorem good_rank {syms : List Sym} {st : Nat → Option Nat} (hg : Good syms st)
    (ht : Total syms st) :
    ∀ S P, S ∈ syms → Dep syms S P → (st P.id).getD 0 < (st S.id).getD 0 := by
  intro S P hS hP
  obtain ⟨k, hk⟩ := ht S hS
  obtain ⟨j, hj, hlt⟩ := (hg S hS k hk).1 P hP
  simp [hk, hj, hlt]

/-! ### The schedule -/

theorem le_maxStage {syms : List Sym} {st : Nat → Option Nat} {S : Sym} (hS : S ∈ syms)
    {k : Nat} (hk : st S.id = some k) : k ≤ maxStage syms st := by
  unfold maxStage
  induction syms with
  | nil => cases hS
  | cons s l ih =>
    simp only [List.foldr_cons]
    rcases List.mem_cons.1 hS with rfl | hS
    · simp only [hk, Option.getD_some]; omega
    · have := ih hS; omega

theorem mem_bucket {syms : List Sym} {st : Nat → Option Nat} {k : Nat} {S : Sym} :
    S ∈ bucket syms st k ↔ S ∈ syms ∧ st S.id = some k := by
  simp [bucket]

theorem mem_scheduleSyms {syms : List Sym} {st : Nat → Option Nat} {S : Sym} :
    S ∈ scheduleSyms syms st ↔ S ∈ syms ∧ ∃ k, st S.id = some k := by
  simp only [scheduleSyms, List.mem_flatMap, List.mem_range, mem_bucket]
  constructor
  · rintro ⟨k, _, hS, hk⟩; exact ⟨hS, k, hk⟩
  · rintro ⟨hS, k, hk⟩
    exact ⟨k, by have := le_maxStage hS hk; omega, hS, hk⟩

/-- The execution order is sorted by stage. -/
theorem scheduleSyms_sorted (syms : List Sym) (st : Nat → Option Nat) :
    (scheduleSyms syms st).Pairwise
      (fun a b => ∃ i j, st a.id = some i ∧ st b.id = some j ∧ i ≤ j) := by
  unfold scheduleSyms
  rw [List.pairwise_flatMap]
  constructor
  · intro k _
    apply List.pairwise_of_forall_mem_list
    intro a ha b hb
    exact ⟨k, k, (mem_bucket.1 ha).2, (mem_bucket.1 hb).2, Nat.le_refl _⟩
  · refine List.Pairwise.imp ?_ List.pairwise_lt_range
    intro k1 k2 hlt a ha b hb
    exact ⟨k1, k2, (mem_bucket.1 ha).2, (mem_bucket.1 hb).2, Nat.le_of_lt hlt⟩

theorem flatMap_congr' {α β : Type} {f g : α → List β} (l : List α)
    (h : ∀ x ∈ l, f x = g x) : l.flatMap f = l.flatMap g := by
  induction l with
  | nil => rfl
  | cons a l ih =>
    rw [List.flatMap_cons, List.flatMap_cons, h a (List.mem_cons_self ..),
      ih (fun x hx => h x (List.mem_cons_of_mem _ hx))]

theorem list_snoc_induction {α : Type} {P : List α → Prop} (h0 : P [])
    (h1 : ∀ l a, P l → P (l ++ [a])) (l : List α) : P l := by
  have : ∀ r : List α, P r.reverse := by
    intro r
    induction r with
    | nil => exact h0
    | cons a r ih => rw [List.reverse_cons]; exact h1 _ _ ih
  simpa using this l.reverse

/-- Bucketing by a `Nat`-valued key is a permutation. -/
theorem flatMap_bucket_perm {α : Type} (g : α → Nat) (m : Nat) (l : List α)
    (h : ∀ x ∈ l, g x ≤ m) :
    ((List.range (m + 1)).flatMap (fun k => l.filter (fun x => g x == k))).Perm l := by
  induction m generalizing l with
  | zero =>
    simp only [Nat.zero_add, List.range_one, List.flatMap_cons, List.flatMap_nil,
      List.append_nil]
    rw [List.filter_eq_self.2]
    intro x hx; have := h x hx; simp; omega
  | succ m ih =>
    rw [List.range_succ, List.flatMap_append]
    simp only [List.flatMap_cons, List.flatMap_nil, List.append_nil]
    have h1 : (List.range (m + 1)).flatMap (fun k => l.filter (fun x => g x == k))
        = (List.range (m + 1)).flatMap
            (fun k => (l.filter (fun x => !(g x == m + 1))).filter (fun x => g x == k)) := by
      apply flatMap_congr'
      intro k hk
      rw [List.filter_filter]
      apply List.filter_congr
      intro x _
      have := List.mem_range.1 hk
      by_cases hx : g x = k
      · simp [hx]; omega
      · simp [hx]
    rw [h1]
    have h2 := ih (l.filter (fun x => !(g x == m + 1))) (by
      intro x hx
      have hx' := List.mem_filter.1 hx
      have := h x hx'.1
      have h3 : g x ≠ m + 1 := by simpa using hx'.2
      omega)
    refine ((h2.append (List.Perm.refl _)).trans ?_)
    exact (List.perm_append_comm).trans (List.filter_append_perm (fun x => g x == m + 1) l)

theorem scheduleSyms_perm {syms : List Sym} {st : Nat → Option Nat} (ht : Total syms st) :
    (scheduleSyms syms st).Perm syms := by
  have := flatMap_bucket_perm (fun s : Sym => (st s.id).getD 0) (maxStage syms st) syms (by
    intro S hS
    obtain ⟨k, hk⟩ := ht S hS
    simp only [hk, Option.getD_some]
    exact le_maxStage hS hk)
  refine List.Perm.trans (List.Perm.of_eq ?_) this
  unfold scheduleSyms
  apply flatMap_congr'
  intro k _
  unfold bucket
  apply List.filter_congr
  intro S hS
  obtain ⟨j, hj⟩ := ht S hS
  simp [hj]

/-! ### Abstract evaluation -/

section Eval
variable {V : Type}

/-- `f s` reads only the names in `s.uses`. -/
def Local (f : Sym → (Nat → V) → Nat → V) : Prop :=
  ∀ s σ σ', (∀ n ∈ s.uses, σ n = σ' n) → ∀ n, f s σ n = f s σ' n

/-- Every name has at most one producer (in particular: no module overwrites another one's
symbol). -/
def SingleProducer (syms : List Sym) : Prop :=
  ∀ S ∈ syms, ∀ T ∈ syms, ∀ n, n ∈ S.produces → n ∈ T.produces → S = T

/-- No module reads a name it produces itself (the C++ excludes `this` from the producer search,
so such a read would see the old value). -/
def NoSelfUse (syms : List Sym) : Prop := ∀ S ∈ syms, ∀ n ∈ S.uses, n ∉ S.produces

/-- `σ` solves the defining equations of all modules. -/
def Solves (f : Sym → (Nat → V) → Nat → V) (syms : List Sym) (σ : Nat → V) : Prop :=
  ∀ S ∈ syms, ∀ n ∈ S.produces, σ n = f S σ n

def Produced (syms : List Sym) (n : Nat) : Prop := ∃ S ∈ syms, n ∈ S.produces

theorem mem_walked_of_mem_uses {S : Sym} {n : Nat} (h : n ∈ S.uses) : n ∈ S.walked := by
  unfold Sym.walked; split
  · exact List.mem_append_left _ h
  · exact h

theorem evalOrder_snoc (f : Sym → (Nat → V) → Nat → V) (ord : List Sym) (T : Sym)
    (σ₀ : Nat → V) : evalOrder f (ord ++ [T]) σ₀ = stepSym f (evalOrder f ord σ₀) T := by
  simp [evalOrder, List.foldl_append]

theorem evalOrder_not_produced (f : Sym → (Nat → V) → Nat → V) (ord : List Sym) (σ₀ : Nat → V)
    (n : Nat) (h : ∀ T ∈ ord, n ∉ T.produces) : evalOrder f ord σ₀ n = σ₀ n := by
  unfold evalOrder
  induction ord generalizing σ₀ with
  | nil => rfl
  | cons T l ih =>
    rw [List.foldl_cons, ih _ (fun U hU => h U (List.mem_cons_of_mem _ hU))]
    unfold stepSym
    rw [if_neg (h T (List.mem_cons_self ..))]

/-- Running the modules in any order in which no module precedes one of its dependencies
yields a store that solves all equations of the executed modules. -/
theorem evalOrder_solves (f : Sym → (Nat → V) → Nat → V) (hf : Local f) {syms : List Sym}
    (hsp : SingleProducer syms) (hns : NoSelfUse syms) (ord : List Sym)
    (hsub : ∀ S ∈ ord, S ∈ syms) (hord : ord.Pairwise (fun a b => ¬ Dep syms a b))
    (hdist : Distinct syms) (σ₀ : Nat → V) :
    ∀ S ∈ ord, ∀ n ∈ S.produces, evalOrder f ord σ₀ n = f S (evalOrder f ord σ₀) n := by
  induction ord using list_snoc_induction with
  | h0 => intro S hS; cases hS
  | h1 ini T ih =>
    rw [List.pairwise_append] at hord
    obtain ⟨hini, _, hlast⟩ := hord
    have hT : T ∈ syms := hsub T (by simp)
    have hsub' : ∀ S ∈ ini, S ∈ syms := fun S hS => hsub S (List.mem_append_left _ hS)
    have ih' := ih hsub' hini
    intro S hS n hn
    rw [evalOrder_snoc]
    generalize hσ : evalOrder f ini σ₀ = σ at ih'
    by_cases hST : S = T
    · subst hST
      have hagree : ∀ m ∈ S.uses, σ m = stepSym f σ S m := by
        intro m hm
        unfold stepSym
        rw [if_neg (hns S hT m hm)]
      rw [← hf S σ _ hagree n]
      unfold stepSym
      rw [if_pos hn]
    · have hSini : S ∈ ini := by
        rcases List.mem_append.1 hS with h | h
        · exact h
        · exact absurd (List.mem_singleton.1 h) hST
      have hSs := hsub' S hSini
      have hnT : n ∉ T.produces := fun h => hST (hsp S hSs T hT n hn h)
      have hagree : ∀ m ∈ S.uses, σ m = stepSym f σ T m := by
        intro m hm
        unfold stepSym
        rw [if_neg]
        intro hmT
        apply hlast S hSini T (List.mem_singleton.2 rfl)
        refine ⟨hT, ?_, m, mem_walked_of_mem_uses hm, hmT⟩
        intro hid
        exact hST (hdist.eq_of_id hSs hT hid.symm)
      rw [← hf S σ _ hagree n]
      have : stepSym f σ T n = σ n := by unfold stepSym; rw [if_neg hnT]
      rw [this]
      exact ih' S hSini n hn

/-- The equations have at most one solution extending given values of the non-produced names. -/
theorem solves_unique (f : Sym → (Nat → V) → Nat → V) (hf : Local f) {syms : List Sym}
    (hns : NoSelfUse syms) {st : Nat → Option Nat}
    (hg : Good syms st) (ht : Total syms st) (hdist : Distinct syms) {σ σ' : Nat → V}
    (hs : Solves f syms σ) (hs' : Solves f syms σ')
    (hext : ∀ n, ¬ Produced syms n → σ n = σ' n) : ∀ n, σ n = σ' n := by
  have key : ∀ k, ∀ S ∈ syms, st S.id = some k → ∀ n ∈ S.produces, σ n = σ' n := by
    intro k
    induction k using Nat.strongRecOn with
    | _ k ih =>
      intro S hS hk n hn
      rw [hs S hS n hn, hs' S hS n hn]
      apply hf
      intro m hm
      by_cases hp : Produced syms m
      · obtain ⟨T, hT, hmT⟩ := hp
        have hne : T.id ≠ S.id := by
          intro hid
          have : T = S := hdist.eq_of_id hT hS hid
          subst this
          exact hns T hT m hm hmT
        obtain ⟨j, hj, hlt⟩ := (hg S hS k hk).1 T ⟨hT, hne, m, mem_walked_of_mem_uses hm, hmT⟩
        exact ih j hlt T hT hj m hmT
      · exact hext m hp
  intro n
  by_cases hp : Produced syms n
  · obtain ⟨S, hS, hn⟩ := hp
    obtain ⟨k, hk⟩ := ht S hS
    exact key k S hS hk n hn
  · exact hext n hp

/-- Any execution order that contains exactly the registered modules and is sorted by stage
(in particular `scheduleSyms`, but also the per-kind order inside one stage of `runSymbols`)
ends in a store that solves all equations and leaves non-produced names untouched. -/
theorem evalOrder_spec (f : Sym → (Nat → V) → Nat → V) (hf : Local f) {syms : List Sym}
    (hdist : Distinct syms) (hsp : SingleProducer syms) (hns : NoSelfUse syms)
    {st : Nat → Option Nat} (hg : Good syms st) (ord : List Sym)
    (hmem : ∀ S, S ∈ ord ↔ S ∈ syms)
    (hsorted : ord.Pairwise (fun a b => ∃ i j, st a.id = some i ∧ st b.id = some j ∧ i ≤ j))
    (σ₀ : Nat → V) :
    Solves f syms (evalOrder f ord σ₀) ∧
      ∀ n, ¬ Produced syms n → evalOrder f ord σ₀ n = σ₀ n := by
  constructor
  · intro S hS n hn
    refine evalOrder_solves f hf hsp hns ord (fun T hT => (hmem T).1 hT) ?_ hdist σ₀ S
      ((hmem S).2 hS) n hn
    refine List.Pairwise.imp_of_mem ?_ hsorted
    rintro a b ha _ ⟨i, j, hi, hj, hij⟩ hdep
    obtain ⟨j', hj', hlt⟩ := (hg a ((hmem a).1 ha) i hi).1 b hdep
    rw [hj] at hj'; cases hj'; omega
  · intro n hn
    apply evalOrder_not_produced
    intro T hT hnT
    exact hn ⟨T, (hmem T).1 hT, hnT⟩

end Eval

/-! ### Misc -/

theorem iter_mono {syms : List Sym} {B : Nat} {st : Nat → Option Nat} {used : Nat}
    {r : (Nat → Option Nat) × Nat} (h : iter syms B st used = .ok r) :
    iter syms (B + 1) st used = .ok r := by
  induction B generalizing st used with
  | zero => simp only [iter] at h; cases h
  | succ B ih =>
    rw [iter] at h
    rw [iter]
    split
    · rename_i hf; simp only [hf, if_true] at h; exact h
    · rename_i hf; simp only [hf] at h; exact ih h

theorem iter_mono_le {syms : List Sym} {B B' : Nat} (hB : B ≤ B') {st : Nat → Option Nat}
    {used : Nat} {r : (Nat → Option Nat) × Nat} (h : iter syms B st used = .ok r) :
    iter syms B' st used = .ok r := by
  induction B' with
  | zero => have : B = 0 := by omega
            subst this; exact h
  | succ B' ih =>
    rcases Nat.lt_or_ge B (B' + 1) with hlt | hge
    · exact iter_mono (ih (by omega))
    · have : B = B' + 1 := by omega
      subst this; exact h

/-- The stage map after `n` sweeps. -/
def sweepN (syms : List Sym) : Nat → (Nat → Option Nat)
  | 0 => init
  | n + 1 => (sweep syms (sweepN syms n)).1

theorem reach_mem {syms : List Sym} {a b : Sym} (h : Reach syms a b) : b ∈ syms := by
  induction h with
  | single h => exact h.1
  | tail _ h _ => exact h.1

theorem IsLevel.unique {syms : List Sym} {st : Nat → Option Nat} {S : Sym} {k k' : Nat}
    (h : IsLevel syms st S k) (h' : IsLevel syms st S k') : k = k' := by
  have h1 : k ≤ k' := by
    rcases h.2 with h0 | ⟨P, hP, hj⟩
    · omega
    · obtain ⟨j', hj', hlt⟩ := h'.1 P hP
      rw [hj] at hj'; cases hj'; omega
  have h2 : k' ≤ k := by
    rcases h'.2 with h0 | ⟨P, hP, hj⟩
    · omega
    · obtain ⟨j', hj', hlt⟩ := h.1 P hP
      rw [hj] at hj'; cases hj'; omega
  omega

/-- The result of `findStage` does not depend on the order in which the producer lists are
searched. -/
theorem findStage_perm {syms syms' : List Sym} (hp : syms.Perm syms') (st : Nat → Option Nat)
    (S : Sym) : findStage syms st S = findStage syms' st S := by
  rcases findStage_cases syms st S with ⟨k, h1, h2⟩ | ⟨h0, ⟨P, hP, hn⟩, h2⟩ | ⟨h0, h1, h2⟩
  · rw [h2, findStage_of_some h1]
  · rw [h2, findStage_tooEarly h0 ⟨P, (Dep.perm hp).1 hP, hn⟩]
  · have h1' : ∀ P, Dep syms' S P → ∃ j, st P.id = some j :=
      fun P hP => h1 P ((Dep.perm hp).2 hP)
    rw [h2, findStage_determined h0 h1']
    congr 1
    exact (levelOf_isLevel h1).unique ((IsLevel.perm hp).2 (levelOf_isLevel h1'))

end Sympler.Stages
