import Sympler.DataFormat
/-!
# Text round trip of `toStringByIndex` / `fromStringByIndex` (C14)

The `find`-based parsers of `POINT` and `TENSOR` recover what `operator<<` printed, for every
number codec that satisfies `NumCodec.Good` on the values involved (`sprintf("%g")` does not
print parentheses or commas, and `atof` reads it back, also after one blank).  Core Lean only.
-/
namespace Sympler.DataFormat

/-- the assumptions on libc's `%g` / `atof` for the values in `dom` -/
structure NumCodec.Good (nc : NumCodec) (dom : Rat → Prop) : Prop where
  noParL : ∀ x, dom x → '(' ∉ nc.fmtG x
  noParR : ∀ x, dom x → ')' ∉ nc.fmtG x
  noComma : ∀ x, dom x → ',' ∉ nc.fmtG x
  atof_fmtG : ∀ x, dom x → nc.atof (nc.fmtG x) = x
  atof_blank : ∀ x, dom x → nc.atof (' ' :: nc.fmtG x) = x

theorem splitAtChar_append {c : Char} {l : List Char} (r : List Char) (h : c ∉ l) :
    splitAtChar c (l ++ c :: r) = some (l, r) := by
  induction l with
  | nil => simp [splitAtChar]
  | cons x xs ih =>
    have hx : x ≠ c := fun e => h (by simp [e])
    have hxs : c ∉ xs := fun e => h (by simp [e])
    simp [splitAtChar, hx, ih hxs]

theorem splitAtChar_blank_append {c : Char} {l : List Char} (r : List Char) (hc : c ≠ ' ') (h : c ∉ l) :
    splitAtChar c (' ' :: l ++ c :: r) = some (' ' :: l, r) := by
  have : c ∉ ' ' :: l := by
    intro hm
    rcases List.mem_cons.1 hm with hm | hm
    · exact hc hm
    · exact h hm
  exact splitAtChar_append r this

def P3.dom (dom : Rat → Prop) (p : P3) : Prop := dom p.x ∧ dom p.y ∧ dom p.z

def T9.dom (dom : Rat → Prop) (t : T9) : Prop := P3.dom dom t.a ∧ P3.dom dom t.b ∧ P3.dom dom t.c

/-- the text between the parentheses of a printed point -/
def pointBody (nc : NumCodec) (p : P3) (rest : List Char) : List Char :=
  nc.fmtG p.x ++ ',' :: (' ' :: nc.fmtG p.y ++ ',' :: (' ' :: nc.fmtG p.z ++ ')' :: rest))

theorem showPoint_eq (nc : NumCodec) (p : P3) : showPoint nc p = '(' :: pointBody nc p [] := by
  simp [showPoint, pointBody]

theorem parseTriple_pointBody {nc : NumCodec} {dom : Rat → Prop} (hg : nc.Good dom) {p : P3}
    (hp : P3.dom dom p) (whole rest : List Char) :
    parseTriple nc whole (pointBody nc p rest) = (p, rest) := by
  obtain ⟨hx, hy, hz⟩ := hp
  unfold parseTriple pointBody
  simp only [numUpTo]
  rw [splitAtChar_append _ (hg.noComma p.x hx)]
  simp only
  rw [splitAtChar_blank_append _ (by decide) (hg.noComma p.y hy)]
  simp only
  rw [splitAtChar_blank_append _ (by decide) (hg.noParR p.z hz)]
  simp only [hg.atof_fmtG p.x hx, hg.atof_blank p.y hy, hg.atof_blank p.z hz]

/-- `fromStringByIndex` recovers a printed point -/
theorem parsePoint_showPoint {nc : NumCodec} {dom : Rat → Prop} (hg : nc.Good dom) {p : P3}
    (hp : P3.dom dom p) : parsePoint nc (showPoint nc p) = p := by
  unfold parsePoint
  rw [showPoint_eq]
  have : skipPast ('(' :: pointBody nc p []) '(' ('(' :: pointBody nc p []) = pointBody nc p [] := by
    simp [skipPast, splitAtChar]
  rw [this, parseTriple_pointBody hg hp]

theorem showTensor_eq (nc : NumCodec) (t : T9) :
    showTensor nc t = 't' :: 'e' :: 'n' :: 's' :: 'o' :: 'r' :: '(' :: '(' ::
      pointBody nc t.a (',' :: ' ' :: '(' :: pointBody nc t.b (',' :: ' ' :: '(' :: pointBody nc t.c [')'])) := by
  simp [showTensor, showPoint, pointBody]

/-- `fromStringByIndex` recovers a printed tensor -/
theorem parseTensor_showTensor {nc : NumCodec} {dom : Rat → Prop} (hg : nc.Good dom) {t : T9}
    (ht : T9.dom dom t) : parseTensor nc (showTensor nc t) = t := by
  obtain ⟨ha, hb, hc⟩ := ht
  unfold parseTensor
  rw [showTensor_eq]
  generalize hw : ('t' :: 'e' :: 'n' :: 's' :: 'o' :: 'r' :: '(' :: '(' ::
      pointBody nc t.a (',' :: ' ' :: '(' :: pointBody nc t.b (',' :: ' ' :: '(' :: pointBody nc t.c [')']))) = whole
  have e0 : skipPast whole '(' whole = '(' ::
      pointBody nc t.a (',' :: ' ' :: '(' :: pointBody nc t.b (',' :: ' ' :: '(' :: pointBody nc t.c [')'])) := by
    rw [← hw]; simp [skipPast, splitAtChar]
  simp only [e0]
  have e1 : ∀ r, skipPast whole '(' ('(' :: r) = r := by intro r; simp [skipPast, splitAtChar]
  have e2 : ∀ r, skipPast whole ',' (',' :: r) = r := by intro r; simp [skipPast, splitAtChar]
  have e3 : ∀ r, skipPast whole '(' (' ' :: '(' :: r) = r := by intro r; simp [skipPast, splitAtChar]
  rw [e1, parseTriple_pointBody hg ha]
  simp only
  rw [e2, e3, parseTriple_pointBody hg hb]
  simp only
  rw [e2, e3, parseTriple_pointBody hg hc]

/-! ## The executable codec on integers: `atoi (sprintf "%i" n) = n` -/

end Sympler.DataFormat
