import Sympler.GridLinksGeomOK

/-!
**The link list and the outlet geometry of the grid built by `cellSubdivide` — for every cutoff, box and periodicity.**

* `subdivide_linksOK`: the executable check `linksOKb` of `Sympler/GridChecks.lean` ("the link list is complete and
  unique") holds for every grid that `Sympler.Grid.subdivide` returns.
* `subdivide_geomOK`: `GeomOK` holds for every such grid if the box has positive side lengths
  (`subdivide_geomOK_of_cutoff`: or if the cutoff is positive, which implies it).
* `staticChecks_of_subdivide`: all static checks hold.

The proof: `Sympler/GridLinksGeo.lean` (tables, wrap-around, `TOCELLINDEX`, mirror property of the neighbour
relation), `Sympler/GridLinksInv.lean` (loop invariant), `Sympler/GridLinksSpec.lean` (`init()` loop, specification),
`Sympler/GridLinksGeomOK.lean` (outlet geometry).  Core Lean only.
-/
namespace Sympler.Grid
open Sympler Sympler.Cells Sympler.Gen.CellTables

/-- the propositional form of `subdivide_linksOK` (for any lower corner) -/
theorem subdivide_linksSpec {cutoff : Rat} {c1 c2 : V3 Rat} {per : V3 Bool} {G : Grid}
    (h : subdivide cutoff c1 c2 per = some G) : LinksSpec G per G.cells.size := by
  obtain ⟨nc, hnc, _, rfl⟩ := subdivide_eq h
  exact (buildGrid_linksSpec nc c1 c2 _ _ per hnc).2.2

/-- **the link list that `cellSubdivide` builds is complete and unique, for every cutoff, box and periodicity** -/
theorem subdivide_linksOK {cutoff : Rat} {box : V3 Rat} {per : V3 Bool} {G : Grid}
    (h : subdivide cutoff (0, 0, 0) box per = some G) : linksOKb G per = true :=
  linksSpec_linksOKb (subdivide_linksSpec h)

/-- the same for an arbitrary lower corner of the box -/
theorem subdivide_linksOK' {cutoff : Rat} {c1 c2 : V3 Rat} {per : V3 Bool} {G : Grid}
    (h : subdivide cutoff c1 c2 per = some G) : linksOKb G per = true :=
  linksSpec_linksOKb (subdivide_linksSpec h)

/-- **`GeomOK` for every grid that `cellSubdivide` builds from a box with positive side lengths** (any cutoff — a
cutoff `≤ 0` gives two cells per direction — and any periodicity) -/
theorem subdivide_geomOK' {cutoff : Rat} {c1 c2 : V3 Rat} {per : V3 Bool} {G : Grid}
    (h : subdivide cutoff c1 c2 per = some G) (hbox : c1.1 < c2.1 ∧ c1.2.1 < c2.2.1 ∧ c1.2.2 < c2.2.2) :
    GeomOK G per := by
  obtain ⟨nc, hnc, _, rfl⟩ := subdivide_eq h
  exact buildGrid_geomOK nc c1 c2 _ per hnc hbox

theorem subdivide_geomOK {cutoff : Rat} {box : V3 Rat} {per : V3 Bool} {G : Grid}
    (h : subdivide cutoff (0, 0, 0) box per = some G) (hbox : 0 < box.1 ∧ 0 < box.2.1 ∧ 0 < box.2.2) :
    GeomOK G per :=
  subdivide_geomOK' h hbox

/-- the hypothesis of `subdivide_geomOK` cannot be dropped: with a cutoff `≤ 0` (two cells per direction) and a box
with negative side lengths `subdivide` succeeds (and `linksOKb` holds by `subdivide_linksOK`) but `GeomOK` fails -/
theorem geomOK_needs_positive_box :
    ∃ G, subdivide 0 (0, 0, 0) (-2, -2, -2) (true, true, true) = some G ∧ ¬ GeomOK G (true, true, true) := by
  cases h : subdivide 0 (0, 0, 0) (-2, -2, -2) (true, true, true) with
  | none => exact absurd h (by decide +kernel)
  | some G =>
    refine ⟨G, rfl, ?_⟩
    have : (match subdivide 0 (0, 0, 0) (-2, -2, -2) (true, true, true) with
      | some G => decide (GeomOK G (true, true, true)) | none => true) = false := by
      set_option maxRecDepth 1000000 in decide +kernel
    rw [h] at this
    simpa using this

/-! ### a positive cutoff implies a box with positive side lengths -/

theorem two_le_of_truncRat {q : Rat} (h : 2 ≤ truncRat q) : 2 ≤ q := by
  unfold truncRat at h
  split at h
  · have h1 := Rat.floor_le q
    have h2 : ((2 : Int) : Rat) ≤ (q.floor : Rat) := Rat.intCast_le_intCast.mpr h
    have h3 : ((2 : Int) : Rat) = 2 := by simp
    grind
  · rename_i hq
    have : (0 : Int) ≤ (-q).floor := Rat.le_floor_iff.mpr (by simp only [Rat.intCast_zero]; grind)
    omega

theorem pos_of_two_le_div {d cutoff : Rat} (hc : 0 < cutoff) (h : 2 ≤ d / cutoff) : 0 < d := by
  have e : d / cutoff * cutoff = d := Rat.div_mul_cancel (by grind)
  have : 0 < d / cutoff * cutoff := Rat.mul_pos (by grind) hc
  rw [e] at this
  exact this

theorem box_pos_of_subdivide {cutoff : Rat} {c1 c2 : V3 Rat} {per : V3 Bool} {G : Grid} (hc : 0 < cutoff)
    (h : subdivide cutoff c1 c2 per = some G) : c1.1 < c2.1 ∧ c1.2.1 < c2.2.1 ∧ c1.2.2 < c2.2.2 := by
  obtain ⟨nc, ⟨n1, n2, n3⟩, e, _⟩ := subdivide_eq h
  have hc' : cutoff > 0 := hc
  rw [e] at n1 n2 n3
  simp only [V3.map, V3.sub, V3.map2, hc', if_true] at n1 n2 n3
  have p1 := pos_of_two_le_div hc (two_le_of_truncRat n1)
  have p2 := pos_of_two_le_div hc (two_le_of_truncRat n2)
  have p3 := pos_of_two_le_div hc (two_le_of_truncRat n3)
  refine ⟨by grind, by grind, by grind⟩

/-- `GeomOK` for every grid that `cellSubdivide` builds with a positive cutoff -/
theorem subdivide_geomOK_of_cutoff {cutoff : Rat} {box : V3 Rat} {per : V3 Bool} {G : Grid} (hc : 0 < cutoff)
    (h : subdivide cutoff (0, 0, 0) box per = some G) : GeomOK G per :=
  subdivide_geomOK' h (box_pos_of_subdivide hc h)

/-! ### all static checks -/

theorem linksSpec_outSingle {G : Grid} {per : V3 Bool} (h : LinksSpec G per G.cells.size) : OutSingle G := by
  intro c hc n hn
  cases ht : nbr G.nc G.cells per c n with
  | some t => rw [(h.slot_some c n t hc hn ht).2.2]; simp
  | none => rw [(h.slot_none c n hc hn ht).2]; simp

/-- converse of `gridOKb_sound` -/
theorem gridOKb_complete {G : Grid} (h : GridOK G) (ho : OutSingle G) : gridOKb G = true := by
  unfold gridOKb
  rw [List.all_eq_true]
  intro c hc
  rw [List.mem_range] at hc
  rw [Bool.and_eq_true, Bool.and_eq_true]
  refine ⟨⟨?_, ?_⟩, ?_⟩
  · rw [List.all_eq_true]
    intro l hl
    rw [decide_eq_true_eq]
    apply Classical.byContradiction
    intro hlt
    have := h.notify c hc l
    rw [if_neg hlt] at this
    exact (List.count_eq_zero.mp this) hl
  · rw [List.all_eq_true]
    intro l hl
    rw [List.mem_range] at hl
    rw [beq_iff_eq, h.notify c hc l, if_pos hl]
  · rw [List.all_eq_true]
    intro n hn
    rw [List.mem_range] at hn
    rw [Bool.and_eq_true, List.all_eq_true, decide_eq_true_eq]
    refine ⟨?_, ho c hc n hn⟩
    intro t ht
    rw [decide_eq_true_eq]
    exact h.out_lt c hc n hn t ht

/-- **all static checks hold for every grid that `cellSubdivide(cutoff, 0, box, per)` builds** from a box with
positive side lengths: `staticChecks` is `true` whenever `subdivide` does not fail -/
theorem staticChecks_of_subdivide {cutoff : Rat} {box : V3 Rat} {per : V3 Bool} {G : Grid}
    (h : subdivide cutoff (0, 0, 0) box per = some G) (hbox : 0 < box.1 ∧ 0 < box.2.1 ∧ 0 < box.2.2) :
    staticChecks cutoff box per = true := by
  have hspec := subdivide_linksSpec h
  have hgeo := subdivide_geomOK h hbox
  unfold staticChecks
  rw [h]
  simp only [Bool.and_eq_true, decide_eq_true_eq, beq_iff_eq]
  refine ⟨⟨⟨gridOKb_complete (subdivide_gridOK h) (linksSpec_outSingle hspec), linksSpec_linksOKb hspec⟩, hgeo⟩, ?_⟩
  rw [hspec.geo.prod]
  simp

/-- the same with a positive cutoff instead of the positive box -/
theorem staticChecks_of_subdivide_cutoff {cutoff : Rat} {box : V3 Rat} {per : V3 Bool} {G : Grid} (hc : 0 < cutoff)
    (h : subdivide cutoff (0, 0, 0) box per = some G) : staticChecks cutoff box per = true :=
  staticChecks_of_subdivide h (box_pos_of_subdivide hc h)

/-- with a positive cutoff, `staticChecks` fails exactly when `cellSubdivide` reports "Box length too small" -/
theorem staticChecks_iff_subdivide {cutoff : Rat} {box : V3 Rat} {per : V3 Bool} (hc : 0 < cutoff) :
    staticChecks cutoff box per = true ↔ (subdivide cutoff (0, 0, 0) box per).isSome = true := by
  constructor
  · intro h
    unfold staticChecks at h
    cases hs : subdivide cutoff (0, 0, 0) box per with
    | none => rw [hs] at h; simp at h
    | some G => rfl
  · intro h
    cases hs : subdivide cutoff (0, 0, 0) box per with
    | none => rw [hs] at h; simp at h
    | some G => exact staticChecks_of_subdivide_cutoff hc hs

end Sympler.Grid
