import Sympler.Expr

/-!
# C03 — surface syntax: expressions as a user writes them

`SE` is an expression tree with explicit brackets; `SE.render` writes it without adding any bracket;
`SE.toTree` is the tree it stands for (brackets erased).  `SE.ok` is the grammar of the real parser:
one precedence level per binary operator in the order of the generated table
(`+ - * / : ° @ ^`, loosest first), every operator left-associative, a unary minus in front of a term
of level `*` or tighter.  `ExprSurfaceLemmas.parse_render_sym`: `parse (render e) = toTree e`.

Core Lean only.
-/
namespace Sympler.Expr

open Sympler.Gen

/-- the character of a binary operator -/
def BinOp.ch : BinOp → Char
  | .add => '+' | .sub => '-' | .mul => '*' | .div => '/'
  | .contract => ':' | .dot => '°' | .outer => '@' | .pow => '^'

/-- precedence = position in the generated table (registration order inside a priority) -/
def BinOp.prec : BinOp → Nat
  | .add => 0 | .sub => 1 | .mul => 2 | .div => 3
  | .contract => 4 | .dot => 5 | .outer => 6 | .pow => 7

def BinOp.all : List BinOp := [.add, .sub, .mul, .div, .contract, .dot, .outer, .pow]

/-- surface expressions -/
inductive SE
  /-- a name, a number, `[name]`, `{name}` -/
  | atom (s : List Char)
  /-- `f(e)` -/
  | fn (f : Fn) (e : SE)
  /-- `(e)` -/
  | paren (e : SE)
  /-- `-e` -/
  | neg (e : SE)
  /-- `a op b` -/
  | bin (op : BinOp) (a b : SE)
  deriving Repr

namespace SE

def render : SE → List Char
  | atom s => s
  | fn f e => f.name.toList ++ ('(' :: (e.render ++ [')']))
  | paren e => '(' :: (e.render ++ [')'])
  | neg e => '-' :: e.render
  | bin op a b => a.render ++ (op.ch :: b.render)

/-- level of the outermost construct: `8` for atoms, function applications and bracketed expressions,
`1` (that of the binary `-`) for a unary minus -/
def lvl : SE → Nat
  | atom _ => 8
  | fn _ _ => 8
  | paren _ => 8
  | neg _ => 1
  | bin op _ _ => op.prec

/-- An atom the parser takes as a whole: not empty, no bracket, and no operator or function name is
found in it by the parser's own search (`selectFactory`).  This is the decidable predicate that
excludes NAME CLASHES (`Temp`, `expo`, `absa`, `a-b`, …). -/
def atomOK (s : List Char) : Bool :=
  !s.isEmpty && s.all (fun c => c != '(' && c != ')') && (selectFactory factories s).isNone

/-- the characters of the binary operators -/
def isOpCh (c : Char) : Bool := BinOp.all.any (fun o => o.ch == c)

/-- A function name the parser recognises in front of a bracket: it is the name of the function in the
table, contains no bracket and no operator character, and the parser's search selects exactly this
function at position 0. -/
def fnOK (f : Fn) : Bool :=
  decide (Fn.ofName f.name = some f) &&
    f.name.toList.all (fun c => c != '(' && c != ')' && !isOpCh c) &&
    decide (selectFactory factories (f.name.toList ++ ['(', ')']) = some (⟨f.name.toList, false⟩, 0))

/-- the grammar of the parser -/
def ok : SE → Bool
  | atom s => atomOK s
  | fn f e => fnOK f && e.ok
  | paren e => e.ok
  | neg e => e.ok && decide (2 ≤ e.lvl)
  | bin op a b => a.ok && b.ok && decide (op.prec ≤ a.lvl) && decide (op.prec + 1 ≤ b.lvl)

/-- the tree an expression stands for; `known` = declared symbols.  The operands of a binary operator
are resolved right to left, as `parseThis` does. -/
def toTree (known : String → Bool) : SE → Except Err Tree
  | atom s => valueFromString known s
  | fn f e => do let a ← e.toTree known; pure (.fn f a)
  | paren e => e.toTree known
  | neg e => do let a ← e.toTree known; pure (.neg a)
  | bin op a b => do
    let tb ← b.toTree known
    let ta ← a.toTree known
    pure (.bin op ta tb)

/-! ## The usual grammar

`+` and `-` share a level, `*` and `/` share a level (both left-associative); the tensor operators and
`^` as in the table.  A unary minus is the sign of the first term of a sum. -/

/-- level in the usual grammar: `0` sum, `2` product, `4 5 6` tensor operators, `7` power, `8` atom -/
def ulvl : SE → Nat
  | atom _ => 8
  | fn _ _ => 8
  | paren _ => 8
  | neg _ => 0
  | bin op _ _ =>
    match op with
    | .add => 0 | .sub => 0 | .mul => 2 | .div => 2
    | .contract => 4 | .dot => 5 | .outer => 6 | .pow => 7

def uprec (op : BinOp) : Nat := (bin op (atom []) (atom [])).ulvl

/-- the usual grammar: left operand of the same level or tighter, right operand strictly tighter -/
def okU : SE → Bool
  | atom s => atomOK s
  | fn f e => fnOK f && e.okU
  | paren e => e.okU
  | neg e => e.okU && decide (2 ≤ e.ulvl)
  | bin op a b => a.okU && b.okU && decide (uprec op ≤ a.ulvl) && decide (uprec op + 1 ≤ b.ulvl)

/-- `(a1 + a2) - b` is read by the parser as `a1 + (a2 - b)` -/
def subR (a b : SE) : SE :=
  match a with
  | bin .add a1 a2 => bin .add a1 (bin .sub a2 b)
  | _ => bin .sub a b

/-- `(a1 * a2) / b` is read by the parser as `a1 * (a2 / b)` -/
def divR (a b : SE) : SE :=
  match a with
  | bin .mul a1 a2 => bin .mul a1 (bin .div a2 b)
  | _ => bin .div a b

/-- the tree the parser builds for the text of an expression of the usual grammar: same text, the
groups of a sum / of a product re-associated -/
def resym : SE → SE
  | atom s => atom s
  | fn f e => fn f e.resym
  | paren e => paren e.resym
  | neg e => neg e.resym
  | bin op a b =>
    match op with
    | .sub => subR a.resym b.resym
    | .div => divR a.resym b.resym
    | op => bin op a.resym b.resym

end SE

end Sympler.Expr
