import Sympler.DataFormatErrors
import Sympler.DataFormatText
/-!
# Auxiliary definitions and lemmas for `Props/C14.lean`

`reach`, inversion of `step` for single operations, the value-level text round trip.
Core Lean only.
-/
namespace Sympler.DataFormat

/-- the error an operation ends in, if any -/
def errOf {α : Type} : Except Err α → Option Err
  | .error e => some e
  | .ok _ => none

/-- the state reached by a list of operations -/
abbrev reach (al : Option Nat) (nc : NumCodec) (ops : List Op) : State := run al nc State.init ops

theorem reach_inv (al : Option Nat) (nc : NumCodec) (ops : List Op) : Inv al (reach al nc ops) :=
  Inv.run ops (Inv.init al)

theorem step_dadd {al : Option Nat} {nc : NumCodec} {s s' : State} {d : Nat} {name symbol : String} {t : DType}
    {pers : Bool} {o : Out} (h : step al nc s (.dadd d name t pers symbol) = .ok (s', o)) :
    ∃ a, dataAddAttribute al s d name t pers symbol = .ok (s', a) ∧ o = .attr a := by
  simp only [DataFormat.step] at h
  split at h
  · cases h
  · rename_i s1 a hc
    simp only [Except.ok.injEq, Prod.mk.injEq] at h
    exact ⟨a, by rw [← h.1]; exact hc, h.2.symm⟩

theorem step_copy {al : Option Nat} {nc : NumCodec} {s s' : State} {e : Nat} {o : Out}
    (h : step al nc s (.copy e) = .ok (s', o)) : ∃ id, copyData s e = .ok (s', id) ∧ o = .data id := by
  simp only [DataFormat.step] at h
  split at h
  · cases h
  · rename_i s1 id hc
    simp only [Except.ok.injEq, Prod.mk.injEq] at h
    exact ⟨id, by rw [← h.1]; exact hc, h.2.symm⟩

theorem step_assign {al : Option Nat} {nc : NumCodec} {s s' : State} {d e : Nat} {o : Out}
    (h : step al nc s (.assign d e) = .ok (s', o)) : assignData s d e = .ok s' := by
  simp only [DataFormat.step] at h
  split at h
  · cases h
  · rename_i s1 hc
    simp only [Except.ok.injEq, Prod.mk.injEq] at h
    rw [← h.1]; exact hc

theorem step_clear {al : Option Nat} {nc : NumCodec} {s s' : State} {d : Nat} {o : Out}
    (h : step al nc s (.clear d) = .ok (s', o)) : clearData false s d = .ok s' := by
  simp only [DataFormat.step] at h
  split at h
  · cases h
  · rename_i s1 hc
    simp only [Except.ok.injEq, Prod.mk.injEq] at h
    rw [← h.1]; exact hc

theorem step_clearall {al : Option Nat} {nc : NumCodec} {s s' : State} {d : Nat} {o : Out}
    (h : step al nc s (.clearall d) = .ok (s', o)) : clearData true s d = .ok s' := by
  simp only [DataFormat.step] at h
  split at h
  · cases h
  · rename_i s1 hc
    simp only [Except.ok.injEq, Prod.mk.injEq] at h
    rw [← h.1]; exact hc

/-- the values on which the number codec is assumed to round-trip -/
def RVal.inDom (dom : Rat → Prop) (idom : Int → Prop) : RVal → Prop
  | .int n => idom n
  | .dbl x => dom x
  | .pt p => P3.dom dom p
  | .tens t => T9.dom dom t
  | _ => True

theorem roundtrip_val {nc : NumCodec} {dom : Rat → Prop} {idom : Int → Prop} (hg : nc.Good dom)
    (hi : ∀ n, idom n → nc.atoi (nc.fmtI n) = n) {t : DType} {r : RVal} {txt : List Char} {v : Val}
    (hdom : RVal.inDom dom idom r) (htt : toText nc t r = .ok txt) (hv : fromText nc t txt = .ok v) :
    v.toR = some r := by
  unfold toText at htt
  split at htt
  · injection htt with htt; subst htt
    simp only [fromText, Except.ok.injEq] at hv; subst hv
    simp [Val.toR, hi _ hdom]
  · injection htt with htt; subst htt
    simp only [fromText, Except.ok.injEq] at hv; subst hv
    simp [Val.toR, hg.atof_fmtG _ hdom]
  · injection htt with htt; subst htt
    simp only [fromText, Except.ok.injEq] at hv; subst hv
    simp [Val.toR, parsePoint_showPoint hg hdom]
  · injection htt with htt; subst htt
    simp only [fromText, Except.ok.injEq] at hv; subst hv
    simp [Val.toR, parseTensor_showTensor hg hdom]
  · injection htt with htt; subst htt
    simp only [fromText, Except.ok.injEq] at hv; subst hv
    simp [Val.toR]
  · simp [fromText] at hv
  · simp [fromText] at hv
  · simp [fromText] at hv
  · cases htt

theorem toStrData_ok {nc : NumCodec} {s : State} {d i : Nat} {txt : List Char} (h : toStrData nc s d i = .ok txt) :
    ∃ (l : AttrAt) (r : RVal), s.attrAt d i = .ok l ∧ s.read d i = .ok r ∧ toText nc l.attr.dtype r = .ok txt := by
  unfold toStrData at h
  split at h
  · cases h
  · rename_i l hl
    split at h
    · cases h
    · split at h
      · cases h
      · rename_i b v hslot
        split at h
        · cases h
        · cases h
        · rename_i r hr
          refine ⟨l, r, hl, ?_, h⟩
          unfold State.read
          rw [hl]
          simp only [hslot, hr]

theorem writeVal_leaked {s s' : State} {l : AttrAt} {d i : Nat} {v : Val} (h : writeVal s l d i v = .ok s') :
    s'.leaked = s.leaked := by
  unfold writeVal at h
  repeat' split at h
  all_goals first | (cases h; rfl) | cases h

theorem protectData_leaked {s s' : State} {p : Bool} {d i : Nat} (h : protectData p s d i = .ok s') :
    s'.leaked = s.leaked := by
  unfold protectData at h
  repeat' split at h
  all_goals first | (cases h; rfl) | cases h

theorem pushData_leaked {s s' : State} {d i : Nat} {e : Elem} (h : pushData s d i e = .ok s') :
    s'.leaked = s.leaked := by
  unfold pushData at h
  repeat' split at h
  all_goals first | (cases h; rfl) | cases h

/-- the ghost list of leaked cells is only ever extended by `operator=` -/
theorem leaked_step {al : Option Nat} {nc : NumCodec} {s s' : State} {op : Op} {o : Out}
    (h : step al nc s op = .ok (s', o)) (hop : ∀ d e, op ≠ .assign d e) : s'.leaked = s.leaked := by
  cases op with
  | assign d e => exact absurd rfl (hop d e)
  | copy e =>
    obtain ⟨id, hc, _⟩ := step_copy h
    obtain ⟨_, _, _, hcases⟩ := copyData_ok_cases hc
    rcases hcases with ⟨_, hs1⟩ | ⟨_, _, _, _, _, hs1⟩ | ⟨_, _, _, _, _, _, _, _, _, _, _, _, _, hs1⟩ <;> rw [hs1]
  | dadd d name t pers symbol =>
    obtain ⟨a, hd, _⟩ := step_dadd h
    obtain ⟨_, _, _, _, _, _, _, _, hcases⟩ := dataAddAttribute_ok_cases hd
    rcases hcases with ⟨_, hs1⟩ | ⟨_, _, _, _, ⟨_, _, hs1⟩ | ⟨_, hs1⟩⟩ <;> rw [hs1] <;> rfl
  | clear d =>
    have hc := step_clear h
    unfold clearData at hc
    repeat' split at hc
    all_goals first | (cases hc; rfl) | cases hc
  | clearall d =>
    have hc := step_clearall h
    unfold clearData at hc
    repeat' split at hc
    all_goals first | (cases hc; rfl) | cases hc
  | protect d i =>
    simp only [DataFormat.step] at h
    split at h
    · cases h
    · rename_i s1 hc
      simp only [Except.ok.injEq, Prod.mk.injEq] at h
      rw [← h.1]; exact protectData_leaked hc
  | unprotect d i =>
    simp only [DataFormat.step] at h
    split at h
    · cases h
    · rename_i s1 hc
      simp only [Except.ok.injEq, Prod.mk.injEq] at h
      rw [← h.1]; exact protectData_leaked hc
  | set d i v =>
    simp only [DataFormat.step] at h
    split at h
    · cases h
    · split at h
      · cases h
      · split at h
        · cases h
        · rename_i s1 hw
          simp only [Except.ok.injEq, Prod.mk.injEq] at h
          rw [← h.1]; exact writeVal_leaked hw
  | push d i e =>
    simp only [DataFormat.step] at h
    split at h
    · cases h
    · rename_i s1 hc
      simp only [Except.ok.injEq, Prod.mk.injEq] at h
      rw [← h.1]; exact pushData_leaked hc
  | fromstr d i text =>
    simp only [DataFormat.step] at h
    split at h
    · cases h
    · rename_i s1 hc
      simp only [Except.ok.injEq, Prod.mk.injEq] at h
      rw [← h.1]
      unfold fromStrData at hc
      split at hc
      · cases hc
      · split at hc
        · cases hc
        · exact writeVal_leaked hc
  | _ =>
    simp only [DataFormat.step] at h
    repeat' split at h
    all_goals first | (cases h; rfl) | cases h

def Op.isAssign : Op → Bool
  | .assign _ _ => true
  | _ => false

theorem run_leaked {al : Option Nat} {nc : NumCodec} (ops : List Op) (hno : ∀ op ∈ ops, op.isAssign = false) :
    ∀ s : State, (run al nc s ops).leaked = s.leaked := by
  induction ops with
  | nil => intro s; rfl
  | cons op ops ih =>
    intro s
    have hno' : ∀ op' ∈ ops, op'.isAssign = false := fun op' h => hno op' (List.mem_cons_of_mem _ h)
    have hop : ∀ d e, op ≠ .assign d e := by
      intro d e he
      have := hno op (List.mem_cons_self ..)
      rw [he] at this; cases this
    unfold DataFormat.run
    split
    · rename_i s' o hstep
      rw [ih hno' s', leaked_step hstep hop]
    · split
      · rfl
      · exact ih hno' s

end Sympler.DataFormat
