import Sympler.Basic
import Sympler.Gen.VerletGen

/-!
Executable model of the rebuild decision and of the refresh branch of
`VerletCreator::createDistances` (/repo/source/src/basic/verlet_creator.cpp).

All arithmetic comes from the GENERATED file `Sympler/Gen/VerletGen.lean`
(`scanBody`, `everyDecision`, `counterAfterRebuild`, `counterAfterRefresh`, `refreshWrap`);
this file only adds the loop structure around it:

* `scan`      — the displacement scan (`m_every == 0` branch): the loop over colours merely
                concatenates the per-colour particle lists (`max_disp`, `max2`, `newList` are declared
                outside of both loops and persist), so the model takes ONE list of displacement
                magnitudes `tempDisp` in storage order; `if(newList) break;` in the particle loop plus
                `if(newList) break;` in the colour loop = early exit of the whole scan.
* `scanOld`   — the same loop with the body as it was BEFORE commit
                "fix: VerletCreator displacement scan lost the second-largest displacement"
                (hand written, kept for the regression witness in `Props/C02.lean`).
* `everyStep` / `everyRun` — the counter state machine of the `m_every > 0` branch.
* `refreshVec` — the three-component wrap of the refresh branch.

Core Lean only.
-/
namespace Sympler.Verlet
open Sympler.Gen.Verlet

/-- The particle loop of the displacement scan, started in state `(max_disp, max2)`, over the
remaining displacement magnitudes.  Result = value of `newList` after the loop
(`newList` is `false` before the loop, is overwritten in every iteration, and the loop is left
as soon as it is `true`). -/
def scanLoop (skin : Rat) (max_disp max2 : Rat) : List Rat → Bool
  | [] => false
  | tempDisp :: rest =>
    match scanBody skin max_disp max2 tempDisp with
    | (max_disp', max2', newList) =>
      if newList then true else scanLoop skin max_disp' max2' rest

/-- `createDistances`, branch `m_every == 0`: `double max_disp = 0; double max2 = 0;` then the loop. -/
def scan (skin : Rat) (ms : List Rat) : Bool := scanLoop skin 0 0 ms

/-- PRE-FIX loop body: a new maximum overwrites `max_disp` WITHOUT demoting the old maximum
to `max2` (`if (max_disp < tempDisp) max_disp = tempDisp; else if (max2 < tempDisp) max2 = tempDisp;`). -/
def scanBodyOld (m_skin_size : Rat) (max_disp max2 : Rat) (tempDisp : Rat) : Rat × Rat × Bool :=
  let (max_disp, max2) :=
    if max_disp < tempDisp then
      let max_disp := tempDisp
      (max_disp, max2)
    else if max2 < tempDisp then
      let max2 := tempDisp
      (max_disp, max2)
    else (max_disp, max2)
  let newList := decide ((max_disp + max2) ≥ m_skin_size)
  (max_disp, max2, newList)

def scanOldLoop (skin : Rat) (max_disp max2 : Rat) : List Rat → Bool
  | [] => false
  | tempDisp :: rest =>
    match scanBodyOld skin max_disp max2 tempDisp with
    | (max_disp', max2', newList) =>
      if newList then true else scanOldLoop skin max_disp' max2' rest

/-- The displacement scan as it was before the fix. -/
def scanOld (skin : Rat) (ms : List Rat) : Bool := scanOldLoop skin 0 0 ms

/-- One call of `createDistances` (with `!m_valid_dist`) in counter mode (`m_every > 0`):
`newList = !m_counter || m_counter == m_every`; then `m_counter = 1` on rebuild, `++m_counter`
on refresh.  Returns the decision and the new counter. -/
def everyStep (every : Nat) (counter : Nat) : Bool × Nat :=
  let newList := everyDecision counter every
  (newList, if newList then counterAfterRebuild else counterAfterRefresh counter)

/-- decisions of `n` consecutive calls starting from counter value `counter` -/
def everyRunFrom (every : Nat) : Nat → Nat → List Bool
  | 0, _ => []
  | n + 1, counter =>
    let r := everyStep every counter
    r.1 :: everyRunFrom every n r.2

/-- decisions of the calls `0 … n-1`; `m_counter = 0` from `VerletCreator::init` -/
def everyRun (every n : Nat) : List Bool := everyRunFrom every n 0

/-- refresh branch: `for dir: size = boxSize[dir]; if(c > 0.5*size) c -= size; if(c < -0.5*size) c += size;`
(applied to all three directions, whether periodic or not — see
`Gen.Verlet.refreshWrapGuardedByPeriodicity`). -/
def refreshVec (box : Rat × Rat × Rat) (d : Rat × Rat × Rat) : Rat × Rat × Rat :=
  (refreshWrap box.1 d.1, refreshWrap box.2.1 d.2.1, refreshWrap box.2.2 d.2.2)

/-! ### line-protocol driver -/

def parseRats (ws : List String) : Option (List Rat) := ws.mapM parseRat

def showBit (b : Bool) : String := if b then "1" else "0"

/-- one request line → one answer line -/
def answer (ws : List String) : String :=
  match ws with
  | "scan" :: skin :: ms =>
    match parseRat skin, parseRats ms with
    | some s, some l => "scan " ++ showBit (scan s l)
    | _, _ => "err:parse"
  | "scanold" :: skin :: ms =>
    match parseRat skin, parseRats ms with
    | some s, some l => "scanold " ++ showBit (scanOld s l)
    | _, _ => "err:parse"
  | ["every", e, n] =>
    match e.toNat?, n.toNat? with
    | some e, some n =>
      -- `setup` accepts every ≥ 0, and `every = 0` selects the displacement scan, not counter mode
      if e = 0 then "err:every"
      else (" ".intercalate ("every" :: (everyRun e n).map showBit))
    | _, _ => "err:parse"
  | ["wrap", size, c] =>
    match parseRat size, parseRat c with
    | some s, some c => "wrap " ++ showRat (refreshWrap s c)
    | _, _ => "err:parse"
  | ["wrapvec", bx, by', bz, dx, dy, dz] =>
    match parseRats [bx, by', bz, dx, dy, dz] with
    | some [bx, by', bz, dx, dy, dz] =>
      let r := refreshVec (bx, by', bz) (dx, dy, dz)
      "wrapvec " ++ showRat r.1 ++ "," ++ showRat r.2.1 ++ "," ++ showRat r.2.2
    | _ => "err:parse"
  | _ => "err:parse"

/-- Input lines (each answered by exactly one output line, in order; processing stops at `end`):
* `scan <skin> <m1> <m2> …`     → `scan <0|1>`      (post-fix loop; zero magnitudes allowed: `scan <skin>` → `scan 0`)
* `scanold <skin> <m1> …`       → `scanold <0|1>`   (pre-fix loop)
* `every <every> <nsteps>`      → `every <d0> <d1> …` (`every 0 n` → `err:every`)
* `wrap <size> <c>`             → `wrap <value>`
* `wrapvec <Lx> <Ly> <Lz> <dx> <dy> <dz>` → `wrapvec <x>,<y>,<z>`
* `end`
Rationals are `p` or `p/q`.  Malformed line → `err:parse`. -/
def driver : List String → List String
  | [] => []
  | l :: rest =>
    match words l with
    | ["end"] => []
    | ws => answer ws :: driver rest

end Sympler.Verlet
