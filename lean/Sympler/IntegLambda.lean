import Sympler.Basic
import Sympler.Gen.IntegLambdaGen
/-!
Model of the predictor-corrector integrators of user quantities (`IntegratorScalarLambda`, `IntegratorVectorLambda`,
`IntegratorTensorLambda`), one component, built from the kernels REGENERATED from the sources (`Sympler/Gen/IntegLambdaGen.lean`).

One time step of `Controller::integrate` as seen by such an integrator (order of the calls: `Sympler.Gen.Dyn.integrateOrder`):
  `integrateStep1`   x += dt·λ·F[cur]                         (predictor; F[cur] was computed in the previous step / at start)
  forces             F[other] := g(x, …)                      (evaluated at the PREDICTED value; `g` is arbitrary here)
  flip               cur ↔ other
  `integrateStep2`   x += dt·(½·F[cur] + (½−λ)·F[other])      (corrector)
-/
namespace Sympler.IntegLambda
open Sympler.Gen.IntegLambda

inductive Kind where
  | scalar | vector | tensor
  deriving DecidableEq, Repr

def step1 : Kind → Rat → Rat → Rat → Rat
  | .scalar => scalarStep1
  | .vector => vectorStep1
  | .tensor => tensorStep1

def step2 : Kind → Rat → Rat → Rat → Rat → Rat
  | .scalar => scalarStep2
  | .vector => vectorStep2
  | .tensor => tensorStep2

def lambdaDiff : Kind → Rat → Rat
  | .scalar => scalarLambdaDiff
  | .vector => vectorLambdaDiff
  | .tensor => tensorLambdaDiff

/-- value of the component and content of the current force buffer between two time steps -/
structure St where
  x : Rat
  f : Rat
  deriving Repr

/-- the value the forces of this step are evaluated at -/
def predicted (k : Kind) (dt lam : Rat) (s : St) : Rat := s.x + step1 k dt lam s.f

/-- one time step; `g` = the force as a function of the predicted value (everything else the force depends on is inside `g`) -/
def step (k : Kind) (dt lam : Rat) (g : Rat → Rat) (s : St) : St :=
  let xp := predicted k dt lam s
  let fNew := g xp
  { x := xp + step2 k dt (lambdaDiff k lam) fNew s.f, f := fNew }

/-- the forces are computed once before the first step -/
def init (g : Rat → Rat) (x0 : Rat) : St := { x := x0, f := g x0 }

/-- `n` time steps with a force law that may change from step to step (`g i` in step `i`) -/
def run (k : Kind) (dt lam : Rat) (g : Nat → Rat → Rat) : Nat → Nat → St → St
  | 0, _, s => s
  | n + 1, i, s => run k dt lam g n (i + 1) (step k dt lam (g i) s)

/-! driver: `run <scalar|vector|tensor> <dt> <lambda> <x0> <a> <b> <n>` with the force law g(x) = a·x + b → the value after every step -/

def values (k : Kind) (dt lam : Rat) (g : Rat → Rat) : Nat → St → List Rat
  | 0, _ => []
  | n + 1, s => let s' := step k dt lam g s; s'.x :: values k dt lam g n s'

def driver (lines : List String) : List String :=
  lines.filterMap fun l =>
    match Sympler.words l with
    | ["run", kind, dt, lam, x0, a, b, n] =>
      let k? : Option Kind := match kind with
        | "scalar" => some .scalar | "vector" => some .vector | "tensor" => some .tensor | _ => none
      match k?, Sympler.parseRat dt, Sympler.parseRat lam, Sympler.parseRat x0, Sympler.parseRat a, Sympler.parseRat b, n.toNat? with
      | some k, some dt, some lam, some x0, some a, some b, some n =>
        let g := fun x => a * x + b
        some (" ".intercalate ("values" :: (values k dt lam g n (init g x0)).map Sympler.showRat))
      | _, _, _, _, _, _, _ => some "err:parse"
    | [] => none
    | _ => some "err:parse"

end Sympler.IntegLambda
