import Sympler.DataFormat
/-!
# Lemmas about the `DataFormat` model (C14): sizes, layout invariant

Core Lean only.  The property theorems are in `Props/C14.lean`.
-/
namespace Sympler.DataFormat

open Sympler.Gen.DataFormat (alignRound)

/-! ## Sizes -/

theorem alignRound_eq (a s : Nat) : alignRound a s = ((s - 1) / 2 ^ a + 1) * 2 ^ a := by
  simp [alignRound, Nat.shiftLeft_eq, Nat.shiftRight_eq_div_pow]

theorem alignRound_dvd (a s : Nat) : 2 ^ a ∣ alignRound a s := by
  rw [alignRound_eq]; exact Nat.dvd_mul_left _ _

theorem le_alignRound (a s : Nat) : s ≤ alignRound a s := by
  rw [alignRound_eq]
  have hk : 0 < 2 ^ a := Nat.two_pow_pos a
  have h1 : (s - 1) < ((s - 1) / 2 ^ a + 1) * 2 ^ a := by
    have := Nat.lt_mul_div_succ (s - 1) hk
    rw [Nat.mul_comm] at this
    exact this
  omega

/-- `alignDataFor` is idempotent: calling it twice with the same argument changes nothing -/
theorem alignRound_idem (a s : Nat) : alignRound a (alignRound a s) = alignRound a s := by
  have hk : 0 < 2 ^ a := Nat.two_pow_pos a
  rw [alignRound_eq a (alignRound a s)]
  rw [alignRound_eq a s]
  generalize (s - 1) / 2 ^ a = q
  have : ((q + 1) * 2 ^ a - 1) / 2 ^ a = q := by
    apply Nat.div_eq_of_lt_le
    · have : q * 2 ^ a + 1 ≤ (q + 1) * 2 ^ a := by rw [Nat.add_mul]; omega
      omega
    · have : 0 < (q + 1) * 2 ^ a := Nat.mul_pos (by omega) hk
      omega
  rw [this]

theorem rawSize_pos (t : DType) : 0 < t.rawSize := by cases t <;> decide

theorem csize_pos (al : Option Nat) (t : DType) : 0 < csize al t := by
  cases al with
  | none => exact rawSize_pos t
  | some a => exact Nat.lt_of_lt_of_le (rawSize_pos t) (le_alignRound a _)

theorem rawSize_le_csize (al : Option Nat) (t : DType) : t.rawSize ≤ csize al t := by
  cases al with
  | none => exact Nat.le_refl _
  | some a => exact le_alignRound a _

theorem csize_dvd (a : Nat) (t : DType) : 2 ^ a ∣ csize (some a) t := alignRound_dvd a _

theorem cxxAlign_dvd_8 (t : DType) : t.cxxAlign ∣ 8 := by cases t <;> decide

theorem cxxAlign_pos (t : DType) : 0 < t.cxxAlign := by cases t <;> decide

/-! ## Layout -/

/-- sum of the (aligned) sizes of a list of attributes -/
def prefixSize (al : Option Nat) (l : List Attr) : Nat := (l.map fun a => csize al a.dtype).sum

@[simp] theorem prefixSize_nil (al : Option Nat) : prefixSize al [] = 0 := rfl

theorem prefixSize_append (al : Option Nat) (l₁ l₂ : List Attr) :
    prefixSize al (l₁ ++ l₂) = prefixSize al l₁ + prefixSize al l₂ := by
  simp [prefixSize, List.sum_append]

@[simp] theorem prefixSize_singleton (al : Option Nat) (a : Attr) :
    prefixSize al [a] = csize al a.dtype := by simp [prefixSize]

theorem prefixSize_take_succ (al : Option Nat) (l : List Attr) (i : Nat) (a : Attr)
    (h : l[i]? = some a) : prefixSize al (l.take (i + 1)) = prefixSize al (l.take i) + csize al a.dtype := by
  rw [List.take_add_one, h, prefixSize_append]; simp

theorem prefixSize_take_mono (al : Option Nat) (l : List Attr) {i j : Nat} (h : i ≤ j) :
    prefixSize al (l.take i) ≤ prefixSize al (l.take j) := by
  induction j with
  | zero => have : i = 0 := by omega
            subst this; exact Nat.le_refl _
  | succ j ih =>
    by_cases hij : i = j + 1
    · subst hij; exact Nat.le_refl _
    · have := ih (by omega)
      rw [List.take_add_one, prefixSize_append]; omega

theorem prefixSize_take_le (al : Option Nat) (l : List Attr) (i : Nat) :
    prefixSize al (l.take i) ≤ prefixSize al l := by
  have := prefixSize_take_mono al l (Nat.le_max_left i l.length)
  rwa [List.take_of_length_le (Nat.le_max_right i l.length)] at this

theorem prefixSize_dvd (a : Nat) (l : List Attr) : 2 ^ a ∣ prefixSize (some a) l := by
  induction l with
  | nil => exact Nat.dvd_zero _
  | cons x xs ih =>
    have : prefixSize (some a) (x :: xs) = csize (some a) x.dtype + prefixSize (some a) xs := by
      simp [prefixSize]
    rw [this]
    exact Nat.dvd_add (csize_dvd a _) ih

/-- two attributes are the same up to the `persistent` flag -/
def Attr.samePers (a b : Attr) : Prop :=
  a.name = b.name ∧ a.index = b.index ∧ a.offset = b.offset ∧ a.dtype = b.dtype ∧ a.symbol = b.symbol

/-- the invariant of a `DataFormat` -/
structure FormatOk (al : Option Nat) (f : Format) : Prop where
  index : ∀ (i : Nat) (a : Attr), f.byIndex[i]? = some a → a.index = i
  offset : ∀ (i : Nat) (a : Attr), f.byIndex[i]? = some a → a.offset = prefixSize al (f.byIndex.take i)
  size : f.size = prefixSize al f.byIndex
  /-- every entry of `m_attr_by_name` is the entry of `m_attr_by_index` with its index, up to
      `persistent` (which `protect/unprotect` change in `m_attr_by_index` only) -/
  byName : ∀ a : Attr, a ∈ f.byName → ∃ b, f.byIndex[a.index]? = some b ∧ a.samePers b
  /-- every attribute can be found by its name -/
  named : ∀ (i : Nat) (b : Attr), f.byIndex[i]? = some b → ∃ a : Attr, f.find b.name = some a ∧ a.samePers b

theorem FormatOk.empty (al : Option Nat) : FormatOk al Format.empty :=
  ⟨by simp [Format.empty], by simp [Format.empty], by simp [Format.empty],
   by simp [Format.empty], by simp [Format.empty]⟩

theorem Format.find_some_mem {f : Format} {n : String} {a : Attr} (h : f.find n = some a) :
    a ∈ f.byName ∧ a.name = n := by
  unfold Format.find at h
  have h1 := List.mem_of_find?_eq_some h
  have h2 := List.find?_some h
  exact ⟨h1, by simpa using h2⟩

theorem Format.find_append_of_some {f : Format} {n : String} {a x : Attr} (h : f.find n = some a) :
    (f.byName ++ [x]).find? (fun b => b.name == n) = some a := by
  unfold Format.find at h
  rw [List.find?_append, h]; rfl

/-- attribute `i` ends where attribute `i+1` starts, the last one ends at `size` -/
theorem FormatOk.end_le_size {al : Option Nat} {f : Format} (hf : FormatOk al f) {i : Nat} {a : Attr}
    (h : f.byIndex[i]? = some a) : a.offset + csize al a.dtype ≤ f.size := by
  rw [hf.offset i a h, hf.size, ← prefixSize_take_succ al _ i a h]
  exact prefixSize_take_le al _ _

/-- byte ranges of two different attributes do not overlap -/
theorem FormatOk.disjoint {al : Option Nat} {f : Format} (hf : FormatOk al f) {i j : Nat} {a b : Attr}
    (hi : f.byIndex[i]? = some a) (hj : f.byIndex[j]? = some b) (hij : i < j) :
    a.offset + csize al a.dtype ≤ b.offset := by
  rw [hf.offset i a hi, hf.offset j b hj, ← prefixSize_take_succ al _ i a hi]
  exact prefixSize_take_mono al _ (by omega)

theorem FormatOk.offset_dvd {a : Nat} {f : Format} (hf : FormatOk (some a) f) {i : Nat} {x : Attr}
    (h : f.byIndex[i]? = some x) : 2 ^ a ∣ x.offset := by
  rw [hf.offset i x h]; exact prefixSize_dvd a _

/-- after `alignDataFor(a)` with `a ≥ 3` every attribute is aligned for its C++ type -/
theorem FormatOk.aligned {a : Nat} (ha : 3 ≤ a) {f : Format} (hf : FormatOk (some a) f) {i : Nat} {x : Attr}
    (h : f.byIndex[i]? = some x) : 8 ∣ x.offset ∧ x.misaligned = false := by
  have h8 : 8 ∣ x.offset := by
    have h1 : (8 : Nat) ∣ 2 ^ a := by
      have : a = 3 + (a - 3) := by omega
      rw [this, Nat.pow_add]; exact Nat.dvd_mul_right _ _
    exact Nat.dvd_trans h1 (hf.offset_dvd h)
  refine ⟨h8, ?_⟩
  have := Nat.dvd_trans (cxxAlign_dvd_8 x.dtype) h8
  simp [Attr.misaligned, Nat.mod_eq_zero_of_dvd this]

theorem spMisaligned_false_of_aligned {a : Nat} (ha : 3 ≤ a) {f : Format} (hf : FormatOk (some a) f)
    (n : Nat) : spMisaligned (f.byIndex.take n) = false := by
  rw [spMisaligned, Bool.eq_false_iff]
  intro h
  rw [List.any_eq_true] at h
  obtain ⟨x, hx, hp⟩ := h
  obtain ⟨i, hi⟩ := List.mem_iff_getElem?.1 (List.mem_of_mem_take hx)
  have := (hf.aligned ha hi).2
  simp [this] at hp

/-! ### `addAttribute`, `setPersistent` keep the invariant -/

theorem Format.addAttribute_ok_cases {al : Option Nat} {f f' : Format} {n sym : String} {t : DType}
    {p : Bool} {a : Attr} (h : f.addAttribute al n t p sym = .ok (a, f')) :
    (f.find n = none ∧ a = ⟨n, f.byIndex.length, f.size, t, p, if sym == "" then n else sym⟩ ∧
      f' = ⟨f.byIndex ++ [a], f.byName ++ [a], f.size + csize al t⟩) ∨
    (f.find n = some a ∧ a.dtype = t ∧ f' = f) := by
  unfold Format.addAttribute at h
  split at h
  · left
    rename_i hfind
    simp only [Except.ok.injEq, Prod.mk.injEq] at h
    obtain ⟨h1, h2⟩ := h
    subst h1
    exact ⟨hfind, rfl, h2.symm⟩
  · right
    rename_i b hfind
    split at h
    · cases h
    · rename_i hne
      simp only [Except.ok.injEq, Prod.mk.injEq] at h
      obtain ⟨h1, h2⟩ := h
      subst h1 h2
      exact ⟨hfind, by simpa using hne, rfl⟩

theorem FormatOk.addAttribute {al : Option Nat} {f f' : Format} {n sym : String} {t : DType}
    {p : Bool} {a : Attr} (hf : FormatOk al f) (h : f.addAttribute al n t p sym = .ok (a, f')) :
    FormatOk al f' := by
  rcases Format.addAttribute_ok_cases h with ⟨hfind, ha, hf'⟩ | ⟨_, _, hf'⟩
  · subst hf'
    have hidx : a.index = f.byIndex.length := by rw [ha]
    have hoff : a.offset = f.size := by rw [ha]
    have hty : a.dtype = t := by rw [ha]
    have hname : a.name = n := by rw [ha]
    refine ⟨?_, ?_, ?_, ?_, ?_⟩
    · intro i x hx
      simp only [List.getElem?_append] at hx
      split at hx
      · exact hf.index i x hx
      · rename_i hge
        have : i = f.byIndex.length := by
          by_cases hi : i - f.byIndex.length = 0
          · omega
          · have : ([a] : List Attr)[i - f.byIndex.length]? = none := by
              apply List.getElem?_eq_none; simp; omega
            rw [this] at hx; cases hx
        subst this
        simp at hx; subst hx; exact hidx
    · intro i x hx
      simp only [List.getElem?_append] at hx
      split at hx
      · rename_i hlt
        rw [List.take_append_of_le_length (by omega)]
        exact hf.offset i x hx
      · rename_i hge
        have : i = f.byIndex.length := by
          by_cases hi : i - f.byIndex.length = 0
          · omega
          · have : ([a] : List Attr)[i - f.byIndex.length]? = none := by
              apply List.getElem?_eq_none; simp; omega
            rw [this] at hx; cases hx
        subst this
        simp at hx; subst hx
        rw [List.take_append_of_le_length (Nat.le_refl _), List.take_length, hoff, hf.size]
    · show f.size + csize al t = prefixSize al (f.byIndex ++ [a])
      rw [prefixSize_append, prefixSize_singleton, hf.size, hty]
    · intro x hx
      simp only [List.mem_append, List.mem_singleton] at hx
      rcases hx with hx | hx
      · obtain ⟨b, hb, hs⟩ := hf.byName x hx
        refine ⟨b, ?_, hs⟩
        have : x.index < f.byIndex.length := by
          have := (List.getElem?_eq_some_iff.1 hb).1; exact this
        rw [List.getElem?_append_left this]; exact hb
      · subst hx
        refine ⟨x, ?_, ⟨rfl, rfl, rfl, rfl, rfl⟩⟩
        rw [hidx]; simp
    · intro i b hb
      simp only [List.getElem?_append] at hb
      split at hb
      · obtain ⟨x, hx, hs⟩ := hf.named i b hb
        exact ⟨x, Format.find_append_of_some hx, hs⟩
      · rename_i hge
        have : i = f.byIndex.length := by
          by_cases hi : i - f.byIndex.length = 0
          · omega
          · have : ([a] : List Attr)[i - f.byIndex.length]? = none := by
              apply List.getElem?_eq_none; simp; omega
            rw [this] at hb; cases hb
        subst this
        simp at hb; subst hb
        refine ⟨a, ?_, ⟨rfl, rfl, rfl, rfl, rfl⟩⟩
        show (f.byName ++ [a]).find? (fun b => b.name == a.name) = some a
        rw [List.find?_append]
        have : f.byName.find? (fun b => b.name == a.name) = none := by
          rw [hname]; exact hfind
        rw [this]; simp
  · subst hf'; exact hf

theorem FormatOk.setPersistent {al : Option Nat} {f : Format} (hf : FormatOk al f) (i : Nat) (p : Bool) :
    FormatOk al (f.setPersistent i p) := by
  unfold Format.setPersistent
  split
  · exact hf
  · rename_i a ha
    have hlt : i < f.byIndex.length := (List.getElem?_eq_some_iff.1 ha).1
    have key : ∀ (j : Nat) (x : Attr), (f.byIndex.set i { a with persistent := p })[j]? = some x →
        ∃ y : Attr, f.byIndex[j]? = some y ∧ x.samePers y ∧ x.dtype = y.dtype := by
      intro j x hx
      rw [List.getElem?_set] at hx
      split at hx
      · rename_i hij
        subst hij
        simp at hx
        subst hx
        exact ⟨a, ha, ⟨rfl, rfl, rfl, rfl, rfl⟩, rfl⟩
      · exact ⟨x, hx, ⟨rfl, rfl, rfl, rfl, rfl⟩, rfl⟩
    have hps : ∀ k, prefixSize al ((f.byIndex.set i { a with persistent := p }).take k)
        = prefixSize al (f.byIndex.take k) := by
      intro k
      unfold prefixSize
      congr 1
      rw [List.map_take, List.map_take]
      congr 1
      apply List.ext_getElem?
      intro j
      simp only [List.getElem?_map, List.getElem?_set]
      split
      · rename_i hij; subst hij
        obtain ⟨_, hget⟩ := List.getElem?_eq_some_iff.1 ha
        simp [hlt, hget]
      · rfl
    refine ⟨?_, ?_, ?_, ?_, ?_⟩
    · intro j x hx
      obtain ⟨y, hy, hs, _⟩ := key j x hx
      rw [hs.2.1]; exact hf.index j y hy
    · intro j x hx
      obtain ⟨y, hy, hs, _⟩ := key j x hx
      show x.offset = prefixSize al ((f.byIndex.set i { a with persistent := p }).take j)
      rw [hps, hs.2.2.1]; exact hf.offset j y hy
    · show f.size = prefixSize al (f.byIndex.set i { a with persistent := p })
      have := hps (f.byIndex.length)
      rw [List.take_of_length_le (by simp), List.take_of_length_le (Nat.le_refl _)] at this
      rw [this]; exact hf.size
    · intro x hx
      obtain ⟨b, hb, hs⟩ := hf.byName x hx
      show ∃ b, (f.byIndex.set i { a with persistent := p })[x.index]? = some b ∧ x.samePers b
      rw [List.getElem?_set]
      split
      · rename_i hij
        rw [← hij] at hb
        rw [ha] at hb; cases hb
        exact ⟨{ a with persistent := p }, by simp,
          ⟨hs.1, hs.2.1, hs.2.2.1, hs.2.2.2.1, hs.2.2.2.2⟩⟩
      · exact ⟨b, hb, hs⟩
    · intro j b hb
      obtain ⟨y, hy, hs, _⟩ := key j b hb
      obtain ⟨x, hx, hxs⟩ := hf.named j y hy
      refine ⟨x, ?_, ?_⟩
      · show f.find b.name = some x
        rw [hs.1]; exact hx
      · exact ⟨hxs.1.trans hs.1.symm, hxs.2.1.trans hs.2.1.symm, hxs.2.2.1.trans hs.2.2.1.symm,
               hxs.2.2.2.1.trans hs.2.2.2.1.symm, hxs.2.2.2.2.trans hs.2.2.2.2.symm⟩

end Sympler.DataFormat
