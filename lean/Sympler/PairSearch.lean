import Sympler.Cells
import Sympler.GridChecks
import Sympler.Gen.CreateDistGen

/-!
Executable model of the pair generation of the linked-cell pair creator:
`LinkedListCreator::createDistances` (non-OpenMP branch: `LL_FOR_EACH__PARALLEL` over the ACTIVE-link
list, /repo/source/src/basic/linked_list_creator.cpp:106-136), `CellLink::createDistances`
(non-OpenMP branch, /repo/source/src/basic/cell.cpp:460-601), `createDistancesForSame`,
`createDistancesForDifferent` (cell.cpp:200-300) and `addPair` (/repo/source/include/basic/cell.h:729-755);
plus the line-protocol driver `grid` for the whole cell machinery (`Grid`, `Cells`, this file).

The pair lists of a colour pair are `cp->freePairs()[0]` and `cp->frozenPairs()[0]`; they are cleared by
`LinkedListCreator::invalidatePositions` after every position update and refilled here, so a list is a
function of the current state only.  `pairs` returns ALL `addPair` hits in call order, tagged with the
colour pair and the list (free / frozen) they go to; filtering by tag gives each list in its real order.
Core Lean only.
-/
namespace Sympler.PairSearch
open Sympler Sympler.Grid Sympler.Cells Sympler.Gen.CellTables

/-- what a `ColourPair` contributes: `cutoff()`, `needPairs()`; colours with `c1 ≤ c2` -/
structure CpCfg where
  c1 : Nat
  c2 : Nat
  cutoff : Rat
  need : Bool

/-- `ManagerCell::cp(c1, c2)` (symmetric lookup); `none` if the table has no entry -/
def cpLookup (cps : List CpCfg) (a b : Nat) : Option CpCfg :=
  let lo := min a b
  let hi := max a b
  cps.find? (fun cp => cp.c1 == lo && cp.c2 == hi)

/-- one stored pair (`Pairdist::set(d, first_p, second_p, ao_f, ao_s)`) with the list it was put in -/
structure PairRec where
  /-- colours of the `ColourPair` that owns the list (`c1 ≤ c2`) -/
  c1 : Nat
  c2 : Nat
  /-- `true` = `frozenPairs()`, `false` = `freePairs()` -/
  frozenList : Bool
  s1 : Nat
  fz1 : Bool
  s2 : Nat
  fz2 : Bool
  d : V3 Rat
  abs2 : Rat
  aoF : Bool
  aoS : Bool
deriving DecidableEq

/-- a particle handle inside a cell list: slot, frozen?, position -/
structure PRef where
  slot : Nat
  frozen : Bool
  r : V3 Rat

def freeRefs (s : St) (c k : Nat) : List PRef := (s.freeAt c k).map fun p => ⟨p, false, s.posAt k p⟩
def frozenRefs (s : St) (c k : Nat) : List PRef := (s.frozenAt c k).map fun p => ⟨p, true, s.fposAt k p⟩

/-- `addPair` (cell.h:729): `d = -dir*cell_dist + (r1 - corner1(first_c)) - (r2 - corner1(second_c))`,
kept iff `|d|² < cutoff²` -/
def addPair (cp : CpCfg) (frozenList : Bool) (dir : Int) (fc sc : CellGeom) (p1 p2 : PRef)
    (aoF aoS : Bool) (cellDist : V3 Rat) : List PairRec :=
  let d : V3 Rat :=
    (addPairComponent dir cellDist.1 p1.r.1 fc.c1.1 p2.r.1 sc.c1.1,
     addPairComponent dir cellDist.2.1 p1.r.2.1 fc.c1.2.1 p2.r.2.1 sc.c1.2.1,
     addPairComponent dir cellDist.2.2 p1.r.2.2 fc.c1.2.2 p2.r.2.2 sc.c1.2.2)
  let abs2 : Rat := 0 + d.1 * d.1 + d.2.1 * d.2.1 + d.2.2 * d.2.2
  if addPairKeeps abs2 (cp.cutoff * cp.cutoff) then
    [{ c1 := cp.c1, c2 := cp.c2, frozenList := frozenList, s1 := p1.slot, fz1 := p1.frozen,
       s2 := p2.slot, fz2 := p2.frozen, d := d, abs2 := abs2, aoF := aoF, aoS := aoS }]
  else []

/-- `createDistancesForSame`: `for i … for (j = i+1 …) addPair(…, *i, *j, true, true, …)` -/
def forSame (cp : CpCfg) (frozenList : Bool) (dir : Int) (c : CellGeom) (cellDist : V3 Rat) :
    List PRef → List PairRec
  | [] => []
  | i :: rest =>
    rest.flatMap (fun j => addPair cp frozenList dir c c i j true true cellDist)
      ++ forSame cp frozenList dir c cellDist rest

/-- `createDistancesForDifferent`: `for i in first_p for j in second_p addPair(…, *i, *j, ao_f, ao_s, …)` -/
def forDifferent (cp : CpCfg) (frozenList : Bool) (dir : Int) (fc sc : CellGeom) (ps1 ps2 : List PRef)
    (aoF aoS : Bool) (cellDist : V3 Rat) : List PairRec :=
  ps1.flatMap fun i => ps2.flatMap fun j => addPair cp frozenList dir fc sc i j aoF aoS cellDist

/-- acts-on argument of a call site: literal or a flag of the link -/
def evalAo (aoF aoS : Bool) : Nat → Bool
  | 0 => false
  | 1 => true
  | 2 => aoF
  | _ => aoS

/-- particle list argument `(cell, frozen?, colour variable)` of a call site -/
def siteRefs (s : St) (f g c1 c2 : Nat) (l : Nat × Bool × Nat) : List PRef :=
  let cell := if l.1 = 0 then f else g
  let col := if l.2.2 = 1 then c1 else c2
  if l.2.1 then frozenRefs s cell col else freeRefs s cell col

/-- one call site of the REGENERATED table `Sympler.Gen.CreateDist.sites` -/
def evalSite (s : St) (cp : CpCfg) (f g c1 c2 : Nat) (fc sc : CellGeom) (aoF aoS : Bool) (dist : V3 Rat)
    (st : Sympler.Gen.CreateDist.Site) : List PairRec :=
  let guardOk := match st.guard with
    | 0 => true
    | 1 => aoF
    | _ => aoS
  if !guardOk then []
  else
    let ca := if st.cellA = 0 then fc else sc
    let cb := if st.cellB = 0 then fc else sc
    if st.same then forSame cp st.frozenList st.dir ca dist (siteRefs s f g c1 c2 st.la)
    else forDifferent cp st.frozenList st.dir ca cb (siteRefs s f g c1 c2 st.la) (siteRefs s f g c1 c2 st.lb)
           (evalAo aoF aoS st.aoF) (evalAo aoF aoS st.aoS) dist

/-- all call sites of one branch, in source order -/
def branchPairs (s : St) (cp : CpCfg) (f g c1 c2 : Nat) (fc sc : CellGeom) (aoF aoS : Bool) (dist : V3 Rat) (b : Nat) : List PairRec :=
  (Sympler.Gen.CreateDist.sites.filter (fun st => st.branch == b)).flatMap (evalSite s cp f g c1 c2 fc sc aoF aoS dist)

/-- `CellLink::createDistances()` (non-OpenMP) for link `l`: the loop skeleton (checked by translate/t_createdist.py) around the
call sites of the regenerated table -/
def linkPairs (S : Sys) (cps : List CpCfg) (s : St) (l : Nat) : List PairRec :=
  let lk := S.G.links.getD l default
  let f := lk.first
  let g := lk.second
  let fc := S.G.cells.getD f default
  let sc := S.G.cells.getD g default
  let cols := List.range S.nCol
  let at_ := fun (c1 c2 b : Nat) =>
    match cpLookup cps c1 c2 with
    | some cp => if cp.need then branchPairs s cp f g c1 c2 fc sc lk.aoF lk.aoS lk.dist b else []
    | none => []
  if f = g then
    cols.flatMap fun c1 =>
      at_ c1 c1 0 ++ (cols.filter (fun c2 => c1 < c2)).flatMap fun c2 => at_ c1 c2 1
  else
    cols.flatMap fun c1 => cols.flatMap fun c2 => if c1 < c2 then at_ c1 c2 2 else at_ c1 c2 3

/-- `LinkedListCreator::createDistances`: all `addPair` hits over the active-link list, in call order -/
def pairs (S : Sys) (cps : List CpCfg) (s : St) : List PairRec :=
  s.act.ll.toList.flatMap (linkPairs S cps s)

/-- the list `cp(c1,c2)->freePairs()` / `frozenPairs()` in list order -/
def pairList (S : Sys) (cps : List CpCfg) (s : St) (c1 c2 : Nat) (frozenList : Bool) : List PairRec :=
  (pairs S cps s).filter fun q => q.c1 == c1 && q.c2 == c2 && q.frozenList == frozenList

/-! ### line-protocol driver (model name `grid`) -/

def showV3 (v : V3 Rat) : String := showRat v.1 ++ "," ++ showRat v.2.1 ++ "," ++ showRat v.2.2
def showBit (b : Bool) : String := if b then "1" else "0"
def showNats (l : List Nat) : String := " ".intercalate (l.map toString)

def parseV3 (w : String) : Option (V3 Rat) :=
  match w.splitOn "," with
  | [a, b, c] =>
    match parseRat a, parseRat b, parseRat c with
    | some a, some b, some c => some (a, b, c)
    | _, _, _ => none
  | _ => none

def parseBit (w : String) : Option Bool :=
  match w with
  | "0" => some false
  | "1" => some true
  | _ => none

/-- `<slot> <x>,<y>,<z>` repeated -/
def parseMoves : List String → Option (List (Nat × V3 Rat))
  | [] => some []
  | a :: b :: rest =>
    match a.toNat?, parseV3 b, parseMoves rest with
    | some p, some r, some l => some ((p, r) :: l)
    | _, _, _ => none
  | _ => none

def showErr : Err → String
  | .abortLinkCounter => "err:abort"
  | .flewTooFar _ _ => "err:flewtoofar"
  | .noCell _ _ => "err:nocell"
  | .multiOutlet => "err:multioutlet"
  | .fuel => "err:fuel"

/-- the configuration collected before `init` -/
structure Cfg where
  box : V3 Rat := (0, 0, 0)
  periodic : V3 Bool := (true, true, true)
  cutoff : Rat := 0
  eps : Rat := 0
  nCol : Nat := 0
  cps : List CpCfg := []
  free : List (Nat × Nat × V3 Rat) := []
  frozen : List (Nat × Nat × V3 Rat) := []

/-- colour pairs in `m_colourPairs` order: index `c2*(c2+1)/2 + c1` -/
def cpOrder (nCol : Nat) : List (Nat × Nat) :=
  (List.range nCol).flatMap fun c2 => (List.range (c2 + 1)).map fun c1 => (c1, c2)

def dumpCell (S : Sys) (s : St) (c : Nat) : String :=
  let cg := S.G.cells.getD c default
  let perCol := (List.range S.nCol).map fun k =>
    " | free " ++ toString k ++ " " ++ showNats (s.freeAt c k) ++
    " | frozen " ++ toString k ++ " " ++ showNats (s.frozenAt c k) ++
    " | inj " ++ toString k ++ " " ++ showNats (s.injAt c k)
  "cell " ++ toString c ++ " " ++ showV3 cg.c1 ++ " " ++ showV3 cg.c2 ++ " n=" ++ toString (s.nPart.get c)
    ++ String.join perCol

def dumpLink (S : Sys) (s : St) (l : Nat) : String :=
  let lk := S.G.links.getD l default
  "link " ++ toString l ++ " " ++ toString lk.first ++ " " ++ toString lk.second ++ " " ++ toString lk.align
    ++ " " ++ showV3 lk.dist ++ " nact=" ++ toString (s.act.lcnt.get l) ++ " ao=" ++ showBit lk.aoF ++ showBit lk.aoS

def dumpPair (q : PairRec) : String :=
  "pair " ++ toString q.c1 ++ " " ++ toString q.c2 ++ " " ++ (if q.frozenList then "frozen" else "free")
    ++ " " ++ toString q.s1 ++ " " ++ showBit q.fz1 ++ " " ++ toString q.s2 ++ " " ++ showBit q.fz2
    ++ " " ++ showV3 q.d ++ " " ++ showRat q.abs2 ++ " ao=" ++ showBit q.aoF ++ showBit q.aoS

/-- complete canonical dump of the state -/
def dump (S : Sys) (cfg : Cfg) (s : St) : List String :=
  let cells := (List.range S.nCells).map (dumpCell S s)
  let ac := "activecells n=" ++ toString s.act.cl.count ++ " " ++ showNats s.act.cl.toList
  let links := (List.range S.G.links.size).map (dumpLink S s)
  let al := "activelinks n=" ++ toString s.act.ll.count ++ " " ++ showNats s.act.ll.toList
  let ps := pairs S cfg.cps s
  let pl := (cpOrder S.nCol).flatMap fun (a, b) =>
    ((ps.filter fun q => q.c1 == a && q.c2 == b && !q.frozenList).map dumpPair)
    ++ ((ps.filter fun q => q.c1 == a && q.c2 == b && q.frozenList).map dumpPair)
  let pos := cfg.free.filterMap fun (k, p, _) =>
    if s.erased.contains (k, p) then none
    else some ("pos " ++ toString k ++ " " ++ toString p ++ " " ++ showV3 (s.posAt k p))
  cells ++ [ac] ++ links ++ [al] ++ pl ++ pos ++ ["enddump"]

/-- lines after `init`: `move`, `commit`, `dump`, `end` -/
def run (S : Sys) (cfg : Cfg) : List String → St → List String
  | [], _ => []
  | l :: rest, s =>
    match words l with
    | ["end"] => []
    | ["dump"] => dump S cfg s ++ run S cfg rest s
    | ["commit"] =>
      match applyOp S s .commit with
      | .ok s' => run S cfg rest s'
      | .error e => [showErr e]
    | "move" :: k :: ms =>
      match k.toNat?, parseMoves ms with
      | some k, some ms =>
        match applyOp S s (.move k ms) with
        | .ok s' =>
          (s'.erased.drop s.erased.length).map (fun (kp : Nat × Nat) =>
              "erased " ++ toString kp.1 ++ " " ++ toString kp.2)
            ++ run S cfg rest s'
        | .error e => [showErr e]
      | _, _ => ["err:parse"]
    | _ => ["err:parse"]

/-- configuration lines up to `init` -/
def configure (cfg : Cfg) : List String → List String
  | [] => []
  | l :: rest =>
    match words l with
    | ["end"] => []
    | ["box", a, b, c] =>
      match parseRat a, parseRat b, parseRat c with
      | some a, some b, some c => configure { cfg with box := (a, b, c) } rest
      | _, _, _ => ["err:parse"]
    | ["periodic", a, b, c] =>
      match parseBit a, parseBit b, parseBit c with
      | some a, some b, some c => configure { cfg with periodic := (a, b, c) } rest
      | _, _, _ => ["err:parse"]
    | ["cutoff", a] =>
      match parseRat a with
      | some a => configure { cfg with cutoff := a } rest
      | none => ["err:parse"]
    | ["eps", a] =>
      match parseRat a with
      | some a => configure { cfg with eps := a } rest
      | none => ["err:parse"]
    | ["ncol", a] =>
      match a.toNat? with
      | some a => configure { cfg with nCol := a } rest
      | none => ["err:parse"]
    | ["cp", a, b, c, d] =>
      match a.toNat?, b.toNat?, parseRat c, parseBit d with
      | some a, some b, some c, some d =>
        configure { cfg with cps := cfg.cps ++ [{ c1 := min a b, c2 := max a b, cutoff := c, need := d }] } rest
      | _, _, _, _ => ["err:parse"]
    | ["free", k, p, r] =>
      match k.toNat?, p.toNat?, parseV3 r with
      | some k, some p, some r => configure { cfg with free := cfg.free ++ [(k, p, r)] } rest
      | _, _, _ => ["err:parse"]
    | ["frozen", k, p, r] =>
      match k.toNat?, p.toNat?, parseV3 r with
      | some k, some p, some r => configure { cfg with frozen := cfg.frozen ++ [(k, p, r)] } rest
      | _, _, _ => ["err:parse"]
    | ["init"] =>
      match subdivide cfg.cutoff (0, 0, 0) cfg.box cfg.periodic with
      | none => ["err:boxtoosmall"]
      | some G =>
        let S : Sys := { G := G, nCol := cfg.nCol, eps := cfg.eps }
        match assignParticlesToCells S cfg.free cfg.frozen with
        | .ok s => ("gridok " ++ showBit (gridOKb G && linksOKb G cfg.periodic && decide (GeomOK G cfg.periodic)))
            :: run S cfg rest s
        | .error e => [showErr e]
    | _ => ["err:parse"]

/-- Protocol of model `grid`.  Configuration lines (any order, then `init`):
* `box <Lx> <Ly> <Lz>` (corner1 of the cuboid box is the origin), `periodic <0|1> <0|1> <0|1>`,
  `cutoff <maxCutoff>`, `eps <g_geom_eps>`, `ncol <number of colours>`,
* `cp <c1> <c2> <cutoff> <needPairs 0|1>` per colour pair,
* `free <colour> <slot> <x>,<y>,<z>` / `frozen <colour> <slot> <x>,<y>,<z>` in storage order
  (colour-major, slots ascending),
* `init` — `cellSubdivide` + `assignParticlesToCells` (answers `err:boxtoosmall`, `err:nocell` and stops);
  prints `gridok <0|1>` = the executable checks `gridOKb`, `linksOKb`, `GeomOK` (`Sympler/GridLemmas.lean`: the
  static hypotheses of the C09 theorems and the completeness/uniqueness of the link list) on the grid just built.
Then ops:
* `move <colour> <slot> <x>,<y>,<z> <slot> <x>,<y>,<z> …` — positions of free particles of that colour after
  `integratePosition` (unwrapped), then the sweep of `ManagerCell::invalidatePositions`; prints
  `erased <colour> <slot>` per removed particle, or `err:flewtoofar` (and stops);
* `commit` — `commitInjections` of all cells;
* `dump` — prints `cell …` per cell, `activecells …`, `link …` per link, `activelinks …`, `pair …` per stored
  pair (colour pairs in `m_colourPairs` order, free list then frozen list, each in list order),
  `pos <colour> <slot> <r>` per remaining free particle, `enddump`;
* `end`. -/
def driver (lines : List String) : List String := configure {} lines

end Sympler.PairSearch

/-- the driver of model `grid` under the conventional name `Sympler.Grid.driver` -/
def Sympler.Grid.driver : List String → List String := Sympler.PairSearch.driver
