import Sympler.Basic
/-!
# Collide — `Cell::doCollision` / `Cell::updatePositions` for force-free flight in a `BoundaryCuboid`

Executable model (core Lean, exact rationals) of one position update of ONE free particle of an
`IntegratorVelocityVerlet` species when the force on the particle is zero, so that the hit-time equation
of `IntegratorVelocityVerlet::solveHitTimeEquation` is linear (`a == 0` branch) and all hit times are rational.

Mirrors, statement by statement,
* `BoundaryCuboid::setup` (/repo/source/src/boundary/boundary_cuboid.cpp): which faces exist (two faces per
  NON-periodic direction, each two `WallTriangle`s with the same plane, normal and reflector), container order,
  inward normals (`m_surface_normal = side0 × side1`), `m_ndotr`;
* `IntegratorVelocityVerlet::solveHitTimeEquation` (`a == 0` branch), `hitPos`
  (/repo/source/src/integrator/integrator_velocity_verlet.cpp);
* `WallTriangle::hit` (/repo/source/include/geometry/wall_triangle.h): `t > p->dt ⇒ no hit`, `t > c_wt_time_eps (= 0)`
  required, `reallyInPlane(hit_pos)`;
* `Cell::checkForHit` (/repo/source/include/basic/cell.h): earliest hit, STRICT `t < t_travelled`, so the first wall
  in list order wins a tie;
* `Cell::doCollision` (/repo/source/src/basic/cell.cpp): at most 100 passes (`++iterations; if (iterations > 100) throw`),
  `reflect`, `p->dt -= t_travelled`, clamp at 0;
* `ReflectorMirror::reflect`, `ReflectorBounceBack::reflect` (the Rat instances of the GENERATED real definitions
  `Sympler.Gen.ReflectorsReal.{Mirror,BounceBack}_reflect`; equality proved in `PropsR/C08.lean`,
  `C08_mirror_rat_instance`, `C08_bounce_back_rat_instance`);
* `IntegratorVelocityVerlet::integratePosition` (`p->r += p->dt * (p->v + 0.5 * p->dt * accel)`, accel = 0);
* `Cell::checkNewPosition` (/repo/source/src/basic/cell.cpp): `isInsideEps(g_geom_eps)`, offsets, empty outlet ⇒ the
  particle is ERASED, target cell must contain the shifted position else `PARTICLEFLEWTOOFAR`.

NOT modelled (PARTIAL, see Props/C08.lean): accelerated flight (quadratic hit-time equation, `gsl_poly_solve_quadratic`),
oblique / STL walls, the rounding of doubles (all comparisons here are exact), and which of the two triangles of a
face a cell knows when the particle moves sideways by more than one cell.
-/
namespace Sympler.Collide

/-- `point_t` -/
abbrev V3 := Fin 3 → Rat
/-- `int_point_t` (cell index) -/
abbrev I3 := Fin 3 → Int

namespace V3
/-- `a + b` -/
def add (a b : V3) : V3 := fun d => a d + b d
/-- `-a` -/
def neg (a : V3) : V3 := fun d => - a d
/-- `s * a` -/
def smul (s : Rat) (a : V3) : V3 := fun d => s * a d
/-- `a * b` (scalar product) -/
def dot (a b : V3) : Rat := a 0 * b 0 + a 1 * b 1 + a 2 * b 2
/-- `a.cross(b)`: component `d` is `a[d+1] b[d+2] − a[d+2] b[d+1]` (indices mod 3) -/
def cross (a b : V3) : V3 := fun d => a (d + 1) * b (d + 2) - a (d + 2) * b (d + 1)
/-- `s · e_d` -/
def unit (d : Fin 3) (s : Rat) : V3 := fun k => if k = d then s else 0
/-- stored vectors are `mk x y z` with EVALUATED numbers (a `Fin 3 → Rat` closure is re-evaluated on every call; without
this the cost of reading a component grows exponentially with the number of reflections); `mk (a 0) (a 1) (a 2) = a`
(`CollideLemmas.mk_eta`). -/
@[noinline] def mk (x y z : Rat) : V3 := fun k => match k with | 0 => x | 1 => y | 2 => z
end V3

open V3

/-- `ReflectorMirror::reflect` (reflector_mirror.h) over `Rat`; same let-chain as the generated
`Sympler.Gen.ReflectorsReal.Mirror_reflect`.  Returns the new `(r, v)`. -/
def mirrorReflect (eps : Rat) (v hitPos normal inPlane : V3) : V3 × V3 :=
  let inPlane2 := cross normal inPlane
  let velPerp := dot (neg v) normal
  let velPara1 := dot v inPlane
  let velPara2 := dot v inPlane2
  let r := add hitPos (smul eps normal)
  let v' := add (add (smul velPerp normal) (smul velPara1 inPlane)) (smul velPara2 inPlane2)
  (r, v')

/-- `ReflectorBounceBack::reflect` (reflector_bounce_back.h) over `Rat`. -/
def bounceBackReflect (eps : Rat) (v hitPos normal _inPlane : V3) : V3 × V3 :=
  let r := add hitPos (smul eps normal)
  let v' := neg v
  (r, v')

inductive Refl where
  | mirror
  | bounceBack
  deriving DecidableEq, Repr

def reflect (k : Refl) (eps : Rat) (v hitPos normal inPlane : V3) : V3 × V3 :=
  match k with
  | .mirror => mirrorReflect eps v hitPos normal inPlane
  | .bounceBack => bounceBackReflect eps v hitPos normal inPlane

/-- The scenario: `BoundaryCuboid` `[0,box]`, `ncell` cells per direction (`(int)(box/cutoff)`,
`ManagerCell::cellSubdivide`), periodicity, `eps = c_rm_disp_eps`, `delta = −c_wt_dist_eps ≥ 0`,
`geps = g_geom_eps`, one reflector for all walls. -/
structure Cfg where
  box : V3
  ncell : I3
  per : Fin 3 → Bool
  eps : Rat
  delta : Rat
  geps : Rat
  refl : Refl

/-- cell width `width[i] = d[i] / n_cells[i]` -/
def Cfg.w (c : Cfg) (d : Fin 3) : Rat := c.box d / (c.ncell d : Rat)

/-- One face of the cuboid (both triangles): direction and side. -/
structure Wall where
  d : Fin 3
  high : Bool
  deriving DecidableEq, Repr

/-- `m_surface_normal`: inward (`+e_d` for the face `x_d = 0`, `−e_d` for `x_d = box_d`). -/
def Wall.normal (w : Wall) : V3 := unit w.d (if w.high then -1 else 1)
/-- `m_ndotr = m_corners[0] * m_surface_normal` -/
def Wall.nDotR (c : Cfg) (w : Wall) : Rat := if w.high then - c.box w.d else 0
/-- `inPlane() = m_side_normals[0]`: `±e_k` for some `k ≠ d` (depends on the triangle); the reflection does not
depend on the choice (`CollideLemmas.mirror_axis`).  We take `e_{d+1}`. -/
def Wall.inPlane (w : Wall) : V3 := unit (w.d + 1) 1

/-- Faces in the order of `BoundaryCuboid::setup` (x: high, low; y: low, high; z: low, high). -/
def allWalls : List Wall :=
  [⟨0, true⟩, ⟨0, false⟩, ⟨1, false⟩, ⟨1, true⟩, ⟨2, false⟩, ⟨2, true⟩]

/-- Does the cell with index `cell` know the face?  Faces exist only in non-periodic directions
(`if (!m_periodic.x) ADDRECT…`); `Cell::setupWalls`: a cell knows the walls intersecting itself and its neighbours. -/
def known (c : Cfg) (cell : I3) (w : Wall) : Bool :=
  !c.per w.d && (if w.high then decide (c.ncell w.d ≤ cell w.d + 2) else decide (cell w.d ≤ 1))

def walls (c : Cfg) (cell : I3) : List Wall := allWalls.filter (known c cell)

/-- `IntegratorVelocityVerlet::solveHitTimeEquation`, branch `a == 0`:
`b = n·v`, `c = n·r − nDotR`, `t0 = −c/b`; `t0 < c_wt_time_eps (= 0)` ⇒ empty result.
`b == 0` gives `±inf` or `NaN` in the C++; `inf > p->dt` and every comparison with `NaN` is false ⇒ no hit. -/
def hitTime (c : Cfg) (w : Wall) (r v : V3) : Option Rat :=
  let b := dot w.normal v
  let cc := dot w.normal r - w.nDotR c
  if b = 0 then none
  else
    let t0 := - cc / b
    if t0 < 0 then none else some t0

/-- `WallTriangle::reallyInPlane` for the union of the two triangles of a face: the face rectangle enlarged by
`delta = −c_wt_dist_eps` in the non-periodic in-face directions.  In a periodic in-face direction the shifted copies
checked through `m_indirect_outlets` accept the hit (valid while the particle stays within one cell of its cell). -/
def inFace (c : Cfg) (w : Wall) (h : V3) : Bool :=
  let ok := fun (k : Fin 3) => k = w.d || c.per k || (decide (- c.delta ≤ h k) && decide (h k ≤ c.box k + c.delta))
  ok 0 && ok 1 && ok 2

/-- `WallTriangle::hit`: `results[i] > p->dt ⇒ false`; needs `results[i] > c_wt_time_eps`; `hitPos`; `reallyInPlane`. -/
def wallHit (c : Cfg) (w : Wall) (r v : V3) (dtLeft : Rat) : Option (Rat × V3) :=
  match hitTime c w r v with
  | none => none
  | some t =>
    if t > dtLeft then none
    else if t > 0 then
      let h0 := add r (smul t v)
      let hx := h0 0; let hy := h0 1; let hz := h0 2
      let h := mk hx hy hz
      if inFace c w h then some (t, h) else none
    else none

structure Hit where
  t : Rat
  pos : V3
  wall : Wall

/-- body of the loop of `Cell::checkForHit`: `if (t < t_travelled) {…}` with `t_travelled = HUGE_VAL` initially -/
def better (c : Cfg) (r v : V3) (dtLeft : Rat) (best : Option Hit) (w : Wall) : Option Hit :=
  match wallHit c w r v dtLeft with
  | none => best
  | some (t, h) =>
    match best with
    | none => some ⟨t, h, w⟩
    | some b => if t < b.t then some ⟨t, h, w⟩ else best

/-- `Cell::checkForHit` -/
def checkForHit (c : Cfg) (ws : List Wall) (r v : V3) (dtLeft : Rat) : Option Hit :=
  ws.foldl (better c r v dtLeft) none

/-- local variables of `Cell::doCollision`: `r`, `v`, `p->dt`, and the hits so far (trace, oldest first) -/
structure LoopSt where
  r : V3
  v : V3
  dtLeft : Rat
  trace : List Hit

inductive CollRes where
  | tooManyHits
  | done (st : LoopSt)

/-- one reflection: `wall->reflector()->reflect(…)`, `p->dt -= t_travelled`, `if (p->dt < 0) p->dt = 0` -/
def applyHit (c : Cfg) (st : LoopSt) (h : Hit) : LoopSt :=
  let rv := reflect c.refl c.eps st.v h.pos h.wall.normal h.wall.inPlane
  let dt' := st.dtLeft - h.t
  let rx := rv.1 0; let ry := rv.1 1; let rz := rv.1 2
  let vx := rv.2 0; let vy := rv.2 1; let vz := rv.2 2
  ⟨mk rx ry rz, mk vx vy vz, if dt' < 0 then 0 else dt', st.trace ++ [h]⟩

/-- `Cell::doCollision`; `fuel` = number of passes still allowed (100 at the start). -/
def doCollision (c : Cfg) (cell : I3) : Nat → LoopSt → CollRes
  | 0, _ => .tooManyHits
  | fuel + 1, st =>
    match checkForHit c (walls c cell) st.r st.v st.dtLeft with
    | none => .done st
    | some h => doCollision c cell fuel (applyHit c st h)

/-- particle: position, velocity, index of the cell whose list holds it -/
structure PState where
  r : V3
  v : V3
  cell : I3

inductive StepRes where
  | tooManyHits                       -- gError "More than 100 wall collisions"
  | flewTooFar (hits : List Hit)      -- gError PARTICLEFLEWTOOFAR
  | lost (hits : List Hit)            -- erased: left through a side without outlet
  | ok (p : PState) (hits : List Hit)

/-- the hits of the step (empty for the "too many hits" error) -/
def StepRes.trace : StepRes → List Hit
  | .tooManyHits => []
  | .flewTooFar hs => hs
  | .lost hs => hs
  | .ok _ hs => hs

/-- lower / upper corner of a cell -/
def c1 (c : Cfg) (cell : I3) (d : Fin 3) : Rat := (cell d : Rat) * c.w d
def c2 (c : Cfg) (cell : I3) (d : Fin 3) : Rat := ((cell d + 1 : Int) : Rat) * c.w d

def all3 (f : Fin 3 → Bool) : Bool := f 0 && f 1 && f 2

/-- `cuboid_t::isInsideEps(pos, eps)` -/
def insideEps (c : Cfg) (cell : I3) (r : V3) : Bool :=
  all3 fun d => !(decide (r d < c1 c cell d - c.geps) || decide (r d ≥ c2 c cell d + c.geps))
/-- `cuboid_t::isInside(pos)` -/
def inside (c : Cfg) (cell : I3) (r : V3) : Bool :=
  all3 fun d => !(decide (r d < c1 c cell d) || decide (r d ≥ c2 c cell d))

/-- `off[j]` -/
def offs (c : Cfg) (cell : I3) (r : V3) : I3 := fun d =>
  if r d < c1 c cell d then -1 else if r d ≥ c2 c cell d then 1 else 0

/-- is there an outlet in direction `off`?  (neighbour inside the grid, or periodic direction) -/
def hasOutlet (c : Cfg) (cell off : I3) : Bool :=
  all3 fun d => c.per d || (decide (0 ≤ cell d + off d) && decide (cell d + off d < c.ncell d))

/-- target cell index and shifted position `old_r + c->corner1 − corner1 − dist` -/
def target (c : Cfg) (cell off : I3) (r : V3) : I3 × V3 :=
  (fun d => let t := cell d + off d
            if t < 0 then t + c.ncell d else if t ≥ c.ncell d then t - c.ncell d else t,
   fun d => let t := cell d + off d
            if t < 0 then r d + c.box d else if t ≥ c.ncell d then r d - c.box d else r d)

/-- `Cell::checkNewPosition` -/
def checkNewPosition (c : Cfg) (cell : I3) (r v : V3) (hits : List Hit) : StepRes :=
  if insideEps c cell r then .ok ⟨r, v, cell⟩ hits
  else
    let off := offs c cell r
    if !hasOutlet c cell off then .lost hits
    else
      let tr := target c cell off r
      if inside c tr.1 tr.2 then .ok ⟨tr.2, v, tr.1⟩ hits else .flewTooFar hits

/-- `Cell::updatePositions(integrator)` for one particle with zero force: `p->dt = dt`, `integratePosition`
(= `doCollision` + free flight for the remaining time), `integrateVelocity` (no change), `checkNewPosition`. -/
def step (c : Cfg) (dt : Rat) (p : PState) : StepRes :=
  match doCollision c p.cell 100 ⟨p.r, p.v, dt, []⟩ with
  | .tooManyHits => .tooManyHits
  | .done st => checkNewPosition c p.cell (add st.r (smul st.dtLeft st.v)) st.v st.trace

inductive Err where
  | tooManyHits
  | flewTooFar
  deriving DecidableEq, Repr

/-- all free particles of the phase, one time step; erased particles disappear from the list -/
def stepAll (c : Cfg) (dt : Rat) : List PState → Except Err (List PState)
  | [] => .ok []
  | p :: ps =>
    match step c dt p with
    | .tooManyHits => .error .tooManyHits
    | .flewTooFar _ => .error .flewTooFar
    | .lost _ => stepAll c dt ps
    | .ok p' _ => (stepAll c dt ps).map (p' :: ·)

def run (c : Cfg) (dt : Rat) : Nat → List PState → Except Err (List PState)
  | 0, ps => .ok ps
  | n + 1, ps =>
    match stepAll c dt ps with
    | .error e => .error e
    | .ok ps' => run c dt n ps'

/-! ## line-protocol driver (`model collide`)

Input lines (numbers `p/q`):
```
box Lx Ly Lz
ncell nx ny nz
per px py pz            (0/1)
eps e
delta d
geps g
refl mirror|bounceback
dt t
steps n
p rx ry rz vx vy vz     (one particle; its cell is floor(r/w), clamped to the grid)
```
Output: one line per step `step k ok rx ry rz vx vy vz cx cy cz hits=h` or `step k err:toomanyhits` /
`err:flewtoofar` / `lost hits=h` (then stops); `err:input` on malformed input. -/

def cellOf (c : Cfg) (r : V3) : I3 := fun d =>
  let i := (r d / c.w d).floor
  if i < 0 then 0 else if i ≥ c.ncell d then c.ncell d - 1 else i

def v3s (a : V3) : String := showRat (a 0) ++ " " ++ showRat (a 1) ++ " " ++ showRat (a 2)

@[noinline] def I3.mk (x y z : Int) : I3 := fun k => match k with | 0 => x | 1 => y | 2 => z

def runDriver (c : Cfg) (dt : Rat) : Nat → Nat → PState → List String
  | 0, _, _ => []
  | n + 1, k, p =>
    match step c dt p with
    | .tooManyHits => [s!"step {k} err:toomanyhits"]
    | .flewTooFar _ => [s!"step {k} err:flewtoofar"]
    | .lost hs => [s!"step {k} lost hits={hs.length}"]
    | .ok p' hs =>
      let rx := p'.r 0; let ry := p'.r 1; let rz := p'.r 2
      let vx := p'.v 0; let vy := p'.v 1; let vz := p'.v 2
      let cx := p'.cell 0; let cy := p'.cell 1; let cz := p'.cell 2
      let p'' : PState := ⟨V3.mk rx ry rz, V3.mk vx vy vz, I3.mk cx cy cz⟩
      s!"step {k} ok {showRat rx} {showRat ry} {showRat rz} {showRat vx} {showRat vy} {showRat vz} {cx} {cy} {cz} hits={hs.length}"
        :: runDriver c dt n (k + 1) p''

def parse3 (ws : List String) : Option V3 :=
  match ws.mapM parseRat with
  | some [a, b, c] => some (V3.mk a b c)
  | _ => none

def field (ls : List (List String)) (key : String) : Option (List String) :=
  (ls.find? (fun l => l.head? = some key)).map List.tail

def ratField (ls : List (List String)) (key : String) : Option Rat :=
  match field ls key with
  | some [x] => parseRat x
  | _ => none

def natField (ls : List (List String)) (key : String) : Option Nat :=
  match field ls key with
  | some [x] => x.toNat?
  | _ => none

def reflField (ls : List (List String)) : Option Refl :=
  match field ls "refl" with
  | some ["mirror"] => some Refl.mirror
  | some ["bounceback"] => some Refl.bounceBack
  | _ => none

def driver (lines : List String) : List String :=
  let ls := lines.map words
  let res : Option (List String) := do
    let boxw ← field ls "box"
    let box ← parse3 boxw
    let ncw ← field ls "ncell"
    let nc ← ncw.mapM String.toInt?
    let prw ← field ls "per"
    let pr ← prw.mapM String.toNat?
    let eps ← ratField ls "eps"
    let dl ← ratField ls "delta"
    let geps ← ratField ls "geps"
    let refl ← reflField ls
    let dt ← ratField ls "dt"
    let steps ← natField ls "steps"
    let pw0 ← field ls "p"
    let pw ← pw0.mapM parseRat
    match nc, pr, pw with
    | [nx, ny, nz], [px, py, pz], [rx, ry, rz, vx, vy, vz] =>
      if nx < 1 || ny < 1 || nz < 1 || box 0 ≤ 0 || box 1 ≤ 0 || box 2 ≤ 0 then none
      else
        let c : Cfg := ⟨box, fun k => match k with | 0 => nx | 1 => ny | 2 => nz,
                        fun k => match k with | 0 => px != 0 | 1 => py != 0 | 2 => pz != 0,
                        eps, dl, geps, refl⟩
        let r := V3.mk rx ry rz
        let cl := cellOf c r
        let cx := cl 0; let cy := cl 1; let cz := cl 2
        some (runDriver c dt steps 0 ⟨r, V3.mk vx vy vz, I3.mk cx cy cz⟩)
    | _, _, _ => none
  res.getD ["err:input"]

end Sympler.Collide
