import Sympler.Basic
import Sympler.Gen.BondsGen
/-!
# Bonded pairs (C19)

Model of the connected lists of a colour pair (`ColourPair::m_connectedLists`), of their refresh
(`ColourPair::updateConnectedDistances`, called by `Controller::triggerNeighbourUpdate` on every step for every colour
pair, independently of the pair creator) and of the loop of a bonded force (`ConnectBasic::computeForces(int)`).
The per-component wrap is GENERATED from colour_pair.cpp (`Sympler.Gen.Bonds`).  Core Lean only.
-/
namespace Sympler.Bonds
open Sympler.Gen.Bonds

abbrev V3 := Rat × Rat × Rat

def V3.sub (a b : V3) : V3 := (a.1 - b.1, a.2.1 - b.2.1, a.2.2 - b.2.2)
def V3.add (a b : V3) : V3 := (a.1 + b.1, a.2.1 + b.2.1, a.2.2 + b.2.2)
def V3.neg (a : V3) : V3 := (-a.1, -a.2.1, -a.2.2)
def V3.zero : V3 := (0, 0, 0)

/-- a bond: indices of first and second particle (first = the partner of the colour pair's first colour) -/
structure Bond where
  first : Nat
  second : Nat
  deriving DecidableEq, Repr

structure Box where
  size : V3
  periodic : Bool × Bool × Bool

/-- `Pairdist::calculateCartDistance` followed by the loop over `dir` in `updateConnectedDistances` -/
def refreshVec (b : Box) (r1 r2 : V3) : V3 :=
  let d := V3.sub r1 r2
  (bondWrapUpdate b.periodic.1 b.size.1 d.1, bondWrapUpdate b.periodic.2.1 b.size.2.1 d.2.1, bondWrapUpdate b.periodic.2.2 b.size.2.2 d.2.2)

/-- the vector stored when the bond is created from the connector file (`addPairToConnection`) -/
def initVec (b : Box) (r1 r2 : V3) : V3 :=
  let d := V3.sub r1 r2
  (bondWrapInit b.periodic.1 b.size.1 d.1, bondWrapInit b.periodic.2.1 b.size.2.1 d.2.1, bondWrapInit b.periodic.2.2 b.size.2.2 d.2.2)

/-- `updateConnectedDistances` for one connected list: every stored pair gets the refreshed vector of the CURRENT positions;
    nothing else is read (no cutoff, no cell, no pair creator) -/
def refreshList (b : Box) (pos : Nat → V3) (bonds : List Bond) : List (Bond × V3) :=
  bonds.map fun bd => (bd, refreshVec b (pos bd.first) (pos bd.second))

/-- `ConnectBasic::computeForces(int)`: one pass over the list; `f` is the pair factor (a function of the refreshed vector);
    `force[first] += f d`, `force[second] -= f d` -/
def bondForces (f : V3 → V3) (refreshed : List (Bond × V3)) (force : Nat → V3) : Nat → V3 :=
  refreshed.foldl (fun acc (bd, d) =>
    let acc1 := fun i => if i = bd.first then V3.add (acc i) (f d) else acc i
    fun i => if i = bd.second then V3.add (acc1 i) (V3.neg (f d)) else acc1 i) force

/-- number of evaluations of the pair factor per bond in one pass -/
def evaluations (refreshed : List (Bond × V3)) : List Bond := refreshed.map (·.1)

/-- line protocol: `box Lx Ly Lz px py pz`, `pos i x y z`, `bond i j`, `end` -> one line `bond i j dx,dy,dz` per bond in list order -/
def driver (lines : List String) : List String :=
  let rec go (ls : List String) (bx : Option Box) (pos : List (Nat × V3)) (bonds : List Bond) (fuel : Nat) : List String :=
    match fuel, ls with
    | 0, _ => ["err:fuel"]
    | _, [] => finish bx pos bonds
    | fuel+1, l :: tl =>
      match Sympler.words l with
      | ["box", a, b, c, p, q, r] =>
        match parseRat a, parseRat b, parseRat c with
        | some x, some y, some z => go tl (some ⟨(x, y, z), (p == "1", q == "1", r == "1")⟩) pos bonds fuel
        | _, _, _ => ["err:parse"]
      | ["pos", i, a, b, c] =>
        match i.toNat?, parseRat a, parseRat b, parseRat c with
        | some n, some x, some y, some z => go tl bx ((n, (x, y, z)) :: pos) bonds fuel
        | _, _, _, _ => ["err:parse"]
      | ["bond", i, j] =>
        match i.toNat?, j.toNat? with
        | some a, some b => go tl bx pos (bonds ++ [⟨a, b⟩]) fuel
        | _, _ => ["err:parse"]
      | ["end"] => finish bx pos bonds
      | [] => go tl bx pos bonds fuel
      | _ => ["err:parse"]
  go lines none [] [] (lines.length + 1)
where
  finish (bx : Option Box) (pos : List (Nat × V3)) (bonds : List Bond) : List String :=
    match bx with
    | none => ["err:nobox"]
    | some b =>
      let p : Nat → V3 := fun i => ((pos.find? (·.1 == i)).map (·.2)).getD V3.zero
      (refreshList b p bonds).map fun (bd, d) =>
        s!"bond {bd.first} {bd.second} {showRat d.1},{showRat d.2.1},{showRat d.2.2}"

end Sympler.Bonds
