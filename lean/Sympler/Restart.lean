import Sympler.Basic
import Sympler.Gen.RestartGen

/-!
# Restart file: writer and reader at the character level  (property C18)

Mirrors

* writer  `Phase::writeRestartFile`                 (/repo/source/src/basic/phase.cpp)
          `Data::toStringByIndex`                   (/repo/source/src/basic/data_format.cpp)
          `operator<<` of `math_vector_t`, `math_tensor_t` (/repo/source/include/geometry/geometric_primitives.h)
* reader  `ParticleCreatorFile::createParticles`, `readParticle`, `readNext`
                                                    (/repo/source/src/particle_creator/pc_file.cpp)
          `Data::fromStringByIndex`                 (/repo/source/src/basic/data_format.cpp)

The character class of `readNext` comes from `Sympler.Gen.Restart.readNextAccepts` (generated).

## Numbers

`printf("%g")` / `ostream << double` are modelled EXACTLY on the domain of decimals
`± mant · 10^exp` whose mantissa has at most `P` significant digits (`P = 6` for `%g` and for the
default stream precision of `toStringByIndex`, `P = 8` for the positions and velocities,
`pos.precision(8)`): no rounding happens there and C prints the shortest form in fixed notation when
the decimal exponent `X` of the first digit satisfies `-4 ≤ X < P`, else in scientific notation with
a signed exponent of at least two digits.  What libc does for doubles that are NOT such decimals
(correct rounding to `P` digits) is not modelled (trusted, see `C18_partial` in `Props/C18.lean`).
`atof`/`strtod`/`operator>>(double)` are modelled for decimal literals (no hex, `inf`, `nan`), with the
longest-numeric-prefix behaviour of `strtod`.

## What is not modelled

* `transformPos`, `findCell`, `isInside`: the real reader silently drops a particle that is not inside the box
  (`pc_file.cpp:547` `c = manager->findCell(p.r); if (c) {…}`; `region_t::isInside` is strict at the upper bound
  while the running simulation keeps `x = L` through `isInsideEps`) — finding `boundary-loss` of the
  correspondence check, replays `/verif/replays/C18-viol-boundary-*.json`;
  the `species` filter of `ParticleCreatorFile` (`m_species = "UNDEF"` as in the generated restart input),
  the regrouping by cell group in `flushParticles` (one group assumed: file order is kept per list);
* all loops carry a fuel argument (text length + 1 at the top); every iteration consumes at least one character, so
  the fuel never runs out (`err:fuel` is unreachable from `read`);
* failure states of `operator>>(double)`: the model returns `err:format` where the real stream would
  set `failbit` and go on with garbage;  `readNext` at end of file inside an open parenthesis never
  returns in the C++ (`c` stays `EOF`, `level > 0`): the model returns `err:hang`.
-/

namespace Sympler.Restart

open Sympler.Gen.Restart

/-! ## Decimal numbers and `%g` -/

/-- `(-1)^neg · mant · 10^exp`.  Canonical form: `mant % 10 ≠ 0`, or `mant = 0 ∧ exp = 0`
    (`neg` is kept for zero: `%g` prints `-0`). -/
structure Dec where
  neg : Bool
  mant : Nat
  exp : Int
deriving DecidableEq, Repr, Inhabited

def Dec.zero : Dec := ⟨false, 0, 0⟩

/-- decimal digits of a natural number (`'0'` for zero) -/
def digits (n : Nat) : List Char := Nat.toDigits 10 n

/-- decimal exponent of the first significant digit -/
def Dec.expo (d : Dec) : Int := d.exp + (digits d.mant).length - 1

/-- exponent field of C's `%e`: sign, at least two digits -/
def expField (x : Int) : List Char :=
  (if x < 0 then '-' else '+') :: ((if x.natAbs < 10 then ['0'] else []) ++ digits x.natAbs)

/-- `%.{P}g` of the magnitude `mant · 10^exp`, `mant ≠ 0`, at most `P` significant digits
    (C11 7.21.6.1 §8, style `g`, no `#`): with `X` the decimal exponent of the first digit, fixed notation
    iff `P > X ≥ -4`; trailing zeros and a trailing point removed; `%e` exponent: sign and ≥ 2 digits. -/
def fmtMag (P : Nat) (mant : Nat) (exp : Int) : List Char :=
  let D := digits mant
  let n := D.length
  let X : Int := exp + n - 1
  if X < -4 ∨ X ≥ P then
    D.take 1 ++ ((if n > 1 then '.' :: D.drop 1 else []) ++ 'e' :: expField X)
  else if X ≥ 0 then
    let k := X.toNat + 1
    if n ≤ k then D ++ List.replicate (k - n) '0'
    else D.take k ++ '.' :: D.drop k
  else
    '0' :: '.' :: (List.replicate ((-X).toNat - 1) '0' ++ D)

/-- `%.{P}g` of a decimal with at most `P` significant digits -/
def fmtG (P : Nat) (d : Dec) : List Char :=
  (if d.neg then ['-'] else []) ++ (if d.mant = 0 then ['0'] else fmtMag P d.mant d.exp)

/-- `%i` -/
def fmtInt (i : Int) : List Char :=
  if i < 0 then '-' :: digits i.natAbs else digits i.toNat

/-- C `isspace` in the "C" locale -/
def isCSpace (c : Char) : Bool :=
  c == ' ' || c == '\t' || c == '\n' || c == '\x0b' || c == '\x0c' || c == '\r'

/-- divide out factors of ten (fuel = the number itself is enough) -/
def stripZeros : Nat → Nat → Int → Nat × Int
  | 0, m, e => (m, e)
  | fuel + 1, m, e => if m ≠ 0 ∧ m % 10 = 0 then stripZeros fuel (m / 10) (e + 1) else (m, e)

def normalize (m : Nat) (e : Int) : Nat × Int :=
  if m = 0 then (0, 0) else stripZeros m m e

def takeSign (cs : List Char) : Bool × List Char :=
  match cs with
  | c :: t => if c = '-' then (true, t) else if c = '+' then (false, t) else (false, cs)
  | [] => (false, [])

/-- optional exponent part of a decimal floating literal (`strtod`): consumed only if a digit follows -/
def scanExp (cs : List Char) : Int × List Char :=
  match cs with
  | c :: t =>
    if c = 'e' ∨ c = 'E' then
      let st := takeSign t
      let ed := st.2.takeWhile Char.isDigit
      if ed = [] then (0, cs)
      else
        let v : Int := (Nat.ofDigitChars 10 ed 0 : Nat)
        (if st.1 then -v else v, st.2.dropWhile Char.isDigit)
    else (0, cs)
  | [] => (0, [])

/-- optional fraction part `.digits` -/
def scanFrac (cs : List Char) : List Char × List Char :=
  match cs with
  | c :: t => if c = '.' then (t.takeWhile Char.isDigit, t.dropWhile Char.isDigit) else ([], cs)
  | [] => ([], [])

/-- `strtod` on a decimal literal: skip white space, sign, digits, `.digits`, exponent.  Returns the
    canonical decimal and the unconsumed rest; `none` (and the input) when there is no conversion. -/
def scanNum (cs : List Char) : Option Dec × List Char :=
  let s := takeSign (cs.dropWhile isCSpace)
  let ip := s.2.takeWhile Char.isDigit
  let f := scanFrac (s.2.dropWhile Char.isDigit)
  if ip = [] ∧ f.1 = [] then (none, cs)
  else
    let x := scanExp f.2
    let me := normalize (Nat.ofDigitChars 10 (ip ++ f.1) 0) (x.1 - f.1.length)
    (some ⟨s.1, me.1, me.2⟩, x.2)

/-- `atof` -/
def atof (cs : List Char) : Dec := ((scanNum cs).1).getD Dec.zero

/-- `atoi` (values outside the `int` range are undefined in C; not modelled) -/
def atoi (cs : List Char) : Int :=
  let s := takeSign (cs.dropWhile isCSpace)
  let v : Int := (Nat.ofDigitChars 10 (s.2.takeWhile Char.isDigit) 0 : Nat)
  if s.1 then -v else v

/-! ## Attribute values -/

inductive Ty | int | double | point | tensor
deriving DecidableEq, Repr, Inhabited

structure P3 where
  x : Dec
  y : Dec
  z : Dec
deriving DecidableEq, Repr, Inhabited

def P3.zero : P3 := ⟨Dec.zero, Dec.zero, Dec.zero⟩

inductive Val
  | int (i : Int)
  | double (d : Dec)
  | point (p : P3)
  | tensor (a b c : P3)
deriving DecidableEq, Repr, Inhabited

/-- zero-initialised `Data` -/
def defaultVal : Ty → Val
  | .int => .int 0
  | .double => .double Dec.zero
  | .point => .point P3.zero
  | .tensor => .tensor P3.zero P3.zero P3.zero

/-- `out << "(" << v.x << ", " << v.y << ", " << v.z << ")"` -/
def fmtPoint (P : Nat) (p : P3) : List Char :=
  '(' :: (fmtG P p.x ++ ',' :: ' ' :: (fmtG P p.y ++ ',' :: ' ' :: (fmtG P p.z ++ [')'])))

/-- `Data::toStringByIndex` (`sprintf "%i"`, `sprintf "%g"`, `stringstream <<` with precision 6) -/
def toStr : Val → List Char
  | .int i => fmtInt i
  | .double d => fmtG 6 d
  | .point p => fmtPoint 6 p
  | .tensor a b c =>
    ['t', 'e', 'n', 's', 'o', 'r', '('] ++
      (fmtPoint 6 a ++ ',' :: ' ' :: (fmtPoint 6 b ++ ',' :: ' ' :: (fmtPoint 6 c ++ [')'])))

/-- `endpos = value.find(c, pos)`, the piece `string(value, pos, endpos-pos)` and the new `pos = endpos+1`,
    expressed on the suffix `suf = value.substr(pos)`.  When `c` is not found, `endpos = npos = -1` as `int`:
    the piece is the whole rest (negative count) and the new `pos` is `0`, i.e. the whole `value` again. -/
def cut (c : Char) (whole suf : List Char) : List Char × List Char :=
  match suf.dropWhile (· != c) with
  | _ :: a => (suf.takeWhile (· != c), a)
  | [] => (suf, whole)

/-- three components `a, b, c)` starting at the current position -/
def pointFrom (whole suf : List Char) : P3 × List Char :=
  let x := cut ',' whole suf
  let y := cut ',' whole x.2
  let z := cut ')' whole y.2
  (⟨atof x.1, atof y.1, atof z.1⟩, z.2)

/-- `Data::fromStringByIndex` -/
def fromStr (ty : Ty) (value : List Char) : Val :=
  match ty with
  | .int => .int (atoi value)
  | .double => .double (atof value)
  | .point => .point (pointFrom value (cut '(' value value).2).1
  | .tensor =>
    let s0 := (cut '(' value value).2
    let a := pointFrom value (cut '(' value s0).2
    let b := pointFrom value (cut '(' value (cut ',' value a.2).2).2
    let c := pointFrom value (cut '(' value (cut ',' value b.2).2).2
    .tensor a.1 b.1 c.1

/-! ## The exact domain -/

/-- decimals on which the model of `%.{P}g` is exact: canonical, at most `P` significant digits, and within
    the range of (normal) doubles — the guard of the real code: outside, C prints `inf` or a denormal -/
structure Dec.wf (P : Nat) (d : Dec) : Prop where
  zero : d.mant = 0 → d.exp = 0
  canon : d.mant ≠ 0 → d.mant % 10 ≠ 0
  prec : d.mant ≠ 0 → (digits d.mant).length ≤ P
  range : d.mant ≠ 0 → -300 ≤ d.expo ∧ d.expo ≤ 300

def P3.wf (P : Nat) (p : P3) : Prop := p.x.wf P ∧ p.y.wf P ∧ p.z.wf P

/-- value of the right constructor for the attribute type, components on the exact domain, `int` range -/
def Val.wf : Ty → Val → Prop
  | .int, .int i => -2147483648 ≤ i ∧ i ≤ 2147483647
  | .double, .double d => d.wf 6
  | .point, .point p => p.wf 6
  | .tensor, .tensor a b c => a.wf 6 ∧ b.wf 6 ∧ c.wf 6
  | _, _ => False

/-! ## The particle system and the writer -/

/-- one row of `Particle::s_tag_format[c]`; `recomputed`: the READING simulation has a calculator /
    particle cache without `overwrite` for this attribute (`createParticles` then skips the column) -/
structure Attr where
  name : List Char
  ty : Ty
  persistent : Bool
  recomputed : Bool
deriving DecidableEq, Repr, Inhabited

/-- a species (colour) with its tag format -/
structure Format where
  name : List Char
  attrs : List Attr
deriving DecidableEq, Repr, Inhabited

/-- `tags` has one value per row of the format (persistent or not) -/
structure Particle where
  r : P3
  v : P3
  tags : List Val
deriving DecidableEq, Repr, Inhabited

/-- `Phase::m_particles[c]`, `Phase::m_frozen_particles[c]` in list order -/
structure System where
  free : List (List Particle)
  frozen : List (List Particle)
deriving DecidableEq, Repr, Inhabited

def bang : List Char := ['!', '!', '!']
def wFree : List Char := ['f', 'r', 'e', 'e']
def wFrozen : List Char := ['f', 'r', 'o', 'z', 'e', 'n']

/-- `pos << species(c) << " "; for persistent attrs: pos << name << " "; pos << "!!!" << endl` -/
def headerLine (f : Format) : List Char :=
  f.name ++ ' ' :: ((f.attrs.filter (·.persistent)).flatMap (fun a => a.name ++ [' ']) ++ (bang ++ ['\n']))

/-- `for j: if persistent: pos << " " << tag.toStringByIndex(j)` -/
def tagTokens : List Attr → List Val → List Char
  | a :: as, v :: vs => (if a.persistent then ' ' :: toStr v else []) ++ tagTokens as vs
  | _, _ => []

def fmtP3s (P : Nat) (p : P3) : List Char :=
  fmtG P p.x ++ ' ' :: (fmtG P p.y ++ ' ' :: fmtG P p.z)

/-- one particle line; positions and velocities with `pos.precision(8)` -/
def particleLine (f : Format) (frozen : Bool) (p : Particle) : List Char :=
  f.name ++ ' ' :: ((if frozen then wFrozen else wFree) ++ ' ' ::
    (fmtP3s 8 p.r ++ ' ' :: (fmtP3s 8 p.v ++ (tagTokens f.attrs p.tags ++ ['\n']))))

def particleLines (frozen : Bool) : List Format → List (List Particle) → List Char
  | f :: fs, ps :: pss => ps.flatMap (particleLine f frozen) ++ particleLines frozen fs pss
  | _, _ => []

/-- `Phase::writeRestartFile` -/
def write (fmts : List Format) (sys : System) : List Char :=
  fmts.flatMap headerLine ++ (bang ++ '\n' ::
    (particleLines false fmts sys.free ++ (particleLines true fmts sys.frozen ++ (bang ++ ['\n']))))

/-! ## The reader -/

/-- the accumulating loop of `readNext` for an arbitrary character class (so that the class before the
    `'+'` fix can be stated); `none`: end of file inside parentheses — the C++ never returns -/
def readNextLoop (acc : Char → Bool) : Int → List Char → Option (List Char × List Char)
  | level, [] => if level > 0 then none else some ([], [])
  | level, c :: cs =>
    if level > 0 ∨ acc c = true then
      (readNextLoop acc (if c = '(' then level + 1 else if c = ')' then level - 1 else level) cs).map
        (fun tr => (c :: tr.1, tr.2))
    else some ([], cs)

/-- `ParticleCreatorFile::readNext`: skip blanks (only `' '`), accumulate, the terminating character is consumed -/
def readNextWith (acc : Char → Bool) (cs : List Char) : Option (List Char × List Char) :=
  readNextLoop acc 0 (cs.dropWhile (· == ' '))

def readNext (cs : List Char) : Option (List Char × List Char) := readNextWith readNextAccepts cs

/-- `pos >> skipws >> s` -/
def readWord (cs : List Char) : List Char × List Char :=
  let cs' := cs.dropWhile isCSpace
  (cs'.takeWhile (fun c => !isCSpace c), cs'.dropWhile (fun c => !isCSpace c))

/-- `ManagerCell::getColour` (throws when the species is unknown) -/
def getColour (fmts : List Format) (name : List Char) : Option Nat :=
  match fmts with
  | [] => none
  | f :: fs => if f.name = name then some 0 else (getColour fs name).map (· + 1)

/-- `attrExists` / `attrByName` -/
def findAttr (name : List Char) : List Attr → Option (Nat × Attr)
  | [] => none
  | a :: as => if a.name = name then some (0, a) else (findAttr name as).map (fun ia => (ia.1 + 1, ia.2))

/-- an entry of `tags[c]` / `writeTags[c]`: `some (index, type)` when the column is stored, `none` when it is
    read and dropped (unknown name, or recomputed by a calculator) -/
abbrev Entry := Option (Nat × Ty)

def entryFor (f : Format) (name : List Char) : Entry :=
  match findAttr name f.attrs with
  | some (i, a) => if a.recomputed then none else some (i, a.ty)
  | none => none

/-- 2nd `while` of `createParticles`: column names up to `!!!` -/
def tagLoop (f : Format) : Nat → List Char → List Char → List Entry → List Entry × List Char
  | 0, _, cs, acc => (acc, cs)
  | fuel + 1, s, cs, acc =>
    if s = bang ∨ cs = [] then (acc, cs)
    else
      let w := readWord cs
      tagLoop f fuel w.1 w.2 (acc ++ [entryFor f s])

/-- 1st `while` of `createParticles`; the table is `tags`/`writeTags` indexed by colour -/
def hdrLoop (fmts : List Format) : Nat → List Char → List Char → (Nat → List Entry) →
    Except String ((Nat → List Entry) × List Char)
  | 0, _, _, _ => .error "err:fuel"
  | fuel + 1, s, cs, table =>
    if s = bang ∨ cs = [] then .ok (table, cs)
    else
      match getColour fmts s with
      | none => .error "err:species"
      | some c =>
        let w := readWord cs
        let t := tagLoop (fmts.getD c default) (fuel + 1) w.1 w.2 []
        if t.2 = [] then .error "err:corrupt"
        else
          let w' := readWord t.2
          hdrLoop fmts fuel w'.1 w'.2 (fun c' => if c' = c then table c' ++ t.1 else table c')

/-- `pos >> skipws >> x` for a `double` -/
def readDouble (cs : List Char) : Option (Dec × List Char) :=
  match scanNum cs with
  | (some d, r) => some (d, r)
  | (none, _) => none

def read3 (cs : List Char) : Option (P3 × List Char) :=
  match readDouble cs with
  | none => none
  | some (x, c1) =>
    match readDouble c1 with
    | none => none
    | some (y, c2) =>
      match readDouble c2 with
      | none => none
      | some (z, c3) => some (⟨x, y, z⟩, c3)

/-- `readParticle`: `free|frozen` is optional (then the word is already `r.x`) -/
def readParticle (cs : List Char) : Option (Bool × P3 × P3 × List Char) :=
  let w := readWord cs
  if w.1 = wFree ∨ w.1 = wFrozen then
    match read3 w.2 with
    | none => none
    | some (r, c1) =>
      match read3 c1 with
      | none => none
      | some (v, c2) => some (w.1 = wFrozen, r, v, c2)
  else
    match readDouble w.2 with
    | none => none
    | some (y, c1) =>
      match readDouble c1 with
      | none => none
      | some (z, c2) =>
        match read3 c2 with
        | none => none
        | some (v, c3) => some (false, ⟨atof w.1, y, z⟩, v, c3)

/-- the column loop: `s = readNext(pos); if (*boolIt) p.tag.fromStringByIndex(j->second, s)` -/
def readTags : List Entry → List Char → List Val → Option (List Val × List Char)
  | [], cs, tags => some (tags, cs)
  | e :: es, cs, tags =>
    match readNext cs with
    | none => none
    | some (tok, cs') =>
      readTags es cs' (match e with | some (i, ty) => tags.set i (fromStr ty tok) | none => tags)

/-- a particle as created by the reader -/
structure Rec where
  colour : Nat
  frozen : Bool
  p : Particle
deriving DecidableEq, Repr, Inhabited

/-- 3rd `while` of `createParticles` -/
def partLoop (fmts : List Format) (table : Nat → List Entry) : Nat → List Char → List Char → List Rec →
    Except String (List Rec)
  | 0, _, _, _ => .error "err:fuel"
  | fuel + 1, species, cs, acc =>
    if species = bang ∨ cs = [] then .ok acc
    else
      match getColour fmts species with
      | none => .error "err:species"
      | some c =>
        match readParticle cs with
        | none => .error "err:format"
        | some (frozen, r, v, c1) =>
          match readTags (table c) c1 ((fmts.getD c default).attrs.map (fun a => defaultVal a.ty)) with
          | none => .error "err:hang"
          | some (tags, c2) =>
            let w := readWord c2
            partLoop fmts table fuel w.1 w.2 (acc ++ [⟨c, frozen, ⟨r, v, tags⟩⟩])

/-- `ParticleCreatorFile::createParticles` up to `flushParticles`: the particles in file order -/
def read (fmts : List Format) (text : List Char) : Except String (List Rec) :=
  let w := readWord text
  match hdrLoop fmts (text.length + 1) w.1 w.2 (fun _ => []) with
  | .error e => .error e
  | .ok (table, cs) =>
    let w' := readWord cs
    partLoop fmts table (text.length + 1) w'.1 w'.2 []

/-- `flushParticles` → `Phase::addParticle` / `addFrozenParticle`: append to the list of the colour -/
def toPhase (n : Nat) (recs : List Rec) : System :=
  { free := (List.range n).map (fun c => (recs.filter (fun r => r.colour = c ∧ r.frozen = false)).map (·.p)),
    frozen := (List.range n).map (fun c => (recs.filter (fun r => r.colour = c ∧ r.frozen = true)).map (·.p)) }

/-- read a restart file into a new simulation with the tag formats `fmts` -/
def restore (fmts : List Format) (text : List Char) : Except String System :=
  match read fmts text with
  | .error e => .error e
  | .ok recs => .ok (toPhase fmts.length recs)

/-- what a restart can restore at best: non-persistent attributes are not in the file (zero after reading) -/
def Particle.persistentPart (f : Format) (p : Particle) : Particle :=
  { p with tags := List.zipWith (fun a v => if a.persistent then v else defaultVal a.ty) f.attrs p.tags }

def System.persistentPart (fmts : List Format) (sys : System) : System :=
  { free := List.zipWith (fun f ps => ps.map (Particle.persistentPart f)) fmts sys.free,
    frozen := List.zipWith (fun f ps => ps.map (Particle.persistentPart f)) fmts sys.frozen }

/-! ## Well-formed formats and systems (the hypotheses of the round-trip theorems) -/

/-- the two lists have the same length and corresponding elements are related -/
def All2 {α β : Type} (R : α → β → Prop) : List α → List β → Prop
  | [], [] => True
  | a :: as, b :: bs => R a b ∧ All2 R as bs
  | _, _ => False

/-- a name that `operator>>(string)` reads back as one word and that is not the section mark -/
def WordLike (w : List Char) : Prop := w ≠ [] ∧ (∀ c ∈ w, isCSpace c = false) ∧ w ≠ bang

instance (w : List Char) : Decidable (WordLike w) := by unfold WordLike; infer_instance

/-- species and attribute names are words, attribute names are distinct (`DataFormat` guarantees it),
    and no persistent attribute is recomputed by a calculator of the reading simulation -/
structure Format.wf (f : Format) : Prop where
  name : WordLike f.name
  attrNames : ∀ a ∈ f.attrs, WordLike a.name
  nodup : (f.attrs.map (·.name)).Nodup
  kept : ∀ a ∈ f.attrs, a.persistent = true → a.recomputed = false

structure Particle.wf (f : Format) (p : Particle) : Prop where
  r : p.r.wf 8
  v : p.v.wf 8
  tags : All2 (fun a v => Val.wf a.ty v) f.attrs p.tags

/-- one list of free and one of frozen particles per species; every particle on the exact domain -/
structure System.wf (fmts : List Format) (sys : System) : Prop where
  formats : ∀ f ∈ fmts, f.wf
  names : (fmts.map (·.name)).Nodup
  free : All2 (fun f ps => ∀ p ∈ ps, Particle.wf f p) fmts sys.free
  frozen : All2 (fun f ps => ∀ p ∈ ps, Particle.wf f p) fmts sys.frozen

/-- the particles of a system in the order the writer emits them -/
def recsFrom (frozen : Bool) : Nat → List (List Particle) → List Rec
  | _, [] => []
  | c, ps :: pss => ps.map (fun p => ⟨c, frozen, p⟩) ++ recsFrom frozen (c + 1) pss

def System.records (sys : System) : List Rec := recsFrom false 0 sys.free ++ recsFrom true 0 sys.frozen

/-! ## Driver (model name `restart`)

Input lines
```
species <name>
attr <name> <INT|DOUBLE|POINT|TENSOR> <persistent 0|1> <recomputed 0|1>      (belongs to the last species)
particle <species> <free|frozen> rx ry rz vx vy vz | <value> | <value> ...   (one value per attr, in order)
fmt <P> <rational>                                                            (prints `%.{P}g`)
```
numbers: rationals `p/q`, `-0` for the negative zero; POINT `a,b,c`; TENSOR nine numbers separated by `,`.
Particles are appended to the list of their (species, free|frozen) in input order (as the `Phase` holds them).

Output
```
fmt <text>                                       for every `fmt` line
text <nlines>
L <line>                                         the file the writer produces
read ok <n> | read <err:kind>
P <species> <free|frozen> r.. v.. | <name> <TY> <value> | ...    reconstructed particles, file order, ALL attrs
```
-/

def pow10 (k : Nat) : Nat := 10 ^ k

/-- exact decimal of a rational with at most `P` significant digits; `none` outside that domain -/
def decOfRat? (P : Nat) (q : Rat) : Option Dec :=
  let d := q.den
  let n := q.num.natAbs
  match (List.range 420).find? (fun k => pow10 k % d == 0) with
  | none => none
  | some k =>
    let me := normalize (n * pow10 k / d) (-(k : Int))
    if (digits me.1).length ≤ P ∨ me.1 = 0 then some ⟨q.num < 0, me.1, me.2⟩ else none

def Dec.toRat (d : Dec) : Rat :=
  let a : Rat := (d.mant : Int)
  let v : Rat := if d.exp ≥ 0 then a * ((pow10 d.exp.toNat : Nat) : Int) else a / ((pow10 (-d.exp).toNat : Nat) : Int)
  if d.neg then -v else v

def parseDec (P : Nat) (s : String) : Option Dec :=
  if s = "-0" then some ⟨true, 0, 0⟩
  else match parseRat s with
    | some q => decOfRat? P q
    | none => none

def showDec (d : Dec) : String :=
  if d.mant = 0 ∧ d.neg then "-0" else showRat d.toRat

def parseP3 (P : Nat) (ws : List String) : Option P3 :=
  match ws.mapM (parseDec P) with
  | some [x, y, z] => some ⟨x, y, z⟩
  | _ => none

def parseTy : String → Option Ty
  | "INT" => some .int | "DOUBLE" => some .double | "POINT" => some .point | "TENSOR" => some .tensor
  | _ => none

def showTy : Ty → String
  | .int => "INT" | .double => "DOUBLE" | .point => "POINT" | .tensor => "TENSOR"

def parseVal (ty : Ty) (s : String) : Option Val :=
  let parts := (s.splitOn ",").map (fun x => x.trimAscii.toString)
  match ty, parts with
  | .int, [a] => a.toInt?.map Val.int
  | .double, [a] => (parseDec 6 a).map Val.double
  | .point, [a, b, c] => (parseP3 6 [a, b, c]).map Val.point
  | .tensor, [a, b, c, d, e, f, g, h, i] =>
    match parseP3 6 [a, b, c], parseP3 6 [d, e, f], parseP3 6 [g, h, i] with
    | some x, some y, some z => some (.tensor x y z)
    | _, _, _ => none
  | _, _ => none

def showP3 (p : P3) : String := showDec p.x ++ "," ++ showDec p.y ++ "," ++ showDec p.z

def showVal : Val → String
  | .int i => toString i
  | .double d => showDec d
  | .point p => showP3 p
  | .tensor a b c => showP3 a ++ "," ++ showP3 b ++ "," ++ showP3 c

def tyOf : Val → Ty
  | .int _ => .int | .double _ => .double | .point _ => .point | .tensor .. => .tensor

structure DrvState where
  fmts : List Format := []
  sys : System := ⟨[], []⟩
  out : List String := []
  err : Option String := none

def addParticle (st : DrvState) (c : Nat) (frozen : Bool) (p : Particle) : DrvState :=
  if frozen then { st with sys := { st.sys with frozen := st.sys.frozen.modify c (· ++ [p]) } }
  else { st with sys := { st.sys with free := st.sys.free.modify c (· ++ [p]) } }

def parseVals : List Attr → List String → Option (List Val)
  | [], [] => some []
  | a :: as, s :: ss =>
    match parseVal a.ty s, parseVals as ss with
    | some v, some vs => some (v :: vs)
    | _, _ => none
  | _, _ => none

def drvLine (st : DrvState) (line : String) : DrvState :=
  if st.err.isSome then st else
  let segs := line.splitOn "|"
  let ws := words (segs.headD "")
  match ws with
  | [] => st
  | ["species", name] =>
    { st with fmts := st.fmts ++ [⟨name.toList, []⟩],
              sys := ⟨st.sys.free ++ [[]], st.sys.frozen ++ [[]]⟩ }
  | ["attr", name, ty, pers, rec] =>
    match parseTy ty, st.fmts.reverse with
    | some t, f :: rest =>
      { st with fmts := (⟨f.name, f.attrs ++ [⟨name.toList, t, pers == "1", rec == "1"⟩]⟩ :: rest).reverse }
    | _, _ => { st with err := some "err:input" }
  | ["fmt", p, q] =>
    match p.toNat?, parseRat q with
    | some P, some r =>
      match (if q = "-0" then some ⟨true, 0, 0⟩ else decOfRat? P r) with
      | some d => { st with out := st.out ++ ["fmt " ++ String.ofList (fmtG P d)] }
      | none => { st with out := st.out ++ ["fmt err:domain"] }
    | _, _ => { st with err := some "err:input" }
  | ["particle", sp, ff, rx, ry, rz, vx, vy, vz] =>
    match getColour st.fmts sp.toList, parseP3 8 [rx, ry, rz], parseP3 8 [vx, vy, vz] with
    | some c, some r, some v =>
      match parseVals (st.fmts.getD c default).attrs (segs.drop 1) with
      | some vals =>
        if ff = "free" ∨ ff = "frozen" then addParticle st c (ff == "frozen") ⟨r, v, vals⟩
        else { st with err := some "err:input" }
      | none => { st with err := some "err:domain" }
    | none, _, _ => { st with err := some "err:species" }
    | _, _, _ => { st with err := some "err:domain" }
  | _ => { st with err := some "err:input" }

def showRec (fmts : List Format) (r : Rec) : String :=
  let f := fmts.getD r.colour default
  let cols := (f.attrs.zip r.p.tags).map (fun av =>
    " | " ++ String.ofList av.1.name ++ " " ++ showTy (tyOf av.2) ++ " " ++ showVal av.2)
  "P " ++ String.ofList f.name ++ (if r.frozen then " frozen " else " free ") ++
    showDec r.p.r.x ++ " " ++ showDec r.p.r.y ++ " " ++ showDec r.p.r.z ++ " " ++
    showDec r.p.v.x ++ " " ++ showDec r.p.v.y ++ " " ++ showDec r.p.v.z ++ String.join cols

/-- split at `'\n'` (the last piece, after the final newline, is dropped when empty) -/
def splitLines (cs : List Char) : List String :=
  let ls := (String.ofList cs).splitOn "\n"
  if ls.getLast? = some "" then ls.dropLast else ls

def driver (lines : List String) : List String :=
  let st := lines.foldl drvLine {}
  match st.err with
  | some e => st.out ++ [e]
  | none =>
    if st.fmts.isEmpty then st.out else
    let text := write st.fmts st.sys
    let ls := splitLines text
    let hd := st.out ++ ["text " ++ toString ls.length] ++ ls.map ("L " ++ ·)
    match read st.fmts text with
    | .error e => hd ++ ["read " ++ e]
    | .ok recs => hd ++ ["read ok " ++ toString recs.length] ++ recs.map (showRec st.fmts)

end Sympler.Restart
