import Sympler.Expr

/-!
# C03 — PRE-FIX HISTORY (not the current behaviour)

Definitions describing what `/repo/source/src/function_parser/` did BEFORE the commits

* ad91e0f "fix: integer-typed sub-expressions in the generated C code (step, zeros of
  idMat/diagMat/uVec*/xyMat, x^0)" and
* 461b1b3 "fix: expression parser hung on unbalanced brackets, aborted on nested empty brackets; null
  dereference for vector/tensor variables in an exponent".

Everything here lives in the namespace `Sympler.Expr.Old` and carries the suffix `Old`.  Nothing in the
model (`Sympler/Expr.lean`), in the lemma files or in the property theorems depends on it; it only
serves the `C03_old_…_witness` theorems of `Props/C03.lean`, which record the former findings.

Core Lean only.
-/
namespace Sympler.Expr.Old

open Sympler.Expr

/-- outcome of the pre-fix bracket prologue of `parseThis` -/
inductive StripOld
  | ok (e : List Char)
  /-- "Empty bracket!" -/
  | emptyBracket
  /-- the `while(open)` loop never terminated (`1 + npos` wrapped to 0) -/
  | hang
  /-- `string(expr, 1, …)` on the empty string: uncaught `std::out_of_range`, SIGABRT -/
  | crash
  deriving DecidableEq, Repr

/-- the pre-fix `do … while (foundBrackets)` loop: entered only if `expr[0] == '('`, but repeated
without looking at `expr[0]` / `expr[1]` again, and without the "Unbalanced brackets" test:
* the end is reached with `open = 1`: `--open` gives 0, `position = npos`, no stripping — unless the
  string is EMPTY, then `npos == size()-1` and `string(expr, 1, …)` throws (`crash`);
* the end is reached with `open > 1`: `1+npos` wraps to 0, the scan restarts, `open` grows for ever
  (`hang`). -/
def stripLoopOld : Nat → List Char → StripOld
  | 0, e => .ok e
  | fuel+1, e =>
    match e with
    | [] => .crash
    | _ :: tl =>
      match scanClose tl 1 1 with
      | (some p, _) => if p + 1 = e.length then stripLoopOld fuel tl.dropLast else .ok e
      | (none, o) => if o ≤ 1 then .ok e else .hang

def stripBracketsOld (e : List Char) : StripOld :=
  match e with
  | '(' :: rest =>
    if rest.head? = some ')' then .emptyBracket
    else stripLoopOld (e.length + 1) e
  | _ => .ok e

/-- pre-fix zero components of `diagMat idMat uVecX uVecY uVecZ xyMat`: `(0)`, a C `int` -/
def zeroCOld : CE := .par (.lit ['0'])

/-- pre-fix `x^0`: `(1)`, a C `int` -/
def oneCOld : CE := .par (.lit ['1'])

/-- pre-fix `FNStep::toC`: `((x) > 0 ? 1 : 0)`, a C `int` -/
def stepCOld (x : CE) : CE := .par (.gt0 (.par x) (.lit ['1']) (.lit ['0']))

/-- pre-fix `FNStepVal::toC`: `((x) > 0 ? (x) : 0)` (a `double`, through the usual conversions) -/
def stpValCOld (x : CE) : CE := .par (.gt0 (.par x) (.par x) (.lit ['0']))

/-- pre-fix `FP*Variable::value()` with the NULL value pointers of production -/
inductive NullOld
  /-- `FPScalarVariable`: a `gError` -/
  | gError
  /-- `FPVectorVariable`, `FPTensorVariable`: NULL dereferenced, SIGSEGV -/
  | segfault
  deriving DecidableEq, Repr

def lookupNullOld : Ty → NullOld
  | .scalar => .gError
  | _ => .segfault

end Sympler.Expr.Old
