/-!
Shared helpers for the executable models: rational I/O for the line protocol.
Core Lean only.
-/
namespace Sympler

/-- Parse `p` or `p/q` or `-p/q` into a rational; `none` on anything else. -/
def parseRat (s : String) : Option Rat :=
  match s.splitOn "/" with
  | [p] => (p.toInt?).map (fun (i : Int) => (i : Rat))
  | [p, q] =>
    match p.toInt?, q.toNat? with
    | some i, some n => if n = 0 then none else some ((i : Rat) / (n : Rat))
    | _, _ => none
  | _ => none

/-- Print a rational in lowest terms, `q` omitted when 1. -/
def showRat (r : Rat) : String :=
  if r.den = 1 then toString r.num else toString r.num ++ "/" ++ toString r.den

def parseNats (ws : List String) : Option (List Nat) := ws.mapM String.toNat?

def words (line : String) : List String :=
  (line.trimAscii.toString.splitOn " ").filter (· ≠ "")

end Sympler
