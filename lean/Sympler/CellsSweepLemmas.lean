import Sympler.CellsLemmas

/-!
Lemmas about the per-step state machine of `Sympler/Cells.lean`: the particle loop, the sweep over the
active-cell list, `commitInjections`, the initial assignment.  Continues `Sympler/CellsLemmas.lean`.
Core Lean only.
-/
namespace Sympler.Cells
open Sympler Sympler.Grid Sympler.Gen.CellTables

/-! equation lemmas by `rfl` with the big bodies sealed (unfolding `checkNewPosition` in a definitional
unfolding check makes `whnf` explode on the `Rat` comparisons) -/

attribute [local irreducible] checkNewPosition

theorem updateParticles_nil (S : Sys) (c k : Nat) (s : St) : updateParticles S c k [] s = .ok s := rfl

theorem updateParticles_cons (S : Sys) (c k p : Nat) (ps : List Nat) (s : St) :
    updateParticles S c k (p :: ps) s =
      match checkNewPosition S s c k p with
      | .ok s' => updateParticles S c k ps s'
      | .error e => .error e := rfl

theorem updateCell_eq (S : Sys) (k : Nat) (s : St) (c : Nat) :
    updateCell S k s c = updateParticles S c k (s.freeAt c k) s := rfl

attribute [local irreducible] updateCell

theorem sweepAux_none (S : Sys) (k fuel : Nat) (s : St) : sweepAux S k fuel none s = .ok s := by
  cases fuel <;> rfl

theorem sweepAux_succ (S : Sys) (k fuel i : Nat) (s : St) :
    sweepAux S k (fuel + 1) (some i) s =
      match updateCell S k s i with
      | .ok s' => sweepAux S k fuel (s.act.cl.next.get i) s'
      | .error e => .error e := rfl

theorem CheckOutcome.freeAt_eq {S : Sys} {s s' : St} {c k p : Nat} (h : CheckOutcome S s s' c k p) :
    (∀ c' k', s'.freeAt c' k' = s.freeAt c' k') ∨
    (∀ c' k', s'.freeAt c' k' = if c' = c ∧ k' = k then (s.freeAt c k).erase p else s.freeAt c' k') := by
  cases h with
  | stay h _ => left; intro c' k'; rw [h]
  | erased hfree => right; intro c' k'; simp only [St.freeAt, hfree, get_setAt]
  | moved t n ht hn hout outside hfree => right; intro c' k'; simp only [St.freeAt, hfree, get_setAt]

theorem CheckOutcome.mem_of_ne {S : Sys} {s s' : St} {c k p : Nat} (h : CheckOutcome S s s' c k p)
    {q : Nat} (hq : q ≠ p) (hm : q ∈ s.freeAt c k) : q ∈ s'.freeAt c k := by
  rcases h.freeAt_eq with e | e
  · rw [e]; exact hm
  · rw [e]; simp only [and_self, if_true]; exact (List.mem_erase_of_ne hq).mpr hm

theorem erase_erase_self {l : List Nat} (hn : l.Nodup) (c : Nat) : (l.erase c).erase c = l.erase c := by
  apply List.erase_of_not_mem
  intro hm
  exact ((List.Nodup.mem_erase_iff hn).mp hm).1 rfl

/-- Induction principle for the particle loop of `Cell::updatePositions`: the invariant is kept, the
active-cell list is unchanged or lost the cell itself, and any predicate `Q` (on the particles still to
be visited and the state) that survives one `checkNewPosition` holds at the end. -/
theorem updateParticles_ind {S : Sys} (hG : GridOK S.G) {U UF : List (Nat × Nat)} (c k : Nat)
    (Q : List Nat → St → Prop)
    (step : ∀ s s' p ps, Inv S U UF s → p ∈ s.freeAt c k → p ∉ ps → (∀ q ∈ ps, q ∈ s.freeAt c k) →
      Q (p :: ps) s → CheckOutcome S s s' c k p → Inv S U UF s' → Q ps s') :
    ∀ (ps : List Nat) (s : St), Inv S U UF s → ps.Nodup → (∀ p ∈ ps, p ∈ s.freeAt c k) → Q ps s →
      ∀ s', updateParticles S c k ps s = .ok s' →
        Inv S U UF s' ∧ Q [] s' ∧ (∀ L, s.act.cl.Repr L → s'.act.cl.Repr L ∨ s'.act.cl.Repr (L.erase c)) := by
  intro ps
  induction ps with
  | nil =>
    intro s h _ _ hQ s' e
    rw [updateParticles_nil] at e
    have e' := Except.ok.inj e
    subst e'
    exact ⟨h, hQ, fun L hL => Or.inl hL⟩
  | cons p ps ih =>
    intro s h hn hmem hQ s' e
    have hp : p ∈ s.freeAt c k := hmem p (by simp)
    have hpn : p ∉ ps := (List.nodup_cons.mp hn).1
    rw [updateParticles_cons] at e
    rcases checkNewPosition_inv hG h hp with ⟨s1, e1, inv1, out1, r1⟩ | e1 | ⟨e1, _⟩
    · rw [e1] at e
      simp only at e
      have hmem1 : ∀ q ∈ ps, q ∈ s1.freeAt c k := by
        intro q hq
        exact out1.mem_of_ne (fun e => hpn (e ▸ hq)) (hmem q (by simp [hq]))
      have hQ1 := step s s1 p ps h hp hpn (fun q hq => hmem q (by simp [hq])) hQ out1 inv1
      obtain ⟨inv2, hQ2, r2⟩ := ih s1 inv1 (List.nodup_cons.mp hn).2 hmem1 hQ1 s' e
      refine ⟨inv2, hQ2, ?_⟩
      intro L hL
      rcases r1 L hL with h1 | h1
      · exact r2 L h1
      · rcases r2 _ h1 with h2 | h2
        · exact Or.inr h2
        · rw [erase_erase_self hL.nodup] at h2; exact Or.inr h2
    · rw [e1] at e; simp at e
    · rw [e1] at e; simp at e

/-- the sweep of `ManagerCell::invalidatePositions` as a plain loop over a list of cells -/
def sweepList (S : Sys) (k : Nat) : List Nat → St → Except Err St
  | [], s => .ok s
  | c :: cs, s =>
    match updateCell S k s c with
    | .ok s' => sweepList S k cs s'
    | .error e => .error e

theorem sweepList_cons (S : Sys) (k c : Nat) (cs : List Nat) (s : St) :
    sweepList S k (c :: cs) s =
      match updateCell S k s c with
      | .ok s' => sweepList S k cs s'
      | .error e => .error e := rfl

/-- **The pointer-chasing sweep visits exactly the cells that were active at its start, each once, in
list order** — although a cell may remove itself from the list while it is being visited
(`next` is saved before the body): with enough fuel `sweepAux` from the head of a suffix `Sfx` of the
represented list equals the plain loop over `Sfx`. -/
theorem sweepAux_eq_sweepList {S : Sys} (hG : GridOK S.G) {U UF : List (Nat × Nat)} (k : Nat) :
    ∀ (Sfx P : List Nat) (fuel : Nat) (s : St), Inv S U UF s → s.act.cl.Repr (P ++ Sfx) →
      Sfx.length ≤ fuel → sweepAux S k fuel Sfx.head? s = sweepList S k Sfx s := by
  intro Sfx
  induction Sfx with
  | nil => intro P fuel s _ _ _; rw [List.head?_nil, sweepAux_none]; rfl
  | cons c Sfx ih =>
    intro P fuel s h hR hf
    obtain ⟨fuel', rfl⟩ : ∃ f, fuel = f + 1 := ⟨fuel - 1, by simp at hf; omega⟩
    rw [List.head?_cons, sweepAux_succ, sweepList_cons]
    rw [DLL.repr_next_split hR]
    cases e : updateCell S k s c with
    | error err => rfl
    | ok s1 =>
      simp only
      rw [updateCell_eq] at e
      have hnd := h.free_nodup c k
      obtain ⟨inv1, _, r1⟩ := updateParticles_ind hG c k (fun _ _ => True)
        (fun _ _ _ _ _ _ _ _ _ _ _ => trivial) (s.freeAt c k) s h hnd (fun p hp => hp) trivial s1 e
      have hcP : c ∉ P := by
        have := hR.nodup
        rw [List.nodup_append] at this
        intro hm
        exact this.2.2 c hm c (by simp) rfl
      rcases r1 _ hR with h1 | h1
      · exact ih (P ++ [c]) fuel' s1 inv1 (by simpa using h1) (by simp at hf; omega)
      · have : (P ++ c :: Sfx).erase c = P ++ Sfx := by
          rw [List.erase_append_right _ hcP]; simp
        rw [this] at h1
        exact ih P fuel' s1 inv1 h1 (by simp at hf; omega)

/-- the whole sweep = the plain loop over the list of cells active at its start -/
theorem sweep_eq_sweepList {S : Sys} (hG : GridOK S.G) {U UF : List (Nat × Nat)} (k : Nat) {s : St}
    (h : Inv S U UF s) {L : List Nat} (hL : s.act.cl.Repr L) : sweep S k s = sweepList S k L s := by
  unfold sweep
  rw [hL.first, ← List.head?_eq_getElem?]
  exact sweepAux_eq_sweepList hG k L [] _ s h (by simpa using hL) (by rw [hL.count]; exact Nat.le_refl _)

/-- one cell of the sweep keeps the invariant -/
theorem updateCell_inv {S : Sys} (hG : GridOK S.G) {U UF : List (Nat × Nat)} {k : Nat} {s s' : St} {c : Nat}
    (h : Inv S U UF s) (e : updateCell S k s c = .ok s') : Inv S U UF s' := by
  rw [updateCell_eq] at e
  exact (updateParticles_ind hG c k (fun _ _ => True) (fun _ _ _ _ _ _ _ _ _ _ _ => trivial)
    (s.freeAt c k) s h (h.free_nodup c k) (fun p hp => hp) trivial s' e).1

/-- induction principle for the sweep seen as a loop over a list of cells -/
theorem sweepList_ind {S : Sys} (hG : GridOK S.G) {U UF : List (Nat × Nat)} (k : Nat)
    (R : List Nat → St → Prop)
    (step : ∀ s s' c cs, Inv S U UF s → R (c :: cs) s → updateCell S k s c = .ok s' → R cs s') :
    ∀ (cs : List Nat) (s : St), Inv S U UF s → R cs s → ∀ s', sweepList S k cs s = .ok s' →
      Inv S U UF s' ∧ R [] s' := by
  intro cs
  induction cs with
  | nil =>
    intro s h hR s' e
    have e' : s = s' := Except.ok.inj e
    subst e'; exact ⟨h, hR⟩
  | cons c cs ih =>
    intro s h hR s' e
    rw [sweepList_cons] at e
    cases e1 : updateCell S k s c with
    | error err => rw [e1] at e; simp at e
    | ok s1 =>
      rw [e1] at e
      exact ih s1 (updateCell_inv hG h e1) (step s s1 c cs h hR e1) s' e

theorem sweep_inv {S : Sys} (hG : GridOK S.G) {U UF : List (Nat × Nat)} {k : Nat} {s s' : St}
    (h : Inv S U UF s) (e : sweep S k s = .ok s') : Inv S U UF s' := by
  obtain ⟨L, hL, _⟩ := h.book.act
  rw [sweep_eq_sweepList hG k h hL.cl] at e
  exact (sweepList_ind hG k (fun _ _ => True) (fun _ _ _ _ _ _ _ => trivial) L s h trivial s' e).1

/-- `commitInjections` of all cells keeps the invariant and empties every injection buffer -/
theorem commitAll_inv {S : Sys} (hG : GridOK S.G) {U UF : List (Nat × Nat)} {s : St} (h : Inv S U UF s) :
    ∃ s', commitAll S s = .ok s' ∧ Inv S U UF s' ∧
      (∀ c k, s'.freeAt c k = s.freeAt c k ++ s.injAt c k) ∧ (∀ c k, s'.injAt c k = []) ∧
      s'.frozen = s.frozen ∧ s'.pos = s.pos ∧ s'.fpos = s.fpos ∧ s'.erased = s.erased := by
  obtain ⟨s', e, b, f, j, z, p, q, r⟩ := commitAll_book hG h.book
  have f' : ∀ c k, s'.freeAt c k = s.freeAt c k ++ s.injAt c k := by
    intro c k
    rw [f c k]
    by_cases hck : c < S.nCells ∧ k < S.nCol
    · rw [if_pos hck]
    · rw [if_neg hck, (h.supp c k hck).2.1]; simp
  have j' : ∀ c k, s'.injAt c k = [] := by
    intro c k
    rw [j c k]
    by_cases hck : c < S.nCells ∧ k < S.nCol
    · rw [if_pos hck]
    · rw [if_neg hck, (h.supp c k hck).2.1]
  refine ⟨s', e, ⟨b, ?_, ?_, ?_⟩, f', j', z, p, q, r⟩
  · intro k p'
    rw [r, ← h.occ k p']
    apply occ_congr
    intro c _
    rw [f' c k, j' c k]; simp [List.count_append]
  · intro k p'; exact (focc_congr z k p').trans (h.focc k p')
  · intro c k hn
    obtain ⟨a1, a2, a3⟩ := h.supp c k hn
    refine ⟨by rw [f' c k, a1, a2]; rfl, j' c k, ?_⟩
    simp only [St.frozenAt, z]; exact a3

theorem setPositions_frame (k : Nat) : ∀ (ms : List (Nat × V3 Rat)) (s : St),
    (setPositions k ms s).free = s.free ∧ (setPositions k ms s).frozen = s.frozen ∧
    (setPositions k ms s).inj = s.inj ∧ (setPositions k ms s).nPart = s.nPart ∧
    (setPositions k ms s).act = s.act ∧ (setPositions k ms s).fpos = s.fpos ∧
    (setPositions k ms s).erased = s.erased ∧
    (∀ k' p, k' ≠ k → (setPositions k ms s).posAt k' p = s.posAt k' p) := by
  intro ms
  induction ms with
  | nil => intro s; exact ⟨rfl, rfl, rfl, rfl, rfl, rfl, rfl, fun _ _ _ => rfl⟩
  | cons m ms ih =>
    intro s
    obtain ⟨p, r⟩ := m
    simp only [setPositions]
    obtain ⟨a1, a2, a3, a4, a5, a6, a7, a8⟩ := ih ({ s with pos := setAt s.pos k p r })
    refine ⟨a1, a2, a3, a4, a5, a6, a7, ?_⟩
    intro k' p' hk
    rw [a8 k' p' hk]
    simp [St.posAt, get_setAt, hk]

theorem setPositions_inv {S : Sys} {U UF : List (Nat × Nat)} (k : Nat) (ms : List (Nat × V3 Rat)) {s : St}
    (h : Inv S U UF s) : Inv S U UF (setPositions k ms s) := by
  obtain ⟨a1, a2, a3, a4, a5, a6, a7, _⟩ := setPositions_frame k ms s
  have hf : ∀ c k', (setPositions k ms s).freeAt c k' = s.freeAt c k' := by
    intro c k'; simp only [St.freeAt, a1]
  have hi : ∀ c k', (setPositions k ms s).injAt c k' = s.injAt c k' := by
    intro c k'; simp only [St.injAt, a3]
  have hz : ∀ c k', (setPositions k ms s).frozenAt c k' = s.frozenAt c k' := by
    intro c k'; simp only [St.frozenAt, a2]
  refine ⟨⟨?_, ?_⟩, ?_, ?_, ?_⟩
  · rw [a5, a4]; exact h.book.act
  · intro c; rw [a4, h.book.npart c]; unfold cellCount; simp only [hf, hz]
  · intro k' p; rw [a7, ← h.occ k' p]; unfold occ; simp only [hf, hi]
  · intro k' p; exact (focc_congr a2 k' p).trans (h.focc k' p)
  · intro c k' hn; rw [hf, hi, hz]; exact h.supp c k' hn

/-- **one integrator's `integrateStep1`** (new positions, sweep, commit) keeps the invariant; the only
error is `PARTICLEFLEWTOOFAR` … -/
theorem moveColour_inv {S : Sys} (hG : GridOK S.G) {U UF : List (Nat × Nat)} {k : Nat}
    {ms : List (Nat × V3 Rat)} {s s' : St} (h : Inv S U UF s) (e : moveColour S k ms s = .ok s') :
    Inv S U UF s' ∧ ∀ c k', s'.injAt c k' = [] := by
  unfold moveColour invalidatePositions at e
  cases e1 : sweep S k (setPositions k ms s) with
  | error err => rw [e1] at e; simp at e
  | ok s1 =>
    rw [e1] at e
    simp only at e
    have inv1 := sweep_inv hG (setPositions_inv k ms h) e1
    obtain ⟨s2, e2, inv2, _, j2, _⟩ := commitAll_inv hG inv1
    rw [e2] at e
    have : s2 = s' := Except.ok.inj e
    subst this
    exact ⟨inv2, j2⟩

/-! ### the initial assignment -/

theorem findCell_lt {G : Grid.Grid} {eps : Rat} {r : V3 Rat} {c : Nat} (h : findCell G eps r = some c) :
    c < G.cells.size ∧
      isInsideEps (G.cells.getD c default).c1 (G.cells.getD c default).c2 r eps = true := by
  unfold findCell at h
  split at h
  · simp only at h
    split at h
    · rename_i cg hcg
      split at h
      · rename_i hin
        have hc := Option.some.inj h
        subst hc
        obtain ⟨hlt, hget⟩ := Array.getElem?_eq_some_iff.mp hcg
        refine ⟨hlt, ?_⟩
        simp only [Array.getD_eq_getD_getElem?, hcg, Option.getD_some]
        exact hin
      · simp at h
    · simp at h
  · simp at h

/-- registering a new free particle in an injection buffer -/
theorem injectFree_inv {S : Sys} {U UF : List (Nat × Nat)} {s : St} (h : Inv S U UF s) {c k p : Nat}
    (hc : c < S.nCells) (hk : k < S.nCol) (hU : (k, p) ∉ U) (hE : s.erased = []) (r : V3 Rat) :
    Inv S ((k, p) :: U) UF (injectFree { s with pos := setAt s.pos k p r } c k p) := by
  obtain ⟨j1, j2⟩ := occ_after_inject (S := S) ({ s with pos := setAt s.pos k p r } : St) k p hc
  have occpos : ∀ k' p', occ S ({ s with pos := setAt s.pos k p r } : St) k' p' = occ S s k' p' := fun _ _ => rfl
  refine ⟨injectFree_book (setPos_book h.book _) c k p, ?_, h.focc, ?_⟩
  · intro k' p'
    show _ = if (k', p') ∈ (k, p) :: U ∧ (k', p') ∉ s.erased then 1 else 0
    by_cases hkp : (k', p') = (k, p)
    · obtain ⟨rfl, rfl⟩ := Prod.mk.inj hkp
      rw [j2, occpos, h.occ k' p']
      simp [hU, hE]
    · rw [j1 k' p' hkp, occpos, h.occ k' p']
      simp [hkp]
  · intro c' k' hn
    obtain ⟨a1, a2, a3⟩ := h.supp c' k' hn
    refine ⟨a1, ?_, a3⟩
    simp only [St.injAt, injectFree, get_setAt]
    split
    · rename_i hck; obtain ⟨rfl, rfl⟩ := hck; exact absurd ⟨hc, hk⟩ hn
    · exact a2

theorem assignFree_inv {S : Sys} : ∀ (fs : List (Nat × Nat × V3 Rat)) {U UF : List (Nat × Nat)} {s s' : St},
    Inv S U UF s → s.erased = [] → (fs.map fun x => (x.1, x.2.1)).Nodup →
    (∀ x ∈ fs, (x.1, x.2.1) ∉ U ∧ x.1 < S.nCol) → assignFree S fs s = .ok s' →
    Inv S ((fs.map fun x => (x.1, x.2.1)).reverse ++ U) UF s' ∧ s'.erased = [] ∧ s'.frozen = s.frozen ∧
      s'.nPart = s.nPart ∧ s'.act = s.act := by
  intro fs
  induction fs with
  | nil =>
    intro U UF s s' h hE _ _ e
    have : s = s' := Except.ok.inj e
    subst this
    exact ⟨by simpa using h, hE, rfl, rfl, rfl⟩
  | cons x fs ih =>
    intro U UF s s' h hE hn hx e
    obtain ⟨k, p, r⟩ := x
    simp only [assignFree] at e
    cases hf : findCell S.G S.eps r with
    | none => rw [hf] at e; simp at e
    | some c =>
      rw [hf] at e
      simp only at e
      have hc := (findCell_lt hf).1
      have hx0 := hx (k, p, r) (by simp)
      simp only [List.map_cons, List.nodup_cons] at hn
      have inv1 := injectFree_inv h hc hx0.2 hx0.1 hE r
      obtain ⟨inv2, e2, z2, n2, a2⟩ := ih inv1 hE hn.2
        (by
          intro y hy
          refine ⟨?_, (hx y (by simp [hy])).2⟩
          simp only [List.mem_cons, not_or]
          refine ⟨?_, (hx y (by simp [hy])).1⟩
          intro heq
          apply hn.1
          rw [← heq]
          exact List.mem_map.mpr ⟨y, hy, rfl⟩) e
      refine ⟨?_, e2, z2, n2, a2⟩
      simpa [List.append_assoc] using inv2

theorem injectFrozen_aux {S : Sys} (hG : GridOK S.G) {U UF : List (Nat × Nat)} {s : St} (h : Inv S U UF s)
    {c k p : Nat} (hc : c < S.nCells) (hk : k < S.nCol) (hUF : (k, p) ∉ UF) (s1 : St)
    (g1 : s1.free = s.free ∧ s1.inj = s.inj ∧ s1.nPart = s.nPart ∧ s1.act = s.act ∧ s1.erased = s.erased ∧
      s1.pos = s.pos)
    (g2 : s1.frozen = setAt s.frozen c k (s.frozenAt c k ++ [p])) :
    ∃ s', (match (if s1.nPart.get c = 0 then activate S s1 c else .ok s1) with
        | .ok t => Except.ok ({ t with nPart := t.nPart.set c (t.nPart.get c + 1) } : St)
        | .error e => .error e) = .ok s' ∧ Inv S U ((k, p) :: UF) s' ∧ s'.erased = s.erased ∧
        s'.free = s.free ∧ s'.inj = s.inj ∧ s'.pos = s.pos ∧ s'.fpos = s1.fpos ∧
        s'.frozen = setAt s.frozen c k (s.frozenAt c k ++ [p]) := by
  obtain ⟨L, hL, hiff⟩ := h.book.act
  obtain ⟨g11, g12, g13, g14, g15, g16⟩ := g1
  have hfz : ∀ c' k', s1.frozenAt c' k' = if c' = c ∧ k' = k then s.frozenAt c k ++ [p] else s.frozenAt c' k' := by
    intro c' k'; simp only [St.frozenAt, g2, get_setAt]
  have hfr : ∀ c' k', s1.freeAt c' k' = s.freeAt c' k' := by intro c' k'; simp only [St.freeAt, g11]
  have hin : ∀ c' k', s1.injAt c' k' = s.injAt c' k' := by intro c' k'; simp only [St.injAt, g12]
  have hcnt_c : cellCount S s1 c = cellCount S s c + 1 := by
    unfold cellCount
    apply sum_map_range_update _ _ S.nCol k 1 hk
    · intro j hj; simp only [hfr, hfz, hj, and_false, if_false]
    · simp only [hfr, hfz, and_self, if_true, List.length_append, List.length_singleton]; omega
  have hcnt_ne : ∀ c', c' ≠ c → cellCount S s1 c' = cellCount S s c' := by
    intro c' hc'
    unfold cellCount
    apply sum_map_range_congr
    intro j _; simp only [hfr, hfz, hc', false_and, if_false]
  have hA : ActInv S.G s1.act L := by rw [g14]; exact hL
  have hfocc : ∀ k' p', foccOf S s1 k' p' = if (k', p') ∈ (k, p) :: UF then 1 else 0 := by
    intro k' p'
    by_cases hkp : (k', p') = (k, p)
    · obtain ⟨rfl, rfl⟩ := Prod.mk.inj hkp
      have : foccOf S s1 k' p' = foccOf S s k' p' + 1 := by
        unfold foccOf
        apply sum_map_range_update _ _ S.nCells c 1 hc
        · intro j hj; simp only [hfz, hj, false_and, if_false]
        · simp only [hfz, and_self, if_true, List.count_append, List.count_singleton, beq_self_eq_true, if_true]
      rw [this, h.focc k' p']; simp [hUF]
    · have : foccOf S s1 k' p' = foccOf S s k' p' := by
        unfold foccOf
        apply sum_map_range_congr
        intro j _
        rw [hfz]
        split
        · rename_i hck
          obtain ⟨rfl, rfl⟩ := hck
          have : p' ≠ p := fun e => hkp (by rw [e])
          rw [List.count_append, List.count_singleton]; simp [Ne.symm this]
        · rfl
      rw [this, h.focc k' p']; simp [hkp]
  have hocc : ∀ (s2 : St), s2.free = s1.free → s2.inj = s1.inj → ∀ k' p', occ S s2 k' p' = occ S s k' p' := by
    intro s2 e1 e2 k' p'; unfold occ St.freeAt St.injAt; rw [e1, e2, g11, g12]
  have hsupp : ∀ (s2 : St), s2.free = s1.free → s2.inj = s1.inj → s2.frozen = s1.frozen →
      ∀ c' k', ¬ (c' < S.nCells ∧ k' < S.nCol) →
        s2.freeAt c' k' = [] ∧ s2.injAt c' k' = [] ∧ s2.frozenAt c' k' = [] := by
    intro s2 e1 e2 e3 c' k' hn
    obtain ⟨a1, a2, a3⟩ := h.supp c' k' hn
    refine ⟨?_, ?_, ?_⟩
    · simp only [St.freeAt, e1, g11]; exact a1
    · simp only [St.injAt, e2, g12]; exact a2
    · have := hfz c' k'
      simp only [St.frozenAt, e3] at this ⊢
      rw [this]
      split
      · rename_i hck; obtain ⟨rfl, rfl⟩ := hck; exact absurd ⟨hc, hk⟩ hn
      · exact a3
  by_cases hz : s1.nPart.get c = 0
  · rw [if_pos hz]
    have hcL : c ∉ L := by
      intro hm; have := (hiff c).mp hm; rw [g13] at hz; omega
    obtain ⟨s', e, inv', same, np'⟩ := activate_ok hG hA hcL hc
    obtain ⟨f1, f2, f3, f4, f5, f6⟩ := same
    rw [e]
    refine ⟨{ s' with nPart := s'.nPart.set c (s'.nPart.get c + 1) }, rfl, ⟨⟨⟨c :: L, inv', ?_⟩, ?_⟩, ?_, ?_, ?_⟩, ?_⟩
    · intro x
      simp only [List.mem_cons, Store.get_set, np', g13]
      by_cases hx : x = c
      · simp only [hx, if_true, true_or, true_iff]; omega
      · simp [hx, hiff x]
    · intro x
      have hcc : cellCount S ({ s' with nPart := s'.nPart.set c (s'.nPart.get c + 1) } : St) x = cellCount S s1 x := by
        unfold cellCount St.freeAt St.frozenAt; simp only [f1, f2]
      rw [hcc]
      simp only [Store.get_set, np', g13]
      by_cases hx : x = c
      · subst hx; simp only [if_true]; rw [hcnt_c, h.book.npart x]
      · simp only [hx, if_false]; rw [hcnt_ne x hx, h.book.npart x]
    · intro k' p'
      refine (hocc _ (show _ = s1.free from f1) (show _ = s1.inj from f3) k' p').trans ?_
      rw [h.occ k' p']
      simp only [f6, g15]
    · intro k' p'; rw [← hfocc k' p']; exact focc_congr f2 k' p'
    · exact hsupp _ f1 f3 f2
    · exact ⟨by simp only [f6, g15], f1.trans g11, f3.trans g12, f4.trans g16, f5, f2.trans g2⟩
  · rw [if_neg hz]
    refine ⟨{ s1 with nPart := s1.nPart.set c (s1.nPart.get c + 1) }, rfl, ⟨⟨⟨L, hA, ?_⟩, ?_⟩, ?_, ?_, ?_⟩, ?_⟩
    · intro x
      simp only [Store.get_set, g13]
      by_cases hx : x = c
      · subst hx
        simp only [if_true]
        rw [g13] at hz
        constructor
        · intro _; omega
        · intro _; exact (hiff x).mpr (by omega)
      · simp [hx, hiff x]
    · intro x
      show (s1.nPart.set c (s1.nPart.get c + 1)).get x = cellCount S s1 x
      simp only [Store.get_set, g13]
      by_cases hx : x = c
      · subst hx; simp only [if_true]; rw [hcnt_c, h.book.npart x]
      · simp only [hx, if_false]; rw [hcnt_ne x hx, h.book.npart x]
    · intro k' p'
      refine (hocc _ (show _ = s1.free from rfl) (show _ = s1.inj from rfl) k' p').trans ?_
      rw [h.occ k' p']
      simp only [g15]
    · exact hfocc
    · exact hsupp _ rfl rfl rfl
    · exact ⟨g15, g11, g12, g16, rfl, g2⟩

theorem injectFrozen_inv {S : Sys} (hG : GridOK S.G) {U UF : List (Nat × Nat)} {s : St} (h : Inv S U UF s)
    {c k p : Nat} (hc : c < S.nCells) (hk : k < S.nCol) (hUF : (k, p) ∉ UF) :
    ∃ s', injectFrozen S s c k p = .ok s' ∧ Inv S U ((k, p) :: UF) s' ∧ s'.erased = s.erased ∧
      s'.free = s.free ∧ s'.inj = s.inj ∧ s'.pos = s.pos ∧ s'.fpos = s.fpos ∧
      s'.frozen = setAt s.frozen c k (s.frozenAt c k ++ [p]) :=
  injectFrozen_aux hG h hc hk hUF _ ⟨rfl, rfl, rfl, rfl, rfl, rfl⟩ rfl

theorem assignFrozen_inv {S : Sys} (hG : GridOK S.G) :
    ∀ (fs : List (Nat × Nat × V3 Rat)) {U UF : List (Nat × Nat)} {s s' : St},
    Inv S U UF s → s.erased = [] → (fs.map fun x => (x.1, x.2.1)).Nodup →
    (∀ x ∈ fs, (x.1, x.2.1) ∉ UF ∧ x.1 < S.nCol) → assignFrozen S fs s = .ok s' →
    Inv S U ((fs.map fun x => (x.1, x.2.1)).reverse ++ UF) s' ∧ s'.erased = [] := by
  intro fs
  induction fs with
  | nil =>
    intro U UF s s' h hE _ _ e
    have : s = s' := Except.ok.inj e
    subst this
    exact ⟨by simpa using h, hE⟩
  | cons x fs ih =>
    intro U UF s s' h hE hn hx e
    obtain ⟨k, p, r⟩ := x
    simp only [assignFrozen] at e
    cases hf : findCell S.G S.eps r with
    | none => rw [hf] at e; simp at e
    | some c =>
      rw [hf] at e
      simp only at e
      have hc := (findCell_lt hf).1
      have hx0 := hx (k, p, r) (by simp)
      simp only [List.map_cons, List.nodup_cons] at hn
      have h0 : Inv S U UF ({ s with fpos := setAt s.fpos k p r } : St) :=
        ⟨⟨h.book.act, h.book.npart⟩, h.occ, h.focc, h.supp⟩
      obtain ⟨s1, e1, inv1, er1, _⟩ := injectFrozen_inv hG h0 hc hx0.2 hx0.1
      rw [e1] at e
      simp only at e
      obtain ⟨inv2, e2⟩ := ih inv1 (er1.trans hE) hn.2
        (by
          intro y hy
          refine ⟨?_, (hx y (by simp [hy])).2⟩
          simp only [List.mem_cons, not_or]
          refine ⟨?_, (hx y (by simp [hy])).1⟩
          intro heq
          apply hn.1
          rw [← heq]
          exact List.mem_map.mpr ⟨y, hy, rfl⟩) e
      refine ⟨?_, e2⟩
      simpa [List.append_assoc] using inv2

theorem inv_init (S : Sys) : Inv S [] [] St.init := by
  refine ⟨book_init S, ?_, ?_, ?_⟩
  · intro k p
    simp only [List.not_mem_nil, false_and, if_false]
    unfold occ
    have : ∀ c, (St.init.freeAt c k).count p + (St.init.injAt c k).count p = 0 := by
      intro c; simp [St.init, St.freeAt, St.injAt]
    simp only [this]
    induction S.nCells with
    | zero => rfl
    | succ n ih => rw [List.range_succ]; simp [ih]
  · intro k p
    simp only [List.not_mem_nil, if_false]
    unfold foccOf
    have : ∀ c, (St.init.frozenAt c k).count p = 0 := by
      intro c; simp [St.init, St.frozenAt]
    simp only [this]
    induction S.nCells with
    | zero => rfl
    | succ n ih => rw [List.range_succ]; simp [ih]
  · intro c k _; simp [St.init, St.freeAt, St.injAt, St.frozenAt]

/-- **`Phase::assignParticlesToCells` establishes the invariant** for the universe of the given free
and frozen particles (distinct `(colour, slot)` keys, colours `< nCol`), with all buffers empty. -/
theorem assignParticlesToCells_inv {S : Sys} (hG : GridOK S.G) {free frozen : List (Nat × Nat × V3 Rat)}
    (hfn : (free.map fun x => (x.1, x.2.1)).Nodup) (hzn : (frozen.map fun x => (x.1, x.2.1)).Nodup)
    (hfc : ∀ x ∈ free, x.1 < S.nCol) (hzc : ∀ x ∈ frozen, x.1 < S.nCol) {s : St}
    (e : assignParticlesToCells S free frozen = .ok s) :
    Inv S (free.map fun x => (x.1, x.2.1)) (frozen.map fun x => (x.1, x.2.1)) s ∧
      (∀ c k, s.injAt c k = []) ∧ s.erased = [] := by
  unfold assignParticlesToCells at e
  cases e1 : assignFree S free St.init with
  | error err => rw [e1] at e; simp at e
  | ok s1 =>
    rw [e1] at e
    simp only at e
    obtain ⟨inv1, er1, _⟩ := assignFree_inv free (inv_init S) rfl hfn
      (fun x hx => ⟨by simp, hfc x hx⟩) e1
    cases e2 : assignFrozen S frozen s1 with
    | error err => rw [e2] at e; simp at e
    | ok s2 =>
      rw [e2] at e
      simp only at e
      obtain ⟨inv2, er2⟩ := assignFrozen_inv hG frozen inv1 er1 hzn (fun x hx => ⟨by simp, hzc x hx⟩) e2
      obtain ⟨s3, e3, inv3, _, j3, _, _, _, r3⟩ := commitAll_inv hG inv2
      rw [e3] at e
      have : s3 = s := Except.ok.inj e
      subst this
      refine ⟨?_, j3, r3.trans er2⟩
      -- the universes are the same sets
      refine ⟨inv3.book, ?_, ?_, inv3.supp⟩
      · intro k p; rw [inv3.occ k p]; simp only [List.mem_append, List.mem_reverse, List.not_mem_nil, or_false]
      · intro k p; rw [inv3.focc k p]; simp only [List.mem_append, List.mem_reverse, List.not_mem_nil, or_false]

end Sympler.Cells
