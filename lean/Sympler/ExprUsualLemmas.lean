import Sympler.ExprSurfaceLemmas

/-!
# C03 — the usual grammar against the grammar of the parser

For an expression `u` of the usual grammar (`SE.okU`: `+ -` one level, `* /` one level, left-associative),
`u.resym` has the same text, belongs to the parser's grammar (`SE.ok`), and whenever the tree of
`u.resym` evaluates, the tree of `u` (the usual reading) evaluates to the same value.

Core Lean only.
-/
namespace Sympler.Expr

namespace SE

theorem render_subR (a b : SE) : (subR a b).render = a.render ++ ('-' :: b.render) := by
  unfold subR
  split
  · simp [render, BinOp.ch]
  · rfl

theorem render_divR (a b : SE) : (divR a b).render = a.render ++ ('/' :: b.render) := by
  unfold divR
  split
  · simp [render, BinOp.ch]
  · rfl

theorem render_resym : ∀ (u : SE), u.resym.render = u.render := by
  intro u
  induction u with
  | atom s => rfl
  | fn f e ih => simp [resym, render, ih]
  | paren e ih => simp [resym, render, ih]
  | neg e ih => simp [resym, render, ih]
  | bin op a b iha ihb =>
    cases op <;> simp [resym, render, render_subR, render_divR, iha, ihb, BinOp.ch]

theorem lvl_bin (op : BinOp) (a b : SE) : (bin op a b).lvl = op.prec := rfl

theorem ok_bin_iff (op : BinOp) (a b : SE) :
    (bin op a b).ok = true ↔ a.ok = true ∧ b.ok = true ∧ op.prec ≤ a.lvl ∧ op.prec + 1 ≤ b.lvl := by
  simp only [ok, Bool.and_eq_true, decide_eq_true_eq]
  constructor
  · rintro ⟨⟨⟨h1, h2⟩, h3⟩, h4⟩; exact ⟨h1, h2, h3, h4⟩
  · rintro ⟨h1, h2, h3, h4⟩; exact ⟨⟨⟨h1, h2⟩, h3⟩, h4⟩

theorem ulvl_le_lvl_resym : ∀ (u : SE), u.ulvl ≤ u.resym.lvl := by
  intro u
  cases u with
  | atom s => exact Nat.le_refl _
  | fn f e => exact Nat.le_refl _
  | paren e => exact Nat.le_refl _
  | neg e => show 0 ≤ _; exact Nat.zero_le _
  | bin op a b =>
    cases op
    · exact Nat.le_refl _
    · show 0 ≤ _; exact Nat.zero_le _
    · exact Nat.le_refl _
    · show 2 ≤ (divR a.resym b.resym).lvl
      unfold divR; split <;> simp [lvl, BinOp.prec]
    · exact Nat.le_refl _
    · exact Nat.le_refl _
    · exact Nat.le_refl _
    · exact Nat.le_refl _

/-- the usual levels are `0 2 4 5 6 7 8` -/
theorem ulvl_ne (u : SE) : u.ulvl ≠ 1 ∧ u.ulvl ≠ 3 := by
  cases u with
  | atom s => simp [ulvl]
  | fn f e => simp [ulvl]
  | paren e => simp [ulvl]
  | neg e => simp [ulvl]
  | bin op a b => cases op <;> simp [ulvl]

theorem lvl_ne_add {a : SE} (h : ∀ a1 a2, a ≠ bin .add a1 a2) (hneg : True) : 1 ≤ a.lvl := by
  cases a with
  | atom s => simp [lvl]
  | fn f e => simp [lvl]
  | paren e => simp [lvl]
  | neg e => simp [lvl]
  | bin op a1 a2 =>
    cases op <;> simp [lvl, BinOp.prec]
    exact absurd rfl (h a1 a2)

theorem lvl_ne_mul {a : SE} (h : ∀ a1 a2, a ≠ bin .mul a1 a2) (hl : 2 ≤ a.lvl) : 3 ≤ a.lvl := by
  cases a with
  | atom s => simp [lvl]
  | fn f e => simp [lvl]
  | paren e => simp [lvl]
  | neg e => simp [lvl] at hl
  | bin op a1 a2 =>
    cases op <;> simp [lvl, BinOp.prec] at hl ⊢
    exact absurd rfl (h a1 a2)

theorem ok_subR {a b : SE} (ha : a.ok = true) (hb : b.ok = true) (hbl : 2 ≤ b.lvl) :
    (subR a b).ok = true := by
  unfold subR
  split
  next a1 a2 =>
    obtain ⟨h1, h2, h3, h4⟩ := (ok_bin_iff _ _ _).mp ha
    simp only [BinOp.prec] at h3 h4
    refine (ok_bin_iff _ _ _).mpr ⟨h1, (ok_bin_iff _ _ _).mpr ⟨h2, hb, ?_, ?_⟩, ?_, ?_⟩ <;>
      simp only [lvl_bin, BinOp.prec] <;> omega
  next hna =>
    have := lvl_ne_add (a := a) (fun a1 a2 h => hna a1 a2 h) trivial
    refine (ok_bin_iff _ _ _).mpr ⟨ha, hb, ?_, ?_⟩ <;> simp only [BinOp.prec] <;> omega

theorem ok_divR {a b : SE} (ha : a.ok = true) (hal : 2 ≤ a.lvl) (hb : b.ok = true) (hbl : 4 ≤ b.lvl) :
    (divR a b).ok = true := by
  unfold divR
  split
  next a1 a2 =>
    obtain ⟨h1, h2, h3, h4⟩ := (ok_bin_iff _ _ _).mp ha
    simp only [BinOp.prec] at h3 h4
    refine (ok_bin_iff _ _ _).mpr ⟨h1, (ok_bin_iff _ _ _).mpr ⟨h2, hb, ?_, ?_⟩, ?_, ?_⟩ <;>
      simp only [lvl_bin, BinOp.prec] <;> omega
  next hna =>
    have := lvl_ne_mul (a := a) (fun a1 a2 h => hna a1 a2 h) hal
    refine (ok_bin_iff _ _ _).mpr ⟨ha, hb, ?_, ?_⟩ <;> simp only [BinOp.prec] <;> omega

theorem ok_resym : ∀ (u : SE), u.okU = true → u.resym.ok = true := by
  intro u
  induction u with
  | atom s => intro h; exact h
  | fn f e ih =>
    intro h
    simp only [okU, Bool.and_eq_true] at h
    simp only [resym, ok, Bool.and_eq_true]
    exact ⟨h.1, ih h.2⟩
  | paren e ih => intro h; exact ih h
  | neg e ih =>
    intro h
    simp only [okU, Bool.and_eq_true, decide_eq_true_eq] at h
    simp only [resym, ok, Bool.and_eq_true, decide_eq_true_eq]
    exact ⟨ih h.1, Nat.le_trans h.2 (ulvl_le_lvl_resym e)⟩
  | bin op a b iha ihb =>
    intro h
    simp only [okU, Bool.and_eq_true, decide_eq_true_eq] at h
    obtain ⟨⟨⟨hoa, hob⟩, hla⟩, hlb⟩ := h
    have la := ulvl_le_lvl_resym a
    have lb := ulvl_le_lvl_resym b
    have nb := ulvl_ne b
    have B := fun (o : BinOp) (h1 : o.prec ≤ a.resym.lvl) (h2 : o.prec + 1 ≤ b.resym.lvl) =>
      (ok_bin_iff o a.resym b.resym).mpr ⟨iha hoa, ihb hob, h1, h2⟩
    cases op
    · change 0 ≤ a.ulvl at hla; change 0 + 1 ≤ b.ulvl at hlb
      exact B .add (by simp only [BinOp.prec]; omega) (by simp only [BinOp.prec]; omega)
    · change 0 ≤ a.ulvl at hla; change 0 + 1 ≤ b.ulvl at hlb
      exact ok_subR (iha hoa) (ihb hob) (by omega)
    · change 2 ≤ a.ulvl at hla; change 2 + 1 ≤ b.ulvl at hlb
      exact B .mul (by simp only [BinOp.prec]; omega) (by simp only [BinOp.prec]; omega)
    · change 2 ≤ a.ulvl at hla; change 2 + 1 ≤ b.ulvl at hlb
      exact ok_divR (iha hoa) (by omega) (ihb hob) (by omega)
    · change 4 ≤ a.ulvl at hla; change 4 + 1 ≤ b.ulvl at hlb
      exact B .contract (by simp only [BinOp.prec]; omega) (by simp only [BinOp.prec]; omega)
    · change 5 ≤ a.ulvl at hla; change 5 + 1 ≤ b.ulvl at hlb
      exact B .dot (by simp only [BinOp.prec]; omega) (by simp only [BinOp.prec]; omega)
    · change 6 ≤ a.ulvl at hla; change 6 + 1 ≤ b.ulvl at hlb
      exact B .outer (by simp only [BinOp.prec]; omega) (by simp only [BinOp.prec]; omega)
    · change 7 ≤ a.ulvl at hla; change 7 + 1 ≤ b.ulvl at hlb
      exact B .pow (by simp only [BinOp.prec]; omega) (by simp only [BinOp.prec]; omega)

end SE

/-! ## Values: `x + (c - y) = (x + c) - y` and `x * (c / y) = (x * c) / y` with their side conditions -/

theorem add_sub_assoc_val (env : Env) {x c y d w : Val Rat}
    (h1 : evalBin env .sub c y = .ok d) (h2 : evalBin env .add x d = .ok w) :
    ∃ u, evalBin env .add x c = .ok u ∧ evalBin env .sub u y = .ok w := by
  cases c <;> cases y <;>
  simp [evalBin, Val.zipM, V3.zip, V3.mapM, M9.zip, M9.mapM, bind, Except.bind, pure, Except.pure] at h1 <;>
  subst h1 <;> cases x <;>
  simp [evalBin, Val.zipM, V3.zip, V3.mapM, M9.zip, M9.mapM, bind, Except.bind, pure, Except.pure] at h2 ⊢ <;>
  subst h2
  · grind
  · congr 1 <;> grind
  · congr 1 <;> grind

theorem div_s_ok (env : Env) {a : Val Rat} {b : Rat} (hb : b ≠ 0) :
    evalBin env .div a (.s b) = .ok (a.map (· / b)) := by
  cases a <;>
  simp [evalBin, Val.mapM, V3.mapM, M9.mapM, Val.map, V3.map, M9.map, divRat, hb, bind, Except.bind,
    pure, Except.pure]

theorem div_s_inv (env : Env) {a d : Val Rat} {b : Rat} (h : evalBin env .div a (.s b) = .ok d) :
    b ≠ 0 ∧ d = a.map (· / b) := by
  have hb : b ≠ 0 := by
    intro h0
    subst h0
    cases a <;>
    simp [evalBin, Val.mapM, V3.mapM, M9.mapM, divRat, bind, Except.bind] at h
  rw [div_s_ok env hb] at h
  injection h with h
  exact ⟨hb, h.symm⟩

theorem div_vv_ok (env : Env) {a b : V3 Rat} (hx : b.x ≠ 0) (hy : b.y ≠ 0) (hz : b.z ≠ 0) :
    evalBin env .div (.v a) (.v b) = .ok (.v ⟨a.x / b.x, a.y / b.y, a.z / b.z⟩) := by
  simp [evalBin, Val.zipM, V3.zip, V3.mapM, divRat, hx, hy, hz, bind, Except.bind, pure, Except.pure]

theorem div_vv_inv (env : Env) {a b : V3 Rat} {d : Val Rat}
    (h : evalBin env .div (.v a) (.v b) = .ok d) :
    b.x ≠ 0 ∧ b.y ≠ 0 ∧ b.z ≠ 0 ∧ d = .v ⟨a.x / b.x, a.y / b.y, a.z / b.z⟩ := by
  simp only [evalBin, Val.zipM] at h
  obtain ⟨r, hr, h⟩ := bind_ok h
  injection h with h
  obtain ⟨h0, h1, h2⟩ := V3.mapM_ok hr
  simp only [V3.zip, id] at h0 h1 h2
  obtain ⟨n0, e0⟩ := divRat_ok h0
  obtain ⟨n1, e1⟩ := divRat_ok h1
  obtain ⟨n2, e2⟩ := divRat_ok h2
  refine ⟨n0, n1, n2, ?_⟩
  rw [← h, ← e0, ← e1, ← e2]

theorem div_tt_ok (env : Env) {a b : M9 Rat}
    (h : b.xx ≠ 0 ∧ b.xy ≠ 0 ∧ b.xz ≠ 0 ∧ b.yx ≠ 0 ∧ b.yy ≠ 0 ∧ b.yz ≠ 0 ∧ b.zx ≠ 0 ∧ b.zy ≠ 0 ∧ b.zz ≠ 0) :
    evalBin env .div (.t a) (.t b) = .ok (.t ⟨a.xx / b.xx, a.xy / b.xy, a.xz / b.xz, a.yx / b.yx,
      a.yy / b.yy, a.yz / b.yz, a.zx / b.zx, a.zy / b.zy, a.zz / b.zz⟩) := by
  obtain ⟨h0, h1, h2, h3, h4, h5, h6, h7, h8⟩ := h
  simp [evalBin, Val.zipM, M9.zip, M9.mapM, divRat, h0, h1, h2, h3, h4, h5, h6, h7, h8, bind,
    Except.bind, pure, Except.pure]

theorem div_tt_inv (env : Env) {a b : M9 Rat} {d : Val Rat}
    (h : evalBin env .div (.t a) (.t b) = .ok d) :
    (b.xx ≠ 0 ∧ b.xy ≠ 0 ∧ b.xz ≠ 0 ∧ b.yx ≠ 0 ∧ b.yy ≠ 0 ∧ b.yz ≠ 0 ∧ b.zx ≠ 0 ∧ b.zy ≠ 0 ∧ b.zz ≠ 0) ∧
    d = .t ⟨a.xx / b.xx, a.xy / b.xy, a.xz / b.xz, a.yx / b.yx,
      a.yy / b.yy, a.yz / b.yz, a.zx / b.zx, a.zy / b.zy, a.zz / b.zz⟩ := by
  simp only [evalBin, Val.zipM] at h
  obtain ⟨r, hr, h⟩ := bind_ok h
  injection h with h
  obtain ⟨h0, h1, h2, h3, h4, h5, h6, h7, h8⟩ := M9.mapM_ok hr
  simp only [M9.zip, id] at h0 h1 h2 h3 h4 h5 h6 h7 h8
  obtain ⟨n0, e0⟩ := divRat_ok h0
  obtain ⟨n1, e1⟩ := divRat_ok h1
  obtain ⟨n2, e2⟩ := divRat_ok h2
  obtain ⟨n3, e3⟩ := divRat_ok h3
  obtain ⟨n4, e4⟩ := divRat_ok h4
  obtain ⟨n5, e5⟩ := divRat_ok h5
  obtain ⟨n6, e6⟩ := divRat_ok h6
  obtain ⟨n7, e7⟩ := divRat_ok h7
  obtain ⟨n8, e8⟩ := divRat_ok h8
  refine ⟨⟨n0, n1, n2, n3, n4, n5, n6, n7, n8⟩, ?_⟩
  rw [← h, ← e0, ← e1, ← e2, ← e3, ← e4, ← e5, ← e6, ← e7, ← e8]

theorem mul_div_assoc_val (env : Env) {x c y d w : Val Rat}
    (h1 : evalBin env .div c y = .ok d) (h2 : evalBin env .mul x d = .ok w) :
    ∃ u, evalBin env .mul x c = .ok u ∧ evalBin env .div u y = .ok w := by
  cases y with
  | s b =>
    obtain ⟨hb, rfl⟩ := div_s_inv env h1
    cases x <;> cases c <;>
      simp only [evalBin, Val.map, V3.map, M9.map, Val.zipM, V3.zip, M9.zip, V3.mapM, M9.mapM, id, bind,
        Except.bind, pure, Except.pure] at h2 <;>
      cases h2 <;>
      (refine ⟨_, rfl, ?_⟩
       rw [div_s_ok env hb]
       simp only [Val.map, V3.map, M9.map]
       congr 2 <;> grind)
  | v b =>
    cases c with
    | s a => simp [evalBin, Val.zipM] at h1
    | t a => simp [evalBin, Val.zipM] at h1
    | v a =>
      obtain ⟨n0, n1, n2, rfl⟩ := div_vv_inv env h1
      cases x <;>
        simp only [evalBin, Val.map, V3.map, M9.map, Val.zipM, V3.zip, M9.zip, V3.mapM, M9.mapM, id, bind,
          Except.bind, pure, Except.pure] at h2 <;>
        cases h2 <;>
        (refine ⟨_, rfl, (div_vv_ok env n0 n1 n2).trans ?_⟩
         try simp only [V3.map, V3.zip, Val.map]
         congr 2 <;> grind)
  | t b =>
    cases c with
    | s a => simp [evalBin, Val.zipM] at h1
    | v a => simp [evalBin, Val.zipM] at h1
    | t a =>
      obtain ⟨hn, rfl⟩ := div_tt_inv env h1
      cases x <;>
        simp only [evalBin, Val.map, V3.map, M9.map, Val.zipM, V3.zip, M9.zip, V3.mapM, M9.mapM, id, bind,
          Except.bind, pure, Except.pure] at h2 <;>
        cases h2 <;>
        (refine ⟨_, rfl, (div_tt_ok env hn).trans ?_⟩
         try simp only [M9.map, M9.zip, Val.map]
         congr 2 <;> grind)

/-! ## Trees: the parser's reading refines the usual reading -/

/-- whenever `ts` evaluates, `tu` evaluates to the same value -/
def LeT (env : Env) (ts tu : Tree) : Prop := ∀ v, denote env ts = .ok v → denote env tu = .ok v

/-- the same relation on the results of resolving the atoms (an unresolvable atom is the same error on
both sides) -/
def Refines (env : Env) : Except Err Tree → Except Err Tree → Prop
  | .ok ts, .ok tu => LeT env ts tu
  | .error e, .error e' => e = e'
  | _, _ => False

theorem LeT.refl (env : Env) (t : Tree) : LeT env t t := fun _ h => h

theorem LeT.trans {env : Env} {a b c : Tree} (h1 : LeT env a b) (h2 : LeT env b c) : LeT env a c :=
  fun v h => h2 v (h1 v h)

theorem Refines.refl (env : Env) (r : Except Err Tree) : Refines env r r := by
  cases r with
  | ok t => exact LeT.refl env t
  | error e => rfl

theorem Refines.trans {env : Env} {a b c : Except Err Tree} (h1 : Refines env a b)
    (h2 : Refines env b c) : Refines env a c := by
  cases a <;> cases b <;> cases c <;> simp only [Refines] at h1 h2 ⊢ <;>
    first | exact h1.elim | exact h2.elim | exact h1.trans h2 | exact LeT.trans h1 h2

theorem denote_bin (env : Env) (op : BinOp) (a b : Tree) :
    denote env (.bin op a b) = (do
      let va ← denote env a
      let vb ← denote env b
      evalBin env op va vb) := rfl

theorem LeT.bin {env : Env} (op : BinOp) {a a' b b' : Tree} (ha : LeT env a a') (hb : LeT env b b') :
    LeT env (.bin op a b) (.bin op a' b') := by
  intro v h
  rw [denote_bin] at h ⊢
  obtain ⟨va, hva, h⟩ := bind_ok h
  obtain ⟨vb, hvb, h⟩ := bind_ok h
  rw [ha va hva, hb vb hvb]
  exact h

theorem LeT.neg {env : Env} {a a' : Tree} (ha : LeT env a a') : LeT env (.neg a) (.neg a') := by
  intro v h
  simp only [denote, eval] at h ⊢
  obtain ⟨va, hva, h⟩ := bind_ok h
  have := ha va hva
  simp only [denote] at this
  rw [this]
  exact h

theorem LeT.fn {env : Env} (f : Fn) {a a' : Tree} (ha : LeT env a a') : LeT env (.fn f a) (.fn f a') := by
  intro v h
  simp only [denote, eval] at h ⊢
  obtain ⟨va, hva, h⟩ := bind_ok h
  have := ha va hva
  simp only [denote] at this
  rw [this]
  exact h

/-- `x + (c - y)` refines `(x + c) - y` -/
theorem LeT.add_sub (env : Env) (x c y : Tree) :
    LeT env (.bin .add x (.bin .sub c y)) (.bin .sub (.bin .add x c) y) := by
  intro v h
  rw [denote_bin] at h
  obtain ⟨vx, hx, h⟩ := bind_ok h
  obtain ⟨vd, hd, h⟩ := bind_ok h
  rw [denote_bin] at hd
  obtain ⟨vc, hc, hd⟩ := bind_ok hd
  obtain ⟨vy, hy, hd⟩ := bind_ok hd
  obtain ⟨u, hu1, hu2⟩ := add_sub_assoc_val env hd h
  rw [denote_bin, denote_bin, hx, hc, hy]
  simp only [bind, Except.bind, hu1]
  exact hu2

/-- `x * (c / y)` refines `(x * c) / y` -/
theorem LeT.mul_div (env : Env) (x c y : Tree) :
    LeT env (.bin .mul x (.bin .div c y)) (.bin .div (.bin .mul x c) y) := by
  intro v h
  rw [denote_bin] at h
  obtain ⟨vx, hx, h⟩ := bind_ok h
  obtain ⟨vd, hd, h⟩ := bind_ok h
  rw [denote_bin] at hd
  obtain ⟨vc, hc, hd⟩ := bind_ok hd
  obtain ⟨vy, hy, hd⟩ := bind_ok hd
  obtain ⟨u, hu1, hu2⟩ := mul_div_assoc_val env hd h
  rw [denote_bin, denote_bin, hx, hc, hy]
  simp only [bind, Except.bind, hu1]
  exact hu2

namespace SE

theorem toTree_bin (known : String → Bool) (op : BinOp) (a b : SE) :
    (bin op a b).toTree known = (do
      let tb ← b.toTree known
      let ta ← a.toTree known
      pure (.bin op ta tb)) := rfl

theorem refines_bin {env : Env} {known : String → Bool} (op : BinOp) {a a' b b' : SE}
    (ha : Refines env (a.toTree known) (a'.toTree known))
    (hb : Refines env (b.toTree known) (b'.toTree known)) :
    Refines env ((bin op a b).toTree known) ((bin op a' b').toTree known) := by
  rw [toTree_bin, toTree_bin]
  cases hb1 : b.toTree known <;> cases hb2 : b'.toTree known <;> rw [hb1, hb2] at hb <;>
    simp only [Refines] at hb
  · subst hb; rfl
  · cases ha1 : a.toTree known <;> cases ha2 : a'.toTree known <;> rw [ha1, ha2] at ha <;>
      simp only [Refines] at ha
    · subst ha; rfl
    · exact LeT.bin op ha hb

theorem refines_subR (env : Env) (known : String → Bool) (a b : SE) :
    Refines env ((subR a b).toTree known) ((bin .sub a b).toTree known) := by
  unfold subR
  split
  next a1 a2 =>
    simp only [toTree_bin]
    cases hb : b.toTree known with
    | error e => rfl
    | ok tb =>
      cases h2 : a2.toTree known with
      | error e => rfl
      | ok t2 =>
        cases h1 : a1.toTree known with
        | error e => rfl
        | ok t1 => exact LeT.add_sub env t1 t2 tb
  · exact Refines.refl env _

theorem refines_divR (env : Env) (known : String → Bool) (a b : SE) :
    Refines env ((divR a b).toTree known) ((bin .div a b).toTree known) := by
  unfold divR
  split
  next a1 a2 =>
    simp only [toTree_bin]
    cases hb : b.toTree known with
    | error e => rfl
    | ok tb =>
      cases h2 : a2.toTree known with
      | error e => rfl
      | ok t2 =>
        cases h1 : a1.toTree known with
        | error e => rfl
        | ok t1 => exact LeT.mul_div env t1 t2 tb
  · exact Refines.refl env _

/-- the tree of the parser's reading refines the tree of the usual reading -/
theorem refines_resym (env : Env) (known : String → Bool) : ∀ (u : SE),
    Refines env (u.resym.toTree known) (u.toTree known) := by
  intro u
  induction u with
  | atom s => exact Refines.refl env _
  | fn f e ih =>
    show Refines env (do let a ← e.resym.toTree known; pure (.fn f a))
      (do let a ← e.toTree known; pure (.fn f a))
    cases h1 : e.resym.toTree known <;> cases h2 : e.toTree known <;> rw [h1, h2] at ih <;>
      simp only [Refines] at ih
    · subst ih; rfl
    · exact LeT.fn f ih
  | paren e ih => exact ih
  | neg e ih =>
    show Refines env (do let a ← e.resym.toTree known; pure (.neg a))
      (do let a ← e.toTree known; pure (.neg a))
    cases h1 : e.resym.toTree known <;> cases h2 : e.toTree known <;> rw [h1, h2] at ih <;>
      simp only [Refines] at ih
    · subst ih; rfl
    · exact LeT.neg ih
  | bin op a b iha ihb =>
    cases op
    · exact refines_bin .add iha ihb
    · exact (refines_subR env known _ _).trans (refines_bin .sub iha ihb)
    · exact refines_bin .mul iha ihb
    · exact (refines_divR env known _ _).trans (refines_bin .div iha ihb)
    · exact refines_bin .contract iha ihb
    · exact refines_bin .dot iha ihb
    · exact refines_bin .outer iha ihb
    · exact refines_bin .pow iha ihb

end SE

end Sympler.Expr
