import Sympler.Basic

/-!
# `Dyn` — executable model of one sympler time step at the physics level

Shared model of the properties C04 (reciprocal pair forces), C05 (time integration),
C07 (pair sums) and C10 (frozen particles).

Mirrors (file / function of /repo/source):

* `src/basic/controller.cpp`  `Controller::run` (part before the main loop) → `init`,
  `Controller::integrate` → `step`, `Controller::runSymbols` → `runSymbols`
* `src/integrator/integrator_velocity_verlet.cpp` `integratePosition`, `integrateVelocity`,
  `integrateStep2`; `src/basic/cell.cpp` `Cell::updatePositions`, `checkNewPosition` → `vvStep1`, `vvStep2`, `wrap`
* `src/integrator/integrator_scalar.cpp`, `integrator_vector.cpp` `integrateStep1`, `unprotect`,
  `isAboutToStart` → `eulerStep1`, `unprotect`
* `include/force/f_pair_vels.h`, `src/force/f_pair_scalar.cpp`, `f_pair_vector.cpp`
  `computeForces(Pairdist*, int)`; `include/symbol/val_calculator_part/pair_particle_scalar.h`,
  `pair_particle_vector.h` `compute(Pairdist*)` → `pairOp` (ONE kernel: all of them have the shape
  `if (abs < cutoff) { F = expr; fi = factor_i ∘ F; fj = factor_j ∘ F; if (actsOnFirst) first += fi;
  if (actsOnSecond) second += symmetry * fj; }`)
* `src/force/f_particle_vels.cpp`, `f_particle_scalar.cpp`, `f_particle_vector.cpp`
  `computeForces(Particle*, int)`  (`+=`) and `particle_scalar.h`, `particle_vector.h` `computeCacheFor` (`=`) → `partOp`
* `src/basic/phase.cpp` `clearParticleData` → `Cell::clearTags` → `DataFormat::clear` → `clearParticleData`

## Representation decisions (all checked by the correspondence `sim/corr_dyn.py`)

* Every value is a `Vec3` of rationals; a C++ `double` attribute `q` is the vector `(q,0,0)`
  (`Vec3.ofScalar`).  The product of two scalars is then the component-wise product, exactly as the
  component-wise product of `point_t`s used by `FPairVels` / `PairParticleVector`.  The typing of
  expressions (scalar / vector) is checked separately (`Expr.ty`), the driver rejects ill-typed input.
* The force buffers `Particle::force[0..1]` and every attribute of the particle tag live in ONE map
  `tag : Key → Vec3`; `Key.force Dof.vel k` is `force[k]`, `Key.force (Dof.user s) k` is the tag
  attribute `force_<s>_<k>` of `IntegratorScalar/Vector`, `Key.sym s` is the attribute named `s`.
* The persistence flag belongs to the `DataFormat` of a colour, not to a particle: `State.pers`.
* Neighbour relation = brute force over all ordered index pairs `(a,b)`, minimum image convention;
  the pair is in the list of colour pair `(c1,c2)` with `a` as FIRST particle iff
  `colour a = c1`, `colour b = c2`, (`c1 ≠ c2` or `a < b`), not both frozen, `|d|² < listCutoff²`.
  (Cell subdivision and Verlet lists: properties C01/C02.)  For `c1 = c2` the real orientation depends
  on the cell geometry; the model takes the index order.  The result is orientation independent
  whenever the expression has the symmetry the user declares with `symmetry` (first/second
  contributions swap); the correspondence generates only such expressions for equal colours, and
  arbitrary (asymmetric) ones for different colours, where the orientation is fixed by the colours.
* Loops over pairs/particles run in index order; the real order (cell order) differs, which is
  irrelevant in exact arithmetic because every write in these loops is a `+=` on a slot that
  no expression of the same phase reads (hypotheses `hR` of `applyOps_spec`, `SumOK.noRAW`;
  guaranteed by the stage assignment, property C06; forces write force slots, which no expression
  can read at all).
* Walls/reflectors are NOT modelled: `wallFree` tells whether all free particles are inside the box
  in the non-periodic directions; the driver reports `err:wall` otherwise.

Core Lean only.
-/
namespace Sympler.Dyn

/-! ### vectors -/

structure Vec3 where
  x : Rat
  y : Rat
  z : Rat
deriving DecidableEq, Repr, Inhabited

namespace Vec3
instance : Zero Vec3 := ⟨⟨0, 0, 0⟩⟩
instance : Add Vec3 := ⟨fun a b => ⟨a.x + b.x, a.y + b.y, a.z + b.z⟩⟩
instance : Sub Vec3 := ⟨fun a b => ⟨a.x - b.x, a.y - b.y, a.z - b.z⟩⟩
instance : Neg Vec3 := ⟨fun a => ⟨-a.x, -a.y, -a.z⟩⟩
instance : HSMul Rat Vec3 Vec3 := ⟨fun c a => ⟨c * a.x, c * a.y, c * a.z⟩⟩
/-- component-wise product (`fi[i] *= temp[i]`) -/
def cmul (a b : Vec3) : Vec3 := ⟨a.x * b.x, a.y * b.y, a.z * b.z⟩
def dot (a b : Vec3) : Rat := a.x * b.x + a.y * b.y + a.z * b.z
def norm2 (a : Vec3) : Rat := dot a a
/-- embedding of a C++ `double` -/
def ofScalar (q : Rat) : Vec3 := ⟨q, 0, 0⟩
def comp (a : Vec3) (k : Nat) : Rat := if k = 0 then a.x else if k = 1 then a.y else a.z
end Vec3

/-! ### particles and state -/

/-- degree of freedom a force drives: the velocity, or a user-defined integrated quantity -/
inductive Dof where
  | vel
  | user (name : String)
deriving DecidableEq, Repr, Inhabited

/-- storage cell of a particle (see the header) -/
inductive Key where
  | sym (name : String)
  | force (d : Dof) (k : Bool)
deriving DecidableEq, Repr, Inhabited

structure Particle where
  colour : Nat
  slot : Nat
  frozen : Bool
  r : Vec3
  v : Vec3
  tag : Key → Vec3

instance : Inhabited Particle := ⟨⟨0, 0, true, 0, 0, fun _ => 0⟩⟩

def Particle.setTag (p : Particle) (k : Key) (x : Vec3) : Particle :=
  { p with tag := fun k' => if k' = k then x else p.tag k' }

/-- `attr += x` -/
def Particle.addTag (p : Particle) (k : Key) (x : Vec3) : Particle :=
  p.setTag k (p.tag k + x)

/-- simulation state: particles `0 … n-1` (canonical order: colour, free before frozen, slot),
`Controller::m_force_index`, persistence flag of every (colour, attribute) -/
structure State where
  n : Nat
  ps : Nat → Particle
  forceIdx : Bool
  pers : Nat → Key → Bool

/-- replace particle `i` by `f (particle i)` -/
def State.modify (st : State) (i : Nat) (f : Particle → Particle) : State :=
  { st with ps := fun k => if k = i then f (st.ps i) else st.ps k }

/-- `FOR_EACH_FREE_PARTICLE(… body …)` for a body that touches only its own particle -/
def State.mapFree (st : State) (f : Particle → Particle) : State :=
  { st with ps := fun k => if (st.ps k).frozen then st.ps k else f (st.ps k) }

/-! ### expressions (a fragment of the runtime-compiled expression language) -/

inductive Who where
  | i
  | j
deriving DecidableEq, Repr, Inhabited

inductive Ty where
  | s
  | v
deriving DecidableEq, Repr, Inhabited

/-- pair context: `[rij] [ri] [rj] [vi] [vj]`, symbols `ai`, `[ai]`, `aj`, `[aj]`;
particle context: `[r] [v]`, symbols `a`, `[a]` (= `Who.i`, no `rij`, no `Who.j`) -/
inductive Expr where
  | num (q : Rat)
  | vec (c : Vec3)
  | rij
  | pos (w : Who)
  | vel (w : Who)
  | tag (w : Who) (name : String)
  | add (a b : Expr)
  | sub (a b : Expr)
  | neg (a : Expr)
  /-- `*` between two scalars or two vectors (component-wise) -/
  | mul (a b : Expr)
  /-- `*` between a scalar and a vector -/
  | smul (a b : Expr)
  /-- `:` scalar product -/
  | dot (a b : Expr)
  /-- `xCoord`, `yCoord`, `zCoord` -/
  | comp (k : Nat) (a : Expr)
deriving DecidableEq, Repr, Inhabited

/-- what an expression can see of the pair (or of the single particle) -/
structure Env where
  rij : Vec3
  ri : Vec3
  vi : Vec3
  rj : Vec3
  vj : Vec3
  ti : String → Vec3
  tj : String → Vec3

def Expr.eval (env : Env) : Expr → Vec3
  | .num q => Vec3.ofScalar q
  | .vec c => c
  | .rij => env.rij
  | .pos .i => env.ri
  | .pos .j => env.rj
  | .vel .i => env.vi
  | .vel .j => env.vj
  | .tag .i n => env.ti n
  | .tag .j n => env.tj n
  | .add a b => a.eval env + b.eval env
  | .sub a b => a.eval env - b.eval env
  | .neg a => - a.eval env
  | .mul a b => Vec3.cmul (a.eval env) (b.eval env)
  | .smul a b => (a.eval env).x • b.eval env
  | .dot a b => Vec3.ofScalar (Vec3.dot (a.eval env) (b.eval env))
  | .comp k a => Vec3.ofScalar ((a.eval env).comp k)

/-- does the expression read a velocity? -/
def Expr.usesVel : Expr → Bool
  | .vel _ => true
  | .add a b | .sub a b | .mul a b | .smul a b | .dot a b => a.usesVel || b.usesVel
  | .neg a | .comp _ a => a.usesVel
  | _ => false

/-- symbols (tag attributes) read by the expression -/
def Expr.reads : Expr → List String
  | .tag _ n => [n]
  | .add a b | .sub a b | .mul a b | .smul a b | .dot a b => a.reads ++ b.reads
  | .neg a | .comp _ a => a.reads
  | _ => []

/-- does the expression refer to the second particle or to the pair distance? -/
def Expr.usesJ : Expr → Bool
  | .rij | .pos .j | .vel .j | .tag .j _ => true
  | .add a b | .sub a b | .mul a b | .smul a b | .dot a b => a.usesJ || b.usesJ
  | .neg a | .comp _ a => a.usesJ
  | _ => false

/-- type of an expression; `none` = the real parser/typer rejects it -/
def Expr.ty (sym : Who → String → Option Ty) : Expr → Option Ty
  | .num _ => some .s
  | .vec _ => some .v
  | .rij | .pos _ | .vel _ => some .v
  | .tag w n => sym w n
  | .add a b | .sub a b | .mul a b =>
    match a.ty sym, b.ty sym with
    | some t, some t' => if t = t' then some t else none
    | _, _ => none
  | .neg a => a.ty sym
  | .smul a b =>
    match a.ty sym, b.ty sym with
    | some .s, some .v => some .v
    | _, _ => none
  | .dot a b =>
    match a.ty sym, b.ty sym with
    | some .v, some .v => some .s
    | _, _ => none
  | .comp k a =>
    match a.ty sym with
    | some .v => if k < 3 then some .s else none
    | _ => none

/-! ### configuration (the module list of the input file) -/

structure Box where
  len : Vec3
  perX : Bool
  perY : Bool
  perZ : Bool
deriving Repr, Inhabited

inductive Integrator where
  /-- `IntegratorVelocityVerlet species lambda mass` -/
  | vv (colour : Nat) (lambda mass : Rat)
  /-- `IntegratorScalar` / `IntegratorVector species scalar|vector` (identical code up to the data type) -/
  | euler (colour : Nat) (name : String)
deriving DecidableEq, Repr, Inhabited

/-- where a module writes: a symbol, or the force buffer (chosen by the force index) of a dof -/
inductive Target where
  | sym (name : String)
  | force (d : Dof)
deriving DecidableEq, Repr, Inhabited

def Target.key (t : Target) (k : Bool) : Key :=
  match t with
  | .sym n => .sym n
  | .force d => .force d k

/-- pair module: `FPairVels/FPairScalar/FPairVector` (target `force …`, `stage` unused) or
`PairParticleScalar/PairParticleVector` (target `sym …`).  `c1 ≤ c2` are first and second colour of
the ColourPair (NOT `species1/species2` of the input, which may be swapped for forces). -/
structure PairMod where
  c1 : Nat
  c2 : Nat
  stage : Nat
  target : Target
  cutoff : Rat
  /-- `m_symmetry` as a number: `1` or `-1` -/
  sym : Rat
  expr : Expr
  fi : Expr
  fj : Expr
deriving DecidableEq, Repr, Inhabited

/-- one-particle module: `FParticleVels/Scalar/Vector` (`assign = false`, target `force …`) or
`ParticleScalar/ParticleVector` (`assign = true`, target `sym …`) -/
structure PartMod where
  colour : Nat
  stage : Nat
  target : Target
  assign : Bool
  expr : Expr
deriving DecidableEq, Repr, Inhabited

structure Config where
  box : Box
  dt : Rat
  integrators : List Integrator
  caches : List PartMod
  sums : List PairMod
  pairForces : List PairMod
  partForces : List PartMod
deriving Repr, Inhabited

def Target.isForce : Target → Bool
  | .force _ => true
  | .sym _ => false

/-- the shape every configuration built from an input file has (checked by the driver): forces write
force slots with `+=`, pair sums write symbols with `+=`, particle caches assign symbols -/
def Config.wf (cfg : Config) : Bool :=
  cfg.pairForces.all (fun m => m.target.isForce)
    && cfg.partForces.all (fun m => m.target.isForce && !m.assign)
    && cfg.sums.all (fun m => !m.target.isForce)
    && cfg.caches.all (fun m => !m.target.isForce && m.assign)

/-! ### geometry -/

/-- `g_geom_eps` (geometric_primitives.cpp) -/
def geomEps : Rat := 1 / 10000000000

/-- `Cell::checkNewPosition` for one coordinate: a particle leaves its cell when
`!(isInsideEps)`, i.e. `x < corner1 - eps` or `x >= corner2 + eps`; across a periodic box face the
outlet cell shifts it by the box length.  (Exactly on the face and leaving the cell in ANOTHER
direction at the same time: the real code shifts as well — not modelled, the correspondence excludes
runs that land within `1e-9` of a face.) -/
def wrap1 (per : Bool) (L x : Rat) : Rat :=
  if per then (if x < -geomEps then x + L else if x ≥ L + geomEps then x - L else x) else x

def wrap (b : Box) (r : Vec3) : Vec3 :=
  ⟨wrap1 b.perX b.len.x r.x, wrap1 b.perY b.len.y r.y, wrap1 b.perZ b.len.z r.z⟩

/-- minimum image of a coordinate difference -/
def minimg1 (per : Bool) (L d : Rat) : Rat :=
  if per then (if d > L / 2 then d - L else if d < -(L / 2) then d + L else d) else d

def minimg (b : Box) (d : Vec3) : Vec3 :=
  ⟨minimg1 b.perX b.len.x d.x, minimg1 b.perY b.len.y d.y, minimg1 b.perZ b.len.z d.z⟩

/-- `[rij] = [ri] - [rj]` of the pair (first `p`, second `q`) -/
def dist (b : Box) (p q : Particle) : Vec3 := minimg b (p.r - q.r)

def mkEnv (b : Box) (p q : Particle) : Env :=
  ⟨dist b p q, p.r, p.v, q.r, q.v, fun n => p.tag (.sym n), fun n => q.tag (.sym n)⟩

/-- particle context: only `Who.i` is meaningful (`Expr.usesJ = false` is checked by the driver) -/
def envP (p : Particle) : Env :=
  ⟨0, p.r, p.v, p.r, p.v, fun n => p.tag (.sym n), fun n => p.tag (.sym n)⟩

/-! ### pair modules -/

def maxCut (c1 c2 : Nat) (acc : Rat) (ms : List PairMod) : Rat :=
  ms.foldl (fun a m => if m.c1 = c1 ∧ m.c2 = c2 then (if a < m.cutoff then m.cutoff else a) else a) acc

/-- `ColourPair::setCutoff`: the list cutoff of a colour pair is the maximum over its modules -/
def listCutoff (cfg : Config) (c1 c2 : Nat) : Rat :=
  maxCut c1 c2 (maxCut c1 c2 0 cfg.pairForces) cfg.sums

/-- is `(a, b)` (first `a`, second `b`) an entry of the pair list of colour pair `(c1, c2)`? -/
def inList (cfg : Config) (st : State) (c1 c2 : Nat) (a b : Nat) : Bool :=
  let p := st.ps a
  let q := st.ps b
  a ≠ b && p.colour = c1 && q.colour = c2 && (c1 ≠ c2 || a < b) && !(p.frozen && q.frozen)
    && decide ((dist cfg.box p q).norm2 < listCutoff cfg c1 c2 * listCutoff cfg c1 c2)

/-- own cutoff test of the module: `if (pair->abs() < m_cutoff)` -/
def inCut (cfg : Config) (m : PairMod) (p q : Particle) : Bool :=
  decide ((dist cfg.box p q).norm2 < m.cutoff * m.cutoff)

/-- contribution to the FIRST particle: `factor_i ∘ expr` -/
def PairMod.first (m : PairMod) (env : Env) : Vec3 := Vec3.cmul (m.fi.eval env) (m.expr.eval env)

/-- contribution to the SECOND particle: `symmetry * (factor_j ∘ expr)` -/
def PairMod.second (m : PairMod) (env : Env) : Vec3 := m.sym • Vec3.cmul (m.fj.eval env) (m.expr.eval env)

/-- `computeForces(Pairdist*, force_index)` / `compute(Pairdist*)` for the list entry `(a, b)`;
`k` = force buffer to write (irrelevant for symbols). -/
def pairOp (cfg : Config) (k : Bool) (m : PairMod) (a b : Nat) (st : State) : State :=
  if inList cfg st m.c1 m.c2 a b && inCut cfg m (st.ps a) (st.ps b) then
    let env := mkEnv cfg.box (st.ps a) (st.ps b)
    let p := st.ps a
    let q := st.ps b
    -- `if (pair->actsOnFirst())` : the first particle is free
    let st1 := if !p.frozen then st.modify a (fun p => p.addTag (m.target.key k) (m.first env)) else st
    -- `if (pair->actsOnSecond())`
    if !q.frozen then st1.modify b (fun q => q.addTag (m.target.key k) (m.second env)) else st1
  else st

/-- all ordered index pairs of `0 … n-1` -/
def allPairs (n : Nat) : List (Nat × Nat) :=
  (List.range n).flatMap (fun a => (List.range n).map (fun b => (a, b)))

/-- loop over the pairs, inner loop over the modules (`for pair … for force …`) -/
def pairPhase (cfg : Config) (k : Bool) (ms : List PairMod) (st : State) : State :=
  (allPairs st.n).foldl (fun st ab => ms.foldl (fun st m => pairOp cfg k m ab.1 ab.2 st) st) st

/-! ### one-particle modules -/

/-- `computeForces(Particle*, force_index)` (`+=`) or `computeCacheFor(Particle*)` (`=`) -/
def partOp (k : Bool) (m : PartMod) (p : Particle) : Particle :=
  if p.colour = m.colour then
    (if m.assign then p.setTag (m.target.key k) (m.expr.eval (envP p))
     else p.addTag (m.target.key k) (m.expr.eval (envP p)))
  else p

/-- for every free particle: all modules of its colour, in registration order -/
def partPhase (k : Bool) (ms : List PartMod) (st : State) : State :=
  st.mapFree (fun p => ms.foldl (fun p m => partOp k m p) p)

/-! ### symbols -/

def maxStage (cfg : Config) : Nat :=
  (cfg.caches.map (·.stage) ++ cfg.sums.map (·.stage)).foldl max 0

/-- one round of the `while` loop of `Controller::runSymbols`: particle caches of this stage
(free particles only), then the non-bonded pair calculators of this stage -/
def runStage (cfg : Config) (s : Nat) (st : State) : State :=
  let st1 := partPhase false (cfg.caches.filter (·.stage = s)) st
  pairPhase cfg false (cfg.sums.filter (·.stage = s)) st1

def runSymbols (cfg : Config) (st : State) : State :=
  (List.range (maxStage cfg + 1)).foldl (fun st s => runStage cfg s st) st

/-! ### persistence, clearing -/

/-- Is `k` an attribute of the particle tag (and so subject to `DataFormat::clear`)?
`force[0..1]` of the velocity are members of `Particle`, not of the tag. -/
def Key.inTag : Key → Bool
  | .force .vel _ => false
  | _ => true

/-- `Phase::clearParticleData` → `Cell::clearTags` (free particles registered in cells) →
`DataFormat::clear`: zero every attribute with `persistent == false` -/
def clearParticleData (st : State) : State :=
  st.mapFree (fun p => { p with tag := fun k => if k.inTag && !st.pers p.colour k then 0 else p.tag k })

/-- `FOR_EACH_FREE_PARTICLE(__iSLFE->clear(other))` -/
def clearForce (k : Bool) (st : State) : State :=
  st.mapFree (fun p => p.setTag (.force .vel k) 0)

def hasFree (st : State) (c : Nat) : Bool :=
  (List.range st.n).any (fun i => (st.ps i).colour = c && !(st.ps i).frozen)

/-- `Integrator::unprotect(index)`: position integrators do nothing;
`IntegratorScalar::unprotect`: for each free particle of the colour (the flag lives in the format, so
once is enough — and nothing happens when the colour has no free particle):
`unprotect(force_<s>_<index>)`, `protect(force_<s>_<the other>)`. -/
def unprotect (k : Bool) (st : State) (ig : Integrator) : State :=
  match ig with
  | .vv _ _ _ => st
  | .euler c name =>
    if hasFree st c then
      { st with pers := fun c' key =>
          if c' = c ∧ key = .force (.user name) k then false
          else if c' = c ∧ key = .force (.user name) (!k) then true
          else st.pers c' key }
    else st

/-! ### integrators -/

/-- `Cell::updatePositions(integrator)`: `integratePosition` (`accel = force[idx]/m`,
`r += dt*(v + 0.5*dt*accel)`), `integrateVelocity` (`v += lambda*(dt*force[idx]/m)`),
`checkNewPosition` (periodic wrap) — for one free particle of the integrator's colour -/
def vvStep1 (b : Box) (dt lambda mass : Rat) (idx : Bool) (p : Particle) : Particle :=
  let f := p.tag (.force .vel idx)
  let accel := (1 / mass) • f
  let r' := p.r + dt • (p.v + ((1 / 2 : Rat) * dt) • accel)
  let v' := p.v + lambda • (dt • ((1 / mass) • f))
  { p with r := wrap b r', v := v' }

/-- `IntegratorVelocityVerlet::integrateStep2` with the NEW force index `idx`:
`if (lambda != 0.5) v += dt*(0.5-lambda)*force[other]/m;  v += dt/2*force[idx]/m` -/
def vvStep2 (dt lambda mass : Rat) (idx : Bool) (p : Particle) : Particle :=
  let p1 := if lambda ≠ 1 / 2 then
      { p with v := p.v + (dt * (1 / 2 - lambda)) • ((1 / mass) • p.tag (.force .vel (!idx))) }
    else p
  { p1 with v := p1.v + (dt / 2) • ((1 / mass) • p1.tag (.force .vel idx)) }

/-- `IntegratorScalar::integrateStep1`: `s += dt * force_s_[idx]` -/
def eulerStep1 (dt : Rat) (name : String) (idx : Bool) (p : Particle) : Particle :=
  p.addTag (.sym name) (dt • p.tag (.force (.user name) idx))

def onColour (c : Nat) (f : Particle → Particle) (p : Particle) : Particle :=
  if p.colour = c then f p else p

def integ1 (cfg : Config) (st : State) (ig : Integrator) : State :=
  match ig with
  | .vv c lambda mass => st.mapFree (onColour c (vvStep1 cfg.box cfg.dt lambda mass st.forceIdx))
  | .euler c name => st.mapFree (onColour c (eulerStep1 cfg.dt name st.forceIdx))

def integ2 (cfg : Config) (st : State) (ig : Integrator) : State :=
  match ig with
  | .vv c lambda mass => st.mapFree (onColour c (vvStep2 cfg.dt lambda mass st.forceIdx))
  | .euler _ _ => st

/-! ### the time step -/

/-- everything between `integrateStep1` and the force loops: clear buffer `other`, `unprotect(other)`,
`clearParticleData`, (neighbour update,) `runSymbols` -/
def preForce (cfg : Config) (other : Bool) (st : State) : State :=
  let st2 := clearForce other st
  let st3 := cfg.integrators.foldl (unprotect other) st2
  let st4 := clearParticleData st3
  runSymbols cfg st4

/-- pair forces, then particle forces, into buffer `k` -/
def forces (cfg : Config) (k : Bool) (st : State) : State :=
  partPhase k cfg.partForces (pairPhase cfg k cfg.pairForces st)

/-- `Controller::integrate` -/
def step (cfg : Config) (st : State) : State :=
  let st1 := cfg.integrators.foldl (integ1 cfg) st
  let other := !st.forceIdx
  let st5 := preForce cfg other st1
  let st7 := forces cfg other st5
  let st8 := { st7 with forceIdx := other }
  cfg.integrators.foldl (integ2 cfg) st8

/-- `isAboutToStart`: `IntegratorPosition` zeroes `force[0..1]`, `IntegratorScalar` zeroes its two force attributes -/
def aboutToStart (st : State) (ig : Integrator) : State :=
  match ig with
  | .vv c _ _ =>
    st.mapFree (onColour c (fun p => (p.setTag (.force .vel false) 0).setTag (.force .vel true) 0))
  | .euler c name =>
    st.mapFree (onColour c (fun p => (p.setTag (.force (.user name) false) 0).setTag (.force (.user name) true) 0))

/-- `Controller::run` before the main loop: zero both force buffers of all free particles,
`isAboutToStart` of every integrator, `clearParticleData`, `runSymbols`, pair forces and
particle forces into buffer `m_force_index` -/
def init (cfg : Config) (st : State) : State :=
  let st1 := clearForce true (clearForce false st)
  let st2 := cfg.integrators.foldl aboutToStart st1
  let st3 := clearParticleData st2
  let st4 := runSymbols cfg st3
  forces cfg st.forceIdx st4

def run (cfg : Config) : Nat → State → State
  | 0, st => st
  | n + 1, st => step cfg (run cfg n st)

/-- all free particles inside the box in the non-periodic directions (no wall is modelled) -/
def wallFree (b : Box) (st : State) : Bool :=
  (List.range st.n).all (fun i =>
    let p := st.ps i
    p.frozen ||
      ((b.perX || (0 < p.r.x && p.r.x < b.len.x)) && (b.perY || (0 < p.r.y && p.r.y < b.len.y))
        && (b.perZ || (0 < p.r.z && p.r.z < b.len.z))))

end Sympler.Dyn
