import Sympler.Verlet

/-!
Helper lemmas for `Props/C02.lean`: loop invariants of the displacement scan
(`Sympler.Verlet.scanLoop` around the GENERATED body `Sympler.Gen.Verlet.scanBody`), of the pre-fix
loop, and of the counter state machine.  Core Lean only.
-/
namespace Sympler.Verlet
open Sympler.Gen.Verlet

/-- One iteration of the GENERATED loop body, characterised (this is the only place where
`scanBody` is unfolded; a reverted fix / changed comparison makes this proof fail). -/
theorem scanBody_spec (skin m1 m2 t : Rat) :
    ∃ a b, scanBody skin m1 m2 t = (a, b, decide (a + b ≥ skin)) ∧
      ((m1 < t ∧ a = t ∧ b = m1) ∨ (¬ m1 < t ∧ m2 < t ∧ a = m1 ∧ b = t) ∨
       (¬ m1 < t ∧ ¬ m2 < t ∧ a = m1 ∧ b = m2)) := by
  unfold scanBody
  by_cases h1 : m1 < t
  · exact ⟨t, m1, by simp [h1], by simp [h1]⟩
  · by_cases h2 : m2 < t
    · exact ⟨m1, t, by simp [h1, h2], by simp [h1, h2]⟩
    · exact ⟨m1, m2, by simp [h1, h2], by simp [h1, h2]⟩

theorem scanLoop_cons (skin m1 m2 t : Rat) (rest : List Rat) :
    ∃ a b, ((m1 < t ∧ a = t ∧ b = m1) ∨ (¬ m1 < t ∧ m2 < t ∧ a = m1 ∧ b = t) ∨
       (¬ m1 < t ∧ ¬ m2 < t ∧ a = m1 ∧ b = m2)) ∧
      scanLoop skin m1 m2 (t :: rest) = if a + b ≥ skin then true else scanLoop skin a b rest := by
  obtain ⟨a, b, h, hc⟩ := scanBody_spec skin m1 m2 t
  refine ⟨a, b, hc, ?_⟩
  simp only [scanLoop, h]
  simp

/-- Invariant, direction "no rebuild ⇒ everything small": started with `max2 ≤ max_disp`, a scan that
ends with `newList = false` has seen only magnitudes `x` with `max_disp + x < skin`, pairwise sums
`< skin`, and (if it saw anything) `max_disp + max2 < skin`. -/
theorem scanLoop_false (skin : Rat) : ∀ (rest : List Rat) (m1 m2 : Rat), m2 ≤ m1 →
    scanLoop skin m1 m2 rest = false →
    (∀ x ∈ rest, m1 + x < skin) ∧ rest.Pairwise (fun x y => x + y < skin) ∧
      (rest ≠ [] → m1 + m2 < skin) := by
  intro rest
  induction rest with
  | nil => intros; simp
  | cons t rest ih =>
    intro m1 m2 hle h
    obtain ⟨a, b, hc, heq⟩ := scanLoop_cons skin m1 m2 t rest
    rw [heq] at h
    by_cases hs : a + b ≥ skin
    · simp [hs] at h
    · simp only [hs, if_false] at h
      have hba : b ≤ a := by grind
      obtain ⟨ih1, ih2, _⟩ := ih a b hba h
      refine ⟨?_, ?_, ?_⟩
      · intro x hx
        rcases List.mem_cons.mp hx with rfl | hx
        · grind
        · have := ih1 x hx; grind
      · refine List.pairwise_cons.mpr ⟨?_, ih2⟩
        intro x hx
        have := ih1 x hx; grind
      · intro _; grind

/-- Invariant, converse direction: if the state and everything still to come is small, the scan
ends with `newList = false`. -/
theorem scanLoop_eq_false_of (skin : Rat) : ∀ (rest : List Rat) (m1 m2 : Rat),
    m1 + m2 < skin → (∀ x ∈ rest, m1 + x < skin ∧ m2 + x < skin) →
    rest.Pairwise (fun x y => x + y < skin) → scanLoop skin m1 m2 rest = false := by
  intro rest
  induction rest with
  | nil => intros; simp [scanLoop]
  | cons t rest ih =>
    intro m1 m2 h12 hx hp
    obtain ⟨a, b, hc, heq⟩ := scanLoop_cons skin m1 m2 t rest
    rw [heq]
    have ht := hx t (List.mem_cons_self ..)
    obtain ⟨hp1, hp2⟩ := List.pairwise_cons.mp hp
    have hs : ¬ (a + b ≥ skin) := by grind
    simp only [hs, if_false]
    apply ih a b (by grind) ?_ hp2
    intro x hxr
    have h1 := hx x (List.mem_cons_of_mem _ hxr)
    have h2 := hp1 x hxr
    grind

/-- index form of a symmetric `Pairwise` -/
theorem pairwise_sum_iff (skin : Rat) (ms : List Rat) :
    ms.Pairwise (fun x y => x + y < skin) ↔
      ∀ (i j : Nat) (hi : i < ms.length) (hj : j < ms.length), i ≠ j → ms[i] + ms[j] < skin := by
  rw [List.pairwise_iff_getElem]
  constructor
  · intro h i j hi hj hne
    rcases Nat.lt_or_gt_of_ne hne with hlt | hgt
    · exact h i j hi hj hlt
    · have := h j i hj hi hgt
      rw [Rat.add_comm]; exact this
  · intro h i j hi hj hlt
    exact h i j hi hj (Nat.ne_of_lt hlt)

theorem forall_mem_iff_getElem (P : Rat → Prop) (ms : List Rat) :
    (∀ x ∈ ms, P x) ↔ ∀ (i : Nat) (hi : i < ms.length), P ms[i] := by
  constructor
  · intro h i hi; exact h _ (List.getElem_mem hi)
  · intro h x hx
    obtain ⟨i, hi, rfl⟩ := List.getElem_of_mem hx
    exact h i hi

/-! ### the pre-fix loop -/

theorem scanOldLoop_cons (skin m1 m2 t : Rat) (rest : List Rat) :
    ∃ a b, ((m1 < t ∧ a = t ∧ b = m2) ∨ (¬ m1 < t ∧ m2 < t ∧ a = m1 ∧ b = t) ∨
       (¬ m1 < t ∧ ¬ m2 < t ∧ a = m1 ∧ b = m2)) ∧
      scanOldLoop skin m1 m2 (t :: rest) =
        if a + b ≥ skin then true else scanOldLoop skin a b rest := by
  have hb : ∃ a b, scanBodyOld skin m1 m2 t = (a, b, decide (a + b ≥ skin)) ∧
      ((m1 < t ∧ a = t ∧ b = m2) ∨ (¬ m1 < t ∧ m2 < t ∧ a = m1 ∧ b = t) ∨
       (¬ m1 < t ∧ ¬ m2 < t ∧ a = m1 ∧ b = m2)) := by
    unfold scanBodyOld
    by_cases h1 : m1 < t
    · exact ⟨t, m2, by simp [h1], by simp [h1]⟩
    · by_cases h2 : m2 < t
      · exact ⟨m1, t, by simp [h1, h2], by simp [h1, h2]⟩
      · exact ⟨m1, m2, by simp [h1, h2], by simp [h1, h2]⟩
  obtain ⟨a, b, h, hc⟩ := hb
  refine ⟨a, b, hc, ?_⟩
  simp only [scanOldLoop, h]
  simp

theorem scanOldLoop_false (skin : Rat) : ∀ (rest : List Rat) (m1 m2 : Rat), 0 ≤ m2 →
    scanOldLoop skin m1 m2 rest = false → ∀ x ∈ rest, x < skin := by
  intro rest
  induction rest with
  | nil => intros; simp_all
  | cons t rest ih =>
    intro m1 m2 h0 h x hx
    obtain ⟨a, b, hc, heq⟩ := scanOldLoop_cons skin m1 m2 t rest
    rw [heq] at h
    by_cases hs : a + b ≥ skin
    · simp [hs] at h
    · simp only [hs, if_false] at h
      rcases List.mem_cons.mp hx with rfl | hx
      · grind
      · exact ih a b (by grind) h x hx

/-! ### counter mode -/

theorem everyRunFrom_length (every : Nat) : ∀ n c, (everyRunFrom every n c).length = n := by
  intro n
  induction n with
  | zero => intro c; rfl
  | succ n ih => intro c; simp [everyRunFrom, ih]

/-- one call with a counter `c ≥ 1` (unfolds the GENERATED decision and counter updates) -/
theorem everyStep_pos (every c : Nat) (h1 : 1 ≤ c) :
    everyStep every c = (decide (c = every), if c = every then 1 else c + 1) := by
  have hc0 : (c == 0) = false := by simp; omega
  unfold everyStep everyDecision counterAfterRebuild counterAfterRefresh
  by_cases hce : c = every
  · subst hce; simp
  · simp [hc0, hce]

/-- the very first call (`m_counter = 0`) rebuilds and sets the counter to 1 -/
theorem everyStep_zero (every : Nat) : everyStep every 0 = (true, 1) := by
  simp [everyStep, everyDecision, counterAfterRebuild]

/-- Started with a counter `1 ≤ c ≤ every`, call number `k` rebuilds iff `every ∣ c + k`. -/
theorem everyRunFrom_getElem (every : Nat) (hE : 1 ≤ every) : ∀ (n c k : Nat), 1 ≤ c → c ≤ every →
    (h : k < (everyRunFrom every n c).length) →
    (everyRunFrom every n c)[k] = decide ((c + k) % every = 0) := by
  intro n
  induction n with
  | zero => intro c k _ _ h; simp [everyRunFrom] at h
  | succ n ih =>
    intro c k h1 h2 h
    cases k with
    | zero =>
      simp only [everyRunFrom, everyStep_pos every c h1, List.getElem_cons_zero, Nat.add_zero]
      by_cases hce : c = every
      · subst hce; simp
      · have hlt : c < every := by omega
        have hm : c % every = c := Nat.mod_eq_of_lt hlt
        have hne : c ≠ 0 := by omega
        simp [hce, hm, hne]
    | succ k =>
      simp only [everyRunFrom, everyStep_pos every c h1, List.getElem_cons_succ]
      by_cases hce : c = every
      · subst hce
        simp only [if_true]
        rw [ih 1 k (Nat.le_refl 1) hE]
        have : (c + (k + 1)) % c = (1 + k) % c := by
          rw [Nat.add_mod_left, Nat.add_comm]
        rw [this]
      · have hlt : c < every := by omega
        simp only [hce, if_false]
        rw [ih (c + 1) k (by omega) (by omega)]
        have : c + 1 + k = c + (k + 1) := by omega
        rw [this]

end Sympler.Verlet
