import Sympler.Dyn

/-!
Line-protocol driver of the `Dyn` model (`model dyn`).  Core Lean only.

Input (one scenario; numbers `p` or `p/q`; vectors `x,y,z`; `<ty>` is `S` or `V`):

```
box <Lx> <Ly> <Lz> <perX 0|1> <perY 0|1> <perZ 0|1>
dt <dt>
integ vv <colour> <lambda> <mass>
integ euler <colour> <name> <ty>
cache <colour> <stage> <name> <ty> | <expr>
psum <c1> <c2> <stage> <name> <ty> <cutoff> <symmetry> | <expr> | <factor_i> | <factor_j>
pforce <c1> <c2> <dof> <cutoff> <symmetry> | <expr> | <factor_i> | <factor_j>
partforce <colour> <dof> | <expr>
p <colour> <slot> <free|frozen> <r> <v> [<name>=<value> …]      (canonical order: colour, free first, slot)
run <nsteps>
```
`<dof>` is `vel` or the name of an `integ euler` quantity.  `<expr>` in prefix form:
`num q | vec x y z | rij | ri | rj | vi | vj | ti name | tj name | add a b | sub a b | neg a | mul a b |
smul a b | dot a b | comp k a`; in `cache`/`partforce` only `ri vi ti` (= `[r] [v]` and own symbols).

Output: for the state after `init` (`step -1`) and after every step
```
step <k> forceidx <0|1>
P <colour> <slot> <free|frozen> <r> <v> <f0> <f1> | <attr> <ty> <persistent 0|1> <value> | …   (attributes sorted by name)
```
and a final `end`; or a single line `err:<kind>`
(`parse dup symbol type context cutoff symmetry order dof nofree lambda box wall`;
`lambda`: `IntegratorVelocityVerlet` rejects `lambda <= 0` at input).
-/
namespace Sympler.Dyn

def showVec (v : Vec3) : String := showRat v.x ++ "," ++ showRat v.y ++ "," ++ showRat v.z

def parseVec (s : String) : Option Vec3 :=
  match (s.splitOn ",").mapM parseRat with
  | some [x, y, z] => some ⟨x, y, z⟩
  | _ => none

def parseTy : String → Option Ty
  | "S" => some .s
  | "V" => some .v
  | _ => none

def parseBit : String → Option Bool
  | "0" => some false
  | "1" => some true
  | _ => none

/-- prefix-form expression parser; `fuel` ≥ number of tokens -/
def parseExpr : Nat → List String → Option (Expr × List String)
  | 0, _ => none
  | fuel + 1, toks =>
    let bin (mk : Expr → Expr → Expr) (rest : List String) : Option (Expr × List String) :=
      match parseExpr fuel rest with
      | some (a, r1) =>
        match parseExpr fuel r1 with
        | some (b, r2) => some (mk a b, r2)
        | none => none
      | none => none
    match toks with
    | "num" :: q :: rest => (parseRat q).map (fun q => (Expr.num q, rest))
    | "vec" :: x :: y :: z :: rest =>
      match parseRat x, parseRat y, parseRat z with
      | some x, some y, some z => some (Expr.vec ⟨x, y, z⟩, rest)
      | _, _, _ => none
    | "rij" :: rest => some (.rij, rest)
    | "ri" :: rest => some (.pos .i, rest)
    | "rj" :: rest => some (.pos .j, rest)
    | "vi" :: rest => some (.vel .i, rest)
    | "vj" :: rest => some (.vel .j, rest)
    | "ti" :: n :: rest => some (.tag .i n, rest)
    | "tj" :: n :: rest => some (.tag .j n, rest)
    | "add" :: rest => bin .add rest
    | "sub" :: rest => bin .sub rest
    | "mul" :: rest => bin .mul rest
    | "smul" :: rest => bin .smul rest
    | "dot" :: rest => bin .dot rest
    | "neg" :: rest => (parseExpr fuel rest).map (fun (a, r) => (Expr.neg a, r))
    | "comp" :: k :: rest =>
      match k.toNat?, parseExpr fuel rest with
      | some k, some (a, r) => some (.comp k a, r)
      | _, _ => none
    | _ => none

def parseWholeExpr (toks : List String) : Option Expr :=
  match parseExpr (toks.length + 1) toks with
  | some (e, []) => some e
  | _ => none

/-- split a token list at the `|` tokens -/
def splitBars (toks : List String) : List (List String) :=
  let r := toks.foldl (fun (acc : List (List String) × List String) t =>
    if t = "|" then (acc.2.reverse :: acc.1, []) else (acc.1, t :: acc.2)) ([], [])
  (r.2.reverse :: r.1).reverse

/-- attribute of the tag format of a colour -/
structure Attr where
  colour : Nat
  name : String
  key : Key
  ty : Ty
  pers : Bool
  /-- usable as a symbol in expressions -/
  isSym : Bool

structure PInit where
  colour : Nat
  slot : Nat
  frozen : Bool
  r : Vec3
  v : Vec3
  tags : List (String × String)

structure Scn where
  box : Option Box := none
  dt : Option Rat := none
  integs : List Integrator := []
  eulerTy : List (Nat × String × Ty) := []
  caches : List (PartMod × Ty) := []
  sums : List (PairMod × Ty) := []
  pforces : List PairMod := []
  partforces : List PartMod := []
  parts : List PInit := []
  steps : Option Nat := none
  /-- symbols computed by ONE module with `allPairs="yes"` (given as one `psumall` line per colour pair):
  the module registers the attribute once per colour -/
  allPairs : List String := []

def parseDof (s : String) : Dof := if s = "vel" then .vel else .user s

def parseLine (sc : Scn) (toks : List String) : Option Scn :=
  match splitBars toks with
  | ["box" :: lx :: ly :: lz :: px :: py :: pz :: []] =>
    match parseRat lx, parseRat ly, parseRat lz, parseBit px, parseBit py, parseBit pz with
    | some lx, some ly, some lz, some px, some py, some pz =>
      some { sc with box := some ⟨⟨lx, ly, lz⟩, px, py, pz⟩ }
    | _, _, _, _, _, _ => none
  | [["dt", d]] => (parseRat d).map (fun d => { sc with dt := some d })
  | [["integ", "vv", c, l, m]] =>
    match c.toNat?, parseRat l, parseRat m with
    | some c, some l, some m => some { sc with integs := sc.integs ++ [.vv c l m] }
    | _, _, _ => none
  | [["integ", "euler", c, n, t]] =>
    match c.toNat?, parseTy t with
    | some c, some t => some { sc with integs := sc.integs ++ [.euler c n], eulerTy := sc.eulerTy ++ [(c, n, t)] }
    | _, _ => none
  | [["cache", c, s, n, t], e] =>
    match c.toNat?, s.toNat?, parseTy t, parseWholeExpr e with
    | some c, some s, some t, some e => some { sc with caches := sc.caches ++ [(⟨c, s, .sym n, true, e⟩, t)] }
    | _, _, _, _ => none
  | [["psum", c1, c2, s, n, t, rc, sy], e, fi, fj] =>
    match c1.toNat?, c2.toNat?, s.toNat?, parseTy t, parseRat rc, parseRat sy,
        parseWholeExpr e, parseWholeExpr fi, parseWholeExpr fj with
    | some c1, some c2, some s, some t, some rc, some sy, some e, some fi, some fj =>
      some { sc with sums := sc.sums ++ [(⟨c1, c2, s, .sym n, rc, sy, e, fi, fj⟩, t)] }
    | _, _, _, _, _, _, _, _, _ => none
  | [["psumall", c1, c2, s, n, t, rc, sy], e, fi, fj] =>
    match c1.toNat?, c2.toNat?, s.toNat?, parseTy t, parseRat rc, parseRat sy,
        parseWholeExpr e, parseWholeExpr fi, parseWholeExpr fj with
    | some c1, some c2, some s, some t, some rc, some sy, some e, some fi, some fj =>
      some { sc with sums := sc.sums ++ [(⟨c1, c2, s, .sym n, rc, sy, e, fi, fj⟩, t)],
                     allPairs := if sc.allPairs.contains n then sc.allPairs else sc.allPairs ++ [n] }
    | _, _, _, _, _, _, _, _, _ => none
  | [["pforce", c1, c2, d, rc, sy], e, fi, fj] =>
    match c1.toNat?, c2.toNat?, parseRat rc, parseRat sy, parseWholeExpr e, parseWholeExpr fi, parseWholeExpr fj with
    | some c1, some c2, some rc, some sy, some e, some fi, some fj =>
      some { sc with pforces := sc.pforces ++ [⟨c1, c2, 0, .force (parseDof d), rc, sy, e, fi, fj⟩] }
    | _, _, _, _, _, _, _ => none
  | [["partforce", c, d], e] =>
    match c.toNat?, parseWholeExpr e with
    | some c, some e => some { sc with partforces := sc.partforces ++ [⟨c, 0, .force (parseDof d), false, e⟩] }
    | _, _ => none
  | ["p" :: c :: s :: fz :: r :: v :: tags] =>
    match c.toNat?, s.toNat?, parseVec r, parseVec v with
    | some c, some s, some r, some v =>
      if fz ≠ "free" ∧ fz ≠ "frozen" then none else
      match tags.mapM (fun t => match t.splitOn "=" with | [a, b] => some (a, b) | _ => none) with
      | some tg => some { sc with parts := sc.parts ++ [⟨c, s, fz = "frozen", r, v, tg⟩] }
      | none => none
    | _, _, _, _ => none
  | [["run", n]] => n.toNat?.map (fun n => { sc with steps := some n })
  | _ => none

def forceName (name : String) (k : Bool) : String := "force_" ++ name ++ "_" ++ (if k then "1" else "0")

/-- the tag formats as the `setup()` functions build them -/
def formatOf (sc : Scn) : List Attr :=
  sc.eulerTy.flatMap (fun (c, n, t) =>
      [⟨c, n, .sym n, t, true, true⟩, ⟨c, forceName n false, .force (.user n) false, t, true, false⟩,
       ⟨c, forceName n true, .force (.user n) true, t, true, false⟩])
  ++ sc.caches.map (fun (m, t) => match m.target with
      | .sym n => ⟨m.colour, n, .sym n, t, false, true⟩
      | .force _ => ⟨m.colour, "", .sym "", t, false, false⟩)
  ++ sc.sums.flatMap (fun (m, t) => match m.target with
      | .sym n => if m.c1 = m.c2 then [⟨m.c1, n, .sym n, t, false, true⟩]
                  else [⟨m.c1, n, .sym n, t, false, true⟩, ⟨m.c2, n, .sym n, t, false, true⟩]
      | .force _ => [])

/-- an `allPairs` module registers its symbol once per colour: drop the repetitions (same colour, name and type)
that the per-colour-pair `psumall` lines produce -/
def dedupAllPairs (names : List String) (l : List Attr) : List Attr :=
  l.foldl (fun acc a =>
    if names.contains a.name && acc.any (fun b => b.colour = a.colour && b.name = a.name && b.ty = a.ty) then acc
    else acc ++ [a]) []

def hasDup (fmt : List Attr) : Bool :=
  let rec go : List Attr → Bool
    | [] => false
    | a :: rest => rest.any (fun b => b.colour = a.colour && b.name = a.name) || go rest
  go fmt

def symTy (fmt : List Attr) (c : Nat) (n : String) : Option Ty :=
  (fmt.find? (fun a => a.colour = c && a.isSym && a.name = n)).map (·.ty)

/-- `none` = fine, `some kind` = error -/
def checkExpr (fmt : List Attr) (ci cj : Nat) (pairCtx : Bool) (want : Ty) (e : Expr) : Option String :=
  let tab : Who → String → Option Ty := fun w n => symTy fmt (match w with | .i => ci | .j => cj) n
  if !pairCtx && e.usesJ then some "err:context"
  else if e.ty tab = none then
    -- unknown symbol or type clash?
    (if (e.reads.all (fun n => (tab .i n).isSome || (tab .j n).isSome)) then some "err:type" else some "err:symbol")
  else if e.ty tab ≠ some want then some "err:type"
  else none

def firstErr (l : List (Option String)) : Option String := l.findSome? id

def dofTy (sc : Scn) (c : Nat) (d : Dof) : Option Ty :=
  match d with
  | .vel => some .v
  | .user n => (sc.eulerTy.find? (fun (c', n', _) => c' = c && n' = n)).map (·.2.2)

def checkPairMod (sc : Scn) (fmt : List Attr) (m : PairMod) (want : Ty) : Option String :=
  if m.cutoff ≤ 0 then some "err:cutoff"
  else if m.sym ≠ 1 ∧ m.sym ≠ -1 then some "err:symmetry"
  else if m.c2 < m.c1 then some "err:order"
  else
    let b := sc.box.getD default
    if (b.perX && decide (b.len.x < 2 * m.cutoff)) || (b.perY && decide (b.len.y < 2 * m.cutoff))
        || (b.perZ && decide (b.len.z < 2 * m.cutoff)) then some "err:box"
    else firstErr [checkExpr fmt m.c1 m.c2 true want m.expr, checkExpr fmt m.c1 m.c2 true want m.fi,
      checkExpr fmt m.c1 m.c2 true want m.fj]

def checkAll (sc : Scn) (fmt : List Attr) : Option String :=
  if hasDup fmt then some "err:dup" else
  firstErr (
    sc.caches.map (fun (m, t) => checkExpr fmt m.colour m.colour false t m.expr)
    ++ sc.sums.map (fun (m, t) => checkPairMod sc fmt m t)
    ++ sc.pforces.map (fun m => match m.target with
        | .force d =>
          match dofTy sc m.c1 d, dofTy sc m.c2 d with
          | some t, some t' => if t = t' then checkPairMod sc fmt m t else some "err:dof"
          | _, _ => some "err:dof"
        | .sym _ => some "err:parse")
    ++ sc.partforces.map (fun m => match m.target with
        | .force d =>
          match dofTy sc m.colour d with
          | some t => checkExpr fmt m.colour m.colour false t m.expr
          | none => some "err:dof"
        | .sym _ => some "err:parse")
    ++ sc.integs.map (fun ig => match ig with
        | .vv c l m =>
          if m ≤ 0 then some "err:parse"
          else if l ≤ 0 then some "err:lambda"
          else if sc.parts.any (fun p => p.colour = c && !p.frozen) then none else some "err:nofree"
        | .euler _ _ => none))

def initTag (fmt : List Attr) (p : PInit) : Option (Key → Vec3) :=
  p.tags.foldlM (fun (tag : Key → Vec3) (nv : String × String) =>
    match fmt.find? (fun a => a.colour = p.colour && a.name = nv.1) with
    | none => none
    | some a =>
      let val : Option Vec3 := match a.ty with
        | .s => (parseRat nv.2).map Vec3.ofScalar
        | .v => parseVec nv.2
      val.map (fun x => fun k => if k = a.key then x else tag k)) (fun _ => 0)

def insertSorted (a : Attr) : List Attr → List Attr
  | [] => [a]
  | b :: rest => if a.name < b.name then a :: b :: rest else b :: insertSorted a rest

def sortAttrs (l : List Attr) : List Attr := l.foldl (fun acc a => insertSorted a acc) []

def showState (fmt : List Attr) (k : Int) (st : State) : List String :=
  s!"step {k} forceidx {if st.forceIdx then 1 else 0}" ::
  (List.range st.n).map (fun i =>
    let p := st.ps i
    let attrs := sortAttrs (fmt.filter (fun a => a.colour = p.colour))
    s!"P {p.colour} {p.slot} {if p.frozen then "frozen" else "free"} {showVec p.r} {showVec p.v} "
      ++ s!"{showVec (p.tag (.force .vel false))} {showVec (p.tag (.force .vel true))}"
      ++ String.join (attrs.map (fun a =>
          let val := p.tag a.key
          s!" | {a.name} {match a.ty with | .s => "S" | .v => "V"} {if st.pers p.colour a.key then 1 else 0} "
            ++ (match a.ty with | .s => showRat val.x | .v => showVec val))))

def runLoop (cfg : Config) (fmt : List Attr) : Nat → Nat → State → List String
  | 0, _, _ => ["end"]
  | m + 1, k, st =>
    let st' := step cfg st
    if !wallFree cfg.box st' then ["err:wall"]
    else showState fmt k st' ++ runLoop cfg fmt m (k + 1) st'

def driver (lines : List String) : List String :=
  let toks := (lines.map words).filter (· ≠ [])
  match toks.foldlM parseLine ({} : Scn) with
  | none => ["err:parse"]
  | some sc =>
    match sc.box, sc.dt, sc.steps with
    | some box, some dt, some steps =>
      let fmt := dedupAllPairs sc.allPairs (formatOf sc)
      match checkAll sc fmt with
      | some e => [e]
      | none =>
        match sc.parts.mapM (fun p => (initTag fmt p).map (fun t => (⟨p.colour, p.slot, p.frozen, p.r, p.v, t⟩ : Particle))) with
        | none => ["err:parse"]
        | some ps =>
          let arr := ps.toArray
          let cfg : Config := ⟨box, dt, sc.integs, sc.caches.map (·.1), sc.sums.map (·.1), sc.pforces, sc.partforces⟩
          let st0 : State := ⟨arr.size, fun k => arr.getD k default, false,
            fun c key => (fmt.find? (fun a => a.colour = c && a.key = key)).elim false (·.pers)⟩
          if !cfg.wf then ["err:parse"] else
          let st := init cfg st0
          if !wallFree box st then ["err:wall"]
          else showState fmt (-1) st ++ runLoop cfg fmt steps 0 st
    | _, _, _ => ["err:parse"]

end Sympler.Dyn
