import Sympler.Basic
import Sympler.Gen.ExprTableGen

/-!
# C03 — the expression language: parser, interpreter, C emitter, C reader

Executable model of `/repo/source/src/function_parser/`:

* `parse`      — `FunctionParser::parseThis` / `findWithoutParentheses` / `valueFromString`
                 (function_parser.cpp), at the character level, driven by the GENERATED operator table
                 `Sympler.Gen.ExprTable` (registration order, priorities);
* `denote`     — the interpreter `FunctionNode::value()` of every node class
                 (binary_operators.cpp, unary_functions.cpp, unary_operators.cpp, fp_*.h) over `Rat`;
* `toCE`/`toC` — the emitter `FunctionNode::toC()` of every node class; `toC` produces THE SAME strings;
* `parseC`/`evalC` — a reader and evaluator for the C-expression subset the emitter produces: the
                 SPECIFICATION of what gcc makes of the emitted text (trusted; validated against gcc by
                 the correspondence harness `/verif/harness/h_parser.cpp`);
* `driver`     — line protocol for `symdrv` (model name `expr`).

Lemma files: `ExprCLemmas` (the C reader reads back what the emitter writes), `ExprEmitLemmas` (emitter
against interpreter), `ExprDblLemmas` (no integer-typed C term is emitted), `ExprParseLemmas`
(termination, well-formed trees), `ExprSurface` / `ExprSurfaceLemmas` / `ExprUsualLemmas` (the grammar of
the parser and the usual grammar).  Theorems: `Props/C03.lean`.

Conventions of the model (see also the doc comments):

* strings are `List Char`; the real code works on bytes, which is the same for valid UTF-8 because every
  operator name is valid UTF-8 (the matrix product `°` is the two bytes C2 B0 in the source);
* numbers are `Rat`.  The *exact regime*: literals and variable values are doubles (dyadic), `+ - *` do
  not round.  A division by zero is the error `div0` in `denote` and in `evalC` alike (the real code
  produces `inf`/`nan`);
* libm functions (`sqrt sin … exp`, `pow` with a non-integral exponent, `M_PI`) are oracles in `Env`;
* every way the parser, the interpreter and the emitter stop is a `gError` of the real code and an
  `Err` here.  (Before the commits ad91e0f / 461b1b3 of /repo the real code could also hang in the
  bracket loop, die of an uncaught `std::out_of_range` or of a NULL dereference, and emit C `int`
  sub-expressions; the pre-fix definitions are kept, clearly named `…Old`, in `ExprHistory.lean`.)

Core Lean only.
-/
namespace Sympler.Expr

open Sympler.Gen

/-! ## Errors -/

inductive Err
  /-- `parseThis`: "Empty bracket!" -/
  | emptyBracket
  /-- `valueFromString`: the empty expression -/
  | emptyOperand
  /-- `valueFromString`: neither a defined symbol nor a number -/
  | unknownSymbol
  /-- a text `strtod` accepts but the model does not interpret (hex floats, `inf`, `nan`): model abstains -/
  | exoticNumber
  /-- the generated table contains a name the model has no semantics for -/
  | unknownOperator
  /-- the fuel of `parseCore` / `stripLoop` ran out (proved impossible: `parse_ne_fuel`, `C03_total`) -/
  | fuel
  /-- `parseThis`: "Unbalanced brackets in expression …": the `while(open)` loop finds no further bracket -/
  | unbalanced
  /-- a `gError` thrown by `value()` / `toC()` for wrong operand types -/
  | type
  /-- `FPScalarVariable` / `FPVectorVariable` / `FPTensorVariable::value()` with a NULL value pointer
  (a `gError`) -/
  | nullValue
  /-- division by zero: outside the rational fragment -/
  | div0
  /-- the oracle for libm functions declined (driver) -/
  | opaque
  /-- `uran`: a random number -/
  | random
  /-- the C reader does not understand the text -/
  | cSyntax
  /-- the C text performs an integer division that truncates (C semantics of `int / int`; never produced
  by emitted text: `C03_emit_no_int_division`) -/
  | intTrunc
  /-- the C text divides an `int` by the `int` zero (undefined behaviour; SIGFPE / `ud2`; never produced
  by emitted text either) -/
  | intDiv0
  /-- internal: an exponent outside the modelled range -/
  | range
  deriving DecidableEq, Repr

def Err.kind : Err → String
  | .emptyBracket => "empty-bracket"
  | .emptyOperand => "empty-operand"
  | .unknownSymbol => "unknown-symbol"
  | .exoticNumber => "exotic-number"
  | .unknownOperator => "unknown-operator"
  | .fuel => "fuel"
  | .unbalanced => "unbalanced"
  | .type => "type"
  | .nullValue => "null-value"
  | .div0 => "div0"
  | .opaque => "opaque"
  | .random => "random"
  | .cSyntax => "c-syntax"
  | .intTrunc => "int-trunc"
  | .intDiv0 => "int-div0"
  | .range => "range"

deriving instance DecidableEq for Except

/-! ## Operator table -/

inductive BinOp | add | sub | mul | div | contract | dot | outer | pow
  deriving DecidableEq, Repr

/-- The unary functions.  `lib name cname` is a `MAKE_UNARY_FUNCTION(name, cname, _)` instance. -/
inductive Fn
  | lib (name cname : String)
  | det | diagMat | idVec | idMat | Q | step | stpVal | T | trace | unitMat | uran
  | uVecX | uVecY | uVecZ | xyMat | xCoord | yCoord | zCoord
  deriving DecidableEq, Repr

def BinOp.ofName : String → Option BinOp
  | "+" => some .add | "-" => some .sub | "*" => some .mul | "/" => some .div
  | ":" => some .contract | "°" => some .dot | "@" => some .outer | "^" => some .pow
  | _ => none

def BinOp.name : BinOp → String
  | .add => "+" | .sub => "-" | .mul => "*" | .div => "/"
  | .contract => ":" | .dot => "°" | .outer => "@" | .pow => "^"

/-- semantics of a registered function name; macro functions are recognised through the generated
`macroFuncs` table. -/
def Fn.ofName (n : String) : Option Fn :=
  match ExprTable.macroFuncs.lookup n with
  | some c => some (.lib n c)
  | none =>
    match n with
    | "det" => some .det | "diagMat" => some .diagMat | "idVec" => some .idVec
    | "idMat" => some .idMat | "Q" => some .Q | "step" => some .step | "stpVal" => some .stpVal
    | "T" => some .T | "trace" => some .trace | "unitMat" => some .unitMat | "uran" => some .uran
    | "uVecX" => some .uVecX | "uVecY" => some .uVecY | "uVecZ" => some .uVecZ
    | "xyMat" => some .xyMat | "xCoord" => some .xCoord | "yCoord" => some .yCoord
    | "zCoord" => some .zCoord
    | _ => none

def Fn.name : Fn → String
  | .lib n _ => n
  | .det => "det" | .diagMat => "diagMat" | .idVec => "idVec" | .idMat => "idMat" | .Q => "Q"
  | .step => "step" | .stpVal => "stpVal" | .T => "T" | .trace => "trace" | .unitMat => "unitMat"
  | .uran => "uran" | .uVecX => "uVecX" | .uVecY => "uVecY" | .uVecZ => "uVecZ"
  | .xyMat => "xyMat" | .xCoord => "xCoord" | .yCoord => "yCoord" | .zCoord => "zCoord"

/-- A `FunctionNode_Factory`: its name as characters and its node type. -/
structure Factory where
  name : List Char
  isBinary : Bool
  deriving DecidableEq, Repr

/-- `FunctionNode_Factory::byPriority(i)`: the factories registered with priority `i`, in registration
order.  Binary operators and unary functions live in different translation units; inside one priority
the model lists the binary operators first (`tableSeparated` below: no priority holds both kinds, so the
link order is irrelevant). -/
def byPriority (i : Nat) : List Factory :=
  ((ExprTable.binaryOps.filter (·.2 = i)).map fun p => ⟨p.1.toList, true⟩) ++
  ((ExprTable.unaryFuncs.filter (·.2 = i)).map fun p => ⟨p.1.toList, false⟩)

/-- all factories in the order `parseThis` tries them: priority `0 … C_MAX_PRIORITY-1`, inside one
priority in registration order. -/
def factories : List Factory :=
  (List.range ExprTable.maxPriority).flatMap byPriority

/-! ## The parse tree -/

inductive Tree
  /-- a declared symbol (`FPScalarVariable`, `FPVectorVariable`, `FPTensorVariable`) -/
  | sym (name : String)
  /-- `FPScalarConstant` made from a text that `strtod` accepted completely -/
  | num (text : String)
  /-- the constant `pi` -/
  | pi
  /-- `FNNegation` -/
  | neg (a : Tree)
  | bin (op : BinOp) (a b : Tree)
  | fn (f : Fn) (a : Tree)
  deriving DecidableEq, Repr

/-- canonical prefix form (the same text is printed by the harness from the real tree) -/
def Tree.show : Tree → String
  | .sym n => "sym:" ++ n
  | .num t => "num:" ++ t
  | .pi => "pi"
  | .neg a => "(neg " ++ a.show ++ ")"
  | .bin op a b => "(" ++ op.name ++ " " ++ a.show ++ " " ++ b.show ++ ")"
  | .fn f a => "(fn:" ++ f.name ++ " " ++ a.show ++ ")"

/-! ## `findWithoutParentheses` -/

/-- The loop of `findWithoutParentheses(s, substr)` while it walks from the right: `pre` is the reversed
prefix `s[0..p]` (its head is `s[p]`), `suf` is `s[p+1..]`, `level` the bracket level (a `size_t` in the
C++; it is only compared with `0`, so `Int` is the same).  Returns the index `p` where the loop stops
because `string(s, p, n) == substr && level == 0`, or `none` for `-1`. -/
def findGo (name : List Char) : List Char → List Char → Int → Option Nat
  | [], _, _ => none
  | c :: pre, suf, level =>
    if name.isPrefixOf (c :: suf) && level == 0 then some pre.length
    else findGo name pre (c :: suf)
      (if c = ')' then level + 1 else if c = '(' then level - 1 else level)

/-- `findWithoutParentheses(s, name)`: right-most position of `name` outside parentheses. -/
def findWP (s name : List Char) : Option Nat := findGo name s.reverse [] 0

/-! ## The all-enclosing-bracket loop of `parseThis` -/

/-- One run of `while(open)`, started behind index 0 with `open = 1`: walks the brackets of `cs` (index
of its head = `i`).  `(some p, _)`: `open` reached 0 at the `)` with index `p`; `(none, o)`: the end was
reached with `open = o ≥ 1` — neither `(` nor `)` is left, the real loop throws "Unbalanced brackets". -/
def scanClose : List Char → Nat → Nat → Option Nat × Nat
  | [], _, o => (none, o)
  | c :: cs, i, o =>
    if c = '(' then scanClose cs (i+1) (o+1)
    else if c = ')' then (if o ≤ 1 then (some i, 0) else scanClose cs (i+1) (o-1))
    else scanClose cs (i+1) o

/-- The `do … while (foundBrackets)` loop, one pass per unit of fuel:
* `expr.size() < 2 || expr[0] != '('` (after removing an all-enclosing bracket the rest need not start
  with a bracket any more): the loop ends;
* `expr[1] == ')'`: "Empty bracket!";
* the `while(open)` scan, started behind index 0 with `open = 1`, finds neither `(` nor `)` any more
  while `open > 0`: "Unbalanced brackets";
* the `)` matching index 0 is the last character: strip both and repeat; otherwise the loop ends.
Every pass but the last shortens the text by two characters, so the fuel `length + 1` supplied by
`stripBrackets` is never exhausted (`stripLoop_ne_fuel`). -/
def stripLoop : Nat → List Char → Except Err (List Char)
  | 0, _ => .error .fuel
  | fuel+1, e =>
    match e with
    | c0 :: c1 :: tl =>
      if c0 ≠ '(' then .ok e
      else if c1 = ')' then .error .emptyBracket
      else
        match scanClose (c1 :: tl) 1 1 with
        | (some p, _) => if p + 1 = e.length then stripLoop fuel (c1 :: tl).dropLast else .ok e
        | (none, _) => .error .unbalanced
    | _ => .ok e

/-- the bracket prologue of `parseThis`: `if(expr[0] == '(') { if(expr[1] == ')') throw …; do … }` -/
def stripBrackets (e : List Char) : Except Err (List Char) :=
  match e with
  | '(' :: rest =>
    if rest.head? = some ')' then .error .emptyBracket
    else stripLoop (e.length + 1) e
  | _ => .ok e

/-! ## Numeric literals (`strtod` accepting the whole text) -/

def isSpace (c : Char) : Bool :=
  c = ' ' || c = '\t' || c = '\n' || c = '\x0b' || c = '\x0c' || c = '\r'

def digitVal (c : Char) : Nat := c.toNat - '0'.toNat

/-- value of a digit string, most significant first -/
def digitsVal (ds : List Char) : Nat := ds.foldl (fun acc c => 10 * acc + digitVal c) 0

/-- the longest prefix of digits and the rest -/
def spanDigits : List Char → List Char × List Char
  | [] => ([], [])
  | c :: cs => if c.isDigit then let (d, r) := spanDigits cs; (c :: d, r) else ([], c :: cs)

def isNumChar (c : Char) : Bool := c.isDigit || c = '.' || c = 'e' || c = 'E'

/-- mantissa digits `ip.fp` (with or without a dot) followed by `r2`: nothing or an exponent -/
def decimalTail (ip fp : List Char) (hasDot : Bool) (r2 : List Char) : Option Rat :=
  if ip.isEmpty && fp.isEmpty then none
  else if ip.isEmpty && !hasDot then none
  else
    let mant : Rat := (digitsVal (ip ++ fp) : Rat) / ((10 : Rat) ^ fp.length)
    match r2 with
    | [] => some mant
    | c :: r =>
      if c = 'e' || c = 'E' then
        let p := spanDigits r
        if p.1.isEmpty || !p.2.isEmpty || p.1.length > 3 then none
        else some (mant * (10 : Rat) ^ digitsVal p.1)
      else none

def decimalCore (cs : List Char) : Option Rat :=
  let p1 := spanDigits cs
  match p1.2 with
  | '.' :: r => let p2 := spanDigits r; decimalTail p1.1 p2.1 true p2.2
  | _ => decimalTail p1.1 [] false p1.2

/-- An unsigned decimal floating literal `digits[.digits][(e|E)digits]` or `.digits[…]`, completely
(exponents of at most three digits).  Signs cannot reach `strtod`: `+` and `-` are operators and split
the text before.  The first two tests are implied by the third and only make that explicit. -/
def decimalVal (cs : List Char) : Option Rat :=
  if cs.all isNumChar && cs.head?.any (fun c => c.isDigit || c = '.') then decimalCore cs else none

def lower (cs : List Char) : List Char := cs.map Char.toLower

/-- texts that `strtod` may accept but the model does not interpret -/
def isExotic (cs : List Char) : Bool :=
  let l := lower cs
  l = "inf".toList || l = "infinity".toList || l = "nan".toList ||
  ("nan(".toList.isPrefixOf l && l.getLast? = some ')') ||
  ("0x".toList.isPrefixOf l && l.length > 2 &&
    (l.drop 2).all (fun c => c.isDigit || ('a' ≤ c && c ≤ 'f') || c = '.' || c = 'p')) ||
  -- decimal exponents of more than three digits are not evaluated by the model
  (l.all (fun c => c.isDigit || c = '.' || c = 'e') && ((l.dropWhile (· ≠ 'e')).length > 4))

inductive NumClass | decimal (r : Rat) | exotic | notNumber
  deriving Repr

/-- `strtod` skips leading white space. -/
def classifyNumber (cs : List Char) : NumClass :=
  let t := cs.dropWhile isSpace
  match decimalVal t with
  | some r =>
    -- outside the range of normal doubles `strtod` returns `inf` / a subnormal / 0: model abstains
    if r ≥ (2 : Rat) ^ 1024 || (0 < r && r < 1 / (2 : Rat) ^ 1022) then .exotic else .decimal r
  | none => if isExotic t then .exotic else .notNumber

/-! ## `valueFromString` and `parseThis` -/

/-- `valueFromString(expr)`; `known` = "is the name of a symbol in `m_symbols`" (the callback of the
production code always returns NULL). -/
def valueFromString (known : String → Bool) (e : List Char) : Except Err Tree :=
  let s := String.ofList e
  if known s then .ok (.sym s)
  else if e.isEmpty then .error .emptyOperand
  else match classifyNumber e with
    | .decimal _ => .ok (.num s)
    | .exotic => .error .exoticNumber
    | .notNumber => if s = "pi" then .ok .pi else .error .unknownSymbol

/-- The two nested `for` loops of `parseThis`: the first factory (priority order, then registration
order) whose name is found outside parentheses — for a unary function only if the right-most occurrence
is at position 0. -/
def selectFactory : List Factory → List Char → Option (Factory × Nat)
  | [], _ => none
  | f :: fs, e =>
    match findWP e f.name with
    | some pos => if f.isBinary || pos = 0 then some (f, pos) else selectFactory fs e
    | none => selectFactory fs e

/-- `parseThis` behind the bracket prologue; `rec` = `parseThis` for the operands.
The two operands of `setBinary(parseThis(left), parseThis(right))` are evaluated right to left (gcc,
x86-64), which decides which error is reported when both operands are faulty. -/
def parseBody (known : String → Bool) (rec : List Char → Except Err Tree) (expr : List Char) :
    Except Err Tree :=
  match selectFactory factories expr with
  | none => valueFromString known expr
  | some (f, pos) =>
    let name := String.ofList f.name
    if f.isBinary then
      if name = "-" && pos = 0 then do
        let a ← rec (expr.drop 1)
        .ok (.neg a)
      else
        match BinOp.ofName name with
        | none => .error .unknownOperator
        | some op => do
          let b ← rec (expr.drop (pos + f.name.length))
          let a ← rec (expr.take pos)
          .ok (.bin op a b)
    else
      match Fn.ofName name with
      | none => .error .unknownOperator
      | some fn => do
        let a ← rec (expr.drop f.name.length)
        .ok (.fn fn a)

/-- `parseThis`, with fuel (`parse` supplies `length + 1`, which is enough: `parseCore_ne_fuel`). -/
def parseCore (known : String → Bool) : Nat → List Char → Except Err Tree
  | 0, _ => .error .fuel
  | fuel+1, expression => do
    let expr ← stripBrackets expression
    parseBody known (parseCore known fuel) expr

/-- `FunctionParser::parse(expression)` with the declared symbol names `syms`. -/
def parse (syms : List String) (s : String) : Except Err Tree :=
  parseCore (fun n => syms.contains n) (s.toList.length + 1) s.toList


/-! ## Values: scalar, vector, 3x3 matrix (`Variant`) -/

structure V3 (α : Type) where
  x : α
  y : α
  z : α
  deriving DecidableEq, Repr

/-- row major as `Variant::m_doubles` / `tensor_t::tensor`: index `j + 3*i` is row `i`, column `j`. -/
structure M9 (α : Type) where
  xx : α
  xy : α
  xz : α
  yx : α
  yy : α
  yz : α
  zx : α
  zy : α
  zz : α
  deriving DecidableEq, Repr

inductive Val (α : Type)
  | s (a : α)
  | v (a : V3 α)
  | t (a : M9 α)
  deriving DecidableEq, Repr

inductive Ty | scalar | vector | tensor
  deriving DecidableEq, Repr

def Ty.name : Ty → String
  | .scalar => "scalar" | .vector => "vector" | .tensor => "tensor"

def Ty.size : Ty → Nat
  | .scalar => 1 | .vector => 3 | .tensor => 9

namespace V3
def map (f : α → β) (a : V3 α) : V3 β := ⟨f a.x, f a.y, f a.z⟩
def zip (f : α → β → γ) (a : V3 α) (b : V3 β) : V3 γ := ⟨f a.x b.x, f a.y b.y, f a.z b.z⟩
def toList (a : V3 α) : List α := [a.x, a.y, a.z]
def mapM (f : α → Except ε β) (a : V3 α) : Except ε (V3 β) := do
  let x ← f a.x
  let y ← f a.y
  let z ← f a.z
  pure ⟨x, y, z⟩
end V3

namespace M9
def map (f : α → β) (a : M9 α) : M9 β :=
  ⟨f a.xx, f a.xy, f a.xz, f a.yx, f a.yy, f a.yz, f a.zx, f a.zy, f a.zz⟩
def zip (f : α → β → γ) (a : M9 α) (b : M9 β) : M9 γ :=
  ⟨f a.xx b.xx, f a.xy b.xy, f a.xz b.xz, f a.yx b.yx, f a.yy b.yy, f a.yz b.yz,
   f a.zx b.zx, f a.zy b.zy, f a.zz b.zz⟩
def toList (a : M9 α) : List α := [a.xx, a.xy, a.xz, a.yx, a.yy, a.yz, a.zx, a.zy, a.zz]
def mapM (f : α → Except ε β) (a : M9 α) : Except ε (M9 β) := do
  let xx ← f a.xx
  let xy ← f a.xy
  let xz ← f a.xz
  let yx ← f a.yx
  let yy ← f a.yy
  let yz ← f a.yz
  let zx ← f a.zx
  let zy ← f a.zy
  let zz ← f a.zz
  pure ⟨xx, xy, xz, yx, yy, yz, zx, zy, zz⟩
end M9

namespace Val
def ty : Val α → Ty
  | .s _ => .scalar | .v _ => .vector | .t _ => .tensor
def map (f : α → β) : Val α → Val β
  | .s a => .s (f a) | .v a => .v (a.map f) | .t a => .t (a.map f)
def toList : Val α → List α
  | .s a => [a] | .v a => a.toList | .t a => a.toList
/-- component-wise with an effect, components in index order (the `for` loops of the C++) -/
def mapM (f : α → Except ε β) : Val α → Except ε (Val β)
  | .s a => do let x ← f a; pure (.s x)
  | .v a => do let x ← a.mapM f; pure (.v x)
  | .t a => do let x ← a.mapM f; pure (.t x)
/-- `FOR_EACH_DOUBLE2` / `FOR_EACH_STRING2`: `sameType`, then component-wise. -/
def zipM (f : α → α → Except Err β) : Val α → Val α → Except Err (Val β)
  | .s a, .s b => do let x ← f a b; pure (.s x)
  | .v a, .v b => do let x ← (a.zip f b).mapM id; pure (.v x)
  | .t a, .t b => do let x ← (a.zip f b).mapM id; pure (.t x)
  | _, _ => .error .type
end Val

/-! ## Environment -/

/-- A declared symbol: `name` as the parser sees it (`a`, `[a]`, `{a}`), its type, and the index `slot`
of its first `double` in the tag (byte offset `8*slot`). -/
structure Decl where
  name : String
  ty : Ty
  slot : Nat
  deriving DecidableEq, Repr

structure Env where
  decls : List Decl
  /-- the doubles of the tag: `mem k` is the double at byte offset `8*k` -/
  mem : Nat → Rat
  /-- libm functions by their C name (`sqrt sin cos tan asin acos atan sinh cosh tanh exp`) -/
  lib : String → Rat → Except Err Rat
  /-- `pow(a, b)` for a non-integral `b` -/
  powf : Rat → Rat → Except Err Rat
  /-- `M_PI` -/
  piv : Except Err Rat

def Env.find (env : Env) (n : String) : Option Decl := env.decls.find? (·.name = n)

def Env.known (env : Env) (n : String) : Bool := env.decls.any (·.name = n)

/-- `FP*Variable::value()` with a valid value pointer -/
def Env.lookup (env : Env) (n : String) : Except Err (Val Rat) :=
  match env.find n with
  | none => .error .unknownSymbol
  | some d =>
    let m := fun i => env.mem (d.slot + i)
    match d.ty with
    | .scalar => .ok (.s (m 0))
    | .vector => .ok (.v ⟨m 0, m 1, m 2⟩)
    | .tensor => .ok (.t ⟨m 0, m 1, m 2, m 3, m 4, m 5, m 6, m 7, m 8⟩)

/-- `FP*Variable::value()` with the NULL value pointers of the production code
(`FunctionArbitrary::addDouble/addPoint/addTensor`): the scalar, the vector and the tensor variable all
throw a `gError` (fp_scalar.h, fp_vector.h, fp_tensor.h). -/
def Env.lookupNull (env : Env) (n : String) : Except Err (Val Rat) :=
  match env.find n with
  | none => .error .unknownSymbol
  | some _ => .error .nullValue

/-! ## The interpreter `value()` -/

def absRat (x : Rat) : Rat := if x < 0 then -x else x

/-- C `round`: half away from zero -/
def roundRat (x : Rat) : Rat :=
  if x < 0 then -(((-x) + 1/2).floor : Rat) else ((x + 1/2).floor : Rat)

def divRat (a b : Rat) : Except Err Rat := if b = 0 then .error .div0 else .ok (a / b)

/-- exponents beyond this bound are not evaluated by the model (`range`: the model abstains) -/
def maxExp : Nat := 4096

/-- `pow(a, b)`: exact for integral `b` (up to `maxExp`); `pow(0, negative)` is `div0`; the oracle
otherwise. -/
def powRat (env : Env) (a b : Rat) : Except Err Rat :=
  if b.den = 1 then
    if b.num.natAbs > maxExp then .error .range
    else if 0 ≤ b.num then .ok (a ^ b.num.toNat)
    else if a = 0 then .error .div0 else .ok (1 / a ^ (-b.num).toNat)
  else env.powf a b

/-- a C library function of one `double`, by its C name -/
def libFn (env : Env) (cname : String) (x : Rat) : Except Err Rat :=
  if cname = "fabs" then .ok (absRat x)
  else if cname = "round" then .ok (roundRat x)
  else env.lib cname x

def stepRat (x : Rat) : Rat := if x > 0 then 1 else 0
def stpValRat (x : Rat) : Rat := if x > 0 then x else 0

def det9 (a : M9 Rat) : Rat :=
  a.xz * (a.yx * a.zy - a.yy * a.zx) + a.xy * (a.yz * a.zx - a.yx * a.zz) + a.xx * (a.yy * a.zz - a.yz * a.zy)

/-- `Tensor:Vector`: `r[j] += a[i+j*dim]*b[i]` -/
def matVec (a : M9 Rat) (b : V3 Rat) : V3 Rat :=
  ⟨a.xx * b.x + a.xy * b.y + a.xz * b.z,
   a.yx * b.x + a.yy * b.y + a.yz * b.z,
   a.zx * b.x + a.zy * b.y + a.zz * b.z⟩

/-- `FNDot::value`: `r[j+3i] += a[k+3i]*b[j+3k]` -/
def matMul (a b : M9 Rat) : M9 Rat :=
  ⟨a.xx * b.xx + a.xy * b.yx + a.xz * b.zx, a.xx * b.xy + a.xy * b.yy + a.xz * b.zy, a.xx * b.xz + a.xy * b.yz + a.xz * b.zz,
   a.yx * b.xx + a.yy * b.yx + a.yz * b.zx, a.yx * b.xy + a.yy * b.yy + a.yz * b.zy, a.yx * b.xz + a.yy * b.yz + a.yz * b.zz,
   a.zx * b.xx + a.zy * b.yx + a.zz * b.zx, a.zx * b.xy + a.zy * b.yy + a.zz * b.zy, a.zx * b.xz + a.zy * b.yz + a.zz * b.zz⟩

/-- `FNOuter::value`: `r[j+3i] = a[i]*b[j]` -/
def outer3 (a b : V3 Rat) : M9 Rat :=
  ⟨a.x * b.x, a.x * b.y, a.x * b.z, a.y * b.x, a.y * b.y, a.y * b.z, a.z * b.x, a.z * b.y, a.z * b.z⟩

def dot3 (a b : V3 Rat) : Rat := a.x * b.x + a.y * b.y + a.z * b.z

def dot9 (a b : M9 Rat) : Rat :=
  a.xx * b.xx + a.xy * b.xy + a.xz * b.xz + a.yx * b.yx + a.yy * b.yy + a.yz * b.yz +
  a.zx * b.zx + a.zy * b.zy + a.zz * b.zz

/-- the `value()` methods of the binary operators -/
def evalBin (env : Env) (op : BinOp) (va vb : Val Rat) : Except Err (Val Rat) :=
  match op with
  | .add => Val.zipM (fun x y => .ok (x + y)) va vb
  | .sub => Val.zipM (fun x y => .ok (x - y)) va vb
  | .mul =>
    match va, vb with
    | .s a, b => .ok (b.map (a * ·))
    | a, .s b => .ok (a.map (b * ·))
    | a, b => Val.zipM (fun x y => .ok (x * y)) a b
  | .div =>
    match vb with
    | .s b => va.mapM (divRat · b)
    | _ => Val.zipM divRat va vb
  | .contract =>
    match va, vb with
    | .s a, .s b => .ok (.s (a * b))
    | .v a, .v b => .ok (.s (dot3 a b))
    | .t a, .t b => .ok (.s (dot9 a b))
    | .t a, .v b => .ok (.v (matVec a b))
    | _, _ => .error .type
  | .dot =>
    match va, vb with
    | .t a, .t b => .ok (.t (matMul a b))
    | _, _ => .error .type
  | .outer =>
    match va, vb with
    | .v a, .v b => .ok (.t (outer3 a b))
    | _, _ => .error .type
  | .pow =>
    match va, vb with
    | .s a, .s b => do let r ← powRat env a b; pure (.s r)
    | _, _ => .error .type

/-- the `value()` methods of the unary functions -/
def evalFn (env : Env) (f : Fn) (va : Val Rat) : Except Err (Val Rat) :=
  match f with
  | .lib _ c => va.mapM (libFn env c)
  | .det => match va with | .t a => .ok (.s (det9 a)) | _ => .error .type
  | .diagMat => match va with | .v a => .ok (.t ⟨a.x, 0, 0, 0, a.y, 0, 0, 0, a.z⟩) | _ => .error .type
  | .idVec => match va with | .s d => .ok (.v ⟨d, d, d⟩) | _ => .error .type
  | .idMat => match va with | .s d => .ok (.t ⟨d, 0, 0, 0, d, 0, 0, 0, d⟩) | _ => .error .type
  | .Q =>
    match va with
    | .s a => .ok (.s (a * a))
    | .v a => .ok (.s (dot3 a a))
    | .t a => .ok (.s (dot9 a a))
  | .step => .ok (va.map stepRat)
  | .stpVal => .ok (va.map stpValRat)
  | .T => match va with
    | .t a => .ok (.t ⟨a.xx, a.yx, a.zx, a.xy, a.yy, a.zy, a.xz, a.yz, a.zz⟩)
    | _ => .error .type
  | .trace => match va with | .t a => .ok (.s (a.xx + a.yy + a.zz)) | _ => .error .type
  | .unitMat => match va with | .s d => .ok (.t ⟨d, d, d, d, d, d, d, d, d⟩) | _ => .error .type
  | .uran => .error .random
  | .uVecX => match va with | .s d => .ok (.v ⟨d, 0, 0⟩) | _ => .error .type
  | .uVecY => match va with | .s d => .ok (.v ⟨0, d, 0⟩) | _ => .error .type
  | .uVecZ => match va with | .s d => .ok (.v ⟨0, 0, d⟩) | _ => .error .type
  | .xyMat => match va with
    | .t a => .ok (.t ⟨a.xx, a.xy, 0, a.yx, a.yy, 0, 0, 0, 0⟩)
    | _ => .error .type
  | .xCoord => match va with | .v a => .ok (.s a.x) | _ => .error .type
  | .yCoord => match va with | .v a => .ok (.s a.y) | _ => .error .type
  | .zCoord => match va with | .v a => .ok (.s a.z) | _ => .error .type

/-- value of the text of a numeric literal -/
def numVal (text : String) : Except Err Rat :=
  match classifyNumber text.toList with
  | .decimal r => .ok r
  | .exotic => .error .exoticNumber
  | .notNumber => .error .unknownSymbol

/-- `FunctionNode::value()`; `look` is the `value()` of the variables.  Operands are evaluated left to
right (`Variant vara = m_a->value(); Variant varb = m_b->value();`). -/
def eval (env : Env) (look : String → Except Err (Val Rat)) : Tree → Except Err (Val Rat)
  | .sym n => look n
  | .num t => do let r ← numVal t; pure (.s r)
  | .pi => do let r ← env.piv; pure (.s r)
  | .neg a => do let va ← eval env look a; pure (va.map (fun x => -x))
  | .bin op a b => do
    let va ← eval env look a
    let vb ← eval env look b
    evalBin env op va vb
  | .fn f a => do
    let va ← eval env look a
    evalFn env f va

/-- the interpreter: `FunctionParser::value()` -/
def denote (env : Env) (t : Tree) : Except Err (Val Rat) := eval env env.lookup t

/-! ### The types `value()` works with

`value()` checks operand types dynamically, but the type of a result only depends on the types of the
operands; the real code never stops for another reason than a type error (a division by zero gives
`inf`/`nan` and evaluation goes on).  `tyV` is this type discipline, obtained by running the very same
`evalBin`/`evalFn` on all-ones values. -/

def oneEnv : Env :=
  { decls := [], mem := fun _ => 1, lib := fun _ _ => .ok 1, powf := fun _ _ => .ok 1, piv := .ok 1 }

def Val.ones : Ty → Val Rat
  | .scalar => .s 1
  | .vector => .v ⟨1, 1, 1⟩
  | .tensor => .t ⟨1, 1, 1, 1, 1, 1, 1, 1, 1⟩

def tyBinV (op : BinOp) (a b : Ty) : Except Err Ty :=
  (evalBin oneEnv op (Val.ones a) (Val.ones b)).map Val.ty

def tyFnV (f : Fn) (a : Ty) : Except Err Ty :=
  if f = .uran then .ok a else (evalFn oneEnv f (Val.ones a)).map Val.ty

/-- result type of `value()`, or the `type` error it throws -/
def tyV (env : Env) : Tree → Except Err Ty
  | .sym n => match env.find n with | some d => .ok d.ty | none => .error .unknownSymbol
  | .num _ => .ok .scalar
  | .pi => .ok .scalar
  | .neg a => tyV env a
  | .bin op a b => do
    let ta ← tyV env a
    let tb ← tyV env b
    tyBinV op ta tb
  | .fn f a => do
    let ta ← tyV env a
    tyFnV f ta

/-! ## The emitter `toC()` -/

/-- Concrete syntax of the emitted C text, exactly as the `toC()` methods glue it together. -/
inductive CE
  /-- `*((double*) ((char*) particle_tag + off))` -/
  | load (off : Nat)
  /-- a numeric literal, verbatim -/
  | lit (text : List Char)
  | mpi
  /-- `rand()` -/
  | rand0
  | randMax
  /-- `(e)` -/
  | par (e : CE)
  /-- `(double) e` (`sp = true`) or `(double)e` -/
  | castd (sp : Bool) (e : CE)
  /-- `-e` -/
  | neg (e : CE)
  /-- `a op b` with `op ∈ + - * /`; `sp = true` puts a blank on both sides -/
  | bin (op : Char) (sp : Bool) (a b : CE)
  /-- `c > 0 ? a : b` -/
  | gt0 (c a b : CE)
  /-- `f(a)` -/
  | call (f : String) (a : CE)
  /-- `pow(a, b)` -/
  | pow (a b : CE)
  deriving DecidableEq, Repr

def CE.render : CE → List Char
  | .load off => "*((double*) ((char*) particle_tag + ".toList ++ (toString off).toList ++ "))".toList
  | .lit t => t
  | .mpi => "M_PI".toList
  | .rand0 => "rand()".toList
  | .randMax => "RAND_MAX".toList
  | .par e => '(' :: (e.render ++ [')'])
  | .castd sp e => "(double)".toList ++ (if sp then [' '] else []) ++ e.render
  | .neg e => '-' :: e.render
  | .bin op sp a b => a.render ++ (if sp then [' ', op, ' '] else [op]) ++ b.render
  | .gt0 c a b => c.render ++ " > 0 ? ".toList ++ a.render ++ " : ".toList ++ b.render
  | .call f a => f.toList ++ ('(' :: (a.render ++ [')']))
  | .pow a b => "pow(".toList ++ a.render ++ ", ".toList ++ b.render ++ [')']

/-- `x0 op x1 op … ` left-nested, as the C text `x0opx1op…` is read -/
def chain (op : Char) (sp : Bool) : CE → List CE → CE
  | acc, [] => acc
  | acc, x :: xs => chain op sp (.bin op sp acc x) xs

def mulC (a b : CE) : CE := .bin '*' false a b
/-- the zero components of `diagMat idMat uVecX uVecY uVecZ xyMat`: `(0.0)`, a C `double` -/
def zeroC : CE := .par (.lit ['0', '.', '0'])

def detC (a : M9 CE) : CE :=
  .par (.bin '+' false
    (.bin '+' false
      (mulC a.xz (.par (.bin '-' false (mulC a.yx a.zy) (mulC a.yy a.zx))))
      (mulC a.xy (.par (.bin '-' false (mulC a.yz a.zx) (mulC a.yx a.zz)))))
    (mulC a.xx (.par (.bin '-' false (mulC a.yy a.zz) (mulC a.yz a.zy)))))

/-- `FNContraction::toC`, operands of the same type: `(a0*b0+a1*b1+…)` -/
def contractC : List CE → List CE → Except Err CE
  | a :: as, b :: bs => .ok (.par (chain '+' false (mulC a b) (List.zipWith mulC as bs)))
  | _, _ => .error .type

def row3C (a0 a1 a2 : CE) (b : V3 CE) : CE :=
  .par (chain '+' false (mulC a0 b.x) [mulC a1 b.y, mulC a2 b.z])

def matVecC (a : M9 CE) (b : V3 CE) : V3 CE :=
  ⟨row3C a.xx a.xy a.xz b, row3C a.yx a.yy a.yz b, row3C a.zx a.zy a.zz b⟩

/-- one entry of `FNDot::toC`: `(((a*b) + (c*d) + (e*f)))` -/
def dotEntryC (a0 a1 a2 b0 b1 b2 : CE) : CE :=
  .par (.par (chain '+' true (.par (mulC a0 b0)) [.par (mulC a1 b1), .par (mulC a2 b2)]))

def matMulC (a b : M9 CE) : M9 CE :=
  ⟨dotEntryC a.xx a.xy a.xz b.xx b.yx b.zx, dotEntryC a.xx a.xy a.xz b.xy b.yy b.zy, dotEntryC a.xx a.xy a.xz b.xz b.yz b.zz,
   dotEntryC a.yx a.yy a.yz b.xx b.yx b.zx, dotEntryC a.yx a.yy a.yz b.xy b.yy b.zy, dotEntryC a.yx a.yy a.yz b.xz b.yz b.zz,
   dotEntryC a.zx a.zy a.zz b.xx b.yx b.zx, dotEntryC a.zx a.zy a.zz b.xy b.yy b.zy, dotEntryC a.zx a.zy a.zz b.xz b.yz b.zz⟩

def outerC (a b : V3 CE) : M9 CE :=
  let f := fun x y => CE.par (mulC x y)
  ⟨f a.x b.x, f a.x b.y, f a.x b.z, f a.y b.x, f a.y b.y, f a.y b.z, f a.z b.x, f a.z b.y, f a.z b.z⟩

/-- `FNQ::toC`: `(((x)*(x)) + ((y)*(y)) + …)` -/
def qC : List CE → Except Err CE
  | x :: xs =>
    let sq := fun e => CE.par (mulC (.par e) (.par e))
    .ok (.par (chain '+' true (sq x) (xs.map sq)))
  | [] => .error .type

/-- the unrolled `^`: `(a*a*…*a)` (`n ≥ 1` factors) -/
def powChainC (a : CE) (n : Nat) : CE := chain '*' false a (List.replicate (n - 1) a)

/-- the `toC()` methods of the binary operators except `^` -/
def emitBin (op : BinOp) (ca cb : Val CE) : Except Err (Val CE) :=
  match op with
  | .add => Val.zipM (fun x y => .ok (.par (.bin '+' false x y))) ca cb
  | .sub => Val.zipM (fun x y => .ok (.par (.bin '-' false x y))) ca cb
  | .mul =>
    match ca, cb with
    | .s a, b => .ok (b.map fun x => .par (mulC a x))
    | a, .s b => .ok (a.map fun x => .par (mulC b x))
    | a, b => Val.zipM (fun x y => .ok (.par (mulC x y))) a b
  | .div =>
    match cb with
    | .s b => .ok (ca.map fun x => .par (.bin '/' false x b))
    | _ => Val.zipM (fun x y => .ok (.par (.bin '/' false x y))) ca cb
  | .contract =>
    match ca, cb with
    | .v a, .v b => do let r ← contractC a.toList b.toList; pure (.s r)
    | .t a, .t b => do let r ← contractC a.toList b.toList; pure (.s r)
    | .t a, .v b => .ok (.v (matVecC a b))
    | _, _ => .error .type
  | .dot =>
    match ca, cb with
    | .t a, .t b => .ok (.t (matMulC a b))
    | _, _ => .error .type
  | .outer =>
    match ca, cb with
    | .v a, .v b => .ok (.t (outerC a b))
    | _, _ => .error .type
  | .pow => .error .type

/-- the `toC()` methods of the unary functions -/
def emitFn (f : Fn) (ca : Val CE) : Except Err (Val CE) :=
  match f with
  | .lib _ c => .ok (ca.map fun x => .call c x)
  | .det => match ca with | .t a => .ok (.s (detC a)) | _ => .error .type
  | .diagMat => match ca with
    | .v a => .ok (.t ⟨.par a.x, zeroC, zeroC, zeroC, .par a.y, zeroC, zeroC, zeroC, .par a.z⟩)
    | _ => .error .type
  | .idVec => match ca with | .s d => .ok (.v ⟨.par d, .par d, .par d⟩) | _ => .error .type
  | .idMat => match ca with
    | .s d => .ok (.t ⟨.par d, zeroC, zeroC, zeroC, .par d, zeroC, zeroC, zeroC, .par d⟩)
    | _ => .error .type
  | .Q => do let r ← qC ca.toList; pure (.s r)
  | .step => .ok (ca.map fun x => .par (.gt0 (.par x) (.lit ['1', '.', '0']) (.lit ['0', '.', '0'])))
  | .stpVal => .ok (ca.map fun x => .par (.gt0 (.par x) (.par x) (.lit ['0', '.', '0'])))
  | .T => match ca with
    | .t a => .ok (.t ⟨.par a.xx, .par a.yx, .par a.zx, .par a.xy, .par a.yy, .par a.zy,
                       .par a.xz, .par a.yz, .par a.zz⟩)
    | _ => .error .type
  | .trace => match ca with
    | .t a => .ok (.s (.par (chain '+' true a.xx [a.yy, a.zz])))
    | _ => .error .type
  | .unitMat => match ca with
    | .s d => .ok (.t ⟨.par d, .par d, .par d, .par d, .par d, .par d, .par d, .par d, .par d⟩)
    | _ => .error .type
  | .uran => .ok (ca.map fun _ => .par (.bin '/' false (.castd false .rand0) (.castd false .randMax)))
  | .uVecX => match ca with | .s d => .ok (.v ⟨.par d, zeroC, zeroC⟩) | _ => .error .type
  | .uVecY => match ca with | .s d => .ok (.v ⟨zeroC, .par d, zeroC⟩) | _ => .error .type
  | .uVecZ => match ca with | .s d => .ok (.v ⟨zeroC, zeroC, .par d⟩) | _ => .error .type
  | .xyMat => match ca with
    | .t a => .ok (.t ⟨.par a.xx, .par a.xy, zeroC, .par a.yx, .par a.yy, zeroC, zeroC, zeroC, zeroC⟩)
    | _ => .error .type
  | .xCoord => match ca with | .v a => .ok (.s (.par a.x)) | _ => .error .type
  | .yCoord => match ca with | .v a => .ok (.s (.par a.y)) | _ => .error .type
  | .zCoord => match ca with | .v a => .ok (.s (.par a.z)) | _ => .error .type

/-- `FPScalarConstant::toC`: integral values inside the `int` range as `(n.0)`, everything else as
`((double) (text))`.  (A literal is never negative: no sign reaches `strtod`.) -/
def constC (text : String) (r : Rat) : CE :=
  if r.den = 1 ∧ 0 ≤ r.num ∧ r.num < 2147483647 then
    .par (.lit (Nat.toDigits 10 r.num.toNat ++ ['.', '0']))
  else .par (.castd true (.par (.lit text.toList)))

def loadC (slot i : Nat) : CE := .par (.load (8 * (slot + i)))

/-- `FP*Variable::toC()` with the C expressions of `FunctionArbitrary::double2CExpression` etc. -/
def symC (env : Env) (n : String) : Except Err (Val CE) :=
  match env.find n with
  | none => .error .unknownSymbol
  | some d =>
    let m := loadC d.slot
    match d.ty with
    | .scalar => .ok (.s (m 0))
    | .vector => .ok (.v ⟨m 0, m 1, m 2⟩)
    | .tensor => .ok (.t ⟨m 0, m 1, m 2, m 3, m 4, m 5, m 6, m 7, m 8⟩)

/-- `FNPower::toC`, after both operand texts are known to be scalars: `m_b->value()` is tried with the
NULL value pointers of production.  `vb` is its outcome; a `gError` (any variable in the exponent) is
caught and gives `pow(a, b)`.  `opaque`: the exponent needs a libm oracle, the model abstains. -/
def powC (a b : CE) (vb : Except Err (Val Rat)) : Except Err CE :=
  match vb with
  | .error .opaque => .error .opaque
  | .error _ => .ok (.par (.pow a b))
  | .ok (.s x) =>
    if x.den = 1 ∧ -2147483648 < x.num ∧ x.num < 2147483648 then
      if x.num.natAbs > maxExp then .error .range
      else if 0 < x.num then .ok (.par (powChainC a x.num.toNat))
      else if x.num = 0 then .ok (.par (.lit ['1', '.', '0']))
      else .ok (.par (.bin '/' false (.lit ['1', '.', '0']) (.par (powChainC a (-x.num).toNat))))
    else if x = -2147483648 then .error .range
    else .ok (.par (.pow a b))
  | .ok _ => .error .type

/-- `FunctionNode::toC()` -/
def toCE (env : Env) : Tree → Except Err (Val CE)
  | .sym n => symC env n
  | .num t => do let r ← numVal t; pure (.s (constC t r))
  | .pi => .ok (.s (.par (.castd true (.par .mpi))))
  | .neg a => do let ca ← toCE env a; pure (ca.map fun x => .par (.neg x))
  | .bin .pow a b => do
    let ca ← toCE env a
    let cb ← toCE env b
    match ca, cb with
    | .s x, .s y => do let r ← powC x y (eval env env.lookupNull b); pure (.s r)
    | _, _ => .error .type
  | .bin op a b => do
    let ca ← toCE env a
    let cb ← toCE env b
    emitBin op ca cb
  | .fn f a => do
    let ca ← toCE env a
    emitFn f ca

/-- the strings of `FunctionParser::toC()` -/
def toC (env : Env) (t : Tree) : Except Err (List String) := do
  let c ← toCE env t
  pure (c.toList.map fun e => String.ofList e.render)


/-! ## The C reader: what gcc makes of the emitted text (SPECIFICATION, trusted) -/

inductive COp | add | sub | mul | div
  deriving DecidableEq, Repr

/-- abstract syntax of the C-expression subset -/
inductive CX
  /-- a numeric literal; `isInt`: no `.` and no exponent, i.e. of type `int` -/
  | num (isInt : Bool) (r : Rat)
  | mpi
  | rand0
  | randMax
  /-- `*((double*) ((char*) particle_tag + off))` -/
  | load (off : Nat)
  | neg (e : CX)
  /-- `(double) e` -/
  | castd (e : CX)
  | bin (op : COp) (a b : CX)
  /-- `c > z ? a : b` -/
  | ite (c z a b : CX)
  | call1 (f : String) (a : CX)
  | call2 (f : String) (a b : CX)
  deriving DecidableEq, Repr

def skipWs : List Char → List Char
  | [] => []
  | c :: cs => if isSpace c then skipWs cs else c :: cs

def isIdChar (c : Char) : Bool := c.isAlphanum || c = '_'

/-- longest prefix satisfying `p`, and the rest -/
def spanP (p : Char → Bool) : List Char → List Char × List Char
  | [] => ([], [])
  | c :: cs => if p c then let (a, r) := spanP p cs; (c :: a, r) else ([], c :: cs)

def loadPrefix : List Char := "((double*) ((char*) particle_tag + ".toList

/-- strip the literal `pre` from the front -/
def expect (pre : List Char) (cs : List Char) : Except Err (List Char) :=
  if pre.isPrefixOf cs then .ok (cs.drop pre.length) else .error .cSyntax

/-- the nonterminals of the reader; the `…Loop` ones carry the left operand parsed so far -/
inductive Task
  | cond | add | addLoop (l : CX) | mul | mulLoop (l : CX) | unary | primary

abbrev PRes := Except Err (CX × List Char)

/-! Recursive-descent reader with the C precedences
`?:`  <  `>`  <  `+ -`  <  `* /`  <  unary `-`, cast, `*`  <  primary; binary operators associate to the
left.  Every function returns the tree and the unread rest.  The recursion is open (`rec` = the reader
with one unit of fuel less) so that the steps can be reasoned about separately. -/

/-- `add [ '>' add '?' cond ':' cond ]` -/
def stepCond (rec : Task → List Char → PRes) (cs : List Char) : PRes := do
  let (c, r) ← rec .add cs
  match skipWs r with
  | '>' :: r1 => do
    let (z, r2) ← rec .add r1
    match skipWs r2 with
    | '?' :: r3 => do
      let (a, r4) ← rec .cond r3
      match skipWs r4 with
      | ':' :: r5 => do
        let (b, r6) ← rec .cond r5
        pure (.ite c z a b, r6)
      | _ => .error .cSyntax
    | _ => .error .cSyntax
  | _ => pure (c, r)

def stepAdd (rec : Task → List Char → PRes) (cs : List Char) : PRes := do
  let (l, r) ← rec .mul cs
  rec (.addLoop l) r

/-- `++` and `--` are the increment / decrement tokens: rejected -/
def stepAddLoop (rec : Task → List Char → PRes) (l : CX) (cs : List Char) : PRes :=
  match skipWs cs with
  | '+' :: r =>
    if r.head? = some '+' then .error .cSyntax
    else do
      let (x, r') ← rec .mul r
      rec (.addLoop (.bin .add l x)) r'
  | '-' :: r =>
    if r.head? = some '-' then .error .cSyntax
    else do
      let (x, r') ← rec .mul r
      rec (.addLoop (.bin .sub l x)) r'
  | _ => pure (l, cs)

def stepMul (rec : Task → List Char → PRes) (cs : List Char) : PRes := do
  let (l, r) ← rec .unary cs
  rec (.mulLoop l) r

/-- `/*` and `//` start a comment: rejected -/
def stepMulLoop (rec : Task → List Char → PRes) (l : CX) (cs : List Char) : PRes :=
  match skipWs cs with
  | '*' :: r => do
    let (x, r') ← rec .unary r
    rec (.mulLoop (.bin .mul l x)) r'
  | '/' :: r =>
    if r.head? = some '*' || r.head? = some '/' then .error .cSyntax
    else do
      let (x, r') ← rec .unary r
      rec (.mulLoop (.bin .div l x)) r'
  | _ => pure (l, cs)

def stepUnary (rec : Task → List Char → PRes) (cs : List Char) : PRes :=
  match skipWs cs with
  | '-' :: r =>
    -- `--` would be the decrement operator
    if (skipWs r).head? = some '-' then .error .cSyntax
    else do
      let (x, r') ← rec .unary r
      pure (.neg x, r')
  | '*' :: r => do
    let r1 ← expect loadPrefix r
    let (ds, r2) := spanP Char.isDigit r1
    if ds.isEmpty then .error .cSyntax
    else do
      let r3 ← expect "))".toList r2
      pure (.load (digitsVal ds), r3)
  | '(' :: r =>
    if "double)".toList.isPrefixOf r then do
      let (x, r') ← rec .unary (r.drop 7)
      pure (.castd x, r')
    else rec .primary cs
  | _ => rec .primary cs

def stepPrimary (rec : Task → List Char → PRes) (cs : List Char) : PRes :=
  match skipWs cs with
  | '(' :: r => do
    let (e, r') ← rec .cond r
    match skipWs r' with
    | ')' :: r'' => pure (e, r'')
    | _ => .error .cSyntax
  | c :: r =>
    if c.isDigit || c = '.' then
      let (txt, rest) := spanP isNumChar (c :: r)
      match decimalVal txt with
      | some q => pure (.num (txt.all Char.isDigit) q, rest)
      | none => .error .cSyntax
    else if c.isAlpha || c = '_' then
      let (idc, rest) := spanP isIdChar (c :: r)
      let name := String.ofList idc
      match rest with
      | '(' :: r1 =>
        if name = "rand" then
          match skipWs r1 with
          | ')' :: r2 => pure (.rand0, r2)
          | _ => .error .cSyntax
        else do
          let (a, r2) ← rec .cond r1
          match skipWs r2 with
          | ')' :: r3 => pure (.call1 name a, r3)
          | ',' :: r3 => do
            let (b, r4) ← rec .cond r3
            match skipWs r4 with
            | ')' :: r5 => pure (.call2 name a b, r5)
            | _ => .error .cSyntax
          | _ => .error .cSyntax
      | _ =>
        if name = "M_PI" then pure (.mpi, rest)
        else if name = "RAND_MAX" then pure (.randMax, rest)
        else .error .cSyntax
    else .error .cSyntax
  | [] => .error .cSyntax

def runStep (rec : Task → List Char → PRes) : Task → List Char → PRes
  | .cond, cs => stepCond rec cs
  | .add, cs => stepAdd rec cs
  | .addLoop l, cs => stepAddLoop rec l cs
  | .mul, cs => stepMul rec cs
  | .mulLoop l, cs => stepMulLoop rec l cs
  | .unary, cs => stepUnary rec cs
  | .primary, cs => stepPrimary rec cs

/-- the reader with fuel -/
def run : Nat → Task → List Char → PRes
  | 0 => fun _ _ => .error .cSyntax
  | n+1 => runStep (run n)

/-- read a complete C expression -/
def parseCL (cs : List Char) : Except Err CX := do
  let (e, r) ← run (8 * cs.length + 16) .cond cs
  if (skipWs r).isEmpty then pure e else .error .cSyntax

def parseC (s : String) : Except Err CX := parseCL s.toList

/-- the static C type: `true` = `int`, `false` = `double` -/
def CX.isInt : CX → Bool
  | .num i _ => i
  | .mpi => false
  | .rand0 => true
  | .randMax => true
  | .load _ => false
  | .neg e => e.isInt
  | .castd _ => false
  | .bin _ a b => a.isInt && b.isInt
  | .ite _ _ a b => a.isInt && b.isInt
  | .call1 _ _ => false
  | .call2 _ _ _ => false

/-- no division whose two operands are both of type `int` occurs anywhere in the expression -/
def CX.noIntDiv : CX → Bool
  | .num _ _ => true
  | .mpi => true
  | .rand0 => true
  | .randMax => true
  | .load _ => true
  | .neg e => e.noIntDiv
  | .castd e => e.noIntDiv
  | .bin op a b => a.noIntDiv && b.noIntDiv && !(decide (op = .div) && a.isInt && b.isInt)
  | .ite c z a b => c.noIntDiv && z.noIntDiv && a.noIntDiv && b.noIntDiv
  | .call1 _ a => a.noIntDiv
  | .call2 _ a b => a.noIntDiv && b.noIntDiv

/-- Value of a C expression.  `int / int` is the truncating division: exact quotients are returned, a
truncating one is reported as `intTrunc` (the value would differ from the real quotient).  Only the
selected branch of `?:` is evaluated. -/
def evalCX (env : Env) : CX → Except Err Rat
  | .num _ r => .ok r
  | .mpi => env.piv
  | .rand0 => .error .random
  | .randMax => .ok 2147483647
  | .load off => if off % 8 = 0 then .ok (env.mem (off / 8)) else .error .cSyntax
  | .neg e => do let x ← evalCX env e; pure (-x)
  | .castd e => evalCX env e
  | .bin op a b => do
    let x ← evalCX env a
    let y ← evalCX env b
    match op with
    | .add => pure (x + y)
    | .sub => pure (x - y)
    | .mul => pure (x * y)
    | .div =>
      if y = 0 then (if a.isInt && b.isInt then .error .intDiv0 else .error .div0)
      else if a.isInt && b.isInt && (x / y).den != 1 then .error .intTrunc
      else pure (x / y)
  | .ite c z a b => do
    let x ← evalCX env c
    let y ← evalCX env z
    if x > y then evalCX env a else evalCX env b
  | .call1 f a => do
    let x ← evalCX env a
    libFn env f x
  | .call2 f a b => do
    let x ← evalCX env a
    let y ← evalCX env b
    if f = "pow" then powRat env x y else .error .cSyntax

/-! ### From the emitter's concrete syntax to the abstract syntax

`CE.abs e` is what `parseC` reads from `e.render` (theorem `parseCL_render` in `ExprCLemmas`). -/

def litAbs (text : List Char) : CX :=
  let t := text.dropWhile isSpace
  .num (t.all Char.isDigit) ((decimalVal t).getD 0)

def copOf (c : Char) : COp :=
  if c = '+' then .add else if c = '-' then .sub else if c = '*' then .mul else .div

def CE.abs : CE → CX
  | .load off => .load off
  | .lit t => litAbs t
  | .mpi => .mpi
  | .rand0 => .rand0
  | .randMax => .randMax
  | .par e => e.abs
  | .castd _ e => .castd e.abs
  | .neg e => .neg e.abs
  | .bin op _ a b => .bin (copOf op) a.abs b.abs
  | .gt0 c a b => .ite c.abs (.num true 0) a.abs b.abs
  | .call f a => .call1 f a.abs
  | .pow a b => .call2 "pow" a.abs b.abs

/-- `evalC ∘ parseC`: the value gcc's code computes for an emitted text -/
def evalC (env : Env) (s : String) : Except Err Rat := do
  let e ← parseC s
  evalCX env e

/-! ## Line protocol -/

def showErr (e : Err) : String := "err:" ++ e.kind

/-- driver environment: the libm oracles decline -/
def driverEnv (decls : List Decl) (mem : List Rat) : Env :=
  { decls := decls
    mem := fun k => mem.getD k 0
    lib := fun _ _ => .error .opaque
    powf := fun _ _ => .error .opaque
    piv := .error .opaque }

def showVals (v : Val Rat) : String := " ".intercalate (v.toList.map showRat)

/-- answer to one `expr` request -/
def answer (decls : List Decl) (mem : List Rat) (text : String) : List String :=
  let env := driverEnv decls mem
  match parse (decls.map (·.name)) text with
  | .error e => ["expr " ++ text, "parse " ++ showErr e, "end"]
  | .ok t =>
    let cLines : List String :=
      match toCE env t with
      | .error .type => ["type err"]
      | .error e => ["type " ++ showErr e]
      | .ok c =>
        let strs := c.toList.map fun e => String.ofList e.render
        let compiled := "compiled " ++ " ".intercalate (c.toList.map fun e =>
          match evalC env (String.ofList e.render) with
          | .ok r => showRat r
          | .error e => showErr e)
        let selfcheck :=
          if c.toList.all (fun e => match parseCL e.render with | .ok x => decide (x = e.abs) | .error _ => false) then [] else ["selfcheck abs-mismatch"]
        ["type " ++ c.ty.name, "toC " ++ " | ".intercalate strs, compiled] ++ selfcheck
    let vLine :=
      match tyV env t with
      | .error _ => "value err"
      | .ok _ =>
        match denote env t with
        | .ok v => "value " ++ showVals v
        | .error .type => "value err"
        | .error e => "value " ++ showErr e
    ["expr " ++ text, "parse ok " ++ t.show] ++ cLines ++ [vLine, "end"]

structure DState where
  decls : List Decl := []
  mem : List Rat := []
  out : List String := []

def declare (st : DState) (kind name : String) (vals : List String) : DState :=
  let bad := { st with out := st.out ++ ["bad var line"] }
  match vals.mapM parseRat with
  | none => bad
  | some rs =>
    let slot := st.mem.length
    let mk := fun (nm : String) (ty : Ty) =>
      if rs.length = ty.size then
        { st with decls := st.decls ++ [⟨nm, ty, slot⟩], mem := st.mem ++ rs }
      else bad
    match kind with
    | "s" => mk name .scalar
    | "v" => mk ("[" ++ name ++ "]") .vector
    | "t" => mk ("{" ++ name ++ "}") .tensor
    | _ => bad

def stepLine (st : DState) (line : String) : DState :=
  if line = "reset" then { st with decls := [], mem := [] }
  else if line.startsWith "expr" then
    let text := (line.drop 5).toString
    { st with out := st.out ++ answer st.decls st.mem text }
  else
    match words line with
    | "var" :: kind :: name :: vals => declare st kind name vals
    | [] => st
    | _ => { st with out := st.out ++ ["bad line: " ++ line] }

/-- `symdrv` model `expr`: see the protocol in `/verif/harness/h_parser.cpp`. -/
def driver (lines : List String) : List String :=
  (lines.foldl stepLine {}).out

end Sympler.Expr
