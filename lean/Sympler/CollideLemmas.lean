import Sympler.Collide
/-!
Helper lemmas for `Sympler.Collide` (core Lean only): component rules, reflection on axis-aligned faces,
characterisation of `hitTime` / `wallHit` / `checkForHit`, arithmetic helpers over `Rat`.
-/
namespace Sympler.Collide
open V3

/-! ### `Fin 3` -/

theorem fin3_cases {P : Fin 3 → Prop} (h0 : P 0) (h1 : P 1) (h2 : P 2) : ∀ d, P d := by
  intro d
  match d with
  | 0 => exact h0
  | 1 => exact h1
  | 2 => exact h2

theorem all3_iff (f : Fin 3 → Bool) : all3 f = true ↔ ∀ d, f d = true := by
  constructor
  · intro h
    simp only [all3, Bool.and_eq_true] at h
    exact fin3_cases h.1.1 h.1.2 h.2
  · intro h
    simp only [all3, Bool.and_eq_true]
    exact ⟨⟨h 0, h 1⟩, h 2⟩

/-! ### arithmetic helpers (products are not linear) -/

theorem mul_pos' {a b : Rat} (ha : 0 < a) (hb : 0 < b) : 0 < a * b := Rat.mul_pos ha hb
theorem mul_nonneg' {a b : Rat} (ha : 0 ≤ a) (hb : 0 ≤ b) : 0 ≤ a * b := Rat.mul_nonneg ha hb

theorem mul_neg_of_pos_neg {a b : Rat} (ha : 0 < a) (hb : b < 0) : a * b < 0 := by
  have := Rat.mul_pos ha (show 0 < -b by grind)
  grind

theorem mul_nonpos_of_nonneg_nonpos {a b : Rat} (ha : 0 ≤ a) (hb : b ≤ 0) : a * b ≤ 0 := by
  have := Rat.mul_nonneg ha (show 0 ≤ -b by grind)
  grind

theorem mul_nonneg_of_nonpos_nonpos {a b : Rat} (ha : a ≤ 0) (hb : b ≤ 0) : 0 ≤ a * b := by
  have := Rat.mul_nonneg (show 0 ≤ -a by grind) (show 0 ≤ -b by grind)
  grind

/-- sign of `t` from `t * b` -/
theorem pos_of_mul_neg_neg {t b : Rat} (h : t * b < 0) (hb : b < 0) : 0 < t := by
  apply Classical.byContradiction
  intro hn
  have := mul_nonneg_of_nonpos_nonpos (show t ≤ 0 by grind) (show b ≤ 0 by grind)
  grind

theorem pos_of_mul_pos_pos {t b : Rat} (h : 0 < t * b) (hb : 0 < b) : 0 < t := by
  apply Classical.byContradiction
  intro hn
  have := mul_nonpos_of_nonneg_nonpos (show 0 ≤ b by grind) (show t ≤ 0 by grind)
  grind

theorem int_lt_of_mul_lt {a b : Int} {w : Rat} (hw : 0 < w) (h : (a : Rat) * w < (b : Rat) * w) : a < b := by
  apply Classical.byContradiction
  intro hn
  have h1 : (b : Rat) ≤ (a : Rat) := Rat.intCast_le_intCast.mpr (by omega)
  have := Rat.mul_le_mul_of_nonneg_right h1 (show 0 ≤ w by grind)
  grind

/-- `absq x = |x|` -/
def absq (x : Rat) : Rat := if 0 ≤ x then x else -x

theorem absq_nonneg (x : Rat) : 0 ≤ absq x := by unfold absq; split <;> grind

theorem absq_of_nonneg {x : Rat} (h : 0 ≤ x) : absq x = x := by unfold absq; rw [if_pos h]
theorem absq_of_neg {x : Rat} (h : ¬ 0 ≤ x) : absq x = -x := by unfold absq; rw [if_neg h]
theorem absq_neg (x : Rat) : absq (-x) = absq x := by
  unfold absq; split <;> split <;> grind

theorem mul_abs_bound {t x a : Rat} (ht : 0 ≤ t) (hx : x = a ∨ x = -a) :
    - (t * absq a) ≤ t * x ∧ t * x ≤ t * absq a := by
  have h0 := Rat.mul_nonneg ht (absq_nonneg a)
  by_cases ha : 0 ≤ a
  · rw [absq_of_nonneg ha] at *
    rcases hx with rfl | rfl <;> constructor <;> grind
  · rw [absq_of_neg ha] at *
    rcases hx with rfl | rfl <;> constructor <;> grind

/-! ### component rules -/

@[simp] theorem add_apply (a b : V3) (d : Fin 3) : add a b d = a d + b d := rfl
@[simp] theorem neg_apply (a : V3) (d : Fin 3) : neg a d = - a d := rfl
@[simp] theorem smul_apply (s : Rat) (a : V3) (d : Fin 3) : smul s a d = s * a d := rfl
@[simp] theorem unit_apply (d k : Fin 3) (s : Rat) : unit d s k = if k = d then s else 0 := rfl

@[simp] theorem mk_eta (a : V3) : mk (a 0) (a 1) (a 2) = a := by
  funext d
  induction d using fin3_cases <;> rfl

theorem dot_unit_left (d : Fin 3) (s : Rat) (v : V3) : dot (unit d s) v = s * v d := by
  induction d using fin3_cases <;> simp [dot, unit] <;> grind

theorem dot_unit_right (d : Fin 3) (s : Rat) (v : V3) : dot v (unit d s) = v d * s := by
  induction d using fin3_cases <;> simp [dot, unit] <;> grind


/-! ### reflection on an axis-aligned face -/

/-- Mirror reflection on a face with normal `s e_d` (`s = ±1`) and ANY in-plane axis vector `s' e_d'`, `d' ≠ d`:
the component `d` of the velocity is reversed, the others are unchanged. -/
theorem mirror_axis (eps : Rat) (v h : V3) (d d' : Fin 3) (s s' : Rat) (hs : s * s = 1) (hs' : s' * s' = 1)
    (hd : d' ≠ d) (k : Fin 3) :
    (mirrorReflect eps v h (unit d s) (unit d' s')).2 k = (if k = d then - v k else v k) ∧
    (mirrorReflect eps v h (unit d s) (unit d' s')).1 k = h k + eps * (if k = d then s else 0) := by
  have e01 : (0 : Fin 3) + 1 = 1 := by decide
  have e02 : (0 : Fin 3) + 2 = 2 := by decide
  have e11 : (1 : Fin 3) + 1 = 2 := by decide
  have e12 : (1 : Fin 3) + 2 = 0 := by decide
  have e21 : (2 : Fin 3) + 1 = 0 := by decide
  have e22 : (2 : Fin 3) + 2 = 1 := by decide
  induction d using fin3_cases <;> induction d' using fin3_cases <;> induction k using fin3_cases <;>
    first
    | (exfalso; exact hd rfl)
    | (simp [mirrorReflect, dot, cross, unit, add, smul, neg, e01, e02, e11, e12, e21, e22]
       grind)

theorem bounceBack_axis (eps : Rat) (v h n t : V3) (k : Fin 3) :
    (bounceBackReflect eps v h n t).2 k = - v k ∧ (bounceBackReflect eps v h n t).1 k = h k + eps * n k := by
  simp [bounceBackReflect]


/-- sign of the inward normal -/
def Wall.sgn (w : Wall) : Rat := if w.high then -1 else 1
/-- coordinate of the face -/
def Wall.plane (c : Cfg) (w : Wall) : Rat := if w.high then c.box w.d else 0

theorem sgn_sq (w : Wall) : w.sgn * w.sgn = 1 := by unfold Wall.sgn; split <;> grind

theorem normal_apply (w : Wall) (k : Fin 3) : w.normal k = if k = w.d then w.sgn else 0 := rfl

theorem succ_ne (d : Fin 3) : d + 1 ≠ d := by
  induction d using fin3_cases <;> decide

/-- what `reflect` does on a cuboid face -/
theorem reflect_spec (rf : Refl) (eps : Rat) (v h : V3) (w : Wall) (k : Fin 3) :
    (reflect rf eps v h w.normal w.inPlane).1 k = h k + eps * (if k = w.d then w.sgn else 0) ∧
    (reflect rf eps v h w.normal w.inPlane).2 k =
      (match rf with
       | .mirror => if k = w.d then - v k else v k
       | .bounceBack => - v k) := by
  cases rf with
  | mirror =>
    have := mirror_axis eps v h w.d (w.d + 1) w.sgn 1 (sgn_sq w) (by grind) (succ_ne w.d) k
    exact ⟨this.2, this.1⟩
  | bounceBack =>
    have := bounceBack_axis eps v h w.normal w.inPlane k
    rw [normal_apply] at this
    exact ⟨this.2, this.1⟩

/-- both reflectors keep every velocity component up to sign -/
theorem reflect_vel_sign (rf : Refl) (eps : Rat) (v h : V3) (w : Wall) (k : Fin 3) :
    (reflect rf eps v h w.normal w.inPlane).2 k = v k ∨ (reflect rf eps v h w.normal w.inPlane).2 k = - v k := by
  have := (reflect_spec rf eps v h w k).2
  cases rf <;> simp only at this <;> grind

/-! ### `hitTime`, `wallHit` -/

theorem hitTime_some {c : Cfg} {w : Wall} {r v : V3} {t : Rat} (h : hitTime c w r v = some t) :
    v w.d ≠ 0 ∧ r w.d + t * v w.d = w.plane c ∧ 0 ≤ t := by
  obtain ⟨d, hi⟩ := w
  cases hi <;> simp [hitTime, Wall.normal, Wall.nDotR, Wall.plane, dot_unit_left] at h ⊢ <;> grind

theorem hitTime_of {c : Cfg} {w : Wall} {r v : V3} {t : Rat}
    (hv : v w.d ≠ 0) (hc : r w.d + t * v w.d = w.plane c) (ht : 0 ≤ t) : hitTime c w r v = some t := by
  obtain ⟨d, hi⟩ := w
  cases hi <;> simp [hitTime, Wall.normal, Wall.nDotR, Wall.plane, dot_unit_left] at hv hc ⊢ <;> grind

theorem wallHit_some {c : Cfg} {w : Wall} {r v : V3} {dtl t : Rat} {h : V3}
    (hw : wallHit c w r v dtl = some (t, h)) :
    hitTime c w r v = some t ∧ 0 < t ∧ t ≤ dtl ∧ h = add r (smul t v) ∧ inFace c w h = true := by
  unfold wallHit at hw
  split at hw
  · cases hw
  · rename_i t' ht'
    simp only [mk_eta] at hw
    split at hw
    · cases hw
    · split at hw
      · split at hw
        · cases hw; grind
        · cases hw
      · cases hw

theorem wallHit_of {c : Cfg} {w : Wall} {r v : V3} {dtl t : Rat}
    (ht : hitTime c w r v = some t) (h0 : 0 < t) (h1 : t ≤ dtl) (hf : inFace c w (add r (smul t v)) = true) :
    wallHit c w r v dtl = some (t, add r (smul t v)) := by
  unfold wallHit
  rw [ht]
  simp only [mk_eta]
  rw [if_neg (by grind), if_pos h0, if_pos hf]

theorem inFace_iff (c : Cfg) (w : Wall) (h : V3) :
    inFace c w h = true ↔ ∀ k, k ≠ w.d → c.per k = false → - c.delta ≤ h k ∧ h k ≤ c.box k + c.delta := by
  have : inFace c w h = all3 (fun k => k = w.d || c.per k ||
      (decide (- c.delta ≤ h k) && decide (h k ≤ c.box k + c.delta))) := rfl
  rw [this, all3_iff]
  constructor
  · intro hh k hk hp
    have := hh k
    simp only [Bool.or_eq_true, Bool.and_eq_true, decide_eq_true_eq] at this
    grind
  · intro hh k
    simp only [Bool.or_eq_true, Bool.and_eq_true, decide_eq_true_eq]
    by_cases hk : k = w.d
    · grind
    · cases hp : c.per k
      · have := hh k hk hp; grind
      · grind


/-! ### `checkForHit` -/

theorem better_cases (c : Cfg) (r v : V3) (dtl : Rat) (best : Option Hit) (w : Wall) :
    (wallHit c w r v dtl = none ∧ better c r v dtl best w = best) ∨
    (∃ t h, wallHit c w r v dtl = some (t, h) ∧ better c r v dtl best w = some ⟨t, h, w⟩ ∧
        (best = none ∨ ∃ b, best = some b ∧ t < b.t)) ∨
    (∃ t h b, wallHit c w r v dtl = some (t, h) ∧ better c r v dtl best w = best ∧ best = some b ∧ b.t ≤ t) := by
  unfold better
  cases hw : wallHit c w r v dtl with
  | none => exact Or.inl ⟨rfl, rfl⟩
  | some th =>
    obtain ⟨t, h⟩ := th
    cases best with
    | none => exact Or.inr (Or.inl ⟨t, h, rfl, rfl, Or.inl rfl⟩)
    | some b =>
      by_cases hlt : t < b.t
      · refine Or.inr (Or.inl ⟨t, h, rfl, ?_, Or.inr ⟨b, rfl, hlt⟩⟩)
        simp only [hlt, if_true]
      · refine Or.inr (Or.inr ⟨t, h, b, rfl, ?_, rfl, by grind⟩)
        simp only [hlt, if_false]

/-- invariant of the fold of `Cell::checkForHit`, for an arbitrary starting value `best` -/
theorem foldl_better_spec (c : Cfg) (r v : V3) (dtl : Rat) :
    ∀ (ws : List Wall) (best : Option Hit),
      (match ws.foldl (better c r v dtl) best with
       | none => best = none ∧ ∀ w ∈ ws, wallHit c w r v dtl = none
       | some hit =>
          (best = some hit ∨ (hit.wall ∈ ws ∧ wallHit c hit.wall r v dtl = some (hit.t, hit.pos))) ∧
          (∀ b, best = some b → hit.t ≤ b.t) ∧
          (∀ w ∈ ws, ∀ t h, wallHit c w r v dtl = some (t, h) → hit.t ≤ t)) := by
  intro ws
  induction ws with
  | nil =>
    intro best
    cases best with
    | none => simp
    | some b => simp
  | cons w ws ih =>
    intro best
    rw [List.foldl_cons]
    have ih' := ih (better c r v dtl best w)
    have hb := better_cases c r v dtl best w
    generalize better c r v dtl best w = nb at ih' hb
    cases hres : ws.foldl (better c r v dtl) nb with
    | none =>
      rw [hres] at ih'
      simp only at ih' ⊢
      obtain ⟨hnb, hall⟩ := ih'
      rcases hb with ⟨hw, hb⟩ | ⟨t, h, hw, hb, _⟩ | ⟨t, h, b, hw, hb, hbb, _⟩
      · refine ⟨by grind, ?_⟩
        intro w' hw'
        rcases List.mem_cons.mp hw' with rfl | hm
        · exact hw
        · exact hall w' hm
      · rw [hnb] at hb; cases hb
      · rw [hnb] at hb; rw [← hb] at hbb; cases hbb
    | some hit =>
      rw [hres] at ih'
      simp only at ih' ⊢
      obtain ⟨h1, h2, h3⟩ := ih'
      rcases hb with ⟨hw, hb⟩ | ⟨t, h, hw, hb, hbest⟩ | ⟨t, h, b, hw, hb, hbb, hle⟩
      · subst hb
        refine ⟨?_, h2, ?_⟩
        · rcases h1 with h1 | ⟨h1, h1'⟩
          · exact Or.inl h1
          · exact Or.inr ⟨List.mem_cons_of_mem _ h1, h1'⟩
        · intro w' hw' t h hh
          rcases List.mem_cons.mp hw' with rfl | hm
          · rw [hw] at hh; cases hh
          · exact h3 w' hm t h hh
      · subst hb
        have hle : hit.t ≤ t := h2 _ rfl
        refine ⟨Or.inr ?_, ?_, ?_⟩
        · rcases h1 with h1 | ⟨h1, h1'⟩
          · cases h1; exact ⟨List.mem_cons_self, hw⟩
          · exact ⟨List.mem_cons_of_mem _ h1, h1'⟩
        · intro b hbb
          rcases hbest with hn | ⟨b', hb', hlt⟩
          · rw [hn] at hbb; cases hbb
          · rw [hb'] at hbb; cases hbb; grind
        · intro w' hw' t' h' hh
          rcases List.mem_cons.mp hw' with rfl | hm
          · rw [hw] at hh; cases hh; exact hle
          · exact h3 w' hm t' h' hh
      · subst hb
        refine ⟨?_, h2, ?_⟩
        · rcases h1 with h1 | ⟨h1, h1'⟩
          · exact Or.inl h1
          · exact Or.inr ⟨List.mem_cons_of_mem _ h1, h1'⟩
        · intro w' hw' t' h' hh
          rcases List.mem_cons.mp hw' with rfl | hm
          · rw [hw] at hh; cases hh
            have := h2 b hbb
            grind
          · exact h3 w' hm t' h' hh

theorem checkForHit_none {c : Cfg} {ws : List Wall} {r v : V3} {dtl : Rat}
    (h : checkForHit c ws r v dtl = none) : ∀ w ∈ ws, wallHit c w r v dtl = none := by
  have := foldl_better_spec c r v dtl ws none
  unfold checkForHit at h
  rw [h] at this
  exact this.2

theorem checkForHit_some {c : Cfg} {ws : List Wall} {r v : V3} {dtl : Rat} {hit : Hit}
    (h : checkForHit c ws r v dtl = some hit) :
    hit.wall ∈ ws ∧ wallHit c hit.wall r v dtl = some (hit.t, hit.pos) ∧
    ∀ w ∈ ws, ∀ t p, wallHit c w r v dtl = some (t, p) → hit.t ≤ t := by
  have := foldl_better_spec c r v dtl ws none
  unfold checkForHit at h
  rw [h] at this
  simp only at this
  obtain ⟨h1, _, h3⟩ := this
  rcases h1 with h1 | h1
  · cases h1
  · exact ⟨h1.1, h1.2, h3⟩

/-! ### minima over finite lists -/

theorem exists_min {α : Type} (f : α → Option Rat) :
    ∀ (l : List α), (∃ a ∈ l, ∃ t, f a = some t) →
      ∃ a ∈ l, ∃ t, f a = some t ∧ ∀ b ∈ l, ∀ s, f b = some s → t ≤ s := by
  intro l
  induction l with
  | nil => intro ⟨a, ha, _⟩; cases ha
  | cons x xs ih =>
    intro ⟨a, ha, t, hat⟩
    by_cases hex : ∃ a ∈ xs, ∃ t, f a = some t
    · obtain ⟨m, hm, tm, hfm, hmin⟩ := ih hex
      cases hfx : f x with
      | none =>
        refine ⟨m, List.mem_cons_of_mem _ hm, tm, hfm, ?_⟩
        intro b hb s hs
        rcases List.mem_cons.mp hb with rfl | hb'
        · rw [hfx] at hs; cases hs
        · exact hmin b hb' s hs
      | some tx =>
        by_cases hle : tx ≤ tm
        · refine ⟨x, List.mem_cons_self, tx, hfx, ?_⟩
          intro b hb s hs
          rcases List.mem_cons.mp hb with rfl | hb'
          · rw [hfx] at hs; cases hs; exact Rat.le_refl
          · have := hmin b hb' s hs; grind
        · refine ⟨m, List.mem_cons_of_mem _ hm, tm, hfm, ?_⟩
          intro b hb s hs
          rcases List.mem_cons.mp hb with rfl | hb'
          · rw [hfx] at hs; cases hs; grind
          · exact hmin b hb' s hs
    · -- only `x` has a value
      rcases List.mem_cons.mp ha with rfl | ha'
      · refine ⟨a, List.mem_cons_self, t, hat, ?_⟩
        intro b hb s hs
        rcases List.mem_cons.mp hb with rfl | hb'
        · rw [hat] at hs; cases hs; exact Rat.le_refl
        · exact absurd ⟨b, hb', s, hs⟩ hex
      · exact absurd ⟨a, ha', t, hat⟩ hex

theorem mem_allWalls (w : Wall) : w ∈ allWalls := by
  obtain ⟨d, hi⟩ := w
  induction d using fin3_cases <;> cases hi <;> decide


/-! ### predicates used by the theorems of `Props/C08.lean` -/

/-- well-formed scenario: positive box, at least one cell per direction, positive displacement `eps`,
tolerances `delta = −c_wt_dist_eps ≥ 0`, `geps = g_geom_eps ≥ 0` -/
structure CfgOK (c : Cfg) : Prop where
  box_pos : ∀ d, 0 < c.box d
  ncell_pos : ∀ d, 0 < c.ncell d
  eps_pos : 0 < c.eps
  delta_nonneg : 0 ≤ c.delta
  geps_nonneg : 0 ≤ c.geps

/-- strictly between the two walls in every non-periodic direction -/
def InsideW (c : Cfg) (r : V3) : Prop := ∀ d, c.per d = false → 0 < r d ∧ r d < c.box d

/-- the particle is in the list of an existing cell and inside it up to `g_geom_eps`
(what `checkNewPosition` guarantees for a particle it keeps) -/
def CellOK (c : Cfg) (p : PState) : Prop :=
  ∀ d, 0 ≤ p.cell d ∧ p.cell d < c.ncell d ∧
    c1 c p.cell d - c.geps ≤ p.r d ∧ p.r d < c2 c p.cell d + c.geps

/-- per-step displacement below one cell: `|v_d| dt + 100 eps + geps < width_d` -/
def SpeedOK (c : Cfg) (dt : Rat) (v : V3) : Prop :=
  ∀ d, absq (v d) * dt + 100 * c.eps + c.geps < c.w d

/-- the hit is not on an edge/corner of the box: strictly inside the face in the other non-periodic directions -/
def NoEdge (c : Cfg) (h : Hit) : Prop :=
  ∀ k, k ≠ h.wall.d → c.per k = false → 0 < h.pos k ∧ h.pos k < c.box k

def Good (c : Cfg) (p : PState) : Prop := InsideW c p.r ∧ CellOK c p

/-- invariant of the loop of `Cell::doCollision` (`p0` = particle at the start of the step) -/
structure LInv (c : Cfg) (dt : Rat) (p0 : PState) (st : LoopSt) : Prop where
  dt_nonneg : 0 ≤ st.dtLeft
  dt_le : st.dtLeft ≤ dt
  inside : InsideW c st.r
  vsign : ∀ d, st.v d = p0.v d ∨ st.v d = - p0.v d
  disp : ∀ d, -(absq (p0.v d) * (dt - st.dtLeft) + (st.trace.length : Rat) * c.eps) ≤ st.r d - p0.r d ∧
              st.r d - p0.r d ≤ absq (p0.v d) * (dt - st.dtLeft) + (st.trace.length : Rat) * c.eps

theorem ncellR_pos {c : Cfg} (ok : CfgOK c) (d : Fin 3) : (0 : Rat) < (c.ncell d : Rat) := by
  have := Rat.intCast_lt_intCast.mpr (ok.ncell_pos d)
  simpa using this

theorem ncell_mul_w {c : Cfg} (ok : CfgOK c) (d : Fin 3) : (c.ncell d : Rat) * c.w d = c.box d := by
  have := ncellR_pos ok d
  unfold Cfg.w
  grind

theorem w_pos {c : Cfg} (ok : CfgOK c) (d : Fin 3) : 0 < c.w d := by
  have h1 := ncell_mul_w ok d
  have h2 := ok.box_pos d
  have h3 := ncellR_pos ok d
  apply pos_of_mul_pos_pos (b := (c.ncell d : Rat)) _ h3
  grind

theorem w_le_box {c : Cfg} (ok : CfgOK c) (d : Fin 3) : c.w d ≤ c.box d := by
  have h1 := ncell_mul_w ok d
  have h2 := w_pos ok d
  have h3 : (1 : Rat) ≤ (c.ncell d : Rat) := by
    have := Rat.intCast_le_intCast.mpr (show (1 : Int) ≤ c.ncell d from ok.ncell_pos d)
    simpa using this
  have := Rat.mul_le_mul_of_nonneg_right h3 (show 0 ≤ c.w d by grind)
  grind

theorem eps_lt_box {c : Cfg} (ok : CfgOK c) {dt : Rat} {v : V3} (hdt : 0 ≤ dt) (sp : SpeedOK c dt v) (d : Fin 3) :
    c.eps < c.box d := by
  have h1 := sp d
  have h2 := w_le_box ok d
  have h3 := Rat.mul_nonneg (absq_nonneg (v d)) hdt
  have := ok.eps_pos
  have := ok.geps_nonneg
  grind

/-! ### one-dimensional kinematics -/

theorem low_cross {r v T : Rat} (hr : 0 < r) (hT : 0 ≤ T) (h : r + T * v ≤ 0) :
    ∃ s, v < 0 ∧ r + s * v = 0 ∧ 0 < s ∧ s ≤ T ∧ (r + T * v < 0 → s < T) := by
  have hv : v < 0 := by
    apply Classical.byContradiction
    intro hn
    have := Rat.mul_nonneg hT (show 0 ≤ v by grind)
    grind
  obtain ⟨s, hs⟩ : ∃ s : Rat, s * v = -r := ⟨-r / v, by grind⟩
  refine ⟨s, hv, by grind, ?_, ?_, ?_⟩
  · apply pos_of_mul_neg_neg (b := v) _ hv
    grind
  · apply Classical.byContradiction
    intro hn
    have := mul_pos' (show 0 < s - T by grind) (show 0 < -v by grind)
    grind
  · intro hlt
    apply Classical.byContradiction
    intro hn
    have := mul_nonneg' (show 0 ≤ s - T by grind) (show 0 ≤ -v by grind)
    grind

theorem high_cross {r v T L : Rat} (hr : r < L) (hT : 0 ≤ T) (h : L ≤ r + T * v) :
    ∃ s, 0 < v ∧ r + s * v = L ∧ 0 < s ∧ s ≤ T ∧ (L < r + T * v → s < T) := by
  have hv : 0 < v := by
    apply Classical.byContradiction
    intro hn
    have := mul_nonpos_of_nonneg_nonpos hT (show v ≤ 0 by grind)
    grind
  obtain ⟨s, hs⟩ : ∃ s : Rat, s * v = L - r := ⟨(L - r) / v, by grind⟩
  refine ⟨s, hv, by grind, ?_, ?_, ?_⟩
  · apply pos_of_mul_pos_pos (b := v) _ hv
    grind
  · apply Classical.byContradiction
    intro hn
    have := mul_pos' (show 0 < s - T by grind) hv
    grind
  · intro hlt
    apply Classical.byContradiction
    intro hn
    have := mul_nonneg' (show 0 ≤ s - T by grind) (show 0 ≤ v by grind)
    grind

/-! ### candidate crossings: plane reached within `(0, dtLeft]` in a non-periodic direction -/

def candTime (c : Cfg) (r v : V3) (dtl : Rat) (w : Wall) : Option Rat :=
  if c.per w.d then none
  else match hitTime c w r v with
    | none => none
    | some t => if 0 < t ∧ t ≤ dtl then some t else none

theorem candTime_some {c : Cfg} {r v : V3} {dtl : Rat} {w : Wall} {t : Rat} (h : candTime c r v dtl w = some t) :
    c.per w.d = false ∧ hitTime c w r v = some t ∧ 0 < t ∧ t ≤ dtl := by
  unfold candTime at h
  split at h
  · cases h
  · split at h
    · cases h
    · split at h
      · cases h; grind
      · cases h

theorem candTime_of {c : Cfg} {r v : V3} {dtl : Rat} {w : Wall} {t : Rat}
    (hp : c.per w.d = false) (hv : v w.d ≠ 0) (hc : r w.d + t * v w.d = w.plane c) (h0 : 0 < t) (h1 : t ≤ dtl) :
    candTime c r v dtl w = some t := by
  unfold candTime
  rw [hitTime_of hv hc (by grind)]
  simp [hp, h0, h1]

/-- at the EARLIEST candidate crossing the particle is still in the closed box, so the face test accepts it -/
theorem inFace_at_min {c : Cfg} {r v : V3} {dtl : Rat} {w : Wall} {t : Rat}
    (ins : InsideW c r) (hc : candTime c r v dtl w = some t)
    (hmin : ∀ b, ∀ s, candTime c r v dtl b = some s → t ≤ s) (k : Fin 3) (hp : c.per k = false) :
    0 ≤ r k + t * v k ∧ r k + t * v k ≤ c.box k := by
  obtain ⟨_, _, h0, h1⟩ := candTime_some hc
  have hk0 := ins k hp
  constructor
  · apply Classical.byContradiction
    intro hn
    obtain ⟨s, hv, hs, hs0, hsT, hlt⟩ := low_cross hk0.1 (show 0 ≤ t by grind) (show r k + t * v k ≤ 0 by grind)
    have hs' := hlt (by grind)
    have := hmin ⟨k, false⟩ s (candTime_of (w := ⟨k, false⟩) hp (by grind) (by simp [Wall.plane]; exact hs) hs0 (by grind))
    grind
  · apply Classical.byContradiction
    intro hn
    obtain ⟨s, hv, hs, hs0, hsT, hlt⟩ := high_cross hk0.2 (show 0 ≤ t by grind) (show c.box k ≤ r k + t * v k by grind)
    have hs' := hlt (by grind)
    have := hmin ⟨k, true⟩ s (candTime_of (w := ⟨k, true⟩) hp (by grind) (by simp [Wall.plane]; exact hs) hs0 (by grind))
    grind


/-! ### walls that can be reached within the step are known to the cell -/

theorem natCast_le_100 {k : Nat} (h : k ≤ 100) : (k : Rat) ≤ 100 := by
  have := Rat.natCast_le_natCast.mpr h
  simpa using this

theorem cand_known {c : Cfg} (ok : CfgOK c) {dt : Rat} {p0 : PState} {st : LoopSt}
    (inv : LInv c dt p0 st) (cell : CellOK c p0) (sp : SpeedOK c dt p0.v) (hk : st.trace.length ≤ 100)
    {w : Wall} {t : Rat} (hc : candTime c st.r st.v st.dtLeft w = some t) : known c p0.cell w = true := by
  obtain ⟨hp, ht, h0, h1⟩ := candTime_some hc
  obtain ⟨hv, hpl, _⟩ := hitTime_some ht
  obtain ⟨d, hi⟩ := w
  simp only at hp hv hpl
  have hA := absq_nonneg (p0.v d)
  have hb := mul_abs_bound (show 0 ≤ t by grind) (inv.vsign d)
  have hm := Rat.mul_le_mul_of_nonneg_right h1 hA
  have hd := inv.disp d
  have hsp := sp d
  have hcell := cell d
  have hlen := Rat.mul_le_mul_of_nonneg_right (natCast_le_100 hk) (show 0 ≤ c.eps from by have := ok.eps_pos; grind)
  have hw := w_pos ok d
  have hnw := ncell_mul_w ok d
  have hg := ok.geps_nonneg
  cases hi with
  | false =>
    simp only [Wall.plane] at hpl
    simp only [known, hp]
    -- p0.r d < w − geps, hence cell d < 1
    have h3 : ((p0.cell d : Int) : Rat) * c.w d < ((1 : Int) : Rat) * c.w d := by
      unfold c1 at hcell
      have e : ((1 : Int) : Rat) = 1 := by grind
      rw [e]
      grind
    have := int_lt_of_mul_lt hw h3
    simp; omega
  | true =>
    simp only [Wall.plane] at hpl
    simp only [known, hp]
    have h3 : ((c.ncell d - 1 : Int) : Rat) * c.w d < ((p0.cell d + 1 : Int) : Rat) * c.w d := by
      unfold c2 at hcell
      have e : ((c.ncell d - 1 : Int) : Rat) = (c.ncell d : Rat) - 1 := by grind
      rw [e]
      grind
    have := int_lt_of_mul_lt hw h3
    simp; omega


theorem mem_walls {c : Cfg} {cell : I3} {w : Wall} (h : known c cell w = true) : w ∈ walls c cell := by
  unfold walls
  exact List.mem_filter.mpr ⟨mem_allWalls w, h⟩

theorem known_of_mem_walls {c : Cfg} {cell : I3} {w : Wall} (h : w ∈ walls c cell) : c.per w.d = false := by
  unfold walls at h
  have := (List.mem_filter.mp h).2
  unfold known at this
  cases hp : c.per w.d <;> simp_all

theorem wallHit_cand {c : Cfg} {w : Wall} {r v : V3} {dtl t : Rat} {h : V3}
    (hp : c.per w.d = false) (hw : wallHit c w r v dtl = some (t, h)) : candTime c r v dtl w = some t := by
  obtain ⟨ht, h0, h1, _, _⟩ := wallHit_some hw
  unfold candTime
  rw [ht]
  simp [hp, h0, h1]

/-- if some face plane (non-periodic direction) is reached within the remaining time, then a KNOWN wall reports a hit,
at the earliest of all such crossing times -/
theorem exists_hit_of_cand {c : Cfg} (ok : CfgOK c) {dt : Rat} {p0 : PState} {st : LoopSt}
    (inv : LInv c dt p0 st) (cell : CellOK c p0) (sp : SpeedOK c dt p0.v) (hk : st.trace.length ≤ 100)
    (hex : ∃ w t, candTime c st.r st.v st.dtLeft w = some t) :
    ∃ wm tm, wm ∈ walls c p0.cell ∧
      wallHit c wm st.r st.v st.dtLeft = some (tm, add st.r (smul tm st.v)) ∧
      (∀ b s, candTime c st.r st.v st.dtLeft b = some s → tm ≤ s) ∧
      (∀ k, c.per k = false → 0 ≤ st.r k + tm * st.v k ∧ st.r k + tm * st.v k ≤ c.box k) := by
  obtain ⟨w, t, hwt⟩ := hex
  obtain ⟨wm, _, tm, hm, hmin⟩ :=
    exists_min (candTime c st.r st.v st.dtLeft) allWalls ⟨w, mem_allWalls w, t, hwt⟩
  have hmin' : ∀ b s, candTime c st.r st.v st.dtLeft b = some s → tm ≤ s :=
    fun b s hb => hmin b (mem_allWalls b) s hb
  have hbox := inFace_at_min inv.inside hm hmin'
  obtain ⟨hp, ht, h0, h1⟩ := candTime_some hm
  refine ⟨wm, tm, mem_walls (cand_known ok inv cell sp hk hm), ?_, hmin', hbox⟩
  apply wallHit_of ht h0 h1
  rw [inFace_iff]
  intro k _ hpk
  have := hbox k hpk
  have := ok.delta_nonneg
  simp only [add_apply, smul_apply]
  grind

/-- no wall reports a hit ⇒ after the free flight for the remaining time the particle is strictly inside -/
theorem nohit_inside {c : Cfg} (ok : CfgOK c) {dt : Rat} {p0 : PState} {st : LoopSt}
    (inv : LInv c dt p0 st) (cell : CellOK c p0) (sp : SpeedOK c dt p0.v) (hk : st.trace.length ≤ 100)
    (hno : ∀ w ∈ walls c p0.cell, wallHit c w st.r st.v st.dtLeft = none) :
    InsideW c (add st.r (smul st.dtLeft st.v)) := by
  intro d hp
  simp only [add_apply, smul_apply]
  have hin := inv.inside d hp
  have hT := inv.dt_nonneg
  apply Classical.byContradiction
  intro hn
  have hex : ∃ w t, candTime c st.r st.v st.dtLeft w = some t := by
    by_cases hlow : st.r d + st.dtLeft * st.v d ≤ 0
    · obtain ⟨s, hv, hs, hs0, hsT, _⟩ := low_cross hin.1 hT hlow
      exact ⟨⟨d, false⟩, s, candTime_of (w := ⟨d, false⟩) hp (by grind) (by simp [Wall.plane]; exact hs) hs0 hsT⟩
    · have hhigh : c.box d ≤ st.r d + st.dtLeft * st.v d := by grind
      obtain ⟨s, hv, hs, hs0, hsT, _⟩ := high_cross hin.2 hT hhigh
      exact ⟨⟨d, true⟩, s, candTime_of (w := ⟨d, true⟩) hp (by grind) (by simp [Wall.plane]; exact hs) hs0 hsT⟩
  obtain ⟨wm, tm, hmem, hhit, _⟩ := exists_hit_of_cand ok inv cell sp hk hex
  rw [hno wm hmem] at hhit
  cases hhit

/-- the chosen hit happens at the earliest crossing of any face plane, where the particle is still in the CLOSED box:
`NoEdge` only excludes hits exactly on an edge or corner -/
theorem hit_in_closed_box {c : Cfg} (ok : CfgOK c) {dt : Rat} {p0 : PState} {st : LoopSt}
    (inv : LInv c dt p0 st) (cell : CellOK c p0) (sp : SpeedOK c dt p0.v) (hk : st.trace.length ≤ 100)
    {hit : Hit} (hh : checkForHit c (walls c p0.cell) st.r st.v st.dtLeft = some hit) :
    ∀ k, c.per k = false → 0 ≤ hit.pos k ∧ hit.pos k ≤ c.box k := by
  obtain ⟨hmem, hw, hearly⟩ := checkForHit_some hh
  have hp := known_of_mem_walls hmem
  have hc := wallHit_cand hp hw
  obtain ⟨wm, tm, hmem', hhit', hmin, hbox⟩ := exists_hit_of_cand ok inv cell sp hk ⟨_, _, hc⟩
  have h1 := hearly wm hmem' _ _ hhit'
  have h2 := hmin _ _ hc
  have e : hit.t = tm := by grind
  obtain ⟨_, _, _, hpos, _⟩ := wallHit_some hw
  intro k hpk
  have := hbox k hpk
  rw [hpos, e]
  simpa using this


/-! ### one reflection keeps the loop invariant -/

theorem applyHit_r (c : Cfg) (st : LoopSt) (h : Hit) :
    (applyHit c st h).r = (reflect c.refl c.eps st.v h.pos h.wall.normal h.wall.inPlane).1 := by
  simp [applyHit]
theorem applyHit_v (c : Cfg) (st : LoopSt) (h : Hit) :
    (applyHit c st h).v = (reflect c.refl c.eps st.v h.pos h.wall.normal h.wall.inPlane).2 := by
  simp [applyHit]
theorem applyHit_trace (c : Cfg) (st : LoopSt) (h : Hit) : (applyHit c st h).trace = st.trace ++ [h] := rfl
theorem applyHit_dt (c : Cfg) (st : LoopSt) (h : Hit) :
    (applyHit c st h).dtLeft = if st.dtLeft - h.t < 0 then 0 else st.dtLeft - h.t := rfl

theorem natCast_succ (k : Nat) : ((k + 1 : Nat) : Rat) = (k : Rat) + 1 := by grind

theorem applyHit_inv {c : Cfg} (ok : CfgOK c) {dt : Rat} {p0 : PState} {st : LoopSt}
    (inv : LInv c dt p0 st) (heb : ∀ d, c.eps < c.box d) {hit : Hit}
    (hh : checkForHit c (walls c p0.cell) st.r st.v st.dtLeft = some hit) (ne : NoEdge c hit) :
    LInv c dt p0 (applyHit c st hit) := by
  obtain ⟨hmem, hw, _⟩ := checkForHit_some hh
  have hp := known_of_mem_walls hmem
  obtain ⟨ht, h0, h1, hpos, _⟩ := wallHit_some hw
  obtain ⟨hv, hpl, _⟩ := hitTime_some ht
  have heps := ok.eps_pos
  have hdt : (applyHit c st hit).dtLeft = st.dtLeft - hit.t := by
    rw [applyHit_dt, if_neg (by grind)]
  have hposk : ∀ k, hit.pos k = st.r k + hit.t * st.v k := by
    intro k; rw [hpos]; simp
  constructor
  · rw [hdt]; grind
  · rw [hdt]; have := inv.dt_le; grind
  · intro k hpk
    rw [applyHit_r, (reflect_spec c.refl c.eps st.v hit.pos hit.wall k).1]
    by_cases hk : k = hit.wall.d
    · subst hk
      rw [if_pos rfl, hposk, hpl]
      have := heb hit.wall.d
      unfold Wall.plane Wall.sgn
      cases hit.wall.high <;> simp <;> grind
    · rw [if_neg hk]
      have := ne k hk hpk
      grind
  · intro k
    rw [applyHit_v]
    have h1 := reflect_vel_sign c.refl c.eps st.v hit.pos hit.wall k
    have h2 := inv.vsign k
    grind
  · intro k
    rw [applyHit_r, (reflect_spec c.refl c.eps st.v hit.pos hit.wall k).1, hdt, applyHit_trace, hposk]
    have hd := inv.disp k
    have hb := mul_abs_bound (show 0 ≤ hit.t by grind) (inv.vsign k)
    have hlen : (((st.trace ++ [hit]).length : Nat) : Rat) = (st.trace.length : Rat) + 1 := by
      rw [List.length_append, List.length_singleton, natCast_succ]
    rw [hlen]
    generalize hsdef : (if k = hit.wall.d then hit.wall.sgn else 0) = sg
    have hs : sg = 1 ∨ sg = -1 ∨ sg = 0 := by
      rw [← hsdef]; unfold Wall.sgn
      by_cases hk : k = hit.wall.d
      · rw [if_pos hk]; cases hit.wall.high <;> simp
      · rw [if_neg hk]; simp
    rcases hs with hs | hs | hs <;> subst hs <;> constructor <;> grind

theorem applyHit_dt_lt {c : Cfg} {cell : I3} {st : LoopSt} {hit : Hit}
    (hh : checkForHit c (walls c cell) st.r st.v st.dtLeft = some hit) :
    0 < hit.t ∧ hit.t ≤ st.dtLeft ∧ (applyHit c st hit).dtLeft = st.dtLeft - hit.t ∧
    (applyHit c st hit).dtLeft < st.dtLeft ∧ 0 ≤ (applyHit c st hit).dtLeft := by
  obtain ⟨_, hw, _⟩ := checkForHit_some hh
  obtain ⟨_, h0, h1, _, _⟩ := wallHit_some hw
  have hdt : (applyHit c st hit).dtLeft = st.dtLeft - hit.t := by
    rw [applyHit_dt, if_neg (by grind)]
  grind


/-! ### the loop of `doCollision` -/

theorem doCollision_done {c : Cfg} {cell : I3} :
    ∀ (fuel : Nat) (st st' : LoopSt), doCollision c cell fuel st = .done st' →
      (∃ l, st'.trace = st.trace ++ l) ∧
      checkForHit c (walls c cell) st'.r st'.v st'.dtLeft = none ∧
      st'.trace.length + 1 ≤ st.trace.length + fuel ∧
      st'.dtLeft ≤ st.dtLeft := by
  intro fuel
  induction fuel with
  | zero => intro st st' h; cases h
  | succ n ih =>
    intro st st' h
    unfold doCollision at h
    split at h
    · rename_i hno
      cases h
      exact ⟨⟨[], by simp⟩, hno, by omega, Rat.le_refl⟩
    · rename_i hit hh
      obtain ⟨⟨l, hl⟩, h2, h3, h4⟩ := ih _ _ h
      rw [applyHit_trace] at hl h3
      have := applyHit_dt_lt hh
      refine ⟨⟨[hit] ++ l, by rw [hl]; simp⟩, h2, ?_, by grind⟩
      rw [List.length_append, List.length_singleton] at h3
      omega

theorem doCollision_inv {c : Cfg} (ok : CfgOK c) {dt : Rat} {p0 : PState} (heb : ∀ d, c.eps < c.box d) :
    ∀ (fuel : Nat) (st st' : LoopSt), LInv c dt p0 st →
      doCollision c p0.cell fuel st = .done st' → (∀ h ∈ st'.trace, NoEdge c h) → LInv c dt p0 st' := by
  intro fuel
  induction fuel with
  | zero => intro st st' _ h; cases h
  | succ n ih =>
    intro st st' inv h hne
    unfold doCollision at h
    split at h
    · cases h; exact inv
    · rename_i hit hh
      obtain ⟨⟨l, hl⟩, _⟩ := doCollision_done _ _ _ h
      rw [applyHit_trace] at hl
      have hmem : hit ∈ st'.trace := by rw [hl]; simp
      exact ih _ _ (applyHit_inv ok inv heb hh (hne hit hmem)) h hne

end Sympler.Collide
