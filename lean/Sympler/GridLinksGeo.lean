import Sympler.GridBuildLemmas
import Sympler.GridLemmas

/-!
Geometry of the cell grid used by the general link-list theorem (`Sympler/GridLinksLemmas.lean`):
* facts about the generated tables (`offsets`, `invNeighbor`) by complete enumeration (`decide`);
* one direction of `neighborPos` (`stepD`): wrap-around with `Int.tmod`, mirror property;
* `cellPositions`: the cell created as number `i` has the tag `p` with `TOCELLINDEX(p) = i`;
* `nbr`: the neighbour cell of cell `c` in direction `n`, `nbr_mirror`, `nbr_ne`.
Core Lean only.
-/
namespace Sympler.Grid
open Sympler Sympler.Cells Sympler.Gen.CellTables

/-! ### tables -/

/-- components of the 26 offsets are in `{−1,0,1}`, not all zero, and `c_offsets[INV_NEIGHBOR(n)] = −c_offsets[n]` -/
theorem offsets_facts : ∀ n : Nat, n < 26 →
    (-1 ≤ (offsets.getD n (0, 0, 0)).1 ∧ (offsets.getD n (0, 0, 0)).1 ≤ 1) ∧
    (-1 ≤ (offsets.getD n (0, 0, 0)).2.1 ∧ (offsets.getD n (0, 0, 0)).2.1 ≤ 1) ∧
    (-1 ≤ (offsets.getD n (0, 0, 0)).2.2 ∧ (offsets.getD n (0, 0, 0)).2.2 ≤ 1) ∧
    ((offsets.getD n (0, 0, 0)).1 ≠ 0 ∨ (offsets.getD n (0, 0, 0)).2.1 ≠ 0 ∨ (offsets.getD n (0, 0, 0)).2.2 ≠ 0) ∧
    offsets.getD (25 - n) (0, 0, 0) =
      (-(offsets.getD n (0, 0, 0)).1, -(offsets.getD n (0, 0, 0)).2.1, -(offsets.getD n (0, 0, 0)).2.2) := by
  decide

theorem invNeighbor_toNat {n : Nat} (hn : n < 26) : (invNeighbor n).toNat = 25 - n := by
  unfold invNeighbor numNeighbors; omega

theorem invNeighbor_eq {n : Nat} (hn : n < 26) : invNeighbor (n : Int) = ((25 - n : Nat) : Int) := by
  unfold invNeighbor numNeighbors; omega

/-! ### one direction of `neighborPos` -/

/-- one direction of `neighborPos`: `nb = tag + off; if (periodic) nb = (nb + n) % n` -/
def stepD (n : Int) (p : Bool) (x o : Int) : Int := if p then (x + o + n).tmod n else x + o

theorem neighborPos_eq (nc : V3 Int) (per : V3 Bool) (tag off : V3 Int) :
    neighborPos nc per tag off =
      (stepD nc.1 per.1 tag.1 off.1, stepD nc.2.1 per.2.1 tag.2.1 off.2.1, stepD nc.2.2 per.2.2 tag.2.2 off.2.2) :=
  rfl

theorem posInRange_iff (nc p : V3 Int) : posInRange nc p = true ↔
    (0 ≤ p.1 ∧ p.1 < nc.1) ∧ (0 ≤ p.2.1 ∧ p.2.1 < nc.2.1) ∧ (0 ≤ p.2.2 ∧ p.2.2 < nc.2.2) := by
  unfold posInRange V3.all V3.map2
  simp only [Bool.and_eq_true, decide_eq_true_eq]
  constructor
  · rintro ⟨⟨h1, h2⟩, h3⟩; exact ⟨h1, h2, h3⟩
  · rintro ⟨h1, h2, h3⟩; exact ⟨⟨h1, h2⟩, h3⟩

/-- C `%` on the values that occur: `n−1 ≤ a ≤ 2n` -/
theorem tmod_wrap {n a : Int} (hn : 2 ≤ n) (h0 : n - 1 ≤ a) (h1 : a ≤ 2 * n) :
    0 ≤ a.tmod n ∧ a.tmod n < n ∧ (a.tmod n = a ∨ a.tmod n = a - n ∨ a.tmod n = a - 2 * n) := by
  rw [Int.tmod_eq_emod_of_nonneg (by omega)]
  refine ⟨Int.emod_nonneg _ (by omega), Int.emod_lt_of_pos _ (by omega), ?_⟩
  by_cases c1 : a < n
  · left; exact Int.emod_eq_of_lt (by omega) c1
  · by_cases c2 : a < 2 * n
    · right; left
      rw [← Int.sub_emod_right]
      exact Int.emod_eq_of_lt (by omega) (by omega)
    · right; right
      have : a = 2 * n := by omega
      rw [this]
      have : (2 * n) % n = 0 := by simp
      omega

/-- what `stepD` returns for a cell coordinate `0 ≤ x < n` and an offset component in `{−1,0,1}` -/
theorem stepD_spec {n x o : Int} (p : Bool) (hn : 2 ≤ n) (hx0 : 0 ≤ x) (hx1 : x < n) (ho0 : -1 ≤ o) (ho1 : o ≤ 1) :
    (p = true → 0 ≤ stepD n p x o ∧ stepD n p x o < n ∧
      (stepD n p x o = x + o ∨ stepD n p x o = x + o + n ∨ stepD n p x o = x + o - n)) ∧
    (p = false → stepD n p x o = x + o) := by
  unfold stepD
  constructor
  · intro hp
    simp only [hp, if_true]
    have := tmod_wrap (a := x + o + n) hn (by omega) (by omega)
    omega
  · intro hp; simp [hp]

/-- going back from the neighbour with the negated offset gives the cell again -/
theorem stepD_mirror {n x o : Int} (p : Bool) (hn : 2 ≤ n) (hx0 : 0 ≤ x) (hx1 : x < n) (ho0 : -1 ≤ o) (ho1 : o ≤ 1)
    (hr0 : 0 ≤ stepD n p x o) (hr1 : stepD n p x o < n) : stepD n p (stepD n p x o) (-o) = x := by
  have h1 := stepD_spec p hn hx0 hx1 ho0 ho1
  have h2 := stepD_spec (x := stepD n p x o) (o := -o) p hn hr0 hr1 (by omega) (by omega)
  cases p
  · have a := h1.2 rfl
    have b := h2.2 rfl
    omega
  · have a := h1.1 rfl
    have b := h2.1 rfl
    omega

/-- a non-zero offset component leads to a different coordinate (at least two cells per direction) -/
theorem stepD_ne {n x o : Int} (p : Bool) (hn : 2 ≤ n) (hx0 : 0 ≤ x) (hx1 : x < n) (ho0 : -1 ≤ o) (ho1 : o ≤ 1)
    (ho : o ≠ 0) : stepD n p x o ≠ x := by
  have h1 := stepD_spec p hn hx0 hx1 ho0 ho1
  cases p
  · have a := h1.2 rfl
    omega
  · have a := h1.1 rfl
    omega

/-! ### `cellPositions` and `TOCELLINDEX` -/

theorem length_flatMap_const {β : Type} (f : Nat → List β) (k : Nat) (hf : ∀ a, (f a).length = k) (l : List Nat) :
    (l.flatMap f).length = l.length * k := by
  induction l with
  | nil => simp
  | cons a r ih =>
    simp only [List.flatMap_cons, List.length_append, hf a, ih, List.length_cons]; rw [Nat.add_mul]; omega

theorem getElem?_flatMap_range_const {β : Type} (f : Nat → List β) (k : Nat) (hf : ∀ a, (f a).length = k) :
    ∀ n a b, a < n → b < k → ((List.range n).flatMap f)[a * k + b]? = (f a)[b]? := by
  intro n
  induction n with
  | zero => intro a b ha; omega
  | succ m ih =>
    intro a b ha hb
    rw [List.range_succ, List.flatMap_append]
    have hlen : ((List.range m).flatMap f).length = m * k := by
      rw [length_flatMap_const f k hf]; simp
    by_cases ham : a < m
    · have h1 : a * k + b < m * k := by
        have : (a + 1) * k ≤ m * k := Nat.mul_le_mul_right k (by omega)
        rw [Nat.add_mul] at this; omega
      rw [List.getElem?_append_left (by rw [hlen]; exact h1)]
      exact ih a b ham hb
    · have : a = m := by omega
      subst this
      rw [List.getElem?_append_right (by rw [hlen]; omega), hlen]
      simp

/-- the cell created as number `z·(ny·nx) + y·nx + x` has the position `(x, y, z)` -/
theorem cellPositions_getElem? (nx ny nz : Nat) {x y z : Nat} (hx : x < nx) (hy : y < ny) (hz : z < nz) :
    (cellPositions ((nx : Int), (ny : Int), (nz : Int)))[z * (ny * nx) + (y * nx + x)]? =
      some ((x : Int), (y : Int), (z : Int)) := by
  unfold cellPositions V3.x V3.y V3.z
  simp only [Int.toNat_natCast]
  rw [getElem?_flatMap_range_const _ (ny * nx) _ nz z (y * nx + x) hz]
  · rw [getElem?_flatMap_range_const _ nx _ ny y x hy hx]
    · simp [hx]
    · intro a; simp
  · have : (y + 1) * nx ≤ ny * nx := Nat.mul_le_mul_right nx (by omega)
    rw [Nat.add_mul] at this; omega
  · intro a
    rw [length_flatMap_const _ nx]
    · simp
    · intro b; simp

/-- what the link-list theorem needs to know about the cells: at least two per direction, and cell number
`i` is the cell with `TOCELLINDEX(tag) = i` (`cells_by_pos` is the identity) -/
structure GeoOK (nc : V3 Int) (cells : Array CellGeom) (N : Nat) : Prop where
  size : cells.size = N
  nc2 : 2 ≤ nc.1 ∧ 2 ≤ nc.2.1 ∧ 2 ≤ nc.2.2
  prod : nc.1 * nc.2.1 * nc.2.2 = (N : Int)
  tag_range : ∀ c, c < N → posInRange nc (cells.getD c default).tag = true
  tag_idx : ∀ c, c < N → (toCellIndex (cells.getD c default).tag nc).toNat = c
  idx_tag : ∀ p, posInRange nc p = true → (cells.getD (toCellIndex p nc).toNat default).tag = p

theorem mkCells_getD (nc : V3 Int) (c1 width : V3 Rat) {i : Nat} {p : V3 Int}
    (h : (cellPositions nc)[i]? = some p) : ((mkCells nc c1 width).getD i default).tag = p := by
  unfold mkCells
  simp [Array.getD_eq_getD_getElem?, List.getElem?_map, h]

theorem decompose_index {nx ny nz c : Nat} (hx : 0 < nx) (hy : 0 < ny) (hc : c < nz * (ny * nx)) :
    ∃ x y z, x < nx ∧ y < ny ∧ z < nz ∧ c = z * (ny * nx) + (y * nx + x) := by
  have hM : 0 < ny * nx := Nat.mul_pos hy hx
  have hzz : c / (ny * nx) < nz := (Nat.div_lt_iff_lt_mul hM).mpr hc
  have hr : c % (ny * nx) < ny * nx := Nat.mod_lt _ hM
  have hyy : c % (ny * nx) / nx < ny := (Nat.div_lt_iff_lt_mul hx).mpr hr
  have hxx : c % (ny * nx) % nx < nx := Nat.mod_lt _ hx
  have e1 := Nat.div_add_mod c (ny * nx)
  have e2 := Nat.div_add_mod (c % (ny * nx)) nx
  refine ⟨_, _, _, hxx, hyy, hzz, ?_⟩
  rw [Nat.mul_comm (c / (ny * nx)), Nat.mul_comm (c % (ny * nx) / nx), e2, e1]

theorem mkCells_geo (nx ny nz : Nat) (hx : 2 ≤ nx) (hy : 2 ≤ ny) (hz : 2 ≤ nz) (c1 width : V3 Rat) :
    GeoOK ((nx : Int), (ny : Int), (nz : Int)) (mkCells ((nx : Int), (ny : Int), (nz : Int)) c1 width)
      (nz * (ny * nx)) := by
  have hidx : ∀ x y z : Nat, (toCellIndex ((x : Int), (y : Int), (z : Int)) ((nx : Int), (ny : Int), (nz : Int))).toNat
      = z * (ny * nx) + (y * nx + x) := by
    intro x y z
    unfold toCellIndex
    simp only []
    have : (((z : Int) * (ny : Int) + (y : Int)) * (nx : Int) + (x : Int)) = ((z * (ny * nx) + (y * nx + x) : Nat) : Int) := by
      simp only [Int.natCast_add, Int.natCast_mul]
      rw [Int.add_mul, Int.mul_assoc, Int.add_assoc]
    rw [this, Int.toNat_natCast]
  refine ⟨?_, ⟨?_, ?_, ?_⟩, ?_, ?_, ?_, ?_⟩
  · simp [mkCells, cellPositions_length]
  · show (2 : Int) ≤ (nx : Int); omega
  · show (2 : Int) ≤ (ny : Int); omega
  · show (2 : Int) ≤ (nz : Int); omega
  · simp only [Int.natCast_mul]
    rw [Int.mul_comm (nz : Int), Int.mul_comm (ny : Int)]
  · intro c hc
    obtain ⟨x, y, z, hxx, hyy, hzz, hc'⟩ := decompose_index (by omega) (by omega) hc
    have := cellPositions_getElem? nx ny nz hxx hyy hzz
    rw [← hc'] at this
    rw [mkCells_getD _ _ _ this, posInRange_iff]
    show (0 ≤ (x : Int) ∧ (x : Int) < nx) ∧ (0 ≤ (y : Int) ∧ (y : Int) < ny) ∧ (0 ≤ (z : Int) ∧ (z : Int) < nz)
    omega
  · intro c hc
    obtain ⟨x, y, z, hxx, hyy, hzz, hc'⟩ := decompose_index (by omega) (by omega) hc
    have := cellPositions_getElem? nx ny nz hxx hyy hzz
    rw [← hc'] at this
    rw [mkCells_getD _ _ _ this, hidx]
    exact hc'.symm
  · intro p hp
    rw [posInRange_iff] at hp
    simp only [] at hp
    obtain ⟨⟨hx0, hx1⟩, ⟨hy0, hy1⟩, hz0, hz1⟩ := hp
    obtain ⟨px, py, pz⟩ := p
    simp only [] at hx0 hx1 hy0 hy1 hz0 hz1
    obtain ⟨x, rfl⟩ := Int.eq_ofNat_of_zero_le hx0
    obtain ⟨y, rfl⟩ := Int.eq_ofNat_of_zero_le hy0
    obtain ⟨z, rfl⟩ := Int.eq_ofNat_of_zero_le hz0
    rw [hidx]
    exact mkCells_getD _ _ _ (cellPositions_getElem? nx ny nz (by omega) (by omega) (by omega))

/-! ### the neighbour relation -/

/-- the cell that the loop "look for neighbours" finds for cell `c` in direction `n` (`none`: outside the region) -/
def nbr (nc : V3 Int) (cells : Array CellGeom) (per : V3 Bool) (c n : Nat) : Option Nat :=
  if posInRange nc (neighborPos nc per (cells.getD c default).tag (offsets.getD n (0, 0, 0))) then
    some (toCellIndex (neighborPos nc per (cells.getD c default).tag (offsets.getD n (0, 0, 0))) nc).toNat
  else none

theorem nbr_some {nc : V3 Int} {cells : Array CellGeom} {per : V3 Bool} {c n t : Nat}
    (h : nbr nc cells per c n = some t) :
    posInRange nc (neighborPos nc per (cells.getD c default).tag (offsets.getD n (0, 0, 0))) = true ∧
    t = (toCellIndex (neighborPos nc per (cells.getD c default).tag (offsets.getD n (0, 0, 0))) nc).toNat := by
  unfold nbr at h
  split at h
  · rename_i hr; exact ⟨hr, (Option.some.inj h).symm⟩
  · simp at h

theorem nbr_lt {nc : V3 Int} {cells : Array CellGeom} {N : Nat} (geo : GeoOK nc cells N) {per : V3 Bool}
    {c n t : Nat} (h : nbr nc cells per c n = some t) : t < N := by
  obtain ⟨hr, rfl⟩ := nbr_some h
  have := toCellIndex_lt hr
  have := geo.prod
  omega

theorem nbr_tag {nc : V3 Int} {cells : Array CellGeom} {N : Nat} (geo : GeoOK nc cells N) {per : V3 Bool}
    {c n t : Nat} (h : nbr nc cells per c n = some t) :
    (cells.getD t default).tag = neighborPos nc per (cells.getD c default).tag (offsets.getD n (0, 0, 0)) := by
  obtain ⟨hr, rfl⟩ := nbr_some h
  exact geo.idx_tag _ hr

/-- the neighbour is another cell (at least two cells per direction) -/
theorem nbr_ne {nc : V3 Int} {cells : Array CellGeom} {N : Nat} (geo : GeoOK nc cells N) {per : V3 Bool}
    {c n t : Nat} (hc : c < N) (hn : n < 26) (h : nbr nc cells per c n = some t) : t ≠ c := by
  intro e
  have ht := nbr_tag geo h
  rw [e, neighborPos_eq] at ht
  have hr := (posInRange_iff _ _).mp (geo.tag_range c hc)
  obtain ⟨⟨ox0, ox1⟩, ⟨oy0, oy1⟩, ⟨oz0, oz1⟩, hne, _⟩ := offsets_facts n hn
  obtain ⟨n1, n2, n3⟩ := geo.nc2
  obtain ⟨⟨x0, x1⟩, ⟨y0, y1⟩, z0, z1⟩ := hr
  have e1 := congrArg (fun p : V3 Int => p.1) ht
  have e2 := congrArg (fun p : V3 Int => p.2.1) ht
  have e3 := congrArg (fun p : V3 Int => p.2.2) ht
  simp only [] at e1 e2 e3
  rcases hne with hne | hne | hne
  · exact stepD_ne per.1 n1 x0 x1 ox0 ox1 hne e1.symm
  · exact stepD_ne per.2.1 n2 y0 y1 oy0 oy1 hne e2.symm
  · exact stepD_ne per.2.2 n3 z0 z1 oz0 oz1 hne e3.symm

/-- **mirror property**: if `t` is the neighbour of `c` in direction `n`, then `c` is the neighbour of `t` in
direction `INV_NEIGHBOR(n) = 25 − n` -/
theorem nbr_mirror {nc : V3 Int} {cells : Array CellGeom} {N : Nat} (geo : GeoOK nc cells N) {per : V3 Bool}
    {c n t : Nat} (hc : c < N) (hn : n < 26) (h : nbr nc cells per c n = some t) :
    nbr nc cells per t (25 - n) = some c := by
  have ht := nbr_tag geo h
  obtain ⟨hr, _⟩ := nbr_some h
  have hrc := geo.tag_range c hc
  have hback : neighborPos nc per (cells.getD t default).tag (offsets.getD (25 - n) (0, 0, 0)) =
      (cells.getD c default).tag := by
    rw [ht]
    rw [neighborPos_eq] at hr ⊢
    have hr' := (posInRange_iff _ _).mp hr
    have hrc' := (posInRange_iff _ _).mp hrc
    obtain ⟨⟨ox0, ox1⟩, ⟨oy0, oy1⟩, ⟨oz0, oz1⟩, _, hinv⟩ := offsets_facts n hn
    obtain ⟨n1, n2, n3⟩ := geo.nc2
    obtain ⟨⟨x0, x1⟩, ⟨y0, y1⟩, z0, z1⟩ := hrc'
    obtain ⟨⟨a0, a1⟩, ⟨b0, b1⟩, d0, d1⟩ := hr'
    simp only [] at a0 a1 b0 b1 d0 d1
    rw [hinv, neighborPos_eq]
    simp only []
    rw [stepD_mirror per.1 n1 x0 x1 ox0 ox1 a0 a1, stepD_mirror per.2.1 n2 y0 y1 oy0 oy1 b0 b1,
      stepD_mirror per.2.2 n3 z0 z1 oz0 oz1 d0 d1]
  unfold nbr
  rw [hback, if_pos hrc, geo.tag_idx c hc]

end Sympler.Grid
