import Sympler.Basic
import Sympler.Gen.DataFormatGen
/-!
# Executable model of `DataFormat` / `Data` / `SmartPointer` (C14)

Mirrors `/repo/source/include/basic/data_format.h`, `/repo/source/src/basic/data_format.cpp`
and `/repo/source/include/basic/smart_pointer.h`.  Core Lean only.

Modelling decisions (all visible in the definitions below):

* The enum, the raw `sizeof`s, the C++ `alignof`s, `DATA_ALIGNMENT` and the rounding rule of
  `alignDataFor` come from `Sympler/Gen/DataFormatGen.lean`.  The static table
  `c_size_of_datatype` is `csize al t`, with `al = none` when `alignDataFor` was never called
  and `al = some a` after `alignDataFor(a)` (the call is idempotent, `alignRound_idem`).
* A `DataFormat` is `Format`: `m_attr_by_index` (`byIndex`), `m_attr_by_name` (`byName`, a list
  searched by name; the order of a `std::map` is never used here) and `m_size`.
  `protect/unprotect` write `m_attr_by_index[i].persistent` only, so the two tables may
  disagree on `persistent`; both are modelled.
* A memory block `malloc(m_size)` is `Block`: its byte size and one `Val` per attribute that
  lies inside it (index order).  An attribute of the (shared, possibly grown) format that is
  not inside the block is out of bounds: touching it is the error `ubStale`.
* `SmartPointer<T>` inside a block is `Val.sp (a : Option Addr)`: `none` is the all-zero state
  (`m_value = m_ref_count = NULL`, what `memset` leaves), `some a` points to heap cell `a`
  which holds the container *and* the reference counter (they are allocated and freed
  together).  Freed cells stay in the heap as `none`, addresses are never reused, so a
  dangling pointer is detected (`ubUaf`) instead of silently aliasing a new cell.
  The third state of the C++ class (`m_value = NULL`, `m_ref_count` dangling, left by a manual
  `release()`) never occurs inside a block: `DataFormat` always follows `release()` by
  `memset`/`free`.
* `std::string` inside a block is `Val.str (s : Option (List Char))`: `none` is the all-zero
  byte pattern (the block is `memset` to 0 and no constructor ever runs), `some s` is a string
  that was assigned.  With libstdc++ the zero pattern reads as the empty string, assigning a
  non-empty string to it works, assigning the empty string to it writes through the null
  `_M_p` (`ubStrNull`).  Duplicating a block that contains an assigned string with `memcpy`
  (copy constructor, `operator=`) makes two `std::string` objects share one buffer; the model
  stops there with `ubStrCopy` (what happens afterwards is libstdc++ specific: aliasing, then
  use after free).  Moving a block (`Data::addAttribute`: `memcpy` + `free` of the old block)
  leaves one object and is modelled as a move.
* `memcpy` with a `NULL` argument (also with length 0) is `ubNullBlock`.
* `malloc` returns memory aligned for every type, so the object of an attribute is aligned iff its
  offset is a multiple of the `alignof` of its C++ type.  A typed access (accessor, member call
  on a smart pointer in `alloc`/`release`/`clear`/the copy loop) to a misaligned object is
  `ubMisaligned`; `memset`/`memcpy` are untyped.  Inside one function the model tests alignment of
  all smart pointers it will touch before the loop (the order in which several undefined
  behaviours of one call are reported is a convention shared with the harness).
* The ghost list `leaked` records cells whose last smart pointer was overwritten by the `memcpy`
  of `operator=`; nothing reads it except the observer `leakcheck` (LeakSanitizer in the harness).
  Character buffers of `std::string` attributes are never freed by the code at all (no destructor
  is run by `DataFormat::release`/`clear`); they are not tracked.
* A double is the rational it denotes (the harness prints the shortest decimal that reads
  back to the same double); `int` is `Int`, the protocol only admits |n| < 10^9.
* Text: `toStringByIndex`/`fromStringByIndex` are modelled on `List Char`.  The number codec
  (`sprintf("%g")`, `ostream << double`, `sprintf("%i")`, `atof`, `atoi`) is a parameter
  (`NumCodec`); `NumCodec.model` is the executable instance used by the driver
  (`%g` with 6 significant digits, round half even on the exact value).
  `int pos = value.find(c)+1` etc. are modelled on suffixes: the current position is the
  remaining suffix, `find` failing gives `endpos = -1`, the substring then runs to the end of the
  text and the next position is `0`, i.e. the whole text again.
-/
namespace Sympler.DataFormat

open Sympler.Gen.DataFormat (sizeofRaw alignofCxx alignRound dataAlignment)

/-! ## Types, sizes -/

/-- `enum DataFormat::datatype_t` (without `WITH_ARRAY_TYPES`). -/
inductive DType
  | INT | DOUBLE | INT_POINT | POINT | TENSOR | STRING
  | VECTOR_INT | VECTOR_DOUBLE | VECTOR_POINT | VECTOR_TENSOR
  deriving DecidableEq, Repr, Inhabited

namespace DType

/-- the enum value -/
def toNat : DType → Nat
  | INT => 0 | DOUBLE => 1 | INT_POINT => 2 | POINT => 3 | TENSOR => 4 | STRING => 5
  | VECTOR_INT => 6 | VECTOR_DOUBLE => 7 | VECTOR_POINT => 8 | VECTOR_TENSOR => 9

def all : List DType :=
  [INT, DOUBLE, INT_POINT, POINT, TENSOR, STRING, VECTOR_INT, VECTOR_DOUBLE, VECTOR_POINT, VECTOR_TENSOR]

def name (t : DType) : String := Sympler.Gen.DataFormat.datatypeNames.getD t.toNat "?"

def ofName? (s : String) : Option DType := all.find? (fun t => t.name == s)

/-- has a `case` in `DATAFORMAT_CONTAINER_SWITCH` / `alloc_smart_pointer` / `release_smart_pointer`
    (the three tables of the generated file agree, `Props.C14`: `C14_gen_tables`). -/
def isContainer (t : DType) : Bool := Sympler.Gen.DataFormat.containerSwitch.contains t.toNat

/-- `DataFormat::c_size_of_datatype[t]` as initialised. -/
def rawSize (t : DType) : Nat := sizeofRaw.getD t.toNat 0

/-- `alignof` of the C++ type stored for `t`. -/
def cxxAlign (t : DType) : Nat := alignofCxx.getD t.toNat 1

end DType

/-- `DataFormat::c_size_of_datatype[t]`; `al = some a` after `alignDataFor(a)`. -/
def csize (al : Option Nat) (t : DType) : Nat :=
  match al with
  | none => t.rawSize
  | some a => alignRound a t.rawSize

/-! ## Errors -/

inductive Err
  /- protocol level (the harness rejects the same lines without calling the code) -/
  | parse | nodata | nofmt | index | type | text
  /- `gError` thrown by the code, state unchanged -/
  | typeMismatch | unsupported
  /- undefined behaviour of the C++; the case ends -/
  | ubNullFmt | ubNullBlock | ubStale | ubMisaligned | ubNullSp | ubStrCopy | ubStrNull | ubUaf
  deriving DecidableEq, Repr

def Err.isUB : Err → Bool
  | .ubNullFmt | .ubNullBlock | .ubStale | .ubMisaligned | .ubNullSp | .ubStrCopy | .ubStrNull
  | .ubUaf => true
  | _ => false

def Err.toString : Err → String
  | .parse => "err:parse" | .nodata => "err:nodata" | .nofmt => "err:nofmt" | .index => "err:index"
  | .type => "err:type" | .text => "err:text"
  | .typeMismatch => "err:typemismatch" | .unsupported => "err:unsupported"
  | .ubNullFmt => "ub:nullfmt" | .ubNullBlock => "ub:nullblock" | .ubStale => "ub:stale"
  | .ubMisaligned => "ub:misaligned" | .ubNullSp => "ub:nullsp" | .ubStrCopy => "ub:strcopy" | .ubStrNull => "ub:strnull"
  | .ubUaf => "ub:uaf"

/-! ## DataFormat -/

/-- `DataFormat::attribute_t` -/
structure Attr where
  name : String
  index : Nat
  offset : Nat
  dtype : DType
  persistent : Bool
  symbol : String
  deriving DecidableEq, Repr

/-- the address `m_data + offset` is not a multiple of the alignment of the C++ type stored there
    (`malloc` returns memory aligned for every type) -/
def Attr.misaligned (a : Attr) : Bool := a.offset % a.dtype.cxxAlign != 0

/-- some smart pointer among `attrs` sits at a misaligned address (a member call on it is
    undefined behaviour) -/
def spMisaligned (attrs : List Attr) : Bool := attrs.any fun a => a.dtype.isContainer && a.misaligned

/-- `class DataFormat`: `m_attr_by_index`, `m_attr_by_name`, `m_size`. -/
structure Format where
  byIndex : List Attr
  byName : List Attr
  size : Nat
  deriving DecidableEq, Repr

/-- `DataFormat::DataFormat()` -/
def Format.empty : Format := ⟨[], [], 0⟩

/-- `m_attr_by_name.find(name)` -/
def Format.find (f : Format) (name : String) : Option Attr :=
  f.byName.find? (fun a => a.name == name)

/-- `DataFormat::addAttribute(name, datatype, persistent, symbol)`: the returned attribute and
    the new format; `typeMismatch` is the `gError` "Type mismatch during request of attribute". -/
def Format.addAttribute (al : Option Nat) (f : Format) (name : String) (t : DType)
    (persistent : Bool) (symbol : String) : Except Err (Attr × Format) :=
  match f.find name with
  | none =>
    let s := if symbol == "" then name else symbol
    let attr : Attr := ⟨name, f.byIndex.length, f.size, t, persistent, s⟩
    .ok (attr, { byIndex := f.byIndex ++ [attr], byName := f.byName ++ [attr],
                 size := f.size + csize al t })
  | some a => if a.dtype ≠ t then .error .typeMismatch else .ok (a, f)

/-- `m_attr_by_index[i].persistent = p` (`Data::protect` / `Data::unprotect`) -/
def Format.setPersistent (f : Format) (i : Nat) (p : Bool) : Format :=
  match f.byIndex[i]? with
  | none => f
  | some a => { f with byIndex := f.byIndex.set i { a with persistent := p } }

/-! ## Values, heap -/

structure P3 where
  x : Rat
  y : Rat
  z : Rat
  deriving DecidableEq, Repr

/-- rows of a `tensor_t` -/
structure T9 where
  a : P3
  b : P3
  c : P3
  deriving DecidableEq, Repr

def P3.zero : P3 := ⟨0, 0, 0⟩
def T9.zero : T9 := ⟨P3.zero, P3.zero, P3.zero⟩

/-- element of a container -/
inductive Elem
  | int (n : Int) | dbl (x : Rat) | pt (p : P3) | tens (t : T9)
  deriving DecidableEq, Repr

/-- element type of a container type -/
def Elem.fits : Elem → DType → Bool
  | .int _, .VECTOR_INT => true
  | .dbl _, .VECTOR_DOUBLE => true
  | .pt _, .VECTOR_POINT => true
  | .tens _, .VECTOR_TENSOR => true
  | _, _ => false

/-- heap addresses (a notation, so that arithmetic tactics see `Nat`) -/
local notation "Addr" => Nat

/-- content of one attribute inside a block -/
inductive Val
  | int (n : Int)
  | dbl (x : Rat)
  | ipt (a b c : Int)
  | pt (p : P3)
  | tens (t : T9)
  | str (s : Option (List Char))
  | sp (a : Option Addr)
  deriving DecidableEq, Repr

/-- the all-zero byte pattern read at type `t` -/
def zeroVal : DType → Val
  | .INT => .int 0 | .DOUBLE => .dbl 0 | .INT_POINT => .ipt 0 0 0 | .POINT => .pt P3.zero
  | .TENSOR => .tens T9.zero | .STRING => .str none
  | .VECTOR_INT | .VECTOR_DOUBLE | .VECTOR_POINT | .VECTOR_TENSOR => .sp none

def Val.hasType : Val → DType → Bool
  | .int _, .INT | .dbl _, .DOUBLE | .ipt .., .INT_POINT | .pt _, .POINT | .tens _, .TENSOR
  | .str _, .STRING => true
  | .sp _, t => t.isContainer
  | _, _ => false

/-- `m_value` of a smart pointer slot -/
def Val.spAddr : Val → Option Addr
  | .sp a => a
  | _ => none

/-- an assigned `std::string` (not the zero pattern) -/
def Val.isLiveStr : Val → Bool
  | .str (some _) => true
  | _ => false

/-- heap cell: `*m_value` and `*m_ref_count` of the smart pointers that share it -/
structure Cell where
  val : List Elem
  rc : Int
  deriving DecidableEq, Repr

/-- `none` = freed -/
abbrev Heap := List (Option Cell)

def Heap.get (h : Heap) (a : Addr) : Option Cell :=
  match h[a]? with
  | some (some c) => some c
  | _ => none

/-- `new T(...)` + `new int`, `*m_ref_count = 1` -/
def Heap.allocCell (h : Heap) (v : List Elem) : Heap × Addr := (h ++ [some ⟨v, 1⟩], h.length)

/-- `(*m_ref_count)++` (`assign`, `incRefCount`) -/
def Heap.incRef (h : Heap) (a : Addr) : Except Err Heap :=
  match h.get a with
  | none => .error .ubUaf
  | some c => .ok (h.set a (some { c with rc := c.rc + 1 }))

/-- `SmartPointer::release()` for `m_value = a ≠ NULL`:
    `(*m_ref_count)--; if (!*m_ref_count) { delete m_value; delete m_ref_count; }` -/
def Heap.release (h : Heap) (a : Addr) : Except Err Heap :=
  match h.get a with
  | none => .error .ubUaf
  | some c =>
    let rc := c.rc - 1
    if rc = 0 then .ok (h.set a none) else .ok (h.set a (some { c with rc := rc }))

/-- `SmartPointer::release()` on a slot (`m_value = NULL`: nothing) -/
def Heap.releaseSlot (h : Heap) : Option Addr → Except Err Heap
  | none => .ok h
  | some a => h.release a

/-! ## Blocks -/

/-- a `malloc`ed data block -/
structure Block where
  size : Nat
  vals : List Val
  deriving DecidableEq, Repr

/-- `memset(0)` followed by `for_each(m_attr_by_index, alloc_smart_pointer(data))` -/
def allocVals : Heap → List Attr → List Val × Heap
  | h, [] => ([], h)
  | h, a :: as =>
    if a.dtype.isContainer then
      let (h1, addr) := h.allocCell []
      let (vs, h2) := allocVals h1 as
      (.sp (some addr) :: vs, h2)
    else
      let (vs, h2) := allocVals h as
      (zeroVal a.dtype :: vs, h2)

/-- `DataFormat::alloc(alloc_sp)`: `NULL` when `m_size == 0` -/
def Format.alloc (f : Format) (h : Heap) (allocSp : Bool) : Option Block × Heap :=
  if f.size = 0 then (none, h)
  else if allocSp then
    let (vs, h') := allocVals h f.byIndex
    (some ⟨f.size, vs⟩, h')
  else (some ⟨f.size, f.byIndex.map (fun a => zeroVal a.dtype)⟩, h)

/-- `for_each(m_attr_by_index, release_smart_pointer(data))`; the value list is the part of
    the attribute list that lies inside the block -/
def releaseVals : Heap → List Attr → List Val → Except Err Heap
  | h, [], _ => .ok h
  | h, a :: as, [] => if a.dtype.isContainer then .error .ubStale else releaseVals h as []
  | h, a :: as, v :: vs =>
    if a.dtype.isContainer then
      match h.releaseSlot v.spAddr with
      | .error e => .error e
      | .ok h' => releaseVals h' as vs
    else releaseVals h as vs

/-- `DataFormat::alloc(true)` with the alignment requirement of `SmartPointer::alloc()` -/
def Format.allocSp (f : Format) (h : Heap) : Except Err (Option Block × Heap) :=
  if f.size ≠ 0 && spMisaligned f.byIndex then .error .ubMisaligned else .ok (f.alloc h true)

/-- `DataFormat::release(data)`: `if (data) { for_each(...); free(data); data = NULL; }` -/
def Format.release (f : Format) (h : Heap) : Option Block → Except Err Heap
  | none => .ok h
  | some b =>
    if spMisaligned (f.byIndex.take b.vals.length) then .error .ubMisaligned
    else releaseVals h f.byIndex b.vals

/-- `DataFormat::clear(data)` (`all = false`) and `DataFormat::clearAll(data)` (`all = true`):
    for every attribute (that is not persistent): release if container, then `memset` to 0 -/
def clearVals (all : Bool) : Heap → List Attr → List Val → Except Err (List Val × Heap)
  | h, [], vs => .ok (vs, h)
  | h, a :: as, [] =>
    if all || !a.persistent then .error .ubStale else clearVals all h as []
  | h, a :: as, v :: vs =>
    if all || !a.persistent then
      match (if a.dtype.isContainer then h.releaseSlot v.spAddr else .ok h) with
      | .error e => .error e
      | .ok h1 =>
        match clearVals all h1 as vs with
        | .error e => .error e
        | .ok (vs', h2) => .ok (zeroVal a.dtype :: vs', h2)
    else
      match clearVals all h as vs with
      | .error e => .error e
      | .ok (vs', h2) => .ok (v :: vs', h2)

/-- macro `DATAFORMATCOPY_DEEP` for one container attribute, `dst` being a bitwise copy:
    `dst.incRefCount(); dst = src.deepCopy();`  Returns the new `m_value` of `dst`. -/
def deepCopySlot (h : Heap) (dst src : Option Addr) : Except Err (Heap × Option Addr) :=
  -- dst.incRefCount():  if (m_ref_count != 0) (*m_ref_count) += 1
  match (match dst with | none => Except.ok h | some x => h.incRef x) with
  | .error e => .error e
  | .ok h1 =>
    -- src.deepCopy():  SmartPointer<T>(new T(*m_value))
    match src with
    | none => .error .ubNullSp
    | some y =>
      match h1.get y with
      | none => .error .ubUaf
      | some c =>
        let (h2, n) := h1.allocCell c.val
        -- dst = tmp:  assign(): release(); m_value = n; (*m_ref_count)++
        match h2.releaseSlot dst with
        | .error e => .error e
        | .ok h3 =>
          match h3.incRef n with
          | .error e => .error e
          | .ok h4 =>
            -- ~tmp: release()
            match h4.release n with
            | .error e => .error e
            | .ok h5 => .ok (h5, some n)

/-- the loop over `m_format->rows()` after the `memcpy` in the copy constructor and in
    `operator=`.  `src` are the values of the source block, `dst` the bitwise copy.  (For
    `d = d` source and destination are the same block; iteration `k` writes slot `k` only and
    reads the source slot `k` before that, so reading the source from the snapshot is exact.) -/
def deepCopyVals : Heap → List Attr → List Val → List Val → Except Err (List Val × Heap)
  | h, [], _, dvs => .ok (dvs, h)
  | h, a :: as, sv :: svs, dv :: dvs =>
    if a.dtype.isContainer then
      match deepCopySlot h dv.spAddr sv.spAddr with
      | .error e => .error e
      | .ok (h1, n) =>
        match deepCopyVals h1 as svs dvs with
        | .error e => .error e
        | .ok (r, h2) => .ok (.sp n :: r, h2)
    else
      match deepCopyVals h as svs dvs with
      | .error e => .error e
      | .ok (r, h2) => .ok (dv :: r, h2)
  | _, _ :: _, _, _ => .error .ubStale

/-! ## Data, state -/

/-- `class Data`: `m_format` (an index into the list of formats), `m_data` -/
structure Data where
  fmt : Option Nat
  block : Option Block
  deriving DecidableEq, Repr

structure State where
  fmts : List Format
  /-- `none` = destructed -/
  datas : List (Option Data)
  heap : Heap
  /-- ghost: cells whose last pointer was overwritten by `memcpy` without `release()` -/
  leaked : List Addr
  deriving Repr

def State.init : State := ⟨[], [], [], []⟩

def State.getData (s : State) (d : Nat) : Except Err Data :=
  match s.datas[d]? with
  | some (some x) => .ok x
  | _ => .error .nodata

def State.getFmt (s : State) (f : Nat) : Except Err Format :=
  match s.fmts[f]? with
  | some x => .ok x
  | none => .error .nofmt

/-- `m_format->attrByIndex(i)` of `Data` number `d` -/
structure AttrAt where
  dat : Data
  fid : Nat
  fmt : Format
  attr : Attr

def State.attrAt (s : State) (d i : Nat) : Except Err AttrAt :=
  match s.getData d with
  | .error e => .error e
  | .ok dat =>
    match dat.fmt with
    | none => .error .ubNullFmt
    | some fid =>
      match s.getFmt fid with
      | .error e => .error e
      | .ok f =>
        match f.byIndex[i]? with
        | none => .error .index
        | some a => .ok ⟨dat, fid, f, a⟩

/-- `m_format->ptrByIndex(i, m_data)` dereferenced: the block and the stored value -/
def AttrAt.slot (l : AttrAt) (i : Nat) : Except Err (Block × Val) :=
  match l.dat.block with
  | none => .error .ubNullBlock
  | some b =>
    match b.vals[i]? with
    | none => .error .ubStale
    | some v => if l.attr.misaligned then .error .ubMisaligned else .ok (b, v)

/-- what a typed read of attribute `i` returns (containers: the content of `*m_value`) -/
inductive RVal
  | int (n : Int) | dbl (x : Rat) | ipt (a b c : Int) | pt (p : P3) | tens (t : T9)
  | str (s : List Char) | vec (l : List Elem)
  deriving DecidableEq, Repr

/-- resolve a stored value (`none`: null smart pointer; dangling: `ubUaf`) -/
def resolve (h : Heap) : Val → Except Err (Option RVal)
  | .int n => .ok (some (.int n))
  | .dbl x => .ok (some (.dbl x))
  | .ipt a b c => .ok (some (.ipt a b c))
  | .pt p => .ok (some (.pt p))
  | .tens t => .ok (some (.tens t))
  | .str none => .ok (some (.str []))
  | .str (some s) => .ok (some (.str s))
  | .sp none => .ok none
  | .sp (some a) =>
    match h.get a with
    | none => .error .ubUaf
    | some c => .ok (some (.vec c.val))

/-- `intByIndex(i)`, …, `*vectorDoubleByIndex(i)` as an rvalue -/
def State.read (s : State) (d i : Nat) : Except Err RVal :=
  match s.attrAt d i with
  | .error e => .error e
  | .ok l =>
    match l.slot i with
    | .error e => .error e
    | .ok (_, v) =>
      match resolve s.heap v with
      | .error e => .error e
      | .ok none => .error .ubNullSp
      | .ok (some r) => .ok r

/-! ## Text -/

/-- the libc / libstdc++ number conversions used by `toStringByIndex` / `fromStringByIndex` -/
structure NumCodec where
  /-- `sprintf("%g")`, `ostream << double` (default precision 6) -/
  fmtG : Rat → List Char
  /-- `sprintf("%i")` -/
  fmtI : Int → List Char
  atof : List Char → Rat
  atoi : List Char → Int

/-- `value.find(c, pos)` on the current suffix: text before `c` and text after it -/
def splitAtChar (c : Char) : List Char → Option (List Char × List Char)
  | [] => none
  | x :: xs =>
    if x = c then some ([], xs)
    else match splitAtChar c xs with
      | none => none
      | some (l, r) => some (x :: l, r)

/-- `pos = value.find(c, pos) + 1`: the suffix after the first `c`; when there is none
    `find` returns `npos` and `pos` becomes `0`: the whole text again -/
def skipPast (whole : List Char) (c : Char) (cur : List Char) : List Char :=
  match splitAtChar c cur with
  | some (_, r) => r
  | none => whole

/-- `endpos = value.find(c, pos); x = atof(string(value, pos, endpos-pos)); pos = endpos+1` -/
def numUpTo (nc : NumCodec) (whole : List Char) (c : Char) (cur : List Char) : Rat × List Char :=
  match splitAtChar c cur with
  | some (l, r) => (nc.atof l, r)
  | none => (nc.atof cur, whole)

/-- the inner loop `for (j = 0; j < SPACE_DIMS; j++)`: two numbers up to `,`, one up to `)` -/
def parseTriple (nc : NumCodec) (whole cur : List Char) : P3 × List Char :=
  let (x, c1) := numUpTo nc whole ',' cur
  let (y, c2) := numUpTo nc whole ',' c1
  let (z, c3) := numUpTo nc whole ')' c2
  (⟨x, y, z⟩, c3)

/-- `case DataFormat::POINT` of `fromStringByIndex` -/
def parsePoint (nc : NumCodec) (value : List Char) : P3 :=
  (parseTriple nc value (skipPast value '(' value)).1

/-- `case DataFormat::TENSOR` of `fromStringByIndex` -/
def parseTensor (nc : NumCodec) (value : List Char) : T9 :=
  let p0 := skipPast value '(' value
  let (a, p1) := parseTriple nc value (skipPast value '(' p0)
  let p1 := skipPast value ',' p1
  let (b, p2) := parseTriple nc value (skipPast value '(' p1)
  let p2 := skipPast value ',' p2
  let (c, _) := parseTriple nc value (skipPast value '(' p2)
  ⟨a, b, c⟩

/-- `ostream << point_t`: `"(" << x << ", " << y << ", " << z << ")"` -/
def showPoint (nc : NumCodec) (p : P3) : List Char :=
  '(' :: nc.fmtG p.x ++ [',', ' '] ++ nc.fmtG p.y ++ [',', ' '] ++ nc.fmtG p.z ++ [')']

/-- `ostream << tensor_t`: `tensor((..), (..), (..))` -/
def showTensor (nc : NumCodec) (t : T9) : List Char :=
  ['t', 'e', 'n', 's', 'o', 'r', '('] ++ showPoint nc t.a ++ [',', ' '] ++ showPoint nc t.b ++ [',', ' ']
    ++ showPoint nc t.c ++ [')']

/-- `for_each(begin, end, accumulate_xxx(" ", " ", " ")).str()` for scalars -/
def joinSp (items : List (List Char)) : List Char :=
  ' ' :: (List.intercalate [' '] items) ++ [' ']

/-- `accumulate_point_scientific(" ", " ", " ")`: each point is `" x y z "`, points separated
    by `" "`, the whole wrapped in `" "` … `" "` -/
def showVecPoint (nc : NumCodec) (l : List P3) : List Char :=
  joinSp (l.map fun p => ' ' :: nc.fmtG p.x ++ [' '] ++ nc.fmtG p.y ++ [' '] ++ nc.fmtG p.z ++ [' '])

/-- `Data::toStringByIndex` on the value read; `unsupported` is the `default:` branch -/
def toText (nc : NumCodec) (t : DType) (r : RVal) : Except Err (List Char) :=
  match t, r with
  | .INT, .int n => .ok (nc.fmtI n)
  | .DOUBLE, .dbl x => .ok (nc.fmtG x)
  | .POINT, .pt p => .ok (showPoint nc p)
  | .TENSOR, .tens m => .ok (showTensor nc m)
  | .STRING, .str s => .ok s
  | .VECTOR_DOUBLE, .vec l =>
    .ok (joinSp (l.map fun e => match e with | .dbl x => nc.fmtG x | _ => []))
  | .VECTOR_INT, .vec l =>
    .ok (joinSp (l.map fun e => match e with | .int n => nc.fmtI n | _ => []))
  | .VECTOR_POINT, .vec l =>
    .ok (showVecPoint nc (l.map fun e => match e with | .pt p => p | _ => P3.zero))
  | _, _ => .error .unsupported

/-- is there a `case` in `Data::toStringByIndex` -/
def DType.toStringSupported (t : DType) : Bool :=
  Sympler.Gen.DataFormat.toStringCases.contains t.toNat

/-- is there a `case` in `Data::fromStringByIndex` -/
def DType.fromStringSupported (t : DType) : Bool :=
  Sympler.Gen.DataFormat.fromStringCases.contains t.toNat

/-- `Data::fromStringByIndex`: the value assigned to the attribute -/
def fromText (nc : NumCodec) (t : DType) (value : List Char) : Except Err Val :=
  match t with
  | .INT => .ok (.int (nc.atoi value))
  | .DOUBLE => .ok (.dbl (nc.atof value))
  | .STRING => .ok (.str (some value))
  | .POINT => .ok (.pt (parsePoint nc value))
  | .TENSOR => .ok (.tens (parseTensor nc value))
  | _ => .error .unsupported

/-! ## Operations -/

inductive Op
  /-- `new DataFormat()` -/
  | fmt
  /-- `new DataFormat(*F)` -/
  | fmtcopy (f : Nat)
  /-- `F->addAttribute(name, type, persistent, symbol)` -/
  | fadd (f : Nat) (name : String) (t : DType) (pers : Bool) (symbol : String)
  | layout (f : Nat)
  /-- `new Data(F)` -/
  | new (f : Nat)
  /-- `new Data()` -/
  | new0
  /-- `new Data(*E)` -/
  | copy (e : Nat)
  /-- `*D = *E` -/
  | assign (d e : Nat)
  /-- `delete D` -/
  | del (d : Nat)
  /-- `D->setFormatAndAlloc(F)` -/
  | setfmt (d f : Nat)
  /-- `D->release()` -/
  | release (d : Nat)
  /-- `D->reAlloc()` -/
  | realloc (d : Nat)
  /-- `D->addAttribute(name, type, persistent, symbol)` -/
  | dadd (d : Nat) (name : String) (t : DType) (pers : Bool) (symbol : String)
  | clear (d : Nat)
  | clearall (d : Nat)
  | protect (d i : Nat)
  | unprotect (d i : Nat)
  /-- `D->xxxByIndex(i) = v` for the non-container types -/
  | set (d i : Nat) (v : Val)
  | get (d i : Nat)
  /-- `D->vectorXxxByIndex(i)->push_back(e)` -/
  | push (d i : Nat) (e : Elem)
  /-- `D->vectorXxxByIndex(i).getRefCount()` -/
  | rc (d i : Nat)
  | dump (d : Nat)
  /-- `D->toStringByIndex(i)` -/
  | tostr (d i : Nat)
  /-- `D->fromStringByIndex(i, text)` -/
  | fromstr (d i : Nat) (text : List Char)
  /-- observer of the correspondence check: is some heap cell allocated but unreachable
      (LeakSanitizer on the real objects; the ghost list here) -/
  | leakcheck
  deriving Repr

inductive DumpEntry
  | val (r : RVal) | vnull | stale | misaligned
  deriving DecidableEq, Repr

inductive Out
  | ok
  | fmt (id : Nat)
  | data (id : Nat)
  | attr (a : Attr)
  | layout (f : Format)
  | val (r : RVal)
  | rc (n : Option Int)
  | dumpNoFmt
  | dumpNull
  | dump (l : List DumpEntry)
  | str (s : List Char)
  | lsan (leaks : Bool)
  deriving Repr

def State.setData (s : State) (d : Nat) (x : Option Data) : State :=
  { s with datas := s.datas.set d x }

def State.setFmt (s : State) (f : Nat) (x : Format) : State :=
  { s with fmts := s.fmts.set f x }

/-- the format of a `Data` whose `m_format` is dereferenced -/
def State.fmtOf (s : State) (dat : Data) : Except Err (Nat × Format) :=
  match dat.fmt with
  | none => .error .ubNullFmt
  | some fid =>
    match s.getFmt fid with
    | .error e => .error e
    | .ok f => .ok (fid, f)

/-- `Data::Data(const Data &copy_data)` -/
def copyData (s : State) (e : Nat) : Except Err (State × Nat) :=
  match s.getData e with
  | .error er => .error er
  | .ok src =>
    let id := s.datas.length
    match src.fmt with
    | none => .ok ({ s with datas := s.datas ++ [some ⟨none, none⟩] }, id)
    | some fid =>
      match s.getFmt fid with
      | .error er => .error er
      | .ok f =>
        -- m_data = m_format->alloc(false);  if (m_format->size()) { memcpy(...); loop }
        if f.size = 0 then .ok ({ s with datas := s.datas ++ [some ⟨some fid, none⟩] }, id)
        else
          match src.block with
          | none => .error .ubNullBlock
          | some b =>
            if b.size < f.size then .error .ubStale
            else if b.vals.any Val.isLiveStr then .error .ubStrCopy
            else if spMisaligned f.byIndex then .error .ubMisaligned
            else
              match deepCopyVals s.heap f.byIndex b.vals b.vals with
              | .error er => .error er
              | .ok (vals, h) =>
                .ok ({ s with datas := s.datas ++ [some ⟨some fid, some ⟨f.size, vals⟩⟩],
                              heap := h }, id)

/-- `Data::operator=(const Data &copy_data)` -/
def assignData (s : State) (d e : Nat) : Except Err State :=
  match s.getData d with
  | .error er => .error er
  | .ok dst =>
  match s.getData e with
  | .error er => .error er
  | .ok src =>
    if dst.fmt ≠ src.fmt then
      -- if (m_format) m_format->release(m_data);
      match (match dst.fmt with
             | none => Except.ok s.heap
             | some fd =>
               match s.getFmt fd with
               | .error er => .error er
               | .ok f => f.release s.heap dst.block) with
      | .error er => .error er
      | .ok h1 =>
        -- m_format = copy_data.m_format; if (m_format) m_data = m_format->alloc(false);
        match src.fmt with
        | none => .ok ({ s with heap := h1 }.setData d (some ⟨none, none⟩))
        | some fid =>
          match s.getFmt fid with
          | .error er => .error er
          | .ok f =>
            -- memcpy((void*) m_data, (void*) copy_data.m_data, m_format->size());
            if f.size = 0 then .error .ubNullBlock
            else
              match src.block with
              | none => .error .ubNullBlock
              | some b =>
                if b.size < f.size then .error .ubStale
                else if b.vals.any Val.isLiveStr then .error .ubStrCopy
                else if spMisaligned f.byIndex then .error .ubMisaligned
                else
                  match deepCopyVals h1 f.byIndex b.vals b.vals with
                  | .error er => .error er
                  | .ok (vals, h) =>
                    .ok ({ s with heap := h }.setData d (some ⟨some fid, some ⟨f.size, vals⟩⟩))
    else
      match src.fmt with
      | none => .ok s
      | some fid =>
        match s.getFmt fid with
        | .error er => .error er
        | .ok f =>
          match dst.block, src.block with
          | some db, some b =>
            if db.size < f.size || b.size < f.size then .error .ubStale
            else if b.vals.any Val.isLiveStr then .error .ubStrCopy
            else if spMisaligned f.byIndex then .error .ubMisaligned
            else
              -- the memcpy overwrites the smart pointers of *this without release()
              let lost := db.vals.filterMap Val.spAddr
              match deepCopyVals s.heap f.byIndex b.vals b.vals with
              | .error er => .error er
              | .ok (vals, h) =>
                .ok ({ s with heap := h, leaked := s.leaked ++ lost }.setData d
                      (some ⟨some fid, some ⟨db.size, vals⟩⟩))
          | _, _ => .error .ubNullBlock

/-- `if (m_format) m_format->release(m_data)` (destructor, `setFormatAndAlloc`) -/
def releaseIfFmt (s : State) (dat : Data) : Except Err Heap :=
  match dat.fmt with
  | none => .ok s.heap
  | some fid =>
    match s.getFmt fid with
    | .error er => .error er
    | .ok f => f.release s.heap dat.block

/-- `Data::addAttribute` -/
def dataAddAttribute (al : Option Nat) (s : State) (d : Nat) (name : String) (t : DType)
    (pers : Bool) (symbol : String) : Except Err (State × Attr) :=
  match s.getData d with
  | .error er => .error er
  | .ok dat =>
    match s.fmtOf dat with
    | .error er => .error er
    | .ok (fid, f) =>
      match f.addAttribute al name t pers symbol with
      | .error er => .error er
      | .ok (attr, f') =>
        -- if (old_size != new_size)
        if f.size = f'.size then .ok (s.setFmt fid f', attr)
        else
          -- malloc(new_size); memset; memcpy(m_data, oldData, old_size); free(oldData);
          match dat.block with
          | none => .error .ubNullBlock
          | some b =>
            if b.size < f.size then .error .ubStale
            else if t.isContainer && attr.misaligned then .error .ubMisaligned
            else
              -- (alloc_smart_pointer(m_data))(tempAttr)
              let (v, h) :=
                if t.isContainer then
                  let (h1, a) := s.heap.allocCell []
                  (Val.sp (some a), h1)
                else (zeroVal t, s.heap)
              .ok (({ s with heap := h }.setFmt fid f').setData d
                    (some ⟨some fid, some ⟨f'.size, b.vals ++ [v]⟩⟩), attr)

/-- write through an accessor: `xxxByIndex(i) = v` (non-container types) -/
def writeVal (s : State) (l : AttrAt) (d i : Nat) (v : Val) : Except Err State :=
  match l.slot i with
  | .error er => .error er
  | .ok (b, old) =>
    -- std::string::operator= on the all-zero pattern with an empty right hand side
    if old = .str none && v = .str (some []) then .error .ubStrNull
    else .ok (s.setData d (some { l.dat with block := some { b with vals := b.vals.set i v } }))

/-- `Data::clear()` / `Data::clearAll()` -/
def clearData (all : Bool) (s : State) (d : Nat) : Except Err State :=
  match s.getData d with
  | .error e => .error e
  | .ok dat =>
    match s.fmtOf dat with
    | .error e => .error e
    | .ok (_, x) =>
      match dat.block with
      | none =>
        -- `release()`/`memset` at `NULL + offset` as soon as one attribute is touched
        if x.byIndex.any (fun a => all || !a.persistent) then .error .ubNullBlock else .ok s
      | some b =>
        if (x.byIndex.take b.vals.length).any
            (fun a => (all || !a.persistent) && a.dtype.isContainer && a.misaligned) then
          .error .ubMisaligned
        else
        match clearVals all s.heap x.byIndex b.vals with
        | .error e => .error e
        | .ok (vs, h) =>
          .ok ({ s with heap := h }.setData d (some { dat with block := some { b with vals := vs } }))

/-- `Data::protect(i)` / `Data::unprotect(i)` -/
def protectData (p : Bool) (s : State) (d i : Nat) : Except Err State :=
  match s.attrAt d i with
  | .error e => .error e
  | .ok l => .ok (s.setFmt l.fid (l.fmt.setPersistent i p))

/-- `vectorXxxByIndex(i)->push_back(e)` -/
def pushData (s : State) (d i : Nat) (e : Elem) : Except Err State :=
  match s.attrAt d i with
  | .error er => .error er
  | .ok l =>
    if !e.fits l.attr.dtype then .error .type
    else
      match l.slot i with
      | .error er => .error er
      | .ok (_, v) =>
        match v.spAddr with
        | none => .error .ubNullSp
        | some a =>
          match s.heap.get a with
          | none => .error .ubUaf
          | some c => .ok { s with heap := s.heap.set a (some { c with val := c.val ++ [e] }) }

/-- `vectorXxxByIndex(i).getRefCount()`: `m_ref_count ? *m_ref_count : 0` -/
def rcData (s : State) (d i : Nat) : Except Err Int :=
  match s.attrAt d i with
  | .error er => .error er
  | .ok l =>
    if !l.attr.dtype.isContainer then .error .type
    else
      match l.slot i with
      | .error er => .error er
      | .ok (_, v) =>
        match v.spAddr with
        | none => .ok 0
        | some a =>
          match s.heap.get a with
          | none => .error .ubUaf
          | some c => .ok c.rc

def dumpEntries (h : Heap) : List Attr → List Val → List DumpEntry
  | [], _ => []
  | _ :: as, [] => .stale :: dumpEntries h as []
  | a :: as, v :: vs =>
    (if a.misaligned then DumpEntry.misaligned
     else match resolve h v with
       | .ok (some r) => DumpEntry.val r
       | _ => DumpEntry.vnull) :: dumpEntries h as vs

/-- observer used by the correspondence check only (reads every attribute that can be read) -/
def dumpData (s : State) (d : Nat) : Except Err Out :=
  match s.getData d with
  | .error e => .error e
  | .ok dat =>
    match dat.fmt with
    | none => .ok .dumpNoFmt
    | some fid =>
      match s.getFmt fid with
      | .error e => .error e
      | .ok f =>
        match dat.block with
        | none => .ok .dumpNull
        | some b => .ok (.dump (dumpEntries s.heap f.byIndex b.vals))

/-- `Data::toStringByIndex(i)` -/
def toStrData (nc : NumCodec) (s : State) (d i : Nat) : Except Err (List Char) :=
  match s.attrAt d i with
  | .error er => .error er
  | .ok l =>
    if !l.attr.dtype.toStringSupported then .error .unsupported
    else
      match l.slot i with
      | .error er => .error er
      | .ok (_, v) =>
        match resolve s.heap v with
        | .error er => .error er
        | .ok none => .error .ubNullSp
        | .ok (some r) => toText nc l.attr.dtype r

/-- `Data::fromStringByIndex(i, value)` -/
def fromStrData (nc : NumCodec) (s : State) (d i : Nat) (value : List Char) : Except Err State :=
  match s.attrAt d i with
  | .error er => .error er
  | .ok l =>
    match fromText nc l.attr.dtype value with
    | .error er => .error er
    | .ok v => writeVal s l d i v

/-- one operation on the real objects -/
def step (al : Option Nat) (nc : NumCodec) (s : State) : Op → Except Err (State × Out)
  | .fmt => .ok ({ s with fmts := s.fmts ++ [Format.empty] }, .fmt s.fmts.length)
  | .fmtcopy f =>
    match s.getFmt f with
    | .error e => .error e
    | .ok x => .ok ({ s with fmts := s.fmts ++ [x] }, .fmt s.fmts.length)
  | .fadd f name t pers symbol =>
    match s.getFmt f with
    | .error e => .error e
    | .ok x =>
      match x.addAttribute al name t pers symbol with
      | .error e => .error e
      | .ok (a, x') => .ok (s.setFmt f x', .attr a)
  | .layout f =>
    match s.getFmt f with
    | .error e => .error e
    | .ok x => .ok (s, .layout x)
  | .new f =>
    match s.getFmt f with
    | .error e => .error e
    | .ok x =>
      match x.allocSp s.heap with
      | .error e => .error e
      | .ok (b, h) =>
        .ok ({ s with datas := s.datas ++ [some ⟨some f, b⟩], heap := h }, .data s.datas.length)
  | .new0 => .ok ({ s with datas := s.datas ++ [some ⟨none, none⟩] }, .data s.datas.length)
  | .copy e =>
    match copyData s e with
    | .error er => .error er
    | .ok (s', id) => .ok (s', .data id)
  | .assign d e =>
    match assignData s d e with
    | .error er => .error er
    | .ok s' => .ok (s', .ok)
  | .del d =>
    match s.getData d with
    | .error e => .error e
    | .ok dat =>
      match releaseIfFmt s dat with
      | .error e => .error e
      | .ok h => .ok ({ s with heap := h }.setData d none, .ok)
  | .setfmt d f =>
    match s.getData d with
    | .error e => .error e
    | .ok dat =>
      match s.getFmt f with
      | .error e => .error e
      | .ok x =>
        match releaseIfFmt s dat with
        | .error e => .error e
        | .ok h =>
          match x.allocSp h with
          | .error e => .error e
          | .ok (b, h') => .ok ({ s with heap := h' }.setData d (some ⟨some f, b⟩), .ok)
  | .release d =>
    match s.getData d with
    | .error e => .error e
    | .ok dat =>
      match s.fmtOf dat with
      | .error e => .error e
      | .ok (fid, x) =>
        match x.release s.heap dat.block with
        | .error e => .error e
        | .ok h => .ok ({ s with heap := h }.setData d (some ⟨some fid, none⟩), .ok)
  | .realloc d =>
    match s.getData d with
    | .error e => .error e
    | .ok dat =>
      match s.fmtOf dat with
      | .error e => .error e
      | .ok (fid, x) =>
        match x.release s.heap dat.block with
        | .error e => .error e
        | .ok h =>
          match x.allocSp h with
          | .error e => .error e
          | .ok (b, h') => .ok ({ s with heap := h' }.setData d (some ⟨some fid, b⟩), .ok)
  | .dadd d name t pers symbol =>
    match dataAddAttribute al s d name t pers symbol with
    | .error e => .error e
    | .ok (s', a) => .ok (s', .attr a)
  | .clear d =>
    match clearData false s d with
    | .error e => .error e
    | .ok s' => .ok (s', .ok)
  | .clearall d =>
    match clearData true s d with
    | .error e => .error e
    | .ok s' => .ok (s', .ok)
  | .protect d i =>
    match protectData true s d i with
    | .error e => .error e
    | .ok s' => .ok (s', .ok)
  | .unprotect d i =>
    match protectData false s d i with
    | .error e => .error e
    | .ok s' => .ok (s', .ok)
  | .set d i v =>
    match s.attrAt d i with
    | .error e => .error e
    | .ok l =>
      if !v.hasType l.attr.dtype || l.attr.dtype.isContainer then .error .type
      else
        match writeVal s l d i v with
        | .error e => .error e
        | .ok s' => .ok (s', .ok)
  | .get d i =>
    match s.read d i with
    | .error e => .error e
    | .ok r => .ok (s, .val r)
  | .push d i e =>
    match pushData s d i e with
    | .error er => .error er
    | .ok s' => .ok (s', .ok)
  | .rc d i =>
    match rcData s d i with
    | .error er => .error er
    | .ok n => .ok (s, .rc n)
  | .dump d =>
    match dumpData s d with
    | .error er => .error er
    | .ok o => .ok (s, o)
  | .tostr d i =>
    match toStrData nc s d i with
    | .error er => .error er
    | .ok t => .ok (s, .str t)
  | .fromstr d i text =>
    match fromStrData nc s d i text with
    | .error er => .error er
    | .ok s' => .ok (s', .ok)
  | .leakcheck => .ok (s, .lsan (!s.leaked.isEmpty))

/-- run a list of operations from a state; protocol errors and `gError`s leave the state
    unchanged, undefined behaviour ends the run.  Returns the states reached after each
    executed operation's result (newest first is not needed: the last state). -/
def run (al : Option Nat) (nc : NumCodec) : State → List Op → State
  | s, [] => s
  | s, op :: ops =>
    match step al nc s op with
    | .ok (s', _) => run al nc s' ops
    | .error e => if e.isUB then s else run al nc s ops

end Sympler.DataFormat
