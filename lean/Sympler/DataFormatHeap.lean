import Sympler.DataFormatLemmas
/-!
# Lemmas about the `DataFormat` model (C14): smart pointers, heap cells, blocks

Specifications of `allocVals`, `releaseVals`, `clearVals`, `deepCopyVals` under the ownership
invariant.  Core Lean only.
-/
namespace Sympler.DataFormat

local notation "Addr" => Nat

/-! ## Slots -/

/-- some smart pointer slot of the value list points to cell `a` -/
def owns (vs : List Val) (a : Addr) : Prop := ∃ k : Nat, vs[k]? = some (Val.sp (some a))

/-- no two slots of the value list point to the same cell -/
def slotsInj (vs : List Val) : Prop :=
  ∀ (k1 k2 : Nat) (a : Addr), vs[k1]? = some (Val.sp (some a)) → vs[k2]? = some (Val.sp (some a)) → k1 = k2

/-- the stored values have the types of the attributes -/
def typed (attrs : List Attr) (vs : List Val) : Prop :=
  ∀ (k : Nat) (v : Val) (a : Attr), vs[k]? = some v → attrs[k]? = some a → v.hasType a.dtype = true

theorem owns_nil (a : Addr) : ¬ owns [] a := by
  rintro ⟨k, hk⟩; simp at hk

theorem owns_cons {v : Val} {vs : List Val} {a : Addr} :
    owns (v :: vs) a ↔ v = Val.sp (some a) ∨ owns vs a := by
  constructor
  · rintro ⟨k, hk⟩
    cases k with
    | zero => left; simpa using hk
    | succ k => right; exact ⟨k, by simpa using hk⟩
  · rintro (h | ⟨k, hk⟩)
    · exact ⟨0, by simp [h]⟩
    · exact ⟨k + 1, by simpa using hk⟩

theorem slotsInj_nil : slotsInj [] := by
  intro k1 k2 a h; simp at h

theorem slotsInj_cons {v : Val} {vs : List Val} (h : slotsInj (v :: vs)) :
    slotsInj vs ∧ ∀ a, v = Val.sp (some a) → ¬ owns vs a := by
  constructor
  · intro k1 k2 a h1 h2
    have := h (k1 + 1) (k2 + 1) a (by simpa using h1) (by simpa using h2)
    omega
  · rintro a hv ⟨k, hk⟩
    have := h 0 (k + 1) a (by simp [hv]) (by simpa using hk)
    omega

theorem slotsInj_cons_of {v : Val} {vs : List Val} (h1 : slotsInj vs)
    (h2 : ∀ a, v = Val.sp (some a) → ¬ owns vs a) : slotsInj (v :: vs) := by
  intro k1 k2 a hk1 hk2
  cases k1 with
  | zero =>
    cases k2 with
    | zero => rfl
    | succ k2 =>
      exfalso
      exact h2 a (by simpa using hk1) ⟨k2, by simpa using hk2⟩
  | succ k1 =>
    cases k2 with
    | zero =>
      exfalso
      exact h2 a (by simpa using hk2) ⟨k1, by simpa using hk1⟩
    | succ k2 =>
      have := h1 k1 k2 a (by simpa using hk1) (by simpa using hk2)
      omega

theorem typed_cons {a : Attr} {as : List Attr} {v : Val} {vs : List Val} (h : typed (a :: as) (v :: vs)) :
    v.hasType a.dtype = true ∧ typed as vs :=
  ⟨h 0 v a (by simp) (by simp), fun k v' a' h1 h2 => h (k + 1) v' a' (by simpa using h1) (by simpa using h2)⟩

theorem typed_cons_of {a : Attr} {as : List Attr} {v : Val} {vs : List Val}
    (h1 : v.hasType a.dtype = true) (h2 : typed as vs) : typed (a :: as) (v :: vs) := by
  intro k v' a' hv ha
  cases k with
  | zero => simp at hv ha; subst hv ha; exact h1
  | succ k => exact h2 k v' a' (by simpa using hv) (by simpa using ha)

theorem typed_nil_right (attrs : List Attr) : typed attrs [] := by
  intro k v a h; simp at h

theorem hasType_container {v : Val} {t : DType} (h : v.hasType t = true) (ht : t.isContainer = true) :
    ∃ x, v = Val.sp x := by
  cases v <;> cases t <;> simp_all [Val.hasType] <;> revert ht <;> decide

theorem hasType_noncontainer {v : Val} {t : DType} (h : v.hasType t = true) (ht : t.isContainer = false) :
    ∀ x, v ≠ Val.sp x := by
  intro x hx
  subst hx
  simp [Val.hasType, ht] at h

theorem zeroVal_hasType (t : DType) : (zeroVal t).hasType t = true := by
  cases t <;> decide

theorem zeroVal_not_owns (t : DType) (a : Addr) : zeroVal t ≠ Val.sp (some a) := by
  cases t <;> simp [zeroVal]

/-! ## Heap cells -/

theorem Heap.get_eq_some {h : Heap} {a : Addr} {c : Cell} : h.get a = some c ↔ h[a]? = some (some c) := by
  unfold Heap.get
  split
  · rename_i c' hc; rw [hc]; simp
  · rename_i hne
    constructor
    · intro h'; cases h'
    · intro h'; exact absurd h' (hne c)

theorem Heap.get_eq_none {h : Heap} {a : Addr} : h.get a = none ↔ ∀ c, h[a]? ≠ some (some c) := by
  constructor
  · intro hn c hc
    rw [Heap.get_eq_some.2 hc] at hn; cases hn
  · intro hn
    cases hg : h.get a with
    | none => rfl
    | some c => exact absurd (Heap.get_eq_some.1 hg) (hn c)

theorem lt_of_getElem?_some {α : Type} {l : List α} {i : Nat} {x : α} (h : l[i]? = some x) : i < l.length :=
  (List.getElem?_eq_some_iff.1 h).1

/-- releasing the only reference frees the cell -/
theorem Heap.release_one {h : Heap} {a : Addr} {c : Cell} (hc : h[a]? = some (some c)) (hrc : c.rc = 1) :
    h.release a = .ok (h.set a none) := by
  unfold Heap.release
  rw [Heap.get_eq_some.2 hc]
  simp [hrc]

/-! ## `allocVals` -/

theorem allocVals_spec (attrs : List Attr) : ∀ (h : Heap),
    (allocVals h attrs).1.length = attrs.length ∧
    (∃ extra : List (Option Cell), (allocVals h attrs).2 = h ++ extra ∧ ∀ c ∈ extra, c = some ⟨[], 1⟩) ∧
    (∀ (k : Nat) (a : Nat), (allocVals h attrs).1[k]? = some (Val.sp (some a)) →
        h.length ≤ a ∧ a < (allocVals h attrs).2.length) ∧
    slotsInj (allocVals h attrs).1 ∧
    (∀ a, h.length ≤ a → a < (allocVals h attrs).2.length → owns (allocVals h attrs).1 a) ∧
    (∀ (k : Nat) (v : Val) (att : Attr), (allocVals h attrs).1[k]? = some v → attrs[k]? = some att →
        if att.dtype.isContainer then ∃ a, v = Val.sp (some a) else v = zeroVal att.dtype) := by
  induction attrs with
  | nil =>
    intro h
    refine ⟨rfl, ⟨[], by simp [allocVals], by simp⟩, ?_, ?_, ?_, ?_⟩
    · intro k a hk; simp [allocVals] at hk
    · exact slotsInj_nil
    · intro a h1 h2; simp [allocVals] at h2; omega
    · intro k v att hk; simp [allocVals] at hk
  | cons x xs ih =>
    intro h
    by_cases hc : x.dtype.isContainer = true
    · have hdef : allocVals h (x :: xs) =
          (Val.sp (some h.length) :: (allocVals (h ++ [some ⟨[], 1⟩]) xs).1,
           (allocVals (h ++ [some ⟨[], 1⟩]) xs).2) := by
        simp [allocVals, hc, Heap.allocCell]
      obtain ⟨i1, ⟨extra, i2, i2'⟩, i3, i4, i5, i6⟩ := ih (h ++ [some ⟨[], 1⟩])
      rw [hdef]
      have hlen1 : (h ++ [some (⟨[], 1⟩ : Cell)]).length = h.length + 1 := by simp
      refine ⟨by simp [i1], ⟨some ⟨[], 1⟩ :: extra, by simp [i2], ?_⟩, ?_, ?_, ?_, ?_⟩
      · intro c hc'
        simp only [List.mem_cons] at hc'
        rcases hc' with hc' | hc'
        · exact hc'
        · exact i2' c hc'
      · intro k a hk
        cases k with
        | zero =>
          simp at hk; subst hk
          simp only [i2]; simp
        | succ k =>
          have := i3 k a (by simpa using hk)
          simp only [hlen1] at this
          exact ⟨by omega, this.2⟩
      · apply slotsInj_cons_of i4
        intro a ha
        have ha' : h.length = a := by injection ha with ha; injection ha
        rintro ⟨k, hk⟩
        have := i3 k a hk
        simp only [hlen1] at this
        omega
      · intro a h1 h2
        by_cases ha : a = h.length
        · exact owns_cons.2 (Or.inl (by rw [ha]))
        · exact owns_cons.2 (Or.inr (i5 a (by simp only [hlen1]; omega) h2))
      · intro k v att hk hat
        cases k with
        | zero =>
          simp at hk hat; subst hk hat
          simp [hc]
        | succ k => exact i6 k v att (by simpa using hk) (by simpa using hat)
    · have hc' : x.dtype.isContainer = false := by simpa using hc
      have hdef : allocVals h (x :: xs) =
          (zeroVal x.dtype :: (allocVals h xs).1, (allocVals h xs).2) := by
        simp [allocVals, hc']
      obtain ⟨i1, ⟨extra, i2, i2'⟩, i3, i4, i5, i6⟩ := ih h
      rw [hdef]
      refine ⟨by simp [i1], ⟨extra, i2, i2'⟩, ?_, ?_, ?_, ?_⟩
      · intro k a hk
        cases k with
        | zero => simp at hk; exact absurd hk (zeroVal_not_owns _ _)
        | succ k => exact i3 k a (by simpa using hk)
      · apply slotsInj_cons_of i4
        intro a ha; exact absurd ha (zeroVal_not_owns _ _)
      · intro a h1 h2
        exact owns_cons.2 (Or.inr (i5 a h1 h2))
      · intro k v att hk hat
        cases k with
        | zero =>
          simp at hk hat; subst hk hat
          simp [hc']
        | succ k => exact i6 k v att (by simpa using hk) (by simpa using hat)

/-! ## `releaseVals` -/

/-- every cell owned by the value list is live and has reference count 1 -/
def ownedLive (h : Heap) (vs : List Val) : Prop :=
  ∀ a, owns vs a → ∃ c : Cell, h[a]? = some (some c) ∧ c.rc = 1

theorem ownedLive_tail {h : Heap} {v : Val} {vs : List Val} (hl : ownedLive h (v :: vs)) : ownedLive h vs :=
  fun a ha => hl a (owns_cons.2 (Or.inr ha))

theorem owns_cons_noncontainer {v : Val} {vs : List Val} (hv : ∀ x, v ≠ Val.sp x) (a : Addr) :
    owns (v :: vs) a ↔ owns vs a := by
  rw [owns_cons]
  constructor
  · rintro (h | h)
    · exact absurd h (hv _)
    · exact h
  · exact Or.inr

/-- releasing a block whose smart pointers are the only references frees exactly the owned cells -/
theorem releaseVals_spec (attrs : List Attr) : ∀ (h : Heap) (vals : List Val),
    vals.length ≤ attrs.length → typed attrs vals → slotsInj vals → ownedLive h vals →
    releaseVals h attrs vals = .error .ubStale ∨
    ∃ h', releaseVals h attrs vals = .ok h' ∧ h'.length = h.length ∧
      (∀ a, owns vals a → h'[a]? = some none) ∧ (∀ a, ¬ owns vals a → h'[a]? = h[a]?) := by
  induction attrs with
  | nil =>
    intro h vals hlen _ _ _
    have : vals = [] := by cases vals with
      | nil => rfl
      | cons _ _ => simp at hlen
    subst this
    right
    exact ⟨h, by simp [releaseVals], rfl, fun a ha => absurd ha (owns_nil a), fun _ _ => rfl⟩
  | cons x xs ih =>
    intro h vals hlen hty hinj hlive
    cases vals with
    | nil =>
      by_cases hc : x.dtype.isContainer = true
      · left; simp [releaseVals, hc]
      · have hc' : x.dtype.isContainer = false := by simpa using hc
        have hdef : releaseVals h (x :: xs) [] = releaseVals h xs [] := by simp [releaseVals, hc']
        rw [hdef]
        exact ih h [] (by simp) (typed_nil_right _) slotsInj_nil hlive
    | cons v vs =>
      obtain ⟨hv, hty'⟩ := typed_cons hty
      obtain ⟨hinj', hfresh⟩ := slotsInj_cons hinj
      have hlen' : vs.length ≤ xs.length := by simp at hlen; omega
      by_cases hc : x.dtype.isContainer = true
      · obtain ⟨sx, hsx⟩ := hasType_container hv hc
        subst hsx
        cases sx with
        | none =>
          have hdef : releaseVals h (x :: xs) (Val.sp none :: vs) = releaseVals h xs vs := by
            simp [releaseVals, hc, Val.spAddr, Heap.releaseSlot]
          rw [hdef]
          have hown : ∀ a, owns (Val.sp none :: vs) a ↔ owns vs a := by
            intro a; rw [owns_cons]
            constructor
            · rintro (h' | h')
              · cases h'
              · exact h'
            · exact Or.inr
          rcases ih h vs hlen' hty' hinj' (ownedLive_tail hlive) with he | ⟨h', h1, h2, h3, h4⟩
          · left; exact he
          · right
            exact ⟨h', h1, h2, fun a ha => h3 a ((hown a).1 ha), fun a ha => h4 a (fun hh => ha ((hown a).2 hh))⟩
        | some a0 =>
          obtain ⟨c, hc0, hrc⟩ := hlive a0 (owns_cons.2 (Or.inl rfl))
          have hlt : a0 < h.length := lt_of_getElem?_some hc0
          have hdef : releaseVals h (x :: xs) (Val.sp (some a0) :: vs) = releaseVals (h.set a0 none) xs vs := by
            simp [releaseVals, hc, Val.spAddr, Heap.releaseSlot, Heap.release_one hc0 hrc]
          rw [hdef]
          have hnot : ¬ owns vs a0 := hfresh a0 rfl
          have hlive1 : ownedLive (h.set a0 none) vs := by
            intro a ha
            have hne : a0 ≠ a := fun e => hnot (e ▸ ha)
            rw [List.getElem?_set_ne hne]
            exact hlive a (owns_cons.2 (Or.inr ha))
          rcases ih (h.set a0 none) vs hlen' hty' hinj' hlive1 with he | ⟨h', h1, h2, h3, h4⟩
          · left; exact he
          · right
            refine ⟨h', h1, by rw [h2]; simp, ?_, ?_⟩
            · intro a ha
              rcases owns_cons.1 ha with ha | ha
              · injection ha with ha; injection ha with ha; subst ha
                rw [h4 _ hnot, List.getElem?_set_self hlt]
              · exact h3 a ha
            · intro a ha
              have h1' : ¬ owns vs a := fun hh => ha (owns_cons.2 (Or.inr hh))
              have h2' : a0 ≠ a := fun e => ha (owns_cons.2 (Or.inl (by rw [e])))
              rw [h4 a h1', List.getElem?_set_ne h2']
      · have hc' : x.dtype.isContainer = false := by simpa using hc
        have hv' := hasType_noncontainer hv hc'
        have hdef : releaseVals h (x :: xs) (v :: vs) = releaseVals h xs vs := by
          simp [releaseVals, hc']
        rw [hdef]
        rcases ih h vs hlen' hty' hinj' (ownedLive_tail hlive) with he | ⟨h', h1, h2, h3, h4⟩
        · left; exact he
        · right
          exact ⟨h', h1, h2, fun a ha => h3 a ((owns_cons_noncontainer hv' a).1 ha),
            fun a ha => h4 a (fun hh => ha ((owns_cons_noncontainer hv' a).2 hh))⟩

/-! ## `clearVals` -/

theorem owns_cons_skip {v : Val} {vs : List Val} (hv : ∀ a, v ≠ Val.sp (some a)) (a : Addr) :
    owns (v :: vs) a ↔ owns vs a := by
  rw [owns_cons]
  constructor
  · rintro (h | h)
    · exact absurd h (hv _)
    · exact h
  · exact Or.inr

theorem ownedLive_set_none {h : Heap} {vs : List Val} {a0 : Addr} (hl : ownedLive h vs) (hn : ¬ owns vs a0) :
    ownedLive (h.set a0 none) vs := by
  intro a ha
  have hne : a0 ≠ a := fun e => hn (e ▸ ha)
  rw [List.getElem?_set_ne hne]
  exact hl a ha

/-- `clear`/`clearAll` on a block whose smart pointers are the only references: the touched
    attributes become the zero pattern, exactly their cells are freed -/
theorem clearVals_spec (all : Bool) (attrs : List Attr) : ∀ (h : Heap) (vals : List Val),
    vals.length ≤ attrs.length → typed attrs vals → slotsInj vals → ownedLive h vals →
    clearVals all h attrs vals = .error .ubStale ∨
    ∃ vs' h', clearVals all h attrs vals = .ok (vs', h') ∧ h'.length = h.length ∧
      vs'.length = vals.length ∧
      (∀ (k : Nat) (v : Val) (a : Attr), vals[k]? = some v → attrs[k]? = some a →
        vs'[k]? = some (if all || !a.persistent then zeroVal a.dtype else v)) ∧
      (∀ a, owns vs' a → owns vals a ∧ h'[a]? = h[a]?) ∧
      (∀ a, owns vals a → ¬ owns vs' a → h'[a]? = some none) ∧
      (∀ a, ¬ owns vals a → h'[a]? = h[a]?) ∧
      slotsInj vs' := by
  induction attrs with
  | nil =>
    intro h vals hlen _ _ _
    have : vals = [] := by cases vals with
      | nil => rfl
      | cons _ _ => simp at hlen
    subst this
    right
    refine ⟨[], h, by simp [clearVals], rfl, rfl, ?_, ?_, ?_, fun _ _ => rfl, slotsInj_nil⟩
    · intro k v a hk; simp at hk
    · intro a ha; exact absurd ha (owns_nil a)
    · intro a ha; exact absurd ha (owns_nil a)
  | cons x xs ih =>
    intro h vals hlen hty hinj hlive
    cases vals with
    | nil =>
      by_cases ht : (all || !x.persistent) = true
      · left; simp only [clearVals, ht, if_true]
      · have ht' : (all || !x.persistent) = false := by simpa using ht
        have hdef : clearVals all h (x :: xs) [] = clearVals all h xs [] := by
          simp only [clearVals, ht']; simp
        rw [hdef]
        rcases ih h [] (by simp) (typed_nil_right _) slotsInj_nil hlive with he | ⟨vs', h', h1, h2, h3, h4, h5, h6, h7, h8⟩
        · left; exact he
        · right
          refine ⟨vs', h', h1, h2, h3, ?_, h5, h6, h7, h8⟩
          intro k v a hk; simp at hk
    | cons v vs =>
      obtain ⟨hv, hty'⟩ := typed_cons hty
      obtain ⟨hinj', hfresh⟩ := slotsInj_cons hinj
      have hlen' : vs.length ≤ xs.length := by simp at hlen; omega
      by_cases ht : (all || !x.persistent) = true
      · -- touched
        have hzero : ∀ a, zeroVal x.dtype ≠ Val.sp (some a) := fun a => zeroVal_not_owns _ a
        by_cases hc : x.dtype.isContainer = true
        · obtain ⟨sx, hsx⟩ := hasType_container hv hc
          subst hsx
          cases sx with
          | none =>
            have hskip : ∀ a, (Val.sp none : Val) ≠ Val.sp (some a) := by intro a h'; cases h'
            rcases ih h vs hlen' hty' hinj' (ownedLive_tail hlive) with he | ⟨vs', h', h1, h2, h3, h4, h5, h6, h7, h8⟩
            · left
              simp only [clearVals, ht, if_true, hc, Val.spAddr, Heap.releaseSlot, he]
            · right
              refine ⟨zeroVal x.dtype :: vs', h', ?_, h2, by simp [h3], ?_, ?_, ?_, ?_, ?_⟩
              · simp only [clearVals, ht, if_true, hc, Val.spAddr, Heap.releaseSlot, h1]
              · intro k v a hk ha
                cases k with
                | zero => simp at hk ha; subst ha; simp [ht]
                | succ k => simpa using h4 k v a (by simpa using hk) (by simpa using ha)
              · intro a ha
                have := h5 a ((owns_cons_skip hzero a).1 ha)
                exact ⟨(owns_cons_skip hskip a).2 this.1, this.2⟩
              · intro a ha hn
                exact h6 a ((owns_cons_skip hskip a).1 ha) (fun hh => hn ((owns_cons_skip hzero a).2 hh))
              · intro a ha
                exact h7 a (fun hh => ha ((owns_cons_skip hskip a).2 hh))
              · exact slotsInj_cons_of h8 (fun a ha => absurd ha (hzero a))
          | some a0 =>
            obtain ⟨c, hc0, hrc⟩ := hlive a0 (owns_cons.2 (Or.inl rfl))
            have hlt : a0 < h.length := lt_of_getElem?_some hc0
            have hnot : ¬ owns vs a0 := hfresh a0 rfl
            have hlive1 := ownedLive_set_none (ownedLive_tail hlive) hnot
            rcases ih (h.set a0 none) vs hlen' hty' hinj' hlive1 with he | ⟨vs', h', h1, h2, h3, h4, h5, h6, h7, h8⟩
            · left
              simp only [clearVals, ht, if_true, hc, Val.spAddr, Heap.releaseSlot, Heap.release_one hc0 hrc, he]
            · right
              refine ⟨zeroVal x.dtype :: vs', h', ?_, by rw [h2]; simp, by simp [h3], ?_, ?_, ?_, ?_, ?_⟩
              · simp only [clearVals, ht, if_true, hc, Val.spAddr, Heap.releaseSlot, Heap.release_one hc0 hrc, h1]
              · intro k v a hk ha
                cases k with
                | zero => simp at hk ha; subst ha; simp [ht]
                | succ k => simpa using h4 k v a (by simpa using hk) (by simpa using ha)
              · intro a ha
                have := h5 a ((owns_cons_skip hzero a).1 ha)
                have hne : a0 ≠ a := fun e => hnot (e ▸ this.1)
                exact ⟨owns_cons.2 (Or.inr this.1), by rw [this.2, List.getElem?_set_ne hne]⟩
              · intro a ha hn
                have hn' : ¬ owns vs' a := fun hh => hn ((owns_cons_skip hzero a).2 hh)
                rcases owns_cons.1 ha with ha | ha
                · injection ha with ha; injection ha with ha; subst ha
                  rw [h7 _ hnot, List.getElem?_set_self hlt]
                · exact h6 a ha hn'
              · intro a ha
                have h1' : ¬ owns vs a := fun hh => ha (owns_cons.2 (Or.inr hh))
                have h2' : a0 ≠ a := fun e => ha (owns_cons.2 (Or.inl (by rw [e])))
                rw [h7 a h1', List.getElem?_set_ne h2']
              · exact slotsInj_cons_of h8 (fun a ha => absurd ha (hzero a))
        · have hc' : x.dtype.isContainer = false := by simpa using hc
          have hv' := hasType_noncontainer hv hc'
          have hskip : ∀ a, v ≠ Val.sp (some a) := fun a => hv' _
          rcases ih h vs hlen' hty' hinj' (ownedLive_tail hlive) with he | ⟨vs', h', h1, h2, h3, h4, h5, h6, h7, h8⟩
          · left
            simp [clearVals, ht, hc', he]
          · right
            refine ⟨zeroVal x.dtype :: vs', h', ?_, h2, by simp [h3], ?_, ?_, ?_, ?_, ?_⟩
            · simp [clearVals, ht, hc', h1]
            · intro k v a hk ha
              cases k with
              | zero => simp at hk ha; subst ha; simp [ht]
              | succ k => simpa using h4 k v a (by simpa using hk) (by simpa using ha)
            · intro a ha
              have := h5 a ((owns_cons_skip hzero a).1 ha)
              exact ⟨(owns_cons_skip hskip a).2 this.1, this.2⟩
            · intro a ha hn
              exact h6 a ((owns_cons_skip hskip a).1 ha) (fun hh => hn ((owns_cons_skip hzero a).2 hh))
            · intro a ha
              exact h7 a (fun hh => ha ((owns_cons_skip hskip a).2 hh))
            · exact slotsInj_cons_of h8 (fun a ha => absurd ha (hzero a))
      · -- not touched: the value stays
        have ht' : (all || !x.persistent) = false := by simpa using ht
        rcases ih h vs hlen' hty' hinj' (ownedLive_tail hlive) with he | ⟨vs', h', h1, h2, h3, h4, h5, h6, h7, h8⟩
        · left
          simp [clearVals, ht', he]
        · right
          refine ⟨v :: vs', h', ?_, h2, by simp [h3], ?_, ?_, ?_, ?_, ?_⟩
          · simp [clearVals, ht', h1]
          · intro k v' a hk ha
            cases k with
            | zero => simp at hk ha; subst ha hk; simp [ht']
            | succ k => simpa using h4 k v' a (by simpa using hk) (by simpa using ha)
          · intro a ha
            rcases owns_cons.1 ha with ha | ha
            · exact ⟨owns_cons.2 (Or.inl ha), h7 a (hfresh a ha)⟩
            · have := h5 a ha
              exact ⟨owns_cons.2 (Or.inr this.1), this.2⟩
          · intro a ha hn
            rcases owns_cons.1 ha with ha | ha
            · exact absurd (owns_cons.2 (Or.inl ha)) hn
            · exact h6 a ha (fun hh => hn (owns_cons.2 (Or.inr hh)))
          · intro a ha
            exact h7 a (fun hh => ha (owns_cons.2 (Or.inr hh)))
          · exact slotsInj_cons_of h8 (fun a ha hh => hfresh a ha (h5 a hh).1)

/-! ## deep copy -/

/-- `DATAFORMATCOPY_DEEP` on a bitwise copied smart pointer whose cell has reference count 1:
    the net effect is one new cell with reference count 1, the old cell is as before -/
theorem deepCopySlot_same {h : Heap} {y : Nat} {c : Cell} (hc : h[y]? = some (some c)) (hrc : c.rc = 1) :
    deepCopySlot h (some y) (some y) = .ok (h ++ [some ⟨c.val, 1⟩], some h.length) := by
  have hlt : y < h.length := lt_of_getElem?_some hc
  obtain ⟨cv, crc⟩ := c
  simp only at hrc
  subst hrc
  have hne : y ≠ h.length := by omega
  obtain ⟨H1, hH1⟩ : ∃ H1 : Heap, H1 = h.set y (some ⟨cv, 2⟩) := ⟨_, rfl⟩
  obtain ⟨H2, hH2⟩ : ∃ H2 : Heap, H2 = H1 ++ [some ⟨cv, 1⟩] := ⟨_, rfl⟩
  obtain ⟨H3, hH3⟩ : ∃ H3 : Heap, H3 = H2.set y (some ⟨cv, 1⟩) := ⟨_, rfl⟩
  obtain ⟨H4, hH4⟩ : ∃ H4 : Heap, H4 = H3.set h.length (some ⟨cv, 2⟩) := ⟨_, rfl⟩
  have len1 : H1.length = h.length := by rw [hH1]; simp
  have len2 : H2.length = h.length + 1 := by rw [hH2]; simp [len1]
  have len3 : H3.length = h.length + 1 := by rw [hH3]; simp [len2]
  have len4 : H4.length = h.length + 1 := by rw [hH4]; simp [len3]
  have e1 : h.incRef y = .ok H1 := by
    unfold Heap.incRef; rw [Heap.get_eq_some.2 hc, hH1]; rfl
  have g1 : Heap.get H1 y = some ⟨cv, 2⟩ := by
    rw [hH1]; exact Heap.get_eq_some.2 (List.getElem?_set_self hlt)
  have g2 : Heap.get H2 y = some ⟨cv, 2⟩ := by
    apply Heap.get_eq_some.2
    rw [hH2, List.getElem?_append_left (by rw [len1]; exact hlt)]
    exact Heap.get_eq_some.1 g1
  have e3 : Heap.release H2 y = .ok H3 := by
    unfold Heap.release; rw [g2, hH3]; simp
  have g3 : Heap.get H3 h.length = some ⟨cv, 1⟩ := by
    apply Heap.get_eq_some.2
    rw [hH3, List.getElem?_set_ne hne, hH2,
      List.getElem?_append_right (by rw [len1]; exact Nat.le_refl _), len1]
    simp
  have e4 : Heap.incRef H3 h.length = .ok H4 := by
    unfold Heap.incRef; rw [g3, hH4]; rfl
  have g4 : Heap.get H4 h.length = some ⟨cv, 2⟩ := by
    rw [hH4]; exact Heap.get_eq_some.2 (List.getElem?_set_self (by rw [len3]; omega))
  have e5 : Heap.release H4 h.length = .ok (H4.set h.length (some ⟨cv, 1⟩)) := by
    unfold Heap.release; rw [g4]; simp
  have final : H4.set h.length (some ⟨cv, 1⟩) = h ++ [some ⟨cv, 1⟩] := by
    apply List.ext_getElem?
    intro i
    by_cases hi : i = h.length
    · subst hi
      rw [List.getElem?_set_self (by rw [len4]; omega)]
      simp
    · rw [List.getElem?_set_ne (Ne.symm hi), hH4, List.getElem?_set_ne (Ne.symm hi), hH3]
      by_cases hiy : i = y
      · subst hiy
        rw [List.getElem?_set_self (by rw [len2]; omega), List.getElem?_append_left hlt, hc]
      · rw [List.getElem?_set_ne (Ne.symm hiy), hH2]
        by_cases hil : i < h.length
        · rw [List.getElem?_append_left (by rw [len1]; exact hil), List.getElem?_append_left hil, hH1,
            List.getElem?_set_ne (Ne.symm hiy)]
        · rw [List.getElem?_eq_none (by simp [len1]; omega), List.getElem?_eq_none (by simp; omega)]
  unfold deepCopySlot
  simp only [e1, g1, Heap.allocCell, len1, Heap.releaseSlot, ← hH2, e3, e4, e5, final]


theorem ownedLive_append {h : Heap} {vs : List Val} (hl : ownedLive h vs) (e : List (Option Cell)) :
    ownedLive (h ++ e) vs := by
  intro a ha
  obtain ⟨c, hc, hrc⟩ := hl a ha
  exact ⟨c, by rw [List.getElem?_append_left (lt_of_getElem?_some hc)]; exact hc, hrc⟩

/-- the deep copy loop on a bitwise copy of a block: either some container pointer is null, or
    every container attribute gets a fresh cell with the same content and reference count 1,
    everything else is kept, old cells are untouched -/
theorem deepCopyVals_spec (attrs : List Attr) : ∀ (h : Heap) (vals : List Val),
    vals.length = attrs.length → typed attrs vals → ownedLive h vals →
    deepCopyVals h attrs vals vals = .error .ubNullSp ∨
    ∃ (vs' : List Val) (h' : Heap) (extra : List (Option Cell)),
      deepCopyVals h attrs vals vals = .ok (vs', h') ∧ h' = h ++ extra ∧
      (∀ c ∈ extra, ∃ l, c = some ⟨l, 1⟩) ∧ vs'.length = vals.length ∧
      (∀ (k : Nat) (a : Nat), vs'[k]? = some (Val.sp (some a)) → h.length ≤ a ∧ a < h'.length) ∧
      slotsInj vs' ∧
      (∀ a, h.length ≤ a → a < h'.length → owns vs' a) ∧
      (∀ (k : Nat) (v : Val) (att : Attr), vals[k]? = some v → attrs[k]? = some att →
        if att.dtype.isContainer then
          ∃ (y n : Addr) (c : Cell), v = Val.sp (some y) ∧ h[y]? = some (some c) ∧
            vs'[k]? = some (Val.sp (some n)) ∧ h'[n]? = some (some ⟨c.val, 1⟩)
        else vs'[k]? = some v) := by
  induction attrs with
  | nil =>
    intro h vals hlen _ _
    have : vals = [] := by cases vals with
      | nil => rfl
      | cons _ _ => simp at hlen
    subst this
    right
    refine ⟨[], h, [], by simp [deepCopyVals], by simp, by simp, rfl, ?_, slotsInj_nil, ?_, ?_⟩
    · intro k a hk; simp at hk
    · intro a h1 h2; omega
    · intro k v att hk; simp at hk
  | cons x xs ih =>
    intro h vals hlen hty hlive
    cases vals with
    | nil => simp at hlen
    | cons v vs =>
      obtain ⟨hv, hty'⟩ := typed_cons hty
      have hlen' : vs.length = xs.length := by simp at hlen; omega
      by_cases hc : x.dtype.isContainer = true
      · obtain ⟨sx, hsx⟩ := hasType_container hv hc
        subst hsx
        cases sx with
        | none =>
          left
          simp [deepCopyVals, hc, Val.spAddr, deepCopySlot]
        | some y =>
          obtain ⟨c, hc0, hrc⟩ := hlive y (owns_cons.2 (Or.inl rfl))
          have hslot := deepCopySlot_same hc0 hrc
          have hlive1 : ownedLive (h ++ [some ⟨c.val, 1⟩]) vs := ownedLive_append (ownedLive_tail hlive) _
          have hlen1 : (h ++ [some (⟨c.val, 1⟩ : Cell)]).length = h.length + 1 := by simp
          rcases ih (h ++ [some ⟨c.val, 1⟩]) vs hlen' hty' hlive1 with he | ⟨vs', h', extra, h1, h2, h3, h4, h5, h6, h7, h8⟩
          · left
            simp [deepCopyVals, hc, Val.spAddr, hslot, he]
          · right
            have hlen2 : h'.length = h.length + 1 + extra.length := by rw [h2]; simp; omega
            refine ⟨Val.sp (some h.length) :: vs', h', some ⟨c.val, 1⟩ :: extra, ?_, by rw [h2]; simp, ?_,
              by simp [h4], ?_, ?_, ?_, ?_⟩
            · simp [deepCopyVals, hc, Val.spAddr, hslot, h1]
            · intro c' hc'
              simp only [List.mem_cons] at hc'
              rcases hc' with hc' | hc'
              · exact ⟨c.val, hc'⟩
              · exact h3 c' hc'
            · intro k a hk
              cases k with
              | zero =>
                have : h.length = a := by
                  simp at hk; exact hk
                exact ⟨by omega, by omega⟩
              | succ k =>
                have := h5 k a (by simpa using hk)
                rw [hlen1] at this
                exact ⟨by omega, this.2⟩
            · apply slotsInj_cons_of h6
              intro a ha
              have ha' : h.length = a := by injection ha with ha; injection ha
              rintro ⟨k, hk⟩
              have := h5 k a hk
              rw [hlen1] at this
              omega
            · intro a ha1 ha2
              by_cases ha : a = h.length
              · exact owns_cons.2 (Or.inl (by rw [ha]))
              · exact owns_cons.2 (Or.inr (h7 a (by rw [hlen1]; omega) ha2))
            · intro k v att hk hatt
              cases k with
              | zero =>
                simp at hk hatt; subst hk hatt
                simp only [hc, if_true]
                refine ⟨y, h.length, c, rfl, hc0, by simp, ?_⟩
                rw [h2, List.append_assoc, List.getElem?_append_right (Nat.le_refl _)]
                simp
              | succ k =>
                have := h8 k v att (by simpa using hk) (by simpa using hatt)
                by_cases hca : att.dtype.isContainer = true
                · simp only [hca, if_true] at this ⊢
                  obtain ⟨y', n, c', e1, e2, e3, e4⟩ := this
                  have hown : owns vs y' := ⟨k, by rw [← e1]; simpa using hk⟩
                  obtain ⟨c0, hc0', _⟩ := hlive y' (owns_cons.2 (Or.inr hown))
                  rw [List.getElem?_append_left (lt_of_getElem?_some hc0')] at e2
                  exact ⟨y', n, c', e1, e2, by simpa using e3, e4⟩
                · simp only [hca] at this ⊢
                  simpa using this
      · have hc' : x.dtype.isContainer = false := by simpa using hc
        have hv' := hasType_noncontainer hv hc'
        have hskip : ∀ a, v ≠ Val.sp (some a) := fun a => hv' _
        rcases ih h vs hlen' hty' (ownedLive_tail hlive) with he | ⟨vs', h', extra, h1, h2, h3, h4, h5, h6, h7, h8⟩
        · left
          simp [deepCopyVals, hc', he]
        · right
          refine ⟨v :: vs', h', extra, by simp [deepCopyVals, hc', h1], h2, h3, by simp [h4], ?_, ?_, ?_, ?_⟩
          · intro k a hk
            cases k with
            | zero => simp at hk; exact absurd hk (hskip a)
            | succ k => exact h5 k a (by simpa using hk)
          · exact slotsInj_cons_of h6 (fun a ha => absurd ha (hskip a))
          · intro a ha1 ha2
            exact owns_cons.2 (Or.inr (h7 a ha1 ha2))
          · intro k v' att hk hatt
            cases k with
            | zero =>
              simp at hk hatt; subst hk hatt
              simp [hc']
            | succ k =>
              have := h8 k v' att (by simpa using hk) (by simpa using hatt)
              by_cases hca : att.dtype.isContainer = true
              · simp only [hca, if_true] at this ⊢
                obtain ⟨y', n, c', e1, e2, e3, e4⟩ := this
                exact ⟨y', n, c', e1, e2, by simpa using e3, e4⟩
              · simp only [hca] at this ⊢
                simpa using this

end Sympler.DataFormat
